/-
C07 — cell capacity, value ranges and read bounds are enforced.

Same model and spec as C06 (`Model/Builder.lean`, `Spec/TlbVal.lean`).  `Inv b` := `b` holds at most
1023 data bits and at most 4 references.  `Op` = every builder operation: the typed stores (`TVal`),
`store_cell`, `store_slice` (with the slice's REMAINING bits / refs) and `store_snake_bytes`;
`Op.run op b` = (builder after the call — partial writes of a raising call included, returned normally?).
-/
import TonVerif.Proofs.Typed
import TonVerif.Proofs.OrdCell
import TonVerif.Proofs.SrcArith
import TonVerif.Generated.Capacity
import TonVerif.Proofs.SrcTyped
import TonVerif.Proofs.SrcSnake
import TonVerif.Proofs.SrcForms

namespace TonVerif.Properties.C07
open TonVerif TonVerif.Model TonVerif.Spec.Tlb TonVerif.Proofs.Builder TonVerif.Proofs.Slice
  TonVerif.Proofs.Typed TonVerif.Proofs.OrdCell
variable {R : Type}

/-- capacity invariant: the empty builder is within capacity; EVERY operation — whether it returns
normally or raises after a partial write — keeps the builder within 1023 bits / 4 refs; hence so does
every finite history of operations (induction over the list, `List.foldl`). -/
theorem c07_invariant :
    Proofs.Builder.Inv (Builder.empty : Builder R) ∧
    (∀ (op : Op R) (b : Builder R), Proofs.Builder.Inv b → Proofs.Builder.Inv (op.run b).1) ∧
    (∀ (ops : List (Op R)), Proofs.Builder.Inv (runAll ops (Builder.empty : Builder R))) :=
  ⟨inv_empty, fun op b hb => safe_run op b hb, fun ops => inv_runAll ops _ inv_empty⟩

/-- spelled out: after any history the builder holds at most 1023 bits and 4 references. -/
theorem c07_history_bounds (ops : List (Op R)) :
    (runAll ops (Builder.empty : Builder R)).bits.length ≤ 1023 ∧
    (runAll ops (Builder.empty : Builder R)).refs.length ≤ 4 :=
  inv_runAll ops _ inv_empty

/-- `end_cell` on any within-capacity builder whose references are ordinary cell trees: the cell is
produced exactly when its depth is at most 1023 (`Cell.info` = the constructor's hash/depth
computation of C01, `none` = raises). So no produced cell exceeds 1023 bits, 4 refs or depth 1023. -/
theorem c07_end_cell_depth (H : Bytes → Bytes) (b : Builder Cell) (hb : Proofs.Builder.Inv b) (hr : OrdWFs b.refs) :
    (Cell.info H (.mk (-1) b.bits b.refs)).isSome ↔ ordDepth (.mk (-1) b.bits b.refs) ≤ 1023 := by
  have wf : OrdWF (.mk (-1) b.bits b.refs) := by
    unfold OrdWF; exact ⟨rfl, hb.1, hb.2, hr⟩
  constructor
  · intro h
    by_cases hd : ordDepth (.mk (-1) b.bits b.refs) ≤ 1023
    · exact hd
    · have := ord_too_deep H _ wf (by omega)
      simp [this] at h
  · intro hd
    obtain ⟨i, h1, _⟩ := ord_info H _ wf hd
    simp [h1]

/-- refusal, both directions, for every typed store: on a within-capacity builder the call raises
EXACTLY when the value is out of range for its stated width or its encoding does not fit the remaining
bits / references. (⇒: a store that fits is never refused; ⇐: overflow / out-of-range is always refused.) -/
theorem c07_refuse_iff (tv : TVal R) (b : Builder R) (hb : Proofs.Builder.Inv b) :
    (tv.store b).2 = false ↔ ¬ Fits tv b := by
  have := ((store_spec tv).1 b hb).1
  unfold Fits
  rw [← this]
  cases (tv.store b).2 <;> simp

/-- the same for the composite stores: `store_cell(c)` and `store_slice(s)` raise exactly when the
cell's bits / refs — for a slice its REMAINING bits / refs — do not fit. -/
theorem c07_refuse_iff_composite (bits : Bits) (refs : List R) (b : Builder R) (hb : Proofs.Builder.Inv b) :
    ((BOp.storeCell bits refs b).2 = false ↔ ¬ (b.bits.length + bits.length ≤ 1023 ∧ b.refs.length + refs.length ≤ 4)) ∧
    ((BOp.storeSlice bits refs b).2 = false ↔ ¬ (b.bits.length + bits.length ≤ 1023 ∧ b.refs.length + refs.length ≤ 4)) := by
  have h1 := ((opSpec_storeCell bits refs).1 b hb).1
  have h2 := ((opSpec_storeSlice bits refs).1 b hb).1
  simp only [true_and] at h1 h2
  constructor
  · rw [← h1]; cases (BOp.storeCell bits refs b).2 <;> simp
  · rw [← h2]; cases (BOp.storeSlice bits refs b).2 <;> simp

/-- and when they do not raise, they append exactly those bits and references. -/
theorem c07_composite_exact (bits : Bits) (refs : List R) (b : Builder R) (hb : Proofs.Builder.Inv b) :
    ((BOp.storeCell bits refs b).2 = true → (BOp.storeCell bits refs b).1 = ⟨b.bits ++ bits, b.refs ++ refs⟩) ∧
    ((BOp.storeSlice bits refs b).2 = true → (BOp.storeSlice bits refs b).1 = ⟨b.bits ++ bits, b.refs ++ refs⟩) :=
  ⟨((opSpec_storeCell bits refs).1 b hb).2, ((opSpec_storeSlice bits refs).1 b hb).2⟩

/-- read bounds for the primitive consuming reads (`load_bits`, `load_uint`, `load_int`, `load_bytes`,
`skip_bits`, `load_bit`, `load_ref`): asking for more than remains raises and leaves the slice
unchanged; otherwise the result is exactly the next bits (as a bit string / the number they denote /
the bytes they form) and the slice advances by exactly that many bits.  (Width 0 of `load_uint` /
`load_int` raises: `ba2int` of an empty string.) -/
theorem c07_read_bounds (n : Nat) (bits : Bits) (refs : List R) :
    (SOp.loadBits n ⟨bits, refs⟩ = if bits.length < n then (⟨bits, refs⟩, none)
        else (⟨bits.drop n, refs⟩, some (bits.take n))) ∧
    (SOp.loadUint n ⟨bits, refs⟩ = if n = 0 ∨ bits.length < n then (⟨bits, refs⟩, none)
        else (⟨bits.drop n, refs⟩, some (bitsVal (bits.take n) : Int))) ∧
    (SOp.loadInt n ⟨bits, refs⟩ = if n = 0 ∨ bits.length < n then (⟨bits, refs⟩, none)
        else (⟨bits.drop n, refs⟩, some (bitsValS (bits.take n)))) ∧
    (SOp.loadBytes n ⟨bits, refs⟩ = if bits.length < n * 8 then (⟨bits, refs⟩, none)
        else (⟨bits.drop (n * 8), refs⟩, some (bitsToBytes (bits.take (n * 8))))) ∧
    (SOp.skipBits n ⟨bits, refs⟩ = if bits.length < n then (⟨bits, refs⟩, none)
        else (⟨bits.drop n, refs⟩, some ())) ∧
    (SOp.loadBit ⟨bits, refs⟩ = match bits with
        | [] => (⟨bits, refs⟩, none) | b :: rest => (⟨rest, refs⟩, some b)) ∧
    (SOp.loadRef ⟨bits, refs⟩ = match refs with
        | [] => (⟨bits, refs⟩, none) | r :: rest => (⟨bits, rest⟩, some r)) := by
  refine ⟨loadBits_eq n bits refs, ?_, ?_, loadBytes_eq n bits refs, skipBits_eq n bits refs, ?_, ?_⟩
  · rw [loadUint_eq, TonVerif.Proofs.Bits.natOfBits_eq_bitsVal]
  · rw [loadInt_eq]
    split
    · rfl
    · rename_i hc
      rw [ba2intS_eq_bitsValS]
      exact take_isEmpty_false (by omega) (by omega)
  · cases bits <;> rfl
  · cases refs <;> rfl

/-- every typed read (the composite ones included: var-ints, coins, maybe-refs, dicts, addresses,
strings) — whether it returns or raises — leaves a SUFFIX of the slice it was given: it never re-reads,
reorders or invents bits or references, and (being a sequence of the primitive reads above) raises
as soon as one of its parts needs more than remains. -/
theorem c07_read_suffix (k : Kind) (s : Slice R) :
    ∃ pb pr, s.bits = pb ++ (k.load s).1.bits ∧ s.refs = pr ++ (k.load s).1.refs :=
  mono_load k s

/-! ### non-vacuity -/

/-- a builder at 1020 bits / 4 refs: `store_uint(5, 3)` fits and is accepted, `store_uint(5, 4)`
overflows, `store_uint(8, 3)` is out of range, `store_ref` has no room: the right-hand sides of
`c07_refuse_iff` take both truth values. -/
example : let b : Builder Nat := ⟨List.replicate 1020 false, [1, 2, 3, 4]⟩
    Proofs.Builder.Inv b ∧ Fits (.uint 3 5) b ∧ ¬ Fits (.uint 4 5) b ∧ ¬ Fits (.uint 3 8) b ∧ ¬ Fits (.ref 9) b := by
  simp only [Proofs.Builder.Inv, Fits, InRange, FitsUint, enc, refsOf, List.length_replicate,
    TonVerif.Proofs.Bits.uintBits_length, List.length_cons, List.length_nil]
  omega

/-- a history with failing and succeeding operations (hypothesis-free theorem, shown on an instance) -/
example : (runAll [Op.val (.uint 8 300), Op.val (.uint 8 200), Op.cell [true] [1, 2, 3, 4, 5], Op.val (.ref 1)]
    (Builder.empty : Builder Nat)).refs.length ≤ 4 := (c07_history_bounds _).2

/-! ## Source-regenerated arithmetic (`Generated/Capacity.lean`: re-translated from tvm_bitarray.py / builder.py on every run)

`Generated.bitsOverflow / bitsUnderflow` are `TvmBitarray.check_overflow / check_underflow` read as "raises";
`sizeTooLarge` is the constructor's size test; `refsFull`, `cellRefsOverflow`, `sliceRefsOverflow` are the reference
capacity tests of `Builder.store_ref / store_cell / store_slice`. -/
section Src
open TonVerif.Proofs.SrcArith
set_option linter.unusedSimpArgs false

/-- data capacity: `check_overflow` raises exactly when the bits would exceed 1023 — so an accepted write keeps
`used + length ≤ 1023` (the bound of `c07_invariant`) and a refused one would have broken it. -/
theorem c07_src_bits_capacity (used length : Nat) :
    Generated.bitsOverflow_sideOk used length ∧
    (Generated.bitsOverflow used length = false ↔ used + length ≤ 1023) ∧
    Generated.bitsOverflow used length = decide (used + length > 1023) := by
  refine ⟨by simp only [Generated.bitsOverflow_sideOk]; src_arith, ?_, ?_⟩
  · simp only [Generated.bitsOverflow, decide_eq_false_iff_not]; split <;> simp <;> omega
  · simp only [Generated.bitsOverflow, decide_eq_decide]; split <;> simp <;> omega

/-- reference capacity: `store_ref` raises exactly at 4 references, `store_cell` / `store_slice` exactly when the total
would exceed 4. -/
theorem c07_src_refs_capacity (refs more : Nat) :
    (Generated.refsFull_sideOk refs ∧ Generated.cellRefsOverflow_sideOk refs more ∧ Generated.sliceRefsOverflow_sideOk refs more) ∧
    (Generated.refsFull refs = false ↔ refs + 1 ≤ 4) ∧
    (Generated.cellRefsOverflow refs more = false ↔ refs + more ≤ 4) ∧
    (Generated.sliceRefsOverflow refs more = false ↔ refs + more ≤ 4) := by
  refine ⟨⟨?_, ?_, ?_⟩, ?_, ?_, ?_⟩
  · simp only [Generated.refsFull_sideOk]; src_arith
  · simp only [Generated.cellRefsOverflow_sideOk]; src_arith
  · simp only [Generated.sliceRefsOverflow_sideOk]; src_arith
  · simp only [Generated.refsFull, decide_eq_false_iff_not] <;> omega
  · simp only [Generated.cellRefsOverflow, decide_eq_false_iff_not] <;> omega
  · simp only [Generated.sliceRefsOverflow, decide_eq_false_iff_not] <;> omega

/-- read bound and constructor bound: `check_underflow` raises exactly when more bits are requested than remain;
`TvmBitarray(size)` refuses exactly sizes above 1023. -/
theorem c07_src_read_bound (remaining length size : Nat) :
    (Generated.bitsUnderflow_sideOk remaining length ∧ Generated.sizeTooLarge_sideOk size) ∧
    (Generated.bitsUnderflow remaining length = false ↔ length ≤ remaining) ∧
    (Generated.sizeTooLarge size = false ↔ size ≤ 1023) := by
  refine ⟨⟨?_, ?_⟩, ?_, ?_⟩
  · simp only [Generated.bitsUnderflow_sideOk]; src_arith
  · simp only [Generated.sizeTooLarge_sideOk]; src_arith
  · simp only [Generated.bitsUnderflow, decide_eq_false_iff_not]; split <;> simp <;> omega
  · simp only [Generated.sizeTooLarge, decide_eq_false_iff_not] <;> omega

/-- the hand model's capacity tests (what `c07_invariant`, `c07_refuse_iff`, `c07_read_bounds` are proved about) are the
source's tests: `extend`, `storeRef`, `storeCell`, `storeSlice`, `delBits`. -/
theorem c07_src_model_tests (xs : Bits) (r : R) (crefs : List R) (n : Nat) (b : Builder R) (s : Slice R) :
    BOp.extend xs b = (if Generated.bitsOverflow b.bits.length xs.length then (b, false)
                       else ({ b with bits := b.bits ++ xs }, true)) ∧
    BOp.storeRef r b = (if Generated.refsFull b.refs.length then (b, false) else ({ b with refs := b.refs ++ [r] }, true)) ∧
    (Generated.cellRefsOverflow b.refs.length crefs.length = true → BOp.storeCell xs crefs b = (b, false)) ∧
    (Generated.sliceRefsOverflow b.refs.length crefs.length = true → BOp.storeSlice xs crefs b = (b, false)) ∧
    (n ≠ 0 → Generated.bitsUnderflow s.bits.length n = true → SOp.delBits n s = (s, none)) := by
  have h1 := (c07_src_bits_capacity b.bits.length xs.length).2.2
  refine ⟨?_, ?_, ?_, ?_, ?_⟩
  · rw [h1]; unfold BOp.extend; by_cases h : b.bits.length + xs.length > 1023 <;> simp [h]
  · have : Generated.refsFull b.refs.length = decide (b.refs.length ≥ 4) := by
      simp only [Generated.refsFull, decide_eq_decide] <;> omega
    rw [this]; unfold BOp.storeRef; by_cases h : b.refs.length ≥ 4 <;> simp [h]
  · intro h
    have : b.refs.length + crefs.length > 4 := by
      have := (c07_src_refs_capacity b.refs.length crefs.length).2.2.1; simp [h] at this; omega
    simp [BOp.storeCell, this]
  · intro h
    have : b.refs.length + crefs.length > 4 := by
      have := (c07_src_refs_capacity b.refs.length crefs.length).2.2.2; simp [h] at this; omega
    simp [BOp.storeSlice, this]
  · intro hn h
    have : s.bits.length < n := by
      have := (c07_src_read_bound s.bits.length n 0).2.1; simp [h] at this; omega
    simp [SOp.delBits, hn, this]

/-- concrete values of the regenerated tests at the capacity boundary (hypotheses of `c07_src_model_tests` are met: a full
builder, an over-read). -/
example : Generated.bitsOverflow 1000 23 = false ∧ Generated.bitsOverflow 1000 24 = true ∧ Generated.refsFull 3 = false ∧
    Generated.refsFull 4 = true ∧ Generated.cellRefsOverflow 2 3 = true ∧ Generated.bitsUnderflow 3 4 = true := by decide

end Src

/-! ## Source-regenerated METHODS (`Generated/BuilderOps.lean`, `Generated/SliceOps.lean`: the whole `store_*` / `load_*` methods
and the `TvmBitarray` methods `extend / append / frombytes / check_overflow / check_underflow / __delitem__` they call,
re-translated from the source on every run; see `C06.c06_src_store`, `c06_src_load` for the ties to the hand model) -/
section SrcMethods
open TonVerif.Proofs.SrcBuilder TonVerif.Proofs.SrcSlice TonVerif.Proofs.SrcTyped

/-- `c07_invariant` for the regenerated methods: every regenerated builder operation (the typed stores, `store_cell`,
`store_slice`; `MkOk`: see `C06`) maps a builder within capacity to a builder within capacity — whether it returns or raises after a partial
write; hence so does every finite history of them. -/
theorem c07_src_invariant :
    ∀ (mk : Bits → List R → Option (Py.CellV R)), MkOk mk →
    (∀ (op : Op R) (f : Builder R → Builder R × Option Unit), srcOp? mk op = some f →
        ∀ b, Proofs.Builder.Inv b → Proofs.Builder.Inv (f b).1) ∧
    (∀ (fs : List (Builder R → Builder R × Option Unit)), (∀ f ∈ fs, ∃ op : Op R, srcOp? mk op = some f) →
        Proofs.Builder.Inv (fs.foldl (fun b f => (f b).1) (Builder.empty : Builder R))) := by
  intro mk hmk
  have step : ∀ (op : Op R) (f : Builder R → Builder R × Option Unit), srcOp? mk op = some f →
      ∀ b, Proofs.Builder.Inv b → Proofs.Builder.Inv (f b).1 := by
    intro op f hf b hb
    rw [srcOp_eq mk hmk op f hf b]
    exact safe_run op b hb
  refine ⟨step, ?_⟩
  intro fs
  suffices h : ∀ (b : Builder R), Proofs.Builder.Inv b → (∀ f ∈ fs, ∃ op : Op R, srcOp? mk op = some f) →
      Proofs.Builder.Inv (fs.foldl (fun b f => (f b).1) b) from h _ inv_empty
  induction fs with
  | nil => intro b hb _; exact hb
  | cons f rest ih =>
    intro b hb hall
    obtain ⟨op, hop⟩ := hall f (List.mem_cons_self)
    exact ih _ (step op f hop b hb) (fun g hg => hall g (List.mem_cons_of_mem _ hg))

/-- `c07_refuse_iff` for the regenerated methods: on a within-capacity builder a regenerated typed store raises EXACTLY when the
value is out of range for its width or its encoding does not fit the remaining bits / references. -/
theorem c07_src_refuse_iff (mk : Bits → List R → Option (Py.CellV R)) (hmk : MkOk mk) (tv : TVal R)
    (b : Builder R) (hb : Proofs.Builder.Inv b) : (srcStore mk tv b).2 = none ↔ ¬ Fits tv b := by
  rw [srcStore_eq mk hmk tv b, ← c07_refuse_iff tv b hb, ofFlag_none]

/-- the same for the regenerated composite stores: `store_cell(c)` / `store_slice(s)` raise exactly when the cell's bits / refs —
for a slice its REMAINING refs `refs[ref_offset:]` — do not fit; when they return they append exactly those. -/
theorem c07_src_refuse_iff_composite (c : Py.CellV R) (s : Py.SliceSt R) (hs : s.ref_offset ≤ s.refs.length)
    (b : Builder R) (hb : Proofs.Builder.Inv b) :
    ((Generated.BuilderOps.store_cell c b).2 = none ↔
        ¬ (b.bits.length + c.bits.length ≤ 1023 ∧ b.refs.length + c.refs.length ≤ 4)) ∧
    ((Generated.BuilderOps.store_slice s b).2 = none ↔
        ¬ (b.bits.length + s.bits.length ≤ 1023 ∧ b.refs.length + (s.refs.length - s.ref_offset) ≤ 4)) ∧
    ((Generated.BuilderOps.store_cell c b).2 = some () →
        (Generated.BuilderOps.store_cell c b).1 = ⟨b.bits ++ c.bits, b.refs ++ c.refs⟩) ∧
    ((Generated.BuilderOps.store_slice s b).2 = some () →
        (Generated.BuilderOps.store_slice s b).1 = ⟨b.bits ++ s.bits, b.refs ++ s.refs.drop s.ref_offset⟩) := by
  have hc := c07_refuse_iff_composite c.bits c.refs b hb
  have hsl := c07_refuse_iff_composite s.bits (s.refs.drop s.ref_offset) b hb
  have he := c07_composite_exact c.bits c.refs b hb
  have hes := c07_composite_exact s.bits (s.refs.drop s.ref_offset) b hb
  rw [List.length_drop] at hsl
  rw [src_store_cell_eq, src_store_slice_eq s hs]
  refine ⟨?_, ?_, ?_, ?_⟩
  · rw [← hc.1, ofFlag_none]
  · rw [← hsl.2, ofFlag_none]
  · intro h; rw [ofFlag_some] at h; rw [ofFlag_fst]; exact he.1 h
  · intro h; rw [ofFlag_some] at h; rw [ofFlag_fst]; exact hes.2 h

/-- `c07_read_bounds` for the regenerated methods: the regenerated `load_bits / load_uint / load_int / load_bytes / skip_bits /
load_bit / load_ref` (with `TvmBitarray.__delitem__` and its `check_underflow`), seen through `view`: asking for more than
remains raises and leaves the slice unchanged; otherwise the result is exactly the next bits (the number they denote / the bytes
they form) and the slice advances by exactly that many bits / one reference. -/
theorem c07_src_read_bounds (n : Nat) (s : Py.SliceSt R) :
    (viewR id (Generated.SliceOps.load_bits n s) = if s.bits.length < n then (view s, none)
        else (⟨s.bits.drop n, (view s).refs⟩, some (s.bits.take n))) ∧
    (viewR (fun (v : Nat) => (v : Int)) (Generated.SliceOps.load_uint n s) = if n = 0 ∨ s.bits.length < n then (view s, none)
        else (⟨s.bits.drop n, (view s).refs⟩, some (bitsVal (s.bits.take n) : Int))) ∧
    (viewR id (Generated.SliceOps.load_int n s) = if n = 0 ∨ s.bits.length < n then (view s, none)
        else (⟨s.bits.drop n, (view s).refs⟩, some (bitsValS (s.bits.take n)))) ∧
    (viewR id (Generated.SliceOps.load_bytes n s) = if s.bits.length < n * 8 then (view s, none)
        else (⟨s.bits.drop (n * 8), (view s).refs⟩, some (bitsToBytes (s.bits.take (n * 8))))) ∧
    (viewR id (Generated.SliceOps.skip_bits n s) = if s.bits.length < n then (view s, none)
        else (⟨s.bits.drop n, (view s).refs⟩, some ())) ∧
    (viewR id (Generated.SliceOps.load_bool s) = match s.bits with
        | [] => (view s, none) | b :: rest => (⟨rest, (view s).refs⟩, some b)) ∧
    (viewR id (Generated.SliceOps.load_ref s) = match s.refs.drop s.ref_offset with
        | [] => (view s, none) | r :: rest => (⟨s.bits, rest⟩, some r)) ∧
    -- and what `view` does not show: the bit reads leave the reference list and the offset alone
    ((Generated.SliceOps.load_uint n s).1.refs = s.refs ∧ (Generated.SliceOps.load_uint n s).1.ref_offset = s.ref_offset) := by
  have h := c07_read_bounds n s.bits (s.refs.drop s.ref_offset)
  have hv : view s = ⟨s.bits, s.refs.drop s.ref_offset⟩ := rfl
  rw [src_load_bits_eq, src_load_uint_eq, src_load_int_eq, src_load_bytes_eq, src_skip_bits_eq, src_load_bool_eq, src_load_ref_eq, hv]
  refine ⟨h.1, h.2.1, h.2.2.1, h.2.2.2.1, h.2.2.2.2.1, ?_, ?_, (src_refs_untouched n s).1⟩
  · have := h.2.2.2.2.2.1
    rw [this]
  · have := h.2.2.2.2.2.2
    rw [this]

/-- the regenerated methods at the capacity boundary: a builder at 1020 bits / 4 refs accepts `store_uint(5, 3)`, refuses
`store_uint(5, 4)` (overflow), `store_uint(8, 3)` (range) and `store_ref` (the hypotheses of `c07_src_refuse_iff` are met, both
outcomes occur); an over-read through the regenerated `load_uint` raises and leaves the slice as it was. -/
example : let b : Builder Nat := ⟨List.replicate 1020 false, [1, 2, 3, 4]⟩
    (Generated.BuilderOps.store_uint 5 3 b).2 = some () ∧ (Generated.BuilderOps.store_uint 5 4 b).2 = none ∧
    (Generated.BuilderOps.store_uint 8 3 b).2 = none ∧ (Generated.BuilderOps.store_ref 9 b).2 = none ∧
    (Generated.SliceOps.load_uint 5 (⟨[true, false], [7], 0⟩ : Py.SliceSt Nat)).2 = none ∧
    (Generated.SliceOps.load_uint 5 (⟨[true, false], [7], 0⟩ : Py.SliceSt Nat)).1.bits = [true, false] := by
  refine ⟨by decide +kernel, by decide +kernel, by decide +kernel, by decide +kernel, by decide, by decide⟩

end SrcMethods

/-! ## Source-regenerated snake store (`Generated/SnakeOps.lean`, re-translated from builder.py on every run) -/
section SrcSnake
open TonVerif.Proofs.SrcBuilder TonVerif.Proofs.SrcSnake TonVerif.Generated.SnakeOps

/-- capacity of the regenerated snake store, for EVERY byte string, EVERY cell constructor `mk` (= `Cell(..)` as `end_cell` calls
it) and EVERY within-capacity builder: (1, 2) `store_snake_bytes` / `store_snake_string` leave the builder they are called on
within 1023 bits / 4 references whether they return or raise; (3) they never ask for a cell of more than 1023 bits or more than
4 references: replacing the constructor by `guardCap mk` - which REFUSES such a cell - changes neither the outcome nor the state,
so every tail cell of the chain (127 bytes = 1016 bits, at most one reference) is within capacity. -/
theorem c07_src_snake_capacity (mk : Bits → List R → Option R) (bs : Bytes) (p : Bool) (b : Builder R)
    (hb : Proofs.Builder.Inv b) :
    Proofs.Builder.Inv (store_snake_bytes mk bs b).1 ∧
    Proofs.Builder.Inv (store_snake_string mk bs p b).1 ∧
    store_snake_bytes (guardCap mk) bs b = store_snake_bytes mk bs b := by
  refine ⟨?_, ?_, src_snake_guard mk bs b⟩
  · rw [src_store_snake_bytes_eq, ofFlag_fst]
    exact safe_storeSnakeFuel mk _ bs b hb
  · rw [src_store_snake_string_eq, ofFlag_fst]
    exact safe_storeSnakeFuel mk _ _ b hb

/-- `guardCap` does refuse: a 1024-bit cell and a 5-reference cell are not built (so (3) above is not vacuous), while a
within-capacity request reaches `mk`; a builder at 1020 bits / 3 refs meets the hypothesis and the regenerated store of 200 bytes
into it leaves 1020 bits / 4 refs. -/
example : guardCap (fun _ (_ : List Nat) => some 0) (List.replicate 1024 false) [] = none ∧
    guardCap (fun _ (_ : List Nat) => some 0) [] [1, 2, 3, 4, 5] = none ∧
    guardCap (fun _ (_ : List Nat) => some 0) (List.replicate 1023 false) [1, 2, 3, 4] = some 0 ∧
    Proofs.Builder.Inv (⟨List.replicate 1020 false, [1, 2, 3]⟩ : Builder Nat) ∧
    (store_snake_bytes (fun _ (_ : List Nat) => some 0) (List.replicate 200 7) ⟨List.replicate 1020 false, [1, 2, 3]⟩).1.refs.length = 4 := by
  refine ⟨by decide +kernel, by decide +kernel, by decide +kernel, ⟨by decide +kernel, by decide +kernel⟩, by decide +kernel⟩

end SrcSnake

/-! ## Source-regenerated argument forms (`Generated/ArgForms.lean`) -/
section SrcForms
open TonVerif.Proofs.SrcBuilder TonVerif.Proofs.SrcForms TonVerif.Generated.ArgForms

/-- NO argument form of `store_bit` / `store_bits` / `store_address` bypasses the capacity test: for every argument of every form
(bool, text, TvmBitarray, plain bitarray, list / tuple of ints, iterator; a textual address with any `Address(text)` parser) the
regenerated method maps a builder within 1023 bits / 4 refs to a builder within 1023 bits / 4 refs, whether it returns or raises. -/
theorem c07_src_forms_capacity (addrOfStr : Bytes → Option Py.AddrV) (v : Bool) (s : Bytes) (x : Bits) (xs : List Int)
    (b : Builder R) (hb : Proofs.Builder.Inv b) :
    ∀ f ∈ [store_bit_bool v, store_bit_str s, store_bit_bits x, store_bit_bitarray x, store_bit_ints xs, store_bits_str s,
           store_bits_ints xs, store_bits_bitarray x, store_bits_iter (), store_address_str addrOfStr s],
      Proofs.Builder.Inv (f b).1 := by
  have hext : ∀ bs : Bits, Proofs.Builder.Inv (BOp.extend bs b).1 := fun bs => safe_extend bs b hb
  intro f hf
  simp only [List.mem_cons, List.mem_nil_iff, or_false] at hf
  rcases hf with rfl | rfl | rfl | rfl | rfl | rfl | rfl | rfl | rfl | rfl
  · rw [src_store_bit_bool_eq, ofFlag_fst]; exact hext _
  · rw [src_store_bit_str_eq]
    cases Py.intOfStr? s with
    | none => exact hb
    | some i => by_cases hi : i = 0 ∨ i = 1
                · simp only [hi, if_true, ofFlag_fst]; exact hext _
                · simp only [hi, if_false]; exact hb
  · rw [src_store_bit_tvm_eq, ofFlag_fst]; exact hext _
  · exact hb
  · exact hb
  · rw [src_store_bits_str_eq]
    by_cases h : b.bits.length + Py.strLen s > 1023
    · rw [if_pos h]; exact hb
    · rw [if_neg h]
      cases hs : Py.bitsOfStr? s with
      | none => exact hb
      | some bs =>
        have := bitsOfStr_len s bs hs
        exact ⟨by simp only [List.length_append]; omega, hb.2⟩
  · rw [src_store_bits_ints_eq]
    by_cases h : b.bits.length + xs.length > 1023
    · rw [if_pos h]; exact hb
    · rw [if_neg h]
      cases hs : Py.bitsOfInts? xs with
      | none => exact hb
      | some bs =>
        have := bitsOfInts_len xs bs hs
        exact ⟨by simp only [List.length_append]; omega, hb.2⟩
  · rw [src_store_bits_bitarray_eq, ofFlag_fst]; exact hext _
  · exact hb
  · rw [src_store_address_str_eq]
    cases addrOfStr s with
    | none => exact hb
    | some a =>
      simp only
      rw [src_store_address_std_eq, ofFlag_fst]
      exact safe_run (.val (.addr (addrOf a))) b hb

/-- the hypothesis is met at the boundary and both outcomes occur: at 1023 bits every storing form is refused and the builder
stays at 1023 bits; at 1022 bits `store_bit(True)` is accepted. -/
example : let b : Builder Nat := ⟨List.replicate 1023 false, []⟩
    Proofs.Builder.Inv b ∧ (store_bit_bool true b).2 = none ∧ (store_bits_str [49] b).2 = none ∧ (store_bits_ints [1] b).2 = none ∧
    (store_bit_bits [true] b).2 = none ∧ (store_bits_str [49] b).1.bits.length = 1023 ∧
    (store_bit_bool true (⟨List.replicate 1022 false, []⟩ : Builder Nat)).2 = some () := by
  refine ⟨⟨by decide +kernel, by decide⟩, by decide +kernel, by decide +kernel, by decide +kernel, by decide +kernel,
    by decide +kernel, by decide +kernel⟩

end SrcForms

end TonVerif.Properties.C07
