/-
C16, NON-CANONICAL `VarUInteger` / `Grams` encodings (round 10).

block.tlb: `var_uint$_ {n:#} len:(#< n) value:(uint (len * 8)) = VarUInteger n; nanograms$_ amount:(VarUInteger 16) = Grams;`
`len` is a field of its own: every `len < n` with `value < 2^(8·len)` is a valid serialisation of `value`.  The spec ENCODER
(`varUInt k`.enc, like every value-driven encoder) writes the minimal `len`; the round-trip law `Lawful (varUInt k)` therefore
speaks about minimal encodings only.  The spec DECODER accepts every legal `len`; this file proves that it reads each of them
as the value and consumes exactly the `len` field and `len` bytes - the statement the harness relies on when it rewrites the
VarUIntegers of a spec-encoded value with non-minimal lengths (harness/gen/noncanon.py) and asks the library parsers for the
same fields and the same remainder.
-/
import TonVerif.Proofs.Codec

namespace TonVerif.Tlb
open TonVerif

/-- EVERY legal encoding of a `VarUInteger k`: the length field (`bitLen (k-1)` bits) holding any `len < k`, then `v` as an
unsigned `8·len`-bit number (`v < 2^(8·len)`, `len` need not be minimal), followed by ANY continuation bits and references `c`:
the spec decoder returns `v` and leaves exactly `c`. -/
theorem c16_var_uint_any_len (k len v : Nat) (hlen : len < k) (hv : v < 2 ^ (8 * len)) (c : Frag) :
    (varUInt k).dec (Frag.ofBits (natToBits (bitLen (k - 1)) len ++ natToBits (8 * len) v) ++ c) = some (.int (v : Int), c) := by
  have hlw : len < 2 ^ bitLen (k - 1) := by
    have := lt_two_pow_bitLen (k - 1)
    omega
  have hl1 := natToBits_length (bitLen (k - 1)) len
  have hl2 := natToBits_length (8 * len) v
  simp only [varUInt, Frag.app_bits, Frag.ofBits_bits, Frag.app_refs, Frag.ofBits_refs, List.nil_append,
    List.append_assoc, List.length_append, hl1, hl2, take_app _ _ _ hl1, drop_app _ _ _ hl1,
    take_app _ _ _ hl2, drop_app _ _ _ hl2, natOfBits_natToBits _ _ hlw, natOfBits_natToBits _ _ hv]
  have h1 : ¬ (bitLen (k - 1) + (8 * len + c.bits.length) < bitLen (k - 1)) := by omega
  have h3 : ¬ (len ≥ k ∨ 8 * len + c.bits.length < 8 * len) := by omega
  simp only [h1, h3, if_false]

/-- `Grams` = `VarUInteger 16`: any `len ≤ 15` that holds the amount. -/
theorem c16_grams_any_len (len v : Nat) (hlen : len < 16) (hv : v < 2 ^ (8 * len)) (c : Frag) :
    grams.dec (Frag.ofBits (natToBits 4 len ++ natToBits (8 * len) v) ++ c) = some (.int (v : Int), c) := by
  have h := c16_var_uint_any_len 16 len v hlen hv c
  have hb : bitLen (16 - 1) = 4 := by decide
  rw [hb] at h
  exact h

/-- the decoder is STRICT about the schema's bound: `len ≥ k` (e.g. `len = 7` in a `VarUInteger 7`, whose length field could
hold it) is refused, whatever follows. -/
theorem c16_var_uint_len_bound (k len : Nat) (hk : k ≤ len) (hw : len < 2 ^ bitLen (k - 1)) (rest : Bits) (refs : List Cell) :
    (varUInt k).dec ⟨natToBits (bitLen (k - 1)) len ++ rest, refs⟩ = none := by
  have hl1 := natToBits_length (bitLen (k - 1)) len
  simp only [varUInt, List.length_append, hl1, take_app _ _ _ hl1, drop_app _ _ _ hl1, natOfBits_natToBits _ _ hw]
  have h1 : ¬ (bitLen (k - 1) + rest.length < bitLen (k - 1)) := by omega
  simp only [h1, if_false]
  have h2 : len ≥ k ∨ rest.length < 8 * len := Or.inl hk
  simp only [h2, if_true]

/-- non-vacuity: 5 nanograms with `len = 3` followed by the bit `1` and a reference; the minimal encoding has `len = 1`
(what the spec encoder writes), so this is a different bit string denoting the same value. -/
example :
    grams.dec (Frag.ofBits (natToBits 4 3 ++ natToBits (8 * 3) 5) ++ ⟨[true], [Cell.mk false [] []]⟩)
      = some (.int ((5 : Nat) : Int), ⟨[true], [Cell.mk false [] []]⟩) ∧
    (grams.enc (.int 5)).map (·.bits) = some (natToBits 4 1 ++ natToBits 8 5) ∧
    (varUInt 7).dec ⟨natToBits 3 7 ++ List.replicate 56 false, []⟩ = none :=
  ⟨c16_grams_any_len 3 5 (by omega) (by omega) _, by decide, by decide⟩

end TonVerif.Tlb
