/-
C04 / C03 — the MODEL-EQUALITY tie of the emitter's traversal (separate from Properties/C04.lean so that it can break alone).

`Generated.BocEmitSrc.order / to_boc` (regenerated from `Cell.order` / `Cell.to_boc` of pytoniq_core/boc/cell.py on every run)
are EQUAL to the hand model `PCell.order` / `PCell.toBoc` (Model/BocEmit.lean) for all cell objects, option sets and iteration
budgets: the same visiting order of the references, byte-identical output.  This is what ties the HAND MODEL (about which
`c04_conforms`, `c03_roundtrip` are proved, and which the compiled driver runs for the byte-for-byte correspondence) to the source.

The PROPERTY for the regenerated emitter does not depend on it: `c04_src_conforms_any_order`, `c03_roundtrip_src2` are proved from
the regenerated loop's own invariant (`c04_src_order_valid_any`).  When the source switches to ANOTHER VALID visiting order these
two equalities break and those theorems stay proved; harness/translate/bocemit.py (`order_tie`) then reports the tie of the
traversal as `valid-order-only` instead of a broken obligation (design/translators-emit.md).
-/
import TonVerif.Proofs.SrcBocOrderEq
import TonVerif.Proofs.BocOrder

namespace TonVerif.Properties.C04Model
open TonVerif TonVerif.Model TonVerif.Proofs.SrcBocEmit TonVerif.Generated.BocEmitSrc

/-- `Cell.order({})` regenerated = the hand model `PCell.order` for every cell object and every iteration budget: the explicit
stack, the visited set, the post-order list and the re-insertion into the result dict produce the same key sequence (same
decision to return, also "budget exhausted"). -/
theorem c04_src_order (fuel : Nat) (p : PCell) : order fuel p [] = (p.order fuel).map dictOf := src_order_eq fuel p

/-- `Cell.to_boc(has_idx, hash_crc32, has_cache_bits, flags)` regenerated = the hand model `PCell.toBoc` for every cell object
(any DAG behind it), EVERY option set (also invalid ones) and every iteration budget: flags byte, size / offset widths, counts,
root index, index of cumulative (doubled) end offsets, cell records, CRC-32C — the same bytes, the same decision to raise. -/
theorem c04_src_to_boc (fuel : Nat) (p : PCell) (o : Opts) :
    to_boc fuel p o.hasIdx o.hasCrc o.hasCache o.flags = p.toBoc fuel o := src_toBoc_eq fuel p o

/-- the same, as C03's source tie of the emitter half (`c03_roundtrip` is stated with `PCell.toBoc`) -/
theorem c03_src_emitter (fuel : Nat) (p : PCell) (o : Opts) :
    to_boc fuel p o.hasIdx o.hasCrc o.hasCache o.flags = p.toBoc fuel o := src_toBoc_eq fuel p o

/-- instance: on the diamond DAG (root → m1, m2 → shared leaf; `Proofs.BocOrder.Example`) the regenerated `Cell.order` returns the
hand model's `[root, m1, m2, leaf]` -/
example : order 50 Proofs.BocOrder.Example.root [] =
    some (dictOf [Proofs.BocOrder.Example.root, Proofs.BocOrder.Example.m1, Proofs.BocOrder.Example.m2, Proofs.BocOrder.Example.leaf]) := by
  rw [c04_src_order, Proofs.BocOrder.order_eq_dfs _ Proofs.BocOrder.Example.noCollision 50
    (by rw [Proofs.BocOrder.Example.cost_root]; omega), Proofs.BocOrder.Example.dfs_root]
  rfl

end TonVerif.Properties.C04Model
