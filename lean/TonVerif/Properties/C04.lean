/-
C04 — emitted bag-of-cells bytes conform to the TON BoC wire format.
(work in progress: see Proofs/BocEmit.lean)
-/
import TonVerif.Proofs.BocEmit

namespace TonVerif.Properties.C04
open TonVerif TonVerif.Model TonVerif.Proofs.BocEmit

/-- `widths_sufficient`: the size width `(n.bit_length()+7)//8` chosen by `to_boc` for a count / length `n`
always holds `n` (so `n.to_bytes(width)` never overflows and decodes back to `n`). -/
theorem widths_sufficient (n : Nat) : n < 256 ^ byteWidth n := lt_pow_byteWidth n

end TonVerif.Properties.C04
