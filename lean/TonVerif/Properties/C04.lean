/-
C04 — emitted bag-of-cells bytes conform to the TON BoC wire format.

* `Model.emit` / `Model.PCell.toBoc` (Model/BocEmit.lean) mirror `Cell.to_boc` (flags byte, size width, offset width
  incl. the doubling with cache bits, roots, absent, index, CRC) and `Cell.serialize`; `Model.PCell.order` mirrors
  `Cell.order`.
* `Spec.Boc.strictParse` (Spec/Boc.lean) is the independent strict reader transcribed from boc.tlb
  `serialized_boc#b5ee9c72 …` + the reference node's checks.  It has a byte-level layer `strictFlat`
  (header, widths, index, CRC, record framing, completion tags, references forward, no trailing bytes) and a
  semantic layer `evalRecs`/`noDup` (level bits of d1 = computed level mask, no duplicate cell, rebuilt trees).

What is proved here, for ALL inputs:
  `c04_conforms` — THE PROPERTY: for every spec-valid tree of cells `t` (any kinds incl. pruned/library/Merkle cells, any
  sharing; `TreeWF` of C02) whose exotic cells carry their type byte (`Typed`), under the local no-collision hypothesis on
  the hashes of its sub-cells, for each of the 6 valid option sets: the model of `Cell.order` yields a `ValidOrder`, the model
  of `Cell.to_boc` succeeds, and the independent strict reader ACCEPTS the bytes and denotes exactly `[t]`
  (`strictParse H bs = some [toSCell t]`: same exotic flags, data bits and references, recursively) — all checks of the
  reader passed: widths, flags, counts, index, CRC, record framing, completion tags, references strictly forward, level
  bits of d1 = computed level mask, no duplicate cell, no trailing bytes.  `c04_conforms_total` adds termination of
  `Cell.order` with the fuel the driver uses.
  `c04_conforms_flat` — the byte-level half for EVERY list of well-formed records with forward references (any DAG in ANY
  valid order, not only the library's), and the five clause lemmas named in the property.
  `order_valid` — the model of `Cell.order` yields a valid order under the no-collision hypothesis.
The bounds `ord.length < 2^32` and `payload·2 < 2^64` are the format's own limits (size ≤ 4, off_bytes ≤ 8 bytes).
-/
import TonVerif.Proofs.BocEmit
import TonVerif.Proofs.BocOrder
import TonVerif.Proofs.BocConform
import TonVerif.Proofs.BocSemFinal
import TonVerif.Proofs.SrcBocWidths
import TonVerif.Proofs.SrcBocEmit
import TonVerif.Proofs.SrcBocAny

namespace TonVerif.Properties.C04
open TonVerif TonVerif.Model TonVerif.Spec.Boc TonVerif.Proofs.BocEmit TonVerif.Proofs.BocOrder TonVerif.Proofs.BocSem
  TonVerif.Proofs.CellSpec

/-- the six valid option sets are exactly the `Opts` with `valid` and `flags = 0` -/
theorem valid_opts (o : Opts) : o.valid = true ↔
    o ∈ [⟨false, false, false, 0⟩, ⟨false, true, false, 0⟩, ⟨true, false, false, 0⟩, ⟨true, true, false, 0⟩,
         ⟨true, false, true, 0⟩, ⟨true, true, true, 0⟩] := by
  obtain ⟨i, c, h, f⟩ := o
  cases i <;> cases c <;> cases h <;> simp [Opts.valid]

/-- **conformance, byte level** (`c04_conforms` restricted to the byte-level layer of the strict reader, but for
arbitrary record lists — any DAG in any valid order): `to_boc`'s layout is accepted by the independent strict reader,
which recovers the same records and the root list `[0]`. -/
theorem c04_conforms_flat (o : Opts) (as : List ARec) (hv : o.valid = true) (h1 : 1 ≤ as.length) (hn : as.length < 2 ^ 32)
    (hP : (payloadOf (sizeW as) as).length * 2 < 2 ^ 64) (ok : ∀ a ∈ as, a.OK as.length) (fw : Forward as) :
    ∃ bs, emit (as.map ARec.toRec) o = some bs ∧ strictFlat bs = some ⟨as.map ARec.toSRec, [0]⟩ := by
  obtain ⟨bs, h1, _, h2⟩ := strictFlat_emit o as hv h1 hn hP ok fw
  exact ⟨bs, h1, h2⟩

/-- `widths_sufficient`: the width `(n.bit_length()+7)//8` chosen by `to_boc` for a count / length `n` holds `n`. -/
theorem widths_sufficient (n : Nat) : n < 256 ^ byteWidth n := lt_pow_byteWidth n

/-- `widths_sufficient` in context: the size width holds the cell count, the root count and every reference index;
the offset width holds the payload length and every index entry, also when doubled by the cache bits; both stay
within the format's limits (size ≤ 4, off_bytes ≤ 8). -/
theorem widths_sufficient_emit (o : Opts) (as : List ARec) (h1 : 1 ≤ as.length) (hn : as.length < 2 ^ 32)
    (hP : (payloadOf (sizeW as) as).length * 2 < 2 ^ 64) (ok : ∀ a ∈ as, a.OK as.length) :
    as.length < 256 ^ sizeW as ∧ 1 < 256 ^ sizeW as ∧ (∀ a ∈ as, ∀ j ∈ a.refs, j < 256 ^ sizeW as) ∧
    (payloadOf (sizeW as) as).length < 256 ^ offOf o as ∧
    (∀ e ∈ cumulative (lensOf (sizeW as) as), (if o.hasCache = true then e * 2 else e) < 256 ^ offOf o as) ∧
    1 ≤ sizeW as ∧ sizeW as ≤ 4 ∧ offOf o as ≤ 8 := by
  have hsz1 : 1 ≤ sizeW as := byteWidth_pos _ h1
  have hnlt : as.length < 256 ^ sizeW as := lt_pow_byteWidth _
  refine ⟨hnlt, Nat.one_lt_pow (by omega) (by decide), ?_, ?_, index_entry_lt o as, hsz1,
    byteWidth_le _ 4 (by simpa using hn), ?_⟩
  · intro a ha j hj
    exact Nat.lt_trans ((ok a ha).refs_lt j hj) hnlt
  · unfold offOf
    split
    · exact Nat.lt_of_le_of_lt (by omega) (lt_pow_byteWidth _)
    · exact lt_pow_byteWidth _
  · unfold offOf
    apply byteWidth_le
    split <;> omega

/-- `refs_forward`: in the records the strict reader decodes from the emitted bytes every reference index is
strictly greater than the index of the referring cell and smaller than the cell count. -/
theorem refs_forward (as : List ARec) (ok : ∀ a ∈ as, a.OK as.length) (fw : Forward as) :
    refsForward (as.map ARec.toSRec) = true := refsForward_of as ok fw

theorem count_one_of_nodup : ∀ (l : List Nat) (a : Nat), l.Nodup → a ∈ l → l.count a = 1
  | [], _, _, hm => by simp at hm
  | x :: xs, a, h, hm => by
    rw [List.nodup_cons] at h
    by_cases hx : x = a
    · subst hx
      simp [List.count_eq_zero.2 h.1]
    · have hm' : a ∈ xs := by
        rcases List.mem_cons.1 hm with h' | h'
        · exact absurd h'.symm hx
        · exact h'
      simp [hx, count_one_of_nodup xs a h.2 hm']

/-- `each_once`: along a valid order every distinct sub-cell of the root (keyed by hash) occurs exactly once … -/
theorem each_once (root : PCell) (ord : List PCell) (vo : ValidOrder root ord) :
    ∀ d ∈ subcells root, (ord.map PCell.key).count d.key = 1 :=
  fun d hd => count_one_of_nodup _ _ vo.nodup (vo.complete d hd)

/-- `order_valid`: the model of `Cell.order` (iterative reverse post-order with a visited set, then the re-insertion
loop over the result dict) returns a VALID ORDER — root first, every distinct sub-cell exactly once (cells are keyed by
hash), every reference strictly forward — whenever it returns at all, under the local hypothesis that among the
sub-cells of the root equal keys (hashes) mean equal cells. -/
theorem order_valid (root : PCell) (fuel : Nat) (ord : List PCell) (nc : NoCollision root)
    (h : root.order fuel = some ord) : ValidOrder root ord :=
  Proofs.BocOrder.order_valid root fuel ord nc h

/-- the loop fuel the driver passes (`6·cells + 2`) always suffices for cells with at most 4 references: `Cell.order`
terminates and its result is a valid order. -/
theorem order_total (root : PCell) (fuel : Nat) (h4 : ∀ c ∈ subcells root, c.refs.length ≤ 4) (nc : NoCollision root)
    (hf : 6 * ((subcells root).map PCell.key).eraseDups.length + 2 ≤ fuel) :
    ∃ ord, root.order fuel = some ord ∧ ValidOrder root ord :=
  order_fuel_valid root fuel h4 nc hf

/-- non-vacuity of `NoCollision` / `ValidOrder`: a diamond DAG (root → m1, m2 → shared leaf) -/
example : NoCollision Proofs.BocOrder.Example.root ∧
    ValidOrder Proofs.BocOrder.Example.root (Proofs.BocOrder.Example.root :: Proofs.BocOrder.Example.m1 ::
      Proofs.BocOrder.Example.m2 :: [Proofs.BocOrder.Example.leaf]) := by
  refine ⟨Proofs.BocOrder.Example.noCollision, ?_⟩
  have h := Proofs.BocOrder.dfs_valid _ Proofs.BocOrder.Example.noCollision
  rwa [Proofs.BocOrder.Example.dfs_root] at h

/-- … and the emitted bag has exactly one record per listed cell, in the same order (nothing dropped or repeated). -/
theorem each_once_records (o : Opts) (as : List ARec) (hv : o.valid = true) (h1 : 1 ≤ as.length) (hn : as.length < 2 ^ 32)
    (hP : (payloadOf (sizeW as) as).length * 2 < 2 ^ 64) (ok : ∀ a ∈ as, a.OK as.length) (fw : Forward as) :
    ∃ bs f, emit (as.map ARec.toRec) o = some bs ∧ strictFlat bs = some f ∧ f.recs.length = as.length ∧
      ∀ i : Nat, f.recs[i]? = (as[i]?).map ARec.toSRec := by
  obtain ⟨bs, he, hs⟩ := c04_conforms_flat o as hv h1 hn hP ok fw
  exact ⟨bs, _, he, hs, by simp, by intro i; simp⟩

/-- `index_cumulative`: the emitted bytes are header ++ index ++ cell data ++ crc where, with the index option, the
index is one `off_bytes`-wide big-endian entry per cell holding the cumulative END offset of that cell's record in the
cell data — doubled when the cache bits are on — and is empty without the index option. -/
theorem index_cumulative (o : Opts) (as : List ARec) (hv : o.valid = true) (h1 : 1 ≤ as.length) (hn : as.length < 2 ^ 32)
    (hP : (payloadOf (sizeW as) as).length * 2 < 2 ^ 64) (ok : ∀ a ∈ as, a.OK as.length) :
    ∃ hdr idx tail, emit (as.map ARec.toRec) o = some (hdr ++ idx ++ payloadOf (sizeW as) as ++ tail) ∧
      hdr.length = 6 + 4 * sizeW as + offOf o as ∧
      idx = (if o.hasIdx then ((cumulative (lensOf (sizeW as) as)).map
              (fun e => natToBE (offOf o as) (if o.hasCache then e * 2 else e))).flatten else []) ∧
      (o.hasIdx = true → ∀ rest, uintsBE as.length (offOf o as) (idx ++ rest) =
        some ((cumulative (lensOf (sizeW as) as)).map (fun e => if o.hasCache then e * 2 else e), rest)) ∧
      (cumulative (lensOf (sizeW as) as)).getLast? = some (payloadOf (sizeW as) as).length := by
  refine ⟨bocMagic ++ (flagByte o (sizeW as) :: offOf o as :: (natToBE (sizeW as) as.length ++ (natToBE (sizeW as) 1 ++
    (natToBE (sizeW as) 0 ++ (natToBE (offOf o as) (payloadOf (sizeW as) as).length ++ natToBE (sizeW as) 0))))),
    indexOf o (offOf o as) (sizeW as) as, tailOf o as, ?_, ?_, rfl, ?_, ?_⟩
  · rw [emit_eq o as hv h1 hn hP ok]
    simp [bodyOf, tailOf, List.append_assoc]
  · simp [bocMagic, natToBE_length]; omega
  · intro hi rest
    have := uintsBE_flatten (offOf o as) ((cumulative (lensOf (sizeW as) as)).map (fun e => if o.hasCache = true then e * 2 else e))
      rest (by
        intro v hv
        obtain ⟨e, he, rfl⟩ := List.mem_map.1 hv
        exact index_entry_lt o as e he)
    simp only [List.length_map, cumulative, cumulativeFrom_length, lensOf, List.map_map] at this
    simpa [indexOf, hi, cumulative, lensOf, Function.comp_def] using this
  · exact cumulative_last (sizeW as) as h1

/-- `crc_covers_prefix`: with the CRC option the emitted bytes are `body ++ crc` where `crc` is the little-endian
CRC-32C (bitwise definition, Spec/Crc.lean) of the whole `body`, i.e. of every byte before it; without it nothing
follows the cell data. -/
theorem crc_covers_prefix (o : Opts) (as : List ARec) (hv : o.valid = true) (h1 : 1 ≤ as.length) (hn : as.length < 2 ^ 32)
    (hP : (payloadOf (sizeW as) as).length * 2 < 2 ^ 64) (ok : ∀ a ∈ as, a.OK as.length) :
    ∃ body, emit (as.map ARec.toRec) o = some (body ++ (if o.hasCrc then crc32cLE body else [])) ∧
      ∃ pre, body = pre ++ payloadOf (sizeW as) as :=
  ⟨bodyOf o as, emit_eq o as hv h1 hn hP ok, _, by
    unfold bodyOf
    simp only [← List.append_assoc, ← List.cons_append]
    rfl⟩

/-- **`c04_conforms_partial`** — `Cell.to_boc` END TO END on a tree of cells, everything except the semantic layer of the
strict reader.  For every tree `t` of cells (`Model.Cell`: any kinds, data, sharing) with ≤ 4 references per cell and whose
exotic cells carry their type byte, built into cell objects `p` by the model of `Cell.__init__`; under the local
no-collision hypothesis on the hashes of its sub-cells; for each of the 6 valid option sets; whenever the model of
`Cell.order` returns `ord` (it does with fuel `6·cells+2`: `order_total`): `ord` is a valid order, `to_boc` succeeds, and the
byte-level strict reader accepts the bytes and decodes one record per distinct cell of `ord` with that cell's d1
(reference count, exotic flag, level mask), its exact data bits (completion tag removed) and, per reference, the position
of the referenced cell, which is strictly greater than the cell's own; root list `[0]`.
The bounds `hn`/`hP` are the format's own limits (size ≤ 4 bytes, off_bytes ≤ 8 bytes).  (Kept beside `c04_conforms`
because it needs only `Shape`, not spec-validity of the cells: it also covers cells the spec would not accept.) -/
theorem c04_conforms_partial (H : Bytes → Bytes) (t : Cell) (p : PCell) (sh : Shape t) (hb : Cell.build H t = some p)
    (nc : NoCollision p) (fuel : Nat) (ord : List PCell) (h : p.order fuel = some ord) (o : Opts) (hv : o.valid = true)
    (hn : ord.length < 2 ^ 32) (hP : (payloadOf (sizeW (orderRecs ord)) (orderRecs ord)).length * 2 < 2 ^ 64) :
    ValidOrder p ord ∧ ∃ bs, p.toBoc fuel o = some bs ∧ strictFlat bs = some ⟨ord.map (cellSRec ord), [0]⟩ :=
  toBoc_conforms_tree H t p sh hb nc fuel ord h o hv hn hP

/-- **C04, THE PROPERTY** — every serialisation `to_boc` emits is accepted by the independent strict reader and decodes
there to the same DAG.  `t` ranges over all spec-valid trees of cells (C02's `TreeWF`: ordinary, pruned, library, Merkle
proof/update cells, any nesting and sharing) whose exotic cells carry their type byte; `p` is the object graph
`Cell.__init__` builds; `NoCollision p` is the local hypothesis that among the sub-cells at hand equal hashes mean equal
cells (cells are keyed by hash); `o` is any of the 6 valid option sets; `ord` is what `Cell.order` returns. -/
theorem c04_conforms (H : Bytes → Bytes) (t : Cell) (wf : TreeWF H t) (ty : Typed t) (p : PCell)
    (hb : Cell.build H t = some p) (nc : NoCollision p) (fuel : Nat) (ord : List PCell) (h : p.order fuel = some ord)
    (o : Opts) (hv : o.valid = true) (hn : ord.length < 2 ^ 32)
    (hP : (payloadOf (sizeW (orderRecs ord)) (orderRecs ord)).length * 2 < 2 ^ 64) :
    ValidOrder p ord ∧ ∃ bs, p.toBoc fuel o = some bs ∧ strictParse H bs = some [toSCell t] :=
  strictParse_toBoc H t wf ty p hb nc fuel ord h o hv hn hP

/-- **C04 for ANY valid order** (the statement of DESIGN §6 C04: `∀ ord, ValidOrder t ord → strictParse (emit (flatten t ord) opts) = [t]`):
whatever valid order of the distinct cells an implementation picks — root first, each distinct cell once, references
strictly forward — looking up the reference indices and laying the records out as `to_boc` does gives bytes the strict
reader accepts and that denote `[t]`.  (A harmless change of traversal order in `Cell.order` cannot break conformance.) -/
theorem c04_conforms_any_order (H : Bytes → Bytes) (t : Cell) (wf : TreeWF H t) (ty : Typed t) (p : PCell)
    (hb : Cell.build H t = some p) (nc : NoCollision p) (ord : List PCell) (vo : ValidOrder p ord)
    (o : Opts) (hv : o.valid = true) (hn : ord.length < 2 ^ 32)
    (hP : (payloadOf (sizeW (orderRecs ord)) (orderRecs ord)).length * 2 < 2 ^ 64) :
    ∃ recs bs, flattenCells (indexMap ord) ord = some recs ∧ emit recs o = some bs ∧
      strictParse H bs = some [toSCell t] :=
  strictParse_anyOrder H t wf ty p hb nc ord vo o hv hn hP

/-- the same with termination: the tree can be built, `Cell.order` returns with the driver's fuel, and (within the format's
size limits) the emitted bytes are accepted and denote `[t]`. -/
theorem c04_conforms_total (H : Bytes → Bytes) (t : Cell) (wf : TreeWF H t) (ty : Typed t) :
    ∃ p, Cell.build H t = some p ∧ ∀ (_ : NoCollision p) (fuel : Nat)
      (_ : 6 * ((subcells p).map PCell.key).eraseDups.length + 2 ≤ fuel),
      ∃ ord, p.order fuel = some ord ∧ ValidOrder p ord ∧
        ∀ (o : Opts), o.valid = true → ord.length < 2 ^ 32 →
          (payloadOf (sizeW (orderRecs ord)) (orderRecs ord)).length * 2 < 2 ^ 64 →
          ∃ bs, p.toBoc fuel o = some bs ∧ strictParse H bs = some [toSCell t] := by
  obtain ⟨p, hb⟩ := tree_builds H t wf
  refine ⟨p, hb, ?_⟩
  intro nc fuel hf
  have okp := build_ok H t p (shape_of H t wf ty) hb
  obtain ⟨ord, ho, vo⟩ := order_fuel_valid p fuel (fun c hc => (okp c hc).refs_le) nc hf
  refine ⟨ord, ho, vo, ?_⟩
  intro o hv hn hP
  exact (c04_conforms H t wf ty p hb nc fuel ord ho o hv hn hP).2

theorem inj_of_nodup_map {α : Type} (f : α → Nat) : ∀ (l : List α), (l.map f).Nodup → ∀ a ∈ l, ∀ b ∈ l, f a = f b → a = b
  | [], _, a, ha, _, _, _ => by simp at ha
  | x :: xs, h, a, ha, b, hb, hk => by
    simp only [List.map_cons, List.nodup_cons, List.mem_map, not_exists, not_and] at h
    rcases List.mem_cons.1 ha with rfl | ha' <;> rcases List.mem_cons.1 hb with rfl | hb'
    · rfl
    · exact absurd hk.symm (h.1 b hb')
    · exact absurd hk (h.1 a ha')
    · exact inj_of_nodup_map f xs h.2 a ha' b hb' hk

/-- Non-vacuity of ALL hypotheses of `c04_conforms` together: with the injective toy hash `H = id` the 5-bit cell over two
leaves is spec-valid, typed, buildable, and collision-free. -/
example : TreeWF id sampleTree ∧ Typed sampleTree ∧ ∃ p, Cell.build id sampleTree = some p ∧ NoCollision p := by
  obtain ⟨wf, ty⟩ := sampleTree_ok id
  obtain ⟨p, hp⟩ := tree_builds id sampleTree wf
  refine ⟨wf, ty, p, hp, ?_⟩
  have hk : (match Cell.build id sampleTree with
      | some p => (subcells p).map PCell.key | none => []) = [621028971429221302762734016, 0, 448] := by decide +kernel
  rw [hp] at hk
  simp only at hk
  intro a ha b hb hab
  exact inj_of_nodup_map PCell.key (subcells p) (by rw [hk]; decide) a ha b hb hab

/-- completion tag: the data bytes `to_boc` writes for a cell have the length announced by d2, carry the completion tag
in the last byte exactly when d2 is odd (and then `last & 0x7f ≠ 0`: present, not overlong), and decode back to the data bits. -/
theorem completion_tag (bits : Bits) :
    (dataBytes bits).length = cellD2 bits.length / 2 + cellD2 bits.length % 2 ∧ Bytes.WF (dataBytes bits) ∧
    (cellD2 bits.length % 2 = 1 → ∃ last, (dataBytes bits).getLast? = some last ∧ last % 128 ≠ 0) ∧
    decodeBits (cellD2 bits.length) (dataBytes bits) = bits := data_ok bits

/-- non-vacuity of `Shape`: a 5-bit cell over two leaves -/
example : Shape (.mk (-1) [true, false, true, true, false] [.mk (-1) [] [], .mk (-1) [true] []]) := by
  simp [Shape, Shapes, kOrdinary]

/-! Non-vacuity: a three-cell bag (root with two references to leaves, one leaf with 5 data bits) satisfies the
hypotheses; the emitted bytes with index + CRC + cache bits are accepted. -/
def sample : List ARec := [⟨2, 1, [0xb4], [1, 2]⟩, ⟨0, 0, [], []⟩, ⟨0, 2, [0xaa], []⟩]

example : (∀ a ∈ sample, a.OK sample.length) ∧ Forward sample ∧ 1 ≤ sample.length := by
  refine ⟨?_, ?_, by decide⟩
  · intro a ha
    simp only [sample, List.mem_cons, List.not_mem_nil, or_false] at ha
    rcases ha with rfl | rfl | rfl <;>
      exact ⟨by decide, by decide, by decide, by decide, by decide, by decide, by decide, by decide, by decide, by decide⟩
  · intro i a h j hj
    have : i = 0 ∨ i = 1 ∨ i = 2 ∨ 3 ≤ i := by omega
    rcases this with rfl | rfl | rfl | h3
    · simp [sample] at h; subst h; simp at hj; omega
    · simp [sample] at h; subst h; simp at hj
    · simp [sample] at h; subst h; simp at hj
    · rw [List.getElem?_eq_none (by simp [sample]; omega)] at h; cases h

/-! ### Source tie for the width computations

`Generated.cellsLen / maxOffset / payloadLen` are REGENERATED from `Cell.to_boc` in `boc/cell.py` on every run
(harness/translate/arith.py); the emitter model `Model.emit` uses `Model.byteWidth`.  The theorems below show, for all
inputs, that the code's own arithmetic is the model's, is sufficient for every value written into a size / offset
field (doubled offsets with cache bits included) and is minimal. -/
section Src
open TonVerif.Proofs.SrcBocWidths TonVerif.Proofs.SrcArith

/-- the `cells_len` the Python computes is the size width the emitter model uses -/
theorem c04_src_cells_len (n : Nat) : Generated.cellsLen n = Model.byteWidth n := by
  rw [src_cellsLen_eq, Model.byteWidth, ← py_bitLength_eq, bitLength_bytes]

/-- the offset width the Python computes (from `max_offset`, doubled with cache bits) is the one the emitter model uses -/
theorem c04_src_payload_len (total : Nat) (cb : Bool) :
    Generated.payloadLen (Generated.maxOffset total cb) = Model.byteWidth (if cb then total * 2 else total) := by
  rw [src_payloadLen_eq, src_maxOffset_eq, Model.byteWidth, ← py_bitLength_eq, bitLength_bytes]
  cases cb <;> simp [Nat.mul_comm]

/-- widths_sufficient, stated about the code's own arithmetic: the cell count and every cell index fit `cells_len` bytes;
the payload length and every (possibly doubled) index entry fit the offset width; no narrower widths would do. -/
theorem c04_src_widths_sufficient (n i total off : Nat) (cb : Bool) (hi : i ≤ n) (ho : off ≤ total) :
    i < 256 ^ Generated.cellsLen n ∧
    total < 256 ^ Generated.payloadLen (Generated.maxOffset total cb) ∧
    (if cb then 2 * off else off) < 256 ^ Generated.payloadLen (Generated.maxOffset total cb) ∧
    (∀ w, n < 256 ^ w → Generated.cellsLen n ≤ w) ∧
    (∀ w, Generated.maxOffset total cb < 256 ^ w → Generated.payloadLen (Generated.maxOffset total cb) ≤ w) :=
  ⟨src_cellsLen_sufficient n i hi, (src_payloadLen_sufficient total off cb ho).1, (src_payloadLen_sufficient total off cb ho).2,
   fun w h => src_cellsLen_minimal n w h, fun w h => src_payloadLen_minimal _ w h⟩

example : Generated.cellsLen 256 = 2 ∧ Generated.payloadLen (Generated.maxOffset 128 true) = 2 := by
  simp only [src_cellsLen_eq, src_payloadLen_eq, src_maxOffset_eq]; decide +kernel

end Src

/-! ### Source tie for the WHOLE emitter

`Generated.BocEmitSrc.serialize / order / to_boc` are REGENERATED from `Cell.serialize`, `Cell.order`, `Cell.to_boc`
(pytoniq_core/boc/cell.py) on every run (harness/translate/bocemit.py, pydict.py).  A constructed `Cell` is a `PCell`; a dict / set
of cells is an insertion-ordered association list keyed by `PCell.key` (= `Cell.__hash__`; TonVerif/PyDict.lean); `while stack:`
runs with an iteration budget `fuel`.

The theorems of THIS section are about the regenerated functions AS WRITTEN and do not go through the hand model of the traversal
(`PCell.order`): `Cell.serialize` and the layout part of `Cell.to_boc` equal the (order agnostic) hand model for all inputs;
`Cell.order` is judged by an invariant of its own loop (`c04_src_order_valid_any`: a VALID ORDER for whichever order the references
are pushed in; Proofs/SrcOrderAny.lean); `c04_src_conforms_any_order` composes them with `c04_conforms_any_order` — THE PROPERTY
for the regenerated emitter.  The additional equality of the regenerated traversal with the hand model `PCell.order` /
`PCell.toBoc` (same visiting order, byte-identical output) is the separate module Properties/C04Model.lean (`c04_src_order`,
`c04_src_to_boc`): it breaks when the source switches to another valid order, these theorems do not. -/
section SrcEmit
open TonVerif.Proofs.SrcBocEmit TonVerif.Proofs.SrcDict TonVerif.Generated.BocEmitSrc

/-- `Cell.serialize(indexes, byte_len)` regenerated = the hand model's per-cell record: `_descriptors ++ _data_bytes ++` the
`indexes[ref]` of every reference as `byte_len`-byte big-endian numbers, for every cell object, every dict (`m` = the same dict
seen as the model's hash map) and every width; raises (KeyError, OverflowError) exactly when the model does. -/
theorem c04_src_serialize (c : PCell) (idx : Py.KDict PCell Nat) (m : Std.HashMap Nat Nat) (w : Nat)
    (h : MapSim PCell.key idx m) : serialize c idx w = (flattenOne m c).bind (Rec.ser w) :=
  src_serialize_eq c idx m w h

/-- … and `flattenCells` + `Rec.ser` of the hand model are exactly these per-cell records -/
theorem c04_src_serialize_model (idx : Std.HashMap Nat Nat) (cells : List PCell) :
    flattenCells idx cells = cells.mapM (flattenOne idx) := rfl

/-- **`Cell.order({})` regenerated returns a VALID ORDER** — for the function as written, whichever order it pushes the references
of an expanded cell in (`for ref in cell.refs` or `for ref in reversed(cell.refs)`): for every cell object, every iteration budget
for which it returns, under the local no-collision hypothesis, the keys of the returned dict are, in iteration order: the root
first, every distinct sub-cell of the root exactly once and nothing else, every reference of a cell strictly after the cell; and
the dict holds nothing but these keys.  Proved by an invariant over the regenerated `while stack:` loop (explicit stack with
`(cell, expanded)` markers, visited set, post-order list) and the re-insertion loop; NOT through the hand model `PCell.order`. -/
theorem c04_src_order_valid_any (fuel : Nat) (p : PCell) (d : Py.KDict PCell Unit) (nc : NoCollision p)
    (h : order fuel p [] = some d) : ValidOrder p (Py.dictKeys d) ∧ d = (Py.dictKeys d).map (fun c => (c, ())) :=
  Proofs.SrcOrderAny.src_order_valid_any fuel p d nc h

/-- the keys of the dict the regenerated `Cell.order` returns are pairwise distinct whatever the hash function is (the re-insertion
loop dedups by `__hash__`; no `NoCollision` needed) -/
theorem c04_src_order_nodup (fuel : Nat) (p : PCell) (d : Py.KDict PCell Unit) (h : order fuel p [] = some d) :
    ((Py.dictKeys d).map PCell.key).Nodup := by
  have := order_nodup fuel p d h
  simpa [NodupKeys, Py.dictKeys, Function.comp_def] using this

theorem sum_refs_le : ∀ (l : List PCell), (∀ c ∈ l, c.refs.length ≤ 4) → (l.map (fun c => c.refs.length)).sum ≤ 4 * l.length
  | [], _ => by simp
  | c :: l, h => by
    have := sum_refs_le l (fun x hx => h x (by simp [hx]))
    have := h c (by simp)
    simp only [List.map_cons, List.sum_cons, List.length_cons]; omega

/-- the iteration budget `6·cells + 2` always suffices for the regenerated `while stack:` loop (cells with ≤ 4 references,
no hash collision among the cells at hand): `Cell.order` terminates and returns a VALID ORDER (root first, each distinct cell once,
references strictly forward).  (Through the linear bound `1 + n + e` of the regenerated loop, `c19_src_order_linear`.) -/
theorem c04_src_order_total (root : PCell) (fuel : Nat) (h4 : ∀ c ∈ subcells root, c.refs.length ≤ 4) (nc : NoCollision root)
    (hf : 6 * ((subcells root).map PCell.key).eraseDups.length + 2 ≤ fuel) :
    ∃ d, order fuel root [] = some d ∧ ValidOrder root (Py.dictKeys d) := by
  obtain ⟨ord, _, vo⟩ := order_fuel_valid root fuel h4 nc hf
  have hc : ∀ d ∈ subcells root, d ∈ ord := by
    intro d hd
    obtain ⟨y, hy, hyk⟩ := List.mem_map.1 (vo.complete d hd)
    rw [← nc y (vo.sound y hy) d hd hyk]; exact hy
  have hlen : ord.length ≤ ((subcells root).map PCell.key).eraseDups.length := by
    have := vo.nodup.length_le_of_subset (l₂ := ((subcells root).map PCell.key).eraseDups) (by
      intro k hk
      obtain ⟨y, hy, rfl⟩ := List.mem_map.1 hk
      exact List.mem_eraseDups.2 (List.mem_map_of_mem (vo.sound y hy)))
    simpa using this
  have hsum := sum_refs_le ord (fun c hc' => h4 c (vo.sound c hc'))
  obtain ⟨d, hd⟩ := Proofs.SrcOrderAny.src_order_linear fuel root nc ord vo.nodup hc (by omega)
  exact ⟨d, hd, (c04_src_order_valid_any fuel root d nc hd).1⟩

/-- `Cell.to_boc(has_idx, hash_crc32, has_cache_bits, flags)` regenerated, given what the regenerated `Cell.order` returned: the
index lookups (`flattenCells`) and the byte layout (`emit`: flags byte, size / offset widths, counts, root index, index of
cumulative (doubled) end offsets, cell records, CRC-32C) of the hand model applied to exactly the keys of that dict, in its
iteration order — for every cell object, EVERY option set (also invalid ones) and every iteration budget. -/
theorem c04_src_to_boc_any (fuel : Nat) (p : PCell) (d : Py.KDict PCell Unit) (nc : NoCollision p)
    (h : order fuel p [] = some d) (o : Opts) :
    to_boc fuel p o.hasIdx o.hasCrc o.hasCache o.flags =
      (flattenCells (indexMap (Py.dictKeys d)) (Py.dictKeys d)).bind (emit · o) :=
  (Proofs.SrcBocAny.src_toBoc_any fuel p d nc h o.hasIdx o.hasCrc o.hasCache o.flags).2

/-- **C04 for the REGENERATED emitter, independent of the visiting order** (the emitter conformance theorem composed from
`c04_src_order_valid_any`, `c04_src_to_boc_any` and `c04_conforms_any_order`): for every spec-valid typed tree `t`, its object graph
`p`, under the local no-collision hypothesis, whenever the regenerated `Cell.order` returns the dict `d` (it does with budget
`6·cells+2`: `c04_src_order_total`), for each of the 6 valid option sets and within the format's limits: the keys of `d` are a valid
order, the regenerated `Cell.to_boc` returns bytes, and the independent strict reader ACCEPTS them and decodes them to exactly
`[t]`.  No step goes through the hand model of the traversal: a source change to another valid visiting order leaves this theorem
proved (and breaks only the model equality of Properties/C04Model.lean). -/
theorem c04_src_conforms_any_order (H : Bytes → Bytes) (t : Cell) (wf : TreeWF H t) (ty : Typed t) (p : PCell)
    (hb : Cell.build H t = some p) (nc : NoCollision p) (fuel : Nat) (d : Py.KDict PCell Unit) (h : order fuel p [] = some d)
    (o : Opts) (hv : o.valid = true) (hn : (Py.dictKeys d).length < 2 ^ 32)
    (hP : (payloadOf (sizeW (orderRecs (Py.dictKeys d))) (orderRecs (Py.dictKeys d))).length * 2 < 2 ^ 64) :
    ValidOrder p (Py.dictKeys d) ∧
    ∃ bs, to_boc fuel p o.hasIdx o.hasCrc o.hasCache o.flags = some bs ∧ strictParse H bs = some [toSCell t] := by
  have vo := (c04_src_order_valid_any fuel p d nc h).1
  obtain ⟨recs, bs, h1, h2, h3⟩ := c04_conforms_any_order H t wf ty p hb nc (Py.dictKeys d) vo o hv hn hP
  refine ⟨vo, bs, ?_, h3⟩
  rw [c04_src_to_boc_any fuel p d nc h o, h1, Option.bind_some, h2]

/-- the same under its earlier name (the statement did not change; the proof no longer uses the hand model of the traversal) -/
theorem c04_src_conforms (H : Bytes → Bytes) (t : Cell) (wf : TreeWF H t) (ty : Typed t) (p : PCell)
    (hb : Cell.build H t = some p) (nc : NoCollision p) (fuel : Nat) (d : Py.KDict PCell Unit) (h : order fuel p [] = some d)
    (o : Opts) (hv : o.valid = true) (hn : (Py.dictKeys d).length < 2 ^ 32)
    (hP : (payloadOf (sizeW (orderRecs (Py.dictKeys d))) (orderRecs (Py.dictKeys d))).length * 2 < 2 ^ 64) :
    ValidOrder p (Py.dictKeys d) ∧
    ∃ bs, to_boc fuel p o.hasIdx o.hasCrc o.hasCache o.flags = some bs ∧ strictParse H bs = some [toSCell t] :=
  c04_src_conforms_any_order H t wf ty p hb nc fuel d h o hv hn hP

/-- the same with existence and termination, nothing assumed but spec-validity and the local no-collision hypothesis: the tree
can be built, the regenerated `Cell.order` returns with the driver's budget, and within the format's size limits every valid
option set gives bytes the strict reader accepts and that denote `[t]`.  (Non-vacuity of the hypotheses: the `sampleTree`
example above.) -/
theorem c04_src_conforms_total (H : Bytes → Bytes) (t : Cell) (wf : TreeWF H t) (ty : Typed t) :
    ∃ p, Cell.build H t = some p ∧ ∀ (_ : NoCollision p) (fuel : Nat)
      (_ : 6 * ((subcells p).map PCell.key).eraseDups.length + 2 ≤ fuel),
      ∃ d, order fuel p [] = some d ∧ ValidOrder p (Py.dictKeys d) ∧
        ∀ (o : Opts), o.valid = true → (Py.dictKeys d).length < 2 ^ 32 →
          (payloadOf (sizeW (orderRecs (Py.dictKeys d))) (orderRecs (Py.dictKeys d))).length * 2 < 2 ^ 64 →
          ∃ bs, to_boc fuel p o.hasIdx o.hasCrc o.hasCache o.flags = some bs ∧ strictParse H bs = some [toSCell t] := by
  obtain ⟨p, hb⟩ := tree_builds H t wf
  refine ⟨p, hb, ?_⟩
  intro nc fuel hf
  have okp := build_ok H t p (shape_of H t wf ty) hb
  obtain ⟨d, hd, vo⟩ := c04_src_order_total p fuel (fun c hc => (okp c hc).refs_le) nc hf
  refine ⟨d, hd, vo, ?_⟩
  intro o hv hn hP
  exact (c04_src_conforms_any_order H t wf ty p hb nc fuel d hd o hv hn hP).2

/-- non-vacuity, evaluated: on the diamond DAG (root → m1, m2 → shared leaf) the regenerated `Cell.order` returns four distinct
cells, the root first and the shared leaf last (the two middle cells in whichever order the source visits them), and the
regenerated `to_boc` with index + CRC + cache bits returns bytes -/
example : ((order 50 Proofs.BocOrder.Example.root []).map (fun d => (Py.dictKeys d).map PCell.key) =
        some ([Proofs.BocOrder.Example.root, Proofs.BocOrder.Example.m1, Proofs.BocOrder.Example.m2,
          Proofs.BocOrder.Example.leaf].map PCell.key) ∨
      (order 50 Proofs.BocOrder.Example.root []).map (fun d => (Py.dictKeys d).map PCell.key) =
        some ([Proofs.BocOrder.Example.root, Proofs.BocOrder.Example.m2, Proofs.BocOrder.Example.m1,
          Proofs.BocOrder.Example.leaf].map PCell.key)) ∧
    (to_boc 50 Proofs.BocOrder.Example.root true true true 0).isSome = true := by
  constructor <;> decide +kernel

end SrcEmit

end TonVerif.Properties.C04
