/-
C08 — cells are immutable values; derived objects are isolated snapshots.

The model is the abstract heap of `Model/Heap.lean`: bit containers, list containers, and one record per
Python object (`Cell`, `Slice`, `Builder`, an array / list held by the caller) naming the containers its
`.bits` / `.refs` attributes point to.  `step H σ op` is one API call (which containers it allocates,
aliases, mutates - read off the code), `run H σ ops` a finite history.  `H` (SHA-256) is arbitrary.

PARTIAL in one respect, stated once: mutation through the public attributes by USER code
(`cell.bits.append(1)`) is not a transition of the model; the theorems cover every aliasing the
LIBRARY calls create.  The model is tied to the code by alias-graph correspondence (sampled).
-/
import TonVerif.Proofs.Heap

namespace TonVerif.Properties.C08
open TonVerif TonVerif.Model TonVerif.Model.Heap TonVerif.Proofs.Heap

/-- SEPARATION.  In the empty heap, and after every finite history of API calls: the bit container and the
list a Slice or Builder points to (the only containers the library mutates in place) are pointed to by NO other
object - no Cell, no other Slice/Builder, no array or list the caller passed in (`Sep`); every container id is
allocated and lists hold live cells (`WF`); what each Cell cached at construction is what the heap holds (`Coh`).
The one aliasing the code does create - `Cell(bits, refs)` keeps the caller's own array and list, and two cells
built from the same array share it - is between objects none of which mutates the container, so it is allowed by `Sep`. -/
theorem c08_separation (H : Bytes → Bytes) (ops : List Op) :
    Sep (run H init ops) ∧ WF (run H init ops) ∧ Coh H (run H init ops) :=
  let h := inv_run (inv_init H) ops
  ⟨h.sep, h.wf, h.coh⟩

/-- one transition preserves the invariant from ANY state satisfying it (the inductive step of `c08_separation`) -/
theorem c08_separation_step (H : Bytes → Bytes) (σ : State) (h : Inv H σ) (op : Op) : Inv H (step H σ op).1 :=
  inv_step h op

/-- IMMUTABILITY.  Take any reachable heap `σ` (after history `pre`) and any Cell object `i` in it.  After ANY further
history `ops` - loads on slices derived from it, stores into the builder it came from or into builders derived from
it, copies, constructions of other cells, ... - the cell record (attribute pointers, type, cached hashes and depths,
hence `hash`), the content of the bit container its `.bits` points to and the content of the list its `.refs` points
to are exactly what they were; the referenced cells are cells of `σ` to which the same applies.  Moreover the cached
hash is at all times the hash of the CURRENT content (`Coh`), and the value (tree) read off the heap is the value at
creation, so every function of the value (`to_boc` bytes, `order`) is unchanged too. -/
theorem c08_immutable (H : Bytes → Bytes) (pre ops : List Op) (i : Nat)
    (hi : i < (run H init pre).nObj) (ht : ((run H init pre).obj i).tag = .cell) :
    let σ := run H init pre
    let σ' := run H σ ops
    cellObs σ' i = cellObs σ i ∧
    (σ'.obj i).val = .mk (σ.obj i).kind (σ'.bitBuf (σ.obj i).bitsId) (vals σ' (σ'.refBuf (σ.obj i).refsId)) ∧
    Cell.info H (σ'.obj i).val = some (σ.obj i).info ∧
    (∀ j ∈ σ.refBuf (σ.obj i).refsId, j < σ.nObj ∧ (σ.obj j).tag = .cell) := by
  intro σ σ'
  have h : Inv H σ := inv_run (inv_init H) pre
  have h' : Inv H σ' := inv_run h ops
  obtain ⟨e, hi'⟩ := cell_frame_run h ops i hi ht
  have eo : σ'.obj i = σ.obj i := congrArg Prod.fst e
  have ht' : (σ'.obj i).tag = .cell := by rw [eo]; exact ht
  refine ⟨e, ?_, ?_, ?_⟩
  · have := h'.coh.coh i hi' ht'; rw [eo] at this ⊢; exact this
  · have := h'.coh.cohInfo i hi' ht'; rw [eo] at this ⊢; exact this
  · exact cellsAt_refBuf h hi (by show (σ.obj i).tag.hasRefs = true; rw [ht]; rfl)

/-! Non-vacuity: a history with aliasing pressure.  A caller array `10110` and list are used for TWO cells (they share
both containers); a slice of the first is consumed; a builder derived from the slice gets a ref and more bits, is
turned into a cell, stored to again; the first cell is copied and parsed again. -/
def H0 : Bytes → Bytes := fun b => [b.length % 256]
def demo : List Op :=
  [.newBits [true, false, true, true, false], .newRefs [], .cellCtor 0 1 (-1), .cellCtor 0 1 (-1),
   .derive 2 .slice, .dropBits 4 2 false, .derive 4 .builder, .storeRef 5 2, .storeBits 5 [true, true],
   .derive 5 .cell, .storeFrom 5 6, .derive 6 .slice, .loadRef 7, .derive 2 .cell, .observe 2]

/-- the two cells built from the same array share both containers, the slice and the builder own theirs -/
example : let σ := run H0 init demo
    (σ.obj 2).bitsId = (σ.obj 3).bitsId ∧ (σ.obj 2).refsId = (σ.obj 3).refsId ∧
    (σ.obj 4).bitsId ≠ (σ.obj 2).bitsId ∧ (σ.obj 5).bitsId ≠ (σ.obj 4).bitsId ∧ σ.nObj = 9 := by decide +kernel

/-- ... the slice was consumed and the builder grew, yet cell 2 still holds `10110` -/
example : let σ := run H0 init demo
    σ.bitsOf 4 = [true, true, false] ∧ σ.bitsOf 5 = [true, true, false, true, true, true, true, false, true, true] ∧
    σ.refsOf 5 = [2, 2] ∧ σ.bitsOf 2 = [true, false, true, true, false] ∧ σ.refsOf 6 = [2] ∧ σ.refsOf 7 = [] := by decide +kernel

example : (run H0 init (demo.take 4)).nObj = 4 ∧ ((run H0 init (demo.take 4)).obj 2).tag = .cell := by decide +kernel

end TonVerif.Properties.C08
