/-
C08 — cells are immutable values; derived objects are isolated snapshots.

The model is the abstract heap of `Model/Heap.lean`: bit containers, list containers, and one record per
Python object (`Cell`, `Slice`, `Builder`, an array / list held by the caller) naming the containers its
`.bits` / `.refs` attributes point to.  `step H σ op` is one API call (which containers it allocates,
aliases, mutates - read off the code), `run H σ ops` a finite history.  `H` (SHA-256) is arbitrary.

PARTIAL in one respect, stated once: mutation through the public attributes by USER code
(`cell.bits.append(1)`) is not a transition of the model; the theorems cover every aliasing the
LIBRARY calls create.  The model is tied to the code by alias-graph correspondence (sampled).
-/
import TonVerif.Proofs.Heap
import TonVerif.Proofs.SrcHeap

namespace TonVerif.Properties.C08
open TonVerif TonVerif.Model TonVerif.Model.Heap TonVerif.Proofs.Heap

/-- SEPARATION.  In the empty heap, and after every finite history of API calls: the bit container and the
list a Slice or Builder points to (the only containers the library mutates in place) are pointed to by NO other
object - no Cell, no other Slice/Builder, no array or list the caller passed in (`Sep`); every container id is
allocated and lists hold live cells (`WF`); what each Cell cached at construction is what the heap holds (`Coh`).
The one aliasing the code does create - `Cell(bits, refs)` keeps the caller's own array and list, and two cells
built from the same array share it - is between objects none of which mutates the container, so it is allowed by `Sep`. -/
theorem c08_separation (H : Bytes → Bytes) (ops : List Op) :
    Sep (run H init ops) ∧ WF (run H init ops) ∧ Coh H (run H init ops) :=
  let h := inv_run (inv_init H) ops
  ⟨h.sep, h.wf, h.coh⟩

/-- one transition preserves the invariant from ANY state satisfying it (the inductive step of `c08_separation`) -/
theorem c08_separation_step (H : Bytes → Bytes) (σ : State) (h : Inv H σ) (op : Op) : Inv H (step H σ op).1 :=
  inv_step h op

/-- IMMUTABILITY.  Take any reachable heap `σ` (after history `pre`) and any Cell object `i` in it.  After ANY further
history `ops` - loads on slices derived from it, stores into the builder it came from or into builders derived from
it, copies, constructions of other cells, ... - the cell record (attribute pointers, type, cached hashes and depths,
hence `hash`), the content of the bit container its `.bits` points to and the content of the list its `.refs` points
to are exactly what they were; the referenced cells are cells of `σ` to which the same applies.  Moreover the cached
hash is at all times the hash of the CURRENT content (`Coh`), and the value (tree) read off the heap is the value at
creation, so every function of the value (`to_boc` bytes, `order`) is unchanged too. -/
theorem c08_immutable (H : Bytes → Bytes) (pre ops : List Op) (i : Nat)
    (hi : i < (run H init pre).nObj) (ht : ((run H init pre).obj i).tag = .cell) :
    let σ := run H init pre
    let σ' := run H σ ops
    cellObs σ' i = cellObs σ i ∧
    (σ'.obj i).val = .mk (σ.obj i).kind (σ'.bitBuf (σ.obj i).bitsId) (vals σ' (σ'.refBuf (σ.obj i).refsId)) ∧
    Cell.info H (σ'.obj i).val = some (σ.obj i).info ∧
    (∀ j ∈ σ.refBuf (σ.obj i).refsId, j < σ.nObj ∧ (σ.obj j).tag = .cell) := by
  intro σ σ'
  have h : Inv H σ := inv_run (inv_init H) pre
  have h' : Inv H σ' := inv_run h ops
  obtain ⟨e, hi'⟩ := cell_frame_run h ops i hi ht
  have eo : σ'.obj i = σ.obj i := congrArg Prod.fst e
  have ht' : (σ'.obj i).tag = .cell := by rw [eo]; exact ht
  refine ⟨e, ?_, ?_, ?_⟩
  · have := h'.coh.coh i hi' ht'; rw [eo] at this ⊢; exact this
  · have := h'.coh.cohInfo i hi' ht'; rw [eo] at this ⊢; exact this
  · exact cellsAt_refBuf h hi (by show (σ.obj i).tag.hasRefs = true; rw [ht]; rfl)

/-! Non-vacuity: a history with aliasing pressure.  A caller array `10110` and list are used for TWO cells (they share
both containers); a slice of the first is consumed; a builder derived from the slice gets a ref and more bits, is
turned into a cell, stored to again; the first cell is copied and parsed again. -/
def H0 : Bytes → Bytes := fun b => [b.length % 256]
def demo : List Op :=
  [.newBits [true, false, true, true, false], .newRefs [], .cellCtor 0 1 (-1), .cellCtor 0 1 (-1),
   .derive 2 .slice, .dropBits 4 2 false, .derive 4 .builder, .storeRef 5 2, .storeBits 5 [true, true],
   .derive 5 .cell, .storeFrom 5 6, .derive 6 .slice, .loadRef 7, .derive 2 .cell, .observe 2]

/-- the two cells built from the same array share both containers, the slice and the builder own theirs -/
example : let σ := run H0 init demo
    (σ.obj 2).bitsId = (σ.obj 3).bitsId ∧ (σ.obj 2).refsId = (σ.obj 3).refsId ∧
    (σ.obj 4).bitsId ≠ (σ.obj 2).bitsId ∧ (σ.obj 5).bitsId ≠ (σ.obj 4).bitsId ∧ σ.nObj = 9 := by decide +kernel

/-- ... the slice was consumed and the builder grew, yet cell 2 still holds `10110` -/
example : let σ := run H0 init demo
    σ.bitsOf 4 = [true, true, false] ∧ σ.bitsOf 5 = [true, true, false, true, true, true, true, false, true, true] ∧
    σ.refsOf 5 = [2, 2] ∧ σ.bitsOf 2 = [true, false, true, true, false] ∧ σ.refsOf 6 = [2] ∧ σ.refsOf 7 = [] := by decide +kernel

example : (run H0 init (demo.take 4)).nObj = 4 ∧ ((run H0 init (demo.take 4)).obj 2).tag = .cell := by decide +kernel

/-- ISOLATION ("derived objects are isolated snapshots").  In any reachable heap, a call changes the VALUE (`valOf`:
cell = tree; slice = type, remaining bits, remaining referenced trees; builder = bits, referenced trees; caller-held
array = its bits; caller-held list = its trees) of NO live object other than its own `self` (`recvOf op`: the slice
being loaded from / the builder being stored to) - in particular never of a cell, of the object it was derived from,
of its argument (`store_slice(s)` leaves `s`, `Cell(bits, refs)` leaves the caller's array and list), and `self` only
when the call succeeds (a raising call changes nothing). -/
theorem c08_isolated (H : Bytes → Bytes) (pre : List Op) (op : Op)
    (hid : ∀ i ∈ opIds op, i < (run H init pre).nObj) (i : Nat) (hi : i < (run H init pre).nObj)
    (hne : recvOf op = some i → (sem H (valOf (run H init pre)) op).2 = none) :
    valOf (step H (run H init pre) op).1 i = valOf (run H init pre) i :=
  step_isolated (inv_run (inv_init H) pre) op hid i hi hne

/-- HISTORY INDEPENDENCE.  Every call's result VALUE and the new value of its `self` are `sem` - a function of the
call and of the VALUES of its argument objects only (`sem_congr`).  Hence: take two arbitrary histories `h1`, `h2`
and the same call applied to argument objects (`ρ` maps the object names of the first heap to those of the second)
whose values agree - then the two results have equal values and `self` ends with equal values.  Nothing else of the
heap (which calls came before, which containers are shared, ids, ...) can influence a result: no state is carried
between calls. -/
theorem c08_history_independent (H : Bytes → Bytes) (h1 h2 : List Op) (op : Op) (ρ : Nat → Nat)
    (hid1 : ∀ i ∈ opIds op, i < (run H init h1).nObj) (hid2 : ∀ i ∈ opIds op, ρ i < (run H init h2).nObj)
    (hv : ∀ i ∈ opIds op, valOf (run H init h1) i = valOf (run H init h2) (ρ i)) :
    let r1 := step H (run H init h1) op
    let r2 := step H (run H init h2) (renameOp ρ op)
    outVal r1.1 r1.2 = outVal r2.1 r2.2 ∧ ∀ r, recvOf op = some r → valOf r1.1 r = valOf r2.1 (ρ r) :=
  hist_indep (inv_run (inv_init H) h1) (inv_run (inv_init H) h2) op ρ hid1 hid2 hv

/-- the result of every call is `sem` of the argument values (the refinement statement behind the previous theorem) -/
theorem c08_refines_value_semantics (H : Bytes → Bytes) (pre : List Op) (op : Op)
    (hid : ∀ i ∈ opIds op, i < (run H init pre).nObj) :
    let σ := run H init pre
    outVal (step H σ op).1 (step H σ op).2 = (sem H (valOf σ) op).1 ∧
    (∀ w, (sem H (valOf σ) op).2 = some w → ∃ r, recvOf op = some r ∧ valOf (step H σ op).1 r = w) := by
  intro σ
  have r := step_sem (inv_run (inv_init H) pre) op hid
  exact ⟨r.out, fun w hw => let ⟨r', a, _, b⟩ := r.recv w hw; ⟨r', a, b⟩⟩

/-- HASHING / SERIALISING IS READ-ONLY AND IDEMPOTENT.  `hash`, `to_boc`, `order`, `serialize` (`observe`) leave the
whole heap exactly as it was - every container, including the plain array a cell was constructed from - and calling
them again gives the same result; the result is the hash of the cell's current tree value. -/
theorem c08_observe_pure (H : Bytes → Bytes) (pre : List Op) (c : Nat) :
    let σ := run H init pre
    (step H σ (.observe c)).1 = σ ∧
    (step H (step H σ (.observe c)).1 (.observe c)).2 = (step H σ (.observe c)).2 ∧
    (c < σ.nObj → (σ.obj c).tag = .cell →
      (step H σ (.observe c)).2 = .hash (σ.obj c).info.hash ∧ Cell.info H (σ.obj c).val = some (σ.obj c).info) := by
  intro σ
  have e : (step H σ (.observe c)).1 = σ := by simp only [step]; split <;> rfl
  refine ⟨e, by rw [e], ?_⟩
  intro hc ht
  have hhas : σ.has c .cell = true := has_iff.mpr ⟨hc, ht⟩
  exact ⟨by simp only [step, hhas, if_true], (inv_run (inv_init H) pre).coh.cohInfo c hc ht⟩

/-- INPUTS UNTOUCHED.  An array or list the caller created (and possibly handed to `Cell(bits, refs)`, which keeps the
very object as the cell's `.bits` / `.refs` - aliasing by design - or to `store_bits`), and likewise every cell,
keeps its value through every later history: no transition writes a container pointed to by a cell or by a
caller-held object.  (User code writing to it is outside the model.) -/
theorem c08_inputs_untouched (H : Bytes → Bytes) (pre ops : List Op) (u : Nat)
    (hu : u < (run H init pre).nObj) (ht : ((run H init pre).obj u).tag.owner = false) :
    valOf (run H (run H init pre) ops) u = valOf (run H init pre) u :=
  nonowner_run (inv_run (inv_init H) pre) ops u hu ht

/-! Non-vacuity of the hypotheses of `c08_history_independent`: two DIFFERENT histories reach cells of equal value
(`10110`, no refs) under different names (object 2 in the first heap, object 3 in the second, whose heap also holds a
consumed slice and a grown builder); `begin_parse` (`derive · slice`) on either gives equal results. -/
def hA : List Op := [.newBits [true, false, true, true, false], .newRefs [], .cellCtor 0 1 (-1)]
def hB : List Op := [.builderNew, .storeBits 0 [true, false, true], .derive 0 .cell, .derive 1 .slice, .dropBits 2 1 false,
  .storeBits 0 [true, false], .derive 0 .cell]
example : (∀ i ∈ opIds (.derive 2 .slice), i < (run H0 init hA).nObj) ∧
    (∀ i ∈ opIds (.derive 2 .slice), (fun _ => 3) i < (run H0 init hB).nObj) := by decide +kernel
example : ((run H0 init hA).obj 2).tag = .cell ∧ ((run H0 init hB).obj 3).tag = .cell ∧
    (run H0 init hA).bitsOf 2 = (run H0 init hB).bitsOf 3 ∧ (run H0 init hA).refsOf 2 = [] ∧ (run H0 init hB).refsOf 3 = [] ∧
    ((run H0 init hA).obj 2).kind = ((run H0 init hB).obj 3).kind := by decide +kernel
example : ∀ i ∈ opIds (.derive 2 .slice), valOf (run H0 init hA) i = valOf (run H0 init hB) ((fun _ => 3) i) := by
  intro i hi
  simp only [opIds, List.mem_singleton] at hi
  subst hi
  have e1 : ((run H0 init hA).obj 2).tag = .cell := by decide +kernel
  have e2 : ((run H0 init hB).obj 3).tag = .cell := by decide +kernel
  rw [valOf_cell' e1, valOf_cell' e2]
  have a : (run H0 init hA).bitsOf 2 = (run H0 init hB).bitsOf 3 := by decide +kernel
  have b : (run H0 init hA).refsOf 2 = [] := by decide +kernel
  have c : (run H0 init hB).refsOf 3 = [] := by decide +kernel
  have d : ((run H0 init hA).obj 2).kind = ((run H0 init hB).obj 3).kind := by decide +kernel
  rw [a, b, c, d]; rfl

/-! The invariant has bite: a heap in which a slice shares a cell's bit container - what `begin_parse` WITHOUT the
`bits.copy()` would create - violates `Sep`, and one load on that slice then changes the cell's data bits. -/
def bad : State :=
  let σ := run H0 init hA
  σ.push { ObjRec.blank with tag := .slice, bitsId := (σ.obj 2).bitsId, refsId := (σ.obj 2).refsId }
example : ¬ Sep bad := by
  intro h
  exact h.sepB 3 2 (by decide +kernel) (by decide +kernel) (by decide) (by decide +kernel) (by decide +kernel) (by decide +kernel)
example : (step H0 bad (.dropBits 3 2 false)).1.bitsOf 2 = [true, true, false] ∧ bad.bitsOf 2 = [true, false, true, true, false] := by
  decide +kernel

/-! ## The copy / isolation glue REGENERATED from the Python source

`Generated/HeapSrc.lean` is rewritten on every run of the check from `Cell.begin_parse / to_slice / copy / to_builder` (boc/cell.py),
`Slice.copy / to_cell / to_builder / from_cell` (boc/slice.py) and `Builder.end_cell / to_cell / to_slice` (boc/builder.py) by the
alias-graph translator harness/translate/pyheap.py: each method is a transformer of the heap that says, for the new object, which
containers are COPIES (`x.copy()`, `x[k:]`) and which are the receiver's own (a bare `self.bits`).  `Proofs/SrcHeap.lean` proves each
equal to the model's `derive` transition on every well-formed heap, so the theorems of this file hold of the regenerated steps; a
`.copy()` dropped in the source makes the regenerated transformer alias a container and the equation unprovable. -/

open TonVerif.Generated.HeapSrc TonVerif.Proofs.SrcHeap in
/-- the regenerated methods applicable to object `self` of heap `σ`, as transitions (`Py.Heap.result`: a raising call leaves the heap
unchanged), each with the `derive` target the model assigns to it -/
def srcDerive (H : Bytes → Bytes) (σ : State) (self : Nat) : List (Kind × (State × Out)) :=
  if σ.has self .cell then
    [(.slice, Py.Heap.result σ (Cell_begin_parse H σ self)), (.slice, Py.Heap.result σ (Cell_to_slice H σ self)),
     (.slice, Py.Heap.result σ (Slice_from_cell H σ self)), (.cell, Py.Heap.result σ (Cell_copy H σ self)),
     (.builder, Py.Heap.result σ (Cell_to_builder H σ self))]
  else if σ.has self .slice then
    [(.slice, Py.Heap.result σ (Slice_copy H σ self)), (.cell, Py.Heap.result σ (Slice_to_cell H σ self)),
     (.builder, Py.Heap.result σ (Slice_to_builder H σ self))]
  else if σ.has self .builder then
    [(.cell, Py.Heap.result σ (Builder_end_cell H σ self)), (.cell, Py.Heap.result σ (Builder_to_cell H σ self)),
     (.slice, Py.Heap.result σ (Builder_to_slice H σ self))]
  else []

open TonVerif.Generated.HeapSrc TonVerif.Proofs.SrcHeap in
/-- REGENERATED STEP = MODEL STEP.  On every well-formed heap (`WF`: in particular every reachable one) and for every live cell,
slice or builder `self`, each of the eleven regenerated methods is exactly the transition `derive self dst` of `Model/Heap.lean`:
same decision to raise (exotic source of `to_builder`, more than 4 references / 1023 bits, the `Cell` constructor refusing the
content), same new object (type, `ref_offset = 0`, cached hashes of a new cell), a NEW bit container holding the receiver's
remaining bits and a NEW list holding its remaining references, nothing else touched. -/
theorem c08_src_step (H : Bytes → Bytes) (σ : State) (wf : WF σ) (self : Nat) :
    ∀ r ∈ srcDerive H σ self, r.2 = step H σ (.derive self r.1) := by
  intro r hr
  unfold srcDerive at hr
  by_cases hc : σ.has self .cell = true
  · simp only [hc, if_true, List.mem_cons, List.not_mem_nil, or_false] at hr
    rcases hr with rfl | rfl | rfl | rfl | rfl
    · exact Cell_begin_parse_eq H σ wf self hc
    · exact Cell_to_slice_eq H σ wf self hc
    · exact Slice_from_cell_eq H σ wf self hc
    · exact Cell_copy_eq H σ wf self hc
    · exact Cell_to_builder_eq H σ wf self hc
  · by_cases hs : σ.has self .slice = true
    · simp only [hc, hs, if_true, if_false, Bool.false_eq_true, List.mem_cons, List.not_mem_nil, or_false] at hr
      rcases hr with rfl | rfl | rfl
      · exact Slice_copy_eq H σ self hs
      · exact Slice_to_cell_eq H σ self hs
      · exact Slice_to_builder_eq H σ wf self hs
    · by_cases hb : σ.has self .builder = true
      · simp only [hc, hs, hb, if_true, if_false, Bool.false_eq_true, List.mem_cons, List.not_mem_nil, or_false] at hr
        rcases hr with rfl | rfl | rfl
        · exact Builder_end_cell_eq H σ wf self hb
        · exact Builder_to_cell_eq H σ wf self hb
        · exact Builder_to_slice_eq H σ wf self hb
      · simp [hc, hs, hb] at hr

/-- SEPARATION and IMMUTABILITY hold of the regenerated steps: from any heap satisfying the invariant (so: after every history),
every regenerated method call again yields a heap satisfying `Sep`, `WF`, `Coh` - the new slice / builder shares no container with
anything - and leaves every existing Cell exactly as it was (record, cached hashes, content of both containers). -/
theorem c08_src_separation (H : Bytes → Bytes) (σ : State) (h : Inv H σ) (self : Nat) :
    ∀ r ∈ srcDerive H σ self, Inv H r.2.1 ∧
      ∀ i, i < σ.nObj → (σ.obj i).tag = .cell → cellObs r.2.1 i = cellObs σ i := by
  intro r hr
  rw [c08_src_step H σ h.wf self r hr]
  exact ⟨inv_step h _, fun i hi ht => cell_frame h (frame_step H σ _) i hi ht⟩

/-- the same along histories: run any history, apply any regenerated method to any object, run any further history - the invariant
holds at the end and a cell of the first heap is unchanged. -/
theorem c08_src_immutable (H : Bytes → Bytes) (pre post : List Op) (self i : Nat)
    (hi : i < (run H init pre).nObj) (ht : ((run H init pre).obj i).tag = .cell) :
    ∀ r ∈ srcDerive H (run H init pre) self,
      Inv H (run H r.2.1 post) ∧ cellObs (run H r.2.1 post) i = cellObs (run H init pre) i := by
  intro r hr
  have h : Inv H (run H init pre) := inv_run (inv_init H) pre
  obtain ⟨h1, h2⟩ := c08_src_separation H _ h self r hr
  have e := h2 i hi ht
  have f := frame_step H (run H init pre) (.derive self r.1)
  have hi' : i < r.2.1.nObj := by
    rw [c08_src_step H _ h.wf self r hr]; exact Nat.lt_of_lt_of_le hi f.nObj
  have ht' : (r.2.1.obj i).tag = .cell := by
    have := congrArg Prod.fst e; simp only [cellObs] at this; rw [this]; exact ht
  exact ⟨inv_run h1 post, (cell_frame_run h1 post i hi' ht').1.trans e⟩

open TonVerif.Generated.HeapSrc in
/-- non-vacuity: on the heap after `demo` (two cells sharing the caller's array, a consumed slice, a grown builder) the regenerated
`begin_parse` of cell 2 returns a new slice whose two containers are new (ids = the allocation counters) and hold the cell's bits and
references; the regenerated `to_builder` of the exotic-free slice 7 succeeds; `srcDerive` is non-empty for a cell, a slice, a builder. -/
example :
    (Cell_begin_parse H0 (run H0 init demo) 2).map (fun r => r.2) = some (run H0 init demo).nObj ∧
    (Cell_begin_parse H0 (run H0 init demo) 2).map (fun r => (r.1.obj r.2).bitsId) = some (run H0 init demo).nBit ∧
    (Cell_begin_parse H0 (run H0 init demo) 2).map (fun r => (r.1.obj r.2).refsId) = some (run H0 init demo).nRef ∧
    (Cell_begin_parse H0 (run H0 init demo) 2).map (fun r => (r.1.obj r.2).bitsId == ((run H0 init demo).obj 2).bitsId) = some false ∧
    (Cell_begin_parse H0 (run H0 init demo) 2).map (fun r => r.1.bitsOf r.2) = some ((run H0 init demo).bitsOf 2) ∧
    (Slice_to_builder H0 (run H0 init demo) 7).isSome = true ∧
    (srcDerive H0 (run H0 init demo) 2).length = 5 ∧ (srcDerive H0 (run H0 init demo) 7).length = 3 ∧
    (srcDerive H0 (run H0 init demo) 5).length = 3 := by
  decide +kernel

/-! ## Source tie of LOADS and STORES (session 5): `Builder.store_ref` and `Slice.load_ref` regenerated as heap transformers

The alias effect of the two reference-moving methods is now read off the source: `store_ref` appends the VERY object it is given to
the builder's OWN list container, in place; `load_ref` hands out the VERY Cell object held by the list and changes only the slice's
`ref_offset`.  Each is the model transition (`storeRef` / `loadRef`), so the invariant and the immutability of cells hold of histories
that contain the regenerated steps. -/

open TonVerif.Generated.HeapSrc TonVerif.Proofs.SrcHeap in
/-- the regenerated mutating methods applicable to `self` (with argument `arg` where the method takes one), as transitions, each with the
model operation it is proved equal to -/
def srcMut (H : Bytes → Bytes) (σ : State) (self arg : Nat) : List (Op × (State × Out)) :=
  (if σ.has self .builder && σ.has arg .cell then [(Op.storeRef self arg, Py.Heap.resultUnit σ (Builder_store_ref H σ self arg))] else []) ++
  (if σ.has self .slice then [(Op.loadRef self, Py.Heap.result σ (Slice_load_ref H σ self))] else [])

open TonVerif.Generated.HeapSrc TonVerif.Proofs.SrcHeap in
/-- REGENERATED `Builder.store_ref(ref)` = MODEL `storeRef`, on every well-formed heap, for every live builder and live cell: it raises
exactly when the builder's list already holds 4 entries and changes nothing then; otherwise the ONLY change of the heap is that the
list container the builder points to holds one more entry, the object `ref` itself (no copy, no new container, no other object's
record touched). -/
theorem c08_src_store_step (H : Bytes → Bytes) (σ : State) (wf : WF σ) (self ref : Nat)
    (hb : σ.has self .builder = true) (hc : σ.has ref .cell = true) :
    Py.Heap.resultUnit σ (Builder_store_ref H σ self ref) = step H σ (.storeRef self ref) ∧
    (Builder_store_ref H σ self ref = none ↔ (σ.refBuf (σ.obj self).refsId).length ≥ 4) ∧
    (∀ σ' r, Builder_store_ref H σ self ref = some (σ', r) →
      r = self ∧ σ' = σ.setR (σ.obj self).refsId (σ.refBuf (σ.obj self).refsId ++ [ref])) := by
  refine ⟨Builder_store_ref_eq H σ wf self ref hb hc, ?_, ?_⟩
  · by_cases hl : (σ.refBuf (σ.obj self).refsId).length ≥ 4 <;> simp [Builder_store_ref, hl]
  · intro σ' r h
    by_cases hl : (σ.refBuf (σ.obj self).refsId).length ≥ 4
    · simp [Builder_store_ref, hl] at h
    · simp only [Builder_store_ref, hl, decide_false, Bool.false_eq_true, if_false, Option.some.injEq, Prod.mk.injEq] at h
      exact ⟨h.2.symm, h.1.symm⟩

open TonVerif.Generated.HeapSrc TonVerif.Proofs.SrcHeap in
/-- REGENERATED `Slice.load_ref()` = MODEL `loadRef`, on every heap, for every live slice: IndexError exactly when no reference
remains; otherwise the result is the object stored at `refs[ref_offset]` ITSELF (the caller receives the cell, not a copy), no
container changes and the only record that changes is the slice's own (`ref_offset + 1`). -/
theorem c08_src_load_step (H : Bytes → Bytes) (σ : State) (self : Nat) (hs : σ.has self .slice = true) :
    Py.Heap.result σ (Slice_load_ref H σ self) = step H σ (.loadRef self) ∧
    (∀ σ' c, Slice_load_ref H σ self = some (σ', c) →
      (σ.refBuf (σ.obj self).refsId)[(σ.obj self).off]? = some c ∧ σ'.bitBuf = σ.bitBuf ∧ σ'.refBuf = σ.refBuf ∧
      (∀ j, j ≠ self → σ'.obj j = σ.obj j) ∧ (σ'.obj self).off = (σ.obj self).off + 1 ∧
      (σ'.obj self).bitsId = (σ.obj self).bitsId ∧ (σ'.obj self).refsId = (σ.obj self).refsId) := by
  refine ⟨Slice_load_ref_eq H σ self hs, ?_⟩
  intro σ' c h
  simp only [Slice_load_ref, Py.Heap.refAt?, Py.Heap.setOff] at h
  cases hg : (σ.refBuf (σ.obj self).refsId)[(σ.obj self).off]? with
  | none => simp [hg] at h
  | some c0 =>
    simp only [hg, Option.bind_some, Option.some.injEq, Prod.mk.injEq] at h
    obtain ⟨rfl, rfl⟩ := h
    refine ⟨rfl, rfl, rfl, fun j hj => by simp [State.setObj, hj], by simp [State.setObj], by simp [State.setObj], by simp [State.setObj]⟩

/-- SEPARATION and IMMUTABILITY hold of the regenerated loads / stores: from any heap satisfying the invariant, a regenerated
`store_ref` / `load_ref` again yields `Sep ∧ WF ∧ Coh` and leaves every existing Cell exactly as it was — in particular the cell whose
object was appended to a builder or handed out by a slice. -/
theorem c08_src_separation_mut (H : Bytes → Bytes) (σ : State) (h : Inv H σ) (self arg : Nat) :
    ∀ r ∈ srcMut H σ self arg, r.2 = step H σ r.1 ∧ Inv H r.2.1 ∧
      ∀ i, i < σ.nObj → (σ.obj i).tag = .cell → cellObs r.2.1 i = cellObs σ i := by
  intro r hr
  have e : r.2 = step H σ r.1 := by
    unfold srcMut at hr
    rcases List.mem_append.1 hr with h1 | h1
    · by_cases hb : (σ.has self .builder && σ.has arg .cell) = true
      · simp only [hb, if_true, List.mem_cons, List.not_mem_nil, or_false] at h1
        subst h1
        simp only [Bool.and_eq_true] at hb
        exact (c08_src_store_step H σ h.wf self arg hb.1 hb.2).1
      · simp [hb] at h1
    · by_cases hs : σ.has self .slice = true
      · simp only [hs, if_true, List.mem_cons, List.not_mem_nil, or_false] at h1
        subst h1
        exact (c08_src_load_step H σ self hs).1
      · simp [hs] at h1
  refine ⟨e, ?_, ?_⟩
  · rw [e]; exact inv_step h _
  · intro i hi ht; rw [e]; exact cell_frame h (frame_step H σ _) i hi ht

/-- along histories: any history, then a regenerated `store_ref` / `load_ref`, then any further history — the invariant holds at the end
and a cell of the first heap is unchanged (record, cached hashes, both containers). -/
theorem c08_src_immutable_mut (H : Bytes → Bytes) (pre post : List Op) (self arg i : Nat)
    (hi : i < (run H init pre).nObj) (ht : ((run H init pre).obj i).tag = .cell) :
    ∀ r ∈ srcMut H (run H init pre) self arg,
      Inv H (run H r.2.1 post) ∧ cellObs (run H r.2.1 post) i = cellObs (run H init pre) i := by
  intro r hr
  have h : Inv H (run H init pre) := inv_run (inv_init H) pre
  obtain ⟨e, h1, h2⟩ := c08_src_separation_mut H _ h self arg r hr
  have e2 := h2 i hi ht
  have f := frame_step H (run H init pre) r.1
  have hi' : i < r.2.1.nObj := by rw [e]; exact Nat.lt_of_lt_of_le hi f.nObj
  have ht' : (r.2.1.obj i).tag = .cell := by
    have := congrArg Prod.fst e2; simp only [cellObs] at this; rw [this]; exact ht
  exact ⟨inv_run h1 post, (cell_frame_run h1 post i hi' ht').1.trans e2⟩

open TonVerif.Generated.HeapSrc in
/-- non-vacuity on the `demo` heap: builder 5 (one reference) takes cell 2: the regenerated `store_ref` returns the builder itself, its list
container now ends with object 2 and no container was allocated; slice 7 (`load_ref` already applied once in `demo`) has one reference
left... the regenerated `load_ref` of slice 4 (no references) raises, of slice 7 hands out an existing cell; both lists are non-empty. -/
example :
    (Builder_store_ref H0 (run H0 init demo) 5 2).map (fun r => (r.2, (r.1.refBuf (r.1.obj 5).refsId).getLast?, r.1.nRef == (run H0 init demo).nRef))
      = some (5, some 2, true) ∧
    (Slice_load_ref H0 (run H0 init demo) 4).isNone = true ∧
    (srcMut H0 (run H0 init demo) 5 2).length = 1 ∧ (srcMut H0 (run H0 init demo) 7 0).length = 1 := by
  decide +kernel

/-! ## Source tie of the BIT-MOVING loads and stores, and one theorem over the whole regenerated alphabet (session 5, heapsrc2)

`Builder.store_bits / store_cell / store_slice / store_uint` and `Slice.preload_bits / load_bits / skip_bits / preload_uint / load_uint`
are regenerated from boc/builder.py / boc/slice.py as heap transformers too: which container is extended or shortened IN PLACE, which
array is NEW, that `store_cell` / `store_slice` append the ELEMENTS of the source list (and never keep the source's containers). -/

/-- the non-receiver arguments a source-level call may carry: an object, a length / size, an int, a literal bit string -/
structure SrcArgs where
  arg : Nat
  n : Nat
  v : Int
  bs : Bits

open TonVerif.Generated.HeapSrc TonVerif.Proofs.SrcHeap in
/-- the regenerated bit-moving methods applicable to `self` with arguments `a`, as transitions, each with the model operation it is
proved equal to.  `store_uint` whose `int2ba` raises and `load_uint(0)` (`ba2int` of nothing raises) are the failing transition
(`observe` of a non-cell: heap unchanged, `err`).  (`store_slice` needs `ref_offset ≤ len(refs)` of its argument: that is the
invariant `WF.offLe`, carried by every history.) -/
def srcBits (H : Bytes → Bytes) (σ : State) (self : Nat) (a : SrcArgs) : List (Op × (State × Out)) :=
  (if σ.has self .builder then
    [(Op.storeBits self a.bs, Py.Heap.resultUnit σ (Builder_store_bits H σ self a.bs)),
     ((match Py.Heap.int2baU? a.v a.n with | some e => Op.storeBits self e | none => Op.observe self),
        Py.Heap.resultUnit σ (Builder_store_uint H σ self a.v a.n))] ++
    (if σ.has a.arg .ubits then [(Op.storeFrom self a.arg, Py.Heap.resultUnit σ (Builder_store_bits H σ self (σ.bitsOf a.arg)))] else []) ++
    (if σ.has a.arg .cell then [(Op.storeFrom self a.arg, Py.Heap.resultUnit σ (Builder_store_cell H σ self a.arg))] else []) ++
    (if σ.has a.arg .slice then [(Op.storeFrom self a.arg, Py.Heap.resultUnit σ (Builder_store_slice H σ self a.arg))] else [])
   else []) ++
  (if σ.has self .slice then
    [(Op.peekBits self a.n, Py.Heap.resultBits σ (Slice_preload_bits H σ self a.n)),
     (Op.dropBits self a.n true, Py.Heap.resultBits σ (Slice_load_bits H σ self a.n)),
     (Op.dropBits self a.n false, Py.Heap.resultDrop σ ((σ.bitsOf self).take a.n) (Slice_skip_bits H σ self a.n)),
     ((if a.n = 0 then Op.observe self else Op.dropBits self a.n false),
        Py.Heap.resultDrop σ ((σ.bitsOf self).take a.n) (Slice_load_uint H σ self a.n))]
   else [])

open TonVerif.Generated.HeapSrc TonVerif.Proofs.SrcHeap in
/-- REGENERATED BIT-MOVING LOAD / STORE = MODEL STEP, on every heap satisfying the invariant (so: after every history):
`store_bits` / `store_uint` = `storeBits` (the builder's OWN array extended in place, overflow checked first, the argument only read);
`store_cell` / `store_slice` / `store_bits(array)` = `storeFrom` (own array and own list extended by the source's remaining bits and the
ELEMENTS of its remaining references - the source's containers are not kept); `preload_bits` = `peekBits` and `load_bits` =
`dropBits · true` (the result is a NEW array); `skip_bits` / `load_uint` = `dropBits · false` (only the slice's OWN array shrinks, underflow
checked first). -/
theorem c08_src_bits_step (H : Bytes → Bytes) (σ : State) (h : Inv H σ) (self : Nat) (a : SrcArgs) :
    ∀ r ∈ srcBits H σ self a, r.2 = step H σ r.1 := by
  intro r hr
  unfold srcBits at hr
  rcases List.mem_append.1 hr with h1 | h1
  · by_cases hb : σ.has self .builder = true
    · have hnc : σ.has self .cell = false := by
        have := (has_iff.1 hb).2; simp [State.has, this]
      simp only [hb, if_true] at h1
      rcases List.mem_append.1 h1 with h2 | h2
      · rcases List.mem_append.1 h2 with h3 | h3
        · rcases List.mem_append.1 h3 with h4 | h4
          · simp only [List.mem_cons, List.not_mem_nil, or_false] at h4
            rcases h4 with rfl | rfl
            · exact Builder_store_bits_eq H σ self a.bs hb
            · have := Builder_store_uint_eq H σ self a.v a.n hb
              cases he : Py.Heap.int2baU? a.v a.n with
              | none => simp only [he] at this ⊢; rw [this]; simp [step, hnc]
              | some e => simp only [he] at this ⊢; exact this
          · by_cases hu : σ.has a.arg .ubits = true
            · simp only [hu, if_true, List.mem_cons, List.not_mem_nil, or_false] at h4
              subst h4; exact Builder_store_bits_array_eq H σ self a.arg hb hu
            · simp [hu] at h4
        · by_cases hc : σ.has a.arg .cell = true
          · simp only [hc, if_true, List.mem_cons, List.not_mem_nil, or_false] at h3
            subst h3; exact Builder_store_cell_eq H σ h.wf self a.arg hb hc
          · simp [hc] at h3
      · by_cases hs : σ.has a.arg .slice = true
        · simp only [hs, if_true, List.mem_cons, List.not_mem_nil, or_false] at h2
          subst h2
          obtain ⟨hbi, hbt⟩ := has_iff.1 hb
          obtain ⟨hsi, hst⟩ := has_iff.1 hs
          have hne : self ≠ a.arg := by intro e; rw [e, hst] at hbt; cases hbt
          exact Builder_store_slice_eq H σ h.wf self a.arg hb hs
            (h.sep.sepR self a.arg hbi hsi hne (by simp [hbt, Tag.owner]) (by simp [hst, Tag.hasRefs]))
        · simp [hs] at h2
    · simp [hb] at h1
  · by_cases hs : σ.has self .slice = true
    · have hnc : σ.has self .cell = false := by
        have := (has_iff.1 hs).2; simp [State.has, this]
      simp only [hs, if_true, List.mem_cons, List.not_mem_nil, or_false] at h1
      rcases h1 with rfl | rfl | rfl | rfl
      · exact Slice_preload_bits_eq H σ self a.n hs
      · exact Slice_load_bits_eq H σ h.wf self a.n hs
      · exact Slice_skip_bits_eq H σ self a.n hs
      · by_cases hn : a.n = 0
        · simp [hn, Slice_load_uint_zero, Py.Heap.resultDrop, step, hnc]
        · simp only [hn, if_false]
          exact (Slice_load_uint_eq H σ self a.n (by omega) hs).1
    · simp [hs] at h1

open TonVerif.Generated.HeapSrc TonVerif.Proofs.SrcHeap in
/-- REGENERATED `Cell(bits, refs, cell_type)` = MODEL `cellCtor`, on every heap, for every caller-held array `ub` and list `ur`.
`Cell___init__` is read off boc/cell.py on every run: the two pointer stores (`self.bits = bits`, `self.refs = refs`, repeated by
`NullCell.__init__`) decide which containers the new object points to; every other attribute is a cache computed by methods that were
inspected to only READ `.bits` / `.refs` (`resolve_mask`, `calculate_hashes`, `get_descriptors`, `get_depth`, `get_hash` ...), except
`get_data_bytes`, which is translated and run as a scratch call.  The theorem: the call raises exactly when the model's constructor
refuses the content; otherwise the ONLY change of the heap is one new Cell record whose `.bits` / `.refs` are the caller's OWN two
containers (no copy), whose caches are what `construct` computes from their present content - no container is allocated that
survives the call, none is written, no other record changes. -/
theorem c08_src_ctor_step (H : Bytes → Bytes) (σ : State) (ub ur : Nat) (kind : Int)
    (hb : σ.has ub .ubits = true) (hr : σ.has ur .urefs = true) :
    Py.Heap.result σ (Cell___init__ H σ (σ.obj ub).bitsId (σ.obj ur).refsId kind) = step H σ (.cellCtor ub ur kind) ∧
    (∀ σ' c, Cell___init__ H σ (σ.obj ub).bitsId (σ.obj ur).refsId kind = some (σ', c) →
      c = σ.nObj ∧ (σ'.obj c).tag = .cell ∧ (σ'.obj c).bitsId = (σ.obj ub).bitsId ∧ (σ'.obj c).refsId = (σ.obj ur).refsId ∧
      σ'.bitBuf = σ.bitBuf ∧ σ'.refBuf = σ.refBuf ∧ σ'.nBit = σ.nBit ∧ σ'.nRef = σ.nRef ∧ σ'.nObj = σ.nObj + 1 ∧
      ∀ j, j ≠ c → σ'.obj j = σ.obj j) := by
  refine ⟨Cell___init___eq H σ ub ur kind hb hr, ?_⟩
  intro σ' c h
  simp only [Cell___init__, Py.Heap.newCell?] at h
  cases hm : mkCellRec H σ (σ.obj ub).bitsId (σ.obj ur).refsId kind (σ.bitBuf (σ.obj ub).bitsId) (σ.refBuf (σ.obj ur).refsId) with
  | none => simp [hm] at h
  | some rec =>
    simp only [hm, Option.map_some, Option.bind_some, scratch_get_data_bytes, Option.some.injEq, Prod.mk.injEq] at h
    obtain ⟨rfl, rfl⟩ := h
    simp only [mkCellRec, Option.map_eq_some_iff] at hm
    obtain ⟨info, _, rfl⟩ := hm
    refine ⟨rfl, by simp [State.push], by simp [State.push], by simp [State.push], rfl, rfl, rfl, rfl, rfl, ?_⟩
    intro j hj; simp [State.push, hj]

/-- EVERY regenerated call, as a transition tagged with the model operation it equals: the eleven copy / derive methods, `store_ref`,
`load_ref`, the bit-moving loads / stores, and the constructor `Cell(array self, list a.arg, a.v)`. -/
def srcCalls (H : Bytes → Bytes) (σ : State) (self : Nat) (a : SrcArgs) : List (Op × (State × Out)) :=
  (srcDerive H σ self).map (fun r => (Op.derive self r.1, r.2)) ++ srcMut H σ self a.arg ++ srcBits H σ self a ++
  (if σ.has self .ubits && σ.has a.arg .urefs then
    [(Op.cellCtor self a.arg a.v,
      Py.Heap.result σ (TonVerif.Generated.HeapSrc.Cell___init__ H σ (σ.obj self).bitsId (σ.obj a.arg).refsId a.v))] else [])

/-- every regenerated call is the model step it is tagged with -/
theorem c08_src_calls_step (H : Bytes → Bytes) (σ : State) (h : Inv H σ) (self : Nat) (a : SrcArgs) :
    ∀ r ∈ srcCalls H σ self a, r.2 = step H σ r.1 := by
  intro r hr
  unfold srcCalls at hr
  rcases List.mem_append.1 hr with h0 | h0
  · rcases List.mem_append.1 h0 with h1 | h1
    · rcases List.mem_append.1 h1 with h2 | h2
      · obtain ⟨q, hq, rfl⟩ := List.mem_map.1 h2
        exact c08_src_step H σ h.wf self q hq
      · exact (c08_src_separation_mut H σ h self a.arg r h2).1
    · exact c08_src_bits_step H σ h self a r h1
  · by_cases hc : (σ.has self .ubits && σ.has a.arg .urefs) = true
    · simp only [hc, if_true, List.mem_cons, List.not_mem_nil, or_false] at h0
      subst h0
      simp only [Bool.and_eq_true] at hc
      exact (c08_src_ctor_step H σ self a.arg a.v hc.1 hc.2).1
    · simp [hc] at h0

/-- a history over the WHOLE op alphabet: regenerated source calls (any of `srcCalls`, any receiver, any arguments) interleaved with
the transitions that are still hand model (the cells of `Boc.deserialize`, `hash` / `to_boc`, the caller creating arrays and lists) -/
inductive SrcRun (H : Bytes → Bytes) : State → State → Prop where
  | done (σ : State) : SrcRun H σ σ
  | src (σ : State) (self : Nat) (a : SrcArgs) (r : Op × (State × Out)) (σ' : State) :
      r ∈ srcCalls H σ self a → SrcRun H r.2.1 σ' → SrcRun H σ σ'
  | model (σ : State) (op : Op) (σ' : State) : SrcRun H (step H σ op).1 σ' → SrcRun H σ σ'

/-- SEPARATION and IMMUTABILITY along every history over the whole alphabet of regenerated calls.  From any heap satisfying the
invariant (e.g. the empty heap), after any sequence of regenerated copy / derive / load / store calls and hand-model transitions:
`Sep ∧ WF ∧ Coh` holds again - no slice or builder shares a container with anything, in particular a builder filled by `store_cell` /
`store_slice` does not point into the source cell, an array returned by `load_bits` is not the slice's - and every cell of the first
heap is exactly as it was: record, cached hashes, content of its bit container and of its list. -/
theorem c08_src_history (H : Bytes → Bytes) (σ σ' : State) (h : Inv H σ) (r : SrcRun H σ σ') :
    Inv H σ' ∧ ∀ i, i < σ.nObj → (σ.obj i).tag = .cell → cellObs σ' i = cellObs σ i := by
  have key : ∀ (σ : State) (op : Op), Inv H σ → ∀ σ', (Inv H (step H σ op).1 →
      (Inv H σ' ∧ ∀ i, i < (step H σ op).1.nObj → ((step H σ op).1.obj i).tag = .cell → cellObs σ' i = cellObs (step H σ op).1 i)) →
      Inv H σ' ∧ ∀ i, i < σ.nObj → (σ.obj i).tag = .cell → cellObs σ' i = cellObs σ i := by
    intro σ op h σ' ih
    have h1 := inv_step (H := H) h op
    obtain ⟨a, b⟩ := ih h1
    refine ⟨a, fun i hi ht => ?_⟩
    have f := frame_step H σ op
    have e := cell_frame h f i hi ht
    have ht' : ((step H σ op).1.obj i).tag = .cell := by
      have := congrArg Prod.fst e; simp only [cellObs] at this; rw [this]; exact ht
    exact (b i (Nat.lt_of_lt_of_le hi f.nObj) ht').trans e
  induction r with
  | done σ => exact ⟨h, fun _ _ _ => rfl⟩
  | src σ self a r σ' hr _ ih =>
    have e := c08_src_calls_step H σ h self a r hr
    rw [e] at ih
    exact key σ r.1 h σ' ih
  | model σ op σ' _ ih => exact key σ op h σ' ih

/-- from the empty heap -/
theorem c08_src_history_init (H : Bytes → Bytes) (σ' : State) (r : SrcRun H init σ') : Inv H σ' :=
  (c08_src_history H init σ' (inv_init H) r).1

open TonVerif.Generated.HeapSrc in
/-- non-vacuity on the `demo` heap (builder 5, cells 2 / 3 / 6 / 8, slices 4 / 7): the regenerated `store_cell` of builder 5 with cell 2
raises nothing it should not - it returns the builder, whose two containers are still its own and differ from the cell's, its array ends
with the cell's bits and no container was allocated; `load_bits(2)` of slice 4 returns a container that did not exist before and is not
the slice's; `skip_bits(9)` raises; the alphabet is non-empty for a builder and for a slice, and a two-call `SrcRun` exists. -/
example :
    (Builder_store_cell H0 (run H0 init demo) 5 6).map (fun r => (r.2, (r.1.obj 5).bitsId == ((run H0 init demo).obj 5).bitsId,
        (r.1.obj 5).bitsId == (r.1.obj 6).bitsId, (r.1.obj 5).refsId == (r.1.obj 6).refsId, r.1.nBit == (run H0 init demo).nBit))
      = some (5, true, false, false, true) ∧
    (Slice_load_bits H0 (run H0 init demo) 4 2).map (fun r => (r.2 == (run H0 init demo).nBit, r.2 == (r.1.obj 4).bitsId, r.1.bitBuf r.2,
        r.1.bitsOf 4)) = some (true, false, [true, true], [false]) ∧
    (Slice_skip_bits H0 (run H0 init demo) 4 9).isNone = true ∧
    (srcBits H0 (run H0 init demo) 5 ⟨6, 3, 5, [true]⟩).length = 3 ∧ (srcBits H0 (run H0 init demo) 4 ⟨0, 2, 0, []⟩).length = 4 ∧
    (srcCalls H0 (run H0 init demo) 5 ⟨2, 3, 5, [true]⟩).length = 7 := by
  decide +kernel

open TonVerif.Generated.HeapSrc in
example : ∃ σ', SrcRun H0 (run H0 init demo) σ' ∧ σ'.nObj = (run H0 init demo).nObj + 1 := by
  have hs : (run H0 init demo).has 4 .slice = true := by decide +kernel
  have hb : (run H0 init demo).has 4 .builder = false := by decide +kernel
  refine ⟨(Py.Heap.resultBits (run H0 init demo) (Slice_load_bits H0 (run H0 init demo) 4 2)).1,
    .src (run H0 init demo) 4 ⟨0, 2, 0, []⟩
      (Op.dropBits 4 2 true, Py.Heap.resultBits (run H0 init demo) (Slice_load_bits H0 (run H0 init demo) 4 2)) _ ?_ (.done _), ?_⟩
  · simp [srcCalls, srcBits, hs, hb]
  · decide +kernel

/-! ### `Cell(bits, refs)`: the constructor's heap-touching helper regenerated (partial source tie of `cellCtor`) -/

open TonVerif.Generated.HeapSrc TonVerif.Proofs.SrcHeap in
/-- PARTIAL.  Full statement (not proved from source): the whole of `Cell.__init__`, regenerated, equals the model step `cellCtor ub ur kind`.
Proved: (model side) a successful `cellCtor` yields a cell whose `.bits` / `.refs` ARE the caller's two containers and changes no container;
(source side) `Cell.get_data_bytes` - regenerated from boc/cell.py; the only method `__init__` calls that touches a bit array (once per
hash level and once for `_data_bytes`) - run on that new cell PADS A COPY: every existing bit container (so the caller's array the cell
points to), every list and every object record is left as it was; it only allocates one scratch array.  That `__init__` stores the two
pointers it is given is checked on the source text by the translator (heapsrc.program). -/
theorem c08_src_ctor_step_partial (H : Bytes → Bytes) (σ σ' : State) (ub ur c : Nat) (kind : Int)
    (hstep : step H σ (.cellCtor ub ur kind) = (σ', .obj c)) :
    ((σ'.obj c).bitsId = (σ.obj ub).bitsId ∧ (σ'.obj c).refsId = (σ.obj ur).refsId ∧ σ'.bitBuf = σ.bitBuf ∧ σ'.refBuf = σ.refBuf) ∧
    ∃ σ'' v, Cell_get_data_bytes H σ' c = some (σ'', v) ∧ (∀ j, j < σ'.nBit → σ''.bitBuf j = σ'.bitBuf j) ∧
      σ''.refBuf = σ'.refBuf ∧ σ''.obj = σ'.obj ∧ σ''.nObj = σ'.nObj := by
  constructor
  · simp only [step] at hstep
    split at hstep
    · cases hm : mkCellRec H σ (σ.obj ub).bitsId (σ.obj ur).refsId kind (σ.bitBuf (σ.obj ub).bitsId) (σ.refBuf (σ.obj ur).refsId) with
      | none => simp [hm] at hstep
      | some rec =>
        simp only [hm, Prod.mk.injEq, Out.obj.injEq] at hstep
        obtain ⟨rfl, rfl⟩ := hstep
        simp only [mkCellRec, Option.map_eq_some_iff] at hm
        obtain ⟨info, _, rfl⟩ := hm
        simp [State.push]
    · simp at hstep
  · obtain ⟨σ'', v, h1, h2, h3, h4, h5, _⟩ := Cell_get_data_bytes_frame H σ' c
    exact ⟨σ'', v, h1, h2, h3, h4, h5⟩

open TonVerif.Generated.HeapSrc in
/-- non-vacuity: on `demo` the regenerated constructor applied to the caller's array 0 and list 1 (already shared by cells 2 and 3) makes
object 9, a cell pointing at the very same two containers; nothing is allocated. -/
example :
    (Cell___init__ H0 (run H0 init demo) ((run H0 init demo).obj 0).bitsId ((run H0 init demo).obj 1).refsId (-1)).map
      (fun r => (r.2, (r.1.obj r.2).bitsId == (r.1.obj 2).bitsId, (r.1.obj r.2).refsId == (r.1.obj 2).refsId,
        r.1.nBit == (run H0 init demo).nBit, r.1.nRef == (run H0 init demo).nRef)) = some (9, true, true, true, true) ∧
    (run H0 init demo).has 0 .ubits = true ∧ (run H0 init demo).has 1 .urefs = true := by
  decide +kernel

open TonVerif.Generated.HeapSrc in
/-- non-vacuity: in `demo`, cell 2 was built by `Cell(array 0, list 1)`; the regenerated `get_data_bytes` on it returns `10110` padded to
`0xB4`, allocates one array, and the cell still points at the caller's array, which still holds `10110`. -/
example :
    (Cell_get_data_bytes H0 (run H0 init demo) 2).map (fun r => (r.2, r.1.nBit == (run H0 init demo).nBit + 1, r.1.bitsOf 2,
        (r.1.obj 2).bitsId == (r.1.obj 0).bitsId)) = some ([0xB4], true, [true, false, true, true, false], true) := by
  decide +kernel

end TonVerif.Properties.C08
