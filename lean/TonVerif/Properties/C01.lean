/-
C01 — ordinary cell hash and depth are the TON representation hash and depth.

`Model.Cell.info H` is the executable mirror of the Python `Cell` constructor; `ordHash`/`ordDepth`
(Proofs/OrdCell.lean) are the textbook definitions (tvm.pdf 3.1.4-3.1.5):
  hash  = H( d1 d2 ++ data padded with the completion tag ++ children depths (2 bytes) ++ children hashes )
  depth = 0 without references, else 1 + max children depth.
`H` (SHA-256) is an arbitrary function.  All statements quantify over EVERY tree of ordinary cells
(any bit length 0..1023, 0..4 references, any shape).
-/
import TonVerif.Proofs.OrdCell

namespace TonVerif.Properties.C01
open TonVerif TonVerif.Model TonVerif.Proofs.OrdCell

/-- hash and depth: a tree of ordinary cells of depth ≤ 1023 is constructible, has level mask 0, and its
hash / depth at every level are the standard representation hash / depth. -/
theorem c01_hash_depth (H : Bytes → Bytes) (c : Cell) (wf : OrdWF c) (hd : ordDepth c ≤ 1023) :
    ∃ i, Cell.info H c = some i ∧ i.mask = 0 ∧ i.hash = ordHash H c ∧
      ∀ l, i.getHash l = some (ordHash H c) ∧ i.getDepth l = some (ordDepth c) := by
  obtain ⟨i, h1, h2, _, h4, h5⟩ := ord_info H c wf hd
  exact ⟨i, h1, h2, h4, h5⟩

/-- depth limit: constructible exactly when the depth is at most 1023. -/
theorem c01_constructible_iff (H : Bytes → Bytes) (c : Cell) (wf : OrdWF c) :
    (Cell.info H c).isSome ↔ ordDepth c ≤ 1023 := by
  constructor
  · intro h
    by_cases hd : ordDepth c ≤ 1023
    · exact hd
    · have := ord_too_deep H c wf (by omega)
      simp [this] at h
  · intro hd
    obtain ⟨i, h1, _⟩ := ord_info H c wf hd
    simp [h1]

/-- the explicitly recomputed representation hash agrees with the cached one. -/
theorem c01_repr_agrees (H : Bytes → Bytes) (kind : Int) (bits : Bits) (refs : List Cell)
    (wf : OrdWF (.mk kind bits refs)) (hd : ordDepth (.mk kind bits refs) ≤ 1023) :
    ∃ i ks, Cell.info H (.mk kind bits refs) = some i ∧ Cell.infos H refs = some ks ∧
      (representation i ks).map H = some i.hash :=
  ord_representation H kind bits refs wf hd

/-- `==` holds exactly when the hashes are equal. -/
theorem c01_eq_iff_hash (a b : CellInfo) : a.pyEq b = true ↔ a.hash = b.hash := pyEq_iff a b

/-- `__hash__` values (dict keys) coincide exactly when the hashes are equal (hashes being byte strings of equal length). -/
theorem c01_pyhash_iff_hash (a b : CellInfo) (ha : Bytes.WF a.hash) (hb : Bytes.WF b.hash)
    (hl : a.hash.length = b.hash.length) : a.pyHash = b.pyHash ↔ a.hash = b.hash :=
  pyHash_iff a b ha hb hl

/-! Non-vacuity: a 5-bit cell with two references to leaf cells satisfies the hypotheses. -/
def sample : Cell := .mk (-1) [true, false, true, true, false] [.mk (-1) [] [], .mk (-1) [true] []]
example : OrdWF sample ∧ ordDepth sample ≤ 1023 := by
  simp [sample, OrdWF, OrdWFs, ordDepth, ordDepthMax]

end TonVerif.Properties.C01
