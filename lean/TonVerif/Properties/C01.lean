import TonVerif.Model.Cell
namespace TonVerif.Properties.C01
theorem placeholder : True := trivial
end TonVerif.Properties.C01
