/-
C01 — ordinary cell hash and depth are the TON representation hash and depth.

`Model.Cell.info H` is the executable mirror of the Python `Cell` constructor; `ordHash`/`ordDepth`
(Proofs/OrdCell.lean) are the textbook definitions (tvm.pdf 3.1.4-3.1.5):
  hash  = H( d1 d2 ++ data padded with the completion tag ++ children depths (2 bytes) ++ children hashes )
  depth = 0 without references, else 1 + max children depth.
`H` (SHA-256) is an arbitrary function.  All statements quantify over EVERY tree of ordinary cells
(any bit length 0..1023, 0..4 references, any shape).
-/
import TonVerif.Proofs.OrdCell
import TonVerif.Proofs.Binding
import TonVerif.Proofs.SrcArith
import TonVerif.Generated.CellArith
import TonVerif.Proofs.SrcCellCtor
import TonVerif.Proofs.SrcCellEntry
import TonVerif.Proofs.CellTwins

namespace TonVerif.Properties.C01
open TonVerif TonVerif.Model TonVerif.Proofs.OrdCell

/-- hash and depth: a tree of ordinary cells of depth ≤ 1023 is constructible, has level mask 0, and its
hash / depth at every level are the standard representation hash / depth. -/
theorem c01_hash_depth (H : Bytes → Bytes) (c : Cell) (wf : OrdWF c) (hd : ordDepth c ≤ 1023) :
    ∃ i, Cell.info H c = some i ∧ i.mask = 0 ∧ i.hash = ordHash H c ∧
      ∀ l, i.getHash l = some (ordHash H c) ∧ i.getDepth l = some (ordDepth c) := by
  obtain ⟨i, h1, h2, _, h4, h5⟩ := ord_info H c wf hd
  exact ⟨i, h1, h2, h4, h5⟩

/-- depth limit: constructible exactly when the depth is at most 1023. -/
theorem c01_constructible_iff (H : Bytes → Bytes) (c : Cell) (wf : OrdWF c) :
    (Cell.info H c).isSome ↔ ordDepth c ≤ 1023 := by
  constructor
  · intro h
    by_cases hd : ordDepth c ≤ 1023
    · exact hd
    · have := ord_too_deep H c wf (by omega)
      simp [this] at h
  · intro hd
    obtain ⟨i, h1, _⟩ := ord_info H c wf hd
    simp [h1]

/-- the explicitly recomputed representation hash agrees with the cached one. -/
theorem c01_repr_agrees (H : Bytes → Bytes) (kind : Int) (bits : Bits) (refs : List Cell)
    (wf : OrdWF (.mk kind bits refs)) (hd : ordDepth (.mk kind bits refs) ≤ 1023) :
    ∃ i ks, Cell.info H (.mk kind bits refs) = some i ∧ Cell.infos H refs = some ks ∧
      (representation i ks).map H = some i.hash :=
  ord_representation H kind bits refs wf hd

/-- `==` holds exactly when the hashes are equal. -/
theorem c01_eq_iff_hash (a b : CellInfo) : a.pyEq b = true ↔ a.hash = b.hash := pyEq_iff a b

/-- `__hash__` values (dict keys) coincide exactly when the hashes are equal (hashes being byte strings of equal length). -/
theorem c01_pyhash_iff_hash (a b : CellInfo) (ha : Bytes.WF a.hash) (hb : Bytes.WF b.hash)
    (hl : a.hash.length = b.hash.length) : a.pyHash = b.pyHash ↔ a.hash = b.hash :=
  pyHash_iff a b ha hb hl

/-! ## the representation determines the cell -/

/-- the standard representation `d1 d2 ++ padded data ++ child depths ++ child hashes` of an ordinary cell (≤ 4
references, 32-byte hashes) is injective: it determines the BIT STRING (the completion-tag padding is invertible given
`d2`, for every length 0..1023 and beyond), the number of references, and every child's depth field and hash. -/
theorem c01_repr_injective (H : Bytes → Bytes) (h32 : ∀ x, (H x).length = 32) (b1 b2 : Bits) (r1 r2 : List Cell)
    (hr1 : r1.length ≤ 4) (hr2 : r2.length ≤ 4)
    (h : [Spec.d1 r1.length false 0, Spec.d2 b1.length] ++ Spec.dataBytes b1 ++ ordDepthBytes r1 ++ ordHashes H r1
       = [Spec.d1 r2.length false 0, Spec.d2 b2.length] ++ Spec.dataBytes b2 ++ ordDepthBytes r2 ++ ordHashes H r2) :
    b1 = b2 ∧ r1.length = r2.length ∧ r1.map (fun c => Spec.be2 (ordDepth c)) = r2.map (fun c => Spec.be2 (ordDepth c)) ∧
      r1.map (ordHash H) = r2.map (ordHash H) := by
  rw [ordDepthBytes_eq, ordDepthBytes_eq, ordHashes_eq, ordHashes_eq] at h
  obtain ⟨en, _, _, eb, ed, eh⟩ := TonVerif.Proofs.Binding.repr_injective _ _ _ _ _ _ b1 b2 _ _ _ _ hr1 hr2
    (by simp) (by simp) (by simp) (by simp)
    (by intro x hx; simp only [List.mem_map] at hx; obtain ⟨c, _, rfl⟩ := hx; simp [Spec.be2])
    (by intro x hx; simp only [List.mem_map] at hx; obtain ⟨c, _, rfl⟩ := hx; simp [Spec.be2])
    (by intro x hx; simp only [List.mem_map] at hx; obtain ⟨c, _, rfl⟩ := hx; exact ordHash_length H h32 c)
    (by intro x hx; simp only [List.mem_map] at hx; obtain ⟨c, _, rfl⟩ := hx; exact ordHash_length H h32 c) h
  exact ⟨eb, en, ed, eh⟩

/-- hence: two ordinary cells with the same hash, when `H` does not collide on their two representations, have the same
bit string, the same number of references and pairwise equal child hashes. -/
theorem c01_hash_binding (H : Bytes → Bytes) (h32 : ∀ x, (H x).length = 32) (k1 k2 : Int) (b1 b2 : Bits) (r1 r2 : List Cell)
    (hr1 : r1.length ≤ 4) (hr2 : r2.length ≤ 4)
    (nocoll : ∀ x y, H x = H y →
      x = [Spec.d1 r1.length false 0, Spec.d2 b1.length] ++ Spec.dataBytes b1 ++ ordDepthBytes r1 ++ ordHashes H r1 →
      y = [Spec.d1 r2.length false 0, Spec.d2 b2.length] ++ Spec.dataBytes b2 ++ ordDepthBytes r2 ++ ordHashes H r2 → x = y)
    (hh : ordHash H (.mk k1 b1 r1) = ordHash H (.mk k2 b2 r2)) :
    b1 = b2 ∧ r1.length = r2.length ∧ r1.map (ordHash H) = r2.map (ordHash H) := by
  rw [ordHash, ordHash] at hh
  obtain ⟨e1, e2, _, e4⟩ := c01_repr_injective H h32 b1 b2 r1 r2 hr1 hr2 (nocoll _ _ hh rfl rfl)
  exact ⟨e1, e2, e4⟩

/-! Non-vacuity: a 5-bit cell with two references to leaf cells satisfies the hypotheses. -/
def sample : Cell := .mk (-1) [true, false, true, true, false] [.mk (-1) [] [], .mk (-1) [true] []]
example : OrdWF sample ∧ ordDepth sample ≤ 1023 := by
  simp [sample, OrdWF, OrdWFs, ordDepth, ordDepthMax]

/-! ## Source-regenerated arithmetic (`Generated/CellArith.lean` is re-translated from cell.py on every run)

The definitions `Generated.refsDescriptor`, `bitsDescriptor`, `depthTooLarge` are the mechanical translation of
`Cell.get_refs_descriptor`, `Cell.get_bits_descriptor` and of the depth test in `Cell.calculate_hashes`
(harness/translate/pyarith.py).  Each theorem also proves the translator's side conditions (`*_sideOk`: no Nat
subtraction underflows, no division by zero), so the Lean `Nat` reading equals the Python `int` one. -/
section Src
open TonVerif.Proofs.SrcArith
set_option linter.unusedSimpArgs false

/-- `get_refs_descriptor` computes d1 = r + 8·exotic + 32·mask (tvm.pdf 3.1.4), for ALL reference counts, flags and masks. -/
theorem c01_src_d1 (r : Nat) (exotic : Bool) (mask : Nat) :
    Generated.refsDescriptor_sideOk r exotic mask ∧ Generated.refsDescriptor r exotic mask = Spec.d1 r exotic mask := by
  simp only [Generated.refsDescriptor_sideOk, Generated.refsDescriptor, Spec.d1] <;>
    (cases exotic <;> src_arith)

/-- `get_bits_descriptor` computes d2 = ⌊b/8⌋ + ⌈b/8⌉ (tvm.pdf 3.1.4), for ALL bit lengths. -/
theorem c01_src_d2 (b : Nat) : Generated.bitsDescriptor_sideOk b ∧ Generated.bitsDescriptor b = Spec.d2 b := by
  simp only [Generated.bitsDescriptor_sideOk, Generated.bitsDescriptor, Spec.d2]
  src_arith

/-- the hand model's `descriptors` (what every hash in C01/C02 is computed over) is exactly the two source
computations, each written as ONE big-endian byte (`to_bytes(1, 'big')` — width and byte order are read from the source). -/
theorem c01_src_descriptors (r : Nat) (exotic : Bool) (b mask : Nat) :
    Generated.refsDescriptor_bigEndian = true ∧ Generated.bitsDescriptor_bigEndian = true ∧
    descriptors r exotic b mask =
      (do let d1 ← toBytesBE? Generated.refsDescriptor_width (Generated.refsDescriptor r exotic mask)
          let d2 ← toBytesBE? Generated.bitsDescriptor_width (Generated.bitsDescriptor b)
          pure (d1 ++ d2)) := by
  refine ⟨rfl, rfl, ?_⟩
  have h1 := (c01_src_d1 r exotic mask).2
  have h2 := (c01_src_d2 b).2
  have w1 : Generated.refsDescriptor_width = 1 := rfl
  have w2 : Generated.bitsDescriptor_width = 1 := rfl
  rw [h1, h2, w1, w2]
  unfold descriptors Spec.d1 Spec.d2
  have : (b / 8) * 2 + (if b % 8 != 0 then 1 else 0) = b / 8 + (b + 7) / 8 := by
    by_cases h : b % 8 = 0 <;> simp [h] <;> omega
  rw [this]

/-- within the cell limits (≤ 4 refs, mask ≤ 7, ≤ 1023 bits) both descriptors fit their single byte, so
`to_bytes` never raises. -/
theorem c01_src_descriptors_fit (r : Nat) (exotic : Bool) (b mask : Nat) (hr : r ≤ 4) (hm : mask ≤ 7) (hb : b ≤ 1023) :
    Generated.refsDescriptor r exotic mask < 256 ^ Generated.refsDescriptor_width ∧
    Generated.bitsDescriptor b < 256 ^ Generated.bitsDescriptor_width := by
  rw [(c01_src_d1 r exotic mask).2, (c01_src_d2 b).2]
  simp only [Spec.d1, Spec.d2, show Generated.refsDescriptor_width = 1 from rfl, show Generated.bitsDescriptor_width = 1 from rfl] <;>
    (cases exotic <;> src_arith)

/-- the depth test of `calculate_hashes` refuses exactly depths above 1023 (`c01_constructible_iff`'s bound), and the
hand model's test `depth0 + 1 >= 1024` is that test. -/
theorem c01_src_depth_limit (depth : Nat) :
    Generated.depthTooLarge_sideOk depth ∧ (Generated.depthTooLarge depth = false ↔ depth ≤ 1023) ∧
    Generated.depthTooLarge depth = decide (depth >= 1024) := by
  refine ⟨by simp only [Generated.depthTooLarge_sideOk]; src_arith, ?_, ?_⟩
  · simp only [Generated.depthTooLarge, decide_eq_false_iff_not] <;> omega
  · simp only [Generated.depthTooLarge, decide_eq_decide] <;> omega

/-- concrete values of the regenerated definitions (non-vacuity of the ranges in `c01_src_descriptors_fit`; 1023 bits,
4 refs, mask 7 are the largest admissible inputs). -/
example : Generated.bitsDescriptor 1023 = 255 ∧ Generated.bitsDescriptor 8 = 2 ∧ Generated.refsDescriptor 4 true 7 = 236 ∧
    Generated.depthTooLarge 1023 = false ∧ Generated.depthTooLarge 1024 = true := by decide

end Src

/-! ## Source-regenerated constructor (`Generated/CellCtor.lean`: `Cell.__init__` with `resolve_mask`, the `calculate_hashes`
loop, the descriptors and the completion-tag padding of `get_data_bytes`, re-translated from cell.py on every run by
harness/translate/cellctor.py + pyobj.py; `hashlib.sha256` is the parameter `H`, a child cell is its `CellInfo`)

The hand model `Model.construct`, about which every theorem above is proved, equals the regenerated constructor for ALL
inputs (`Proofs/SrcCellCtor.lean`); so the theorems hold for what the source computes, not for a transcription checked by
samples. -/
section SrcCtor
open TonVerif.Generated.CellCtor TonVerif.Proofs.SrcCellCtor

/-- ordinary cells (`cell_type = -1`): for ALL bit strings (any length) and ALL lists of child infos (any number, any level
masks, any stored hashes and depths) the regenerated `Cell.__init__` raises exactly when the hand model does and otherwise
returns the same level mask, `_hashes` and `_depths`, with `_hash` (`Cell.hash`) = the model's `CellInfo.hash`, `_descriptors` and
`_data_bytes` = the model's descriptor bytes and padded data (`CtorOut.ofModel`); the completion-tag padding is the spec's. -/
theorem c01_src_constructor (H : Bytes → Bytes) (bits : Bits) (refs : List CellInfo) :
    init H bits refs (-1) = (construct H (-1) bits refs).map CtorOut.ofModel ∧
    (init H bits refs (-1)).map CtorOut.toInfo = construct H (-1) bits refs ∧
    get_data_bytes (self_bits := bits) = some (dataBytes bits) ∧ dataBytes bits = Spec.dataBytes bits :=
  ⟨src_construct_eq_model H (-1) bits refs, src_construct_info H (-1) bits refs, get_data_bytes_eq bits,
    TonVerif.Proofs.CellSpec.dataBytes_eq bits⟩

/-- `c01_hash_depth` and `c01_constructible_iff` for the regenerated code: applying the REGENERATED constructor bottom-up to any
tree of ordinary cells succeeds exactly when the depth is at most 1023, and then the level mask is 0 and hash / depth at every
level are the standard representation hash / depth. -/
theorem c01_src_hash_depth (H : Bytes → Bytes) (c : Cell) (wf : OrdWF c) :
    ((srcInfo H c).isSome ↔ ordDepth c ≤ 1023) ∧
    (ordDepth c ≤ 1023 → ∃ i, srcInfo H c = some i ∧ i.mask = 0 ∧ i.hash = ordHash H c ∧
      ∀ l, i.getHash l = some (ordHash H c) ∧ i.getDepth l = some (ordDepth c)) := by
  rw [srcInfo_eq]
  exact ⟨c01_constructible_iff H c wf, c01_hash_depth H c wf⟩

/-! Non-vacuity: the regenerated constructor builds `sample` (5 bits, two references), for every hash function. -/
example (H : Bytes → Bytes) : (srcInfo H sample).isSome = true :=
  (c01_src_hash_depth H sample (by simp [sample, OrdWF, OrdWFs])).1.mpr (by simp [sample, ordDepth, ordDepthMax])

end SrcCtor

/-! ## Source-regenerated observers (`Generated/CellEntry.lean`: `Cell.get_representation`, `calculate_representation_hash`, the
property `hash`, `__eq__`, `__hash__`, re-translated from cell.py on every run by harness/translate/cellentry.py + pyobj.py in the
same program as the constructor, so `get_depth` / `get_hash` / `get_data_bytes` are the regenerated definitions above)

Each regenerated function equals the hand model (`Model.representation`, `CellInfo.pyEq`, `CellInfo.pyHash`) for ALL inputs
(`Proofs/SrcCellEntry.lean`); `c01_repr_agrees`, `c01_eq_iff_hash`, `c01_pyhash_iff_hash` are restated about what the source computes. -/
section SrcEntry
open TonVerif.Generated.CellCtor TonVerif.Generated.CellEntry TonVerif.Proofs.SrcCellCtor TonVerif.Proofs.SrcCellEntry

/-- the equality behind the three theorems below: for EVERY info `i` (any cell type, level mask, stored hashes), every list of
child infos and the descriptor bytes `d` the constructor stored for `i`, the regenerated `get_representation` returns the model's
representation (same decision to raise: `_hashes[-2]`, `to_bytes(2)` of a child depth, a child's `get_hash` / `get_depth`) and the
regenerated `calculate_representation_hash` its image under `H`; `__eq__` and `__hash__` never raise and return the model's values. -/
theorem c01_src_observers (H : Bytes → Bytes) (i : CellInfo) (refs : List CellInfo) (d : Bytes)
    (hd : descriptors i.nrefs (i.kind != kOrdinary) i.bits.length i.mask = some d) (b : CellInfo) :
    get_representation (self__descriptors := d) (self_bits := i.bits) (self__hashes := i.hashes) (self_level_mask := i.mask)
      (self_type_ := i.kind) (self_refs := refs) = representation i refs ∧
    calculate_representation_hash H (self__descriptors := d) (self_bits := i.bits) (self__hashes := i.hashes)
      (self_level_mask := i.mask) (self_type_ := i.kind) (self_refs := refs) = (representation i refs).map H ∧
    pyeq (other := b) (self__hash := i.hash) = some (i.pyEq b) ∧ pyhash (self__hash := i.hash) = some i.pyHash :=
  ⟨get_representation_eq i refs d hd, calculate_representation_hash_eq H i refs d hd, pyeq_eq i b, pyhash_eq i⟩

/-- `c01_repr_agrees` for the regenerated code: for every ordinary cell of depth ≤ 1023 (any bit string, 0..4 references, any
shape below) the REGENERATED constructor, applied bottom-up, builds the children (`ks`) and the cell (`o` = its attributes), and
the REGENERATED `calculate_representation_hash()` on these attributes returns exactly the cached `Cell.hash` (`o.hash = _hash`). -/
theorem c01_src_repr_agrees (H : Bytes → Bytes) (kind : Int) (bits : Bits) (refs : List Cell)
    (wf : OrdWF (.mk kind bits refs)) (hd : ordDepth (.mk kind bits refs) ≤ 1023) :
    ∃ o ks, srcInfos H refs = some ks ∧ init H bits ks kind = some o ∧
      calculate_representation_hash H (self__descriptors := o.descriptors) (self_bits := o.bits) (self__hashes := o.hashes)
        (self_level_mask := o.mask) (self_type_ := o.kind) (self_refs := ks) = some o.hash := by
  obtain ⟨i, ks, h1, h2, h3⟩ := c01_repr_agrees H kind bits refs wf hd
  have hc : construct H kind bits ks = some i := by
    simpa [Cell.info, h2] using h1
  refine ⟨CtorOut.ofModel i, ks, by rw [srcInfos_eq]; exact h2, by rw [src_construct_eq_model, hc]; rfl, ?_⟩
  cases hdesc : descriptors i.nrefs (i.kind != kOrdinary) i.bits.length i.mask with
  | none => simp [representation, hdesc] at h3
  | some d =>
    have := calculate_representation_hash_eq H i ks d hdesc
    simp only [CtorOut.ofModel, hdesc, Option.getD_some]
    rw [this, h3]

/-- `c01_eq_iff_hash` for the regenerated `__eq__` (with the regenerated property `hash`): it never raises and returns `True`
exactly when the two cached hashes are equal. -/
theorem c01_src_eq_iff_hash (a b : CellInfo) :
    ∃ r, pyeq (other := b) (self__hash := a.hash) = some r ∧ (r = true ↔ a.hash = b.hash) :=
  ⟨a.pyEq b, pyeq_eq a b, c01_eq_iff_hash a b⟩

/-- `c01_pyhash_iff_hash` for the regenerated `__hash__`: it never raises, and the dict keys of two cells coincide exactly when
their hashes are equal (hashes being byte strings of equal length). -/
theorem c01_src_pyhash_iff_hash (a b : CellInfo) (ha : Bytes.WF a.hash) (hb : Bytes.WF b.hash)
    (hl : a.hash.length = b.hash.length) :
    (pyhash (self__hash := a.hash)).isSome ∧ (pyhash (self__hash := a.hash) = pyhash (self__hash := b.hash) ↔ a.hash = b.hash) := by
  rw [pyhash_eq, pyhash_eq]
  refine ⟨rfl, ?_⟩
  rw [Option.some_inj]
  exact c01_pyhash_iff_hash a b ha hb hl

/-! Non-vacuity: `sample` (5 bits, two references) meets the hypotheses of `c01_src_repr_agrees` for every hash function; the
regenerated `__eq__` / `__hash__` on two concrete infos. -/
example (H : Bytes → Bytes) : ∃ o ks, srcInfos H [.mk (-1) [] [], .mk (-1) [true] []] = some ks ∧
    init H [true, false, true, true, false] ks (-1) = some o ∧
    calculate_representation_hash H (self__descriptors := o.descriptors) (self_bits := o.bits) (self__hashes := o.hashes)
      (self_level_mask := o.mask) (self_type_ := o.kind) (self_refs := ks) = some o.hash :=
  c01_src_repr_agrees H (-1) _ _ (by simp [OrdWF, OrdWFs]) (by simp [ordDepth, ordDepthMax])

example : pyeq (other := ⟨-1, [], 0, 0, [[1, 2]], [0]⟩) (self__hash := [1, 2]) = some true ∧
    pyeq (other := ⟨-1, [], 0, 0, [[1, 3]], [0]⟩) (self__hash := [1, 2]) = some false ∧ pyhash (self__hash := [1, 2]) = some 258 := by decide

end SrcEntry

/-! ## a tree next to its pruned twin (round 10)

An ordinary cell above a pruned branch has level > 0 and several hashes: `get_hash(0)` is the hash of the tree it stands for - the
same as that of the unpruned tree - while `Cell.hash` (the representation hash, the identity of the cell) is the last one. `==` and
dictionary keys must follow the representation hash: a tree and its pruned twin are DIFFERENT cells although their level-0 hashes,
bits and kinds agree. -/
section Twins
open TonVerif.Generated.CellEntry TonVerif.Proofs.SrcCellEntry TonVerif.Proofs.CellTwins

/-- for ALL infos `a`, `b` (any kind, bits, stored hashes) with their child infos: if the cached hashes are the hashes of the
representations (`c01_repr_agrees` / `c01_src_repr_agrees` give this for constructed cells), the level masks differ (a tree vs. the same
tree with a sub-tree pruned, or pruned for another Merkle depth) and `H` does not collide on these two representations, then `==`
(model and regenerated `__eq__`) is `False` and the dict keys (`__hash__`, model and regenerated) differ - whatever the level-0
hashes are. -/
theorem c01_twins_unequal (H : Bytes → Bytes) (a b : CellInfo) (ka kb : List CellInfo) (ra rb : Bytes)
    (ha : representation a ka = some ra) (hb : representation b kb = some rb) (hha : a.hash = H ra) (hhb : b.hash = H rb)
    (hna : a.nrefs < 8) (hnb : b.nrefs < 8) (hm : a.mask ≠ b.mask) (nocoll : H ra = H rb → ra = rb) :
    a.pyEq b = false ∧ pyeq (other := b) (self__hash := a.hash) = some false ∧
      (Bytes.WF a.hash → Bytes.WF b.hash → a.hash.length = b.hash.length →
        a.pyHash ≠ b.pyHash ∧ pyhash (self__hash := a.hash) ≠ pyhash (self__hash := b.hash)) := by
  have hne : a.hash ≠ b.hash := by
    intro he
    rw [hha, hhb] at he
    exact representation_ne_of_mask_ne a b ka kb ra rb ha hb hna hnb hm (nocoll he)
  have hq : a.pyEq b = false := by
    cases h : a.pyEq b with
    | false => rfl
    | true => exact absurd ((c01_eq_iff_hash a b).1 h) hne
  refine ⟨hq, by rw [pyeq_eq, hq], ?_⟩
  intro wa wb hl
  have hp : a.pyHash ≠ b.pyHash := fun h => hne ((c01_pyhash_iff_hash a b wa wb hl).1 h)
  refine ⟨hp, ?_⟩
  rw [pyhash_eq, pyhash_eq]
  intro h
  exact hp (Option.some.inj h)

/-! Non-vacuity with the injective "hash" `H = id`: a 240-bit leaf (its representation is 32 bytes long, so a pruned branch can store
it), the pruned branch of that leaf, and the two parents `[1] -> leaf` and `[1] -> pruned(leaf)` built by the model constructor: a
tree next to its pruned twin - same bits, kind and level-0 hash, different level mask - meets every hypothesis. -/
def Hid : Bytes → Bytes := fun x => x
def twinLeaf : Option CellInfo := construct Hid (-1) (List.replicate 240 true) []
def twinPruned : Option CellInfo := twinLeaf.bind (fun l => construct Hid 1 (bytesToBits ([1, 1] ++ l.hash ++ [0, 0])) [])
def twinA : Option CellInfo := twinLeaf.bind (fun l => construct Hid (-1) [true] [l])
def twinB : Option CellInfo := twinPruned.bind (fun p => construct Hid (-1) [true] [p])
def twinCheck : Bool :=
  match twinLeaf, twinPruned, twinA, twinB with
  | some l, some p, some a, some b =>
    match representation a [l], representation b [p] with
    | some ra, some rb =>
      decide (a.hash = Hid ra) && decide (b.hash = Hid rb) && decide (a.nrefs < 8) && decide (b.nrefs < 8) &&
        decide (a.mask ≠ b.mask) && decide (a.getHash 0 = b.getHash 0) && decide (a.bits = b.bits) && decide (a.kind = b.kind) &&
        decide (a.hash ≠ b.hash)
    | _, _ => false
  | _, _, _, _ => false
example : twinCheck = true := by decide +kernel
example (x y : Bytes) (h : Hid x = Hid y) : x = y := h

end Twins

end TonVerif.Properties.C01
