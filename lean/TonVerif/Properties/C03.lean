/-
C03 — bag-of-cells serialisation round-trips (work in progress).
-/
import TonVerif.Proofs.BocEmit

namespace TonVerif.Properties.C03
open TonVerif TonVerif.Model TonVerif.Proofs.BocEmit

/-- the width chosen for a count holds it (temporary) -/
theorem c03_width (n : Nat) : n < 256 ^ byteWidth n := lt_pow_byteWidth n

end TonVerif.Properties.C03
