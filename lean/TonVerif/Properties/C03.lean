/-
C03 — bag-of-cells serialisation round-trips for every DAG and option set; raw bytes, hex text and base64 text of the
same serialisation parse to the same result.

Proved here (emit side + input forms, for ALL inputs):
  * `c03_emit_decodes` — the bytes `to_boc` produces for any list of well-formed records with forward references and any of
    the 6 valid option sets decode, under the independent strict reader's byte-level layer, to the same records and root
    (this is the emit half of the round trip: nothing about the DAG is lost or altered by serialisation).
  * `c03_forms_hex`, `c03_forms_hex_upper`, `c03_forms_base64`, `c03_forms` — `Boc.__init__`'s input-form detection
    (bytes → as is; str → `bytes.fromhex`, on ValueError `base64.b64decode`; Model/BocForms.lean) yields the SAME bytes for the
    raw bytes, their hex text and their base64 text, for every byte string that starts with one of the three BoC magics;
    in particular for everything `to_boc` emits (`c03_forms_emit`).
  * `c03_magic_not_hex` — the only possible confusion, a base64 text that is also valid hex, cannot occur for a BoC: the
    base64 text of each of the three magics has a non-hex, non-space character among its first two characters
    ('t' in "te6cc…", 'P' in "aP9l8…", 'r' in "rMOnK…").

THE COMPOSITION (to be assembled by the coordinator once the parser model of C05 is merged):

  theorem c03_roundtrip (H) (t : Cell) (wf : TreeWF H t) (tagged …) (p) (hp : Cell.build H t = some p) (nc : NoCollision p)
      (o : Opts) (hv : o.valid) (fuel ≥ 6·cells+2) :
      ∃ bs, p.toBoc fuel o = some bs ∧ ∀ form ∈ {inl bs, inr (hexEnc bs), inr (b64Enc bs)},
        (inputBytes form).bind (BocParse.deserialize H) = some [t']     -- t' = the parser's image of t (same bits/type/refs/hash)

  needs from the parser model (Model/BocParse.lean, owner `bocin`), with these exact roles:
    BocParse.deserializeBocHeader : Bytes → Option Header'           (model of `Boc.deserialize_boc_header`)
    BocParse.deserializeCell      : Bytes → Nat → Option (… × Nat)   (model of `Boc.deserialize_cell`)
    BocParse.deserialize          : (H) → Bytes → Option (List PCell) (model of `Boc.deserialize`, roots)
  and one lemma about it, the parser-side twin of `strictFlat_emit`:
    BocParse.deserialize_of_strictFlat : strictFlat bs = some ⟨recs, roots⟩ → (records evaluate) →
        BocParse.deserialize H bs = some (roots.map (rebuild recs))
  (every encoding the strict reader accepts is parsed by the library to the denoted cells — this is C05's `c05_accepts`
  specialised to the emitter's freedoms), from which `c03_roundtrip` follows with `c03_emit_decodes`, `order_valid`,
  `c03_forms_emit` and the cell↔record lemma listed as missing in Properties/C04.lean.
  Entry points: `Slice.one_from_boc = (deserialize …)[0].begin_parse()`, `Builder.one_from_boc = (…)[0].to_builder()`;
  `c03_entrypoints` is a statement about Model/Builder.lean's `begin_parse`/`to_builder` images and needs nothing else.
-/
import TonVerif.Proofs.BocEmit
import TonVerif.Proofs.BocForms

namespace TonVerif.Properties.C03
open TonVerif TonVerif.Model TonVerif.Model.BocForms TonVerif.Spec.Boc TonVerif.Proofs.BocEmit TonVerif.Proofs.BocForms

/-- emit half of the round trip: the emitted bytes decode (independent strict reader, byte-level layer) to exactly the
records that were serialised, with root index 0 — for every record list / valid order and all 6 option sets. -/
theorem c03_emit_decodes (o : Opts) (as : List ARec) (hv : o.valid = true) (h1 : 1 ≤ as.length) (hn : as.length < 2 ^ 32)
    (hP : (payloadOf (sizeW as) as).length * 2 < 2 ^ 64) (ok : ∀ a ∈ as, a.OK as.length) (fw : Forward as) :
    ∃ bs, emit (as.map ARec.toRec) o = some bs ∧ strictFlat bs = some ⟨as.map ARec.toSRec, [0]⟩ := by
  obtain ⟨bs, h1, _, h2⟩ := strictFlat_emit o as hv h1 hn hP ok fw
  exact ⟨bs, h1, h2⟩

/-- `bytes.fromhex(b.hex()) == b`, and `Boc(b.hex())` holds the same bytes as `Boc(b)`. -/
theorem c03_forms_hex (b : Bytes) (h : Bytes.WF b) :
    fromHex (hexEnc b) = some b ∧ inputBytes (.inr (hexEnc b)) = inputBytes (.inl b) :=
  ⟨fromHex_hexEnc b h, inputBytes_hex b h⟩

/-- the same for upper-case hex digits -/
theorem c03_forms_hex_upper (b : Bytes) (h : Bytes.WF b) :
    inputBytes (.inr (hexEncUpper b)) = inputBytes (.inl b) := inputBytes_hexUpper b h

/-- `base64.b64decode(base64.b64encode(b)) == b` for every byte string. -/
theorem c03_base64_roundtrip (b : Bytes) (h : Bytes.WF b) : b64Dec (b64Enc b) = some b := b64Dec_b64Enc b h

/-- the base64 text of a byte string starting with a BoC magic is never taken for hex: its first two characters contain a
character that is neither a hex digit nor whitespace, so `bytes.fromhex` raises. -/
theorem c03_magic_not_hex (rest : Bytes) :
    fromHex (b64Enc ([0xb5, 0xee, 0x9c, 0x72] ++ rest)) = none ∧
    fromHex (b64Enc ([0x68, 0xff, 0x65, 0xf3] ++ rest)) = none ∧
    fromHex (b64Enc ([0xac, 0xc3, 0xa7, 0x28] ++ rest)) = none :=
  ⟨fromHex_b64_magic rest, fromHex_b64_magic_leanBoc rest, fromHex_b64_magic_leanBocCrc rest⟩

/-- the concrete characters (first five base64 characters are fixed by the four magic bytes) -/
theorem c03_magic_prefix (rest : Bytes) :
    (b64Enc ([0xb5, 0xee, 0x9c, 0x72] ++ rest)).take 5 = ['t', 'e', '6', 'c', 'c'] ∧
    (b64Enc ([0x68, 0xff, 0x65, 0xf3] ++ rest)).take 5 = ['a', 'P', '9', 'l', '8'] ∧
    (b64Enc ([0xac, 0xc3, 0xa7, 0x28] ++ rest)).take 5 = ['r', 'M', 'O', 'n', 'K'] :=
  ⟨b64_magic_prefix rest, b64_magic_prefix_leanBoc rest, b64_magic_prefix_leanBocCrc rest⟩

/-- `Boc(base64 text)` holds the same bytes as `Boc(bytes)` for every byte string starting with one of the three magics. -/
theorem c03_forms_base64 (magic : Bytes)
    (hm : magic ∈ [[0xb5, 0xee, 0x9c, 0x72], [0x68, 0xff, 0x65, 0xf3], [0xac, 0xc3, 0xa7, 0x28]]) (rest : Bytes) (h : Bytes.WF rest) :
    inputBytes (.inr (b64Enc (magic ++ rest))) = inputBytes (.inl (magic ++ rest)) :=
  inputBytes_b64_magic magic hm rest h

/-- **the three input forms agree**: for a byte string that starts with the BoC magic, `Boc.__init__` ends up with the same
bytes whether it is given the bytes, their hex text or their base64 text. -/
theorem c03_forms (rest : Bytes) (h : Bytes.WF rest) :
    let b := [0xb5, 0xee, 0x9c, 0x72] ++ rest
    inputBytes (.inl b) = some b ∧ inputBytes (.inr (hexEnc b)) = some b ∧ inputBytes (.inr (b64Enc b)) = some b := by
  have hb : Bytes.WF ([0xb5, 0xee, 0x9c, 0x72] ++ rest) := WF_append (by decide) h
  refine ⟨rfl, ?_, ?_⟩
  · rw [inputBytes_hex _ hb]; rfl
  · rw [inputBytes_b64 rest h]; rfl

/-- everything `to_boc` emits is such a byte string: all three forms of an emitted serialisation are read back as the
emitted bytes. -/
theorem c03_forms_emit (o : Opts) (as : List ARec) (hv : o.valid = true) (h1 : 1 ≤ as.length) (hn : as.length < 2 ^ 32)
    (hP : (payloadOf (sizeW as) as).length * 2 < 2 ^ 64) (ok : ∀ a ∈ as, a.OK as.length) :
    ∃ bs, emit (as.map ARec.toRec) o = some bs ∧
      inputBytes (.inl bs) = some bs ∧ inputBytes (.inr (hexEnc bs)) = some bs ∧ inputBytes (.inr (b64Enc bs)) = some bs := by
  refine ⟨_, emit_eq o as hv h1 hn hP ok, ?_⟩
  have hwf := emitted_wf o as h1 hn hP ok
  have := c03_forms _ hwf
  simpa [bodyOf, bocMagic, List.append_assoc] using this

/-! Non-vacuity. -/
example : Bytes.WF [0xb5, 0xee, 0x9c, 0x72, 0x01, 0x02] := by decide

end TonVerif.Properties.C03
