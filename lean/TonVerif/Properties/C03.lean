/-
C03 — bag-of-cells serialisation round-trips for every DAG and option set; raw bytes, hex text and base64 text of the
same serialisation parse to the same result.

Proved here (emit side + input forms, for ALL inputs):
  * `c03_emit_decodes` — the bytes `to_boc` produces for any list of well-formed records with forward references and any of
    the 6 valid option sets decode, under the independent strict reader's byte-level layer, to the same records and root
    (this is the emit half of the round trip: nothing about the DAG is lost or altered by serialisation).
  * `c03_forms_hex`, `c03_forms_hex_upper`, `c03_forms_base64`, `c03_forms` — `Boc.__init__`'s input-form detection
    (bytes → as is; str → `bytes.fromhex`, on ValueError `base64.b64decode`; Model/BocForms.lean) yields the SAME bytes for the
    raw bytes, their hex text and their base64 text, for every byte string that starts with one of the three BoC magics;
    in particular for everything `to_boc` emits (`c03_forms_emit`).
  * `c03_magic_not_hex` — the only possible confusion, a base64 text that is also valid hex, cannot occur for a BoC: the
    base64 text of each of the three magics has a non-hex, non-space character among its first two characters
    ('t' in "te6cc…", 'P' in "aP9l8…", 'r' in "rMOnK…").

  * `c03_emit_denotes` — (= C04's `c04_conforms`) the bytes `to_boc` emits for a spec-valid typed tree `t` denote, under the
    independent strict reader, exactly `[t]`.

THE COMPOSITION — proved here (helpers: Proofs/BocRoundTrip.lean):
  * `c03_roundtrip` — THE PROPERTY.  For every spec-valid typed tree `t` (C02's `TreeWF`, `Typed`), the object graph `p` that
    `Cell.__init__` builds for it, under the local `NoCollision p`, every fuel for which the model of `Cell.order` returns, each of
    the 6 valid option sets (within the format's own limits: < 2^32 cells, doubled payload < 2^64): the model of `to_boc`
    returns bytes `bs`, and the model of `Cell.from_boc` (Model/BocParse.lean: `deserialize_boc_header`, `deserialize_cell`,
    the rebuild loop, the cell constructor) applied to `bs`, to the hex text of `bs` and to the base64 text of `bs` — through
    BOTH models of `Boc.__init__` (`BocForms.inputBytes`, the reference model with CPython's non-strict decoder, and
    `BocParse.bocInit`) — returns exactly ONE root `(t', i')` with `t' = t` (identical kinds/types, data bits and references,
    recursively) and `i' = p.info` (the identical cached hashes, depths and level mask, hence the identical hash).
    Route: the emitted bytes ARE `Spec.BocEncode.encodeWith fr cells [0]` for the library's freedoms `fr` (generic magic,
    minimal size width, minimal offset width from the doubled length with cache bits, no stored hashes, one root) and the
    listing `cells` of the order (`toBoc_eq_encodeWith`), that listing is `Valid` and denotes the unfoldings of the ordered cells
    (`valid_order`, `denote_order`), so C05's `c05_accepts` applies.
  * `c03_roundtrip_total` — with existence of `p` and termination of `Cell.order` for the driver's fuel.
  * `c03_entry_cell`, `c03_entry_slice`, `c03_entry_builder` — the three `one_from_boc` entry points (Model/BocEntry.lean) on
    the three input forms: `Cell.one_from_boc` returns that root; `Slice.one_from_boc` returns the slice holding all data
    bits and all references of the root; `Builder.one_from_boc` returns the builder holding exactly the root's bits and
    references when the root is ordinary and RAISES when the root is exotic (`to_builder` refuses exotic cells: the
    recorded known finding `builder-entry:exotic-root-refused`).
  * `c03_store_cell` — the `store_cell` fact behind the Builder entry point.
-/
import TonVerif.Proofs.BocEmit
import TonVerif.Proofs.BocForms
import TonVerif.Proofs.BocSemFinal
import TonVerif.Model.Builder
import TonVerif.Model.BocEntry
import TonVerif.Proofs.BocRoundTrip
import TonVerif.Proofs.SrcBocDeser
import TonVerif.Proofs.SrcBocEmit
import TonVerif.Proofs.SrcBocAny
import TonVerif.Proofs.BocRoundTripAny
import TonVerif.Proofs.SrcEntry

namespace TonVerif.Properties.C03
open TonVerif TonVerif.Model TonVerif.Model.BocForms TonVerif.Spec.Boc TonVerif.Proofs.BocEmit TonVerif.Proofs.BocForms
  TonVerif.Proofs.BocOrder TonVerif.Proofs.BocSem TonVerif.Proofs.CellSpec TonVerif.Proofs.BocRoundTrip TonVerif.Model.BocEntry

/-- emit half of the round trip: the emitted bytes decode (independent strict reader, byte-level layer) to exactly the
records that were serialised, with root index 0 — for every record list / valid order and all 6 option sets. -/
theorem c03_emit_decodes (o : Opts) (as : List ARec) (hv : o.valid = true) (h1 : 1 ≤ as.length) (hn : as.length < 2 ^ 32)
    (hP : (payloadOf (sizeW as) as).length * 2 < 2 ^ 64) (ok : ∀ a ∈ as, a.OK as.length) (fw : Forward as) :
    ∃ bs, emit (as.map ARec.toRec) o = some bs ∧ strictFlat bs = some ⟨as.map ARec.toSRec, [0]⟩ := by
  obtain ⟨bs, h1, _, h2⟩ := strictFlat_emit o as hv h1 hn hP ok fw
  exact ⟨bs, h1, h2⟩

/-- emit half, at full strength: the bytes `to_boc` emits for a spec-valid typed tree `t` (any of the 6 option sets) denote,
under the independent strict reader, exactly `[t]` — identical data bits, exotic flags (types) and references,
recursively; the order used is a valid order of the distinct cells. -/
theorem c03_emit_denotes (H : Bytes → Bytes) (t : Cell) (wf : TreeWF H t) (ty : Typed t) (p : PCell)
    (hb : Cell.build H t = some p) (nc : NoCollision p) (fuel : Nat) (ord : List PCell) (h : p.order fuel = some ord)
    (o : Opts) (hv : o.valid = true) (hn : ord.length < 2 ^ 32)
    (hP : (payloadOf (sizeW (orderRecs ord)) (orderRecs ord)).length * 2 < 2 ^ 64) :
    ∃ bs, p.toBoc fuel o = some bs ∧ strictParse H bs = some [toSCell t] :=
  (strictParse_toBoc H t wf ty p hb nc fuel ord h o hv hn hP).2

/-- the built object graph is a function of the tree: it caches exactly the model's `Cell.info` (hash, depth, mask at every
level) of every sub-tree — so "same tree" implies "identical hash". -/
theorem c03_same_tree_same_hash (H : Bytes → Bytes) (t : Cell) (p : PCell) (wf : TreeWF H t) (ty : Typed t)
    (hb : Cell.build H t = some p) : Cell.info H t = some p.info :=
  (build_sem H t p wf ty hb).1

/-- `bytes.fromhex(b.hex()) == b`, and `Boc(b.hex())` holds the same bytes as `Boc(b)`. -/
theorem c03_forms_hex (b : Bytes) (h : Bytes.WF b) :
    fromHex (hexEnc b) = some b ∧ inputBytes (.inr (hexEnc b)) = inputBytes (.inl b) :=
  ⟨fromHex_hexEnc b h, inputBytes_hex b h⟩

/-- the same for upper-case hex digits -/
theorem c03_forms_hex_upper (b : Bytes) (h : Bytes.WF b) :
    inputBytes (.inr (hexEncUpper b)) = inputBytes (.inl b) := inputBytes_hexUpper b h

/-- `base64.b64decode(base64.b64encode(b)) == b` for every byte string. -/
theorem c03_base64_roundtrip (b : Bytes) (h : Bytes.WF b) : b64Dec (b64Enc b) = some b := b64Dec_b64Enc b h

/-- the base64 text of a byte string starting with a BoC magic is never taken for hex: its first two characters contain a
character that is neither a hex digit nor whitespace, so `bytes.fromhex` raises. -/
theorem c03_magic_not_hex (rest : Bytes) :
    fromHex (b64Enc ([0xb5, 0xee, 0x9c, 0x72] ++ rest)) = none ∧
    fromHex (b64Enc ([0x68, 0xff, 0x65, 0xf3] ++ rest)) = none ∧
    fromHex (b64Enc ([0xac, 0xc3, 0xa7, 0x28] ++ rest)) = none :=
  ⟨fromHex_b64_magic rest, fromHex_b64_magic_leanBoc rest, fromHex_b64_magic_leanBocCrc rest⟩

/-- the concrete characters (first five base64 characters are fixed by the four magic bytes) -/
theorem c03_magic_prefix (rest : Bytes) :
    (b64Enc ([0xb5, 0xee, 0x9c, 0x72] ++ rest)).take 5 = ['t', 'e', '6', 'c', 'c'] ∧
    (b64Enc ([0x68, 0xff, 0x65, 0xf3] ++ rest)).take 5 = ['a', 'P', '9', 'l', '8'] ∧
    (b64Enc ([0xac, 0xc3, 0xa7, 0x28] ++ rest)).take 5 = ['r', 'M', 'O', 'n', 'K'] :=
  ⟨b64_magic_prefix rest, b64_magic_prefix_leanBoc rest, b64_magic_prefix_leanBocCrc rest⟩

/-- `Boc(base64 text)` holds the same bytes as `Boc(bytes)` for every byte string starting with one of the three magics. -/
theorem c03_forms_base64 (magic : Bytes)
    (hm : magic ∈ [[0xb5, 0xee, 0x9c, 0x72], [0x68, 0xff, 0x65, 0xf3], [0xac, 0xc3, 0xa7, 0x28]]) (rest : Bytes) (h : Bytes.WF rest) :
    inputBytes (.inr (b64Enc (magic ++ rest))) = inputBytes (.inl (magic ++ rest)) :=
  inputBytes_b64_magic magic hm rest h

/-- **the three input forms agree**: for a byte string that starts with the BoC magic, `Boc.__init__` ends up with the same
bytes whether it is given the bytes, their hex text or their base64 text. -/
theorem c03_forms (rest : Bytes) (h : Bytes.WF rest) :
    let b := [0xb5, 0xee, 0x9c, 0x72] ++ rest
    inputBytes (.inl b) = some b ∧ inputBytes (.inr (hexEnc b)) = some b ∧ inputBytes (.inr (b64Enc b)) = some b := by
  have hb : Bytes.WF ([0xb5, 0xee, 0x9c, 0x72] ++ rest) := WF_append (by decide) h
  refine ⟨rfl, ?_, ?_⟩
  · rw [inputBytes_hex _ hb]; rfl
  · rw [inputBytes_b64 rest h]; rfl

/-- everything `to_boc` emits is such a byte string: all three forms of an emitted serialisation are read back as the
emitted bytes. -/
theorem c03_forms_emit (o : Opts) (as : List ARec) (hv : o.valid = true) (h1 : 1 ≤ as.length) (hn : as.length < 2 ^ 32)
    (hP : (payloadOf (sizeW as) as).length * 2 < 2 ^ 64) (ok : ∀ a ∈ as, a.OK as.length) :
    ∃ bs, emit (as.map ARec.toRec) o = some bs ∧
      inputBytes (.inl bs) = some bs ∧ inputBytes (.inr (hexEnc bs)) = some bs ∧ inputBytes (.inr (b64Enc bs)) = some bs := by
  refine ⟨_, emit_eq o as hv h1 hn hP ok, ?_⟩
  have hwf := emitted_wf o as h1 hn hP ok
  have := c03_forms _ hwf
  simpa [bodyOf, bocMagic, List.append_assoc] using this

/-- the `store_cell` fact behind the Builder entry point: `Builder().store_cell(cell)` on a cell within the cell limits never
raises and the builder holds exactly the cell's data bits and references (so `end_cell()` rebuilds the same cell). -/
theorem c03_store_cell {R : Type} (bits : Bits) (refs : List R) (hb : bits.length ≤ 1023) (hr : refs.length ≤ 4) :
    BOp.storeCell bits refs (Builder.empty : Builder R) = (⟨bits, refs⟩, true) := by
  have h1 : ¬ (refs.length > 4) := by omega
  have h2 : ¬ (bits.length > 1023) := by omega
  simp [BOp.storeCell, BOp.extend, Builder.empty, h1, h2]

/-- **C03, THE ROUND TRIP.**  `t` ranges over all spec-valid trees of cells (any kinds incl. pruned / library / Merkle cells, any
nesting and sharing) whose exotic cells carry their type byte; `p` is the object graph `Cell.__init__` builds; `NoCollision p`
the local hypothesis that among the sub-cells at hand equal hashes mean equal cells; `o` any of the 6 valid option sets;
`ord` what `Cell.order` returns; `hn`/`hP` the format's own limits (size ≤ 4 bytes, off_bytes ≤ 8 bytes).
Then `to_boc` returns bytes `bs` and `Cell.from_boc` of `bs`, of `bs.hex()` and of `b64encode(bs)` — input-form detection as
modelled in Model/BocForms.lean (`fromBocAny`) and, independently, in Model/BocParse.lean (`fromBocInput`) — returns exactly
the one root `(t, p.info)`: the same tree (identical data bits, cell types and references, recursively) carrying the
identical cached hashes / depths / level mask (identical hash). -/
theorem c03_roundtrip (H : Bytes → Bytes) (t : Cell) (wf : TreeWF H t) (ty : Typed t) (p : PCell)
    (hb : Cell.build H t = some p) (nc : NoCollision p) (fuel : Nat) (ord : List PCell) (h : p.order fuel = some ord)
    (o : Opts) (hv : o.valid = true) (hn : ord.length < 2 ^ 32)
    (hP : (payloadOf (sizeW (orderRecs ord)) (orderRecs ord)).length * 2 < 2 ^ 64) :
    ∃ bs, p.toBoc fuel o = some bs ∧
      BocParse.fromBoc H bs = some [(t, p.info)] ∧
      (∀ form ∈ [Sum.inl bs, Sum.inr (hexEnc bs), Sum.inr (b64Enc bs)], fromBocAny H form = some [(t, p.info)]) ∧
      (∀ inp ∈ [BocParse.BocInput.bytes bs, .str (String.ofList (hexEnc bs)), .str (String.ofList (b64Enc bs))],
        BocParse.fromBocInput H inp = some [(t, p.info)]) := by
  obtain ⟨htb, hfb⟩ := fromBoc_toBoc H t wf ty p hb nc fuel ord h o hv hn hP
  obtain ⟨rest, hwf, hm⟩ := toBoc_magic p fuel ord o nc (build_ok H t p (shape_of H t wf ty) hb) h hn hP
  rw [hm] at htb hfb
  refine ⟨_, htb, hfb, ?_, ?_⟩
  · intro form hf
    simp only [fromBocAny, fromBocAnyG, forms_inputBytes rest hwf form hf, Option.bind_some]
    exact hfb
  · intro inp hi
    simp only [List.mem_cons, List.not_mem_nil, or_false] at hi
    simp only [BocParse.fromBocInput, forms_bocInit rest hwf inp hi, Option.bind_some, hfb]

/-- the same with existence and termination: a spec-valid tree can always be built, `Cell.order` returns with the fuel the
driver passes (`6·distinct cells + 2`), and then — within the format's size limits — every option set round-trips. -/
theorem c03_roundtrip_total (H : Bytes → Bytes) (t : Cell) (wf : TreeWF H t) (ty : Typed t) :
    ∃ p, Cell.build H t = some p ∧ ∀ (_ : NoCollision p) (fuel : Nat)
      (_ : 6 * ((subcells p).map PCell.key).eraseDups.length + 2 ≤ fuel),
      ∃ ord, p.order fuel = some ord ∧
        ∀ (o : Opts), o.valid = true → ord.length < 2 ^ 32 →
          (payloadOf (sizeW (orderRecs ord)) (orderRecs ord)).length * 2 < 2 ^ 64 →
          ∃ bs, p.toBoc fuel o = some bs ∧ BocParse.fromBoc H bs = some [(t, p.info)] := by
  obtain ⟨p, hb⟩ := tree_builds H t wf
  refine ⟨p, hb, ?_⟩
  intro nc fuel hf
  have okp := build_ok H t p (shape_of H t wf ty) hb
  obtain ⟨ord, ho, _⟩ := order_fuel_valid p fuel (fun c hc => (okp c hc).refs_le) nc hf
  refine ⟨ord, ho, ?_⟩
  intro o hv hn hP
  obtain ⟨bs, h1, h2, _⟩ := c03_roundtrip H t wf ty p hb nc fuel ord ho o hv hn hP
  exact ⟨bs, h1, h2⟩

/-- `Cell.one_from_boc` on the three input forms of `to_boc`'s output returns the root: same tree, identical cached info. -/
theorem c03_entry_cell (H : Bytes → Bytes) (t : Cell) (wf : TreeWF H t) (ty : Typed t) (p : PCell)
    (hb : Cell.build H t = some p) (nc : NoCollision p) (fuel : Nat) (ord : List PCell) (h : p.order fuel = some ord)
    (o : Opts) (hv : o.valid = true) (hn : ord.length < 2 ^ 32)
    (hP : (payloadOf (sizeW (orderRecs ord)) (orderRecs ord)).length * 2 < 2 ^ 64) :
    ∃ bs, p.toBoc fuel o = some bs ∧
      ∀ form ∈ [Sum.inl bs, Sum.inr (hexEnc bs), Sum.inr (b64Enc bs)], cellOne H form = some (t, p.info) := by
  obtain ⟨bs, h1, _, h3, _⟩ := c03_roundtrip H t wf ty p hb nc fuel ord h o hv hn hP
  refine ⟨bs, h1, fun form hf => ?_⟩
  have := h3 form hf
  simp only [fromBocAny] at this
  simp [cellOne, cellOneG, this]

/-- `Slice.one_from_boc` (= `cells[0].begin_parse()`) on the three input forms returns the untouched image of the root: all
its data bits and all its references (the child trees), nothing consumed. -/
theorem c03_entry_slice (H : Bytes → Bytes) (kind : Int) (bits : Bits) (refs : List Cell)
    (wf : TreeWF H (.mk kind bits refs)) (ty : Typed (.mk kind bits refs)) (p : PCell)
    (hb : Cell.build H (.mk kind bits refs) = some p) (nc : NoCollision p) (fuel : Nat) (ord : List PCell)
    (h : p.order fuel = some ord) (o : Opts) (hv : o.valid = true) (hn : ord.length < 2 ^ 32)
    (hP : (payloadOf (sizeW (orderRecs ord)) (orderRecs ord)).length * 2 < 2 ^ 64) :
    ∃ bs, p.toBoc fuel o = some bs ∧
      ∀ form ∈ [Sum.inl bs, Sum.inr (hexEnc bs), Sum.inr (b64Enc bs)], sliceOne H form = some ⟨bits, refs⟩ := by
  obtain ⟨bs, h1, _, h3, _⟩ := c03_roundtrip H _ wf ty p hb nc fuel ord h o hv hn hP
  refine ⟨bs, h1, fun form hf => ?_⟩
  have := h3 form hf
  simp only [fromBocAny] at this
  simp [sliceOne, sliceOneG, this, beginParse, beginParseG]

/-- `Builder.one_from_boc` (= `cells[0].to_builder()`) on the three input forms: for an ORDINARY root it returns the builder
holding exactly the root's data bits and references (`end_cell()` gives the root back); for an EXOTIC root it raises
(`to_builder` refuses exotic cells) — the recorded known finding `builder-entry:exotic-root-refused`: the Builder entry point
cannot round-trip a bag whose root is exotic, the Cell and Slice entry points do. -/
theorem c03_entry_builder (H : Bytes → Bytes) (kind : Int) (bits : Bits) (refs : List Cell)
    (wf : TreeWF H (.mk kind bits refs)) (ty : Typed (.mk kind bits refs)) (p : PCell)
    (hb : Cell.build H (.mk kind bits refs) = some p) (nc : NoCollision p) (fuel : Nat) (ord : List PCell)
    (h : p.order fuel = some ord) (o : Opts) (hv : o.valid = true) (hn : ord.length < 2 ^ 32)
    (hP : (payloadOf (sizeW (orderRecs ord)) (orderRecs ord)).length * 2 < 2 ^ 64) :
    ∃ bs, p.toBoc fuel o = some bs ∧
      ∀ form ∈ [Sum.inl bs, Sum.inr (hexEnc bs), Sum.inr (b64Enc bs)],
        builderOne H form = (if kind = kOrdinary then some ⟨bits, refs⟩ else none) := by
  obtain ⟨bs, h1, _, h3, _⟩ := c03_roundtrip H _ wf ty p hb nc fuel ord h o hv hn hP
  obtain ⟨l1, l2⟩ := root_limits H kind bits refs wf ty
  refine ⟨bs, h1, fun form hf => ?_⟩
  have h3' := h3 form hf
  simp only [fromBocAny] at h3'
  by_cases hk : kind = kOrdinary
  · simp [builderOne, builderOneG, h3', toBuilder, toBuilderG, hk, c03_store_cell bits refs l1 l2]
  · simp [builderOne, builderOneG, h3', toBuilder, toBuilderG, hk]

/-! ## Non-vacuity

A DAG WITH SHARING meets all hypotheses of `c03_roundtrip` at once (toy hash `H = id`, injective, as in C04's example): the
one-bit leaf is referenced by both inner cells and by the root — 6 tree nodes, 4 distinct cells. -/

def dagTree : Cell :=
  .mk (-1) [true, false, true]
    [.mk (-1) [false] [.mk (-1) [true] []], .mk (-1) [true, true] [.mk (-1) [true] []], .mk (-1) [true] []]

/-- evaluated once by the kernel: the built objects are collision-free, `Cell.order` needs fewer than 50 loop iterations and
lists 4 distinct cells, the payload is within the format's limit -/
theorem dagTree_checks :
    (match Cell.build id dagTree with
     | some p => noCollisionB p && decide (cost p ([], []) + 1 ≤ 50) && decide ((dfs p ([], [])).2.length = 4) &&
         decide ((payloadOf (sizeW (orderRecs (dfs p ([], [])).2)) (orderRecs (dfs p ([], [])).2)).length * 2 < 2 ^ 64)
     | none => false) = true := by decide +kernel

theorem dagTree_ok : TreeWF id dagTree ∧ Typed dagTree := by
  have h := ord_treeWF id dagTree (by simp [dagTree, Proofs.OrdCell.OrdWF, Proofs.OrdCell.OrdWFs])
    (by simp [dagTree, Proofs.OrdCell.ordDepth, Proofs.OrdCell.ordDepthMax])
  exact ⟨h.1, h.2.1⟩

/-- all hypotheses of `c03_roundtrip` hold for the DAG with sharing -/
theorem dagTree_hyps : ∃ p ord, Cell.build id dagTree = some p ∧ NoCollision p ∧ p.order 50 = some ord ∧ ord.length = 4 ∧
    (payloadOf (sizeW (orderRecs ord)) (orderRecs ord)).length * 2 < 2 ^ 64 := by
  obtain ⟨p, hp⟩ := tree_builds id dagTree dagTree_ok.1
  have hc := dagTree_checks
  rw [hp] at hc
  simp only [Bool.and_eq_true, decide_eq_true_eq] at hc
  obtain ⟨⟨⟨c1, c2⟩, c3⟩, c4⟩ := hc
  have nc := noCollision_of_B p c1
  exact ⟨p, _, hp, nc, order_eq_dfs p nc 50 c2, c3, c4⟩

example : TreeWF id dagTree ∧ Typed dagTree ∧ ∃ p ord, Cell.build id dagTree = some p ∧ NoCollision p ∧
    p.order 50 = some ord ∧ ord.length < 2 ^ 32 ∧
    (payloadOf (sizeW (orderRecs ord)) (orderRecs ord)).length * 2 < 2 ^ 64 := by
  obtain ⟨p, ord, h1, h2, h3, h4, h5⟩ := dagTree_hyps
  exact ⟨dagTree_ok.1, dagTree_ok.2, p, ord, h1, h2, h3, by omega, h5⟩

/-- … and therefore the conclusion: with index + CRC + cache bits, `to_boc` of the shared DAG parses back — from the bytes, the
hex text and the base64 text — to the same tree with the identical cached info; the Slice and Builder entry points return
the root's bits and its three child trees. -/
example : ∃ p bs, Cell.build id dagTree = some p ∧ p.toBoc 50 ⟨true, true, true, 0⟩ = some bs ∧
    (∀ form ∈ [Sum.inl bs, Sum.inr (hexEnc bs), Sum.inr (b64Enc bs)],
      fromBocAny id form = some [(dagTree, p.info)] ∧
      sliceOne id form = some ⟨[true, false, true],
        [.mk (-1) [false] [.mk (-1) [true] []], .mk (-1) [true, true] [.mk (-1) [true] []], .mk (-1) [true] []]⟩ ∧
      builderOne id form = some ⟨[true, false, true],
        [.mk (-1) [false] [.mk (-1) [true] []], .mk (-1) [true, true] [.mk (-1) [true] []], .mk (-1) [true] []]⟩) := by
  obtain ⟨p, ord, h1, h2, h3, h4, h5⟩ := dagTree_hyps
  obtain ⟨wf, ty⟩ := dagTree_ok
  have hv : (⟨true, true, true, 0⟩ : Opts).valid = true := by decide
  obtain ⟨bs, r1, _, r3, _⟩ := c03_roundtrip id dagTree wf ty p h1 h2 50 ord h3 _ hv (by omega) h5
  obtain ⟨bs', s1, s2⟩ := c03_entry_slice id _ _ _ wf ty p h1 h2 50 ord h3 _ hv (by omega) h5
  obtain ⟨bs'', b1, b2⟩ := c03_entry_builder id _ _ _ wf ty p h1 h2 50 ord h3 _ hv (by omega) h5
  have e1 : bs' = bs := Option.some.inj (s1.symm.trans r1)
  have e2 : bs'' = bs := Option.some.inj (b1.symm.trans r1)
  rw [e1] at s2; rw [e2] at b2
  refine ⟨p, bs, h1, r1, fun form hf => ⟨r3 form hf, s2 form hf, ?_⟩⟩
  have := b2 form hf
  simpa [kOrdinary] using this

example : Bytes.WF [0xb5, 0xee, 0x9c, 0x72, 0x01, 0x02] := by decide

/-! ## the parser half of the round trip on the working tree's own parser (regenerated from the source on every run) -/

/-- SOURCE TIE of the parser half: `Generated.BocCells.deserialize` is regenerated on every run from `Boc.deserialize`,
`Boc.deserialize_cell` and `Boc.deserialize_boc_header` (pytoniq_core/boc/deserialize.py; C05: `c05_src_deserialize`) and is
equal, for every byte list, to the hand model `BocParse.fromBoc H` that `c03_roundtrip` is stated with (the cell constructor
= Model/Cell.lean stays the hand model of C01 / C02; `liftMk` = it raises on a `None` child). -/
theorem c03_src_parser (H : Bytes → Bytes) (bs : Bytes) :
    Generated.BocCells.deserialize bs (Generated.BocCells.liftMk (BocParse.mkCell H)) = (BocParse.fromBoc H bs).map (·.map some) :=
  TonVerif.Proofs.SrcBocDeser.src_deserialize_eq (BocParse.mkCell H) bs

/-- hence THE ROUND TRIP through the regenerated parser: under the hypotheses of `c03_roundtrip`, the bytes the emitter model
returns are parsed by the regenerated `Boc.deserialize` (with the constructor model) to exactly the one root `(t, p.info)`. -/
theorem c03_roundtrip_src (H : Bytes → Bytes) (t : Cell) (wf : TreeWF H t) (ty : Typed t) (p : PCell)
    (hb : Cell.build H t = some p) (nc : NoCollision p) (fuel : Nat) (ord : List PCell) (h : p.order fuel = some ord)
    (o : Opts) (hv : o.valid = true) (hn : ord.length < 2 ^ 32)
    (hP : (payloadOf (sizeW (orderRecs ord)) (orderRecs ord)).length * 2 < 2 ^ 64) :
    ∃ bs, p.toBoc fuel o = some bs ∧
      Generated.BocCells.deserialize bs (Generated.BocCells.liftMk (BocParse.mkCell H)) = some [some (t, p.info)] := by
  obtain ⟨bs, h1, h2, _⟩ := c03_roundtrip H t wf ty p hb nc fuel ord h o hv hn hP
  exact ⟨bs, h1, by rw [c03_src_parser, h2]; rfl⟩

/-! ## the emitter half and the input forms on the working tree's own code (regenerated from the source on every run) -/

section SrcEmit
open TonVerif.Proofs.SrcBocEmit TonVerif.Generated.BocEmitSrc

/-- SOURCE TIE of the input forms: `Generated.BocEmitSrc.boc_init` is regenerated from `Boc.__init__`
(pytoniq_core/boc/deserialize.py: `isinstance(data, bytes)`, `bytes.fromhex`, on ValueError `base64.b64decode`) and equals the
hand model `BocForms.inputBytes` for every bytes / str argument (`fromHex` / `b64Dec` stay the hand models of the two CPython
library calls). -/
theorem c03_src_forms (data : Sum Bytes (List Char)) : boc_init data = inputBytes data := src_boc_init_eq data

/-- **THE ROUND TRIP with the REGENERATED emitter, the REGENERATED input-form detection and the REGENERATED parser**: for every
spec-valid typed tree `t`, its object graph `p`, under the local no-collision hypothesis, whenever the regenerated `Cell.order`
returns (`d`; it does with budget `6·cells+2`: `c04_src_order_total`), for each of the 6 valid option sets (`hv`; `valid_opts`)
and within the format's limits: the regenerated `Cell.to_boc` returns bytes `bs`; the regenerated `Boc.__init__` maps `bs`, the
hex text of `bs` and the base64 text of `bs` to `bs`; and the regenerated `Boc.deserialize` (with the constructor model) parses
`bs` to exactly the one root `(t, p.info)` — the same tree (identical data bits, cell types and references, recursively) with the
identical cached hashes / depths / level mask. -/
theorem c03_roundtrip_src2 (H : Bytes → Bytes) (t : Cell) (wf : TreeWF H t) (ty : Typed t) (p : PCell)
    (hb : Cell.build H t = some p) (nc : NoCollision p) (fuel : Nat) (d : Py.KDict PCell Unit) (h : order fuel p [] = some d)
    (o : Opts) (hv : o.valid = true) (hn : (Py.dictKeys d).length < 2 ^ 32)
    (hP : (payloadOf (sizeW (orderRecs (Py.dictKeys d))) (orderRecs (Py.dictKeys d))).length * 2 < 2 ^ 64) :
    ∃ bs, to_boc fuel p o.hasIdx o.hasCrc o.hasCache o.flags = some bs ∧
      (∀ form ∈ [Sum.inl bs, Sum.inr (hexEnc bs), Sum.inr (b64Enc bs)], boc_init form = some bs) ∧
      Generated.BocCells.deserialize bs (Generated.BocCells.liftMk (BocParse.mkCell H)) = some [some (t, p.info)] := by
  obtain ⟨vo, htb⟩ := Proofs.SrcBocAny.src_toBoc_any fuel p d nc h o.hasIdx o.hasCrc o.hasCache o.flags
  obtain ⟨hem, hfb⟩ := fromBoc_anyOrder H t wf ty p hb nc (Py.dictKeys d) vo o hv hn hP
  obtain ⟨_, rest, hwf, hm⟩ := anyOrder_emits p (Py.dictKeys d) o hv (build_ok H t p (shape_of H t wf ty) hb) vo hn hP
  rw [hm] at hem hfb
  refine ⟨_, by rw [htb]; exact hem, ?_, by rw [c03_src_parser, hfb]; rfl⟩
  intro form hf
  rw [src_boc_init_eq]
  exact forms_inputBytes rest hwf form hf

/-- non-vacuity: the DAG with sharing (`dagTree`, toy hash `id`) meets all hypotheses of `c03_roundtrip_src2` with the
regenerated `Cell.order` and budget 50 -/
example : ∃ p d, Cell.build id dagTree = some p ∧ NoCollision p ∧ order 50 p [] = some d ∧ (Py.dictKeys d).length < 2 ^ 32 ∧
    (payloadOf (sizeW (orderRecs (Py.dictKeys d))) (orderRecs (Py.dictKeys d))).length * 2 < 2 ^ 64 := by
  obtain ⟨p, ord, h1, h2, h3, h4, h5⟩ := dagTree_hyps
  have hs : (match Cell.build id dagTree with
      | some p => (match order 50 p [] with
        | some d => decide ((Py.dictKeys d).length = 4) &&
            decide ((payloadOf (sizeW (orderRecs (Py.dictKeys d))) (orderRecs (Py.dictKeys d))).length * 2 < 2 ^ 64)
        | none => false)
      | none => false) = true := by decide +kernel
  rw [h1] at hs
  simp only at hs
  cases hd : order 50 p [] with
  | none => rw [hd] at hs; cases hs
  | some d =>
    rw [hd] at hs
    simp only [Bool.and_eq_true, decide_eq_true_eq] at hs
    exact ⟨p, d, h1, h2, hd, by omega, hs.2⟩

end SrcEmit

/-! ## the entry points and conversions on the working tree's own code (regenerated from the source on every run)

`Generated/EntrySrc.lean` is regenerated from cell.py / slice.py / builder.py (harness/translate/entrysrc.py + pyvalue.py): the VALUE each
entry point / conversion returns and when it raises.  A constructed `Cell` is its object value `PCell` (cached attributes + child
objects); `Cell(bits, refs, type)` inside these methods and the class passed to `Boc.deserialize` is the REGENERATED constructor
(`Py.newCell`, Generated/CellCtor.lean), `Builder().store_cell` the REGENERATED `Builder.store_cell` (Generated/BuilderOps.lean), `Boc(data)` /
`boc.deserialize` the regenerated `Boc.__init__` / `Boc.deserialize` (lean/TonVerif/PyEntry.lean). -/
section SrcEntry
open TonVerif.Proofs.SrcEntry TonVerif.Generated.EntrySrc TonVerif.Generated.BocEmitSrc

/-- SOURCE TIE of the entry points: for EVERY argument `d` (bytes or str), cell object `p`, slice object `s` and builder object `b`, read
through the views (`cellView p` = the tree `p` unfolds to + its cached info, `sliceView` = remaining bits + trees of the REMAINING
references, `builderView`): the regenerated `Cell.from_boc` / `Cell.one_from_boc` (incl. the `len(cells) > 1` raise and the IndexError
of `cells[0]`) / `Slice.one_from_boc` / `Builder.one_from_boc` are the hand model's `fromBocAny` / `cellOne` / `sliceOne` / `builderOne`
(Model/BocEntry.lean), no returned root is `None`; `Cell.begin_parse` / `Cell.to_builder` (refusing exotic cells, and the two capacity
raises of `store_cell`) are the model's `beginParse` / `toBuilder`; `Cell.copy`, `Slice.to_cell` (the references from `ref_offset` on) and
`Builder.end_cell` are the constructor model `mkCell` on exactly these bits / references / type. -/
theorem c03_src_entrypoints (H : Bytes → Bytes) (d : Input) (p : PCell) (s : Py.SliceObj PCell) (b : Py.BuilderObj PCell) :
    (Cell_from_boc H d).map (List.map (Option.map cellView)) = (fromBocAny H d).map (List.map some) ∧
    Builder_from_boc H d = Cell_from_boc H d ∧
    (Cell_one_from_boc H d).map (Option.map cellView) = (cellOne H d).map some ∧
    (Slice_one_from_boc H d).map sliceView = sliceOne H d ∧
    (Builder_one_from_boc H d).map builderView = builderOne H d ∧
    (Cell_begin_parse H p).map sliceView = some (beginParse (treeOf p)) ∧ Cell_to_slice H p = Cell_begin_parse H p ∧
    (Cell_to_builder H p).map builderView = toBuilder (treeOf p) ∧
    (Cell_copy H p).map cellView = BocParse.mkCell H p.info.bits (p.refs.map cellView) p.info.kind ∧
    (Slice_to_cell H s).map cellView = BocParse.mkCell H s.bits ((s.refs.drop s.ref_offset).map cellView) s.type_ ∧
    (Builder_end_cell H b).map cellView = BocParse.mkCell H b.bits (b.refs.map cellView) b.type_ := by
  refine ⟨fromBoc_view H d, rfl, ?_, ?_, ?_, begin_parse_view H p, to_slice_eq H p, to_builder_view H p, ?_, ?_, ?_⟩
  · rw [one_from_boc_eq, ← cellOneG_view]
    cases cellOneG (Py.newCell H) d <;> rfl
  · rw [slice_one_from_boc_eq, sliceOneG_view]
  · rw [builder_one_from_boc_eq, builderOneG_view]
  · rw [copy_eq, newCell_view]
  · rw [slice_to_cell_eq, newCell_view]
  · rw [end_cell_eq, newCell_view]

/-- **THE ROUND TRIP through the regenerated emitter, the regenerated `Boc.__init__` / parser / CONSTRUCTOR and the regenerated entry
points, on object values**: under the hypotheses of `c03_roundtrip_src2` (root `.mk kind bits refs`, its object graph `p`), for each of
the 6 valid option sets the regenerated `to_boc` returns `bs`, and on `bs`, `bs.hex()` and `b64encode(bs)`: the regenerated
`Cell.one_from_boc` returns THE ORIGINAL OBJECT VALUE `p` (the same cached hashes / depths / mask / bits / type at the root and, recursively,
at every child object), `Cell.from_boc` the list `[p]`; `Slice.one_from_boc` the slice with all data bits, all child objects, the root's
type and nothing consumed; `Builder.one_from_boc` the builder with exactly these bits / child objects for an ordinary root and a raise
for an exotic one (the known finding); and converting back gives the original again: `begin_parse().to_cell()`, `copy()` and (ordinary
root) `to_builder().end_cell()` return `p`. -/
theorem c03_roundtrip_src3 (H : Bytes → Bytes) (kind : Int) (bits : Bits) (refs : List Cell)
    (wf : TreeWF H (.mk kind bits refs)) (ty : Typed (.mk kind bits refs)) (p : PCell)
    (hb : Cell.build H (.mk kind bits refs) = some p) (nc : NoCollision p) (fuel : Nat) (d : Py.KDict PCell Unit)
    (h : order fuel p [] = some d) (o : Opts) (hv : o.valid = true) (hn : (Py.dictKeys d).length < 2 ^ 32)
    (hP : (payloadOf (sizeW (orderRecs (Py.dictKeys d))) (orderRecs (Py.dictKeys d))).length * 2 < 2 ^ 64) :
    ∃ bs, to_boc fuel p o.hasIdx o.hasCrc o.hasCache o.flags = some bs ∧
      (∀ form ∈ [Sum.inl bs, Sum.inr (hexEnc bs), Sum.inr (b64Enc bs)],
        Cell_one_from_boc H form = some (some p) ∧ Cell_from_boc H form = some [some p] ∧
        Slice_one_from_boc H form = some ⟨bits, p.refs, kind, 0⟩ ∧
        Builder_one_from_boc H form = (if kind = -1 then some ⟨bits, p.refs, -1⟩ else none)) ∧
      (Cell_begin_parse H p).bind (Slice_to_cell H) = some p ∧ Cell_copy H p = some p ∧
      (kind = -1 → (Cell_to_builder H p).bind (Builder_end_cell H) = some p) := by
  obtain ⟨bs, h1, h2, h3⟩ := c03_roundtrip_src2 H _ wf ty p hb nc fuel d h o hv hn hP
  rw [c03_src_parser] at h3
  have hfb : BocParse.fromBoc H bs = some [(.mk kind bits refs, p.info)] := by
    cases hx : BocParse.fromBoc H bs with
    | none => rw [hx] at h3; cases h3
    | some l =>
      rw [hx] at h3
      simp only [Option.map_some, Option.some.injEq] at h3
      match l, h3 with
      | [x], h3 => simp only [List.map_cons, List.map_nil, List.cons.injEq, Option.some.injEq, and_true] at h3; rw [h3]
  have hdes := deserialize_roundtrip H _ p hb bs p.info hfb
  have htree := (build_tree H _ p hb).1
  rw [treeOf_eq] at htree
  have hk : p.info.kind = kind := by injection htree
  have hbits : p.info.bits = bits := by injection htree
  have hrefs : p.refs.map treeOf = refs := by injection htree
  obtain ⟨l1, l2⟩ := root_limits H kind bits refs wf ty
  have l2' : p.refs.length ≤ 4 := by rw [← hrefs] at l2; simpa using l2
  have hself := newCell_self H p (built_of_build H _ p hb)
  refine ⟨bs, h1, fun form hf => ?_, ?_, ?_, ?_⟩
  · have hin : inputBytes form = some bs := by rw [← TonVerif.Proofs.SrcBocEmit.src_boc_init_eq]; exact h2 form hf
    refine ⟨?_, ?_, ?_, ?_⟩
    · rw [one_from_boc_eq]; simp [cellOneG, fromBocAnyG, hin, hdes]
    · rw [from_boc_eq]; simp [hin, hdes]
    · rw [slice_one_from_boc_eq]; simp [sliceOneG, fromBocAnyG, hin, hdes, hk, hbits]
    · rw [builder_one_from_boc_eq]
      simp only [builderOneG, fromBocAnyG, hin, hdes, Option.bind_some, List.getElem?_cons_zero]
      rw [to_builder_eq H p (by rw [hbits]; exact l1) l2', hk, hbits]
  · rw [begin_parse_eq]
    simp only [Option.bind_some]
    rw [slice_to_cell_eq]
    simpa using hself
  · rw [copy_eq]; exact hself
  · intro hkind
    rw [to_builder_eq H p (by rw [hbits]; exact l1) l2', hk, if_pos hkind]
    simp only [Option.bind_some]
    rw [end_cell_eq]
    simpa [hk, hkind] using hself

/-- non-vacuity: the DAG with sharing (`dagTree`, toy hash `id`, budget 50) meets the hypotheses of `c03_roundtrip_src3` (they are those
of `c03_roundtrip_src2`, see the example above), so with index + CRC + cache bits the regenerated `Cell.one_from_boc` returns the original
object value from the bytes, the hex text and the base64 text -/
example : ∃ p bs, Cell.build id dagTree = some p ∧ to_boc 50 p true true true 0 = some bs ∧
    ∀ form ∈ [Sum.inl bs, Sum.inr (hexEnc bs), Sum.inr (b64Enc bs)],
      Cell_one_from_boc id form = some (some p) ∧ Slice_one_from_boc id form = some ⟨[true, false, true], p.refs, -1, 0⟩ ∧
      Builder_one_from_boc id form = some ⟨[true, false, true], p.refs, -1⟩ := by
  obtain ⟨p, ord, h1, h2, h3, h4, h5⟩ := dagTree_hyps
  have hs : (match Cell.build id dagTree with
      | some p => (match order 50 p [] with
        | some d => decide ((Py.dictKeys d).length = 4) &&
            decide ((payloadOf (sizeW (orderRecs (Py.dictKeys d))) (orderRecs (Py.dictKeys d))).length * 2 < 2 ^ 64)
        | none => false)
      | none => false) = true := by decide +kernel
  rw [h1] at hs
  simp only at hs
  cases hd : order 50 p [] with
  | none => rw [hd] at hs; cases hs
  | some d =>
    rw [hd] at hs
    simp only [Bool.and_eq_true, decide_eq_true_eq] at hs
    obtain ⟨wf, ty⟩ := dagTree_ok
    obtain ⟨bs, r1, r2, _⟩ := c03_roundtrip_src3 id _ _ _ wf ty p h1 h2 50 d hd ⟨true, true, true, 0⟩ (by decide) (by omega) hs.2
    refine ⟨p, bs, h1, r1, fun form hf => ?_⟩
    obtain ⟨a, _, c, e⟩ := r2 form hf
    exact ⟨a, c, by simpa using e⟩

end SrcEntry

end TonVerif.Properties.C03
