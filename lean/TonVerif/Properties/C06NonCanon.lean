/-
C06, reading NON-CANONICAL variable-length integers (round 10).

TL-B: `var_uint$_ {n:#} len:(#< n) value:(uint (len * 8)) = VarUInteger n;` (`var_int$_ … value:(int (len * 8))`).
`len` is a field of its own: EVERY `len` with `value < 2^(8·len)` (signed: `value` representable in `len` bytes of two's
complement) is a valid encoding of `value`, not only the minimal one that `store_var_uint` / `store_coins` / `store_var_int`
write (`c06_varint_minimal`).  The theorems of Properties/C06.lean about loads speak of what the stores wrote; these speak of
every legal encoding: `load_var_uint` / `load_coins` / `load_var_int` return the value and consume exactly the `len` field and
`len` bytes, whatever follows - for the hand model and, through `c06_src_load`'s ties, for the methods REGENERATED from slice.py.
-/
import TonVerif.Properties.C06

namespace TonVerif.Properties.C06NonCanon
open TonVerif TonVerif.Model TonVerif.Spec.Tlb TonVerif.Proofs.Builder TonVerif.Proofs.Slice TonVerif.Proofs.Bits
variable {R : Type}

/-- `load_var_uint(k)` on ANY legal encoding: a `k`-bit length field holding `len` (`len < 2^k`), then `v` written as an
unsigned `8·len`-bit number (`v < 2^(8·len)`; nothing says `len` is minimal), then any continuation `kb` / `kr`: the call returns
`v` and leaves exactly the continuation. -/
theorem c06_var_uint_any_len (k len : Nat) (v : Int) (hk : 0 < k) (hlen : len < 2 ^ k) (hv : FitsUint (8 * len) v)
    (kb : Bits) (kr : List R) :
    SOp.loadVarUint k ⟨uintBits k len ++ (uintBits (8 * len) v.toNat ++ kb), kr⟩ = (⟨kb, kr⟩, some v) := by
  unfold SOp.loadVarUint
  rw [bind_eq]
  have h1 := loadUint_rt (R := R) k (len : Int) hk ((fitsUint_nat _ _).mpr hlen) (uintBits (8 * len) v.toNat ++ kb) kr
  simp only [Int.toNat_natCast] at h1
  rw [bind_some h1]
  by_cases hl : len = 0
  · subst hl
    have hv0 : v = 0 := by
      have := (fitsUint_iff _ _).mp hv
      simp at this; omega
    subst hv0
    simp [uintBits, SOp.pure]
  · have hne : ¬ ((len : Nat) : Int) = 0 := by omega
    simp only [hne, if_false, Int.toNat_natCast]
    have h2 := loadUint_rt (R := R) (8 * len) v (by omega) hv kb kr
    rw [Nat.mul_comm len 8]
    exact h2

/-- `load_coins()` = `load_var_uint(4)`: `Grams` written with ANY `len < 16` that holds the amount. -/
theorem c06_coins_any_len (len : Nat) (v : Int) (hlen : len < 16) (hv : FitsUint (8 * len) v) (kb : Bits) (kr : List R) :
    SOp.loadCoins ⟨uintBits 4 len ++ (uintBits (8 * len) v.toNat ++ kb), kr⟩ = (⟨kb, kr⟩, some v) :=
  c06_var_uint_any_len 4 len v (by omega) (by omega) hv kb kr

/-- `load_var_int(k)` on ANY legal encoding: length field `len`, then `v` in `8·len` bits of two's complement. -/
theorem c06_var_int_any_len (k len : Nat) (v : Int) (hk : 0 < k) (hlen : len < 2 ^ k) (hv : FitsInt (8 * len) v)
    (kb : Bits) (kr : List R) :
    SOp.loadVarInt k ⟨uintBits k len ++ (intBits (8 * len) v ++ kb), kr⟩ = (⟨kb, kr⟩, some v) := by
  unfold SOp.loadVarInt
  rw [bind_eq]
  have h1 := loadUint_rt (R := R) k (len : Int) hk ((fitsUint_nat _ _).mpr hlen) (intBits (8 * len) v ++ kb) kr
  simp only [Int.toNat_natCast] at h1
  rw [bind_some h1]
  by_cases hl : len = 0
  · subst hl
    have hv0 : v = 0 := by
      unfold FitsInt at hv
      simp at hv; omega
    subst hv0
    simp [intBits, uintBits, SOp.pure]
  · have hne : ¬ ((len : Nat) : Int) = 0 := by omega
    simp only [hne, if_false, Int.toNat_natCast]
    have h2 := loadInt_rt (R := R) (8 * len) v (by omega) hv kb kr
    rw [Nat.mul_comm len 8]
    exact h2

section Src
open TonVerif.Proofs.SrcSlice TonVerif.Generated.SliceOps

/-- the same for the methods REGENERATED from slice.py (Generated/SliceOps.lean): on a slice whose remaining bits are a legal
`VarUInteger` encoding with ANY `len` followed by `kb`, `load_var_uint` returns `v` and leaves exactly `kb` (references and
`ref_offset` as seen through `view` unchanged); likewise `load_coins` and `load_var_int`. -/
theorem c06_src_var_any_len (k len : Nat) (hk : 0 < k) (hlen : len < 2 ^ k) (kb : Bits) (refs : List R) (off : Nat) :
    (∀ v : Int, FitsUint (8 * len) v →
      viewR (fun (n : Nat) => (n : Int)) (load_var_uint k (⟨uintBits k len ++ (uintBits (8 * len) v.toNat ++ kb), refs, off⟩ : Py.SliceSt R))
        = (⟨kb, refs.drop off⟩, some v)) ∧
    (∀ v : Int, k = 4 → FitsUint (8 * len) v →
      viewR (fun (n : Nat) => (n : Int)) (load_coins (⟨uintBits 4 len ++ (uintBits (8 * len) v.toNat ++ kb), refs, off⟩ : Py.SliceSt R))
        = (⟨kb, refs.drop off⟩, some v)) ∧
    (∀ v : Int, FitsInt (8 * len) v →
      viewR id (load_var_int k (⟨uintBits k len ++ (intBits (8 * len) v ++ kb), refs, off⟩ : Py.SliceSt R))
        = (⟨kb, refs.drop off⟩, some v)) := by
  refine ⟨fun v hv => ?_, fun v h4 hv => ?_, fun v hv => ?_⟩
  · rw [src_load_var_uint_eq]; exact c06_var_uint_any_len k len v hk hlen hv kb _
  · subst h4; rw [src_load_coins_eq]; exact c06_coins_any_len len v (by omega) hv kb _
  · rw [src_load_var_int_eq]; exact c06_var_int_any_len k len v hk hlen hv kb _

end Src

/-- non-vacuity: 5 nanograms written with `len = 3` (`0011 00000000 00000000 00000101`) followed by the bit `1`: `load_coins`
returns 5 and leaves `[1]`; and the hypotheses of the general statements hold for it. -/
example : SOp.loadCoins (R := Unit) ⟨uintBits 4 3 ++ (uintBits 24 5 ++ [true]), []⟩ = (⟨[true], []⟩, some 5) ∧
    (3 < 16 ∧ FitsUint (8 * 3) 5) ∧ FitsInt (8 * 2) (-1) :=
  ⟨c06_coins_any_len 3 5 (by omega) (by unfold FitsUint; omega) [true] [], ⟨by omega, by unfold FitsUint; omega⟩,
    by unfold FitsInt; omega⟩

end TonVerif.Properties.C06NonCanon
