/-
C17 — TVM stack values round-trip and serialising does not consume them.

Model: `Model/VmStack.lean` (hand mirror of `pytoniq_core/tlb/vm_stack.py`), spec: `Spec/Tlb/VmStack.lean`
(block.tlb as relations).  Python lists are stored last-element-first in the model (a stack is written top
first, a tuple last entry first), see the header of the model file.  `mk` = `Builder.end_cell`, `view` =
what `begin_parse` shows, `ord` = "ordinary cell"; `Laws` = a constructed cell shows the data it was made
from and is ordinary.
-/
import TonVerif.Proofs.VmStack
import TonVerif.Proofs.VmStackInv
import TonVerif.Proofs.SrcArith2
import TonVerif.Generated.VmStackTests
import TonVerif.Proofs.SrcVmStack
import TonVerif.Proofs.SrcVmStackDe
namespace TonVerif.C17
open TonVerif TonVerif.Model TonVerif.Model.Vm TonVerif.Spec.Vm TonVerif.Proofs.Vm

variable {R : Type} {mk : Bits → List R → Option R} {view : R → Bits × List R} {ord : R → Bool}

/-- `c17_schema`: whenever `VmStack.serialize(vs)` returns a cell, the cell's content is an encoding of `vs`
    under the VmStack schema of block.tlb — for every stack, every nesting of tuples and every continuation
    kind: 24-bit depth, `VmStackList` chained through the first reference, `vm_stk_tinyint` exactly when
    −2^63 ≤ v < 2^63 and the 15-bit tag `0201_` + int257 otherwise, tuple chaining for lengths 0, 1, 2, 3+. -/
theorem c17_schema (L : Laws mk view ord) (vs : List (Val R)) (c : R) (h : serialize mk vs = some c) :
    IsStack view ord vs (view c).1 (view c).2 := by
  unfold serialize at h
  obtain ⟨bt, hbt, rfl⟩ := Option.map_eq_some_iff.mp h
  obtain ⟨hs, hmk⟩ := ser_stack L vs bt hbt
  rw [L.view_mk _ _ _ hmk]; exact hs


/-- a concrete instance of the hypotheses of `c17_schema`: cells as trees, `mk` never fails; a three-entry tuple,
    a small and a large integer and a `vmc_quit` continuation serialise, so `c17_schema` speaks about them -/
def mkTree (b : Bits) (r : List Cell) : Option Cell := some (.mk (-1) b r)
def viewTree : Cell → Bits × List Cell | .mk _ b r => (b, r)
def ordTree : Cell → Bool | .mk k _ _ => k == -1

theorem treeLaws : Laws mkTree viewTree ordTree :=
  ⟨fun b r c h => by simp [mkTree] at h; subst h; rfl, fun b r c h => by simp [mkTree] at h; subst h; rfl⟩

/-- stack (top first): quit(5), 2^63, −2^63, tuple (1, 2, 3) -/
def sample : List (Val Cell) :=
  [.cont (.quit 5), .int (2 ^ 63), .int (-(2 ^ 63)), .tuple [.int 3, .int 2, .int 1]]

example : (serialize mkTree sample).isSome = true := by decide +kernel

example : ∃ c, serialize mkTree sample = some c ∧ IsStack viewTree ordTree sample (viewTree c).1 (viewTree c).2 := by
  have h : (serialize mkTree sample).isSome = true := by decide +kernel
  obtain ⟨c, hc⟩ := Option.isSome_iff_exists.mp h
  exact ⟨c, hc, c17_schema treeLaws sample c hc⟩

/-- `c17_pure`: in the model of what a successful `VmStack.serialize(data)` leaves in the caller's objects
    (`serializeSt`, current code path `pop = false`), the caller's values after the call are the values before
    the call — for every stack, tuple nesting and continuation. -/
theorem c17_pure (mk : Bits → List R → Option R) (vs : List (Val R)) : (serializeSt false mk vs).2 = vs := by
  simp [serializeSt, postList_id]

/-- hence serialising the same objects twice gives the same cell (or fails twice) -/
theorem c17_twice (mk : Bits → List R → Option R) (vs : List (Val R)) :
    (serializeSt false mk (serializeSt false mk vs).2).1 = (serializeSt false mk vs).1 := by
  rw [c17_pure]

/-- non-vacuity of the state model: on the code before fix F20 (`pop = true`) the same model shows the defect —
    the tuple (1, 2, 3) is left as (1) … -/
example : (serializeSt true mkTree [Val.tuple [.int 3, .int 2, .int 1]]).2 = [Val.tuple [.int 1]] := by
  simp [serializeSt, postList, postVal, postTuple, postTupleRef]

/-- … and the second call returns a different cell (3 references the first time, 2 the second) -/
example : ((serializeSt true mkTree [Val.tuple [.int 3, .int 2, .int 1]]).1.map (fun c => (viewTree c).2.length) = some 3)
    ∧ ((serializeSt true mkTree (serializeSt true mkTree [Val.tuple [.int 3, .int 2, .int 1]]).2).1.map
        (fun c => (viewTree c).2.length) = some 2) := by
  decide +kernel


/-- `c17_parser_accepts_schema`: the parser accepts every schema-valid encoding and returns the encoded values.
    If the content of cell `c` is an encoding of the stack `vs` under the VmStack schema of block.tlb (`IsStack`:
    any depth < 2^24, any nesting of tuples, all ten continuation kinds, control data with or without a stack and
    a save list, tinyint / int257 in canonical form), then `VmStack.deserialize(c.begin_parse())` returns exactly
    `vs` — same values, same order — and leaves nothing of the cell unread.  `fuel` is the model's recursion budget
    (one unit per nested call; Python has none): the result is the same for every budget ≥ `fuelL vs`, an explicit
    bound linear in the size of `vs` (`Proofs/VmStackInv.lean`). -/
theorem c17_parser_accepts_schema (vs : List (Val R)) (c : R) (h : IsStack view ord vs (view c).1 (view c).2)
    (fuel : Nat) (hf : fuelL vs ≤ fuel) :
    De.stack view ord fuel ⟨(view c).1, (view c).2⟩ = (⟨[], []⟩, some vs) :=
  de_stack_cell h fuel hf

/-- `c17_roundtrip`: for every stack `vs` of supported values — null, integers (64-bit and 257-bit form), cells,
    slices, builders, arbitrarily nested tuples, all ten continuation kinds with their control data — whenever
    `VmStack.serialize(vs)` returns a cell `c`, `VmStack.deserialize(c.begin_parse())` returns `vs`: equal values in
    the same order.  (`Laws`: a constructed cell shows the data it was built from and is ordinary.) -/
theorem c17_roundtrip (L : Laws mk view ord) (vs : List (Val R)) (c : R) (h : serialize mk vs = some c)
    (fuel : Nat) (hf : fuelL vs ≤ fuel) : deserialize view ord fuel c = some vs := by
  rw [deserialize, c17_parser_accepts_schema vs c (c17_schema L vs c h) fuel hf]

/-- the round trip is injective: two stacks that serialise to the same cell are the same stack -/
theorem c17_serialize_injective (L : Laws mk view ord) (vs ws : List (Val R)) (c : R)
    (h1 : serialize mk vs = some c) (h2 : serialize mk ws = some c) : vs = ws := by
  have a := c17_roundtrip L vs c h1 (fuelL vs + fuelL ws) (by omega)
  have b := c17_roundtrip L ws c h2 (fuelL vs + fuelL ws) (by omega)
  rw [a] at b; exact Option.some.inj b

/-- non-vacuity of `c17_roundtrip`: two stacks (top first) that together use every value constructor, every
    continuation kind, control data with and without stack / save list / nargs / cp, nested tuples of length
    0, 1, 2 and 4 — they serialise over tree cells, so the theorem speaks about them and the parser returns them. -/
def leaf : Cell := .mk (-1) [true, false, true] []
def sampleVals : List (Val Cell) :=
  [ .null, .int 0, .int (-1), .int (2 ^ 63 - 1), .int (-(2 ^ 63)), .int (2 ^ 63), .int (-(2 ^ 256)),
    .cell leaf, .slice [true, true, false] [leaf], .builder [false, true] [leaf, leaf],
    .tuple [], .tuple [.int 7], .tuple [.null, .tuple [.int 1, .tuple []]],
    .tuple [.int 4, .int 3, .tuple [.int 2, .cell leaf, .slice [] []], .int 1] ]
def sampleConts : List (Val Cell) :=
  [ .cont (.quit (-5)), .cont .quitExc,
    .cont (.std (.mk (some 3) (some [.int 9, .tuple [.int 8, .null]]) (some leaf) (some (-2))) [true] [leaf]),
    .cont (.envelope (.mk none none none none) (.pushint 11 .quitExc)),
    .cont (.repeat_ 5 (.quit 1) (.again (.quit 2))),
    .cont (.until_ (.quit 3) .quitExc),
    .cont (.whileCond (.quit 4) .quitExc (.quit 5)),
    .cont (.whileBody .quitExc (.quit 6) (.envelope (.mk (some 0) (some []) none (some 0)) (.quit 7))) ]

/-- `sampleVals` serialises (kernel evaluation of the model serialiser) -/
theorem sampleVals_serialises : (serialize mkTree sampleVals).isSome = true := by decide +kernel
/-- `sampleConts` serialises -/
theorem sampleConts_serialises : (serialize mkTree sampleConts).isSome = true := by decide +kernel

example : ∃ c, serialize mkTree sampleVals = some c ∧
    ∀ fuel, 72 ≤ fuel → deserialize viewTree ordTree fuel c = some sampleVals := by
  obtain ⟨c, hc⟩ := Option.isSome_iff_exists.mp sampleVals_serialises
  have hb : fuelL sampleVals = 72 := by decide
  exact ⟨c, hc, fun fuel hf => c17_roundtrip treeLaws sampleVals c hc fuel (by omega)⟩

example : ∃ c, serialize mkTree sampleConts = some c ∧
    ∀ fuel, 55 ≤ fuel → deserialize viewTree ordTree fuel c = some sampleConts := by
  obtain ⟨c, hc⟩ := Option.isSome_iff_exists.mp sampleConts_serialises
  have hb : fuelL sampleConts = 55 := by decide
  exact ⟨c, hc, fun fuel hf => c17_roundtrip treeLaws sampleConts c hc fuel (by omega)⟩

/-- non-vacuity of `c17_parser_accepts_schema` on an encoding that is *not* produced by the serialiser: a slice value
    whose `VmCellSlice` window starts inside the cell (`st_bits = 1`, `st_ref = 1`; the serialiser always writes 0).
    Cell content: depth 1, reference to the empty rest list, tag 04, window [1,3) × [1,2) of `wide`. -/
def wide : Cell := .mk (-1) [true, false, true, true] [leaf, leaf]
def handMade : Cell :=
  .mk (-1) (uintBits 24 1 ++ (tagByte 4 ++ (uintBits 10 1 ++ uintBits 10 3 ++ uintBits 3 1 ++ uintBits 3 2)))
    [.mk (-1) [] [], wide]

example : De.stack viewTree ordTree 3 ⟨(viewTree handMade).1, (viewTree handMade).2⟩ =
    (⟨[], []⟩, some [Val.slice [false, true] [leaf]]) := by
  have hs := IsCellSlice.mk (view := viewTree) wide 1 3 1 2 (by decide) (by decide) (by decide) (by decide)
    (by decide) (by decide)
  have hv := IsValue.slice (ord := ordTree) hs
  have hl := IsStackList.cons (view := viewTree) (ord := ordTree) (n := 0) (rest := []) (.mk (-1) [] [])
    IsStackList.nil hv
  have h : IsStack viewTree ordTree [Val.slice [false, true] [leaf]] (viewTree handMade).1 (viewTree handMade).2 :=
    IsStack.mk (vs := [Val.slice [false, true] [leaf]]) (by decide) hl
  exact c17_parser_accepts_schema _ handMade h 3 (by decide)

/-- `c17_roundtrip_fields` (the field-level statement underneath `c17_roundtrip`): what the serialiser writes for an
    `intN` / `uintN` field and for a `VmCellSlice` record is read back by the parser's `load_int(n)` / `load_uint(n)` / `VmCellSlice.deserialize`
    as the same value, consuming exactly the field and leaving the rest of the slice untouched — for every width
    `n ≥ 1`, every in-range value (in particular int64 and int257 at ±2^63, ±2^256) and every slice. -/
theorem c17_roundtrip_fields (L : Laws mk view ord) :
    (∀ (n : Nat) (v : Int) (b : Builder R) (b1 : Builder R) (rest : Bits) (rs : List R), 0 < n →
        run (BOp.storeInt v n) b = some b1 →
        ∃ xs, b1.bits = b.bits ++ xs ∧ SOp.loadInt n (⟨xs ++ rest, rs⟩ : Slice R) = (⟨rest, rs⟩, some v)) ∧
    (∀ (n : Nat) (v : Int) (b : Builder R) (b1 : Builder R) (rest : Bits) (rs : List R), 0 < n →
        run (BOp.storeUint v n) b = some b1 →
        ∃ xs, b1.bits = b.bits ++ xs ∧ SOp.loadUint n (⟨xs ++ rest, rs⟩ : Slice R) = (⟨rest, rs⟩, some v)) ∧
    (∀ (bits : Bits) (refs : List R) (bt : Built R) (rest : Bits) (rs : List R),
        serCellSlice mk bits refs = some bt →
        De.cellSlice view ⟨bt.bits ++ rest, bt.refs ++ rs⟩ = (⟨rest, rs⟩, some (bits, refs))) := by
  refine ⟨?_, ?_, ?_⟩
  · intro n v b b1 rest rs hn h
    obtain ⟨e, _, hok⟩ := eff_storeInt v n b b1 h
    refine ⟨intBits n v, by simp [e], ?_⟩
    simpa using reads_loadInt (R := R) hn hok rest rs
  · intro n v b b1 rest rs hn h
    obtain ⟨e, _, hok⟩ := eff_storeUint v n b b1 h
    refine ⟨uintBits n v, by simp [e], ?_⟩
    simpa using reads_loadUint (R := R) hn hok rest rs
  · intro bits refs bt rest rs h
    exact reads_cellSlice (ser_cellSlice L h).1 rest rs

/-- the hypotheses are met: −2^63 is stored as int64 and read back; a partly consumed slice goes through VmCellSlice -/
example : run (BOp.storeInt (-(2 ^ 63)) 64) (Builder.empty : Builder Cell) ≠ none := by decide +kernel
example : (serCellSlice mkTree [true, false, true] [Cell.mk (-1) [] []]).isSome = true := by decide +kernel

/-! ## Source-regenerated tests (`Generated/VmStackTests.lean`: re-translated from tlb/vm_stack.py on every run)

`Generated.tinyIntFits value` is the test `-2**63 <= value < 2**63` that selects `vm_stk_tinyint` in
`VmStackValue.serialize`; `cellSliceBitsBad` / `cellSliceRefsBad` are the two `if not a <= b: raise VmError` tests of
`VmCellSlice.deserialize`. -/
section Src
open TonVerif.Proofs.SrcArith2
set_option linter.unusedSimpArgs false

/-- for EVERY integer: the source chooses the 64-bit form exactly for the int64 range (both bounds: −2^63 in, 2^63 out), and
the cell-slice window tests refuse exactly the inverted windows. -/
theorem c17_src_tests (v : Int) (a b : Nat) :
    (Generated.tinyIntFits_sideOk v ∧ Generated.cellSliceBitsBad_sideOk a b ∧ Generated.cellSliceRefsBad_sideOk a b) ∧
    Generated.tinyIntFits v = decide (-(2 ^ 63 : Int) ≤ v ∧ v < (2 ^ 63 : Int)) ∧
    Generated.cellSliceBitsBad a b = decide (¬ a ≤ b) ∧ Generated.cellSliceRefsBad a b = decide (¬ a ≤ b) := by
  refine ⟨⟨by simp only [Generated.tinyIntFits_sideOk] <;> src_prop, by simp only [Generated.cellSliceBitsBad_sideOk] <;> src_prop,
    by simp only [Generated.cellSliceRefsBad_sideOk] <;> src_prop⟩, ?_, ?_, ?_⟩
  · simp only [Generated.tinyIntFits] <;> src_bool
  · simp only [Generated.cellSliceBitsBad] <;> src_bool
  · simp only [Generated.cellSliceRefsBad] <;> src_bool

/-- `VmStackValue.serialize` of the hand model (what `c17_roundtrip` … are proved about) chooses between `vm_stk_tinyint`
and `vm_stk_int` by exactly the regenerated test. -/
theorem c17_src_model_int {R : Type} (mk : Bits → List R → Option R) (v : Int) :
    serVal mk (.int v) =
      (if Generated.tinyIntFits v then build mk (BOp.storeBytes [1] ⊳ BOp.storeInt v 64)
       else build mk (BOp.storeBits tagInt257 ⊳ BOp.storeInt v 257)) := by
  rw [(c17_src_tests v 0 0).2.1]
  rw [serVal]
  by_cases h : -(2 ^ 63 : Int) ≤ v ∧ v < (2 ^ 63 : Int) <;> simp [h]

/-- the regenerated test on both sides of both bounds. -/
example : Generated.tinyIntFits (-(2 ^ 63)) = true ∧ Generated.tinyIntFits (-(2 ^ 63) - 1) = false ∧
    Generated.tinyIntFits (2 ^ 63 - 1) = true ∧ Generated.tinyIntFits (2 ^ 63) = false ∧
    Generated.cellSliceBitsBad 3 2 = true ∧ Generated.cellSliceBitsBad 2 2 = false := by decide

end Src

/-! ### the WHOLE serialize / deserialize methods regenerated from tlb/vm_stack.py (Generated/VmStackSrc.lean)

`Generated.VmStackSrc.*` are re-translated from the current source text on every run (harness/translate/pytlb.py, vmsrc.py).
A serialiser returns the cell TOGETHER WITH the state of its argument after the call (a `pop()` on the caller's list shows up
there); `fuel` bounds the nesting of recursive calls (Python has no such bound): `sV / sT / sL / sK / sC` are explicit sufficient
budgets, linear in the size of the value. -/
section SrcWhole
open TonVerif.Generated.VmStackSrc TonVerif.Proofs.SrcVm TonVerif.Proofs.SrcVmDe

/-- `c17_src_serialize`: for EVERY stack / value / tuple / continuation / control data and every sufficient budget the
    regenerated `VmStack.serialize`, `VmStackValue.serialize`, `VmTuple.serialize`, `VmTupleRef.serialize`, `VmStackList.serialize`,
    `VmCont.serialize`, `VmControlData.serialize`, `VmCellSlice.serialize` raise exactly when the hand model's `serStack`,
    `serVal`, … (about which `c17_schema`, `c17_roundtrip` are proved) do, and return the same cell. -/
theorem c17_src_serialize (mk : Bits → List R → Option R) :
    (∀ (vs : List (Val R)) fuel, sL vs + 1 ≤ fuel → (VmStack_serialize mk fuel vs).map (·.1) = serStack mk vs) ∧
    (∀ (v : Val R) fuel, sV v ≤ fuel → (VmStackValue_serialize mk fuel v).map (·.1) = serVal mk v) ∧
    (∀ (vs : List (Val R)) fuel, sT vs ≤ fuel → (VmTuple_serialize mk fuel vs).map (·.1) = serTuple mk vs) ∧
    (∀ (vs : List (Val R)) fuel, sT vs + 1 ≤ fuel → (VmTupleRef_serialize mk fuel vs).map (·.1) = serTupleRef mk vs) ∧
    (∀ (vs : List (Val R)) fuel, sL vs ≤ fuel → (VmStackList_serialize mk fuel vs).map (·.1) = serStackList mk vs) ∧
    (∀ (k : Cont R) fuel, sK k ≤ fuel → VmCont_serialize mk fuel k = serCont mk k) ∧
    (∀ (cd : Ctl R) fuel, sC cd ≤ fuel → VmControlData_serialize mk fuel cd = serCtl mk cd) ∧
    (∀ bits (refs : List R), VmCellSlice_serialize mk (bits, refs) = serCellSlice mk bits refs) := by
  refine ⟨fun vs fuel h => ?_, fun v fuel h => ?_, fun vs fuel h => ?_, fun vs fuel h => ?_, fun vs fuel h => ?_,
    src_serCont, src_serCtl, TonVerif.Proofs.SrcVm.cellSlice_eq⟩
  · rw [src_serStack vs fuel h]; simp [Function.comp_def]
  · rw [src_serVal v fuel h]; simp [Function.comp_def]
  · rw [src_serTuple vs fuel h]; simp [Function.comp_def]
  · rw [src_serTupleRef vs fuel h]; simp [Function.comp_def]
  · rw [src_serStackList vs fuel h]; simp [Function.comp_def]

/-- `c17_src_pure`: serialising does not consume: whenever the regenerated `VmStack.serialize(data)` /
    `VmStackValue.serialize(value)` / `VmTuple.serialize(values)` / `VmTupleRef.serialize(values)` returns, the state of the
    caller's argument after the call (second component; a `pop()` on it would show up here) IS the argument.  For every stack,
    value, tuple nesting, continuation.  (`VmStackList.serialize` empties the list it is given, by design: `VmStack.serialize`
    hands it a copy.) -/
theorem c17_src_pure (mk : Bits → List R → Option R) :
    (∀ (vs : List (Val R)) fuel r, sL vs + 1 ≤ fuel → VmStack_serialize mk fuel vs = some r → r.2 = vs) ∧
    (∀ (v : Val R) fuel r, sV v ≤ fuel → VmStackValue_serialize mk fuel v = some r → r.2 = v) ∧
    (∀ (vs : List (Val R)) fuel r, sT vs ≤ fuel → VmTuple_serialize mk fuel vs = some r → r.2 = vs) ∧
    (∀ (vs : List (Val R)) fuel r, sT vs + 1 ≤ fuel → VmTupleRef_serialize mk fuel vs = some r → r.2 = vs) ∧
    (∀ (vs : List (Val R)) fuel r, sL vs ≤ fuel → VmStackList_serialize mk fuel vs = some r → r.2 = []) := by
  refine ⟨fun vs fuel r h e => ?_, fun v fuel r h e => ?_, fun vs fuel r h e => ?_, fun vs fuel r h e => ?_, fun vs fuel r h e => ?_⟩
  · rw [src_serStack vs fuel h] at e; obtain ⟨b, _, rfl⟩ := Option.map_eq_some_iff.mp e; rfl
  · rw [src_serVal v fuel h] at e; obtain ⟨b, _, rfl⟩ := Option.map_eq_some_iff.mp e; rfl
  · rw [src_serTuple vs fuel h] at e; obtain ⟨b, _, rfl⟩ := Option.map_eq_some_iff.mp e; rfl
  · rw [src_serTupleRef vs fuel h] at e; obtain ⟨b, _, rfl⟩ := Option.map_eq_some_iff.mp e; rfl
  · rw [src_serStackList vs fuel h] at e; obtain ⟨b, _, rfl⟩ := Option.map_eq_some_iff.mp e; rfl

/-- hence the regenerated `VmStack.serialize`, called again on what the first call left, returns the same cell -/
theorem c17_src_twice (mk : Bits → List R → Option R) (vs : List (Val R)) (fuel : Nat) (h : sL vs + 1 ≤ fuel)
    (r : Built R × List (Val R)) (e : VmStack_serialize mk fuel vs = some r) : VmStack_serialize mk fuel r.2 = some r := by
  rw [(c17_src_pure mk).1 vs fuel r h e]; exact e

/-- `c17_src_deserialize`: for EVERY slice and every budget the regenerated `VmStack.deserialize`, `VmStackValue.deserialize`,
    `VmTuple.deserialize`, `VmTupleRef.deserialize`, `VmStackList.deserialize`, `VmControlData.deserialize`,
    `VmCellSlice.deserialize` ARE the hand model's parsers `De.*` (same raise / return decision, same value, same slice state
    afterwards), and `VmCont.deserialize` is `De.cont` wherever a constructor tag matches and returns `None` otherwise. -/
theorem c17_src_deserialize (view : R → Bits × List R) (ord : R → Bool) (fuel : Nat) :
    VmStack_deserialize view ord fuel = De.stack view ord fuel ∧
    VmStackValue_deserialize view ord fuel = De.val view ord fuel ∧
    (∀ n : Nat, VmTuple_deserialize view ord fuel (n : Int) = De.tuple view ord fuel n) ∧
    (∀ n : Nat, VmTupleRef_deserialize view ord fuel (n : Int) = De.tupleRef view ord fuel n) ∧
    (∀ n : Nat, VmStackList_deserialize view ord fuel (n : Int) = De.stackList view ord fuel n) ∧
    VmCont_deserialize view ord fuel = contOpt view ord fuel ∧
    VmControlData_deserialize view ord fuel = De.ctl view ord fuel ∧
    VmCellSlice_deserialize view ord = De.cellSlice view :=
  ⟨src_stack_eq fuel, (src_de_all fuel).1, (src_de_all fuel).2.1, (src_de_all fuel).2.2.1, (src_de_all fuel).2.2.2.1,
    (src_de_all fuel).2.2.2.2.1, (src_de_all fuel).2.2.2.2.2, TonVerif.Proofs.SrcVmDe.cellSlice_eq⟩

/-- `c17_src_roundtrip`: the round trip for the REGENERATED code: whenever the regenerated `VmStack.serialize(vs)` returns a
    cell, the regenerated `VmStack.deserialize` of that cell's content returns `vs` (equal values, same order, every supported
    kind, any nesting) and leaves nothing unread. -/
theorem c17_src_roundtrip (L : Laws mk view ord) (vs : List (Val R)) (fuel fuel' : Nat) (h : sL vs + 1 ≤ fuel)
    (hf : fuelL vs ≤ fuel') (r : Built R × List (Val R)) (e : VmStack_serialize mk fuel vs = some r) :
    VmStack_deserialize view ord fuel' ⟨(view r.1.cell).1, (view r.1.cell).2⟩ = (⟨[], []⟩, some vs) := by
  rw [src_serStack vs fuel h] at e
  obtain ⟨b, hb, rfl⟩ := Option.map_eq_some_iff.mp e
  have hc : serialize mk vs = some b.cell := by simp [serialize, hb]
  rw [src_stack_eq]
  exact c17_parser_accepts_schema vs b.cell (c17_schema L vs b.cell hc) fuel' hf

/-- non-vacuity: the regenerated serialiser returns on the two sample stacks (every value kind, every continuation kind,
    tuples of length 0/1/2/4) with budget 200, the returned state is the argument, and the regenerated parser reads the cell back -/
example : (VmStack_serialize mkTree 200 sampleVals).isSome = true ∧ (VmStack_serialize mkTree 200 sampleConts).isSome = true := by
  constructor <;> decide +kernel

example : ((VmStack_serialize mkTree 200 sampleVals).bind fun r =>
    (VmStack_deserialize viewTree ordTree 200 ⟨(viewTree r.1.cell).1, (viewTree r.1.cell).2⟩).2).isSome = true := by
  decide +kernel

/-- the budget hypotheses are met by concrete numbers -/
example : sL sampleVals + 1 ≤ 200 ∧ sL sampleConts + 1 ≤ 200 := by decide

/-- a parser-side example: a continuation value whose tag matches no constructor parses to `None` (null), as the code does -/
example : ((VmStackValue_deserialize viewTree ordTree 5 ⟨[false,false,false,false,false,true,true,false, true,false,true,true], []⟩).2.map
    fun v => match v with | Val.null => true | _ => false) = some true := by decide +kernel

end SrcWhole

end TonVerif.C17
