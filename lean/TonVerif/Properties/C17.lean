import TonVerif.Model.VmStack
namespace TonVerif.C17
open TonVerif TonVerif.Model TonVerif.Model.Vm

/-- temporary -/
theorem c17_tmp {R} (mk : Bits → List R → Option R) : serStackList mk [] = build mk BOp.skip := by
  simp [serStackList]

end TonVerif.C17
