/-
C17 — TVM stack values round-trip and serialising does not consume them.

Model: `Model/VmStack.lean` (hand mirror of `pytoniq_core/tlb/vm_stack.py`), spec: `Spec/Tlb/VmStack.lean`
(block.tlb as relations).  Python lists are stored last-element-first in the model (a stack is written top
first, a tuple last entry first), see the header of the model file.  `mk` = `Builder.end_cell`, `view` =
what `begin_parse` shows, `ord` = "ordinary cell"; `Laws` = a constructed cell shows the data it was made
from and is ordinary.
-/
import TonVerif.Proofs.VmStack
namespace TonVerif.C17
open TonVerif TonVerif.Model TonVerif.Model.Vm TonVerif.Spec.Vm TonVerif.Proofs.Vm

variable {R : Type} {mk : Bits → List R → Option R} {view : R → Bits × List R} {ord : R → Bool}

/-- `c17_schema`: whenever `VmStack.serialize(vs)` returns a cell, the cell's content is an encoding of `vs`
    under the VmStack schema of block.tlb — for every stack, every nesting of tuples and every continuation
    kind: 24-bit depth, `VmStackList` chained through the first reference, `vm_stk_tinyint` exactly when
    −2^63 ≤ v < 2^63 and the 15-bit tag `0201_` + int257 otherwise, tuple chaining for lengths 0, 1, 2, 3+. -/
theorem c17_schema (L : Laws mk view ord) (vs : List (Val R)) (c : R) (h : serialize mk vs = some c) :
    IsStack view ord vs (view c).1 (view c).2 := by
  unfold serialize at h
  obtain ⟨bt, hbt, rfl⟩ := Option.map_eq_some_iff.mp h
  obtain ⟨hs, hmk⟩ := ser_stack L vs bt hbt
  rw [L.view_mk _ _ _ hmk]; exact hs


/-- a concrete instance of the hypotheses of `c17_schema`: cells as trees, `mk` never fails; a three-entry tuple,
    a small and a large integer and a `vmc_quit` continuation serialise, so `c17_schema` speaks about them -/
def mkTree (b : Bits) (r : List Cell) : Option Cell := some (.mk (-1) b r)
def viewTree : Cell → Bits × List Cell | .mk _ b r => (b, r)
def ordTree : Cell → Bool | .mk k _ _ => k == -1

theorem treeLaws : Laws mkTree viewTree ordTree :=
  ⟨fun b r c h => by simp [mkTree] at h; subst h; rfl, fun b r c h => by simp [mkTree] at h; subst h; rfl⟩

/-- stack (top first): quit(5), 2^63, −2^63, tuple (1, 2, 3) -/
def sample : List (Val Cell) :=
  [.cont (.quit 5), .int (2 ^ 63), .int (-(2 ^ 63)), .tuple [.int 3, .int 2, .int 1]]

example : (serialize mkTree sample).isSome = true := by decide +kernel

example : ∃ c, serialize mkTree sample = some c ∧ IsStack viewTree ordTree sample (viewTree c).1 (viewTree c).2 := by
  have h : (serialize mkTree sample).isSome = true := by decide +kernel
  obtain ⟨c, hc⟩ := Option.isSome_iff_exists.mp h
  exact ⟨c, hc, c17_schema treeLaws sample c hc⟩

/-- `c17_pure`: in the model of what a successful `VmStack.serialize(data)` leaves in the caller's objects
    (`serializeSt`, current code path `pop = false`), the caller's values after the call are the values before
    the call — for every stack, tuple nesting and continuation. -/
theorem c17_pure (mk : Bits → List R → Option R) (vs : List (Val R)) : (serializeSt false mk vs).2 = vs := by
  simp [serializeSt, postList_id]

/-- hence serialising the same objects twice gives the same cell (or fails twice) -/
theorem c17_twice (mk : Bits → List R → Option R) (vs : List (Val R)) :
    (serializeSt false mk (serializeSt false mk vs).2).1 = (serializeSt false mk vs).1 := by
  rw [c17_pure]

/-- non-vacuity of the state model: on the code before fix F20 (`pop = true`) the same model shows the defect —
    the tuple (1, 2, 3) is left as (1) … -/
example : (serializeSt true mkTree [Val.tuple [.int 3, .int 2, .int 1]]).2 = [Val.tuple [.int 1]] := by
  simp [serializeSt, postList, postVal, postTuple, postTupleRef]

/-- … and the second call returns a different cell (3 references the first time, 2 the second) -/
example : ((serializeSt true mkTree [Val.tuple [.int 3, .int 2, .int 1]]).1.map (fun c => (viewTree c).2.length) = some 3)
    ∧ ((serializeSt true mkTree (serializeSt true mkTree [Val.tuple [.int 3, .int 2, .int 1]]).2).1.map
        (fun c => (viewTree c).2.length) = some 2) := by
  decide +kernel

end TonVerif.C17
