/-
C17 — TVM stack values round-trip and serialising does not consume them.

Model: `Model/VmStack.lean` (hand mirror of `pytoniq_core/tlb/vm_stack.py`), spec: `Spec/Tlb/VmStack.lean`
(block.tlb as relations).  Python lists are stored last-element-first in the model (a stack is written top
first, a tuple last entry first), see the header of the model file.  `mk` = `Builder.end_cell`, `view` =
what `begin_parse` shows, `ord` = "ordinary cell"; `Laws` = a constructed cell shows the data it was made
from and is ordinary.
-/
import TonVerif.Proofs.VmStack
namespace TonVerif.C17
open TonVerif TonVerif.Model TonVerif.Model.Vm TonVerif.Spec.Vm TonVerif.Proofs.Vm

variable {R : Type} {mk : Bits → List R → Option R} {view : R → Bits × List R} {ord : R → Bool}

/-- `c17_schema`: whenever `VmStack.serialize(vs)` returns a cell, the cell's content is an encoding of `vs`
    under the VmStack schema of block.tlb — for every stack, every nesting of tuples and every continuation
    kind: 24-bit depth, `VmStackList` chained through the first reference, `vm_stk_tinyint` exactly when
    −2^63 ≤ v < 2^63 and the 15-bit tag `0201_` + int257 otherwise, tuple chaining for lengths 0, 1, 2, 3+. -/
theorem c17_schema (L : Laws mk view ord) (vs : List (Val R)) (c : R) (h : serialize mk vs = some c) :
    IsStack view ord vs (view c).1 (view c).2 := by
  unfold serialize at h
  obtain ⟨bt, hbt, rfl⟩ := Option.map_eq_some_iff.mp h
  obtain ⟨hs, hmk⟩ := ser_stack L vs bt hbt
  rw [L.view_mk _ _ _ hmk]; exact hs

end TonVerif.C17
