/-
C16 — "Transaction, account and block parsers read exactly what block.tlb specifies".

The theorems are about the SPEC encoder/decoder pair (Spec/Tlb/Block.lean: every block.tlb type as a term of
lawful codec combinators) — the "independent implementation of the schema" that the property quantifies the
library's parsers against.  `Lawful T` unfolds to (see `c16_law_statement`)

    T.enc v = some ⟨bits, refs⟩ → ∀ tb tr, T.dec ⟨bits ++ tb, refs ++ tr⟩ = some (v, ⟨tb, tr⟩)

for ALL values v (all constructor alternatives, all optional-field combinations, full value ranges).
The library's `T.deserialize` is tied to `T.enc` by the sampled encoder → parser correspondence of
harness/props/C16.py (every field + remaining bits/refs compared).
-/
import TonVerif.Proofs.Codec
import TonVerif.Spec.Tlb.Block
import TonVerif.Proofs.SrcTlbParsers
import TonVerif.Proofs.SrcTlbParsersTx
import TonVerif.Proofs.SrcTlbParsersBlk

namespace TonVerif.Tlb
open TonVerif

/-- What `Lawful c` says, in plain terms: if the spec encoder writes value `v` as `bits`/`refs`, then the spec decoder,
    started on those bits and refs followed by any trailer `tb`/`tr`, returns exactly `v` and leaves exactly the trailer. -/
theorem c16_law_statement (c : Codec) [h : Lawful c] (v : Val) (bits : Bits) (refs : List Cell)
    (he : c.enc v = some ⟨bits, refs⟩) (tb : Bits) (tr : List Cell) :
    c.dec ⟨bits ++ tb, refs ++ tr⟩ = some (v, ⟨tb, tr⟩) :=
  h.law v ⟨bits, refs⟩ he ⟨tb, tr⟩

/-- A type that closes its cell (`Message Any`, whose body is the rest of the slice): decoding the encoded cell content
    returns the value and leaves nothing. -/
theorem c16_law_statement_end (c : Codec) [h : LawfulEnd c] (v : Val) (bits : Bits) (refs : List Cell)
    (he : c.enc v = some ⟨bits, refs⟩) : c.dec ⟨bits, refs⟩ = some (v, ⟨[], []⟩) :=
  h.law v ⟨bits, refs⟩ he

/-- `bits256` -/
@[instance]
theorem c16_bits256_roundtrip : Lawful bits256 := by unfold bits256; infer_instance

/-- `MsgAddressExt`: decoding what the spec encoder wrote for ANY value, followed by ANY continuation bits and refs, returns that
    value (every field, unsigned stays unsigned) and leaves exactly the continuation. -/
@[instance]
theorem c16_MsgAddressExt_roundtrip : Lawful msgAddressExt := by
  unfold msgAddressExt msgAddressExtAlts addrNoneAlt addrExternAlt
  infer_instance

/-- `MsgAddressInt`: decoding what the spec encoder wrote for ANY value, followed by ANY continuation bits and refs, returns that
    value (every field, unsigned stays unsigned) and leaves exactly the continuation. -/
@[instance]
theorem c16_MsgAddressInt_roundtrip : Lawful msgAddressInt := by
  unfold msgAddressInt msgAddressIntAlts addrStdAlt addrVarAlt anycast
  infer_instance

/-- `ExtraCurrencyCollection`: decoding what the spec encoder wrote for ANY value, followed by ANY continuation bits and refs, returns that
    value (every field, unsigned stays unsigned) and leaves exactly the continuation. -/
@[instance]
theorem c16_ExtraCurrencyCollection_roundtrip : Lawful extraCurrencyCollection := by
  unfold extraCurrencyCollection
  infer_instance

/-- `CurrencyCollection`: decoding what the spec encoder wrote for ANY value, followed by ANY continuation bits and refs, returns that
    value (every field, unsigned stays unsigned) and leaves exactly the continuation. -/
@[instance]
theorem c16_CurrencyCollection_roundtrip : Lawful currencyCollection := by
  unfold currencyCollection
  infer_instance

/-- `CommonMsgInfo`: decoding what the spec encoder wrote for ANY value, followed by ANY continuation bits and refs, returns that
    value (every field, unsigned stays unsigned) and leaves exactly the continuation. -/
@[instance]
theorem c16_CommonMsgInfo_roundtrip : Lawful commonMsgInfo := by
  unfold commonMsgInfo commonMsgInfoAlts
  infer_instance

/-- `TickTock`: decoding what the spec encoder wrote for ANY value, followed by ANY continuation bits and refs, returns that
    value (every field, unsigned stays unsigned) and leaves exactly the continuation. -/
@[instance]
theorem c16_TickTock_roundtrip : Lawful tickTock := by
  unfold tickTock
  infer_instance

/-- `StateInit`: decoding what the spec encoder wrote for ANY value, followed by ANY continuation bits and refs, returns that
    value (every field, unsigned stays unsigned) and leaves exactly the continuation. -/
@[instance]
theorem c16_StateInit_roundtrip : Lawful stateInit := by
  unfold stateInit
  infer_instance

/-- `AccountStatus`: decoding what the spec encoder wrote for ANY value, followed by ANY continuation bits and refs, returns that
    value (every field, unsigned stays unsigned) and leaves exactly the continuation. -/
@[instance]
theorem c16_AccountStatus_roundtrip : Lawful accountStatus := by
  unfold accountStatus accountStatusAlts
  infer_instance

/-- `HashUpdate (HASH_UPDATE X)`: decoding what the spec encoder wrote for ANY value, followed by ANY continuation bits and refs, returns that
    value (every field, unsigned stays unsigned) and leaves exactly the continuation. -/
@[instance]
theorem c16_HashUpdate_roundtrip : Lawful hashUpdate := by
  unfold hashUpdate
  infer_instance

/-- `StorageUsed`: decoding what the spec encoder wrote for ANY value, followed by ANY continuation bits and refs, returns that
    value (every field, unsigned stays unsigned) and leaves exactly the continuation. -/
@[instance]
theorem c16_StorageUsed_roundtrip : Lawful storageUsed := by
  unfold storageUsed
  infer_instance

/-- `StorageUsedShort`: decoding what the spec encoder wrote for ANY value, followed by ANY continuation bits and refs, returns that
    value (every field, unsigned stays unsigned) and leaves exactly the continuation. -/
@[instance]
theorem c16_StorageUsedShort_roundtrip : Lawful storageUsedShort := by
  unfold storageUsedShort
  infer_instance

/-- `StorageInfo`: decoding what the spec encoder wrote for ANY value, followed by ANY continuation bits and refs, returns that
    value (every field, unsigned stays unsigned) and leaves exactly the continuation. -/
@[instance]
theorem c16_StorageInfo_roundtrip : Lawful storageInfo := by
  unfold storageInfo
  infer_instance

/-- `AccountState`: decoding what the spec encoder wrote for ANY value, followed by ANY continuation bits and refs, returns that
    value (every field, unsigned stays unsigned) and leaves exactly the continuation. -/
@[instance]
theorem c16_AccountState_roundtrip : Lawful accountState := by
  unfold accountState accountStateAlts
  infer_instance

/-- `AccountStorage`: decoding what the spec encoder wrote for ANY value, followed by ANY continuation bits and refs, returns that
    value (every field, unsigned stays unsigned) and leaves exactly the continuation. -/
@[instance]
theorem c16_AccountStorage_roundtrip : Lawful accountStorage := by
  unfold accountStorage
  infer_instance

/-- `Account`: decoding what the spec encoder wrote for ANY value, followed by ANY continuation bits and refs, returns that
    value (every field, unsigned stays unsigned) and leaves exactly the continuation. -/
@[instance]
theorem c16_Account_roundtrip : Lawful account := by
  unfold account accountAlts
  infer_instance

/-- `ShardAccount`: decoding what the spec encoder wrote for ANY value, followed by ANY continuation bits and refs, returns that
    value (every field, unsigned stays unsigned) and leaves exactly the continuation. -/
@[instance]
theorem c16_ShardAccount_roundtrip : Lawful shardAccount := by
  unfold shardAccount
  infer_instance

/-- `DepthBalanceInfo`: decoding what the spec encoder wrote for ANY value, followed by ANY continuation bits and refs, returns that
    value (every field, unsigned stays unsigned) and leaves exactly the continuation. -/
@[instance]
theorem c16_DepthBalanceInfo_roundtrip : Lawful depthBalanceInfo := by
  unfold depthBalanceInfo
  infer_instance

/-- `ShardAccounts`: decoding what the spec encoder wrote for ANY value, followed by ANY continuation bits and refs, returns that
    value (every field, unsigned stays unsigned) and leaves exactly the continuation. -/
@[instance]
theorem c16_ShardAccounts_roundtrip : Lawful shardAccounts := by
  unfold shardAccounts
  infer_instance

/-- `AccStatusChange`: decoding what the spec encoder wrote for ANY value, followed by ANY continuation bits and refs, returns that
    value (every field, unsigned stays unsigned) and leaves exactly the continuation. -/
@[instance]
theorem c16_AccStatusChange_roundtrip : Lawful accStatusChange := by
  unfold accStatusChange accStatusChangeAlts
  infer_instance

/-- `ComputeSkipReason`: decoding what the spec encoder wrote for ANY value, followed by ANY continuation bits and refs, returns that
    value (every field, unsigned stays unsigned) and leaves exactly the continuation. -/
@[instance]
theorem c16_ComputeSkipReason_roundtrip : Lawful computeSkipReason := by
  unfold computeSkipReason computeSkipReasonAlts
  infer_instance

/-- `TrStoragePhase`: decoding what the spec encoder wrote for ANY value, followed by ANY continuation bits and refs, returns that
    value (every field, unsigned stays unsigned) and leaves exactly the continuation. -/
@[instance]
theorem c16_TrStoragePhase_roundtrip : Lawful trStoragePhase := by
  unfold trStoragePhase
  infer_instance

/-- `TrCreditPhase`: decoding what the spec encoder wrote for ANY value, followed by ANY continuation bits and refs, returns that
    value (every field, unsigned stays unsigned) and leaves exactly the continuation. -/
@[instance]
theorem c16_TrCreditPhase_roundtrip : Lawful trCreditPhase := by
  unfold trCreditPhase
  infer_instance

/-- `TrComputePhase`: decoding what the spec encoder wrote for ANY value, followed by ANY continuation bits and refs, returns that
    value (every field, unsigned stays unsigned) and leaves exactly the continuation. -/
@[instance]
theorem c16_TrComputePhase_roundtrip : Lawful trComputePhase := by
  unfold trComputePhase trComputePhaseAlts
  infer_instance

/-- `TrActionPhase`: decoding what the spec encoder wrote for ANY value, followed by ANY continuation bits and refs, returns that
    value (every field, unsigned stays unsigned) and leaves exactly the continuation. -/
@[instance]
theorem c16_TrActionPhase_roundtrip : Lawful trActionPhase := by
  unfold trActionPhase
  infer_instance

/-- `TrBouncePhase`: decoding what the spec encoder wrote for ANY value, followed by ANY continuation bits and refs, returns that
    value (every field, unsigned stays unsigned) and leaves exactly the continuation. -/
@[instance]
theorem c16_TrBouncePhase_roundtrip : Lawful trBouncePhase := by
  unfold trBouncePhase trBouncePhaseAlts
  infer_instance

/-- `SplitMergeInfo`: decoding what the spec encoder wrote for ANY value, followed by ANY continuation bits and refs, returns that
    value (every field, unsigned stays unsigned) and leaves exactly the continuation. -/
@[instance]
theorem c16_SplitMergeInfo_roundtrip : Lawful splitMergeInfo := by
  unfold splitMergeInfo
  infer_instance

/-- `ExtBlkRef`: decoding what the spec encoder wrote for ANY value, followed by ANY continuation bits and refs, returns that
    value (every field, unsigned stays unsigned) and leaves exactly the continuation. -/
@[instance]
theorem c16_ExtBlkRef_roundtrip : Lawful extBlkRef := by
  unfold extBlkRef
  infer_instance

/-- `Message Any` (read through by the transaction / descriptor parsers): closes its cell, so the law is the end-of-cell form. -/
@[instance]
theorem c16_Message_roundtrip : LawfulEnd message := by
  unfold message
  infer_instance

/-- `TransactionDescr` (7 kinds) over any lawful codec for the nested `^Transaction`. -/
@[instance]
theorem c16_TransactionDescrF_roundtrip (tx : Codec) [Lawful tx] : Lawful (transactionDescrF tx) := by
  unfold transactionDescrF transactionDescrFAlts
  infer_instance

/-- `Transaction` for EVERY nesting budget (`prepare_transaction:^Transaction` inside split/merge-install descriptions). -/
@[instance]
theorem c16_Transaction_roundtrip_any_budget : ∀ budget, Lawful (transactionF budget)
  | 0 => by unfold transactionF; infer_instance
  | budget+1 => by
    have ih := c16_Transaction_roundtrip_any_budget budget
    unfold transactionF
    infer_instance

/-- `Transaction` -/
@[instance]
theorem c16_Transaction_roundtrip : Lawful transaction := by unfold transaction; infer_instance

/-- `TransactionDescr` (trans_ord, trans_storage, trans_tick_tock, trans_split_prepare, trans_split_install,
    trans_merge_prepare, trans_merge_install) -/
@[instance]
theorem c16_TransactionDescr_roundtrip : Lawful transactionDescr := by unfold transactionDescr; infer_instance

/-- `BlkPrevInfo m` for both values of `after_merge` -/
@[instance]
theorem c16_BlkPrevInfo_roundtrip (m : Nat) : Lawful (blkPrevInfo m) := by
  unfold blkPrevInfo
  infer_instance

/-- `AccountBlock`: decoding what the spec encoder wrote for ANY value, followed by ANY continuation bits and refs, returns that
    value (every field, unsigned stays unsigned) and leaves exactly the continuation. -/
@[instance]
theorem c16_AccountBlock_roundtrip : Lawful accountBlock := by
  unfold accountBlock
  infer_instance

/-- `ShardAccountBlocks`: decoding what the spec encoder wrote for ANY value, followed by ANY continuation bits and refs, returns that
    value (every field, unsigned stays unsigned) and leaves exactly the continuation. -/
@[instance]
theorem c16_ShardAccountBlocks_roundtrip : Lawful shardAccountBlocks := by
  unfold shardAccountBlocks
  infer_instance

/-- `IntermediateAddress`: decoding what the spec encoder wrote for ANY value, followed by ANY continuation bits and refs, returns that
    value (every field, unsigned stays unsigned) and leaves exactly the continuation. -/
@[instance]
theorem c16_IntermediateAddress_roundtrip : Lawful intermediateAddress := by
  unfold intermediateAddress intermediateAddressAlts
  infer_instance

/-- `MsgMetadata`: decoding what the spec encoder wrote for ANY value, followed by ANY continuation bits and refs, returns that
    value (every field, unsigned stays unsigned) and leaves exactly the continuation. -/
@[instance]
theorem c16_MsgMetadata_roundtrip : Lawful msgMetadata := by
  unfold msgMetadata
  infer_instance

/-- `MsgEnvelope`: decoding what the spec encoder wrote for ANY value, followed by ANY continuation bits and refs, returns that
    value (every field, unsigned stays unsigned) and leaves exactly the continuation. -/
@[instance]
theorem c16_MsgEnvelope_roundtrip : Lawful msgEnvelope := by
  unfold msgEnvelope msgEnvelopeAlts
  infer_instance

/-- `InMsg`: decoding what the spec encoder wrote for ANY value, followed by ANY continuation bits and refs, returns that
    value (every field, unsigned stays unsigned) and leaves exactly the continuation. -/
@[instance]
theorem c16_InMsg_roundtrip : Lawful inMsg := by
  unfold inMsg inMsgAlts
  infer_instance

/-- `ImportFees`: decoding what the spec encoder wrote for ANY value, followed by ANY continuation bits and refs, returns that
    value (every field, unsigned stays unsigned) and leaves exactly the continuation. -/
@[instance]
theorem c16_ImportFees_roundtrip : Lawful importFees := by
  unfold importFees
  infer_instance

/-- `OutMsg`: decoding what the spec encoder wrote for ANY value, followed by ANY continuation bits and refs, returns that
    value (every field, unsigned stays unsigned) and leaves exactly the continuation. -/
@[instance]
theorem c16_OutMsg_roundtrip : Lawful outMsg := by
  unfold outMsg outMsgAlts
  infer_instance

/-- `InMsgDescr`: decoding what the spec encoder wrote for ANY value, followed by ANY continuation bits and refs, returns that
    value (every field, unsigned stays unsigned) and leaves exactly the continuation. -/
@[instance]
theorem c16_InMsgDescr_roundtrip : Lawful inMsgDescr := by
  unfold inMsgDescr
  infer_instance

/-- `OutMsgDescr`: decoding what the spec encoder wrote for ANY value, followed by ANY continuation bits and refs, returns that
    value (every field, unsigned stays unsigned) and leaves exactly the continuation. -/
@[instance]
theorem c16_OutMsgDescr_roundtrip : Lawful outMsgDescr := by
  unfold outMsgDescr
  infer_instance

/-- `ShardIdent`: decoding what the spec encoder wrote for ANY value, followed by ANY continuation bits and refs, returns that
    value (every field, unsigned stays unsigned) and leaves exactly the continuation. -/
@[instance]
theorem c16_ShardIdent_roundtrip : Lawful shardIdent := by
  unfold shardIdent
  infer_instance

/-- `GlobalVersion`: decoding what the spec encoder wrote for ANY value, followed by ANY continuation bits and refs, returns that
    value (every field, unsigned stays unsigned) and leaves exactly the continuation. -/
@[instance]
theorem c16_GlobalVersion_roundtrip : Lawful globalVersion := by
  unfold globalVersion
  infer_instance

/-- `BlkMasterInfo`: decoding what the spec encoder wrote for ANY value, followed by ANY continuation bits and refs, returns that
    value (every field, unsigned stays unsigned) and leaves exactly the continuation. -/
@[instance]
theorem c16_BlkMasterInfo_roundtrip : Lawful blkMasterInfo := by
  unfold blkMasterInfo
  infer_instance

/-- `BlockInfo`: decoding what the spec encoder wrote for ANY value, followed by ANY continuation bits and refs, returns that
    value (every field, unsigned stays unsigned) and leaves exactly the continuation. -/
@[instance]
theorem c16_BlockInfo_roundtrip : Lawful blockInfo := by
  unfold blockInfo
  infer_instance

/-- `ValueFlow ^[first group]`: decoding what the spec encoder wrote for ANY value, followed by ANY continuation bits and refs, returns that
    value (every field, unsigned stays unsigned) and leaves exactly the continuation. -/
@[instance]
theorem c16_ValueFlowIn_roundtrip : Lawful valueFlowIn := by
  unfold valueFlowIn
  infer_instance

/-- `ValueFlow ^[second group]`: decoding what the spec encoder wrote for ANY value, followed by ANY continuation bits and refs, returns that
    value (every field, unsigned stays unsigned) and leaves exactly the continuation. -/
@[instance]
theorem c16_ValueFlowOut_roundtrip : Lawful valueFlowOut := by
  unfold valueFlowOut
  infer_instance

/-- `ValueFlow`: decoding what the spec encoder wrote for ANY value, followed by ANY continuation bits and refs, returns that
    value (every field, unsigned stays unsigned) and leaves exactly the continuation. -/
@[instance]
theorem c16_ValueFlow_roundtrip : Lawful valueFlow := by
  unfold valueFlow valueFlowAlts
  infer_instance

/-- `FutureSplitMerge`: decoding what the spec encoder wrote for ANY value, followed by ANY continuation bits and refs, returns that
    value (every field, unsigned stays unsigned) and leaves exactly the continuation. -/
@[instance]
theorem c16_FutureSplitMerge_roundtrip : Lawful futureSplitMerge := by
  unfold futureSplitMerge futureSplitMergeAlts
  infer_instance

/-- `ShardDescr`: decoding what the spec encoder wrote for ANY value, followed by ANY continuation bits and refs, returns that
    value (every field, unsigned stays unsigned) and leaves exactly the continuation. -/
@[instance]
theorem c16_ShardDescr_roundtrip : Lawful shardDescr := by
  unfold shardDescr shardDescrAlts shardDescrHead
  simp only [List.cons_append, List.nil_append]
  infer_instance

/-- `ShardHashes`: decoding what the spec encoder wrote for ANY value, followed by ANY continuation bits and refs, returns that
    value (every field, unsigned stays unsigned) and leaves exactly the continuation. -/
@[instance]
theorem c16_ShardHashes_roundtrip : Lawful shardHashes := by
  unfold shardHashes
  infer_instance

/-- `SigPubKey`: decoding what the spec encoder wrote for ANY value, followed by ANY continuation bits and refs, returns that
    value (every field, unsigned stays unsigned) and leaves exactly the continuation. -/
@[instance]
theorem c16_SigPubKey_roundtrip : Lawful sigPubKey := by
  unfold sigPubKey
  infer_instance

/-- `ValidatorDescr`: decoding what the spec encoder wrote for ANY value, followed by ANY continuation bits and refs, returns that
    value (every field, unsigned stays unsigned) and leaves exactly the continuation. -/
@[instance]
theorem c16_ValidatorDescr_roundtrip : Lawful validatorDescr := by
  unfold validatorDescr validatorDescrAlts
  infer_instance

/-- `ValidatorSet`: decoding what the spec encoder wrote for ANY value, followed by ANY continuation bits and refs, returns that
    value (every field, unsigned stays unsigned) and leaves exactly the continuation. -/
@[instance]
theorem c16_ValidatorSet_roundtrip : Lawful validatorSet := by
  unfold validatorSet validatorSetAlts
  infer_instance

/-- `CatchainConfig`: decoding what the spec encoder wrote for ANY value, followed by ANY continuation bits and refs, returns that
    value (every field, unsigned stays unsigned) and leaves exactly the continuation. -/
@[instance]
theorem c16_CatchainConfig_roundtrip : Lawful catchainConfig := by
  unfold catchainConfig catchainConfigAlts
  infer_instance

/-- `ConsensusConfig`: decoding what the spec encoder wrote for ANY value, followed by ANY continuation bits and refs, returns that
    value (every field, unsigned stays unsigned) and leaves exactly the continuation. -/
@[instance]
theorem c16_ConsensusConfig_roundtrip : Lawful consensusConfig := by
  unfold consensusConfig consensusConfigAlts consensusNewHead consensusTail
  simp only [List.cons_append, List.nil_append]
  infer_instance

/-- `ValidatorInfo`: decoding what the spec encoder wrote for ANY value, followed by ANY continuation bits and refs, returns that
    value (every field, unsigned stays unsigned) and leaves exactly the continuation. -/
@[instance]
theorem c16_ValidatorInfo_roundtrip : Lawful validatorInfo := by
  unfold validatorInfo
  infer_instance

/-- `KeyExtBlkRef`: decoding what the spec encoder wrote for ANY value, followed by ANY continuation bits and refs, returns that
    value (every field, unsigned stays unsigned) and leaves exactly the continuation. -/
@[instance]
theorem c16_KeyExtBlkRef_roundtrip : Lawful keyExtBlkRef := by
  unfold keyExtBlkRef
  infer_instance

/-- `KeyMaxLt`: decoding what the spec encoder wrote for ANY value, followed by ANY continuation bits and refs, returns that
    value (every field, unsigned stays unsigned) and leaves exactly the continuation. -/
@[instance]
theorem c16_KeyMaxLt_roundtrip : Lawful keyMaxLt := by
  unfold keyMaxLt
  infer_instance

/-- `OldMcBlocksInfo`: decoding what the spec encoder wrote for ANY value, followed by ANY continuation bits and refs, returns that
    value (every field, unsigned stays unsigned) and leaves exactly the continuation. -/
@[instance]
theorem c16_OldMcBlocksInfo_roundtrip : Lawful oldMcBlocksInfo := by
  unfold oldMcBlocksInfo
  infer_instance

/-- `Counters`: decoding what the spec encoder wrote for ANY value, followed by ANY continuation bits and refs, returns that
    value (every field, unsigned stays unsigned) and leaves exactly the continuation. -/
@[instance]
theorem c16_Counters_roundtrip : Lawful counters := by
  unfold counters
  infer_instance

/-- `CreatorStats`: decoding what the spec encoder wrote for ANY value, followed by ANY continuation bits and refs, returns that
    value (every field, unsigned stays unsigned) and leaves exactly the continuation. -/
@[instance]
theorem c16_CreatorStats_roundtrip : Lawful creatorStats := by
  unfold creatorStats
  infer_instance

/-- `BlockCreateStats`: decoding what the spec encoder wrote for ANY value, followed by ANY continuation bits and refs, returns that
    value (every field, unsigned stays unsigned) and leaves exactly the continuation. -/
@[instance]
theorem c16_BlockCreateStats_roundtrip : Lawful blockCreateStats := by
  unfold blockCreateStats blockCreateStatsAlts
  infer_instance

/-- `ConfigParams`: decoding what the spec encoder wrote for ANY value, followed by ANY continuation bits and refs, returns that
    value (every field, unsigned stays unsigned) and leaves exactly the continuation. -/
@[instance]
theorem c16_ConfigParams_roundtrip : Lawful configParams := by
  unfold configParams
  infer_instance

/-- `McStateExtra`: decoding what the spec encoder wrote for ANY value, followed by ANY continuation bits and refs, returns that
    value (every field, unsigned stays unsigned) and leaves exactly the continuation. -/
@[instance]
theorem c16_McStateExtra_roundtrip : Lawful mcStateExtra := by
  unfold mcStateExtra
  infer_instance

/-- `ShardFeeCreated` -/
@[instance]
theorem c16_ShardFeeCreated_roundtrip : Lawful shardFeeCreated := by unfold shardFeeCreated; infer_instance

/-- `ShardFees` -/
@[instance]
theorem c16_ShardFees_roundtrip : Lawful shardFees := by unfold shardFees; infer_instance

/-- `CryptoSignaturePair` (simple ed25519 signatures) -/
@[instance]
theorem c16_CryptoSignaturePair_roundtrip : Lawful cryptoSignaturePair := by unfold cryptoSignaturePair; infer_instance

/-- `McBlockExtra`: decoding what the spec encoder wrote for ANY value, followed by ANY continuation bits and refs, returns that
    value (every field, unsigned stays unsigned) and leaves exactly the continuation. -/
@[instance]
theorem c16_McBlockExtra_roundtrip : Lawful mcBlockExtra := by
  unfold mcBlockExtra
  infer_instance

/-- `BlockExtra`: decoding what the spec encoder wrote for ANY value, followed by ANY continuation bits and refs, returns that
    value (every field, unsigned stays unsigned) and leaves exactly the continuation. -/
@[instance]
theorem c16_BlockExtra_roundtrip : Lawful blockExtra := by
  unfold blockExtra
  infer_instance

/-- `Block`: decoding what the spec encoder wrote for ANY value, followed by ANY continuation bits and refs, returns that
    value (every field, unsigned stays unsigned) and leaves exactly the continuation. -/
@[instance]
theorem c16_Block_roundtrip : Lawful block := by
  unfold block
  infer_instance

/-- `LibDescr` -/
@[instance]
theorem c16_LibDescr_roundtrip : Lawful libDescr := by unfold libDescr; infer_instance

/-- `ShardStateUnsplit` fields -/
@[instance]
theorem c16_ShardStateUnsplitBody_roundtrip : Lawful shardStateUnsplitBody := by unfold shardStateUnsplitBody; infer_instance

/-- `ShardStateUnsplit` -/
@[instance]
theorem c16_ShardStateUnsplit_roundtrip : Lawful shardStateUnsplit := by unfold shardStateUnsplit; infer_instance

/-- `ShardState` (unsplit | split_state) -/
@[instance]
theorem c16_ShardState_roundtrip : Lawful shardState := by unfold shardState shardStateAlts; infer_instance


/-! ### the read trace is an exact read script of the encoding (trace tie, see design/C16.md)

`Traced T` : for every value `v` that the spec encoder writes as `f`, the read trace `T.trace v` — the sequence of typed
reads (kind, width), reference entries/exits and raw references that the harness compares with the reads the library's
parser performs — replayed on `f` followed by any continuation consumes exactly `f`: the widths of the reads of each
cell add up to that cell's bits, every `enter` finds an ordinary cell, every entered cell is exhausted at its `leave`. -/

/-- The trace is not an unverified side channel: replaying `c.trace v` as a read script on the encoding of `v` (followed by
    any trailer `k`, inside any stack `st` of enclosing cells) succeeds and leaves exactly the trailer. -/
theorem c16_trace_accounts_for_encoding (c : Codec) [h : Traced c] (v : Val) (f : Frag) (he : c.enc v = some f)
    (k : Frag) (st : List Frag) : replay (c.trace v) ((f ++ k) :: st) = some (k :: st) :=
  h.law v f he k st

/-- non-vacuity: the trace of a concrete TrStoragePhase value (Grams = VarUInteger 16 with a 4-bit length prefix, a Maybe bit,
    a 2-bit tag), literally -/
example : trStoragePhase.trace (.record [("storage_fees_collected", .int 1000), ("storage_fees_due", .unit),
    ("status_change", .con "acst_frozen" .unit)]) =
    [.push "storage_fees_collected", .rd "v4" 20, .pop, .push "storage_fees_due", .rd "c" 1, .pop,
     .push "status_change", .rd "c" 2, .push "$acst_frozen", .pop, .pop] := by decide

/-- … replayed on its 23-bit encoding followed by a 2-bit trailer it leaves exactly the trailer -/
example : (replay [.push "storage_fees_collected", .rd "v4" 20, .pop, .push "storage_fees_due", .rd "c" 1, .pop,
     .push "status_change", .rd "c" 2, .push "$acst_frozen", .pop, .pop]
    [⟨[false,false,true,false, false,false,false,false,false,false,true,true, true,true,true,false,true,false,false,false,
       false, true,false, true, true], []⟩]).map (·.map (·.bits)) = some [[true, true]] := by decide

/-- … and the replay is discriminating: a script that reads one bit less does NOT leave the trailer -/
example : (replay [.rd "v4" 19, .rd "c" 1, .rd "c" 2]
    [⟨[false,false,true,false, false,false,false,false,false,false,true,true, true,true,true,false,true,false,false,false,
       false, true,false, true, true], []⟩]).map (·.map (·.bits)) ≠ some [[true, true]] := by decide

/-- a reference: the trace of a ShardAccount with `account_none` enters the referenced cell, reads its 1-bit tag and leaves it
    exhausted; replay fails if the cell had a second bit -/
example : shardAccount.trace (.record [("account", .con "account_none" .unit), ("last_trans_hash", .bits (List.replicate 256 true)),
    ("last_trans_lt", .int 5)]) =
    [.push "account", .enter, .rd "c" 1, .push "$account_none", .pop, .leave, .pop,
     .push "last_trans_hash", .rd "b" 256, .pop, .push "last_trans_lt", .rd "u" 64, .pop] := by decide
example : (replay [.enter, .rd "c" 1, .leave] [⟨[], [Cell.mk false [false, true] []]⟩]).isNone = true := by decide

/-- read trace of `bits256` = exact read script of its encoding -/
@[instance]
theorem c16_bits256_traced : Traced bits256 := by unfold bits256; infer_instance

/-- read trace of `msgAddressExt` = exact read script of its encoding -/
@[instance]
theorem c16_MsgAddressExt_traced : Traced msgAddressExt := by
  unfold msgAddressExt msgAddressExtAlts addrNoneAlt addrExternAlt
  infer_instance

/-- read trace of `msgAddressInt` = exact read script of its encoding -/
@[instance]
theorem c16_MsgAddressInt_traced : Traced msgAddressInt := by
  unfold msgAddressInt msgAddressIntAlts addrStdAlt addrVarAlt anycast
  infer_instance

/-- read trace of `extraCurrencyCollection` = exact read script of its encoding -/
@[instance]
theorem c16_ExtraCurrencyCollection_traced : Traced extraCurrencyCollection := by
  unfold extraCurrencyCollection
  infer_instance

/-- read trace of `currencyCollection` = exact read script of its encoding -/
@[instance]
theorem c16_CurrencyCollection_traced : Traced currencyCollection := by
  unfold currencyCollection
  infer_instance

/-- read trace of `commonMsgInfo` = exact read script of its encoding -/
@[instance]
theorem c16_CommonMsgInfo_traced : Traced commonMsgInfo := by
  unfold commonMsgInfo commonMsgInfoAlts
  infer_instance

/-- read trace of `tickTock` = exact read script of its encoding -/
@[instance]
theorem c16_TickTock_traced : Traced tickTock := by
  unfold tickTock
  infer_instance

/-- read trace of `stateInit` = exact read script of its encoding -/
@[instance]
theorem c16_StateInit_traced : Traced stateInit := by
  unfold stateInit
  infer_instance

/-- read trace of `accountStatus` = exact read script of its encoding -/
@[instance]
theorem c16_AccountStatus_traced : Traced accountStatus := by
  unfold accountStatus accountStatusAlts
  infer_instance

/-- read trace of `hashUpdate` = exact read script of its encoding -/
@[instance]
theorem c16_HashUpdate_traced : Traced hashUpdate := by
  unfold hashUpdate
  infer_instance

/-- read trace of `storageUsed` = exact read script of its encoding -/
@[instance]
theorem c16_StorageUsed_traced : Traced storageUsed := by
  unfold storageUsed
  infer_instance

/-- read trace of `storageUsedShort` = exact read script of its encoding -/
@[instance]
theorem c16_StorageUsedShort_traced : Traced storageUsedShort := by
  unfold storageUsedShort
  infer_instance

/-- read trace of `storageInfo` = exact read script of its encoding -/
@[instance]
theorem c16_StorageInfo_traced : Traced storageInfo := by
  unfold storageInfo
  infer_instance

/-- read trace of `accountState` = exact read script of its encoding -/
@[instance]
theorem c16_AccountState_traced : Traced accountState := by
  unfold accountState accountStateAlts
  infer_instance

/-- read trace of `accountStorage` = exact read script of its encoding -/
@[instance]
theorem c16_AccountStorage_traced : Traced accountStorage := by
  unfold accountStorage
  infer_instance

/-- read trace of `account` = exact read script of its encoding -/
@[instance]
theorem c16_Account_traced : Traced account := by
  unfold account accountAlts
  infer_instance

/-- read trace of `shardAccount` = exact read script of its encoding -/
@[instance]
theorem c16_ShardAccount_traced : Traced shardAccount := by
  unfold shardAccount
  infer_instance

/-- read trace of `depthBalanceInfo` = exact read script of its encoding -/
@[instance]
theorem c16_DepthBalanceInfo_traced : Traced depthBalanceInfo := by
  unfold depthBalanceInfo
  infer_instance

/-- read trace of `shardAccounts` = exact read script of its encoding -/
@[instance]
theorem c16_ShardAccounts_traced : Traced shardAccounts := by
  unfold shardAccounts
  infer_instance

/-- read trace of `accStatusChange` = exact read script of its encoding -/
@[instance]
theorem c16_AccStatusChange_traced : Traced accStatusChange := by
  unfold accStatusChange accStatusChangeAlts
  infer_instance

/-- read trace of `computeSkipReason` = exact read script of its encoding -/
@[instance]
theorem c16_ComputeSkipReason_traced : Traced computeSkipReason := by
  unfold computeSkipReason computeSkipReasonAlts
  infer_instance

/-- read trace of `trStoragePhase` = exact read script of its encoding -/
@[instance]
theorem c16_TrStoragePhase_traced : Traced trStoragePhase := by
  unfold trStoragePhase
  infer_instance

/-- read trace of `trCreditPhase` = exact read script of its encoding -/
@[instance]
theorem c16_TrCreditPhase_traced : Traced trCreditPhase := by
  unfold trCreditPhase
  infer_instance

/-- read trace of `trComputePhase` = exact read script of its encoding -/
@[instance]
theorem c16_TrComputePhase_traced : Traced trComputePhase := by
  unfold trComputePhase trComputePhaseAlts
  infer_instance

/-- read trace of `trActionPhase` = exact read script of its encoding -/
@[instance]
theorem c16_TrActionPhase_traced : Traced trActionPhase := by
  unfold trActionPhase
  infer_instance

/-- read trace of `trBouncePhase` = exact read script of its encoding -/
@[instance]
theorem c16_TrBouncePhase_traced : Traced trBouncePhase := by
  unfold trBouncePhase trBouncePhaseAlts
  infer_instance

/-- read trace of `splitMergeInfo` = exact read script of its encoding -/
@[instance]
theorem c16_SplitMergeInfo_traced : Traced splitMergeInfo := by
  unfold splitMergeInfo
  infer_instance

/-- read trace of `extBlkRef` = exact read script of its encoding -/
@[instance]
theorem c16_ExtBlkRef_traced : Traced extBlkRef := by
  unfold extBlkRef
  infer_instance

/-- read trace of `message` = exact read script of its encoding -/
@[instance]
theorem c16_Message_traced : Traced message := by
  unfold message
  infer_instance

/-- read trace of `(transactionDescrF tx)` = exact read script of its encoding -/
@[instance]
theorem c16_TransactionDescrF_traced (tx : Codec) [Traced tx] : Traced (transactionDescrF tx) := by
  unfold transactionDescrF transactionDescrFAlts
  infer_instance

/-- read trace of `Transaction`, every nesting budget -/
@[instance]
theorem c16_Transaction_traced_any_budget : ∀ budget, Traced (transactionF budget)
  | 0 => by unfold transactionF; infer_instance
  | budget+1 => by
    have ih := c16_Transaction_traced_any_budget budget
    unfold transactionF
    infer_instance

/-- read trace of `transaction` = exact read script of its encoding -/
@[instance]
theorem c16_Transaction_traced : Traced transaction := by unfold transaction; infer_instance

/-- read trace of `transactionDescr` = exact read script of its encoding -/
@[instance]
theorem c16_TransactionDescr_traced : Traced transactionDescr := by unfold transactionDescr; infer_instance

/-- read trace of `(blkPrevInfo m)` = exact read script of its encoding -/
@[instance]
theorem c16_BlkPrevInfo_traced (m : Nat) : Traced (blkPrevInfo m) := by
  unfold blkPrevInfo
  infer_instance

/-- read trace of `accountBlock` = exact read script of its encoding -/
@[instance]
theorem c16_AccountBlock_traced : Traced accountBlock := by
  unfold accountBlock
  infer_instance

/-- read trace of `shardAccountBlocks` = exact read script of its encoding -/
@[instance]
theorem c16_ShardAccountBlocks_traced : Traced shardAccountBlocks := by
  unfold shardAccountBlocks
  infer_instance

/-- read trace of `intermediateAddress` = exact read script of its encoding -/
@[instance]
theorem c16_IntermediateAddress_traced : Traced intermediateAddress := by
  unfold intermediateAddress intermediateAddressAlts
  infer_instance

/-- read trace of `msgMetadata` = exact read script of its encoding -/
@[instance]
theorem c16_MsgMetadata_traced : Traced msgMetadata := by
  unfold msgMetadata
  infer_instance

/-- read trace of `msgEnvelope` = exact read script of its encoding -/
@[instance]
theorem c16_MsgEnvelope_traced : Traced msgEnvelope := by
  unfold msgEnvelope msgEnvelopeAlts
  infer_instance

/-- read trace of `inMsg` = exact read script of its encoding -/
@[instance]
theorem c16_InMsg_traced : Traced inMsg := by
  unfold inMsg inMsgAlts
  infer_instance

/-- read trace of `importFees` = exact read script of its encoding -/
@[instance]
theorem c16_ImportFees_traced : Traced importFees := by
  unfold importFees
  infer_instance

/-- read trace of `outMsg` = exact read script of its encoding -/
@[instance]
theorem c16_OutMsg_traced : Traced outMsg := by
  unfold outMsg outMsgAlts
  infer_instance

/-- read trace of `inMsgDescr` = exact read script of its encoding -/
@[instance]
theorem c16_InMsgDescr_traced : Traced inMsgDescr := by
  unfold inMsgDescr
  infer_instance

/-- read trace of `outMsgDescr` = exact read script of its encoding -/
@[instance]
theorem c16_OutMsgDescr_traced : Traced outMsgDescr := by
  unfold outMsgDescr
  infer_instance

/-- read trace of `shardIdent` = exact read script of its encoding -/
@[instance]
theorem c16_ShardIdent_traced : Traced shardIdent := by
  unfold shardIdent
  infer_instance

/-- read trace of `globalVersion` = exact read script of its encoding -/
@[instance]
theorem c16_GlobalVersion_traced : Traced globalVersion := by
  unfold globalVersion
  infer_instance

/-- read trace of `blkMasterInfo` = exact read script of its encoding -/
@[instance]
theorem c16_BlkMasterInfo_traced : Traced blkMasterInfo := by
  unfold blkMasterInfo
  infer_instance

/-- read trace of `blockInfo` = exact read script of its encoding -/
@[instance]
theorem c16_BlockInfo_traced : Traced blockInfo := by
  unfold blockInfo
  infer_instance

/-- read trace of `valueFlowIn` = exact read script of its encoding -/
@[instance]
theorem c16_ValueFlowIn_traced : Traced valueFlowIn := by
  unfold valueFlowIn
  infer_instance

/-- read trace of `valueFlowOut` = exact read script of its encoding -/
@[instance]
theorem c16_ValueFlowOut_traced : Traced valueFlowOut := by
  unfold valueFlowOut
  infer_instance

/-- read trace of `valueFlow` = exact read script of its encoding -/
@[instance]
theorem c16_ValueFlow_traced : Traced valueFlow := by
  unfold valueFlow valueFlowAlts
  infer_instance

/-- read trace of `futureSplitMerge` = exact read script of its encoding -/
@[instance]
theorem c16_FutureSplitMerge_traced : Traced futureSplitMerge := by
  unfold futureSplitMerge futureSplitMergeAlts
  infer_instance

/-- read trace of `shardDescr` = exact read script of its encoding -/
@[instance]
theorem c16_ShardDescr_traced : Traced shardDescr := by
  unfold shardDescr shardDescrAlts shardDescrHead
  simp only [List.cons_append, List.nil_append]
  infer_instance

/-- read trace of `shardHashes` = exact read script of its encoding -/
@[instance]
theorem c16_ShardHashes_traced : Traced shardHashes := by
  unfold shardHashes
  infer_instance

/-- read trace of `sigPubKey` = exact read script of its encoding -/
@[instance]
theorem c16_SigPubKey_traced : Traced sigPubKey := by
  unfold sigPubKey
  infer_instance

/-- read trace of `validatorDescr` = exact read script of its encoding -/
@[instance]
theorem c16_ValidatorDescr_traced : Traced validatorDescr := by
  unfold validatorDescr validatorDescrAlts
  infer_instance

/-- read trace of `validatorSet` = exact read script of its encoding -/
@[instance]
theorem c16_ValidatorSet_traced : Traced validatorSet := by
  unfold validatorSet validatorSetAlts
  infer_instance

/-- read trace of `catchainConfig` = exact read script of its encoding -/
@[instance]
theorem c16_CatchainConfig_traced : Traced catchainConfig := by
  unfold catchainConfig catchainConfigAlts
  infer_instance

/-- read trace of `consensusConfig` = exact read script of its encoding -/
@[instance]
theorem c16_ConsensusConfig_traced : Traced consensusConfig := by
  unfold consensusConfig consensusConfigAlts consensusNewHead consensusTail
  simp only [List.cons_append, List.nil_append]
  infer_instance

/-- read trace of `validatorInfo` = exact read script of its encoding -/
@[instance]
theorem c16_ValidatorInfo_traced : Traced validatorInfo := by
  unfold validatorInfo
  infer_instance

/-- read trace of `keyExtBlkRef` = exact read script of its encoding -/
@[instance]
theorem c16_KeyExtBlkRef_traced : Traced keyExtBlkRef := by
  unfold keyExtBlkRef
  infer_instance

/-- read trace of `keyMaxLt` = exact read script of its encoding -/
@[instance]
theorem c16_KeyMaxLt_traced : Traced keyMaxLt := by
  unfold keyMaxLt
  infer_instance

/-- read trace of `oldMcBlocksInfo` = exact read script of its encoding -/
@[instance]
theorem c16_OldMcBlocksInfo_traced : Traced oldMcBlocksInfo := by
  unfold oldMcBlocksInfo
  infer_instance

/-- read trace of `counters` = exact read script of its encoding -/
@[instance]
theorem c16_Counters_traced : Traced counters := by
  unfold counters
  infer_instance

/-- read trace of `creatorStats` = exact read script of its encoding -/
@[instance]
theorem c16_CreatorStats_traced : Traced creatorStats := by
  unfold creatorStats
  infer_instance

/-- read trace of `blockCreateStats` = exact read script of its encoding -/
@[instance]
theorem c16_BlockCreateStats_traced : Traced blockCreateStats := by
  unfold blockCreateStats blockCreateStatsAlts
  infer_instance

/-- read trace of `configParams` = exact read script of its encoding -/
@[instance]
theorem c16_ConfigParams_traced : Traced configParams := by
  unfold configParams
  infer_instance

/-- read trace of `mcStateExtra` = exact read script of its encoding -/
@[instance]
theorem c16_McStateExtra_traced : Traced mcStateExtra := by
  unfold mcStateExtra
  infer_instance

/-- read trace of `shardFeeCreated` = exact read script of its encoding -/
@[instance]
theorem c16_ShardFeeCreated_traced : Traced shardFeeCreated := by unfold shardFeeCreated; infer_instance

/-- read trace of `shardFees` = exact read script of its encoding -/
@[instance]
theorem c16_ShardFees_traced : Traced shardFees := by unfold shardFees; infer_instance

/-- read trace of `cryptoSignaturePair` = exact read script of its encoding -/
@[instance]
theorem c16_CryptoSignaturePair_traced : Traced cryptoSignaturePair := by unfold cryptoSignaturePair; infer_instance

/-- read trace of `mcBlockExtra` = exact read script of its encoding -/
@[instance]
theorem c16_McBlockExtra_traced : Traced mcBlockExtra := by
  unfold mcBlockExtra
  infer_instance

/-- read trace of `blockExtra` = exact read script of its encoding -/
@[instance]
theorem c16_BlockExtra_traced : Traced blockExtra := by
  unfold blockExtra
  infer_instance

/-- read trace of `block` = exact read script of its encoding -/
@[instance]
theorem c16_Block_traced : Traced block := by
  unfold block
  infer_instance

/-- read trace of `libDescr` = exact read script of its encoding -/
@[instance]
theorem c16_LibDescr_traced : Traced libDescr := by unfold libDescr; infer_instance

/-- read trace of `shardStateUnsplitBody` = exact read script of its encoding -/
@[instance]
theorem c16_ShardStateUnsplitBody_traced : Traced shardStateUnsplitBody := by unfold shardStateUnsplitBody; infer_instance

/-- read trace of `shardStateUnsplit` = exact read script of its encoding -/
@[instance]
theorem c16_ShardStateUnsplit_traced : Traced shardStateUnsplit := by unfold shardStateUnsplit; infer_instance

/-- read trace of `shardState` = exact read script of its encoding -/
@[instance]
theorem c16_ShardState_traced : Traced shardState := by unfold shardState shardStateAlts; infer_instance

/-- The spec encoding is unambiguous: two values with the same encoding (bits and refs) are the same value — so
    "the field values an independent decoder reads" from an encoding are uniquely determined. -/
theorem c16_enc_injective (c : Codec) [h : Lawful c] (v₁ v₂ : Val) (f : Frag)
    (h₁ : c.enc v₁ = some f) (h₂ : c.enc v₂ = some f) : v₁ = v₂ := by
  have a := h.law v₁ f h₁ Frag.nil
  have b := h.law v₂ f h₂ Frag.nil
  rw [a] at b
  injection b with b
  injection b

/-- non-vacuity of `c16_enc_injective`'s hypotheses: two different ShardIdent values have different encodings -/
example : shardIdent.enc (.record [("shard_pfx_bits", .int 3), ("workchain_id", .int (-1)), ("shard_prefix", .int 5)]) ≠
    shardIdent.enc (.record [("shard_pfx_bits", .int 3), ("workchain_id", .int 0), ("shard_prefix", .int 5)]) := by
  intro h
  have h' := congrArg (fun o => o.map (·.bits)) h
  revert h'
  decide

/-! ### non-vacuity: concrete values meet the hypothesis `enc v = some _` (and decode back, trailer left over) -/

/-- ShardIdent: a concrete value is encodable -/
example : (shardIdent.enc (.record [("shard_pfx_bits", .int 3), ("workchain_id", .int (-1)), ("shard_prefix", .int 5)])).isSome = true := by
  decide

/-- TrStoragePhase (Grams, Maybe, tagged AccStatusChange): the exact bits, … -/
example : (trStoragePhase.enc (.record [("storage_fees_collected", .int 1000), ("storage_fees_due", .unit),
    ("status_change", .con "acst_frozen" .unit)])).map (·.bits) =
    some [false,false,true,false, false,false,false,false,false,false,true,true, true,true,true,false,true,false,false,false,
          false, true,false] := by decide

/-- … and decoding them with a 2-bit trailer leaves exactly the trailer -/
example : (trStoragePhase.dec ⟨[false,false,true,false, false,false,false,false,false,false,true,true,
    true,true,true,false,true,false,false,false, false, true,false, true, true], []⟩).map (·.2.bits) = some [true, true] := by decide

/-- ShardAccount (a `^Account` reference): encodable, one reference -/
example : (shardAccount.enc (.record [("account", .con "account_none" .unit), ("last_trans_hash", .bits (List.replicate 256 true)),
    ("last_trans_lt", .int (2 ^ 63 + 5))])).map (·.refs.length) = some 1 := by decide +kernel

/-- ValidatorSet `validators#11` with a one-entry inline Hashmap 16 -/
example : (validatorSet.enc (.con "validators" (.record [("utime_since", .int 1), ("utime_until", .int 2), ("total", .int 1), ("main", .int 1),
    ("list", .record [("label", .con "hml_long" (.record [("n", .int 16), ("s", .bits (List.replicate 16 false))])),
      ("node", .con "validator" (.record [("public_key", .record [("pubkey", .bits (List.replicate 256 false))]), ("weight", .int 7)]))])]))).isSome
    = true := by decide +kernel

/-- BlkPrevInfo 1 (two references) and FutureSplitMerge -/
example : (futureSplitMerge.enc (.con "fsm_merge" (.record [("merge_utime", .int 5), ("interval", .int 6)]))).map (·.bits.length) = some 66 := by
  decide

/-- No constructor tag of any covered type is a prefix of another tag of the same type, so `tagged` is a genuine
    codec for each of them (never the empty type). -/
theorem c16_tags_prefix_free : allTagLists.all (fun p => prefixFree p.2) = true := by decide

/-! ## Source tie: the REGENERATED Python parsers (`c16_src_*`)

`Src.<Class>` (Generated/TlbParsers.lean) is regenerated on every run from the `deserialize` classmethod of the class in
`pytoniq_core/tlb/*.py` (harness/translate/tlbparsers.py), written with the hand model of the `Slice` methods
(Model/TlbRd.lean); `view_<Class>` (Spec/Tlb/PyView.lean) is the declared interface: which schema field arrives in which
constructor argument of the returned object.  Each theorem below is, for ALL values `v` of the block.tlb type:

    T.enc v = some f  →  ∀ k,  Src.<Class> false (f ++ k) = some (view_<Class> v, k)

the parser as it is in the working tree, run on the spec encoding of `v` followed by ANY trailer `k` (bits and refs) in an
ordinary cell, returns every field with its encoded value (modulo the declared view) and leaves exactly the trailer.
It follows from `refines_<Class>` (Proofs/SrcTlbParsers.lean: the reader agrees with the spec decoder wherever the spec
decoder accepts) and the round-trip law above.  Nothing is claimed for slices that are not valid encodings (the parsers
are laxer than the spec decoder there). -/

/-- `HashUpdate.deserialize`, regenerated from the source: on the spec encoding of ANY `HashUpdate` value followed by ANY trailer it
    returns every field with its encoded value (view `view_HashUpdate`) and consumes exactly the encoded bits and refs. -/
theorem c16_src_HashUpdate (v : Val) (f : Frag) (he : hashUpdate.enc v = some f) (k : Frag) :
    Src.HashUpdate false (f ++ k) = some (view_HashUpdate v, k) :=
  refines_HashUpdate.on_encoding v f he k

/-- `TickTock.deserialize`, regenerated from the source: on the spec encoding of ANY `TickTock` value followed by ANY trailer it
    returns every field with its encoded value (view `view_TickTock`) and consumes exactly the encoded bits and refs. -/
theorem c16_src_TickTock (v : Val) (f : Frag) (he : tickTock.enc v = some f) (k : Frag) :
    Src.TickTock false (f ++ k) = some (view_TickTock v, k) :=
  refines_TickTock.on_encoding v f he k

/-- `StorageUsed.deserialize`, regenerated from the source: on the spec encoding of ANY `StorageUsed` value followed by ANY trailer it
    returns every field with its encoded value (view `view_StorageUsed`) and consumes exactly the encoded bits and refs. -/
theorem c16_src_StorageUsed (v : Val) (f : Frag) (he : storageUsed.enc v = some f) (k : Frag) :
    Src.StorageUsed false (f ++ k) = some (view_StorageUsed v, k) :=
  refines_StorageUsed.on_encoding v f he k

/-- `StorageUsedShort.deserialize`, regenerated from the source: on the spec encoding of ANY `StorageUsedShort` value followed by ANY trailer it
    returns every field with its encoded value (view `view_StorageUsedShort`) and consumes exactly the encoded bits and refs. -/
theorem c16_src_StorageUsedShort (v : Val) (f : Frag) (he : storageUsedShort.enc v = some f) (k : Frag) :
    Src.StorageUsedShort false (f ++ k) = some (view_StorageUsedShort v, k) :=
  refines_StorageUsedShort.on_encoding v f he k

/-- `StorageInfo.deserialize`, regenerated from the source: on the spec encoding of ANY `StorageInfo` value followed by ANY trailer it
    returns every field with its encoded value (view `view_StorageInfo`) and consumes exactly the encoded bits and refs. -/
theorem c16_src_StorageInfo (v : Val) (f : Frag) (he : storageInfo.enc v = some f) (k : Frag) :
    Src.StorageInfo false (f ++ k) = some (view_StorageInfo v, k) :=
  refines_StorageInfo.on_encoding v f he k

/-- `AccountStatus.deserialize`, regenerated from the source: on the spec encoding of ANY `AccountStatus` value followed by ANY trailer it
    returns every field with its encoded value (view `view_AccountStatus`) and consumes exactly the encoded bits and refs. -/
theorem c16_src_AccountStatus (v : Val) (f : Frag) (he : accountStatus.enc v = some f) (k : Frag) :
    Src.AccountStatus false (f ++ k) = some (view_AccountStatus v, k) :=
  refines_AccountStatus.on_encoding v f he k

/-- `StateInit.deserialize`, regenerated from the source: on the spec encoding of ANY `StateInit` value followed by ANY trailer it
    returns every field with its encoded value (view `view_StateInit`) and consumes exactly the encoded bits and refs. -/
theorem c16_src_StateInit (v : Val) (f : Frag) (he : stateInit.enc v = some f) (k : Frag) :
    Src.StateInit false (f ++ k) = some (view_StateInit v, k) :=
  refines_StateInit.on_encoding v f he k

/-- `AccountState.deserialize`, regenerated from the source: on the spec encoding of ANY `AccountState` value followed by ANY trailer it
    returns every field with its encoded value (view `view_AccountState`) and consumes exactly the encoded bits and refs. -/
theorem c16_src_AccountState (v : Val) (f : Frag) (he : accountState.enc v = some f) (k : Frag) :
    Src.AccountState false (f ++ k) = some (view_AccountState v, k) :=
  refines_AccountState.on_encoding v f he k

/-- `ExtBlkRef.deserialize`, regenerated from the source: on the spec encoding of ANY `ExtBlkRef` value followed by ANY trailer it
    returns every field with its encoded value (view `view_ExtBlkRef`) and consumes exactly the encoded bits and refs. -/
theorem c16_src_ExtBlkRef (v : Val) (f : Frag) (he : extBlkRef.enc v = some f) (k : Frag) :
    Src.ExtBlkRef false (f ++ k) = some (view_ExtBlkRef v, k) :=
  refines_ExtBlkRef.on_encoding v f he k

/-- `BlkMasterInfo.deserialize`, regenerated from the source: on the spec encoding of ANY `BlkMasterInfo` value followed by ANY trailer it
    returns every field with its encoded value (view `view_BlkMasterInfo`) and consumes exactly the encoded bits and refs. -/
theorem c16_src_BlkMasterInfo (v : Val) (f : Frag) (he : blkMasterInfo.enc v = some f) (k : Frag) :
    Src.BlkMasterInfo false (f ++ k) = some (view_BlkMasterInfo v, k) :=
  refines_BlkMasterInfo.on_encoding v f he k

/-- `KeyExtBlkRef.deserialize`, regenerated from the source: on the spec encoding of ANY `KeyExtBlkRef` value followed by ANY trailer it
    returns every field with its encoded value (view `view_KeyExtBlkRef`) and consumes exactly the encoded bits and refs. -/
theorem c16_src_KeyExtBlkRef (v : Val) (f : Frag) (he : keyExtBlkRef.enc v = some f) (k : Frag) :
    Src.KeyExtBlkRef false (f ++ k) = some (view_KeyExtBlkRef v, k) :=
  refines_KeyExtBlkRef.on_encoding v f he k

/-- `KeyMaxLt.deserialize`, regenerated from the source: on the spec encoding of ANY `KeyMaxLt` value followed by ANY trailer it
    returns every field with its encoded value (view `view_KeyMaxLt`) and consumes exactly the encoded bits and refs. -/
theorem c16_src_KeyMaxLt (v : Val) (f : Frag) (he : keyMaxLt.enc v = some f) (k : Frag) :
    Src.KeyMaxLt false (f ++ k) = some (view_KeyMaxLt v, k) :=
  refines_KeyMaxLt.on_encoding v f he k

/-- `Counters.deserialize`, regenerated from the source: on the spec encoding of ANY `Counters` value followed by ANY trailer it
    returns every field with its encoded value (view `view_Counters`) and consumes exactly the encoded bits and refs. -/
theorem c16_src_Counters (v : Val) (f : Frag) (he : counters.enc v = some f) (k : Frag) :
    Src.Counters false (f ++ k) = some (view_Counters v, k) :=
  refines_Counters.on_encoding v f he k

/-- `CreatorStats.deserialize`, regenerated from the source: on the spec encoding of ANY `CreatorStats` value followed by ANY trailer it
    returns every field with its encoded value (view `view_CreatorStats`) and consumes exactly the encoded bits and refs. -/
theorem c16_src_CreatorStats (v : Val) (f : Frag) (he : creatorStats.enc v = some f) (k : Frag) :
    Src.CreatorStats false (f ++ k) = some (view_CreatorStats v, k) :=
  refines_CreatorStats.on_encoding v f he k

/-- `ValidatorInfo.deserialize`, regenerated from the source: on the spec encoding of ANY `ValidatorInfo` value followed by ANY trailer it
    returns every field with its encoded value (view `view_ValidatorInfo`) and consumes exactly the encoded bits and refs. -/
theorem c16_src_ValidatorInfo (v : Val) (f : Frag) (he : validatorInfo.enc v = some f) (k : Frag) :
    Src.ValidatorInfo false (f ++ k) = some (view_ValidatorInfo v, k) :=
  refines_ValidatorInfo.on_encoding v f he k

/-- `ShardIdent.deserialize`, regenerated from the source: on the spec encoding of ANY `ShardIdent` value followed by ANY trailer it
    returns every field with its encoded value (view `view_ShardIdent`) and consumes exactly the encoded bits and refs. -/
theorem c16_src_ShardIdent (v : Val) (f : Frag) (he : shardIdent.enc v = some f) (k : Frag) :
    Src.ShardIdent false (f ++ k) = some (view_ShardIdent v, k) :=
  refines_ShardIdent.on_encoding v f he k

/-- `GlobalVersion.deserialize`, regenerated from the source: on the spec encoding of ANY `GlobalVersion` value followed by ANY trailer it
    returns every field with its encoded value (view `view_GlobalVersion`) and consumes exactly the encoded bits and refs. -/
theorem c16_src_GlobalVersion (v : Val) (f : Frag) (he : globalVersion.enc v = some f) (k : Frag) :
    Src.GlobalVersion false (f ++ k) = some (view_GlobalVersion v, k) :=
  refines_GlobalVersion.on_encoding v f he k

/-- `SplitMergeInfo.deserialize`, regenerated from the source: on the spec encoding of ANY `SplitMergeInfo` value followed by ANY trailer it
    returns every field with its encoded value (view `view_SplitMergeInfo`) and consumes exactly the encoded bits and refs. -/
theorem c16_src_SplitMergeInfo (v : Val) (f : Frag) (he : splitMergeInfo.enc v = some f) (k : Frag) :
    Src.SplitMergeInfo false (f ++ k) = some (view_SplitMergeInfo v, k) :=
  refines_SplitMergeInfo.on_encoding v f he k

/-- `SigPubKey.deserialize`, regenerated from the source: on the spec encoding of ANY `SigPubKey` value followed by ANY trailer it
    returns every field with its encoded value (view `view_SigPubKey`) and consumes exactly the encoded bits and refs. -/
theorem c16_src_SigPubKey (v : Val) (f : Frag) (he : sigPubKey.enc v = some f) (k : Frag) :
    Src.SigPubKey false (f ++ k) = some (view_SigPubKey v, k) :=
  refines_SigPubKey.on_encoding v f he k

/-- `AccStatusChange.deserialize`, regenerated from the source: on the spec encoding of ANY `AccStatusChange` value followed by ANY trailer it
    returns every field with its encoded value (view `view_AccStatusChange`) and consumes exactly the encoded bits and refs. -/
theorem c16_src_AccStatusChange (v : Val) (f : Frag) (he : accStatusChange.enc v = some f) (k : Frag) :
    Src.AccStatusChange false (f ++ k) = some (view_AccStatusChange v, k) :=
  refines_AccStatusChange.on_encoding v f he k

/-- `ComputeSkipReason.deserialize`, regenerated from the source: on the spec encoding of ANY `ComputeSkipReason` value followed by ANY trailer it
    returns every field with its encoded value (view `view_ComputeSkipReason`) and consumes exactly the encoded bits and refs. -/
theorem c16_src_ComputeSkipReason (v : Val) (f : Frag) (he : computeSkipReason.enc v = some f) (k : Frag) :
    Src.ComputeSkipReason false (f ++ k) = some (view_ComputeSkipReason v, k) :=
  refines_ComputeSkipReason.on_encoding v f he k

/-- `TrStoragePhase.deserialize`, regenerated from the source: on the spec encoding of ANY `TrStoragePhase` value followed by ANY trailer it
    returns every field with its encoded value (view `view_TrStoragePhase`) and consumes exactly the encoded bits and refs. -/
theorem c16_src_TrStoragePhase (v : Val) (f : Frag) (he : trStoragePhase.enc v = some f) (k : Frag) :
    Src.TrStoragePhase false (f ++ k) = some (view_TrStoragePhase v, k) :=
  refines_TrStoragePhase.on_encoding v f he k

/-- `TrComputePhase.deserialize`, regenerated from the source: on the spec encoding of ANY `TrComputePhase` value followed by ANY trailer it
    returns every field with its encoded value (view `view_TrComputePhase`) and consumes exactly the encoded bits and refs. -/
theorem c16_src_TrComputePhase (v : Val) (f : Frag) (he : trComputePhase.enc v = some f) (k : Frag) :
    Src.TrComputePhase false (f ++ k) = some (view_TrComputePhase v, k) :=
  refines_TrComputePhase.on_encoding v f he k

/-- `TrBouncePhase.deserialize`, regenerated from the source: on the spec encoding of ANY `TrBouncePhase` value followed by ANY trailer it
    returns every field with its encoded value (view `view_TrBouncePhase`) and consumes exactly the encoded bits and refs. -/
theorem c16_src_TrBouncePhase (v : Val) (f : Frag) (he : trBouncePhase.enc v = some f) (k : Frag) :
    Src.TrBouncePhase false (f ++ k) = some (view_TrBouncePhase v, k) :=
  refines_TrBouncePhase.on_encoding v f he k

/-- `FutureSplitMerge.deserialize`, regenerated from the source: on the spec encoding of ANY `FutureSplitMerge` value followed by ANY trailer it
    returns every field with its encoded value (view `view_FutureSplitMerge`) and consumes exactly the encoded bits and refs. -/
theorem c16_src_FutureSplitMerge (v : Val) (f : Frag) (he : futureSplitMerge.enc v = some f) (k : Frag) :
    Src.FutureSplitMerge false (f ++ k) = some (view_FutureSplitMerge v, k) :=
  refines_FutureSplitMerge.on_encoding v f he k

/-- `IntermediateAddress.deserialize`, regenerated from the source: on the spec encoding of ANY `IntermediateAddress` value followed by ANY trailer it
    returns every field with its encoded value (view `view_IntermediateAddress`) and consumes exactly the encoded bits and refs. -/
theorem c16_src_IntermediateAddress (v : Val) (f : Frag) (he : intermediateAddress.enc v = some f) (k : Frag) :
    Src.IntermediateAddress false (f ++ k) = some (view_IntermediateAddress v, k) :=
  refines_IntermediateAddress.on_encoding v f he k

/-- `ValidatorDescr.deserialize`, regenerated from the source: on the spec encoding of ANY `ValidatorDescr` value followed by ANY trailer it
    returns every field with its encoded value (view `view_ValidatorDescr`) and consumes exactly the encoded bits and refs. -/
theorem c16_src_ValidatorDescr (v : Val) (f : Frag) (he : validatorDescr.enc v = some f) (k : Frag) :
    Src.ValidatorDescr false (f ++ k) = some (view_ValidatorDescr v, k) :=
  refines_ValidatorDescr.on_encoding v f he k

/-- `CatchainConfig.deserialize`, regenerated from the source: on the spec encoding of ANY `CatchainConfig` value followed by ANY trailer it
    returns every field with its encoded value (view `view_CatchainConfig`) and consumes exactly the encoded bits and refs. -/
theorem c16_src_CatchainConfig (v : Val) (f : Frag) (he : catchainConfig.enc v = some f) (k : Frag) :
    Src.CatchainConfig false (f ++ k) = some (view_CatchainConfig v, k) :=
  refines_CatchainConfig.on_encoding v f he k

/-- `BlkPrevInfo.deserialize(slice, after_merge)` regenerated from the source, `after_merge = 0` (`prev_blk_info$_`) -/
theorem c16_src_BlkPrevInfo0 (v : Val) (f : Frag) (he : (blkPrevInfo 0).enc v = some f) (k : Frag) :
    Src.BlkPrevInfo false (f ++ k) (.int 0) = some (view_BlkPrevInfo v, k) :=
  refines_BlkPrevInfo0.on_encoding v f he k

/-- `BlkPrevInfo.deserialize(slice, after_merge)` regenerated from the source, `after_merge = 1` (`prev_blks_info$_`, two references) -/
theorem c16_src_BlkPrevInfo1 (v : Val) (f : Frag) (he : (blkPrevInfo 1).enc v = some f) (k : Frag) :
    Src.BlkPrevInfo false (f ++ k) (.int 1) = some (view_BlkPrevInfo v, k) :=
  refines_BlkPrevInfo1.on_encoding v f he k

/-- non-vacuity: a concrete `TickTock` value is encodable, and the regenerated parser reads it back (with a 1-bit trailer) -/
example :
    (tickTock.enc (.record [("tick", .bool true), ("tock", .bool false)])).isSome = true ∧
    Src.TickTock false ⟨[true, false, true], []⟩ =
      some (view_TickTock (.record [("tick", .bool true), ("tock", .bool false)]), ⟨[true], []⟩) := by
  constructor
  · decide +kernel
  · rfl

/-- non-vacuity: `AccountStatus` `acc_state_active$10` followed by a trailer bit -/
example : Src.AccountStatus false ⟨[true, false, true], []⟩ =
    some (Rd.obj "AccountStatus" [("type_", Rd.str "active")], ⟨[true], []⟩) := rfl



/-! ## Source tie, second part: the REGENERATED parsers of tlb/transaction.py (`c16_src_*`, continued)

`SrcTx.<Class>` (Generated/TlbParsersTx.lean) is regenerated on every run by harness/translate/tlbparsers_tx.py; the reader
primitives it adds are Model/TlbRdTx.lean (`Rd.optional`, `Rd.viaRef`, `Rd.loadAddress`, `Rd.loadDict` = Maybe bit + root
reference + Patricia walk, `Rd.dictValuesSorted`), the declared views Spec/Tlb/PyViewTx.lean (namespace `Tx`).  Same statement as
above: on the spec encoding of ANY value followed by ANY trailer the parser of the working tree returns every field with its
encoded value and leaves exactly the trailer.  Where the type contains a `MsgAddressInt`, the hypothesis `v.noVar = true` says
that no `addr_var` address occurs in the value: the library's `load_address` has no `addr_var` (it raises on one), every other
address form is covered.  `Transaction ↔ TransactionDescr` recursion: `SrcTx.Transaction b` is the parser with nesting budget `b`
(Python has none), the spec type is `transactionF b` with the SAME budget; the theorems hold for every `b`. -/

instance : Lawful Tx.transOrd := by unfold Tx.transOrd; infer_instance
instance : Lawful Tx.transStorage := by unfold Tx.transStorage; infer_instance
instance : Lawful Tx.transTickTock := by unfold Tx.transTickTock; infer_instance
instance : Lawful Tx.transSplitPrepare := by unfold Tx.transSplitPrepare; infer_instance
instance : Lawful Tx.transMergePrepare := by unfold Tx.transMergePrepare; infer_instance
instance (tx : Codec) [Lawful tx] : Lawful (Tx.transSplitInstall tx) := by unfold Tx.transSplitInstall; infer_instance
instance (tx : Codec) [Lawful tx] : Lawful (Tx.transMergeInstall tx) := by unfold Tx.transMergeInstall; infer_instance
instance : Lawful Tx.intMsgInfo := by unfold Tx.intMsgInfo; infer_instance
instance : Lawful Tx.extInMsgInfo := by unfold Tx.extInMsgInfo; infer_instance
instance : Lawful Tx.extOutMsgInfo := by unfold Tx.extOutMsgInfo; infer_instance

/-- `CurrencyCollection.deserialize` (tlb/block.py, read through by the transaction parsers; extra-currency dictionary included), regenerated from the source: on the spec encoding of ANY value followed by ANY trailer it returns every field with
    its encoded value (view `Tx.view_CurrencyCollection`) and consumes exactly the encoded bits and refs. -/
theorem c16_src_tx_CurrencyCollection (v : Val) (f : Frag) (he : currencyCollection.enc v = some f) (k : Frag) :
    SrcTx.CurrencyCollection false (f ++ k) = some (Tx.view_CurrencyCollection v, k) :=
  Tx.refines_CurrencyCollection.on_encoding v f he k

/-- `ExtraCurrencyCollection.deserialize` (tlb/block.py): `load_dict(32, load_var_uint(5))` returns `None` / the dict of the `HashmapE 32 (VarUInteger 32)`, regenerated from the source: on the spec encoding of ANY value followed by ANY trailer it returns every field with
    its encoded value (view `Tx.view_ExtraCurrencyCollection`) and consumes exactly the encoded bits and refs. -/
theorem c16_src_tx_ExtraCurrencyCollection (v : Val) (f : Frag) (he : extraCurrencyCollection.enc v = some f) (k : Frag) :
    SrcTx.ExtraCurrencyCollection false (f ++ k) = some (Tx.view_ExtraCurrencyCollection v, k) :=
  Tx.refines_ExtraCurrencyCollection.on_encoding v f he k

/-- `TrActionPhase.deserialize` (14 fields, three `Maybe`), regenerated from the source: on the spec encoding of ANY value followed by ANY trailer it returns every field with
    its encoded value (view `view_TrActionPhase`) and consumes exactly the encoded bits and refs. -/
theorem c16_src_TrActionPhase (v : Val) (f : Frag) (he : trActionPhase.enc v = some f) (k : Frag) :
    SrcTx.TrActionPhase false (f ++ k) = some (view_TrActionPhase v, k) :=
  Tx.refines_TrActionPhase.on_encoding v f he k

/-- `TrCreditPhase.deserialize`, regenerated from the source: on the spec encoding of ANY value followed by ANY trailer it returns every field with
    its encoded value (view `Tx.view_TrCreditPhase`) and consumes exactly the encoded bits and refs. -/
theorem c16_src_TrCreditPhase (v : Val) (f : Frag) (he : trCreditPhase.enc v = some f) (k : Frag) :
    SrcTx.TrCreditPhase false (f ++ k) = some (Tx.view_TrCreditPhase v, k) :=
  Tx.refines_TrCreditPhase.on_encoding v f he k

/-- `ImportFees.deserialize`, regenerated from the source: on the spec encoding of ANY value followed by ANY trailer it returns every field with
    its encoded value (view `Tx.view_ImportFees`) and consumes exactly the encoded bits and refs. -/
theorem c16_src_ImportFees (v : Val) (f : Frag) (he : importFees.enc v = some f) (k : Frag) :
    SrcTx.ImportFees false (f ++ k) = some (Tx.view_ImportFees v, k) :=
  Tx.refines_ImportFees.on_encoding v f he k

/-- `TransactionOrdinary.deserialize` = the body of `trans_ord$0000` (the tag is read by `TransactionDescr.deserialize`), regenerated from the source: on the spec encoding of ANY value followed by ANY trailer it returns every field with
    its encoded value (view `Tx.view_TransactionOrdinary`) and consumes exactly the encoded bits and refs. -/
theorem c16_src_TransactionOrdinary (v : Val) (f : Frag) (he : Tx.transOrd.enc v = some f) (k : Frag) :
    SrcTx.TransactionOrdinary false (f ++ k) = some (Tx.view_TransactionOrdinary v, k) :=
  Tx.refines_TransactionOrdinary.on_encoding v f he k

/-- `TransactionStorage.deserialize` = the body of `trans_storage$0001`, regenerated from the source: on the spec encoding of ANY value followed by ANY trailer it returns every field with
    its encoded value (view `Tx.view_TransactionStorage`) and consumes exactly the encoded bits and refs. -/
theorem c16_src_TransactionStorage (v : Val) (f : Frag) (he : Tx.transStorage.enc v = some f) (k : Frag) :
    SrcTx.TransactionStorage false (f ++ k) = some (Tx.view_TransactionStorage v, k) :=
  Tx.refines_TransactionStorage.on_encoding v f he k

/-- `TransactionTickTock.deserialize` = the body of `trans_tick_tock$001`, regenerated from the source: on the spec encoding of ANY value followed by ANY trailer it returns every field with
    its encoded value (view `Tx.view_TransactionTickTock`) and consumes exactly the encoded bits and refs. -/
theorem c16_src_TransactionTickTock (v : Val) (f : Frag) (he : Tx.transTickTock.enc v = some f) (k : Frag) :
    SrcTx.TransactionTickTock false (f ++ k) = some (Tx.view_TransactionTickTock v, k) :=
  Tx.refines_TransactionTickTock.on_encoding v f he k

/-- `TransactionSplitPrepare.deserialize` = the body of `trans_split_prepare$0100`, regenerated from the source: on the spec encoding of ANY value followed by ANY trailer it returns every field with
    its encoded value (view `Tx.view_TransactionSplitPrepare`) and consumes exactly the encoded bits and refs. -/
theorem c16_src_TransactionSplitPrepare (v : Val) (f : Frag) (he : Tx.transSplitPrepare.enc v = some f) (k : Frag) :
    SrcTx.TransactionSplitPrepare false (f ++ k) = some (Tx.view_TransactionSplitPrepare v, k) :=
  Tx.refines_TransactionSplitPrepare.on_encoding v f he k

/-- `TransactionMergePrepare.deserialize` = the body of `trans_merge_prepare$0110`, regenerated from the source: on the spec encoding of ANY value followed by ANY trailer it returns every field with
    its encoded value (view `Tx.view_TransactionMergePrepare`) and consumes exactly the encoded bits and refs. -/
theorem c16_src_TransactionMergePrepare (v : Val) (f : Frag) (he : Tx.transMergePrepare.enc v = some f) (k : Frag) :
    SrcTx.TransactionMergePrepare false (f ++ k) = some (Tx.view_TransactionMergePrepare v, k) :=
  Tx.refines_TransactionMergePrepare.on_encoding v f he k

/-- `InternalMsgInfo.deserialize` = `int_msg_info$0 …` (reads its own tag; two `load_address`, a CurrencyCollection), regenerated from the source: on the spec encoding of ANY value without an `addr_var` address, followed by ANY trailer,
    it returns every field with its encoded value and consumes exactly the encoded bits and refs. -/
theorem c16_src_InternalMsgInfo (v : Val) (f : Frag) (he : (ctag (tag 1 0) Tx.intMsgInfo).enc v = some f) (hv : v.noVar = true) (k : Frag) :
    SrcTx.InternalMsgInfo false (f ++ k) = some (Tx.view_InternalMsgInfo v, k) :=
  Tx.refines_InternalMsgInfo.on_encoding v f he hv k

/-- `ExternalMsgInfo.deserialize` = `ext_in_msg_info$10 …`, regenerated from the source: on the spec encoding of ANY value without an `addr_var` address, followed by ANY trailer,
    it returns every field with its encoded value and consumes exactly the encoded bits and refs. -/
theorem c16_src_ExternalMsgInfo (v : Val) (f : Frag) (he : (ctag (tag 2 2) Tx.extInMsgInfo).enc v = some f) (hv : v.noVar = true) (k : Frag) :
    SrcTx.ExternalMsgInfo false (f ++ k) = some (Tx.view_ExternalMsgInfo v, k) :=
  Tx.refines_ExternalMsgInfo.on_encoding v f he hv k

/-- `ExternalOutMsgInfo.deserialize` = `ext_out_msg_info$11 …`, regenerated from the source: on the spec encoding of ANY value without an `addr_var` address, followed by ANY trailer,
    it returns every field with its encoded value and consumes exactly the encoded bits and refs. -/
theorem c16_src_ExternalOutMsgInfo (v : Val) (f : Frag) (he : (ctag (tag 2 3) Tx.extOutMsgInfo).enc v = some f) (hv : v.noVar = true) (k : Frag) :
    SrcTx.ExternalOutMsgInfo false (f ++ k) = some (Tx.view_ExternalOutMsgInfo v, k) :=
  Tx.refines_ExternalOutMsgInfo.on_encoding v f he hv k

/-- `CommonMsgInfo.deserialize` (dispatch on `preload_bit` / `preload_bits(2)` to the three info classes), regenerated from the source: on the spec encoding of ANY value without an `addr_var` address, followed by ANY trailer,
    it returns every field with its encoded value and consumes exactly the encoded bits and refs. -/
theorem c16_src_CommonMsgInfo (v : Val) (f : Frag) (he : commonMsgInfo.enc v = some f) (hv : v.noVar = true) (k : Frag) :
    SrcTx.CommonMsgInfo false (f ++ k) = some (Tx.view_CommonMsgInfo v, k) :=
  Tx.refines_CommonMsgInfo.on_encoding v f he hv k

/-- `MsgMetadata.deserialize`, regenerated from the source: on the spec encoding of ANY value without an `addr_var` address, followed by ANY trailer,
    it returns every field with its encoded value and consumes exactly the encoded bits and refs. -/
theorem c16_src_MsgMetadata (v : Val) (f : Frag) (he : msgMetadata.enc v = some f) (hv : v.noVar = true) (k : Frag) :
    SrcTx.MsgMetadata false (f ++ k) = some (Tx.view_MsgMetadata v, k) :=
  Tx.refines_MsgMetadata.on_encoding v f he hv k

/-- `MsgEnvelope.deserialize` (`msg_envelope#4` and `msg_envelope_v2#5`), regenerated from the source: on the spec encoding of ANY value without an `addr_var` address, followed by ANY trailer,
    it returns every field with its encoded value and consumes exactly the encoded bits and refs. -/
theorem c16_src_MsgEnvelope (v : Val) (f : Frag) (he : msgEnvelope.enc v = some f) (hv : v.noVar = true) (k : Frag) :
    SrcTx.MsgEnvelope false (f ++ k) = some (Tx.view_MsgEnvelope v, k) :=
  Tx.refines_MsgEnvelope.on_encoding v f he hv k

/-- `InMsg.deserialize` (all nine constructors; nested `^Transaction` with the budget 3 of the spec's `transaction`), regenerated from the source: on the spec encoding of ANY value without an `addr_var` address, followed by ANY trailer,
    it returns every field with its encoded value and consumes exactly the encoded bits and refs. -/
theorem c16_src_InMsg (v : Val) (f : Frag) (he : inMsg.enc v = some f) (hv : v.noVar = true) (k : Frag) :
    SrcTx.InMsg 3 false (f ++ k) = some ((Tx.view_InMsg (Tx.view_Transaction 3)) v, k) :=
  Tx.refines_InMsg.on_encoding v f he hv k

/-- `OutMsg.deserialize` (all ten constructors), regenerated from the source: on the spec encoding of ANY value without an `addr_var` address, followed by ANY trailer,
    it returns every field with its encoded value and consumes exactly the encoded bits and refs. -/
theorem c16_src_OutMsg (v : Val) (f : Frag) (he : outMsg.enc v = some f) (hv : v.noVar = true) (k : Frag) :
    SrcTx.OutMsg 3 false (f ++ k) = some ((Tx.view_OutMsg (Tx.view_Transaction 3)) v, k) :=
  Tx.refines_OutMsg.on_encoding v f he hv k

/-- `MessageAny.deserialize`, regenerated from the source, on the spec encoding `f` of ANY `Message Any` without an `addr_var`
    address (the type closes its cell: an inline body is the rest of the slice, which the parser returns as a cell without
    consuming it): info, init (inline or by reference) and body (inline or by reference) are the encoded ones. -/
theorem c16_src_MessageAny (v : Val) (f : Frag) (he : message.enc v = some f) (hv : v.noVar = true) :
    ∃ k, SrcTx.MessageAny false f = some (Tx.view_Message v, k) :=
  Tx.refines_Message f v Frag.nil (LawfulEnd.law v f he) hv

/-- … and as every user parses it, `MessageAny.deserialize(S.load_ref().begin_parse())` against `^(Message Any)`: exactly the
    reference is consumed. -/
theorem c16_src_MessageAny_ref (v : Val) (f : Frag) (he : (ref message).enc v = some f) (hv : v.noVar = true) (k : Frag) :
    Rd.viaRef SrcTx.MessageAny (f ++ k) = some (Tx.view_Message v, k) :=
  (Tx.refines_Message.viaRef).on_encoding v f he hv k

/-- `TransactionSplitInstall.deserialize` = the body of `trans_split_install$0101`, for every nesting budget `b` of the nested
    `prepare_transaction:^Transaction` (parsed by `Transaction.deserialize` with that budget). -/
theorem c16_src_TransactionSplitInstall (b : Nat) (v : Val) (f : Frag)
    (he : (Tx.transSplitInstall (transactionF b)).enc v = some f) (hv : v.noVar = true) (k : Frag) :
    SrcTx.TransactionSplitInstall (SrcTx.Transaction b) false (f ++ k) =
      some (Tx.view_TransactionSplitInstall (Tx.view_Transaction b) v, k) :=
  (Tx.refines_TransactionSplitInstall (Tx.refines_Transaction b).toE).on_encoding v f he hv k

/-- `TransactionMergeInstall.deserialize` = the body of `trans_merge_install$0111`, for every nesting budget. -/
theorem c16_src_TransactionMergeInstall (b : Nat) (v : Val) (f : Frag)
    (he : (Tx.transMergeInstall (transactionF b)).enc v = some f) (hv : v.noVar = true) (k : Frag) :
    SrcTx.TransactionMergeInstall (SrcTx.Transaction b) false (f ++ k) =
      some (Tx.view_TransactionMergeInstall (Tx.view_Transaction b) v, k) :=
  (Tx.refines_TransactionMergeInstall (Tx.refines_Transaction b).toE).on_encoding v f he hv k

/-- `TransactionDescr.deserialize` (tag dispatch `load_bits(3)` / `+ load_bit()` to the seven description classes), for every
    nesting budget `b` of a nested transaction: returns the object of the constructor's class with every field. -/
theorem c16_src_TransactionDescr (b : Nat) (v : Val) (f : Frag)
    (he : (transactionDescrF (transactionF b)).enc v = some f) (hv : v.noVar = true) (k : Frag) :
    SrcTx.TransactionDescr (SrcTx.Transaction b) false (f ++ k) =
      some (Tx.view_TransactionDescr (Tx.view_Transaction b) v, k) :=
  (Tx.refines_TransactionDescr (Tx.refines_Transaction b).toE).on_encoding v f he hv k

/-- `Transaction.deserialize` for EVERY nesting budget `b`: tag, the eight inline fields, the `^[ in_msg out_msgs ]` group
    (`in_msg` Maybe-reference; `out_msgs` = the values of the `HashmapE 15 ^(Message Any)` in key order, `[]` when empty),
    `total_fees`, `state_update:^HashUpdate`, `description:^TransactionDescr`. -/
theorem c16_src_Transaction (b : Nat) (v : Val) (f : Frag) (he : (transactionF b).enc v = some f) (hv : v.noVar = true)
    (k : Frag) :
    SrcTx.Transaction b false (f ++ k) = some (Tx.view_Transaction b v, k) :=
  (Tx.refines_Transaction b).on_encoding v f he hv k

/-- the hand model of `Slice.load_address()` (Model/TlbRdTx.lean `Rd.loadAddress`; NOT regenerated: boc/slice.py) reads a
    `MsgAddressExt` (`addr_none` → `None`, `addr_extern` → `ExternalAddress`) … -/
theorem c16_model_load_address_ext (v : Val) (f : Frag) (he : msgAddressExt.enc v = some f) (k : Frag) :
    Rd.loadAddress (f ++ k) = some (Tx.view_MsgAddressExt v, k) :=
  Tx.refines_MsgAddressExt.on_encoding v f he k

/-- … and a `MsgAddressInt` that is not `addr_var` (`addr_std`, with or without anycast → `Address`). -/
theorem c16_model_load_address_int (v : Val) (f : Frag) (he : msgAddressInt.enc v = some f) (hv : v.noVar = true) (k : Frag) :
    Rd.loadAddress (f ++ k) = some (Tx.view_MsgAddressInt v, k) :=
  Tx.refines_MsgAddressInt.on_encoding v f he hv k

/-- the dictionary walk of `load_dict` (Model/TlbRdTx.lean `Rd.dictWalk`) returns the entries of ANY decoded `Hashmap n X`
    tree value, in order, given a value reader that agrees with `X` on the leaves. -/
theorem c16_model_dict_walk (X : Codec) (rd : Frag → Rd.R) (w : Val → Val)
    (hrd : ∀ s v, X.dec s = some (v, ⟨[], []⟩) → ∃ k, rd s = some (w v, k))
    (n : Nat) (b : Bits) (r : List Cell) (tv : Val) (h : (hashmap n X).dec ⟨b, r⟩ = some (tv, ⟨[], []⟩)) :
    Rd.dictWalk rd (n + 1) n [] (Cell.mk false b r) = some (flattenF w (n + 1) n [] tv) :=
  dictWalk_sound X (fun _ => True) rd w (fun s v hd _ => hrd s v hd) (n + 1) n [] b r tv h (fun _ _ => trivial)

/-- non-vacuity of the `noVar` hypothesis: a `MsgMetadata` with an `addr_std` address is encodable, has no `addr_var`, … -/
example :
    let v := Val.record [("depth", .int 1), ("initiator_addr", .con "addr_std" (.record [("anycast", .unit),
      ("workchain_id", .int (-1)), ("address", .bits (List.replicate 256 true))])), ("initiator_lt", .int 5)]
    (msgMetadata.enc v).isSome = true ∧ v.noVar = true := by
  constructor
  · decide +kernel
  · decide +kernel

/-- … while a value with an `addr_var` address does not satisfy it (the library raises on it) -/
example : (Val.con "addr_var" .unit).noVar = false := by decide +kernel

/-- non-vacuity: `TrCreditPhase` with `due_fees_collected = 3` and no extra currencies, followed by a trailer bit: the regenerated
    parser returns the fields and leaves the trailer -/
example :
    SrcTx.TrCreditPhase false ⟨[true, false, false, false, true, false, false, false, false, false, false, true, true,
        false, false, false, false, false, true], []⟩ =
      some (Rd.obj "TrCreditPhase" [("due_fees_collected", .int 3),
        ("credit", Rd.obj "CurrencyCollection" [("grams", .int 0), ("other", Rd.obj "ExtraCurrencyCollection" [("dict_", .unit)])])],
        ⟨[true], []⟩) := by rfl


/-- non-vacuity of `c16_src_Transaction`: the concrete transaction is encodable with budget 1 and has no `addr_var`, so the
    regenerated `Transaction.deserialize` reads its encoding back, whatever follows -/
example : ∃ f, (transactionF 1).enc Tx.exampleTransaction = some f ∧
    ∀ k, SrcTx.Transaction 1 false (f ++ k) = some (Tx.view_Transaction 1 Tx.exampleTransaction, k) := by
  have h1 : ((transactionF 1).enc Tx.exampleTransaction).isSome = true := by decide +kernel
  have h2 : Tx.exampleTransaction.noVar = true := by decide +kernel
  obtain ⟨f, hf⟩ := Option.isSome_iff_exists.1 h1
  exact ⟨f, hf, fun k => c16_src_Transaction 1 Tx.exampleTransaction f hf h2 k⟩

/-! ## BEGIN tlbsrc2 — Source tie, third part: account.py / block.py / config.py classes (`c16_src_*`, continued)

`SrcBlk.<Class>` (Generated/TlbParsersBlk.lean) is regenerated on every run by harness/translate/tlbparsers_blk.py; `ConsensusConfig` and
`BlockInfo` are in Generated/TlbParsers.lean (first part; the translator now reads constant tables `{b'\xd6': 'consensus_config', …}` and
turns an `if` that only assigns into ONE conditional `let`).  Declared views: Spec/Tlb/PyViewBlk.lean (namespace `Blk`).  Same statement as
above: on the spec encoding of ANY value followed by ANY trailer the parser of the working tree returns every field with its encoded
value and leaves exactly the trailer; `v.noVar = true` where the type contains a `MsgAddressInt` (`load_address` has no `addr_var`). -/

/-- `ConsensusConfig.deserialize` (all four constructors `#d6 … #d9`: tag looked up in the constant table, `flags = 0` and
    `round_candidates >= 1` asserted, `proto_version` / `catchain_max_blocks_coeff` only where the layout has them, `None` otherwise),
    regenerated from the source: on the spec encoding of ANY value followed by ANY trailer it returns every field with its encoded
    value (view `Blk.view_ConsensusConfig`) and consumes exactly the encoded bits. -/
theorem c16_src_ConsensusConfig (v : Val) (f : Frag) (he : consensusConfig.enc v = some f) (k : Frag) :
    Src.ConsensusConfig false (f ++ k) = some (Blk.view_ConsensusConfig v, k) :=
  Blk.refines_ConsensusConfig.on_encoding v f he k

/-- `BlockInfo.deserialize` + `BlockInfo.__init__` (tag, 20 inline fields, `flags . 0?GlobalVersion`, `not_master?^BlkMasterInfo`,
    `prev_ref:^(BlkPrevInfo after_merge)`, `vert_seqno_incr?^(BlkPrevInfo 0)`; `flags <= 1` and `vert_seq_no >= vert_seqno_incr` checked),
    regenerated from the source: on the spec encoding of ANY value followed by ANY trailer it returns every attribute with its encoded
    value (view `Blk.view_BlockInfo`; absent conditional fields are `None`) and consumes exactly the encoded bits and refs. -/
theorem c16_src_BlockInfo (v : Val) (f : Frag) (he : blockInfo.enc v = some f) (k : Frag) :
    Src.BlockInfo false (f ++ k) = some (Blk.view_BlockInfo v, k) :=
  Blk.refines_BlockInfo.on_encoding v f he k

/-- `DepthBalanceInfo.deserialize`, regenerated from the source: every field, exact consumption. -/
theorem c16_src_DepthBalanceInfo (v : Val) (f : Frag) (he : depthBalanceInfo.enc v = some f) (k : Frag) :
    SrcBlk.DepthBalanceInfo false (f ++ k) = some (Blk.view_DepthBalanceInfo v, k) :=
  Blk.refines_DepthBalanceInfo.on_encoding v f he k

/-- `ValueFlow.deserialize` (both tags `#b8e48dfb` and `#3ebf98b7`: the two `^[ … ]` groups of four CurrencyCollections each — with their
    extra-currency dictionaries — read from their own reference cells, `fees_collected` (and `burned`) inline in between),
    regenerated from the source: every field with its encoded value, exactly the encoded bits and refs consumed. -/
theorem c16_src_ValueFlow (v : Val) (f : Frag) (he : valueFlow.enc v = some f) (k : Frag) :
    SrcBlk.ValueFlow false (f ++ k) = some (Blk.view_ValueFlow v, k) :=
  Blk.refines_ValueFlow.on_encoding v f he k

/-- `ShardDescr.deserialize` (both tags `#b` inline fees and `#a` fees in a `^[ … ]` group; `flags = 0` checked; `split_merge_at` through
    the regenerated `FutureSplitMerge`), regenerated from the source: every field, exact consumption. -/
theorem c16_src_ShardDescr (v : Val) (f : Frag) (he : shardDescr.enc v = some f) (k : Frag) :
    SrcBlk.ShardDescr false (f ++ k) = some (Blk.view_ShardDescr v, k) :=
  Blk.refines_ShardDescr.on_encoding v f he k

/-- `AccountStorage.deserialize` (`last_trans_lt`, balance with its extra-currency dictionary, `AccountState`), regenerated from the source. -/
theorem c16_src_AccountStorage (v : Val) (f : Frag) (he : accountStorage.enc v = some f) (k : Frag) :
    SrcBlk.AccountStorage false (f ++ k) = some (Blk.view_AccountStorage v, k) :=
  Blk.refines_AccountStorage.on_encoding v f he k

/-- `Account.deserialize` (`account_none$0` ↦ `None`; `account$1`: address through `load_address`, `StorageInfo`, `AccountStorage`),
    regenerated from the source; `noVar`: the address is not `addr_var`. -/
theorem c16_src_Account (v : Val) (f : Frag) (he : account.enc v = some f) (hv : v.noVar = true) (k : Frag) :
    SrcBlk.Account false (f ++ k) = some (Blk.view_Account v, k) :=
  Blk.refines_Account.on_encoding v f he hv k

/-- `ShardAccount.deserialize` (`account:^Account` parsed from its own cell, `last_trans_hash`, `last_trans_lt`), regenerated from the
    source; the bookkeeping argument `cell=` (a copy of the slice) is not part of the statement. -/
theorem c16_src_ShardAccount (v : Val) (f : Frag) (he : shardAccount.enc v = some f) (hv : v.noVar = true) (k : Frag) :
    SrcBlk.ShardAccount false (f ++ k) = some (Blk.view_ShardAccount v, k) :=
  Blk.refines_ShardAccount.on_encoding v f he hv k

/-- `ValidatorSet.deserialize` (`validators#11`: inline `Hashmap 16 ValidatorDescr` read by `load_hashmap`; `validators_ext#12`:
    `total_weight` and a `HashmapE 16 ValidatorDescr` read by `load_dict`; `main <= total`, `main >= 1` checked), regenerated from the
    source: every field with its encoded value, `list` = the dict position ↦ ValidatorDescr of the decoded Patricia tree in key order
    (`None` for an empty `HashmapE`), exactly the encoded bits and refs consumed.  The dictionary walk is the hand model
    `Rd.dictWalk` / `Rd.dictWalkInline` proved sound against the spec tree (`c16_model_dict_walk`, `c16_model_dict_walk_inline`). -/
theorem c16_src_ValidatorSet (v : Val) (f : Frag) (he : validatorSet.enc v = some f) (k : Frag) :
    SrcBlk.ValidatorSet false (f ++ k) = some (Blk.view_ValidatorSet v, k) :=
  Blk.refines_ValidatorSet.on_encoding v f he k

/-- the hand model of `Slice.load_hashmap` (`Rd.dictWalkInline`: the Patricia walk started on the slice itself) returns the entries of
    ANY decoded inline `Hashmap n X` value, in order, and leaves exactly what the spec decoder leaves, given a value reader that
    refines `X`. -/
theorem c16_model_dict_walk_inline (X : Codec) (rd : Frag → Rd.R) (w : Val → Val) (hrd : Refines rd X w) (n : Nat) (s : Frag)
    (tv : Val) (s' : Frag) (h : (hashmap n X).dec s = some (tv, s')) :
    Rd.dictWalkInline rd n s = some (flattenF w (n + 1) n [] tv, s') :=
  Blk.dictWalkInline_sound X rd w hrd n s tv s' h

/-- `ShardAccounts.deserialize` = `load_hashmap_aug_e(256, ShardAccount.deserialize, DepthBalanceInfo.deserialize)`, regenerated from the
    source: on the spec encoding of ANY `HashmapAugE 256 ShardAccount DepthBalanceInfo` value (no `addr_var` inside) followed by ANY trailer
    it returns the tuple (dict key ↦ ShardAccount of the decoded Patricia tree in key order, list of the `extra:DepthBalanceInfo` of every
    node, children before their fork) — `({}, [extra])` for an empty dictionary — and consumes exactly the encoding, the top-level
    `extra` included.  The walk is the hand model `Rd.augWalk` proved sound against the spec tree (`c16_model_aug_walk`). -/
theorem c16_src_ShardAccounts (v : Val) (f : Frag) (he : shardAccounts.enc v = some f) (hv : v.noVar = true) (k : Frag) :
    SrcBlk.ShardAccounts false (f ++ k) = some (Blk.view_ShardAccounts v, k) :=
  Blk.refines_ShardAccounts.on_encoding v f he hv k

/-- `OldMcBlocksInfo.deserialize` = `load_hashmap_aug_e(32, KeyExtBlkRef.deserialize, KeyMaxLt.deserialize)`, regenerated from the source:
    the `(dict, extras)` tuple of the decoded `HashmapAugE 32 KeyExtBlkRef KeyMaxLt`, exact consumption. -/
theorem c16_src_OldMcBlocksInfo (v : Val) (f : Frag) (he : oldMcBlocksInfo.enc v = some f) (k : Frag) :
    SrcBlk.OldMcBlocksInfo false (f ++ k) = some (Blk.view_OldMcBlocksInfo v, k) :=
  Blk.refines_OldMcBlocksInfo.on_encoding v f he k

/-- `BlockCreateStats.deserialize` (`block_create_stats#17`: `load_dict(256, CreatorStats.deserialize)`; `block_create_stats_ext#34`:
    `load_hashmap_aug_e(256, CreatorStats.deserialize, load_uint(32))`), regenerated from the source: every field, exact consumption. -/
theorem c16_src_BlockCreateStats (v : Val) (f : Frag) (he : blockCreateStats.enc v = some f) (k : Frag) :
    SrcBlk.BlockCreateStats false (f ++ k) = some (Blk.view_BlockCreateStats v, k) :=
  Blk.refines_BlockCreateStats.on_encoding v f he k

/-- `ConfigParams.deserialize` (`config_addr`, then `config:^(Hashmap 32 ^Cell)` read by `load_hashmap` on the referenced cell with signed
    32-bit keys and a Slice over each parameter's cell as value), regenerated from the source: every field, exact consumption. -/
theorem c16_src_ConfigParams (v : Val) (f : Frag) (he : configParams.enc v = some f) (k : Frag) :
    SrcBlk.ConfigParams false (f ++ k) = some (Blk.view_ConfigParams v, k) :=
  Blk.refines_ConfigParams.on_encoding v f he k

/-- `McStateExtra.deserialize` (tag `#cc26`, shard hashes — `deserialize_shard_hashes`, a pinned hand model proved against
    `HashmapE 32 ^(BinTree ShardDescr)` with the REGENERATED `ShardDescr` parser on the leaves —, `ConfigParams`, the `^[ … ]` group:
    `flags <= 1` checked, `ValidatorInfo`, `OldMcBlocksInfo`, `after_key_block`, `last_key_block:(Maybe ExtBlkRef)`,
    `block_create_stats` iff `flags . 0`; `global_balance`), regenerated from the source: every field with its encoded value, exactly
    the encoded bits and refs consumed. -/
theorem c16_src_McStateExtra (v : Val) (f : Frag) (he : mcStateExtra.enc v = some f) (k : Frag) :
    SrcBlk.McStateExtra false (f ++ k) = some (Blk.view_McStateExtra v, k) :=
  Blk.refines_McStateExtra.on_encoding v f he k

/-- `ShardStateUnsplit.deserialize` (`shard_state#9023afe2`: the nine inline fields, `out_msg_queue_info` kept as a cell,
    `accounts:^ShardAccounts` through the regenerated `ShardAccounts`, the `^[ … ]` group read only when that cell is ordinary —
    `overload_history … libraries master_ref` —, `custom:(Maybe ^McStateExtra)` through the regenerated `McStateExtra`), regenerated from
    the source: every field with its encoded value, exactly the encoded bits and refs consumed.  Declared: the values of `libraries`
    (`load_dict(256)` without a value_deserializer) are raw Slices, compared by presence only. -/
theorem c16_src_ShardStateUnsplit (v : Val) (f : Frag) (he : shardStateUnsplit.enc v = some f) (hv : v.noVar = true) (k : Frag) :
    SrcBlk.ShardStateUnsplit false (f ++ k) = some (Blk.view_ShardStateUnsplit v, k) :=
  Blk.refines_ShardStateUnsplit.on_encoding v f he hv k

/-- `ShardState.deserialize` (`preload_bytes(4)` dispatch: `split_state#5f327da5` ↦ two `^ShardStateUnsplit`; otherwise the slice is an
    unsplit state, parsed with its own tag), regenerated from the source: every field, exact consumption. -/
theorem c16_src_ShardState (v : Val) (f : Frag) (he : shardState.enc v = some f) (hv : v.noVar = true) (k : Frag) :
    SrcBlk.ShardState false (f ++ k) = some (Blk.view_ShardState v, k) :=
  Blk.refines_ShardState.on_encoding v f he hv k

/-- `McBlockExtra.deserialize` (`masterchain_block_extra#cca5`: `key_block`, shard hashes, ShardFees = `load_maybe_ref()` + the two
    CurrencyCollections of its top-level extra, the `^[ … ]` group — `prev_blk_signatures` read without a value_deserializer, the two
    `Maybe ^InMsg` kept as cells —, `config` iff `key_block`), regenerated from the source: every field with its encoded value,
    exactly the encoded bits and refs consumed.  Declared: `shard_fees` (the root cell of a dictionary the parser does not walk) and the
    raw Slices of `prev_blk_signatures` are compared by presence only. -/
theorem c16_src_McBlockExtra (v : Val) (f : Frag) (he : mcBlockExtra.enc v = some f) (k : Frag) :
    SrcBlk.McBlockExtra false (f ++ k) = some (Blk.view_McBlockExtra v, k) :=
  Blk.refines_McBlockExtra.on_encoding v f he k

/-- `AccountBlock.deserialize` (`acc_trans#5`: `account_addr`, `transactions` = `load_hashmap_aug(64, Transaction by reference,
    CurrencyCollection)` — the `(dict, extras)` tuple of the inline `HashmapAug 64 ^Transaction CurrencyCollection`, every Transaction through the
    regenerated `Transaction` parser —, `state_update:^HashUpdate`), regenerated from the source: every field, exact consumption. -/
theorem c16_src_AccountBlock (v : Val) (f : Frag) (he : accountBlock.enc v = some f) (hv : v.noVar = true) (k : Frag) :
    SrcBlk.AccountBlock false (f ++ k) = some (Blk.view_AccountBlock v, k) :=
  Blk.refines_AccountBlock.on_encoding v f he hv k

/-- `BlockExtra.deserialize` (`block_extra#4a33f6fd`: `in_msg_descr`, `out_msg_descr`, `account_blocks` — each a `HashmapAugE 256 …` behind a
    reference, read by `load_hashmap_aug_e` with the regenerated `InMsg` / `OutMsg` / `AccountBlock` parsers on the leaves —, `rand_seed`,
    `created_by`, `custom:(Maybe ^McBlockExtra)`), regenerated from the source: every field, exact consumption. -/
theorem c16_src_BlockExtra (v : Val) (f : Frag) (he : blockExtra.enc v = some f) (hv : v.noVar = true) (k : Frag) :
    SrcBlk.BlockExtra false (f ++ k) = some (Blk.view_BlockExtra v, k) :=
  Blk.refines_BlockExtra.on_encoding v f he hv k

/-- `Block.deserialize` (`block#11ef55aa`: `global_id`, `info:^BlockInfo`, `value_flow:^ValueFlow`, `state_update`, `extra:^BlockExtra`, each
    through its regenerated parser), regenerated from the source: every field, exact consumption.  `MerkleUpdate.deserialize` (text
    pinned) is modelled for an ORDINARY `state_update` cell only (it returns `None`; hypothesis `ordinaryStateUpdate`): a real Merkle
    update (exotic cell, two nested shard states) is outside the model — the bundled main-net block is covered by the first two layers. -/
theorem c16_src_Block (v : Val) (f : Frag) (he : block.enc v = some f) (hv : v.noVar = true)
    (ho : Blk.ordinaryStateUpdate v = true) (k : Frag) :
    SrcBlk.Block false (f ++ k) = some (Blk.view_Block v, k) :=
  Blk.refines_Block.on_encoding v f he ⟨hv, ho⟩ k

/-- non-vacuity of `ordinaryStateUpdate`: an ordinary cell satisfies it, an exotic one does not -/
example : Blk.ordinaryStateUpdate (.record [("state_update", .cell (Cell.mk false [true] []))]) = true ∧
    Blk.ordinaryStateUpdate (.record [("state_update", .cell (Cell.mk true [true] []))]) = false := by
  constructor <;> decide +kernel

/-- the hand model of `deserialize_shard_hashes` + `BinTree.deserialize` (`Rd.loadShardHashes`; source text pinned by the translator)
    against `HashmapE 32 ^(BinTree X)`: `None` / the dict of BinTree objects whose `.list` holds the leaves left to right, each parsed by
    a leaf reader that agrees with `X`; exact consumption. -/
theorem c16_model_shard_hashes (X : Codec) (leaf : Bool → Frag → Rd.R) (w : Val → Val)
    (hleaf : ∀ s v s', X.dec s = some (v, s') → ∃ k, leaf false s = some (w v, k))
    (v : Val) (f : Frag) (he : (hashmapE 32 (ref (binTree X))).enc v = some f) [Lawful X] (k : Frag) :
    Rd.loadShardHashes leaf (f ++ k) = some (viewDict (Blk.viewBinTree w) 32 v, k) :=
  ((Blk.shardHashesK (X := X) (leaf := leaf) (w := w) (fun s v s' hd _ => hleaf s v s' hd) _ _ _).1
    (Lawful.law v f he k)).2

/-- the hand model of `parse_aug` (boc/hashmap/parse.py; `Rd.augWalk`) returns the entries (left to right) and the extras (children
    before their fork) of ANY decoded `HashmapAug n X Y` tree value, given a value reader that agrees with `X` and an extra reader
    that refines `Y` (exact rest: the leaf reads `extra` and then `value` from the same cell). -/
theorem c16_model_aug_walk (X Y : Codec) (x y : Frag → Rd.R) (wx wy : Val → Val)
    (hx : ∀ s v, X.dec s = some (v, ⟨[], []⟩) → ∃ k, x s = some (wx v, k)) (hy : Refines y Y wy)
    (n : Nat) (b : Bits) (r : List Cell) (tv : Val) (h : (hashmapAug n X Y).dec ⟨b, r⟩ = some (tv, ⟨[], []⟩)) :
    Rd.augWalk x y (n + 1) n [] (Cell.mk false b r) = some (Blk.flattenAug wx (n + 1) n [] tv, Blk.extrasAug wy (n + 1) n tv) :=
  Blk.augWalk_sound X Y (fun _ => True) x y wx wy (fun s v hd _ => hx s v hd) hy (n + 1) n [] b r tv h (fun _ _ => trivial)

/-- non-vacuity: an empty `OldMcBlocksInfo` (`ahme_empty$0` + `extra:KeyMaxLt`) is encodable, so `c16_src_OldMcBlocksInfo` applies:
    the regenerated parser returns `({}, [KeyMaxLt(False, 5)])` on its encoding, whatever follows -/
example : ∃ f, oldMcBlocksInfo.enc (.con "ahme_empty" (.record [("extra", .record [("key", .bool false), ("max_end_lt", .int 5)])])) = some f ∧
    ∀ k, SrcBlk.OldMcBlocksInfo false (f ++ k) =
      some (Rd.tuple [Rd.dict [], Rd.list [Rd.obj "KeyMaxLt" [("key", .bool false), ("max_end_lt", .int 5)]]], k) := by
  have h1 : (oldMcBlocksInfo.enc (.con "ahme_empty" (.record [("extra", .record [("key", .bool false), ("max_end_lt", .int 5)])]))).isSome
      = true := by decide +kernel
  obtain ⟨f, hf⟩ := Option.isSome_iff_exists.1 h1
  exact ⟨f, hf, fun k => c16_src_OldMcBlocksInfo _ f hf k⟩

/-- non-vacuity: `account_none$0` followed by a trailer bit is read as `None`, the trailer is left -/
example : SrcBlk.Account false ⟨[false, true], []⟩ = some (.unit, ⟨[true], []⟩) := rfl

/-- non-vacuity: a concrete `consensus_config_new#d7` value is encodable (so `c16_src_ConsensusConfig` applies to it) -/
example : (consensusConfig.enc (.con "consensus_config_new" (.record [("flags", .int 0), ("new_catchain_ids", .bool true),
    ("round_candidates", .int 3), ("next_candidate_delay_ms", .int 2000), ("consensus_timeout_ms", .int 16000),
    ("fast_attempts", .int 3), ("attempt_duration", .int 8), ("catchain_max_deps", .int 4), ("max_block_bytes", .int 2097152),
    ("max_collated_bytes", .int 2097152)]))).isSome = true := by decide +kernel

/-! ## END tlbsrc2 -/

end TonVerif.Tlb
