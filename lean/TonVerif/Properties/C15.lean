/-
C15 -- messages, state-inits and currency values serialise per block.tlb and round-trip.

`Model.Message.*` mirrors `MessageAny`, the three `CommonMsgInfo` classes, `StateInit`, `TickTock`,
`CurrencyCollection` of pytoniq-core (after the fix of F17); `Spec.Tlb.*` is the independent reading of
block.tlb (encoder with both `Either` choices free, decoder `decodeMessage`).  Cells are abstract:
`ops.make` = `end_cell` (may refuse: depth), `ops.view` = bits and refs of a cell; `Lawful` = `view ∘ make = id`,
`Total` = every cell with at most 1023 bits and 4 refs exists (no depth overflow).
-/
import TonVerif.Proofs.MessageRef

namespace TonVerif.Properties.C15
open TonVerif TonVerif.Model TonVerif.Spec.Tlb TonVerif.Proofs.Message

variable {R : Type}

/-- **Serialising never fails for lack of room.**  For every message whose header encodes (all amounts and
addresses in range) into `ib` bits with `ib + 3 ≤ 1023` (`ib + 2` without a state-init), every state-init with
a split depth in range and every body cell (any 0..1023 bits, 0..4 refs), `MessageAny.serialize` returns a
cell: parts that do not fit inline are moved into references.  (The only other way to fail is a cell deeper
than 1023, excluded by `Total`.) -/
theorem c15_never_overflows (ops : CellOps R) (hl : ops.Lawful) (ht : ops.Total) (m : Msg R)
    {ib : Bits} {ir : List R} (hinfo : encInfo m.info = some (ib, ir))
    (hI : ib.length + (if m.init.isSome then 3 else 2) ≤ 1023)
    (hinit : ∀ s, m.init = some s → (encStateInit s).isSome)
    (hbody : m.body.1.length ≤ 1023 ∧ m.body.2.length ≤ 4) :
    (Message.serialize ops m).isSome := by
  obtain ⟨i, b, c, _, hs⟩ := serialize_cases ops hl ht m hinfo hI hinit hbody
  simp [hs]

/-- ... and what it returns is one of the (up to four) block.tlb encodings of the message -/
theorem c15_serialize_is_spec_encoding (ops : CellOps R) (hl : ops.Lawful) (ht : ops.Total) (m : Msg R)
    {ib : Bits} {ir : List R} (hinfo : encInfo m.info = some (ib, ir))
    (hI : ib.length + (if m.init.isSome then 3 else 2) ≤ 1023)
    (hinit : ∀ s, m.init = some s → (encStateInit s).isSome)
    (hbody : m.body.1.length ≤ 1023 ∧ m.body.2.length ≤ 4) :
    ∃ initRef bodyRef c, Message.serialize ops m = some c ∧ encMessage ops m initRef bodyRef = some c := by
  obtain ⟨i, b, c, he, hs⟩ := serialize_cases ops hl ht m hinfo hI hinit hbody
  exact ⟨i, b, c, hs, he⟩

/-- **The serialised cell decodes, under the independent reading of block.tlb, to the same logical message**
(same bound as `c15_never_overflows`; `WF`: a zero-length external address carries the value 0; an empty
extra-currency dictionary is `none` in the logical value, so `{}` and `None` are alike by construction). -/
theorem c15_spec_decodes (ops : CellOps R) (hl : ops.Lawful) (ht : ops.Total) (m : Msg R) (hwf : m.info.WF)
    {ib : Bits} {ir : List R} (hinfo : encInfo m.info = some (ib, ir))
    (hI : ib.length + (if m.init.isSome then 3 else 2) ≤ 1023)
    (hinit : ∀ s, m.init = some s → (encStateInit s).isSome)
    (hbody : m.body.1.length ≤ 1023 ∧ m.body.2.length ≤ 4) :
    ∃ c, Message.serialize ops m = some c ∧ decodeMessage ops c = some m := by
  obtain ⟨i, b, c, he, hs⟩ := serialize_cases ops hl ht m hinfo hI hinit hbody
  exact ⟨c, hs, spec_roundtrip ops hl m hwf i b he⟩

/-- the spec decoder inverts the spec encoder for all four inline/reference combinations -/
theorem c15_spec_roundtrip (ops : CellOps R) (hl : ops.Lawful) (m : Msg R) (hwf : m.info.WF) (initRef bodyRef : Bool) {c : R}
    (h : encMessage ops m initRef bodyRef = some c) : decodeMessage ops c = some m :=
  spec_roundtrip ops hl m hwf initRef bodyRef h

/-- the stand-alone `StateInit.serialize` never fails (12 bits, 3 refs at most) and is the spec encoding -/
theorem c15_state_init_serialize (ops : CellOps R) (ht : ops.Total) (s : StateInit R) {sc : Chunk R}
    (h : encStateInit s = some sc) :
    sc.1.length ≤ 12 ∧ sc.2.length ≤ 3 ∧ Message.serializeStateInit ops s = ops.make sc.1 sc.2 ∧
      (Message.serializeStateInit ops s).isSome := by
  have hsz := size_encStateInit s
  obtain ⟨e1, e2⟩ := enc_some_sizes h
  rw [e1, e2] at hsz
  have hrun := ((appends_stateInitB s).run h).1 (by omega)
  have : Message.serializeStateInit ops s = ops.make sc.1 sc.2 := by
    simp [Message.serializeStateInit, Message.cellOf, Message.runB, hrun]
  exact ⟨hsz.1, hsz.2, this, this ▸ ht _ _ (by omega) (by omega)⟩

/-- the stand-alone `CurrencyCollection.serialize` is the spec encoding whenever the amount is a `Grams` -/
theorem c15_currency_serialize (ops : CellOps R) (c : Currency R) {cc : Chunk R}
    (h : encCurrency c = some cc) (hfit : cc.1.length ≤ 1023 ∧ cc.2.length ≤ 4) :
    Message.serializeCurrency ops c = ops.make cc.1 cc.2 := by
  have hrun := ((appends_currencyB c).sub.run h).1 hfit
  simp [Message.serializeCurrency, Message.cellOf, Message.runB, hrun]


/-- **The library's own parser agrees with the independent reading on EVERY valid encoding**: whenever a cell
denotes the message `m` under block.tlb (whatever inline/reference choices its author made, any `VarUInteger`
lengths), `MessageAny.deserialize` returns `m`. No hypothesis on `ops`. -/
theorem c15_own_parser (ops : CellOps R) (c : R) (m : Msg R) (h : decodeMessage ops c = some m) :
    Message.deserialize ops c = some m := own_parser ops c m h

/-- in particular it reads back all four encodings of a message, and its own serialisation -/
theorem c15_own_parser_all_encodings (ops : CellOps R) (hl : ops.Lawful) (m : Msg R) (hwf : m.info.WF)
    (initRef bodyRef : Bool) {c : R} (h : encMessage ops m initRef bodyRef = some c) :
    Message.deserialize ops c = some m :=
  own_parser ops c m (spec_roundtrip ops hl m hwf initRef bodyRef h)

theorem c15_round_trip (ops : CellOps R) (hl : ops.Lawful) (ht : ops.Total) (m : Msg R) (hwf : m.info.WF)
    {ib : Bits} {ir : List R} (hinfo : encInfo m.info = some (ib, ir))
    (hI : ib.length + (if m.init.isSome then 3 else 2) ≤ 1023)
    (hinit : ∀ s, m.init = some s → (encStateInit s).isSome)
    (hbody : m.body.1.length ≤ 1023 ∧ m.body.2.length ≤ 4) :
    ∃ c, Message.serialize ops m = some c ∧ Message.deserialize ops c = some m := by
  obtain ⟨c, hs, hd⟩ := c15_spec_decodes ops hl ht m hwf hinfo hI hinit hbody
  exact ⟨c, hs, own_parser ops c m hd⟩

/-- stand-alone `StateInit`: the spec decoder inverts the encoding, and `StateInit.deserialize` agrees with the
spec decoder on every cell that is a `StateInit` -/
theorem c15_state_init_decodes (ops : CellOps R) (hl : ops.Lawful) (s : StateInit R) {sc : Chunk R} {c : R}
    (h : encStateInit s = some sc) (hc : ops.make sc.1 sc.2 = some c) : decodeStateInit ops c = some s := by
  have hv := hl _ _ _ hc
  have := (rt_stateInit s).toEnd sc h
  simp [decodeStateInit, decodeWhole, hv, this]

theorem c15_state_init_own_parser (ops : CellOps R) (c : R) (s : StateInit R) (h : decodeStateInit ops c = some s) :
    Message.deserializeStateInit ops c = some s := own_parser_stateInit ops c s h

/-- stand-alone `CurrencyCollection` -/
theorem c15_currency_decodes (ops : CellOps R) (hl : ops.Lawful) (v : Currency R) {cc : Chunk R} {c : R}
    (h : encCurrency v = some cc) (hc : ops.make cc.1 cc.2 = some c) : decodeCurrency ops c = some v := by
  have hv := hl _ _ _ hc
  have := (rt_currency v).toEnd cc h
  simp [decodeCurrency, decodeWhole, hv, this]

theorem c15_currency_own_parser (ops : CellOps R) (c : R) (v : Currency R) (h : decodeCurrency ops c = some v) :
    Message.deserializeCurrency ops c = some v := own_parser_currency ops c v h

/-! ### non-vacuity and tightness on a concrete cell type -/

inductive T where
  | mk (bits : Bits) (refs : List T)

def tops : CellOps T := ⟨fun b r => some (T.mk b r), fun c => match c with | .mk b r => (b, r)⟩

theorem tops_lawful : tops.Lawful := by
  intro b r c h; simp [tops] at h; subst h; rfl

theorem tops_total : tops.Total := by
  intro b r _ _; simp [tops]

def leaf : T := .mk [true, false, true] []

/-- an internal message with extra currencies, a 3-ref state-init and a body with a ref (the F17 shape) -/
def m0 : Msg T :=
  ⟨Info.int true false false (Addr.std none 0 (List.replicate 32 17)) (Addr.std (some (3, 5)) (-1) (List.replicate 32 255))
      ⟨1000000000, some leaf⟩ 0 300 77 1700000000,
   some ⟨some 5, some ⟨true, false⟩, some leaf, some leaf, some leaf⟩,
   ([true, true, false], [leaf])⟩

example : Enc.nbits (encInfo m0.info) + 3 ≤ 1023 ∧ (encInfo m0.info).isSome := by decide +kernel

/-- the hypotheses of the three theorems are met by `m0`: it serialises, decodes and parses back -/
example : ∃ c, Message.serialize tops m0 = some c ∧ decodeMessage tops c = some m0 ∧ Message.deserialize tops c = some m0 := by
  obtain ⟨⟨ib, ir⟩, h⟩ := Option.isSome_iff_exists.mp (show (encInfo m0.info).isSome = true by decide +kernel)
  have hlen : Enc.nbits (encInfo m0.info) + 3 ≤ 1023 := by decide +kernel
  rw [(enc_some_sizes h).1] at hlen
  have hwf : m0.info.WF := by simp [m0, Info.WF, AddrWF]
  have hinit : ∀ s, m0.init = some s → (encStateInit s).isSome := by
    intro s hs; simp [m0] at hs; subst hs; decide +kernel
  obtain ⟨c, hs, hd⟩ := c15_spec_decodes tops tops_lawful tops_total m0 hwf h (by simpa [m0] using hlen) hinit (by simp [m0])
  exact ⟨c, hs, hd, c15_own_parser tops c m0 hd⟩

/-- it really used a reference for the state-init (F17: before the fix this input raised) -/
example : (Message.serialize tops m0).isSome = true := by decide +kernel

/-- **the bound is tight**: a (valid) header of 1021 bits with a state-init cannot be serialised -/
def mBig : Msg T :=
  ⟨Info.int true false false (Addr.ext 507 0) (Addr.std (some (30, 0)) 0 (List.replicate 32 0))
      ⟨2 ^ 80 - 1, none⟩ 255 0 0 0,
   some ⟨none, none, none, none, none⟩, ([], [])⟩

example : Enc.nbits (encInfo mBig.info) = 1021 ∧ (encInfo mBig.info).isSome ∧ (Message.serialize tops mBig).isSome = false := by
  decide +kernel

/-- ... while the same header without a state-init (1021 + 2 ≤ 1023) can -/
example : (Message.serialize tops { mBig with init := none }).isSome = true := by decide +kernel

end TonVerif.Properties.C15
