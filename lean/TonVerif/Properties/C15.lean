/-
C15 -- messages, state-inits and currency values serialise per block.tlb and round-trip.

`Model.Message.*` mirrors `MessageAny`, the three `CommonMsgInfo` classes, `StateInit`, `TickTock`,
`CurrencyCollection` of pytoniq-core (after the fix of F17); `Spec.Tlb.*` is the independent reading of
block.tlb (encoder with both `Either` choices free, decoder `decodeMessage`).  Cells are abstract:
`ops.make` = `end_cell` (may refuse: depth), `ops.view` = bits and refs of a cell; `Lawful` = `view ∘ make = id`,
`Total` = every cell with at most 1023 bits and 4 refs exists (no depth overflow).
-/
import TonVerif.Proofs.Wrappers
import TonVerif.Proofs.SrcArith2
import TonVerif.Generated.MsgLayout
import TonVerif.Proofs.SrcMsg
import TonVerif.Proofs.SrcMsgSer
import TonVerif.Proofs.SrcWrap

namespace TonVerif.Properties.C15
open TonVerif TonVerif.Model TonVerif.Spec.Tlb TonVerif.Proofs.Message TonVerif.Proofs.MsgBits

variable {R : Type}

/-- **Serialising never fails for lack of room.**  For every message whose header encodes (all amounts and
addresses in range) into `ib` bits with `ib + 3 ≤ 1023` (`ib + 2` without a state-init), every state-init with
a split depth in range and every body cell (any 0..1023 bits, 0..4 refs), `MessageAny.serialize` returns a
cell: parts that do not fit inline are moved into references.  (The only other way to fail is a cell deeper
than 1023, excluded by `Total`.) -/
theorem c15_never_overflows (ops : CellOps R) (hl : ops.Lawful) (ht : ops.Total) (m : Msg R)
    {ib : Bits} {ir : List R} (hinfo : encInfo m.info = some (ib, ir))
    (hI : ib.length + (if m.init.isSome then 3 else 2) ≤ 1023)
    (hinit : ∀ s, m.init = some s → (encStateInit s).isSome)
    (hbody : m.body.1.length ≤ 1023 ∧ m.body.2.length ≤ 4) :
    (Message.serialize ops m).isSome := by
  obtain ⟨i, b, c, _, hs⟩ := serialize_cases ops hl ht m hinfo hI hinit hbody
  simp [hs]

/-- ... and what it returns is one of the (up to four) block.tlb encodings of the message -/
theorem c15_serialize_is_spec_encoding (ops : CellOps R) (hl : ops.Lawful) (ht : ops.Total) (m : Msg R)
    {ib : Bits} {ir : List R} (hinfo : encInfo m.info = some (ib, ir))
    (hI : ib.length + (if m.init.isSome then 3 else 2) ≤ 1023)
    (hinit : ∀ s, m.init = some s → (encStateInit s).isSome)
    (hbody : m.body.1.length ≤ 1023 ∧ m.body.2.length ≤ 4) :
    ∃ initRef bodyRef c, Message.serialize ops m = some c ∧ encMessage ops m initRef bodyRef = some c := by
  obtain ⟨i, b, c, he, hs⟩ := serialize_cases ops hl ht m hinfo hI hinit hbody
  exact ⟨i, b, c, hs, he⟩

/-- **The serialised cell decodes, under the independent reading of block.tlb, to the same logical message**
(same bound as `c15_never_overflows`; `WF`: a zero-length external address carries the value 0; an empty
extra-currency dictionary is `none` in the logical value, so `{}` and `None` are alike by construction). -/
theorem c15_spec_decodes (ops : CellOps R) (hl : ops.Lawful) (ht : ops.Total) (m : Msg R) (hwf : m.info.WF)
    {ib : Bits} {ir : List R} (hinfo : encInfo m.info = some (ib, ir))
    (hI : ib.length + (if m.init.isSome then 3 else 2) ≤ 1023)
    (hinit : ∀ s, m.init = some s → (encStateInit s).isSome)
    (hbody : m.body.1.length ≤ 1023 ∧ m.body.2.length ≤ 4) :
    ∃ c, Message.serialize ops m = some c ∧ decodeMessage ops c = some m := by
  obtain ⟨i, b, c, he, hs⟩ := serialize_cases ops hl ht m hinfo hI hinit hbody
  exact ⟨c, hs, spec_roundtrip ops hl m hwf i b he⟩

/-- the spec decoder inverts the spec encoder for all four inline/reference combinations -/
theorem c15_spec_roundtrip (ops : CellOps R) (hl : ops.Lawful) (m : Msg R) (hwf : m.info.WF) (initRef bodyRef : Bool) {c : R}
    (h : encMessage ops m initRef bodyRef = some c) : decodeMessage ops c = some m :=
  spec_roundtrip ops hl m hwf initRef bodyRef h

/-- the stand-alone `StateInit.serialize` never fails (12 bits, 3 refs at most) and is the spec encoding -/
theorem c15_state_init_serialize (ops : CellOps R) (ht : ops.Total) (s : StateInit R) {sc : Chunk R}
    (h : encStateInit s = some sc) :
    sc.1.length ≤ 12 ∧ sc.2.length ≤ 3 ∧ Message.serializeStateInit ops s = ops.make sc.1 sc.2 ∧
      (Message.serializeStateInit ops s).isSome := by
  have hsz := size_encStateInit s
  obtain ⟨e1, e2⟩ := enc_some_sizes h
  rw [e1, e2] at hsz
  have hrun := ((appends_stateInitB s).run h).1 (by omega)
  have : Message.serializeStateInit ops s = ops.make sc.1 sc.2 := by
    simp [Message.serializeStateInit, Message.cellOf, Message.runB, hrun]
  exact ⟨hsz.1, hsz.2, this, this ▸ ht _ _ (by omega) (by omega)⟩

/-- the stand-alone `CurrencyCollection.serialize` is the spec encoding whenever the amount is a `Grams` -/
theorem c15_currency_serialize (ops : CellOps R) (c : Currency R) {cc : Chunk R}
    (h : encCurrency c = some cc) (hfit : cc.1.length ≤ 1023 ∧ cc.2.length ≤ 4) :
    Message.serializeCurrency ops c = ops.make cc.1 cc.2 := by
  have hrun := ((appends_currencyB c).sub.run h).1 hfit
  simp [Message.serializeCurrency, Message.cellOf, Message.runB, hrun]


/-- **The library's own parser agrees with the independent reading on EVERY valid encoding**: whenever a cell
denotes the message `m` under block.tlb (whatever inline/reference choices its author made, any `VarUInteger`
lengths), `MessageAny.deserialize` returns `m`. No hypothesis on `ops`. -/
theorem c15_own_parser (ops : CellOps R) (c : R) (m : Msg R) (h : decodeMessage ops c = some m) :
    Message.deserialize ops c = some m := own_parser ops c m h

/-- in particular it reads back all four encodings of a message, and its own serialisation -/
theorem c15_own_parser_all_encodings (ops : CellOps R) (hl : ops.Lawful) (m : Msg R) (hwf : m.info.WF)
    (initRef bodyRef : Bool) {c : R} (h : encMessage ops m initRef bodyRef = some c) :
    Message.deserialize ops c = some m :=
  own_parser ops c m (spec_roundtrip ops hl m hwf initRef bodyRef h)

theorem c15_round_trip (ops : CellOps R) (hl : ops.Lawful) (ht : ops.Total) (m : Msg R) (hwf : m.info.WF)
    {ib : Bits} {ir : List R} (hinfo : encInfo m.info = some (ib, ir))
    (hI : ib.length + (if m.init.isSome then 3 else 2) ≤ 1023)
    (hinit : ∀ s, m.init = some s → (encStateInit s).isSome)
    (hbody : m.body.1.length ≤ 1023 ∧ m.body.2.length ≤ 4) :
    ∃ c, Message.serialize ops m = some c ∧ Message.deserialize ops c = some m := by
  obtain ⟨c, hs, hd⟩ := c15_spec_decodes ops hl ht m hwf hinfo hI hinit hbody
  exact ⟨c, hs, own_parser ops c m hd⟩

/-- stand-alone `StateInit`: the spec decoder inverts the encoding, and `StateInit.deserialize` agrees with the
spec decoder on every cell that is a `StateInit` -/
theorem c15_state_init_decodes (ops : CellOps R) (hl : ops.Lawful) (s : StateInit R) {sc : Chunk R} {c : R}
    (h : encStateInit s = some sc) (hc : ops.make sc.1 sc.2 = some c) : decodeStateInit ops c = some s := by
  have hv := hl _ _ _ hc
  have := (rt_stateInit s).toEnd sc h
  simp [decodeStateInit, decodeWhole, hv, this]

theorem c15_state_init_own_parser (ops : CellOps R) (c : R) (s : StateInit R) (h : decodeStateInit ops c = some s) :
    Message.deserializeStateInit ops c = some s := own_parser_stateInit ops c s h

/-- stand-alone `CurrencyCollection` -/
theorem c15_currency_decodes (ops : CellOps R) (hl : ops.Lawful) (v : Currency R) {cc : Chunk R} {c : R}
    (h : encCurrency v = some cc) (hc : ops.make cc.1 cc.2 = some c) : decodeCurrency ops c = some v := by
  have hv := hl _ _ _ hc
  have := (rt_currency v).toEnd cc h
  simp [decodeCurrency, decodeWhole, hv, this]

theorem c15_currency_own_parser (ops : CellOps R) (c : R) (v : Currency R) (h : decodeCurrency ops c = some v) :
    Message.deserializeCurrency ops c = some v := own_parser_currency ops c v h


/-! ## the stand-alone wrappers: wallet data, wallet message, hash update, NFT item / sale data

For every wrapper `W` (spec: `Spec/Tlb/Wrappers.lean`, from the contracts' storage layouts; model:
`Model/Wrappers.lean`, from the Python code) three theorems, as for `StateInit`:
* `c15_<w>_serialize`   -- `W.serialize` never fails for fields in range and returns the cell of the spec encoding;
* `c15_<w>_decodes`     -- the spec decoder reads that cell back to the value;
* `c15_<w>_own_parser`  -- `W.deserialize` returns what the spec decoder returns on EVERY cell the decoder accepts.
`HighloadWalletData` and `WalletMessage` are modelled after the fix of F23 (before it the first dropped `old_queries` and the
second could not be parsed); they additionally get the full round trip that used to fail. -/

/-! ### `WalletV3Data` -/

/-- `WalletV3Data(seqno, wallet_id, public_key).serialize()` with `seqno`, `wallet_id` < 2^32 and a 32-byte key
never fails and is the 320-bit cell `seqno:uint32 wallet_id:uint32 public_key:bits256`. -/
theorem c15_wallet_v3_serialize (ops : CellOps R) (ht : ops.Total) (w : WalletV3)
    (hs : 0 ≤ w.seqno ∧ w.seqno < 2 ^ 32) (hi : 0 ≤ w.walletId ∧ w.walletId < 2 ^ 32)
    (hk : w.publicKey.length = 32 ∧ Bytes.WF w.publicKey) :
    ∃ ch : Chunk R, encWalletV3 w = some ch ∧ ch.1.length = 320 ∧ ch.2.length = 0 ∧
      Message.serializeWalletV3 ops w = ops.make ch.1 ch.2 ∧ (Message.serializeWalletV3 ops w).isSome := by
  have he : (encWalletV3 w : Enc R) = some (natToBits 32 w.seqno.toNat ++ (natToBits 32 w.walletId.toNat ++ bytesToBits w.publicKey),
      [] ++ ([] ++ [])) := by
    simp only [encWalletV3, eUint_of_range 32 _ hs.1 hs.2, eUint_of_range 32 _ hi.1 hi.2, eBytes_of 32 _ hk.1 hk.2, Enc.cat]
  have hlen : (natToBits 32 w.seqno.toNat ++ (natToBits 32 w.walletId.toNat ++ bytesToBits w.publicKey)).length = 320 := by
    simp [natToBits_length, bytesToBits_length, hk.1]
  have hser := cellOf_of_appends ops (appends_walletV3B w) he (by simp [hlen])
  exact ⟨_, he, hlen, by simp, hser, by rw [Message.serializeWalletV3, hser]; exact ht _ _ (by simp [hlen]) (by simp)⟩

theorem c15_wallet_v3_decodes (ops : CellOps R) (hl : ops.Lawful) (w : WalletV3) {ch : Chunk R} {c : R}
    (h : encWalletV3 w = some ch) (hc : ops.make ch.1 ch.2 = some c) : decodeWalletV3 ops c = some w :=
  decode_of_rt ops hl (rt_walletV3 w) h hc

theorem c15_wallet_v3_own_parser (ops : CellOps R) (c : R) (w : WalletV3) (h : decodeWalletV3 ops c = some w) :
    Message.deserializeWalletV3 ops c = some w := parse_of_ref ops ref_loadWalletV3 h

/-! ### `WalletV4Data` -/

/-- as v3, followed by the plugin dictionary (`Maybe ^Cell`): 321 bits, at most one reference, never fails -/
theorem c15_wallet_v4_serialize (ops : CellOps R) (ht : ops.Total) (w : WalletV4 R)
    (hs : 0 ≤ w.seqno ∧ w.seqno < 2 ^ 32) (hi : 0 ≤ w.walletId ∧ w.walletId < 2 ^ 32)
    (hk : w.publicKey.length = 32 ∧ Bytes.WF w.publicKey) :
    ∃ ch : Chunk R, encWalletV4 w = some ch ∧ ch.1.length = 321 ∧ ch.2.length ≤ 1 ∧
      Message.serializeWalletV4 ops w = ops.make ch.1 ch.2 ∧ (Message.serializeWalletV4 ops w).isSome := by
  obtain ⟨pc, hp, hp1, hp2⟩ := eMaybeRef_some w.plugins
  have he : encWalletV4 w = some (natToBits 32 w.seqno.toNat ++ (natToBits 32 w.walletId.toNat ++ (bytesToBits w.publicKey ++ pc.1)),
      [] ++ ([] ++ ([] ++ pc.2))) := by
    simp only [encWalletV4, eUint_of_range 32 _ hs.1 hs.2, eUint_of_range 32 _ hi.1 hi.2, eBytes_of 32 _ hk.1 hk.2, hp, Enc.cat]
  have hlen : (natToBits 32 w.seqno.toNat ++ (natToBits 32 w.walletId.toNat ++ (bytesToBits w.publicKey ++ pc.1))).length = 321 := by
    simp [natToBits_length, bytesToBits_length, hk.1, hp1]
  have hr : (([] : List R) ++ ([] ++ ([] ++ pc.2))).length ≤ 1 := by simpa using hp2
  have hser := cellOf_of_appends ops (appends_walletV4B w) he ⟨by rw [hlen]; omega, Nat.le_trans hr (by omega)⟩
  exact ⟨_, he, hlen, hr, hser, by rw [Message.serializeWalletV4, hser]; exact ht _ _ (by rw [hlen]; omega) (Nat.le_trans hr (by omega))⟩

theorem c15_wallet_v4_decodes (ops : CellOps R) (hl : ops.Lawful) (w : WalletV4 R) {ch : Chunk R} {c : R}
    (h : encWalletV4 w = some ch) (hc : ops.make ch.1 ch.2 = some c) : decodeWalletV4 ops c = some w :=
  decode_of_rt ops hl (rt_walletV4 w) h hc

theorem c15_wallet_v4_own_parser (ops : CellOps R) (c : R) (w : WalletV4 R) (h : decodeWalletV4 ops c = some w) :
    Message.deserializeWalletV4 ops c = some w := parse_of_ref ops ref_loadWalletV4 h

/-! ### `HighloadWalletData` (after the fix of F23: `serialize` used to drop `old_queries`) -/

/-- `HighloadWalletData.serialize` never fails for fields in range and is
`wallet_id:uint32 last_cleaned:uint64 public_key:bits256 old_queries:(HashmapE 64 …)`: 353 bits, the dictionary root (if any)
as the only reference. -/
theorem c15_highload_serialize (ops : CellOps R) (ht : ops.Total) (w : Highload R)
    (hi : 0 ≤ w.walletId ∧ w.walletId < 2 ^ 32) (hc : 0 ≤ w.lastCleaned ∧ w.lastCleaned < 2 ^ 64)
    (hk : w.publicKey.length = 32 ∧ Bytes.WF w.publicKey) :
    ∃ ch : Chunk R, encHighload w = some ch ∧ ch.1.length = 353 ∧ ch.2.length ≤ 1 ∧
      Message.serializeHighload ops w = ops.make ch.1 ch.2 ∧ (Message.serializeHighload ops w).isSome := by
  obtain ⟨pc, hp, hp1, hp2⟩ := eMaybeRef_some w.oldQueries
  have he : encHighload w =
      some (natToBits 32 w.walletId.toNat ++ (natToBits 64 w.lastCleaned.toNat ++ (bytesToBits w.publicKey ++ pc.1)),
        [] ++ ([] ++ ([] ++ pc.2))) := by
    simp only [encHighload, eUint_of_range 32 _ hi.1 hi.2, eUint_of_range 64 _ hc.1 hc.2, eBytes_of 32 _ hk.1 hk.2, hp, Enc.cat]
  have hlen : (natToBits 32 w.walletId.toNat ++ (natToBits 64 w.lastCleaned.toNat ++ (bytesToBits w.publicKey ++ pc.1))).length = 353 := by
    simp [natToBits_length, bytesToBits_length, hk.1, hp1]
  have hr : (([] : List R) ++ ([] ++ ([] ++ pc.2))).length ≤ 1 := by simpa using hp2
  have hser := cellOf_of_appends ops (appends_highloadB w) he ⟨by rw [hlen]; omega, Nat.le_trans hr (by omega)⟩
  exact ⟨_, he, hlen, hr, hser, by rw [Message.serializeHighload, hser]; exact ht _ _ (by rw [hlen]; omega) (Nat.le_trans hr (by omega))⟩

theorem c15_highload_decodes (ops : CellOps R) (hl : ops.Lawful) (w : Highload R) {ch : Chunk R} {c : R}
    (h : encHighload w = some ch) (hc : ops.make ch.1 ch.2 = some c) : decodeHighload ops c = some w :=
  decode_of_rt ops hl (rt_highload w) h hc

/-- `HighloadWalletData.deserialize` reads every valid cell as the spec decoder does (the dictionary as its root cell; each
value of it is read by `WalletMessage.deserialize`, see `c15_wallet_message_own_parser`) -/
theorem c15_highload_own_parser (ops : CellOps R) (c : R) (w : Highload R) (h : decodeHighload ops c = some w) :
    Message.deserializeHighload ops c = some w := parse_of_ref ops ref_loadHighload h

/-- **full round trip, old queries included** (this is the statement that failed before the fix of F23) -/
theorem c15_highload_round_trip (ops : CellOps R) (hl : ops.Lawful) (ht : ops.Total) (w : Highload R)
    (hi : 0 ≤ w.walletId ∧ w.walletId < 2 ^ 32) (hc : 0 ≤ w.lastCleaned ∧ w.lastCleaned < 2 ^ 64)
    (hk : w.publicKey.length = 32 ∧ Bytes.WF w.publicKey) :
    ∃ c, Message.serializeHighload ops w = some c ∧ decodeHighload ops c = some w ∧
      Message.deserializeHighload ops c = some w := by
  obtain ⟨ch, he, _, _, hser, hsome⟩ := c15_highload_serialize ops ht w hi hc hk
  obtain ⟨c, hcell⟩ := Option.isSome_iff_exists.mp hsome
  have hd := c15_highload_decodes ops hl w he (hser ▸ hcell)
  exact ⟨c, hcell, hd, c15_highload_own_parser ops c w hd⟩

/-! ### `WalletMessage` (after the fix of F23: `deserialize` used to be a stub) -/

/-- `WalletMessage(send_mode, message).serialize()` with `send_mode` < 256 and a message within the bound of
`c15_never_overflows` never fails and is `send_mode:uint8 message:^(Message Any)`, the reference holding one of the
block.tlb encodings of the message. -/
theorem c15_wallet_message_serialize (ops : CellOps R) (hl : ops.Lawful) (ht : ops.Total) (w : WalletMsg R)
    (hmode : 0 ≤ w.sendMode ∧ w.sendMode < 256)
    {ib : Bits} {ir : List R} (hinfo : encInfo w.message.info = some (ib, ir))
    (hI : ib.length + (if w.message.init.isSome then 3 else 2) ≤ 1023)
    (hinit : ∀ s, w.message.init = some s → (encStateInit s).isSome)
    (hbody : w.message.body.1.length ≤ 1023 ∧ w.message.body.2.length ≤ 4) :
    ∃ initRef bodyRef, ∃ ch : Chunk R, encWalletMsg ops w initRef bodyRef = some ch ∧ ch.1.length = 8 ∧ ch.2.length = 1 ∧
      Message.serializeWalletMsg ops w = ops.make ch.1 ch.2 ∧ (Message.serializeWalletMsg ops w).isSome := by
  obtain ⟨i, b, c, he, hs⟩ := serialize_cases ops hl ht w.message hinfo hI hinit hbody
  have h1 := encWalletMsg_eq ops w hmode i b he
  have h2 := serializeWalletMsg_eq ops w hmode hs
  refine ⟨i, b, _, h1, by simp [natToBits_length], by simp, h2, ?_⟩
  rw [h2]; exact ht _ _ (by simp [natToBits_length]) (by simp)

/-- every spec encoding of a wallet message (either `Either` choice inside the referenced message) decodes to it -/
theorem c15_wallet_message_decodes (ops : CellOps R) (hl : ops.Lawful) (w : WalletMsg R) (hwf : w.message.info.WF)
    (initRef bodyRef : Bool) {ch : Chunk R} {c : R}
    (h : encWalletMsg ops w initRef bodyRef = some ch) (hc : ops.make ch.1 ch.2 = some c) :
    decodeWalletMsg ops c = some w :=
  decode_of_rt ops hl (rt_walletMsg ops hl w hwf initRef bodyRef) h hc

/-- `WalletMessage.deserialize` returns what the spec decoder returns on every cell that is a wallet message (whatever
`Either` choices the referenced message uses) -/
theorem c15_wallet_message_own_parser (ops : CellOps R) (c : R) (w : WalletMsg R) (h : decodeWalletMsg ops c = some w) :
    Message.deserializeWalletMsg ops c = some w := parse_of_ref ops (ref_loadWalletMsg ops) h

/-- round trip of `WalletMessage` (this is the statement that failed before the fix of F23) -/
theorem c15_wallet_message_round_trip (ops : CellOps R) (hl : ops.Lawful) (ht : ops.Total) (w : WalletMsg R)
    (hwf : w.message.info.WF) (hmode : 0 ≤ w.sendMode ∧ w.sendMode < 256)
    {ib : Bits} {ir : List R} (hinfo : encInfo w.message.info = some (ib, ir))
    (hI : ib.length + (if w.message.init.isSome then 3 else 2) ≤ 1023)
    (hinit : ∀ s, w.message.init = some s → (encStateInit s).isSome)
    (hbody : w.message.body.1.length ≤ 1023 ∧ w.message.body.2.length ≤ 4) :
    ∃ c, Message.serializeWalletMsg ops w = some c ∧ decodeWalletMsg ops c = some w ∧
      Message.deserializeWalletMsg ops c = some w := by
  obtain ⟨i, b, ch, he, _, _, hser, hsome⟩ := c15_wallet_message_serialize ops hl ht w hmode hinfo hI hinit hbody
  obtain ⟨c, hc⟩ := Option.isSome_iff_exists.mp hsome
  have hd := c15_wallet_message_decodes ops hl w hwf i b he (hser ▸ hc)
  exact ⟨c, hc, hd, c15_wallet_message_own_parser ops c w hd⟩

/-! ### `HashUpdate` -/

/-- `HashUpdate(old, new).serialize()` with two 32-byte hashes never fails and is `#72 old_hash:bits256 new_hash:bits256` -/
theorem c15_hash_update_serialize (ops : CellOps R) (ht : ops.Total) (h : HashUpd)
    (ho : h.oldHash.length = 32 ∧ Bytes.WF h.oldHash) (hn : h.newHash.length = 32 ∧ Bytes.WF h.newHash) :
    ∃ ch : Chunk R, encHashUpd h = some ch ∧ ch.1.length = 520 ∧ ch.2.length = 0 ∧
      Message.serializeHashUpd ops h = ops.make ch.1 ch.2 ∧ (Message.serializeHashUpd ops h).isSome := by
  have he : (encHashUpd h : Enc R) = some (bytesToBits [0x72] ++ (bytesToBits h.oldHash ++ bytesToBits h.newHash), [] ++ ([] ++ [])) := by
    simp only [encHashUpd, eBytes_of 1 [0x72] rfl (by decide), eBytes_of 32 _ ho.1 ho.2, eBytes_of 32 _ hn.1 hn.2, Enc.cat]
  have hlen : (bytesToBits [0x72] ++ (bytesToBits h.oldHash ++ bytesToBits h.newHash)).length = 520 := by
    simp [bytesToBits_length, ho.1, hn.1]
  have hser := cellOf_of_appends ops (appends_hashUpdateB h) he (by simp [hlen])
  exact ⟨_, he, hlen, by simp, hser, by rw [Message.serializeHashUpd, hser]; exact ht _ _ (by simp [hlen]) (by simp)⟩

theorem c15_hash_update_decodes (ops : CellOps R) (hl : ops.Lawful) (h : HashUpd) {ch : Chunk R} {c : R}
    (he : encHashUpd h = some ch) (hc : ops.make ch.1 ch.2 = some c) : decodeHashUpd ops c = some h :=
  decode_of_rt ops hl (rt_hashUpd h) he hc

theorem c15_hash_update_own_parser (ops : CellOps R) (c : R) (h : HashUpd) (hd : decodeHashUpd ops c = some h) :
    Message.deserializeHashUpd ops c = some h := parse_of_ref ops ref_loadHashUpdate hd

/-! ### `NftItemData` -/

/-- `NftItemData.serialize` is the cell of `index:uint64 collection:MsgAddress owner:MsgAddress content:^Cell` whenever
the fields are in range (= the encoding exists) and it fits a cell; it fails exactly when it does not fit. -/
theorem c15_nft_item_serialize (ops : CellOps R) (n : NftItem R) {ch : Chunk R} (h : encNftItem n = some ch) :
    (ch.1.length ≤ 1023 → Message.serializeNftItem ops n = ops.make ch.1 ch.2) ∧
    (¬ ch.1.length ≤ 1023 → Message.serializeNftItem ops n = none) ∧ ch.2.length = 1 := by
  have hr : ch.2.length = 1 := by
    have h1 : Enc.nrefs (encNftItem n) ≤ 1 :=
      nrefs_cat_le (x := 0) (y := 1) (nrefs_eUint _ _) (nrefs_cat_le (x := 0) (y := 1) (nrefs_eAddr _)
        (nrefs_cat_le (x := 0) (y := 1) (nrefs_eAddr _) (nrefs_eRef _)))
    rw [(enc_some_sizes h).2] at h1
    unfold encNftItem at h
    obtain ⟨_, y1, _, hy1, rfl⟩ := Enc.cat_some h
    obtain ⟨_, y2, _, hy2, rfl⟩ := Enc.cat_some hy1
    obtain ⟨_, y3, _, hy3, rfl⟩ := Enc.cat_some hy2
    simp only [eRef, Option.some.injEq] at hy3
    subst hy3
    simp only [List.length_append, List.length_cons, List.length_nil] at h1 ⊢
    omega
  refine ⟨fun hf => cellOf_of_appends ops (appends_nftItemB n) h ⟨hf, by omega⟩,
    fun hf => cellOf_of_appends_none ops (appends_nftItemB n) h (fun hh => hf hh.1), hr⟩

/-- with a collection and an owner that are not `addr_extern` (`addr_std`, with or without anycast, or `addr_none`)
it always fits: at most 64 + 302 + 302 bits -/
theorem c15_nft_item_never_overflows (ops : CellOps R) (ht : ops.Total) (n : NftItem R) {ch : Chunk R}
    (h : encNftItem n = some ch) (hc : ∀ l v, n.collection ≠ Addr.ext l v) (ho : ∀ l v, n.owner ≠ Addr.ext l v) :
    ch.1.length ≤ 668 ∧ (Message.serializeNftItem ops n).isSome := by
  have hb : Enc.nbits (encNftItem n) ≤ 64 + (302 + (302 + 0)) :=
    nbits_cat_le (nbits_eUint _ _) (nbits_cat_le (nbits_eAddr_nonext _ hc) (nbits_cat_le (nbits_eAddr_nonext _ ho) (nbits_eRef _)))
  rw [(enc_some_sizes h).1] at hb
  obtain ⟨h1, _, h3⟩ := c15_nft_item_serialize ops n h
  refine ⟨by omega, ?_⟩
  rw [h1 (by omega)]; exact ht _ _ (by omega) (by omega)

theorem c15_nft_item_decodes (ops : CellOps R) (hl : ops.Lawful) (n : NftItem R) (hwf : n.WF) {ch : Chunk R} {c : R}
    (h : encNftItem n = some ch) (hc : ops.make ch.1 ch.2 = some c) : decodeNftItem ops c = some n :=
  decode_of_rt ops hl (rt_nftItem n hwf.1 hwf.2) h hc

theorem c15_nft_item_own_parser (ops : CellOps R) (c : R) (n : NftItem R) (h : decodeNftItem ops c = some n) :
    Message.deserializeNftItem ops c = some n := parse_of_ref ops ref_loadNftItem h

/-! ### `NftItemSaleFees`, `NftItemSaleData` -/

theorem c15_sale_fees_serialize (ops : CellOps R) (f : SaleFees) {ch : Chunk R} (h : encSaleFees f = some ch) :
    (ch.1.length ≤ 1023 → Message.serializeSaleFees ops f = ops.make ch.1 ch.2) ∧
    (¬ ch.1.length ≤ 1023 → Message.serializeSaleFees ops f = none) ∧ ch.2.length = 0 := by
  have hr : ch.2.length = 0 := by
    have h1 : Enc.nrefs (encSaleFees f : Enc R) ≤ 0 :=
      nrefs_cat_le (x := 0) (y := 0) (nrefs_eAddr _) (nrefs_cat_le (x := 0) (y := 0) (nrefs_eGrams _)
        (nrefs_cat_le (x := 0) (y := 0) (nrefs_eAddr _) (nrefs_eGrams _)))
    rw [(enc_some_sizes h).2] at h1; omega
  refine ⟨fun hf => cellOf_of_appends ops (appends_saleFeesB f) h ⟨hf, by omega⟩,
    fun hf => cellOf_of_appends_none ops (appends_saleFeesB f) h (fun hh => hf hh.1), hr⟩

/-- with fee addresses that are not `addr_extern` it always fits: at most 302 + 124 + 302 + 124 bits -/
theorem c15_sale_fees_never_overflows (ops : CellOps R) (ht : ops.Total) (f : SaleFees) {ch : Chunk R}
    (h : encSaleFees f = some ch) (ha : ∀ l v, f.marketplaceFeeAddress ≠ Addr.ext l v) (hb : ∀ l v, f.royaltyAddress ≠ Addr.ext l v) :
    ch.1.length ≤ 852 ∧ (Message.serializeSaleFees ops f).isSome := by
  have hbits : Enc.nbits (encSaleFees f : Enc R) ≤ 302 + (124 + (302 + 124)) :=
    nbits_cat_le (nbits_eAddr_nonext _ ha) (nbits_cat_le (nbits_eGrams _) (nbits_cat_le (nbits_eAddr_nonext _ hb) (nbits_eGrams _)))
  rw [(enc_some_sizes h).1] at hbits
  obtain ⟨h1, _, h3⟩ := c15_sale_fees_serialize ops f h
  refine ⟨by omega, ?_⟩
  rw [h1 (by omega)]; exact ht _ _ (by omega) (by omega)

theorem c15_sale_fees_decodes (ops : CellOps R) (hl : ops.Lawful) (f : SaleFees) (hwf : f.WF) {ch : Chunk R} {c : R}
    (h : encSaleFees f = some ch) (hc : ops.make ch.1 ch.2 = some c) : decodeSaleFees ops c = some f :=
  decode_of_rt ops hl (rt_saleFees f hwf) h hc

theorem c15_sale_fees_own_parser (ops : CellOps R) (c : R) (f : SaleFees) (h : decodeSaleFees ops c = some f) :
    Message.deserializeSaleFees ops c = some f := parse_of_ref ops ref_loadSaleFees h

/-- `NftItemSaleData.serialize` is the cell of `is_complete:Bool created_at:uint32 marketplace nft nft_owner:MsgAddress
full_price:Grams fees_cell:^NftItemSaleFees can_deploy_by_external:Bool` whenever that encoding exists (fields in range,
the fees fit their own cell) and fits a cell. -/
theorem c15_sale_data_serialize (ops : CellOps R) (s : SaleData) {ch : Chunk R} (h : encSaleData ops s = some ch)
    (hfit : ch.1.length ≤ 1023 ∧ ch.2.length ≤ 4) : Message.serializeSaleData ops s = ops.make ch.1 ch.2 :=
  serializeSaleData_eq ops s h hfit

/-- with marketplace / nft / owner addresses that are `addr_none` or `addr_std` without anycast it always fits (at most
1 + 32 + 3·267 + 124 + 1 = 959 bits, one reference), so `NftItemSaleData.serialize` never fails once the fields are in range
and the fees fit their own cell.  (Three anycast addresses and a maximal price make 1064 bits: that value has no cell.) -/
theorem c15_sale_data_never_overflows (ops : CellOps R) (ht : ops.Total) (s : SaleData) {ch : Chunk R}
    (h : encSaleData ops s = some ch) (hm : PlainAddr s.marketplace) (hn : PlainAddr s.nft) (ho : PlainAddr s.nftOwner) :
    ch.1.length ≤ 959 ∧ ch.2.length ≤ 1 ∧ (Message.serializeSaleData ops s).isSome := by
  obtain ⟨hb, hr⟩ := size_encSaleData ops s hm hn ho
  rw [(enc_some_sizes h).1] at hb
  rw [(enc_some_sizes h).2] at hr
  refine ⟨hb, hr, ?_⟩
  rw [serializeSaleData_eq ops s h ⟨by omega, by omega⟩]
  exact ht _ _ (by omega) (by omega)

theorem c15_sale_data_decodes (ops : CellOps R) (hl : ops.Lawful) (s : SaleData) (hwf : s.WF) {ch : Chunk R} {c : R}
    (h : encSaleData ops s = some ch) (hc : ops.make ch.1 ch.2 = some c) : decodeSaleData ops c = some s :=
  decode_of_rt ops hl (rt_saleData ops hl s hwf) h hc

theorem c15_sale_data_own_parser (ops : CellOps R) (c : R) (s : SaleData) (h : decodeSaleData ops c = some s) :
    Message.deserializeSaleData ops c = some s := parse_of_ref ops (ref_loadSaleData ops) h

/-! ### `Message X` proper: the strict reading -/

/-- the strict reader returns only messages whose addresses are in the classes block.tlb names (`int_msg_info`: both
`MsgAddressInt`; `ext_in_msg_info`: `src:MsgAddressExt dest:MsgAddressInt`; `ext_out_msg_info`: the converse), it agrees
with the union-class reader, and the library's parser returns the same message -/
theorem c15_strict_sound (ops : CellOps R) (c : R) (m : Msg R) (h : decodeMessageStrict ops c = some m) :
    m.info.Conforms ∧ decodeMessage ops c = some m ∧ Message.deserialize ops c = some m := by
  unfold decodeMessageStrict at h
  obtain ⟨m', hm', hif⟩ := Option.bind_eq_some_iff.mp h
  split at hif
  · rename_i hc
    cases hif
    exact ⟨hc, hm', own_parser ops c _ hm'⟩
  · simp at hif

theorem c15_strict_complete (ops : CellOps R) (c : R) (m : Msg R) (hd : decodeMessage ops c = some m)
    (hc : m.info.Conforms) : decodeMessageStrict ops c = some m := by
  simp [decodeMessageStrict, hd, hc]

/-- a message of `Message X` proper serialises (under the bound of `c15_never_overflows`) to a cell that the STRICT
reader maps back to it -/
theorem c15_strict_round_trip (ops : CellOps R) (hl : ops.Lawful) (ht : ops.Total) (m : Msg R) (hwf : m.info.WF)
    (hconf : m.info.Conforms)
    {ib : Bits} {ir : List R} (hinfo : encInfo m.info = some (ib, ir))
    (hI : ib.length + (if m.init.isSome then 3 else 2) ≤ 1023)
    (hinit : ∀ s, m.init = some s → (encStateInit s).isSome)
    (hbody : m.body.1.length ≤ 1023 ∧ m.body.2.length ≤ 4) :
    ∃ c, Message.serialize ops m = some c ∧ decodeMessageStrict ops c = some m := by
  obtain ⟨c, hs, hd⟩ := c15_spec_decodes ops hl ht m hwf hinfo hI hinit hbody
  exact ⟨c, hs, c15_strict_complete ops c m hd hconf⟩

/-- what `Conforms` says, constructor by constructor -/
theorem c15_conforms_iff (i : Info R) :
    i.Conforms ↔ match i with
      | .int _ _ _ src dest _ _ _ _ _ => (∃ a w h, src = Addr.std a w h) ∧ (∃ a w h, dest = Addr.std a w h)
      | .extIn src dest _ => (src = Addr.none ∨ ∃ l v, src = Addr.ext l v) ∧ (∃ a w h, dest = Addr.std a w h)
      | .extOut src dest _ _ => (∃ a w h, src = Addr.std a w h) ∧ (dest = Addr.none ∨ ∃ l v, dest = Addr.ext l v) := by
  have hint : ∀ a : Addr, Addr.isInt a = true ↔ ∃ x w h, a = Addr.std x w h := by
    intro a; cases a <;> simp [Addr.isInt]
  have hext : ∀ a : Addr, Addr.isExt a = true ↔ (a = Addr.none ∨ ∃ l v, a = Addr.ext l v) := by
    intro a; cases a <;> simp [Addr.isExt]
  cases i <;> simp only [Info.Conforms, hint, hext]

/-- **For `Message X` proper no size hypothesis is needed**: a message whose addresses are in the classes block.tlb names
(and, if internal, carry no anycast) has a header of at most 1007 bits, so whenever its fields are in range it serialises,
with any state-init and any body, to a cell that the strict reader and the library's parser map back to it.  (With anycast
in an internal header the bound can be exceeded: 4 + 2·302 + 125 + 2·124 + 96 = 1077 bits.) -/
theorem c15_conforming_round_trip (ops : CellOps R) (hl : ops.Lawful) (ht : ops.Total) (m : Msg R) (hwf : m.info.WF)
    (hconf : m.info.Conforms) (hna : m.info.IntNoAnycast) (hinfo : (encInfo m.info).isSome)
    (hinit : ∀ s, m.init = some s → (encStateInit s).isSome)
    (hbody : m.body.1.length ≤ 1023 ∧ m.body.2.length ≤ 4) :
    ∃ c, Message.serialize ops m = some c ∧ decodeMessageStrict ops c = some m ∧ Message.deserialize ops c = some m := by
  obtain ⟨⟨ib, ir⟩, h⟩ := Option.isSome_iff_exists.mp hinfo
  have hb := nbits_encInfo_conforms m.info hconf hna
  rw [(enc_some_sizes h).1] at hb
  have hI : ib.length + (if m.init.isSome then 3 else 2) ≤ 1023 := by
    have : ib.length ≤ 1007 := hb
    split <;> omega
  obtain ⟨c, hs, hd⟩ := c15_strict_round_trip ops hl ht m hwf hconf h hI hinit hbody
  exact ⟨c, hs, hd, (c15_strict_sound ops c m hd).2.2⟩

/-! ### non-vacuity and tightness on a concrete cell type -/

inductive T where
  | mk (bits : Bits) (refs : List T)

def tops : CellOps T := ⟨fun b r => some (T.mk b r), fun c => match c with | .mk b r => (b, r)⟩

theorem tops_lawful : tops.Lawful := by
  intro b r c h; simp [tops] at h; subst h; rfl

theorem tops_total : tops.Total := by
  intro b r _ _; simp [tops]

def leaf : T := .mk [true, false, true] []

/-- an internal message with extra currencies, a 3-ref state-init and a body with a ref (the F17 shape) -/
def m0 : Msg T :=
  ⟨Info.int true false false (Addr.std none 0 (List.replicate 32 17)) (Addr.std (some (3, 5)) (-1) (List.replicate 32 255))
      ⟨1000000000, some leaf⟩ 0 300 77 1700000000,
   some ⟨some 5, some ⟨true, false⟩, some leaf, some leaf, some leaf⟩,
   ([true, true, false], [leaf])⟩

example : Enc.nbits (encInfo m0.info) + 3 ≤ 1023 ∧ (encInfo m0.info).isSome := by decide +kernel

/-- the hypotheses of the three theorems are met by `m0`: it serialises, decodes and parses back -/
example : ∃ c, Message.serialize tops m0 = some c ∧ decodeMessage tops c = some m0 ∧ Message.deserialize tops c = some m0 := by
  obtain ⟨⟨ib, ir⟩, h⟩ := Option.isSome_iff_exists.mp (show (encInfo m0.info).isSome = true by decide +kernel)
  have hlen : Enc.nbits (encInfo m0.info) + 3 ≤ 1023 := by decide +kernel
  rw [(enc_some_sizes h).1] at hlen
  have hwf : m0.info.WF := by simp [m0, Info.WF, AddrWF]
  have hinit : ∀ s, m0.init = some s → (encStateInit s).isSome := by
    intro s hs; simp [m0] at hs; subst hs; decide +kernel
  obtain ⟨c, hs, hd⟩ := c15_spec_decodes tops tops_lawful tops_total m0 hwf h (by simpa [m0] using hlen) hinit (by simp [m0])
  exact ⟨c, hs, hd, c15_own_parser tops c m0 hd⟩

/-- it really used a reference for the state-init (F17: before the fix this input raised) -/
example : (Message.serialize tops m0).isSome = true := by decide +kernel

/-- **the bound is tight**: a (valid) header of 1021 bits with a state-init cannot be serialised -/
def mBig : Msg T :=
  ⟨Info.int true false false (Addr.ext 507 0) (Addr.std (some (30, 0)) 0 (List.replicate 32 0))
      ⟨2 ^ 80 - 1, none⟩ 255 0 0 0,
   some ⟨none, none, none, none, none⟩, ([], [])⟩

example : Enc.nbits (encInfo mBig.info) = 1021 ∧ (encInfo mBig.info).isSome ∧ (Message.serialize tops mBig).isSome = false := by
  decide +kernel

/-- ... while the same header without a state-init (1021 + 2 ≤ 1023) can -/
example : (Message.serialize tops { mBig with init := none }).isSome = true := by decide +kernel


/-! ### the wrappers: the hypotheses are met by concrete values, and the two F23 statements bite -/

def key7 : Bytes := List.replicate 32 7

/-- boundary seqno 2^32 - 1, the default wallet id -/
def w3 : WalletV3 := ⟨2 ^ 32 - 1, 698983191, key7⟩

example : ∃ c, Message.serializeWalletV3 tops w3 = some c ∧ decodeWalletV3 tops c = some w3 ∧
    Message.deserializeWalletV3 tops c = some w3 := by
  obtain ⟨ch, he, _, _, hser, hsome⟩ := c15_wallet_v3_serialize tops tops_total w3 (by decide) (by decide) (by decide)
  obtain ⟨c, hc⟩ := Option.isSome_iff_exists.mp hsome
  have hd := c15_wallet_v3_decodes tops tops_lawful w3 he (hser ▸ hc)
  exact ⟨c, hc, hd, c15_wallet_v3_own_parser tops c w3 hd⟩

/-- the library does not check the key length: a 1-byte key "serialises", to a cell that is no `WalletV3Data` -/
example : (Message.serializeWalletV3 tops ⟨0, 0, [1]⟩).isSome = true ∧ (encWalletV3 ⟨0, 0, [1]⟩ : Enc T) = none := by
  decide +kernel

def w4 : WalletV4 T := ⟨0, 2 ^ 32 - 1, key7, some leaf⟩

example : ∃ c, Message.serializeWalletV4 tops w4 = some c ∧ decodeWalletV4 tops c = some w4 ∧
    Message.deserializeWalletV4 tops c = some w4 := by
  obtain ⟨ch, he, _, _, hser, hsome⟩ := c15_wallet_v4_serialize tops tops_total w4 (by decide) (by decide) (by decide)
  obtain ⟨c, hc⟩ := Option.isSome_iff_exists.mp hsome
  have hd := c15_wallet_v4_decodes tops tops_lawful w4 he (hser ▸ hc)
  exact ⟨c, hc, hd, c15_wallet_v4_own_parser tops c w4 hd⟩

/-- a highload wallet with a (non-empty) query dictionary round-trips (before the fix of F23 it did not) -/
def hq : Highload T := ⟨1, 2 ^ 64 - 1, key7, some leaf⟩

example : ∃ c, Message.serializeHighload tops hq = some c ∧ decodeHighload tops c = some hq ∧
    Message.deserializeHighload tops c = some hq :=
  c15_highload_round_trip tops tops_lawful tops_total hq (by decide) (by decide) (by decide)

/-- a wallet message around `m0` -/
def wm0 : WalletMsg T := ⟨3, m0⟩

example : ∃ c, Message.serializeWalletMsg tops wm0 = some c ∧ decodeWalletMsg tops c = some wm0 ∧
    Message.deserializeWalletMsg tops c = some wm0 := by
  obtain ⟨⟨ib, ir⟩, h⟩ := Option.isSome_iff_exists.mp (show (encInfo m0.info).isSome = true by decide +kernel)
  have hlen : Enc.nbits (encInfo m0.info) + 3 ≤ 1023 := by decide +kernel
  rw [(enc_some_sizes h).1] at hlen
  have hwf : m0.info.WF := by simp [m0, Info.WF, AddrWF]
  have hinit : ∀ s, m0.init = some s → (encStateInit s).isSome := by
    intro s hs; simp [m0] at hs; subst hs; decide +kernel
  exact c15_wallet_message_round_trip tops tops_lawful tops_total wm0 hwf (by decide) h
    (by simpa [wm0, m0] using hlen) hinit (by simp [wm0, m0])

def hu0 : HashUpd := ⟨key7, List.replicate 32 255⟩

example : ∃ c, Message.serializeHashUpd tops hu0 = some c ∧ decodeHashUpd tops c = some hu0 ∧
    Message.deserializeHashUpd tops c = some hu0 := by
  obtain ⟨ch, he, _, _, hser, hsome⟩ := c15_hash_update_serialize (R := T) tops tops_total hu0 (by decide) (by decide)
  obtain ⟨c, hc⟩ := Option.isSome_iff_exists.mp hsome
  have hd := c15_hash_update_decodes tops tops_lawful hu0 he (hser ▸ hc)
  exact ⟨c, hc, hd, c15_hash_update_own_parser tops c hu0 hd⟩

/-- the tag `#72` -/
example : bytesToBits [0x72] = [false, true, true, true, false, false, true, false] := by decide

/-- an NFT item with the maximal index, an anycast collection address and NO owner (`addr_none`) -/
def nft0 : NftItem T := ⟨2 ^ 64 - 1, Addr.std (some (30, 1)) (-1) key7, Addr.none, leaf⟩

example : ∃ c, Message.serializeNftItem tops nft0 = some c ∧ decodeNftItem tops c = some nft0 ∧
    Message.deserializeNftItem tops c = some nft0 := by
  obtain ⟨ch, h⟩ := Option.isSome_iff_exists.mp (show (encNftItem nft0).isSome = true by decide +kernel)
  obtain ⟨hlen, hsome⟩ := c15_nft_item_never_overflows tops tops_total nft0 h (by simp [nft0]) (by simp [nft0])
  obtain ⟨h1, _, _⟩ := c15_nft_item_serialize tops nft0 h
  obtain ⟨c, hc⟩ := Option.isSome_iff_exists.mp hsome
  have hd := c15_nft_item_decodes tops tops_lawful nft0 (by simp [nft0, NftItem.WF, AddrWF]) h ((h1 (by omega)) ▸ hc)
  exact ⟨c, hc, hd, c15_nft_item_own_parser tops c nft0 hd⟩

/-- two long external addresses do not fit: `NftItemData.serialize` raises (64 + 522 + 522 bits) -/
example : (encNftItem (⟨0, Addr.ext 511 1, Addr.ext 511 1, leaf⟩ : NftItem T)).isSome = true ∧
    Message.serializeNftItem tops ⟨0, Addr.ext 511 1, Addr.ext 511 1, leaf⟩ = none := by decide +kernel

def fees0 : SaleFees := ⟨Addr.std none 0 key7, 2 ^ 120 - 1, Addr.none, 0⟩
def sale0 : SaleData := ⟨true, 2 ^ 32 - 1, Addr.std none 0 key7, Addr.std none (-1) key7, Addr.none, 10 ^ 9, fees0, false⟩

example : ∃ c, Message.serializeSaleFees tops fees0 = some c ∧ decodeSaleFees tops c = some fees0 ∧
    Message.deserializeSaleFees tops c = some fees0 := by
  obtain ⟨ch, h⟩ := Option.isSome_iff_exists.mp (show (encSaleFees fees0 : Enc T).isSome = true by decide +kernel)
  obtain ⟨hlen, hsome⟩ := c15_sale_fees_never_overflows tops tops_total fees0 h (by simp [fees0]) (by simp [fees0])
  obtain ⟨h1, _, _⟩ := c15_sale_fees_serialize tops fees0 h
  obtain ⟨c, hc⟩ := Option.isSome_iff_exists.mp hsome
  have hd := c15_sale_fees_decodes tops tops_lawful fees0 (by simp [fees0, SaleFees.WF, AddrWF]) h ((h1 (by omega)) ▸ hc)
  exact ⟨c, hc, hd, c15_sale_fees_own_parser tops c fees0 hd⟩

example : ∃ c, Message.serializeSaleData tops sale0 = some c ∧ decodeSaleData tops c = some sale0 ∧
    Message.deserializeSaleData tops c = some sale0 := by
  obtain ⟨ch, h⟩ := Option.isSome_iff_exists.mp (show (encSaleData tops sale0).isSome = true by decide +kernel)
  have hfit : ch.1.length ≤ 1023 ∧ ch.2.length ≤ 4 := by
    obtain ⟨h1, h2, _⟩ := c15_sale_data_never_overflows tops tops_total sale0 h (Or.inr ⟨_, _, rfl⟩) (Or.inr ⟨_, _, rfl⟩) (Or.inl rfl)
    omega
  have hs := c15_sale_data_serialize tops sale0 h hfit
  have hd := c15_sale_data_decodes tops tops_lawful sale0 (by simp [sale0, fees0, SaleData.WF, SaleFees.WF, AddrWF]) h
    (c := T.mk ch.1 ch.2) rfl
  exact ⟨_, hs, hd, c15_sale_data_own_parser tops _ sale0 hd⟩

/-- `m0` is a `Message X` proper (internal, both addresses `addr_std`): the strict reader returns it -/
example : ∃ c, Message.serialize tops m0 = some c ∧ decodeMessageStrict tops c = some m0 := by
  obtain ⟨⟨ib, ir⟩, h⟩ := Option.isSome_iff_exists.mp (show (encInfo m0.info).isSome = true by decide +kernel)
  have hlen : Enc.nbits (encInfo m0.info) + 3 ≤ 1023 := by decide +kernel
  rw [(enc_some_sizes h).1] at hlen
  have hinit : ∀ s, m0.init = some s → (encStateInit s).isSome := by
    intro s hs; simp [m0] at hs; subst hs; decide +kernel
  exact c15_strict_round_trip tops tops_lawful tops_total m0 (by simp [m0, Info.WF, AddrWF]) (by simp [m0, Info.Conforms, Addr.isInt]) h
    (by simpa [m0] using hlen) hinit (by simp [m0])

/-- an external-in message whose source is an internal address is a `MessageRelaxed`-style value, not a `Message X`:
it decodes under the union reading and the library parses it, the strict reader refuses it -/
def mRelaxed : Msg T := ⟨Info.extIn (Addr.std none 0 key7) (Addr.std none 0 key7) 0, none, ([], [])⟩

example : ∃ c, Message.serialize tops mRelaxed = some c ∧ decodeMessage tops c = some mRelaxed ∧
    decodeMessageStrict tops c = none := by
  obtain ⟨⟨ib, ir⟩, h⟩ := Option.isSome_iff_exists.mp (show (encInfo mRelaxed.info).isSome = true by decide +kernel)
  have hlen : Enc.nbits (encInfo mRelaxed.info) + 2 ≤ 1023 := by decide +kernel
  rw [(enc_some_sizes h).1] at hlen
  obtain ⟨c, hs, hd⟩ := c15_spec_decodes tops tops_lawful tops_total mRelaxed (by simp [mRelaxed, Info.WF, AddrWF]) h
    (by simpa [mRelaxed] using hlen) (by simp [mRelaxed]) (by simp [mRelaxed])
  refine ⟨c, hs, hd, ?_⟩
  simp [decodeMessageStrict, hd, mRelaxed, Info.Conforms, Addr.isExt]

/-- `m0` without its anycast is within `c15_conforming_round_trip` (no size hypothesis) -/
def m1 : Msg T :=
  ⟨Info.int true false false (Addr.std none 0 (List.replicate 32 17)) (Addr.std none (-1) (List.replicate 32 255))
      ⟨2 ^ 120 - 1, some leaf⟩ (2 ^ 120 - 1) (2 ^ 120 - 1) (2 ^ 64 - 1) (2 ^ 32 - 1), m0.init, m0.body⟩

example : ∃ c, Message.serialize tops m1 = some c ∧ decodeMessageStrict tops c = some m1 ∧ Message.deserialize tops c = some m1 := by
  have hinit : ∀ s, m1.init = some s → (encStateInit s).isSome := by
    intro s hs; simp [m1, m0] at hs; subst hs; decide +kernel
  exact c15_conforming_round_trip tops tops_lawful tops_total m1 (by simp [m1, Info.WF, AddrWF]) (by simp [m1, Info.Conforms, Addr.isInt])
    ⟨⟨_, _, rfl⟩, ⟨_, _, rfl⟩⟩ (by decide +kernel) hinit (by simp [m1, m0])

/-- its header has exactly the maximal 1007 bits -/
example : Enc.nbits (encInfo m1.info) = 1007 := by decide +kernel

/-! ## Source-regenerated layout decisions (`Generated/MsgLayout.lean`: re-translated from tlb/transaction.py on every run)

`Generated.msgInitInline ab ar ib ir bb br` is the statement sequence `bits_left = …; refs_left = …; body_fits = …` of
`MessageAny.serialize` followed by the test of the `if` that stores the init inline (`bits_left >= 0 and body_fits`, fix F17), as a
function of `builder.available_bits/refs` (Python ints), the bit/ref counts of the init cell and of the body;
`Generated.msgBodyInline ab ar bb br` is the test of the `if` that stores the body inline. -/
section Src
open TonVerif.Proofs.SrcArith2 TonVerif.Model.Message TonVerif.Model.BOp
set_option linter.unusedSimpArgs false

/-- both decisions, for ALL integer budgets and ALL sizes: the init goes inline iff its bits (plus the two Either bits) fit and the body
still has a place behind it — a free reference, or no reference needed and the body's bits fit the rest; the body goes inline iff
its bits fit the remaining bits minus the Either bit and its references fit the remaining references. -/
theorem c15_src_layout_tests (ab ar : Int) (ib ir bb br : Nat) :
    (Generated.msgInitInline_sideOk ab ar ib ir bb br ∧ Generated.msgBodyInline_sideOk ab ar bb br) ∧
    Generated.msgInitInline ab ar ib ir bb br =
      (decide (ab - 2 - (ib : Int) ≥ 0) &&
        (decide (ar - (ir : Int) ≥ 1) || (decide (ar - (ir : Int) = 0) && decide (br = 0) && decide ((bb : Int) ≤ ab - 2 - (ib : Int))))) ∧
    Generated.msgBodyInline ab ar bb br = (decide ((bb : Int) ≤ ab - 1) && decide ((br : Int) ≤ ar)) := by
  refine ⟨⟨by simp only [Generated.msgInitInline_sideOk] <;> src_prop, by simp only [Generated.msgBodyInline_sideOk] <;> src_prop⟩, ?_, ?_⟩
  · simp only [Generated.msgInitInline] <;> src_bool
  · simp only [Generated.msgBodyInline] <;> src_bool

/-- the init part and the body part of `MessageAny.serialize` in the hand model (what `c15_never_overflows`, `c15_serialize_spec`,
`c15_round_trip` … are proved about) take the inline / reference branch by exactly the regenerated decisions, evaluated on
`available_bits = 1023 - used bits` and `available_refs = 4 - used refs` of the builder at that point. -/
theorem c15_src_model_layout (ops : CellOps R) (s : StateInit R) (body : Chunk R) (b : Builder R) :
    initB ops (some s) body b =
      (let r := storeBit true b
       if !r.2 then some r else
       match cellOf ops (stateInitB s) with
       | none => none
       | some ic =>
         if Generated.msgInitInline (1023 - (r.1.bits.length : Int)) (4 - (r.1.refs.length : Int)) (ops.view ic).1.length
              (ops.view ic).2.length body.1.length body.2.length
         then some ((storeBit false ⊳ storeCell (ops.view ic).1 (ops.view ic).2) r.1)
         else some ((storeBit true ⊳ storeRef ic) r.1)) ∧
    bodyB ops body b =
      (if Generated.msgBodyInline (1023 - (b.bits.length : Int)) (4 - (b.refs.length : Int)) body.1.length body.2.length
       then some ((storeBit false ⊳ storeCell body.1 body.2) b)
       else match ops.make body.1 body.2 with
         | none => none
         | some bc => some ((storeBit true ⊳ storeRef bc) b)) := by
  have hI := fun ab ar ib ir bb br => (c15_src_layout_tests ab ar ib ir bb br).2.1
  have hB := fun ab ar bb br => (c15_src_layout_tests ab ar 0 0 bb br).2.2
  constructor
  · have hE : body.2.isEmpty = decide (body.2.length = 0) := by cases body.2 <;> simp
    simp only [initB, hI, hE]
    split
    · rfl
    · cases cellOf ops (stateInitB s) with
      | none => rfl
      | some ic => simp only [Bool.and_assoc, ge_iff_le]
  · have : (decide ((body.2.length : Int) ≤ 4 - (b.refs.length : Int))) = decide (body.2.length + b.refs.length ≤ 4) := by
      simp only [decide_eq_decide]; omega
    simp only [bodyB, hB, this]
    split <;> rfl

/-- concrete decisions at the F17 boundary: with 0 references left behind an inline init a body holding a reference forces the init into
a reference; with one reference left it stays inline; a body of exactly `available_bits - 1` bits is inline, one more is not. -/
example : Generated.msgInitInline 500 3 100 3 0 1 = false ∧ Generated.msgInitInline 500 4 100 3 0 1 = true ∧
    Generated.msgInitInline 500 3 100 3 398 0 = true ∧ Generated.msgInitInline 500 3 100 3 399 0 = false ∧
    Generated.msgInitInline 101 4 100 0 0 0 = false ∧
    Generated.msgBodyInline 500 1 499 1 = true ∧ Generated.msgBodyInline 500 1 500 1 = false ∧ Generated.msgBodyInline 500 1 0 2 = false := by
  decide

end Src

/-! ### the WHOLE serialize / deserialize methods regenerated from the source (Generated/MsgSrc.lean)

`Generated.MsgSrc.*` are re-translated from tlb/transaction.py, tlb/account.py, tlb/block.py on every run
(harness/translate/pytlb.py, msgsrc.py). -/
section SrcWhole
open TonVerif.Generated.MsgSrc TonVerif.Proofs.SrcMsg TonVerif.Proofs.SrcMsgSer

/-- `c15_src_deserialize`: for EVERY slice the regenerated `MessageAny.deserialize`, `CommonMsgInfo.deserialize` (dispatch on
    `preload_bit` / `preload_bits(2)`), `InternalMsgInfo / ExternalMsgInfo / ExternalOutMsgInfo.deserialize` (tag check, field
    order and widths), `StateInit.deserialize` (five Maybe bits), `TickTock.deserialize`, `CurrencyCollection.deserialize`,
    `ExtraCurrencyCollection.deserialize` (dictionary = its optional root) ARE the hand model's parsers, about which
    `c15_own_parser`, `c15_round_trip`, `c15_state_init_own_parser`, `c15_currency_own_parser` are proved: same raise / return
    decision, same value, same slice state afterwards. -/
theorem c15_src_deserialize (ops : CellOps R) :
    MessageAny_deserialize ops.view = Message.loadMessage ops ∧
    CommonMsgInfo_deserialize ops.view = (Message.loadInfo : SOp R (Info R)) ∧
    InternalMsgInfo_deserialize ops.view = (Message.loadInfoInt : SOp R (Info R)) ∧
    ExternalMsgInfo_deserialize ops.view = (Message.loadInfoExtIn : SOp R (Info R)) ∧
    ExternalOutMsgInfo_deserialize ops.view = (Message.loadInfoExtOut : SOp R (Info R)) ∧
    StateInit_deserialize ops.view = (Message.loadStateInit : SOp R (StateInit R)) ∧
    TickTock_deserialize ops.view = (Message.loadTickTock : SOp R TickTock) ∧
    CurrencyCollection_deserialize ops.view = (Message.loadCurrency : SOp R (Currency R)) ∧
    ExtraCurrencyCollection_deserialize ops.view = (SOp.loadMaybeRef : SOp R (Option R)) :=
  ⟨message_de_eq ops, info_de_eq, infoInt_de_eq, infoExtIn_de_eq, infoExtOut_de_eq, stateInit_de_eq, tickTock_de_eq, currency_de_eq,
    extra_de_eq⟩

/-- `c15_src_serialize`: **the regenerated serialisers ARE the hand model's**, for every message / state-init / currency value /
    header (`ops.Total`: `end_cell()` of a piece with ≤ 1023 bits and ≤ 4 references does not fail for depth; `ops.Lawful`: a cell
    shows the bits and references it was built from).  `MessageAny.serialize` as regenerated from tlb/transaction.py — header by
    `self.info.serialize()` + `store_cell`, the Maybe / Either bits, the init inline-or-reference decision with the room reserved
    for the body (fix F17), the body inline-or-reference decision, `end_cell()` — raises exactly when `Message.serialize` does and
    returns the same cell; likewise `StateInit.serialize` (five Maybe fields, the tick-tock piece), `CurrencyCollection.serialize`
    (Grams + the dictionary piece), the three `*MsgInfo.serialize` (tag, flags, addresses, value piece, fees, lt, at).  So
    `c15_never_overflows`, `c15_serialize_is_spec_encoding`, `c15_spec_decodes`, `c15_round_trip`, `c15_state_init_serialize`,
    `c15_currency_serialize` … speak about the regenerated code.
    The code calls `end_cell()` on every piece before `store_cell`ing it; the hand model appends the piece's bits and refs without
    building the cell (`Message.sub`): the two agree because every store that returns normally leaves the builder within 1023
    bits / 4 refs (`SrcMsgSer.Safe`, `sub_bridge`). -/
theorem c15_src_serialize (ops : CellOps R) (hl : ops.Lawful) (ht : ops.Total) :
    (∀ m : Msg R, (MessageAny_serialize ops.make m).map (·.cell) = Message.serialize ops m) ∧
    (∀ s : StateInit R, (StateInit_serialize ops.make s).map (·.cell) = Message.serializeStateInit ops s) ∧
    (∀ c : Currency R, (CurrencyCollection_serialize ops.make c).map (·.cell) = Message.serializeCurrency ops c) ∧
    (∀ i : Info R, (Info_serialize ops.make i).map (·.cell) = Message.cellOf ops (Message.infoB i)) ∧
    (∀ a b c src dest value ihr fwd lt at_, InternalMsgInfo_serialize ops.make (Info.int a b c src dest value ihr fwd lt at_) =
        Vm.build ops.make (Message.infoB (Info.int a b c src dest value ihr fwd lt at_))) ∧
    (∀ src dest fee, ExternalMsgInfo_serialize ops.make (Info.extIn src dest fee : Info R) =
        Vm.build ops.make (Message.infoB (Info.extIn src dest fee))) ∧
    (∀ src dest lt at_, ExternalOutMsgInfo_serialize ops.make (Info.extOut src dest lt at_ : Info R) =
        Vm.build ops.make (Message.infoB (Info.extOut src dest lt at_))) ∧
    (∀ o : Option R, ExtraCurrencyCollection_serialize ops.make o = Vm.build ops.make (BOp.storeMaybeRef o)) ∧
    (∀ t : TickTock, TickTock_serialize ops.make t = Vm.build ops.make (Message.tickTockB t)) :=
  ⟨src_message_ser_eq ops hl ht, src_stateInit_ser_eq ops ht, src_currency_ser_eq ops ht, src_info_ser_eq ops ht,
    fun a b c src dest value ihr fwd lt at_ => infoInt_ser_eq ht a b c src dest value ihr fwd lt at_,
    fun src dest fee => infoExtIn_ser_eq src dest fee, fun src dest lt at_ => infoExtOut_ser_eq src dest lt at_,
    extra_ser_eq, tickTock_ser_eq⟩

/-- `c15_src_never_overflows`: **the regenerated `MessageAny.serialize` never fails for lack of room**, with the tight bound of
    `c15_never_overflows`: the header encodes into `ib` bits with `ib + 3 ≤ 1023` (`ib + 2` without a state-init), the state-init's
    split depth is in range, the body is any cell (0..1023 bits, 0..4 refs).  The returned cell object shows exactly the bits and
    references the method's builder held. -/
theorem c15_src_never_overflows (ops : CellOps R) (hl : ops.Lawful) (ht : ops.Total) (m : Msg R)
    {ib : Bits} {ir : List R} (hinfo : encInfo m.info = some (ib, ir))
    (hI : ib.length + (if m.init.isSome then 3 else 2) ≤ 1023)
    (hinit : ∀ s, m.init = some s → (encStateInit s).isSome)
    (hbody : m.body.1.length ≤ 1023 ∧ m.body.2.length ≤ 4) :
    ∃ p, MessageAny_serialize ops.make m = some p ∧ ops.view p.cell = (p.bits, p.refs) := by
  have h := c15_never_overflows ops hl ht m hinfo hI hinit hbody
  rw [← src_message_ser_eq ops hl ht] at h
  cases hp : MessageAny_serialize ops.make m with
  | none => simp [hp] at h
  | some p => exact ⟨p, rfl, message_built_view ops hl ht m hp⟩

/-- the bound is tight for the regenerated code too: `mBig` has a valid 1021-bit header and a state-init; the regenerated
    `MessageAny.serialize` raises; without the state-init (`ib + 2 ≤ 1023`) it returns -/
example : MessageAny_serialize tops.make mBig = none ∧ (MessageAny_serialize tops.make { mBig with init := none }).isSome = true := by
  have h1 := src_message_ser_eq tops tops_lawful tops_total mBig
  have h2 := src_message_ser_eq tops tops_lawful tops_total { mBig with init := none }
  have e1 : (Message.serialize tops mBig).isSome = false := by decide +kernel
  have e2 : (Message.serialize tops { mBig with init := none }).isSome = true := by decide +kernel
  rw [← h1] at e1; rw [← h2] at e2
  constructor
  · cases h : MessageAny_serialize tops.make mBig with
    | none => rfl
    | some p => simp [h] at e1
  · simpa using e2

/-- `c15_src_roundtrip`: **regenerated serialiser, then regenerated parser = identity**, for every message in the property's
    domain (the hypotheses of `c15_round_trip`): `MessageAny.serialize` as regenerated returns a cell, and `MessageAny.deserialize`
    as regenerated, run on a slice of that cell (`begin_parse()` shows `ops.view cell` = the bits and references the builder held),
    returns the message. -/
theorem c15_src_roundtrip (ops : CellOps R) (hl : ops.Lawful) (ht : ops.Total) (m : Msg R) (hwf : m.info.WF)
    {ib : Bits} {ir : List R} (hinfo : encInfo m.info = some (ib, ir))
    (hI : ib.length + (if m.init.isSome then 3 else 2) ≤ 1023)
    (hinit : ∀ s, m.init = some s → (encStateInit s).isSome)
    (hbody : m.body.1.length ≤ 1023 ∧ m.body.2.length ≤ 4) :
    ∃ p, MessageAny_serialize ops.make m = some p ∧
      (MessageAny_deserialize ops.view ⟨(ops.view p.cell).1, (ops.view p.cell).2⟩).2 = some m ∧
      (MessageAny_deserialize ops.view ⟨p.bits, p.refs⟩).2 = some m := by
  obtain ⟨c, hs, hd⟩ := c15_round_trip ops hl ht m hwf hinfo hI hinit hbody
  obtain ⟨p, hp, hv⟩ := c15_src_never_overflows ops hl ht m hinfo hI hinit hbody
  have hc : p.cell = c := by
    have := src_message_ser_eq ops hl ht m
    rw [hp, hs] at this
    simpa using this
  have h1 : (MessageAny_deserialize ops.view ⟨(ops.view p.cell).1, (ops.view p.cell).2⟩).2 = some m := by
    rw [(c15_src_deserialize ops).1, hc]; exact hd
  refine ⟨p, hp, h1, ?_⟩
  rw [hv] at h1; exact h1

/-- non-vacuity: `m0` (extra currencies + 3-reference state-init + body with a reference: the F17 shape) meets every hypothesis -/
example : ∃ p, MessageAny_serialize tops.make m0 = some p ∧ (MessageAny_deserialize tops.view ⟨p.bits, p.refs⟩).2 = some m0 := by
  obtain ⟨⟨ib, ir⟩, h⟩ := Option.isSome_iff_exists.mp (show (encInfo m0.info).isSome = true by decide +kernel)
  have hlen : Enc.nbits (encInfo m0.info) + 3 ≤ 1023 := by decide +kernel
  rw [(enc_some_sizes h).1] at hlen
  have hwf : m0.info.WF := by simp [m0, Info.WF, AddrWF]
  have hinit : ∀ s, m0.init = some s → (encStateInit s).isSome := by
    intro s hs; simp [m0] at hs; subst hs; decide +kernel
  obtain ⟨p, hp, _, h2⟩ := c15_src_roundtrip tops tops_lawful tops_total m0 hwf h (by simpa [m0] using hlen) hinit (by simp [m0])
  exact ⟨p, hp, h2⟩

/-- `c15_src_layout_connected`: the inline / reference decisions of the regenerated WHOLE method are the regenerated decision LINES
    (`Generated/MsgLayout.lean`, `c15_src_layout_tests`): the regenerated `MessageAny.serialize` equals the chain
    `SrcMsgSer.serializeR` (info piece, `initR`, `bodyR`, `end_cell`), and `initR` / `bodyR` take the inline branch exactly when
    `Generated.msgInitInline` / `Generated.msgBodyInline` hold at `available_bits = 1023 - used`, `available_refs = 4 - refs`. -/
theorem c15_src_layout_connected (ops : CellOps R) (ht : ops.Total) (m : Msg R) (s : StateInit R) (body : Chunk R) (b : Builder R) :
    MessageAny_serialize ops.make m = serializeR ops m ∧
    initR ops (some s) body b =
      ((Vm.run (BOp.storeBit true) b).bind fun b1 => (Vm.build ops.make (Message.stateInitB s)).bind fun ic =>
        if Generated.msgInitInline (Py.Tlb.availableBits b1) (Py.Tlb.availableRefs b1) ic.bits.length ic.refs.length body.1.length body.2.length
        then Vm.run (BOp.storeBit false ⊳ BOp.storeCell ic.bits ic.refs) b1
        else Vm.run (BOp.storeBit true ⊳ BOp.storeRef ic.cell) b1) ∧
    bodyR ops body b =
      (if Generated.msgBodyInline (Py.Tlb.availableBits b) (Py.Tlb.availableRefs b) body.1.length body.2.length
       then Vm.run (BOp.storeBit false ⊳ BOp.storeCell body.1 body.2) b
       else (ops.make body.1 body.2).bind fun bc => Vm.run (BOp.storeBit true ⊳ BOp.storeRef bc) b) := by
  refine ⟨message_ser_eq ops ht m, ?_, ?_⟩
  · simp only [initR, (c15_src_layout_tests _ _ _ _ _ _).2.1, Py.Tlb.availableBits, Py.Tlb.availableRefs]
    refine congrArg _ (funext fun b1 => congrArg _ (funext fun ic => ?_))
    have hE : (body.2 = []) ↔ body.2.length = 0 := by cases body.2 <;> simp
    simp only [hE, Bool.and_eq_true, Bool.or_eq_true, decide_eq_true_eq, and_assoc]
  · simp only [bodyR, (c15_src_layout_tests _ _ 0 0 _ _).2.2, Py.Tlb.availableBits, Py.Tlb.availableRefs, Bool.and_eq_true, decide_eq_true_eq]
    have : ((body.2.length : Int) ≤ 4 - (b.refs.length : Int)) ↔ body.2.length + b.refs.length ≤ 4 := by omega
    simp only [this]

end SrcWhole

/-! ## the stand-alone wrappers regenerated from the source (Generated/WrapSrc.lean)

`Generated.WrapSrc.*` are re-translated from tlb/custom/wallet.py and tlb/custom/nft.py on every run (harness/translate/wrapsrc.py):
the constructors (`<Class>_init`, `none` = raises), `serialize`, `deserialize` of `WalletV3Data`, `WalletV4Data`,
`HighloadWalletData`, `WalletMessage`, `NftItemData`, `NftItemSaleFees`, `NftItemSaleData`. -/
section SrcWrappers
open TonVerif.Generated.MsgSrc TonVerif.Generated.WrapSrc TonVerif.Proofs.SrcMsg TonVerif.Proofs.SrcMsgSer TonVerif.Proofs.SrcWrap

/-- `c15_src_wrapper_defaults`: **the constructors as regenerated from the source.**  `WalletV3Data / WalletV4Data /
    HighloadWalletData(.., wallet_id, public_key, ..)`: `public_key is None` raises; otherwise the object holds the arguments, with
    `wallet_id` replaced by 698983191 exactly when it `is None` — every int is kept, **0 included** (`wallet_id or default` would
    lose it).  The other constructors store their arguments unchanged (the `isinstance(.., str)` conversions of the NFT classes
    never apply to an address value). -/
theorem c15_src_wrapper_defaults (s lc mode : Int) (w : Option Int) (pk : Option Bytes) (k : Bytes) (p q : Option R) :
    WalletV3Data_init s w pk = pk.map (fun k => ⟨s, w.getD 698983191, k⟩) ∧
    WalletV4Data_init s w pk p = pk.map (fun k => ⟨s, w.getD 698983191, k, p⟩) ∧
    HighloadWalletData_init w lc pk q = pk.map (fun k => ⟨w.getD 698983191, lc, k, q⟩) ∧
    WalletV3Data_init s none (some k) = some ⟨s, 698983191, k⟩ ∧
    WalletV3Data_init s (some 0) (some k) = some ⟨s, 0, k⟩ ∧
    WalletV3Data_init s w none = none ∧
    (∀ m : Msg R, WalletMessage_init mode m = some ⟨mode, m⟩) ∧
    (∀ (i : Int) (c o : Addr) (r : R), NftItemData_init i c o r = some ⟨i, c, o, r⟩) ∧
    (∀ (a : Addr) (f : Int) (b : Addr) (r : Int), NftItemSaleFees_init a f b r = some ⟨a, f, b, r⟩) ∧
    (∀ (c : Bool) (t : Int) (m n o : Addr) (pr : Int) (f : SaleFees) (e : Bool),
      NftItemSaleData_init c t m n o pr f e = some ⟨c, t, m, n, o, pr, f, e⟩) :=
  ⟨v3_init s w pk, v4_init s w pk p, hl_init w lc pk q, v3_init s none (some k), v3_init s (some 0) (some k), by rw [v3_init]; rfl,
    wm_init mode, nft_init, fees_init, sale_init⟩

/-- `c15_src_wrappers`: **the regenerated `serialize` / `deserialize` of every wrapper of tlb/custom/*.py ARE the hand model's**
    (`Model/Wrappers.lean`), for all inputs: same raise decision, same cell; the parsers (through the regenerated constructors)
    are the same function on every slice (value and slice state afterwards).  So the `c15_wallet_*`, `c15_highload_*`,
    `c15_wallet_message_*`, `c15_nft_item_*`, `c15_sale_*` theorems speak about the regenerated code.  `Lawful` / `Total` are needed
    only for `WalletMessage.serialize` (it contains `MessageAny.serialize`, see `c15_src_serialize`). -/
theorem c15_src_wrappers (ops : CellOps R) (hl : ops.Lawful) (ht : ops.Total) :
    ((∀ w, (WalletV3Data_serialize ops.make w).map (·.cell) = Message.serializeWalletV3 ops w) ∧
     (∀ w, (WalletV4Data_serialize ops.make w).map (·.cell) = Message.serializeWalletV4 ops w) ∧
     (∀ w, (HighloadWalletData_serialize ops.make w).map (·.cell) = Message.serializeHighload ops w) ∧
     (∀ w, (WalletMessage_serialize ops.make w).map (·.cell) = Message.serializeWalletMsg ops w) ∧
     (∀ n, (NftItemData_serialize ops.make n).map (·.cell) = Message.serializeNftItem ops n) ∧
     (∀ f, (NftItemSaleFees_serialize ops.make f).map (·.cell) = Message.serializeSaleFees ops f) ∧
     (∀ s, (NftItemSaleData_serialize ops.make s).map (·.cell) = Message.serializeSaleData ops s)) ∧
    (WalletV3Data_deserialize ops.view = (Message.loadWalletV3 : SOp R WalletV3) ∧
     WalletV4Data_deserialize ops.view = (Message.loadWalletV4 : SOp R (WalletV4 R)) ∧
     HighloadWalletData_deserialize ops.view = (Message.loadHighload : SOp R (Highload R)) ∧
     WalletMessage_deserialize ops.view = Message.loadWalletMsg ops ∧
     NftItemData_deserialize ops.view = (Message.loadNftItem : SOp R (NftItem R)) ∧
     NftItemSaleFees_deserialize ops.view = (Message.loadSaleFees : SOp R SaleFees) ∧
     NftItemSaleData_deserialize ops.view = Message.loadSaleData ops) :=
  ⟨⟨fun w => by rw [v3_ser_eq, build_cellOf]; rfl, fun w => by rw [v4_ser_eq, build_cellOf]; rfl,
    fun w => by rw [hl_ser_eq, build_cellOf]; rfl, wm_ser_eq ops hl ht, fun n => by rw [nft_ser_eq, build_cellOf]; rfl,
    fun f => by rw [fees_ser_eq, build_cellOf]; rfl, sale_ser_eq ops⟩,
   ⟨v3_de_eq, v4_de_eq, hl_de_eq, wm_de_eq ops, nft_de_eq, fees_de_eq, sale_de_eq ops⟩⟩

/-- `c15_src_hash_update`: the same for `HashUpdate` of tlb/utils.py (`store_bytes(b'\\x72')` + two hashes; the parser's tag test
    `load_bytes(1)[:1] != b'r'`): regenerated constructor, serialiser and parser = `Model/Wrappers.lean`, so `c15_hash_update_*`
    speak about the regenerated code -/
theorem c15_src_hash_update (ops : CellOps R) :
    (∀ o n : Bytes, HashUpdate_init o n = some ⟨o, n⟩) ∧
    (∀ h, (HashUpdate_serialize ops.make h).map (·.cell) = Message.serializeHashUpd ops h) ∧
    HashUpdate_deserialize ops.view = (Message.loadHashUpdate : SOp R HashUpd) :=
  ⟨hu_init, fun h => by rw [hu_ser_eq, build_cellOf]; rfl, hu_de_eq⟩

/-- non-vacuity: `hu0` through the regenerated code -/
example : ∃ p, HashUpdate_serialize tops.make hu0 = some p ∧
    (HashUpdate_deserialize tops.view ⟨(tops.view p.cell).1, (tops.view p.cell).2⟩).2 = some hu0 := by
  obtain ⟨ch, he, _, _, hser, hsome⟩ := c15_hash_update_serialize (R := T) tops tops_total hu0 (by decide) (by decide)
  obtain ⟨c, hc⟩ := Option.isSome_iff_exists.mp hsome
  have hd := c15_hash_update_own_parser tops c hu0 (c15_hash_update_decodes tops tops_lawful hu0 he (hser ▸ hc))
  have h := (c15_src_hash_update tops).2.1 hu0
  rw [hc] at h
  cases hp : HashUpdate_serialize tops.make hu0 with
  | none => simp [hp] at h
  | some p =>
    simp only [hp, Option.map_some, Option.some.injEq] at h
    refine ⟨p, rfl, ?_⟩
    rw [(c15_src_hash_update tops).2.2, h]
    exact hd

/-- `c15_src_wallet_v3_roundtrip`: **constructor → regenerated `serialize` → regenerated `deserialize` = the object**, the default
    included: for `seqno < 2^32`, a 32-byte key and `wallet_id` either `None` or an int `< 2^32` (0 allowed), the constructor
    returns the object `w` with `wallet_id` 698983191 resp. the given int, `serialize` returns a cell (320 bits, the spec
    encoding), and `deserialize` of that cell returns `w` (through the constructor again: an int is never replaced). -/
theorem c15_src_wallet_v3_roundtrip (ops : CellOps R) (hl : ops.Lawful) (ht : ops.Total) (seqno : Int) (wid : Option Int) (pk : Bytes)
    (hs : 0 ≤ seqno ∧ seqno < 2 ^ 32) (hi : ∀ i, wid = some i → 0 ≤ i ∧ i < 2 ^ 32) (hk : pk.length = 32 ∧ Bytes.WF pk) :
    ∃ w p, WalletV3Data_init seqno wid (some pk) = some w ∧ w = ⟨seqno, wid.getD 698983191, pk⟩ ∧
      WalletV3Data_serialize ops.make w = some p ∧
      (WalletV3Data_deserialize ops.view ⟨(ops.view p.cell).1, (ops.view p.cell).2⟩).2 = some w := by
  refine ⟨⟨seqno, wid.getD 698983191, pk⟩, ?_⟩
  have hw : 0 ≤ wid.getD 698983191 ∧ wid.getD 698983191 < 2 ^ 32 := by
    cases wid with
    | none => simp
    | some i => simpa using hi i rfl
  obtain ⟨ch, he, _, _, hser, hsome⟩ := c15_wallet_v3_serialize ops ht ⟨seqno, wid.getD 698983191, pk⟩ hs hw hk
  obtain ⟨c, hc⟩ := Option.isSome_iff_exists.mp hsome
  have hd := c15_wallet_v3_own_parser ops c _ (c15_wallet_v3_decodes ops hl _ he (hser ▸ hc))
  have hsrc := (c15_src_wrappers ops hl ht).1.1 ⟨seqno, wid.getD 698983191, pk⟩
  rw [hc] at hsrc
  cases hp : WalletV3Data_serialize ops.make ⟨seqno, wid.getD 698983191, pk⟩ with
  | none => simp [hp] at hsrc
  | some p =>
    simp only [hp, Option.map_some, Option.some.injEq] at hsrc
    refine ⟨p, by rw [v3_init]; rfl, rfl, rfl, ?_⟩
    rw [v3_de_eq, hsrc]; exact hd

/-- non-vacuity / the two cases that matter: no wallet id → the default; wallet id 0 → 0 -/
example : ∃ p, WalletV3Data_serialize tops.make ⟨5, 698983191, key7⟩ = some p ∧ WalletV3Data_init 5 none (some key7) = some ⟨5, 698983191, key7⟩ ∧
    (WalletV3Data_deserialize tops.view ⟨(tops.view p.cell).1, (tops.view p.cell).2⟩).2 = some ⟨5, 698983191, key7⟩ := by
  obtain ⟨w, p, h1, h2, h3, h4⟩ := c15_src_wallet_v3_roundtrip tops tops_lawful tops_total 5 none key7 (by decide) (by intro i h; cases h)
    (by decide)
  subst h2
  exact ⟨p, h3, h1, h4⟩

example : ∃ p, WalletV3Data_serialize tops.make ⟨5, 0, key7⟩ = some p ∧ WalletV3Data_init 5 (some 0) (some key7) = some ⟨5, 0, key7⟩ ∧
    (WalletV3Data_deserialize tops.view ⟨(tops.view p.cell).1, (tops.view p.cell).2⟩).2 = some ⟨5, 0, key7⟩ := by
  obtain ⟨w, p, h1, h2, h3, h4⟩ := c15_src_wallet_v3_roundtrip tops tops_lawful tops_total 5 (some 0) key7 (by decide)
    (by intro i h; cases h; decide) (by decide)
  subst h2
  exact ⟨p, h3, h1, h4⟩

/-- `c15_src_highload_roundtrip`: the same for `HighloadWalletData`, old queries (the dictionary root) INCLUDED — the statement that
    failed before the fix of F23, now about the regenerated `serialize` / `deserialize` -/
theorem c15_src_highload_roundtrip (ops : CellOps R) (hl : ops.Lawful) (ht : ops.Total) (w : Highload R)
    (hi : 0 ≤ w.walletId ∧ w.walletId < 2 ^ 32) (hc : 0 ≤ w.lastCleaned ∧ w.lastCleaned < 2 ^ 64)
    (hk : w.publicKey.length = 32 ∧ Bytes.WF w.publicKey) :
    ∃ p, HighloadWalletData_serialize ops.make w = some p ∧
      (HighloadWalletData_deserialize ops.view ⟨(ops.view p.cell).1, (ops.view p.cell).2⟩).2 = some w := by
  obtain ⟨c, hs, _, hd⟩ := c15_highload_round_trip ops hl ht w hi hc hk
  have hsrc := (c15_src_wrappers ops hl ht).1.2.2.1 w
  rw [hs] at hsrc
  cases hp : HighloadWalletData_serialize ops.make w with
  | none => simp [hp] at hsrc
  | some p =>
    simp only [hp, Option.map_some, Option.some.injEq] at hsrc
    exact ⟨p, rfl, by rw [hl_de_eq, hsrc]; exact hd⟩

example : ∃ p, HighloadWalletData_serialize tops.make hq = some p ∧
    (HighloadWalletData_deserialize tops.view ⟨(tops.view p.cell).1, (tops.view p.cell).2⟩).2 = some hq :=
  c15_src_highload_roundtrip tops tops_lawful tops_total hq (by decide) (by decide) (by decide)

/-- `c15_src_wallet_message_roundtrip`: regenerated `WalletMessage.serialize` (which runs the regenerated `MessageAny.serialize` and
    stores the cell by reference), then regenerated `WalletMessage.deserialize` (which runs the regenerated
    `MessageAny.deserialize` on the referenced cell) = the wallet message, under the bound of `c15_never_overflows` -/
theorem c15_src_wallet_message_roundtrip (ops : CellOps R) (hl : ops.Lawful) (ht : ops.Total) (w : WalletMsg R)
    (hwf : w.message.info.WF) (hmode : 0 ≤ w.sendMode ∧ w.sendMode < 256)
    {ib : Bits} {ir : List R} (hinfo : encInfo w.message.info = some (ib, ir))
    (hI : ib.length + (if w.message.init.isSome then 3 else 2) ≤ 1023)
    (hinit : ∀ s, w.message.init = some s → (encStateInit s).isSome)
    (hbody : w.message.body.1.length ≤ 1023 ∧ w.message.body.2.length ≤ 4) :
    ∃ p, WalletMessage_serialize ops.make w = some p ∧
      (WalletMessage_deserialize ops.view ⟨(ops.view p.cell).1, (ops.view p.cell).2⟩).2 = some w := by
  obtain ⟨c, hs, _, hd⟩ := c15_wallet_message_round_trip ops hl ht w hwf hmode hinfo hI hinit hbody
  have hsrc := (c15_src_wrappers ops hl ht).1.2.2.2.1 w
  rw [hs] at hsrc
  cases hp : WalletMessage_serialize ops.make w with
  | none => simp [hp] at hsrc
  | some p =>
    simp only [hp, Option.map_some, Option.some.injEq] at hsrc
    exact ⟨p, rfl, by rw [wm_de_eq, hsrc]; exact hd⟩

end SrcWrappers
/-! ## C06 level: addresses and headers through the regenerated message code -/
section SrcAddr
open TonVerif.Generated.MsgSrc TonVerif.Proofs.SrcMsg TonVerif.Proofs.SrcMsgSer TonVerif.Proofs.SrcVm

/-- `c15_src_address_roundtrip` (C06 level, as used by the message classes): for every address value that has an encoding
    (`addr_none`, `addr_extern` with `len < 512`, `val < 2^len`, `addr_std` with int8 workchain, 32-byte hash, anycast depth 1..30)
    and is well formed (a zero-length extern address carries 0), on every builder in range with room for it, `store_address`
    returns normally having appended exactly the encoding, and `load_address` on ANY slice that starts with those bits returns
    the address and leaves exactly what followed. -/
theorem c15_src_address_roundtrip (a : Addr) (hwf : AddrWF a) {c : Chunk R} (he : eAddr a = some c)
    (b : Builder R) (hb : WFB b) (hfit : Fits b c) :
    Vm.run (BOp.storeAddress a) b = some (app b c) ∧ c.2 = [] ∧
    ∀ (tb : Bits) (tr : List R), (SOp.loadAddress : SOp R Addr) ⟨c.1 ++ tb, tr⟩ = (⟨tb, tr⟩, some a) := by
  have h1 := ((appends_storeAddress a) b hb c he).1 hfit
  have hr : c.2 = [] := by
    have := nrefs_eAddr (R := R) a
    rw [(enc_some_sizes he).2] at this
    exact List.eq_nil_of_length_eq_zero (by omega)
  refine ⟨by simp [Vm.run, h1], hr, ?_⟩
  intro tb tr
  have h2 := rt_addr a hwf c he tb tr
  have h3 := ref_loadAddress (c.1 ++ tb) (c.2 ++ tr) a (tb, tr) h2
  simpa [hr] using h3

/-- `c15_src_header_roundtrip`: **every header goes through the regenerated writer and the regenerated reader unchanged**: if the
    header has an encoding (flags, both addresses, amounts, lt / at in range) and its addresses are well formed, and the regenerated
    `<X>MsgInfo.serialize` returns a cell, then the regenerated `CommonMsgInfo.deserialize` (tag dispatch, then the class's own
    parser: `load_address` twice, …) on a slice of that cell returns the header — both addresses included — and leaves nothing
    unread; followed by anything (the rest of a message), it leaves exactly that. -/
theorem c15_src_header_roundtrip (ops : CellOps R) (ht : ops.Total) (i : Info R) (hwf : i.WF) (henc : (encInfo i).isSome)
    {p : Vm.Built R} (h : Info_serialize ops.make i = some p) :
    encInfo i = some (p.bits, p.refs) ∧
    ∀ (tb : Bits) (tr : List R),
      CommonMsgInfo_deserialize ops.view ⟨p.bits ++ tb, p.refs ++ tr⟩ = (⟨tb, tr⟩, some i) := by
  obtain ⟨c, hc⟩ := Option.isSome_iff_exists.mp henc
  rw [info_ser_eq ht] at h
  obtain ⟨b, hrun, hb1, hb2, _⟩ := build_some h
  have hfit : c.1.length ≤ 1023 ∧ c.2.length ≤ 4 := by
    apply Classical.byContradiction
    intro hn
    have := ((appends_infoB i).run hc).2 hn
    simp [Vm.run, this] at hrun
  have hr := ((appends_infoB i).run hc).1 hfit
  have hbc : b = ⟨c.1, c.2⟩ := by
    simp [Vm.run, hr] at hrun; exact hrun.symm
  have e1 : p.bits = c.1 := by rw [hb1, hbc]
  have e2 : p.refs = c.2 := by rw [hb2, hbc]
  refine ⟨by rw [e1, e2]; exact hc, ?_⟩
  intro tb tr
  rw [e1, e2, info_de_eq]
  exact ref_loadInfo _ _ i (tb, tr) (rt_info i hwf c hc tb tr)

/-- non-vacuity: the header of `m0` (anycast destination, extra currencies) -/
example : ∃ p, Info_serialize tops.make m0.info = some p ∧
    CommonMsgInfo_deserialize tops.view ⟨p.bits ++ [true], p.refs ++ [leaf]⟩ = (⟨[true], [leaf]⟩, some m0.info) := by
  have henc : (encInfo m0.info).isSome := by decide +kernel
  have hwf : m0.info.WF := by simp [m0, Info.WF, AddrWF]
  have hs : (Message.cellOf tops (Message.infoB m0.info)).isSome = true := by decide +kernel
  rw [← src_info_ser_eq tops tops_total] at hs
  cases hp : Info_serialize tops.make m0.info with
  | none => simp [hp] at hs
  | some p => exact ⟨p, rfl, (c15_src_header_roundtrip tops tops_total m0.info hwf henc hp).2 _ _⟩

end SrcAddr
end TonVerif.Properties.C15
