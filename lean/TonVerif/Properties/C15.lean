/-
C15 -- messages, state-inits and currency values serialise per block.tlb and round-trip.

`Model.Message.*` mirrors `MessageAny`, the three `CommonMsgInfo` classes, `StateInit`, `TickTock`,
`CurrencyCollection` of pytoniq-core (after the fix of F17); `Spec.Tlb.*` is the independent reading of
block.tlb (encoder with both `Either` choices free, decoder `decodeMessage`).  Cells are abstract:
`ops.make` = `end_cell` (may refuse: depth), `ops.view` = bits and refs of a cell; `Lawful` = `view ∘ make = id`,
`Total` = every cell with at most 1023 bits and 4 refs exists (no depth overflow).
-/
import TonVerif.Proofs.MessageRT

namespace TonVerif.Properties.C15
open TonVerif TonVerif.Model TonVerif.Spec.Tlb TonVerif.Proofs.Message

variable {R : Type}

/-- **Serialising never fails for lack of room.**  For every message whose header encodes (all amounts and
addresses in range) into `ib` bits with `ib + 3 ≤ 1023` (`ib + 2` without a state-init), every state-init with
a split depth in range and every body cell (any 0..1023 bits, 0..4 refs), `MessageAny.serialize` returns a
cell: parts that do not fit inline are moved into references.  (The only other way to fail is a cell deeper
than 1023, excluded by `Total`.) -/
theorem c15_never_overflows (ops : CellOps R) (hl : ops.Lawful) (ht : ops.Total) (m : Msg R)
    {ib : Bits} {ir : List R} (hinfo : encInfo m.info = some (ib, ir))
    (hI : ib.length + (if m.init.isSome then 3 else 2) ≤ 1023)
    (hinit : ∀ s, m.init = some s → (encStateInit s).isSome)
    (hbody : m.body.1.length ≤ 1023 ∧ m.body.2.length ≤ 4) :
    (Message.serialize ops m).isSome := by
  obtain ⟨i, b, c, _, hs⟩ := serialize_cases ops hl ht m hinfo hI hinit hbody
  simp [hs]

/-- ... and what it returns is one of the (up to four) block.tlb encodings of the message -/
theorem c15_serialize_is_spec_encoding (ops : CellOps R) (hl : ops.Lawful) (ht : ops.Total) (m : Msg R)
    {ib : Bits} {ir : List R} (hinfo : encInfo m.info = some (ib, ir))
    (hI : ib.length + (if m.init.isSome then 3 else 2) ≤ 1023)
    (hinit : ∀ s, m.init = some s → (encStateInit s).isSome)
    (hbody : m.body.1.length ≤ 1023 ∧ m.body.2.length ≤ 4) :
    ∃ initRef bodyRef c, Message.serialize ops m = some c ∧ encMessage ops m initRef bodyRef = some c := by
  obtain ⟨i, b, c, he, hs⟩ := serialize_cases ops hl ht m hinfo hI hinit hbody
  exact ⟨i, b, c, hs, he⟩

/-- **The serialised cell decodes, under the independent reading of block.tlb, to the same logical message**
(same bound as `c15_never_overflows`; `WF`: a zero-length external address carries the value 0; an empty
extra-currency dictionary is `none` in the logical value, so `{}` and `None` are alike by construction). -/
theorem c15_spec_decodes (ops : CellOps R) (hl : ops.Lawful) (ht : ops.Total) (m : Msg R) (hwf : m.info.WF)
    {ib : Bits} {ir : List R} (hinfo : encInfo m.info = some (ib, ir))
    (hI : ib.length + (if m.init.isSome then 3 else 2) ≤ 1023)
    (hinit : ∀ s, m.init = some s → (encStateInit s).isSome)
    (hbody : m.body.1.length ≤ 1023 ∧ m.body.2.length ≤ 4) :
    ∃ c, Message.serialize ops m = some c ∧ decodeMessage ops c = some m := by
  obtain ⟨i, b, c, he, hs⟩ := serialize_cases ops hl ht m hinfo hI hinit hbody
  exact ⟨c, hs, spec_roundtrip ops hl m hwf i b he⟩

/-- the spec decoder inverts the spec encoder for all four inline/reference combinations -/
theorem c15_spec_roundtrip (ops : CellOps R) (hl : ops.Lawful) (m : Msg R) (hwf : m.info.WF) (initRef bodyRef : Bool) {c : R}
    (h : encMessage ops m initRef bodyRef = some c) : decodeMessage ops c = some m :=
  spec_roundtrip ops hl m hwf initRef bodyRef h

/-- the stand-alone `StateInit.serialize` never fails (12 bits, 3 refs at most) and is the spec encoding -/
theorem c15_state_init_serialize (ops : CellOps R) (ht : ops.Total) (s : StateInit R) {sc : Chunk R}
    (h : encStateInit s = some sc) :
    sc.1.length ≤ 12 ∧ sc.2.length ≤ 3 ∧ Message.serializeStateInit ops s = ops.make sc.1 sc.2 ∧
      (Message.serializeStateInit ops s).isSome := by
  have hsz := size_encStateInit s
  obtain ⟨e1, e2⟩ := enc_some_sizes h
  rw [e1, e2] at hsz
  have hrun := ((appends_stateInitB s).run h).1 (by omega)
  have : Message.serializeStateInit ops s = ops.make sc.1 sc.2 := by
    simp [Message.serializeStateInit, Message.cellOf, Message.runB, hrun]
  exact ⟨hsz.1, hsz.2, this, this ▸ ht _ _ (by omega) (by omega)⟩

/-- the stand-alone `CurrencyCollection.serialize` is the spec encoding whenever the amount is a `Grams` -/
theorem c15_currency_serialize (ops : CellOps R) (c : Currency R) {cc : Chunk R}
    (h : encCurrency c = some cc) (hfit : cc.1.length ≤ 1023 ∧ cc.2.length ≤ 4) :
    Message.serializeCurrency ops c = ops.make cc.1 cc.2 := by
  have hrun := ((appends_currencyB c).sub.run h).1 hfit
  simp [Message.serializeCurrency, Message.cellOf, Message.runB, hrun]

end TonVerif.Properties.C15
