import TonVerif.Model.Message
namespace TonVerif.Properties.C15
open TonVerif TonVerif.Spec.Tlb

/-- temporary: replaced below by the real theorems -/
theorem c15_nbytes_zero : nbytes 0 = 0 := by simp [nbytes]
end TonVerif.Properties.C15
