/-
C11 — Merkle proof checks are complete and sound.

Model: Model/Proof.lean (`checkProof`, `checkBlockHeaderProof(State)`, `checkAccountProof`, `checkShardProof`
over constructed cell objects `PCell`).  Pruning: Proofs/Prune.lean (`PruneRel`).  Helper lemmas: Proofs/Merkle.lean.
`H` is SHA-256 as a parameter; completeness needs no property of `H` beyond 32-byte output (so that the hash fits
the proof cell's 256-bit field); soundness takes a LOCAL no-collision hypothesis on the representations at hand.
-/
import TonVerif.Proofs.Merkle

namespace TonVerif.Properties.C11
open TonVerif TonVerif.Model TonVerif.Proofs.CellSpec TonVerif.Proofs.Prune TonVerif.Proofs.Merkle

/-- COMPLETENESS (generic check and block-header check). Let `t` be any tree with spec values `s`, `p` ANY pruning
of it (`PruneRel H 1 t p`: any set of subtrees replaced by pruned branches, deeper levels under inner Merkle cells),
and wrap `p` in the Merkle proof cell naming `t`'s level-0 hash and depth.  If that proof is a spec-valid tree (sizes,
depth ≤ 1023) it can be constructed, `check_proof(proof, hash t)` returns, its only child is the object of `p`, and
`check_block_header_proof(proof[0], hash t)` returns.  No assumption on `H` except that the root hash is 32 bytes. -/
theorem c11_complete (H : Bytes → Bytes) (t p : Cell) (s : Spec.SInfo)
    (hs : specInfo H t = some s) (hrel : PruneRel H 1 t p)
    (wfp : TreeWF H (merkleProofCell (s.hashAt 0) (s.depthAt 0) p))
    (h32 : (s.hashAt 0).length = 32 ∧ Bytes.WF (s.hashAt 0)) (hd : s.depthAt 0 < 65536) :
    ∃ c r, PCell.ofCell H (merkleProofCell (s.hashAt 0) (s.depthAt 0) p) = some c ∧ c.refs = [r] ∧
      PCell.ofCell H p = some r ∧
      checkProof c (s.hashAt 0) = true ∧ checkBlockHeaderProof r (s.hashAt 0) = true := by
  obtain ⟨sp, hsp, hinv⟩ := prune_invariant H 1 t p s hrel hs
  obtain ⟨h0, d0, _⟩ := hinv 0 (by omega)
  -- the proof cell and its child can be constructed
  obtain ⟨i, si, hi, hsi, hag⟩ := tree_agrees H _ wfp
  unfold merkleProofCell at hi
  obtain ⟨rs, hrs, hc, hinfos⟩ := ofCell_of_info H 3 _ [p] i hi
  obtain ⟨r, rfl, hr⟩ := ofCells_singleton H p rs hrs
  have hfields : i.kind = 3 ∧ i.bits = bytesToBits (mproofData (s.hashAt 0) (s.depthAt 0)) := by
    simp only [Cell.info, hinfos, Option.bind_eq_bind, Option.bind_some] at hi
    have := construct_fields H _ _ _ _ hi
    exact ⟨this.1, this.2.1⟩
  -- the child reports the spec values of `p`, which are those of `t` at level 0
  have wfc : TreeWF H p := by
    rw [merkleProofCell, TreeWF] at wfp
    exact wfp.1.1
  obtain ⟨ip, sp', hip, hsp', hagp⟩ := tree_agrees H p wfc
  rw [hsp] at hsp'; cases hsp'
  have hrinfo : r.info = ip := by
    have := ofCell_info H p
    rw [hr, hip] at this
    simpa using this
  have hh : r.info.getHash 0 = some (s.hashAt 0) := by rw [hrinfo, (hagp.2 0).1, h0]
  have hdp : r.info.getDepth 0 = some (s.depthAt 0) := by rw [hrinfo, (hagp.2 0).2, d0]
  obtain ⟨a1, a2⟩ := checkProof_accepts (.mk i [r]) r (s.hashAt 0) (s.depthAt 0) hfields.1 hfields.2 rfl
    h32.1 h32.2 hd hh hdp
  exact ⟨.mk i [r], r, hc, rfl, hr, a1, a2⟩

/-- SOUNDNESS, structural part (no hash assumption). If `check_proof(c, h)` returns then `c` is a Merkle proof
cell with exactly one child, exactly 280 data bits `03 ++ h ++ depth`, and the child's level-0 hash is `h`.
Hence: a cell of any other type is rejected, and so is a proof whose stored hash or whose child's hash is not
the expected one. -/
theorem c11_sound_shape (c : PCell) (h : Bytes) (hacc : checkProof c h = true) :
    c.info.kind = kMerkleProof ∧ pySlice c.data 1 33 = h ∧ c.info.bits.length = 280 ∧
    ∃ r d, c.refs = [r] ∧ r.info.getHash 0 = some h ∧ r.info.getDepth 0 = some d ∧
      c.data = [3] ++ h ++ Spec.be2 d := by
  unfold checkProof at hacc
  split at hacc
  · cases hacc
  rename_i hk
  split at hacc
  · cases hacc
  rename_i hs
  split at hacc
  · cases hacc
  rename_i r hr
  split at hacc
  · cases hacc
  rename_i hh
  split at hacc
  · cases hacc
  rename_i db hdb
  split at hacc
  · cases hacc
  rename_i hm
  simp only [bne_iff_ne, ne_eq, Decidable.not_not, Bool.or_eq_true, not_or] at hk hs hh hm
  obtain ⟨⟨hm1, hm2⟩, hm3⟩ := hm
  cases hgd : r.info.getDepth 0 with
  | none => rw [hgd] at hdb; cases hdb
  | some d =>
    rw [hgd, Option.bind_some] at hdb
    have hdlt : d < 256 ^ 2 := by
      unfold toBytesBE? at hdb; split at hdb
      · assumption
      · cases hdb
    have hbe : db = Spec.be2 d := by
      have := toBytesBE_two d (by omega)
      rw [this] at hdb; cases hdb; rfl
    refine ⟨hk, hs, hm2, r, d, ?_, hh, hgd, by rw [hm3, hbe]⟩
    cases hrefs : c.refs with
    | nil => rw [hrefs] at hr; simp at hr
    | cons a as =>
      rw [hrefs] at hr hm1
      simp only [List.getElem?_cons_zero, Option.some.injEq] at hr
      subst hr
      cases as with
      | nil => rfl
      | cons b bs => simp at hm1

/-- a cell that is not a Merkle proof is rejected -/
theorem c11_reject_not_proof (c : PCell) (h : Bytes) (hk : c.info.kind ≠ kMerkleProof) : checkProof c h = false := by
  cases hc : checkProof c h with
  | false => rfl
  | true => exact absurd (c11_sound_shape c h hc).1 hk

/-- a proof is accepted for at most one expected hash: a different expected hash is rejected -/
theorem c11_reject_wrong_hash (c : PCell) (h h' : Bytes) (hacc : checkProof c h = true) (hne : h' ≠ h) :
    checkProof c h' = false := by
  cases hc : checkProof c h' with
  | false => rfl
  | true =>
    have a := (c11_sound_shape c h hacc).2.1
    have b := (c11_sound_shape c h' hc).2.1
    exact absurd (b.symm.trans a) hne

end TonVerif.Properties.C11
