/-
C11 — Merkle proof checks are complete and sound.

Model: Model/Proof.lean (`checkProof`, `checkBlockHeaderProof(State)`, `checkAccountProof`, `checkShardProof`
over constructed cell objects `PCell`) and Model/Locate.lean (`locateAccount`: the TL-B walk of `check_account_proof` to the
account cell, concrete; `lookupShardAccount`: the lookup-only reading of block.tlb / hashmap.tlb used in the statements).
Pruning: Proofs/Prune.lean (`PruneRel`).  Helper lemmas: Proofs/Merkle.lean, Proofs/Locate.lean, Proofs/LocateBind.lean.
`H` is SHA-256 as a parameter; completeness needs no property of `H` beyond 32-byte output (so that the hash fits
the proof cell's 256-bit field); soundness takes a LOCAL no-collision hypothesis on the representations at hand.
-/
import TonVerif.Proofs.Merkle
import TonVerif.Proofs.Binding
import TonVerif.Proofs.PruneWF
import TonVerif.Proofs.OrdCell
import TonVerif.Proofs.Locate
import TonVerif.Proofs.LocateBind
import TonVerif.Proofs.SrcArith2
import TonVerif.Generated.ProofChecks
import TonVerif.Proofs.SrcProof
import TonVerif.Proofs.SrcProofCtor
import TonVerif.Proofs.SrcLocate
import TonVerif.Proofs.SrcLocateWalk
import TonVerif.Proofs.SrcLocateAccounts
import TonVerif.Proofs.SrcLocateHeader

namespace TonVerif.Properties.C11
open TonVerif TonVerif.Model TonVerif.Proofs.CellSpec TonVerif.Proofs.Prune TonVerif.Proofs.Merkle

/-- COMPLETENESS (generic check and block-header check). Let `t` be any spec-valid tree of level 0 (a block, a shard
state, ...; inner Merkle cells and the pruned branches below them allowed) with spec values `s`, and `p` ANY pruning of
it (`PruneRel H 1 t p`: any set of subtrees replaced by pruned branches, deeper levels under inner Merkle cells).  Wrap
`p` in the Merkle proof cell naming `t`'s level-0 hash and depth.  Then that proof can be constructed,
`check_proof(proof, hash t)` returns, its only child is the object of `p`, and
`check_block_header_proof(proof[0], hash t)` returns.  Validity of the proof tree is DERIVED (`prune_treeWF`), not
assumed.  Remaining side conditions: the root hash is 32 valid bytes (true of SHA-256; nothing else about `H` is used)
and `depth t ≤ 1022` (the proof cell is one deeper than `t`, and cells deeper than 1023 cannot be built). -/
theorem c11_complete (H : Bytes → Bytes) (t p : Cell) (s : Spec.SInfo)
    (wft : TreeWF H t) (hs : specInfo H t = some s) (hlev : s.mask = 0) (hrel : PruneRel H 1 t p)
    (h32 : (s.hashAt 0).length = 32 ∧ Bytes.WF (s.hashAt 0)) (hd : s.depthAt 0 ≤ 1022) :
    ∃ c r, PCell.ofCell H (merkleProofCell (s.hashAt 0) (s.depthAt 0) p) = some c ∧ c.refs = [r] ∧
      PCell.ofCell H p = some r ∧
      checkProof c (s.hashAt 0) = true ∧ checkBlockHeaderProof r (s.hashAt 0) = true := by
  obtain ⟨sp, hsp, hinv⟩ := prune_invariant H 1 t p s hrel hs
  obtain ⟨h0, d0, _⟩ := hinv 0 (by omega)
  -- the pruned tree and the proof cell over it are spec-valid
  obtain ⟨wfc, hle⟩ := TonVerif.Proofs.PruneWF.prune_treeWF H 1 t p s (Nat.le_refl _) wft hs (by rw [hlev]; decide) hrel
  have wfp : TreeWF H (merkleProofCell (s.hashAt 0) (s.depthAt 0) p) := by
    unfold merkleProofCell
    rw [TreeWF]
    refine ⟨⟨wfc, trivial⟩, .merkleProof, [sp], by decide, by simp [specInfos, hsp], ?_⟩
    have hmask7 := TonVerif.Proofs.PruneWF.treeWF_mask_le H p sp wfc hsp
    refine ⟨?_, by simp, ?_, ?_, by simp, by simp, by simp, by simp⟩
    · rw [length_bytesToBits, mproofData_length _ _ h32.1]; omega
    · intro c hc; simp at hc; subst hc; exact hmask7
    · intro _ l
      rw [node_plain H .merkleProof _ _ (by decide)]
      show Spec.plainDepthAt .merkleProof [sp] _ l ≤ 1023
      obtain ⟨L, _, _, _, e⟩ := TonVerif.Proofs.PruneWF.plainDepthAt_top .merkleProof [sp]
        (Spec.nodeMask .merkleProof (bytesToBits (mproofData (s.hashAt 0) (s.depthAt 0))) [sp]) l
      rw [e, TonVerif.Proofs.PruneWF.depthOver_single]
      have h1 := hle sp hsp (L + Spec.Kind.mu .merkleProof)
      have h2 := TonVerif.Proofs.PruneWF.depth_level0 H t s hs hlev (L + Spec.Kind.mu .merkleProof)
      omega
  have hd : s.depthAt 0 < 65536 := by omega
  -- the proof cell and its child can be constructed
  obtain ⟨i, si, hi, hsi, hag⟩ := tree_agrees H _ wfp
  unfold merkleProofCell at hi
  obtain ⟨rs, hrs, hc, hinfos⟩ := ofCell_of_info H 3 _ [p] i hi
  obtain ⟨r, rfl, hr⟩ := ofCells_singleton H p rs hrs
  have hfields : i.kind = 3 ∧ i.bits = bytesToBits (mproofData (s.hashAt 0) (s.depthAt 0)) := by
    simp only [Cell.info, hinfos, Option.bind_eq_bind, Option.bind_some] at hi
    have := construct_fields H _ _ _ _ hi
    exact ⟨this.1, this.2.1⟩
  -- the child reports the spec values of `p`, which are those of `t` at level 0
  obtain ⟨ip, sp', hip, hsp', hagp⟩ := tree_agrees H p wfc
  rw [hsp] at hsp'; cases hsp'
  have hrinfo : r.info = ip := by
    have := ofCell_info H p
    rw [hr, hip] at this
    simpa using this
  have hh : r.info.getHash 0 = some (s.hashAt 0) := by rw [hrinfo, (hagp.2 0).1, h0]
  have hdp : r.info.getDepth 0 = some (s.depthAt 0) := by rw [hrinfo, (hagp.2 0).2, d0]
  obtain ⟨a1, a2⟩ := checkProof_accepts (.mk i [r]) r (s.hashAt 0) (s.depthAt 0) hfields.1 hfields.2 rfl
    h32.1 h32.2 hd hh hdp
  exact ⟨.mk i [r], r, hc, rfl, hr, a1, a2⟩

/-- SOUNDNESS, structural part (no hash assumption). If `check_proof(c, h)` returns then `c` is a Merkle proof
cell with exactly one child, exactly 280 data bits `03 ++ h ++ depth`, and the child's level-0 hash is `h`.
Hence: a cell of any other type is rejected, and so is a proof whose stored hash or whose child's hash is not
the expected one. -/
theorem c11_sound_shape (c : PCell) (h : Bytes) (hacc : checkProof c h = true) :
    c.info.kind = kMerkleProof ∧ pySlice c.data 1 33 = h ∧ c.info.bits.length = 280 ∧
    ∃ r d, c.refs = [r] ∧ r.info.getHash 0 = some h ∧ r.info.getDepth 0 = some d ∧
      c.data = [3] ++ h ++ Spec.be2 d := by
  unfold checkProof at hacc
  split at hacc
  · cases hacc
  rename_i hk
  split at hacc
  · cases hacc
  rename_i hs
  split at hacc
  · cases hacc
  rename_i r hr
  split at hacc
  · cases hacc
  rename_i hh
  split at hacc
  · cases hacc
  rename_i db hdb
  split at hacc
  · cases hacc
  rename_i hm
  simp only [bne_iff_ne, ne_eq, Decidable.not_not, Bool.or_eq_true, not_or] at hk hs hh hm
  obtain ⟨⟨hm1, hm2⟩, hm3⟩ := hm
  cases hgd : r.info.getDepth 0 with
  | none => rw [hgd] at hdb; cases hdb
  | some d =>
    rw [hgd, Option.bind_some] at hdb
    have hdlt : d < 256 ^ 2 := by
      unfold toBytesBE? at hdb; split at hdb
      · assumption
      · cases hdb
    have hbe : db = Spec.be2 d := by
      have := toBytesBE_two d (by omega)
      rw [this] at hdb; cases hdb; rfl
    refine ⟨hk, hs, hm2, r, d, ?_, hh, hgd, by rw [hm3, hbe]⟩
    cases hrefs : c.refs with
    | nil => rw [hrefs] at hr; simp at hr
    | cons a as =>
      rw [hrefs] at hr hm1
      simp only [List.getElem?_cons_zero, Option.some.injEq] at hr
      subst hr
      cases as with
      | nil => rfl
      | cons b bs => simp at hm1

/-- a cell that is not a Merkle proof is rejected -/
theorem c11_reject_not_proof (c : PCell) (h : Bytes) (hk : c.info.kind ≠ kMerkleProof) : checkProof c h = false := by
  cases hc : checkProof c h with
  | false => rfl
  | true => exact absurd (c11_sound_shape c h hc).1 hk

/-- a proof is accepted for at most one expected hash: a different expected hash is rejected -/
theorem c11_reject_wrong_hash (c : PCell) (h h' : Bytes) (hacc : checkProof c h = true) (hne : h' ≠ h) :
    checkProof c h' = false := by
  cases hc : checkProof c h' with
  | false => rfl
  | true =>
    have a := (c11_sound_shape c h hacc).2.1
    have b := (c11_sound_shape c h' hc).2.1
    exact absurd (b.symm.trans a) hne

/-! ## block header: the returned state hash -/

/-- If `check_block_header_proof(root, h, True)` returns `sh` then `root.get_hash(0) = h`, `root[2]` is a Merkle
update cell, `sh` is the level-0 hash of its second child AND the new-state hash stored in the update cell's own
data (`data[33:65]`) — the only place the block hash commits to it.  (Before fix 67bd38d only the child's level-0
hash was returned; a level-2 pruned branch could name a forged one.) -/
theorem c11_header_state_sound (root : PCell) (h sh : Bytes) (hacc : checkBlockHeaderProofState root h = some sh) :
    root.info.getHash 0 = some h ∧
    ∃ su c, root.refs[2]? = some su ∧ su.refs[1]? = some c ∧ su.info.kind = kMerkleUpdate ∧
      c.info.getHash 0 = some sh ∧ pySlice su.data 33 65 = sh := by
  unfold checkBlockHeaderProofState at hacc
  split at hacc
  · rename_i hb
    refine ⟨by simpa [checkBlockHeaderProof] using hb, ?_⟩
    cases h2 : root.refs[2]? with
    | none => simp [h2] at hacc
    | some su =>
      cases h21 : su.refs[1]? with
      | none => simp [h2, h21] at hacc
      | some c =>
        cases hh : c.info.getHash 0 with
        | none => simp [h2, h21, hh] at hacc
        | some x =>
          simp only [h2, h21, hh, Option.bind_eq_bind, Option.bind_some] at hacc
          split at hacc
          · cases hacc
          · rename_i hc
            cases hacc
            simp only [Bool.or_eq_true, bne_iff_ne, ne_eq, not_or, Decidable.not_not] at hc
            exact ⟨su, c, rfl, h21, hc.1, hh, hc.2⟩
  · cases hacc

/-! ## account proofs

`check_account_proof(proof, shrd_blk, address, account_state_root)` is `checkAccountProof O roots blk addr state`
(`roots = Cell.from_boc(proof)`, `blk = shrd_blk.root_hash`, `addr = address.hash_part`).  The TL-B walk
`ShardStateUnsplit.deserialize(st).accounts[0][addr].cell[0]` is the CONCRETE function `locateAccount`
(Model/Locate.lean): state header fields, `load_hashmap_aug_e` over the whole `ShardAccounts` dictionary (C10 label
reader), `DepthBalanceInfo`, `ShardAccount`, the `^[…]` group, `custom`.  `O : Opaque` = the verdicts of the two
sub-parsers that are not modelled (`Account.deserialize` on an `account$1` cell, `McStateExtra.deserialize` on an
ordinary cell); every theorem below holds for ALL `O` and says so by quantifying over it. -/
open TonVerif.Proofs.Locate

/-- SOUNDNESS of the account check, composition (no hash assumption): if `check_account_proof` returns, there were
exactly two roots, both pass `check_proof` (against the block root hash resp. the state hash `sh` that the header's
Merkle update commits to), the state proof's child `st` has level-0 hash `sh`, the TL-B walk over `st` returned a cell
`acc`, and the REPRESENTATION hash (`Cell.hash`) of the supplied account state equals the level-0 hash of `acc`. -/
theorem c11_account_sound (O : Opaque) (roots : List PCell) (blk addr : Bytes) (state : PCell)
    (hacc : checkAccountProof O roots blk addr state = true) :
    ∃ p0 p1 hdr st acc sh, roots = [p0, p1] ∧ checkProof p0 blk = true ∧ p0.refs[0]? = some hdr ∧
      checkBlockHeaderProofState hdr blk = some sh ∧ p1.refs[0]? = some st ∧ st.info.getHash 0 = some sh ∧
      checkProof p1 sh = true ∧ locateAccount O st addr = some acc ∧ acc.info.getHash 0 = some state.info.hash := by
  unfold checkAccountProof at hacc
  split at hacc
  · rename_i p0 p1
    split at hacc
    · cases hacc
    rename_i h0
    split at hacc
    · cases hacc
    rename_i hdr hhdr
    split at hacc
    · cases hacc
    rename_i sh hsh
    split at hacc
    · cases hacc
    rename_i st hst
    split at hacc
    · cases hacc
    rename_i hs
    split at hacc
    · cases hacc
    rename_i h1
    split at hacc
    · cases hacc
    rename_i acc hl
    simp only [Bool.not_eq_true, bne_iff_ne, ne_eq, Decidable.not_not, beq_iff_eq] at h0 h1 hs hacc
    exact ⟨p0, p1, hdr, st, acc, sh, rfl, by simpa using h0, hhdr, hsh, hst, hs, by simpa using h1, hl, hacc⟩
  · cases hacc

/-- WHAT THE WALK FINDS (the former parameter `locate`, now a theorem).  If
`ShardStateUnsplit.deserialize(st.begin_parse()).accounts[0][int.from_bytes(addr,'big')].cell[0]` returns `acc` for a
32-byte address, then `st` is an ordinary cell carrying the `shard_state#9023afe2` tag and ≥ 361 data bits, and `acc` is
the cell that the lookup-only reading of block.tlb / hashmap.tlb designates (`lookupShardAccount`): `st[1]` is an
ordinary cell `ahme_root$1 root:^…`, the dictionary walk from `root = st[1][0]` along the 256 bits of `addr` (each
label a prefix of the remaining key, the next key bit choosing the left or right reference) ends in a leaf, and `acc`
is the `account:^Account` reference of that leaf's `ShardAccount` (the first reference after the `DepthBalanceInfo`
extra, 320 value bits present).  So the dictionary of the proved state maps `addr` to a `ShardAccount` whose account
cell is `acc` — for every behaviour `O` of the unmodelled sub-parsers and whatever is pruned off the path. -/
theorem c11_locate_sound (O : Opaque) (st : PCell) (addr : Bytes) (acc : PCell) (hl : addr.length = 32) (hw : Bytes.WF addr)
    (h : locateAccount O st addr = some acc) :
    st.info.kind = kOrdinary ∧ 361 ≤ st.info.bits.length ∧ st.info.bits.take 32 = shardStateTag ∧
    lookupShardAccount pcellView st (bytesToBits addr) = some acc := by
  obtain ⟨hk, hlen, htag, _⟩ := locateAccount_some h
  exact ⟨hk, hlen, htag, locateAccount_lookup O st addr acc hl hw h⟩

/-- SOUNDNESS of the account check down to the dictionary: acceptance for a 32-byte address implies everything
`c11_account_sound` lists AND that the `ShardAccounts` dictionary of the proved state cell `st` maps the address to a
`ShardAccount` whose account reference `acc` has as level-0 hash the representation hash of the supplied state. -/
theorem c11_account_sound_lookup (O : Opaque) (roots : List PCell) (blk addr : Bytes) (state : PCell)
    (hl : addr.length = 32) (hw : Bytes.WF addr) (hacc : checkAccountProof O roots blk addr state = true) :
    ∃ p0 p1 hdr st acc sh, roots = [p0, p1] ∧ checkProof p0 blk = true ∧ p0.refs[0]? = some hdr ∧
      checkBlockHeaderProofState hdr blk = some sh ∧ p1.refs[0]? = some st ∧ st.info.getHash 0 = some sh ∧
      checkProof p1 sh = true ∧ lookupShardAccount pcellView st (bytesToBits addr) = some acc ∧
      acc.info.getHash 0 = some state.info.hash := by
  obtain ⟨p0, p1, hdr, st, acc, sh, e, h0, hhdr, hsh, hst, hs, h1, hloc, hh⟩ := c11_account_sound O roots blk addr state hacc
  exact ⟨p0, p1, hdr, st, acc, sh, e, h0, hhdr, hsh, hst, hs, h1, (c11_locate_sound O st addr acc hl hw hloc).2.2.2, hh⟩

/-- A claimed account state whose own hash is not the committed one is rejected. -/
theorem c11_account_reject (O : Opaque) (roots : List PCell) (blk addr : Bytes) (state : PCell)
    (hne : ∀ st acc, locateAccount O st addr = some acc → acc.info.getHash 0 ≠ some state.info.hash) :
    checkAccountProof O roots blk addr state = false := by
  cases hc : checkAccountProof O roots blk addr state with
  | false => rfl
  | true =>
    obtain ⟨_, _, _, st, acc, _, _, _, _, _, _, _, _, hl, hh⟩ := c11_account_sound O roots blk addr state hc
    exact absurd hh (hne st acc hl)

/-- An address the dictionary of the proved state cell does not hold (the lookup-only walk fails: label mismatch,
pruned or malformed path, no `ShardAccounts` root) is rejected, whatever else the proof contains. -/
theorem c11_account_reject_absent (O : Opaque) (p0 p1 st : PCell) (blk addr : Bytes) (state : PCell)
    (hl : addr.length = 32) (hw : Bytes.WF addr) (hst : p1.refs[0]? = some st)
    (hno : lookupShardAccount pcellView st (bytesToBits addr) = none) :
    checkAccountProof O [p0, p1] blk addr state = false := by
  cases hc : checkAccountProof O [p0, p1] blk addr state with
  | false => rfl
  | true =>
    obtain ⟨q0, q1, _, st', acc, _, e, _, _, _, hst', _, _, hlk, _⟩ :=
      c11_account_sound_lookup O [p0, p1] blk addr state hl hw hc
    simp only [List.cons.injEq, and_true] at e
    obtain ⟨rfl, rfl⟩ := e
    rw [hst] at hst'; cases hst'
    rw [hlk] at hno; cases hno

/-- The F12 scenario: the supplied "state" is a spec-valid PRUNED-BRANCH cell (whatever hashes it carries, e.g. the
committed one as its level-0 hash).  Its `Cell.hash` is `H` of its own representation, whose first byte has the
exotic bit and a non-zero level mask.  If the account cell `acc` found in the proved state has as level-0 hash the
hash of a representation `d1 :: rest` of a NON-pruned cell (`d1 = r + 8e`, r ≤ 4, level part 0) and `H` does not
collide on these two representations, the check rejects. -/
theorem c11_account_reject_pruned (H : Bytes → Bytes) (O : Opaque) (roots : List PCell)
    (blk addr : Bytes) (bits : Bits) (i : CellInfo)
    (wf : NodeWF H .pruned bits []) (hc : construct H 1 bits [] = some i)
    (r : Nat) (e : Bool) (rest : Bytes) (hr : r ≤ 4)
    (hcommitted : ∀ st acc, locateAccount O st addr = some acc → acc.info.getHash 0 = some (H (Spec.d1 r e 0 :: rest)))
    (nocoll : H (Spec.d1 r e 0 :: rest) =
        H ([Spec.d1 0 true (Spec.nodeMask .pruned bits []), Spec.d2 bits.length] ++ Spec.dataBytes bits) →
      Spec.d1 r e 0 :: rest = [Spec.d1 0 true (Spec.nodeMask .pruned bits []), Spec.d2 bits.length] ++ Spec.dataBytes bits) :
    checkAccountProof O roots blk addr (.mk i []) = false := by
  apply c11_account_reject
  intro st acc hl
  rw [hcommitted st acc hl]
  intro heq
  have hh := construct_pruned_hash H bits wf i hc
  simp only [PCell.info, Option.some.injEq] at heq
  rw [hh] at heq
  have := nocoll heq
  simp only [List.cons_append, List.nil_append, List.cons.injEq] at this
  obtain ⟨_, _, h3, _⟩ := wf.pruned rfl
  have hd := this.1
  unfold Spec.d1 at hd
  cases e <;> simp at hd <;> omega

/-- COMPLETENESS of the account check, composition: if both roots pass `check_proof` (c11_complete gives this for every
pruning of the block header and of the shard state), the header's Merkle update commits to the state hash, the TL-B walk
over the (pruned) state cell returns `acc` (`c11_locate_complete`), and `acc` has as level-0 hash the representation hash
of the supplied state — by pruning invariance (c02_prune_invariant) that holds whether the account cell is present in
full or pruned — then `check_account_proof` returns. -/
theorem c11_account_complete (O : Opaque) (p0 p1 hdr st acc state : PCell) (blk addr sh : Bytes)
    (h0 : checkProof p0 blk = true) (hhdr : p0.refs[0]? = some hdr) (hsh : checkBlockHeaderProofState hdr blk = some sh)
    (hst : p1.refs[0]? = some st) (hs : st.info.getHash 0 = some sh) (h1 : checkProof p1 sh = true)
    (hl : locateAccount O st addr = some acc) (hh : acc.info.getHash 0 = some state.info.hash) :
    checkAccountProof O [p0, p1] blk addr state = true := by
  simp [checkAccountProof, h0, hhdr, hsh, hst, hs, h1, hl, hh]

/-- THE DICTIONARY PARSER OF THE WALK IS THE C10 PARSER MODEL.  `parseAugP` (Model/Locate.lean: `parse_aug` on constructed
cells, used by `locateAccount`) succeeds exactly when the C10 model `Hashmap.parseAugEdge` — the function the C10
correspondence and `c10_parse_any_aug` are about — succeeds on the underlying tree (`PCell.toCell`), and returns the same
keys in the same order, for any two pairs of extra/value deserialisers that succeed on the same slices and leave the same
rest (`DecCompat`).  So the only new hand-written parser pieces of the walk are the field readers (`readDepthBalance`,
`readShardAccount`, `stateRefGroup`, the state header). -/
theorem c11_parse_aug_is_c10 {X X' Y' : Type} (decY : PSlice → Option PSlice) (decX : PSlice → Option X)
    (D : Spec.Hashmap.AugDec X' Y') (hc : DecCompat decY decX D) (c : PCell) (keyLen : Int) (pfx : Bits) :
    (parseAugP decY decX c keyLen pfx).map (·.map Prod.fst) =
      (Hashmap.parseAugEdge D c.toCell keyLen pfx).map (·.1.map Prod.fst) :=
  parseAugP_c10 decY decX D hc c keyLen pfx

/-- non-vacuity of `DecCompat`: readers that only look at the bits (here: skip 2 extra bits, then require 3 value bits) -/
example : DecCompat (X := Unit) (X' := Unit) (Y' := Unit)
    (fun s => if s.1.length < 2 then none else some (s.1.drop 2, s.2))
    (fun s => if s.1.length < 3 then none else some ())
    ⟨fun s => if s.1.length < 2 then none else some ((), (s.1.drop 2, s.2)),
     fun s => if s.1.length < 3 then none else some ()⟩ := by
  constructor
  · intro rest refs
    by_cases h : rest.length < 2 <;> simp [h]
  · intro sl
    by_cases h : sl.1.length < 3 <;> simp [h]

/-- COMPLETENESS of the walk on HONEST state proofs (any pruning off the path).  Let the state cell `st` be an ordinary
cell with the `shard_state` tag, the `ShardIdent` tag `00` and ≥ 362 bits, references `omq :: accs :: grp :: …` (`omq` is
never parsed — any cell, e.g. a pruned branch); `accs` an ordinary cell `1 ++ extra` with references `root :: …` whose
top-level `extra:DepthBalanceInfo` is readable; `root` an ordinary cell that is a spec-valid `HashmapAug 256 ShardAccount
DepthBalanceInfo` — EVERY label in any of the constructors short/long/same that can express it, ANY edge replaced by a
non-ordinary cell (pruned branch), extras and leaves of the unpruned part readable (`ValidAugP`; for a leaf that
includes: its account cell is non-empty and, if it starts with bit 1, `Account.deserialize` accepts it) — whose unpruned
leaves `kv` still hold the address with account reference `acc`; the `^[…]` group `grp` pruned or readable
(`stateRefGroup`); `custom` absent (bit 361 = 0), or its cell pruned, or accepted by `McStateExtra.deserialize`.  Then
`ShardStateUnsplit.deserialize(st).accounts[0][addr].cell[0]` returns `acc`. -/
theorem c11_locate_complete (O : Opaque) (st omq accs grp root : PCell) (rest2 emore : List PCell) (erest : Bits)
    (kv : List (Bits × PCell)) (addr : Bytes) (acc : PCell)
    (hk : st.info.kind = -1) (hlen : 361 < st.info.bits.length) (htag : st.info.bits.take 32 = shardStateTag)
    (hsi : (st.info.bits.drop 64).take 2 = [false, false]) (hrefs : st.refs = omq :: accs :: grp :: rest2)
    (hak : accs.info.kind = -1) (hab : accs.info.bits = true :: erest) (har : accs.refs = root :: emore)
    (hext : ∃ sl, readDepthBalance (erest, emore) = some sl) (hrk : root.info.kind = -1)
    (hv : ValidAugP readDepthBalance (readShardAccount O) 256 root kv) (hmem : (bytesToBits addr, acc) ∈ kv)
    (hw : Bytes.WF addr) (hgrp : stateRefGroup grp = true)
    (hcu : st.info.bits[361]? = some false ∨
      ∃ cu more, rest2 = cu :: more ∧ (cu.info.kind ≠ -1 ∨ O.mcExtra cu = true)) :
    locateAccount O st addr = some acc :=
  locateAccount_complete O st omq accs grp root rest2 emore erest kv addr acc hk hlen htag hsi hrefs hak hab har hext hrk
    hv hmem hw hgrp hcu

/-! Non-vacuity of `c11_locate_complete` / `c11_locate_sound`: a one-account shard state (address 00…00; the leaf label
is `hml_same 0 × 256`, 12 bits; extras `split_depth 0, grams 0, no extra currencies`; `account_none`; out-queue and `^[…]`
group pruned; no `custom`) meets every hypothesis, for every `O`. -/
def exInfo (kind : Int) (bits : Bits) (n : Nat) : CellInfo := ⟨kind, bits, n, 0, [], []⟩
def exAcc : PCell := .mk (exInfo (-1) [false] 0) []
def exExtra : Bits := List.replicate 10 false
def exLabel : Bits := true :: true :: false :: natToBits 9 256
def exLeaf : PCell := .mk (exInfo (-1) (exLabel ++ (exExtra ++ List.replicate 320 false)) 1) [exAcc]
def exAccs : PCell := .mk (exInfo (-1) (true :: exExtra) 1) [exLeaf]
def exPruned : PCell := .mk (exInfo 1 [] 0) []
def exState : PCell := .mk (exInfo (-1) (shardStateTag ++ List.replicate 330 false) 3) [exPruned, exAccs, exPruned]
def exAddr : Bytes := List.replicate 32 0

theorem exExtra_reads (r : Bits) (refs : List PCell) : readDepthBalance (exExtra ++ r, refs) = some (r, refs) := by
  have h4 : ∀ n : Nat, ¬ (n + 1 + 1 + 1 + 1 + 1 < 4) := by intro n; omega
  simp [readDepthBalance, readCurrencyCollection, loadCoinsRest, readExtraCurrencies, exExtra, List.replicate, natOfBits, h4]

theorem exLeaf_valid (O : Opaque) :
    ValidAugP readDepthBalance (readShardAccount O) 256 exLeaf [(List.replicate 256 false, exAcc)] := by
  have hl : Spec.Hashmap.LabelEnc 256 (List.replicate 256 false) .same exLabel := by
    have := Spec.Hashmap.LabelEnc.same (m := 256) (s := List.replicate 256 false) false
      (by rw [List.length_replicate]) (by rw [List.length_replicate])
    have e : Spec.Hashmap.lenBits 256 = 9 := by decide +kernel
    rw [List.length_replicate, e] at this
    exact this
  refine ValidAugP.leaf hl (List.length_replicate ..) rfl rfl (exExtra_reads _ _) ?_
  unfold readShardAccount
  simp only [exAcc, exInfo, PCell.info, List.length_replicate]
  simp

example (O : Opaque) : locateAccount O exState exAddr = some exAcc ∧ exAddr.length = 32 ∧ Bytes.WF exAddr ∧
    lookupShardAccount pcellView exState (bytesToBits exAddr) = some exAcc := by
  have hbits : bytesToBits exAddr = List.replicate 256 false := by decide +kernel
  have hw : Bytes.WF exAddr := by intro b hb; simp [exAddr] at hb; omega
  have htl : shardStateTag.length = 32 := by decide +kernel
  have h : locateAccount O exState exAddr = some exAcc := by
    refine c11_locate_complete O exState exPruned exAccs exPruned exLeaf [] [] exExtra _ exAddr exAcc rfl
      ?_ ?_ (by decide +kernel) rfl rfl rfl rfl ⟨_, by simpa using exExtra_reads [] []⟩ rfl (exLeaf_valid O)
      (by rw [hbits]; exact List.mem_singleton.2 rfl) hw rfl (Or.inl (by decide +kernel))
    · show 361 < (shardStateTag ++ List.replicate 330 false).length
      rw [List.length_append, List.length_replicate, htl]; omega
    · show (shardStateTag ++ List.replicate 330 false).take 32 = shardStateTag
      exact List.take_left' htl
  exact ⟨h, rfl, hw, (c11_locate_sound O exState exAddr exAcc rfl hw h).2.2.2⟩

/-! ## binding: what an accepted hash pins down -/
open TonVerif.Proofs.Binding

/-- SOUNDNESS CORE (general: every level `l`, trees with ordinary, library, pruned-branch, Merkle proof and Merkle
update cells in any nesting).  Assume `H` has 32-byte output and does not collide between the representations
occurring in `p` and those occurring in `t` (`reprs`: of each non-pruned cell its representation at every significant
level, of each pruned branch its own representation — a LOCAL hypothesis on finitely many byte strings), and both trees
have the shape of valid bags (`Shape`: ≤ 4 references, exotic cells with their proper reference counts, pruned branches
with non-zero mask holding all hashes they declare).  If `p` and `t` have the same level-`l` hash then `Agree H l p t`:
going down from the roots, corresponding cells have the same hash at the level they are looked at (`L + μ` below a
cell hashed at level `L`; all significant `L ≤ l`, because level-`L` hashes are chained over the lower ones), and each
pair is either (a pruned branch answering with a STORED hash, the subtree whose hash that is) or two cells of the same
type with the same BIT STRING, the same number of references and pairwise agreeing children. -/
theorem c11_binding (H : Bytes → Bytes) (h32 : ∀ x, (H x).length = 32) (p t : Cell) (l : Nat) (sp st : Spec.SInfo)
    (shp : Shape p) (sht : Shape t) (hsp : specInfo H p = some sp) (hst : specInfo H t = some st)
    (nocoll : ∀ x y, x ∈ reprs H p → y ∈ reprs H t → H x = H y → x = y)
    (hh : sp.hashAt l = st.hashAt l) : Agree H l p t :=
  binding_aux H h32 p t l sp st shp sht hsp hst nocoll hh

/-- What `Agree` says about one pair of cells neither of which is a pruned branch answering with a stored hash:
same cell type, same bit string (not just the same padded bytes: `Pad.dataBytes_inj`), same number of references.
"Any change to the data or structure of an unpruned cell" therefore breaks `Agree`. -/
theorem c11_binding_bits (H : Bytes → Bytes) (l : Nat) (kp kt : Int) (bp bt : Bits) (rp rt : List Cell)
    (h : Agree H l (.mk kp bp rp) (.mk kt bt rt)) (hp : ¬ StoredAt kp bp l) (ht : ¬ StoredAt kt bt l) :
    kp = kt ∧ bp = bt ∧ rp.length = rt.length := by
  rw [Agree] at h
  rcases h.2 with h1 | h1 | h1
  · exact absurd h1 hp
  · exact absurd h1 ht
  · exact ⟨h1.1, h1.2.1, h1.2.2.1⟩

/-- ... and about the children: at every level `L ≤ l` at which the cell's hash is computed, the children agree
pairwise at level `L + μ` (μ = 1 below Merkle proof/update cells). In particular at `L = 0`. -/
theorem c11_binding_children (H : Bytes → Bytes) (l : Nat) (kp kt : Int) (bp bt : Bits) (rp rt : List Cell) (sp : Spec.SInfo)
    (h : Agree H l (.mk kp bp rp) (.mk kt bt rt)) (hp : ¬ StoredAt kp bp l) (ht : ¬ StoredAt kt bt l)
    (hsp : specInfo H (.mk kp bp rp) = some sp) (L : Nat) (hL : L ≤ l) (hs : sigB sp.mask L = true) :
    Agrees H (L + muOf kp) rp rt := by
  rw [Agree] at h
  rcases h.2 with h1 | h1 | h1
  · exact absurd h1 hp
  · exact absurd h1 ht
  · exact h1.2.2.2 sp hsp L hL hs

/-- a pruned branch that answers level `l` with a stored hash agrees with `t` only if that hash is `t`'s level-`l`
hash: a substituted pruned hash breaks `Agree` -/
theorem c11_binding_pruned_hash (H : Bytes → Bytes) (l : Nat) (p t : Cell) (sp st : Spec.SInfo)
    (h : Agree H l p t) (hsp : specInfo H p = some sp) (hst : specInfo H t = some st) : sp.hashAt l = st.hashAt l := by
  cases p with
  | mk kp bp rp =>
    cases t with
    | mk kt bt rt =>
      rw [Agree] at h
      obtain ⟨⟨sp', st', h1, h2, h3⟩, _⟩ := h
      rw [hsp] at h1; rw [hst] at h2
      cases h1; cases h2
      exact h3

/-- SOUNDNESS of `check_proof`: if the object of the spec-valid proof tree `.mk kind bits [p]` passes
`check_proof(·, h)`, then it is a well-formed Merkle proof cell naming `h`, and for EVERY tree `t` (any cell types)
whose level-0 hash is `h`, the proof body `p` agrees with `t` at level 0 (`Agree`, see `c11_binding`) — under the
local no-collision hypothesis.  Each listed rejection follows by contraposition: a changed bit / type / reference of
an unpruned cell (`c11_reject_changed`) or a substituted pruned hash (`c11_binding_pruned_hash`) contradicts `Agree`; a
different expected hash and a non-proof cell are `c11_reject_wrong_hash`, `c11_reject_not_proof`. -/
theorem c11_sound (H : Bytes → Bytes) (h32 : ∀ x, (H x).length = 32) (kind : Int) (bits : Bits) (p t : Cell)
    (c : PCell) (h : Bytes) (sp st : Spec.SInfo)
    (wf : TreeWF H (.mk kind bits [p])) (hc : PCell.ofCell H (.mk kind bits [p]) = some c)
    (hacc : checkProof c h = true)
    (shp : Shape p) (sht : Shape t) (hsp : specInfo H p = some sp) (hst : specInfo H t = some st) (ht : st.hashAt 0 = h)
    (nocoll : ∀ x y, x ∈ reprs H p → y ∈ reprs H t → H x = H y → x = y) :
    c.info.kind = kMerkleProof ∧ pySlice c.data 1 33 = h ∧ Agree H 0 p t := by
  obtain ⟨hk, hs, _, r, d, hr, hh, _, _⟩ := c11_sound_shape c h hacc
  refine ⟨hk, hs, ?_⟩
  -- the child object is the object of `p` and reports the spec hash of `p`
  have hinfo := ofCell_info H (.mk kind bits [p])
  rw [hc] at hinfo
  obtain ⟨rs, hrs, hc', _⟩ := ofCell_of_info H kind bits [p] c.info (by simpa using hinfo.symm)
  rw [hc] at hc'
  obtain ⟨r', hr', hrp⟩ := ofCells_singleton H p rs hrs
  have hcr : c.refs = rs := by
    have := Option.some.inj hc'
    rw [this]; rfl
  rw [hr, hr'] at hcr
  cases hcr
  have wfp : TreeWF H p := by rw [TreeWF] at wf; exact wf.1.1
  obtain ⟨ip, sp', hip, hsp', hag⟩ := tree_agrees H p wfp
  rw [hsp] at hsp'; cases hsp'
  have hri : r.info = ip := by
    have := ofCell_info H p
    rw [hrp, hip] at this
    simpa using this
  rw [hri, (hag.2 0).1] at hh
  simp only [Option.some.injEq] at hh
  exact c11_binding H h32 p t 0 sp st shp sht hsp hst nocoll (hh.trans ht.symm)

/-- SOUNDNESS at EVERY position: under the hypotheses of `c11_sound`, following any path of reference indices
simultaneously in the proof body `p` and in `t` — until a pruned branch answering with a stored hash is met — both trees
have the same number of references at each step and the cells reached `Agree` (so, when neither is such a pruned
branch: same type, same bit string, same reference count, `c11_binding_bits`).  Every unpruned cell of the proof is
reached by such a path: it IS the cell of `t` at that position. -/
theorem c11_sound_everywhere (H : Bytes → Bytes) (h32 : ∀ x, (H x).length = 32) (kind : Int) (bits : Bits) (p t : Cell)
    (c : PCell) (h : Bytes) (sp st : Spec.SInfo)
    (wf : TreeWF H (.mk kind bits [p])) (hc : PCell.ofCell H (.mk kind bits [p]) = some c)
    (hacc : checkProof c h = true)
    (shp : Shape p) (sht : Shape t) (hsp : specInfo H p = some sp) (hst : specInfo H t = some st) (ht : st.hashAt 0 = h)
    (nocoll : ∀ x y, x ∈ reprs H p → y ∈ reprs H t → H x = H y → x = y) (π : List Nat) :
    AgreeAlong H π 0 p t :=
  agree_along H π 0 p t (c11_sound H h32 kind bits p t c h sp st wf hc hacc shp sht hsp hst ht nocoll).2.2

/-- REJECTION of a changed unpruned cell (root of the proof body; deeper cells through `c11_binding_children`): if the
root of `p` and the root of `t` differ in type, in any data bit or in the number of references, and neither is a pruned
branch standing for the other, then `check_proof` raises for `hash t` (same hypotheses as `c11_sound`). -/
theorem c11_reject_changed (H : Bytes → Bytes) (h32 : ∀ x, (H x).length = 32) (kind : Int) (bits : Bits)
    (kp kt : Int) (bp bt : Bits) (rp rt : List Cell) (c : PCell) (sp st : Spec.SInfo)
    (wf : TreeWF H (.mk kind bits [.mk kp bp rp])) (hc : PCell.ofCell H (.mk kind bits [.mk kp bp rp]) = some c)
    (shp : Shape (.mk kp bp rp)) (sht : Shape (.mk kt bt rt))
    (hsp : specInfo H (.mk kp bp rp) = some sp) (hst : specInfo H (.mk kt bt rt) = some st)
    (nocoll : ∀ x y, x ∈ reprs H (.mk kp bp rp) → y ∈ reprs H (.mk kt bt rt) → H x = H y → x = y)
    (hp : ¬ StoredAt kp bp 0) (ht : ¬ StoredAt kt bt 0)
    (hdiff : kp ≠ kt ∨ bp ≠ bt ∨ rp.length ≠ rt.length) :
    checkProof c (st.hashAt 0) = false := by
  cases hacc : checkProof c (st.hashAt 0) with
  | false => rfl
  | true =>
    obtain ⟨_, _, hag⟩ := c11_sound H h32 kind bits _ _ c _ sp st wf hc hacc shp sht hsp hst rfl nocoll
    obtain ⟨e1, e2, e3⟩ := c11_binding_bits H 0 kp kt bp bt rp rt hag hp ht
    rcases hdiff with h | h | h
    · exact absurd e1 h
    · exact absurd e2 h
    · exact absurd e3 h

/-! Non-vacuity of the binding hypotheses: a toy hash with 32-byte output that is injective on the representations
at hand (it returns the first 32 bytes, zero padded); the tree has an inner Merkle proof cell whose child (looked at on
level 1) holds a pruned branch of mask 1, so a cell with two significant levels and a chained hash occurs
(`reprs toyH treeB` has 7 entries). -/
def toyH : Bytes → Bytes := fun x => (x ++ List.replicate 32 0).take 32
def leafA : Cell := .mk (-1) [true, false] []
def pbB : Cell := .mk 1 (bytesToBits ([1, 1] ++ List.replicate 32 7 ++ [0, 0])) []
def nodeB : Cell := .mk (-1) [false] [pbB, leafA]
def mB : Cell := .mk 3 [true, true] [nodeB]
def treeB : Cell := .mk (-1) [true] [mB, leafA]

/-- the example tree has the shape of a valid bag (hypothesis `Shape` of `c11_binding`) -/
theorem treeB_shape : Shape treeB := by
  have hm : pmaskOf (bytesToBits ([1, 1] ++ List.replicate 32 7 ++ [0, 0])) = 1 := by decide +kernel
  have hp : Spec.popcount 1 = 1 := by simp [Spec.popcount]
  have hl : (bytesToBits ([1, 1] ++ List.replicate 32 7 ++ [0, 0])).length = 288 := by
    rw [length_bytesToBits]; simp
  simp only [treeB, mB, nodeB, pbB, leafA, Shape, Shapes, hm, hp, hl]
  simp

example : (∀ x, (toyH x).length = 32) ∧ Shape treeB ∧ (∃ s, specInfo toyH treeB = some s) ∧
    (reprs toyH treeB).length = 7 ∧
    (∀ x y, x ∈ reprs toyH treeB → y ∈ reprs toyH treeB → toyH x = toyH y → x = y) := by
  refine ⟨by intro x; simp [toyH], treeB_shape,
    by simp [treeB, mB, nodeB, pbB, leafA, specInfo, specInfos, kindOf], by decide +kernel, ?_⟩
  have key : ∀ x ∈ reprs toyH treeB, ∀ y ∈ reprs toyH treeB, toyH x = toyH y → x = y := by decide +kernel
  exact fun x y hx hy => key x hx y hy

/-! Non-vacuity of `c11_complete`: the hypotheses hold for a concrete cell (pruning nothing) with the toy hash. -/
def sLeafA : Spec.SInfo := Spec.node toyH .ordinary [true, false] []

theorem leafA_nodeWF : NodeWF toyH .ordinary [true, false] [] := by
  refine ⟨by decide, by decide, by simp, ?_, by simp, by simp, by simp, by simp⟩
  intro _ l
  rw [node_plain toyH .ordinary _ _ (by decide)]
  have : Spec.nodeMask .ordinary [true, false] [] = 0 := rfl
  rw [this]
  show Spec.plainDepthAt .ordinary [] 0 l ≤ 1023
  rw [TonVerif.Proofs.OrdCell.plainDepthAt_zero]
  decide

example : TreeWF toyH leafA ∧ specInfo toyH leafA = some sLeafA ∧ sLeafA.mask = 0 ∧ PruneRel toyH 1 leafA leafA ∧
    ((sLeafA.hashAt 0).length = 32 ∧ Bytes.WF (sLeafA.hashAt 0)) ∧ sLeafA.depthAt 0 ≤ 1022 := by
  have hlen : (sLeafA.hashAt 0).length = 32 := by
    show (Spec.plainHashAt toyH .ordinary [true, false] [] (Spec.nodeMask .ordinary [true, false] []) 0).length = 32
    simp only [Spec.plainHashAt, toyH, List.length_take, List.length_append, List.length_replicate]
    omega
  have hwf : Bytes.WF (sLeafA.hashAt 0) := by decide +kernel
  refine ⟨?_, by simp [leafA, sLeafA, specInfo, specInfos, kindOf], rfl, ?_, ⟨hlen, hwf⟩, by decide +kernel⟩
  · unfold leafA
    rw [TreeWF]
    exact ⟨trivial, .ordinary, [], by decide, by simp [specInfos], leafA_nodeWF⟩
  · unfold leafA
    rw [PruneRel]
    exact Or.inr ⟨.ordinary, [], by decide, rfl, by rw [PruneRels]⟩

/-! ## account proofs, end to end: what acceptance says about the TRUE shard state -/

/-- SOUNDNESS OF `check_account_proof`, END TO END.  Let the second root of the bag be the object of a spec-valid tree
`.mk kind bits [p]` (`p` = the body of the state proof), the address 32 bytes, and `check_account_proof` return.  Then
the header proof passes `check_proof` against the block root hash, its block header commits (in the Merkle update
`root[2]`, `c11_header_state_sound`) to a state hash `sh`, and for EVERY tree `T` (any cell types; `Shape`) whose
level-0 hash is `sh` and in which pruned branches occur only below Merkle cells (`OrdUnpruned` — a genuine shard state),
under the LOCAL no-collision hypothesis between the representations of `p` and of `T` (as in `c11_sound`):
the lookup-only reading of block.tlb finds in `T` itself — `T[1]` an `ahme_root`, the dictionary walk from `T[1][0]`
along the 256 address bits, the leaf's `DepthBalanceInfo` skipped — a `ShardAccount` whose `account:^Account` cell
`aT` has level-0 hash equal to the REPRESENTATION hash of the supplied account state.  I.e. the block id binds the state
hash, the state hash binds the `ShardAccounts` dictionary path, and the dictionary of the true state maps the address
to the supplied state (up to `H`-collisions among the cells at hand).  Holds for every behaviour `O` of the two
unmodelled sub-parsers and whatever is pruned in the proof. -/
theorem c11_account_sound_state (H : Bytes → Bytes) (h32 : ∀ x, (H x).length = 32) (O : Opaque)
    (kind : Int) (bits : Bits) (p T : Cell) (c0 c1 : PCell) (blk addr : Bytes) (state : PCell) (sp sT : Spec.SInfo)
    (wf : TreeWF H (.mk kind bits [p])) (hc1 : PCell.ofCell H (.mk kind bits [p]) = some c1)
    (hl : addr.length = 32) (hw : Bytes.WF addr)
    (hacc : checkAccountProof O [c0, c1] blk addr state = true)
    (shp : Shape p) (shT : Shape T) (hsp : specInfo H p = some sp) (hsT : specInfo H T = some sT)
    (hu : OrdUnpruned T)
    (nocoll : ∀ x y, x ∈ reprs H p → y ∈ reprs H T → H x = H y → x = y) :
    ∃ hdr sh, checkProof c0 blk = true ∧ c0.refs[0]? = some hdr ∧ checkBlockHeaderProofState hdr blk = some sh ∧
      (sT.hashAt 0 = sh → ∃ aT sa, lookupShardAccount cellView T (bytesToBits addr) = some aT ∧
        specInfo H aT = some sa ∧ sa.hashAt 0 = state.info.hash) := by
  obtain ⟨p0, p1, hdr, st, acc, sh, e, h0, hhdr, hsh, hst, _, h1, hloc, hh⟩ := c11_account_sound O [c0, c1] blk addr state hacc
  simp only [List.cons.injEq, and_true] at e
  obtain ⟨rfl, rfl⟩ := e
  refine ⟨hdr, sh, h0, hhdr, hsh, ?_⟩
  intro hT
  obtain ⟨_, _, hag⟩ := c11_sound H h32 kind bits p T c1 sh sp sT wf hc1 h1 shp shT hsp hsT hT nocoll
  obtain ⟨r, hr, hrp⟩ := ofCell_single H kind bits p _ hc1
  rw [hr] at hst
  simp only [List.getElem?_cons_zero, Option.some.injEq] at hst
  subst hst
  have wfp : TreeWF H p := by rw [TreeWF] at wf; exact wf.1.1
  have hlk := locateAccount_lookup O r addr acc hl hw hloc
  obtain ⟨aT, sa, hlT, hsa, hha⟩ := lookup_transfer H p T r acc _ hrp wfp hag hu hlk
  rw [hh] at hha
  exact ⟨aT, sa, hlT, hsa, (Option.some.inj hha).symm⟩

/-- THE BLOCK ID BINDS THE STATE HASH.  Let the first root of the bag be the object of a spec-valid tree
`.mk kind bits [pb]` (`pb` = the body of the header proof) that passes `check_proof` against the block root hash `blk`,
and let `check_block_header_proof(pb, blk, True)` return `sh` (as `c11_account_sound_state` reports for an accepted account
proof).  Then for EVERY tree `TB` (`Shape`) whose level-0 hash is `blk` and in which pruned branches occur only below
Merkle cells (a genuine block), under the local no-collision hypothesis between the representations of `pb` and `TB`:
`TB`'s own third reference is a Merkle update cell whose data bytes 33..64 — the new-state hash of the `state_update` —
are `sh`.  So the state hash the account check goes on with is the one the true block with that id commits to. -/
theorem c11_header_binds_state (H : Bytes → Bytes) (h32 : ∀ x, (H x).length = 32) (kind : Int) (bits : Bits)
    (pb TB : Cell) (c0 hdr : PCell) (blk sh : Bytes) (sp sT : Spec.SInfo)
    (wf : TreeWF H (.mk kind bits [pb])) (hc0 : PCell.ofCell H (.mk kind bits [pb]) = some c0)
    (h0 : checkProof c0 blk = true) (hhdr : c0.refs[0]? = some hdr)
    (hsh : checkBlockHeaderProofState hdr blk = some sh)
    (shp : Shape pb) (shT : Shape TB) (hsp : specInfo H pb = some sp) (hsT : specInfo H TB = some sT)
    (hT : sT.hashAt 0 = blk) (hu : OrdUnpruned TB)
    (nocoll : ∀ x y, x ∈ reprs H pb → y ∈ reprs H TB → H x = H y → x = y) :
    ∃ suT, (cellView.refs TB)[2]? = some suT ∧ cellView.kind suT = kMerkleUpdate ∧
      pySlice (dataBytes (cellView.bits suT)) 33 65 = sh := by
  obtain ⟨_, _, hag⟩ := c11_sound H h32 kind bits pb TB c0 blk sp sT wf hc0 h0 shp shT hsp hsT hT nocoll
  obtain ⟨r, hr, hrp⟩ := ofCell_single H kind bits pb _ hc0
  rw [hr] at hhdr
  simp only [List.getElem?_cons_zero, Option.some.injEq] at hhdr
  subst hhdr
  obtain ⟨_, su, c, h2, _, hk, _, hdata⟩ := c11_header_state_sound r blk sh hsh
  obtain ⟨suT, hsuT, hkT, hbT⟩ := header_transfer H pb TB r su hrp hag hu shp h2 hk
  exact ⟨suT, hsuT, hkT, by rw [hbT]; exact hdata⟩

/-- COMPLETENESS of the state-hash read-out.  Let a spec-valid tree (a block header, pruned or not) have as third
reference a Merkle update cell `.mk 4 ub [o, n]` whose data bytes 33..64 are the level-0 hash of its second child `n` (what
block.tlb's `state_update:^(MERKLE_UPDATE ShardState)` is; `n` is normally the pruned branch of the new state, whose
level-0 hash is the state's), and let its object pass `check_block_header_proof(·, blk)`.  Then
`check_block_header_proof(·, blk, True)` returns that hash — the hypothesis `hhdr` of `c11_account_complete_honest`. -/
theorem c11_header_complete (H : Bytes → Bytes) (k : Int) (b ub : Bits) (x0 x1 o n : Cell) (rest : List Cell) (r0 : PCell)
    (blk : Bytes) (sn : Spec.SInfo)
    (wf : TreeWF H (.mk k b (x0 :: x1 :: .mk 4 ub [o, n] :: rest)))
    (hobj : PCell.ofCell H (.mk k b (x0 :: x1 :: .mk 4 ub [o, n] :: rest)) = some r0)
    (hblk : checkBlockHeaderProof r0 blk = true) (hsn : specInfo H n = some sn)
    (hdata : pySlice (dataBytes ub) 33 65 = sn.hashAt 0) :
    checkBlockHeaderProofState r0 blk = some (sn.hashAt 0) :=
  header_complete H k b ub x0 x1 o n rest r0 blk sn wf hobj (by simpa [checkBlockHeaderProof] using hblk) hsn hdata

/-- COMPLETENESS OF `check_account_proof`, END TO END, for honest proofs.  `tb` = the block (spec-valid, level 0), `ts` =
the shard state (spec-valid, level 0); `pb`, `ps` ANY prunings of them (`PruneRel … 1`: any set of subtrees replaced by
pruned branches, deeper levels below inner Merkle cells), each wrapped in the Merkle proof cell naming the level-0 hash
and depth of the original.  Provided
* the pruned header still shows the state commitment: `check_block_header_proof(pb, hash tb, True)` returns `hash ts`
  (`c11_header_complete`: `root[2]` is there as a Merkle update cell storing the level-0 hash of its second child),
* the pruned state still passes the TL-B walk for the address (`c11_locate_complete`: path to the account unpruned,
  everything off the path pruned or readable),
* the supplied account state has as representation hash the level-0 hash of the account cell `aT` that the FULL state's
  dictionary holds under the address,
both proof cells can be constructed and `check_account_proof` returns — whether the account cell is present in the state
proof in full or as a pruned branch (pruning invariance of the level-0 hash along the walk, `lookup_pruned`).  Side
conditions as in `c11_complete`: root hashes are 32 valid bytes, depths ≤ 1022.  No collision hypothesis. -/
theorem c11_account_complete_honest (H : Bytes → Bytes) (O : Opaque) (tb pb ts ps : Cell) (sb ss : Spec.SInfo)
    (addr : Bytes) (state : PCell)
    (wfb : TreeWF H tb) (hsb : specInfo H tb = some sb) (hlb : sb.mask = 0) (hrb : PruneRel H 1 tb pb)
    (h32b : (sb.hashAt 0).length = 32 ∧ Bytes.WF (sb.hashAt 0)) (hdb : sb.depthAt 0 ≤ 1022)
    (wfs : TreeWF H ts) (hss : specInfo H ts = some ss) (hls : ss.mask = 0) (hrs : PruneRel H 1 ts ps)
    (h32s : (ss.hashAt 0).length = 32 ∧ Bytes.WF (ss.hashAt 0)) (hds : ss.depthAt 0 ≤ 1022)
    (hhdr : ∀ r0, PCell.ofCell H pb = some r0 → checkBlockHeaderProofState r0 (sb.hashAt 0) = some (ss.hashAt 0))
    (hloc : ∀ st, PCell.ofCell H ps = some st → ∃ acc, locateAccount O st addr = some acc)
    (hl : addr.length = 32) (hw : Bytes.WF addr)
    (aT : Cell) (sa : Spec.SInfo) (hfull : lookupShardAccount cellView ts (bytesToBits addr) = some aT)
    (hsa : specInfo H aT = some sa) (hstate : state.info.hash = sa.hashAt 0) :
    ∃ c0 c1, PCell.ofCell H (merkleProofCell (sb.hashAt 0) (sb.depthAt 0) pb) = some c0 ∧
      PCell.ofCell H (merkleProofCell (ss.hashAt 0) (ss.depthAt 0) ps) = some c1 ∧
      checkAccountProof O [c0, c1] (sb.hashAt 0) addr state = true := by
  obtain ⟨c0, r0, hc0, hr0, hp0, hk0, _⟩ := c11_complete H tb pb sb wfb hsb hlb hrb h32b hdb
  obtain ⟨c1, r1, hc1, hr1, hp1, hk1, hh1⟩ := c11_complete H ts ps ss wfs hss hls hrs h32s hds
  obtain ⟨acc, hacc⟩ := hloc r1 hp1
  have wfp : TreeWF H ps :=
    (TonVerif.Proofs.PruneWF.prune_treeWF H 1 ts ps ss (Nat.le_refl _) wfs hss (by rw [hls]; decide) hrs).1
  have hlk := locateAccount_lookup O r1 addr acc hl hw hacc
  have hhash := lookup_pruned H ts ps r1 acc _ aT sa hp1 wfp hrs hlk hfull hsa
  refine ⟨c0, c1, hc0, hc1, ?_⟩
  apply c11_account_complete O c0 c1 r0 r1 acc state (sb.hashAt 0) addr (ss.hashAt 0) hk0 (by rw [hr0]; rfl)
    (hhdr r0 hp0) (by rw [hr1]; rfl) (by simpa [checkBlockHeaderProof] using hh1) hk1 hacc
  rw [hhash, hstate]

/-! Non-vacuity of the hypotheses of `c11_account_sound_state` about `T` (and `p`): a state-shaped tree (the tree of the
one-account example above, all cells ordinary) has the `Shape` of a valid bag, spec values, no pruned branch below
ordinary cells, the toy hash (32-byte output) is injective on its 6 representations, and its own dictionary holds the
address: the lookup finds the `account_none` cell. -/
def xAcc : Cell := .mk (-1) [false] []
def xLeaf : Cell := .mk (-1) (exLabel ++ (exExtra ++ List.replicate 320 false)) [xAcc]
def xAccs : Cell := .mk (-1) (true :: exExtra) [xLeaf]
def xOmq : Cell := .mk (-1) [true] []
def xGrp : Cell := .mk (-1) (List.replicate 140 false) []
def xState : Cell := .mk (-1) (shardStateTag ++ List.replicate 330 false) [xOmq, xAccs, xGrp]

example : (∀ x, (toyH x).length = 32) ∧ Shape xState ∧ (∃ s, specInfo toyH xState = some s) ∧ OrdUnpruned xState ∧
    (reprs toyH xState).length = 6 ∧
    (∀ x y, x ∈ reprs toyH xState → y ∈ reprs toyH xState → toyH x = toyH y → x = y) ∧
    (lookupShardAccount cellView xState (bytesToBits exAddr)).map cellView.bits = some [false] := by
  refine ⟨by intro x; simp [toyH], ?_, ?_, ?_, by decide +kernel, ?_, by decide +kernel⟩
  · exact shape_ord _ _ (by decide) (shapes_cons _ _ (shape_ord _ _ (by decide) shapes_nil)
      (shapes_cons _ _ (shape_ord _ _ (by decide) (shapes_cons _ _ (shape_ord _ _ (by decide)
        (shapes_cons _ _ (shape_ord _ _ (by decide) shapes_nil) shapes_nil)) shapes_nil))
      (shapes_cons _ _ (shape_ord _ _ (by decide) shapes_nil) shapes_nil)))
  · exact specInfo_ord_some _ _ _ (specInfos_cons_some _ _ _ (specInfo_ord_some _ _ _ (specInfos_nil_some _))
      (specInfos_cons_some _ _ _ (specInfo_ord_some _ _ _ (specInfos_cons_some _ _ _ (specInfo_ord_some _ _ _
        (specInfos_cons_some _ _ _ (specInfo_ord_some _ _ _ (specInfos_nil_some _)) (specInfos_nil_some _))) (specInfos_nil_some _)))
      (specInfos_cons_some _ _ _ (specInfo_ord_some _ _ _ (specInfos_nil_some _)) (specInfos_nil_some _))))
  · exact ordUnpruned_ord _ _ (ordUnprunedL_cons _ _ (ordUnpruned_ord _ _ ordUnprunedL_nil)
      (ordUnprunedL_cons _ _ (ordUnpruned_ord _ _ (ordUnprunedL_cons _ _ (ordUnpruned_ord _ _
        (ordUnprunedL_cons _ _ (ordUnpruned_ord _ _ ordUnprunedL_nil) ordUnprunedL_nil)) ordUnprunedL_nil))
      (ordUnprunedL_cons _ _ (ordUnpruned_ord _ _ ordUnprunedL_nil) ordUnprunedL_nil)))
  · have key : ∀ x ∈ reprs toyH xState, ∀ y ∈ reprs toyH xState, toyH x = toyH y → x = y := by decide +kernel
    exact fun x y hx hy => key x hx y hy

/-! Non-vacuity of the hypotheses of `c11_account_complete_honest` that are new with respect to `c11_complete`: for the
unpruned one-account state tree (`ps = ts = xState`), with the toy hash, the object can be built and passes the TL-B walk
(`hloc`, for the `O` that accepts everything), the full state's dictionary holds the address (`hfull`), and the tree is a
pruning of itself. -/
example : (match PCell.ofCell toyH xState with
      | some st => (locateAccount ⟨fun _ => true, fun _ => true⟩ st exAddr).isSome
      | none => false) = true ∧
    (lookupShardAccount cellView xState (bytesToBits exAddr)).isSome = true ∧ PruneRel toyH 1 xState xState := by
  refine ⟨by decide +kernel, by decide +kernel, ?_⟩
  exact pruneRel_ord_refl _ _ _ _ (pruneRels_cons _ _ _ _ (pruneRel_ord_refl _ _ _ _ (pruneRels_nil _ _))
    (pruneRels_cons _ _ _ _ (pruneRel_ord_refl _ _ _ _ (pruneRels_cons _ _ _ _ (pruneRel_ord_refl _ _ _ _
      (pruneRels_cons _ _ _ _ (pruneRel_ord_refl _ _ _ _ (pruneRels_nil _ _)) (pruneRels_nil _ _))) (pruneRels_nil _ _)))
    (pruneRels_cons _ _ _ _ (pruneRel_ord_refl _ _ _ _ (pruneRels_nil _ _)) (pruneRels_nil _ _))))

/-! Non-vacuity of the hypotheses of `c11_header_binds_state` about `TB`: a block-shaped tree — ordinary root whose third
reference is a Merkle update over two pruned branches (as in every real block) — has the `Shape` of a valid bag, spec values,
pruned branches only below its Merkle cell, and the toy hash is injective on its representations. -/
def pbC : Cell := .mk 1 (bytesToBits ([1, 1] ++ List.replicate 32 9 ++ [0, 0])) []
def updB : Cell := .mk 4 (bytesToBits ([4] ++ List.replicate 32 7 ++ List.replicate 32 9 ++ [0, 0, 0, 0])) [pbB, pbC]
def blkB : Cell := .mk (-1) [true, true, false] [leafA, leafA, updB]

/-- the data hypothesis of `c11_header_complete` on the same block-shaped tree: the Merkle update cell stores in bytes 33..64
the level-0 hash of its second child (a pruned branch: its stored hash) -/
example : ∃ sn, specInfo toyH pbC = some sn ∧
    pySlice (dataBytes (bytesToBits ([4] ++ List.replicate 32 7 ++ List.replicate 32 9 ++ [0, 0, 0, 0]))) 33 65 = sn.hashAt 0 :=
  ⟨Spec.node toyH .pruned (bytesToBits ([1, 1] ++ List.replicate 32 9 ++ [0, 0])) [],
    by simp [pbC, specInfo, specInfos, kindOf], by decide +kernel⟩

example : Shape blkB ∧ (∃ s, specInfo toyH blkB = some s) ∧ OrdUnpruned blkB ∧
    (∃ suT, (cellView.refs blkB)[2]? = some suT ∧ cellView.kind suT = kMerkleUpdate) ∧
    (∀ x y, x ∈ reprs toyH blkB → y ∈ reprs toyH blkB → toyH x = toyH y → x = y) := by
  have hm7 : pmaskOf (bytesToBits ([1, 1] ++ List.replicate 32 7 ++ [0, 0])) = 1 := by decide +kernel
  have hm9 : pmaskOf (bytesToBits ([1, 1] ++ List.replicate 32 9 ++ [0, 0])) = 1 := by decide +kernel
  have hp : Spec.popcount 1 = 1 := by simp [Spec.popcount]
  have hl7 : (bytesToBits ([1, 1] ++ List.replicate 32 7 ++ [0, 0])).length = 288 := by rw [length_bytesToBits]; simp
  have hl9 : (bytesToBits ([1, 1] ++ List.replicate 32 9 ++ [0, 0])).length = 288 := by rw [length_bytesToBits]; simp
  refine ⟨?_, by simp [blkB, updB, pbB, pbC, leafA, specInfo, specInfos, kindOf], ?_, ⟨updB, rfl, rfl⟩, ?_⟩
  · simp only [blkB, updB, pbB, pbC, leafA, Shape, Shapes, hm7, hm9, hp, hl7, hl9]
    simp
  · simp only [blkB, updB, pbB, pbC, leafA, OrdUnpruned, OrdUnprunedL]
    simp
  · have key : ∀ x ∈ reprs toyH blkB, ∀ y ∈ reprs toyH blkB, toyH x = toyH y → x = y := by decide +kernel
    exact fun x y hx hy => key x hx y hy

/-! ## Source-regenerated decision lines (`Generated/ProofChecks.lean`: re-translated from proof/check_proof.py and the
`CellTypes` constants of boc/exotic.py on every run)

Every `if …: raise ProofError(…)` of `check_proof`, `check_block_header_proof`, `check_account_proof` (and the simple ones of
`check_shard_proof`) is translated as a Boolean function of the values it reads: cell type (an `Int`, ordinary = -1), reference
and bit counts, `cell.data` / hashes (`Bytes`), the child's level-0 depth.  `x[a:b]` is `Py.slice`, `d.to_bytes(2, 'big')` is
`Py.toBytes true 2 d` with the side condition `d < 256^2` (Python raises OverflowError beyond). -/
section Src
open TonVerif.Proofs.SrcArith2
set_option linter.unusedSimpArgs false

/-- the two cell-type constants the checks compare with are the model's. -/
theorem c11_src_cell_types :
    (Generated.cellTypeMerkleProof : Int) = kMerkleProof ∧ (Generated.cellTypeMerkleUpdate : Int) = kMerkleUpdate := by
  simp only [Generated.cellTypeMerkleProof, Generated.cellTypeMerkleUpdate, kMerkleProof, kMerkleUpdate] <;> src_prop

/-- the four tests of `check_proof`, for ALL values: wrong cell type; stored hash `data[1:33]` differs; the child's
level-0 hash differs; and the "malformed" test = not exactly one reference, or not exactly 280 bits, or the data is not
`03 ++ hash ++ depth(2 bytes, big endian)` (for every depth that has a 2-byte encoding; its side condition holds there). -/
theorem c11_src_proof_tests (ty : Int) (refs bits d0 : Nat) (data h h0 : Bytes) :
    Generated.proofWrongType_sideOk ty Generated.cellTypeMerkleProof ∧ Generated.proofWrongStoredHash_sideOk data h ∧
    Generated.proofWrongChildHash_sideOk h0 h ∧ (d0 < 65536 → Generated.proofMalformed_sideOk refs bits data h d0) ∧
    Generated.proofWrongType ty Generated.cellTypeMerkleProof = (ty != kMerkleProof) ∧
    Generated.proofWrongStoredHash data h = (pySlice data 1 33 != h) ∧
    Generated.proofWrongChildHash h0 h = (h0 != h) ∧
    Generated.proofMalformed refs bits data h d0 = (refs != 1 || bits != 280 || data != [3] ++ h ++ natToBE 2 d0) := by
  refine ⟨by simp only [Generated.proofWrongType_sideOk], by simp only [Generated.proofWrongStoredHash_sideOk],
    by simp only [Generated.proofWrongChildHash_sideOk], ?_, ?_, ?_, ?_, ?_⟩
  · intro hd; simp only [Generated.proofMalformed_sideOk] <;> src_prop
  · simp only [Generated.proofWrongType, Generated.cellTypeMerkleProof, kMerkleProof] <;> src_bool
  · simp only [Generated.proofWrongStoredHash] <;> src_bool
  · simp only [Generated.proofWrongChildHash] <;> src_bool
  · simp only [Generated.proofMalformed] <;> src_bool

/-- `check_proof` of the hand model (what `c11_complete`, `c11_sound_shape`, `c11_sound` … are proved about) decides with
exactly the regenerated source tests, in the order of the code; a child depth without 2-byte encoding is a rejection
(OverflowError in `to_bytes`, or the earlier ProofError). -/
theorem c11_src_check_proof (c : PCell) (h : Bytes) :
    checkProof c h =
      (if Generated.proofWrongType c.info.kind Generated.cellTypeMerkleProof then false
       else if Generated.proofWrongStoredHash c.data h then false
       else match c.refs[0]? with
         | none => false
         | some r =>
           match r.info.getHash 0 with
           | none => false
           | some h0 =>
             if Generated.proofWrongChildHash h0 h then false
             else match r.info.getDepth 0 with
               | none => false
               | some d0 =>
                 if 65536 ≤ d0 then false
                 else !Generated.proofMalformed c.refs.length c.info.bits.length c.data h d0) := by
  have hT := fun ty => (c11_src_proof_tests ty 0 0 0 [] [] []).2.2.2.2.1
  have hS := fun data h => (c11_src_proof_tests 0 0 0 0 data h []).2.2.2.2.2.1
  have hC := fun h0 h => (c11_src_proof_tests 0 0 0 0 [] h h0).2.2.2.2.2.2.1
  have hM := fun refs bits d0 data h => (c11_src_proof_tests 0 refs bits d0 data h []).2.2.2.2.2.2.2
  simp only [hT, hS, hC, hM, checkProof]
  split
  · rfl
  split
  · rfl
  cases c.refs[0]? with
  | none => rfl
  | some r =>
    simp only
    cases hh : r.info.getHash 0 with
    | none => simp
    | some h0 =>
      by_cases e : h0 = h
      · subst e
        cases hd : r.info.getDepth 0 with
        | none => simp
        | some d0 =>
          by_cases hlt : d0 < 65536
          · have : toBytesBE? 2 d0 = some (natToBE 2 d0) := by simp [toBytesBE?, hlt]
            simp [this, show ¬ 65536 ≤ d0 by omega, ← decide_ne_eq_bne]
          · have : toBytesBE? 2 d0 = none := by simp [toBytesBE?, hlt]
            simp [this, show 65536 ≤ d0 by omega]
      · simp [e]

/-- the tests of `check_block_header_proof`, for ALL values: root hash differs from the block hash; the state update
cell is not a Merkle update or its stored new hash `data[33:65]` is not the returned state hash (fix 67bd38d). -/
theorem c11_src_header_tests (ty : Int) (rh bh data sh : Bytes) :
    (Generated.hdrWrongHash_sideOk rh bh ∧ Generated.hdrStateUncommitted_sideOk ty Generated.cellTypeMerkleUpdate data sh) ∧
    Generated.hdrWrongHash rh bh = (rh != bh) ∧
    Generated.hdrStateUncommitted ty Generated.cellTypeMerkleUpdate data sh =
      (ty != kMerkleUpdate || pySlice data 33 65 != sh) := by
  refine ⟨⟨by simp only [Generated.hdrWrongHash_sideOk], by simp only [Generated.hdrStateUncommitted_sideOk]⟩, ?_, ?_⟩
  · simp only [Generated.hdrWrongHash] <;> src_bool
  · simp only [Generated.hdrStateUncommitted, Generated.cellTypeMerkleUpdate, kMerkleUpdate] <;> src_bool

/-- `check_block_header_proof` of the hand model decides with exactly the regenerated tests. -/
theorem c11_src_header (root : PCell) (blockHash : Bytes) :
    checkBlockHeaderProof root blockHash =
      (match root.info.getHash 0 with
       | none => false
       | some rh => !Generated.hdrWrongHash rh blockHash) ∧
    checkBlockHeaderProofState root blockHash =
      (if checkBlockHeaderProof root blockHash then do
         let su ← root.refs[2]?
         let r21 ← su.refs[1]?
         let sh ← r21.info.getHash 0
         if Generated.hdrStateUncommitted su.info.kind Generated.cellTypeMerkleUpdate su.data sh then none else some sh
       else none) := by
  have hW := fun rh bh => (c11_src_header_tests 0 rh bh [] []).2.1
  have hU := fun ty data sh => (c11_src_header_tests ty [] [] data sh).2.2
  constructor
  · simp only [hW, checkBlockHeaderProof]
    cases root.info.getHash 0 with
    | none => simp
    | some rh => by_cases e : rh = blockHash <;> simp [e, bne]
  · simp only [hU, checkBlockHeaderProofState]

/-- the tests of `check_account_proof` (root count, state hash, account hash — fix 56bdc07 compares with the supplied
state's own `.hash`) and of `check_shard_proof` (same block, masterchain, root count, state hash), for ALL values. -/
theorem c11_src_account_tests (n : Nat) (wc : Int) (same : Bool) (h0 sh ah : Bytes) :
    (Generated.acctWrongRootCount_sideOk n ∧ Generated.acctStateMismatch_sideOk h0 sh ∧ Generated.acctWrongAccount_sideOk h0 ah ∧
     Generated.shardSame_sideOk same ∧ Generated.shardNotMasterchain_sideOk wc ∧ Generated.shardWrongRootCount_sideOk n ∧
     Generated.shardStateMismatch_sideOk h0 sh) ∧
    Generated.acctWrongRootCount n = (n != 2) ∧ Generated.acctStateMismatch h0 sh = (h0 != sh) ∧
    Generated.acctWrongAccount h0 ah = (h0 != ah) ∧
    Generated.shardSame same = same ∧ Generated.shardNotMasterchain wc = (wc != -1) ∧
    Generated.shardWrongRootCount n = (n != 2) ∧ Generated.shardStateMismatch h0 sh = (h0 != sh) := by
  refine ⟨⟨by simp only [Generated.acctWrongRootCount_sideOk], by simp only [Generated.acctStateMismatch_sideOk],
    by simp only [Generated.acctWrongAccount_sideOk], by simp only [Generated.shardSame_sideOk],
    by simp only [Generated.shardNotMasterchain_sideOk], by simp only [Generated.shardWrongRootCount_sideOk],
    by simp only [Generated.shardStateMismatch_sideOk]⟩, ?_, ?_, ?_, ?_, ?_, ?_, ?_⟩
  · simp only [Generated.acctWrongRootCount] <;> src_bool
  · simp only [Generated.acctStateMismatch] <;> src_bool
  · simp only [Generated.acctWrongAccount] <;> src_bool
  · simp only [Generated.shardSame] <;> src_bool
  · simp only [Generated.shardNotMasterchain] <;> src_bool
  · simp only [Generated.shardWrongRootCount] <;> src_bool
  · simp only [Generated.shardStateMismatch] <;> src_bool

/-- `check_account_proof` of the hand model (what `c11_account_sound`, `c11_account_complete` … are proved about) decides
with exactly the regenerated tests, in the order of the code. -/
theorem c11_src_account (O : Opaque) (roots : List PCell) (blkRootHash addr : Bytes)
    (state : PCell) :
    checkAccountProof O roots blkRootHash addr state =
      (if Generated.acctWrongRootCount roots.length then false else
       match roots with
       | [p0, p1] =>
         if !checkProof p0 blkRootHash then false else
         match p0.refs[0]? with
         | none => false
         | some hdr =>
         match checkBlockHeaderProofState hdr blkRootHash with
         | none => false
         | some stateHash =>
         match p1.refs[0]? with
         | none => false
         | some st =>
         match st.info.getHash 0 with
         | none => false
         | some h0 =>
         if Generated.acctStateMismatch h0 stateHash then false else
         if !checkProof p1 stateHash then false else
         match locateAccount O st addr with
         | none => false
         | some acc =>
           match acc.info.getHash 0 with
           | none => false
           | some ha => !Generated.acctWrongAccount ha state.info.hash
       | _ => false) := by
  have hN := fun n => (c11_src_account_tests n 0 false [] [] []).2.1
  have hS := fun h0 sh => (c11_src_account_tests 0 0 false h0 sh []).2.2.1
  have hA := fun h0 ah => (c11_src_account_tests 0 0 false h0 [] ah).2.2.2.1
  simp only [hN, hS, hA]
  match roots with
  | [] => simp [checkAccountProof]
  | [_] => simp [checkAccountProof]
  | _ :: _ :: _ :: _ => simp [checkAccountProof]
  | [p0, p1] =>
    simp only [checkAccountProof, List.length_cons, List.length_nil]
    cases hp0 : checkProof p0 blkRootHash
    · simp
    cases hr0 : p0.refs[0]? with
    | none => simp
    | some hdr =>
      cases hst : checkBlockHeaderProofState hdr blkRootHash with
      | none => simp [hst]
      | some stateHash =>
        cases hr1 : p1.refs[0]? with
        | none => simp [hst, hr1]
        | some st =>
          cases hh : st.info.getHash 0 with
          | none => simp [hst, hr1, hh]
          | some h0 =>
            by_cases e : h0 = stateHash
            · subst e
              cases hp1 : checkProof p1 h0
              · simp [hst, hr1, hh, hp1]
              cases hl : locateAccount O st addr with
              | none => simp [hst, hr1, hh, hp1, hl]
              | some acc =>
                cases hha : acc.info.getHash 0 with
                | none => simp [hst, hr1, hh, hp1, hl, hha]
                | some ha => by_cases e2 : ha = state.info.hash <;> simp [hst, hr1, hh, hp1, hl, hha, e2, bne]
            · simp [hst, hr1, hh, e]

/-- the first three decisions of `check_shard_proof` in the hand model are the regenerated tests (`masterchain` is
`blk.workchain == -1`): equal block ids return at once; otherwise a non-masterchain block and a root count other than 2
are rejected. -/
theorem c11_src_shard (blockInfoOk findShard : PCell → Bool) (same : Bool) (wc : Int) (roots : List PCell) (h : Bytes) :
    (Generated.shardSame same = true → checkShardProof blockInfoOk findShard same (wc == -1) roots h = true) ∧
    (Generated.shardSame same = false → Generated.shardNotMasterchain wc = true →
      checkShardProof blockInfoOk findShard same (wc == -1) roots h = false) ∧
    (Generated.shardSame same = false → Generated.shardWrongRootCount roots.length = true →
      checkShardProof blockInfoOk findShard same (wc == -1) roots h = false) := by
  have hS := fun b => (c11_src_account_tests 0 0 b [] [] []).2.2.2.2.1
  have hM := fun wc => (c11_src_account_tests 0 wc false [] [] []).2.2.2.2.2.1
  have hN := fun n => (c11_src_account_tests n 0 false [] [] []).2.2.2.2.2.2.1
  simp only [hS, hM, hN]
  refine ⟨?_, ?_, ?_⟩
  · intro e; simp [checkShardProof, e]
  · intro e1 e2; simp only [bne_iff_ne, ne_eq] at e2; simp [checkShardProof, e1, e2]
  · intro e1 e2
    simp only [bne_iff_ne, ne_eq] at e2
    match roots with
    | [] => simp [checkShardProof, e1]
    | [_] => simp [checkShardProof, e1]
    | [_, _] => simp at e2
    | _ :: _ :: _ :: _ => simp [checkShardProof, e1]

/-- the regenerated tests on concrete values: a Merkle proof cell of type 3 with data `03 ++ h ++ 0005`, one reference and 280
bits passes all four tests of `check_proof` for child depth 5; the same data read for depth 1280 (= 0x0500), a 277-bit cell,
a second reference, an ordinary cell (type -1) or a 31-byte hash do not. -/
example : let h : Bytes := List.replicate 32 7
    Generated.proofWrongType 3 Generated.cellTypeMerkleProof = false ∧ Generated.proofWrongType (-1) Generated.cellTypeMerkleProof = true ∧
    Generated.proofWrongStoredHash ([3] ++ h ++ [0, 5]) h = false ∧ Generated.proofWrongStoredHash ([3] ++ h ++ [0, 5]) (h.take 31) = true ∧
    Generated.proofMalformed 1 280 ([3] ++ h ++ [0, 5]) h 5 = false ∧ Generated.proofMalformed 1 280 ([3] ++ h ++ [0, 5]) h 1280 = true ∧
    Generated.proofMalformed 1 277 ([3] ++ h ++ [0, 5]) h 5 = true ∧ Generated.proofMalformed 2 280 ([3] ++ h ++ [0, 5]) h 5 = true ∧
    Generated.acctWrongRootCount 2 = false ∧ Generated.acctWrongRootCount 3 = true ∧ Generated.shardNotMasterchain (-1) = false := by
  decide

end Src

/-! ## The WHOLE functions regenerated from the source (`Generated/ProofFull.lean`: `check_proof`, `check_block_header_proof` in
both modes and `check_account_proof` re-translated from proof/check_proof.py on every run by harness/translate/pyfunc.py)

`Generated.ProofFull.check_proof cell hash_ : Option Unit` is the function body statement by statement, with Python's order of
evaluation of the raising sub-expressions (`cell[0]` = IndexError, `get_hash` / `get_depth`, `to_bytes(2, 'big')` = OverflowError;
the operands of `or` only where Python reaches them); `some` = returns, `none` = raises.  `check_block_header_proof_False` /
`_True` are the function specialised to `store_state_hash`; `check_account_proof_False` to `return_account_descr=False`.  Declared
reading (harness/translate/prooffull.py): a constructed `Cell` is a `PCell`, `cell[i]` = `cell.refs[i]`, `get_hash` / `get_depth` =
`CellInfo.getHash` / `getDepth` (regenerated and proved in C02), `Cell.from_boc` and the TL-B deserialiser calls are parameters. -/
section SrcFull
open TonVerif.Generated.ProofFull TonVerif.Proofs.SrcProof

/-- the regenerated `check_proof` and `check_block_header_proof` ARE the hand model, for every constructed cell and hash:
same decision to raise, and in the `store_state_hash=True` mode the same returned state hash. -/
theorem c11_src_fn_check_proof (c : PCell) (h : Bytes) :
    check_proof c h = (if checkProof c h then some () else none) ∧
    check_block_header_proof_False c h = (if checkBlockHeaderProof c h then some () else none) ∧
    check_block_header_proof_True c h = checkBlockHeaderProofState c h :=
  ⟨src_check_proof_eq c h, src_header_eq c h, src_header_state_eq c h⟩

theorem check_proof_some_iff (c : PCell) (h : Bytes) : check_proof c h = some () ↔ checkProof c h = true := by
  rw [src_check_proof_eq]; cases checkProof c h <;> simp

/-- COMPLETENESS for the regenerated code (`c11_complete`): for every spec-valid level-0 tree `t` and ANY pruning `p` of it, the
Merkle proof cell over `p` can be constructed, the regenerated `check_proof(proof, hash t)` returns and the regenerated
`check_block_header_proof(proof[0], hash t)` returns. -/
theorem c11_src_complete (H : Bytes → Bytes) (t p : Cell) (s : Spec.SInfo)
    (wft : TreeWF H t) (hs : specInfo H t = some s) (hlev : s.mask = 0) (hrel : PruneRel H 1 t p)
    (h32 : (s.hashAt 0).length = 32 ∧ Bytes.WF (s.hashAt 0)) (hd : s.depthAt 0 ≤ 1022) :
    ∃ c r, PCell.ofCell H (merkleProofCell (s.hashAt 0) (s.depthAt 0) p) = some c ∧ c.refs = [r] ∧
      PCell.ofCell H p = some r ∧
      check_proof c (s.hashAt 0) = some () ∧ check_block_header_proof_False r (s.hashAt 0) = some () := by
  obtain ⟨c, r, h1, h2, h3, h4, h5⟩ := c11_complete H t p s wft hs hlev hrel h32 hd
  exact ⟨c, r, h1, h2, h3, by rw [src_check_proof_eq, h4]; rfl, by rw [src_header_eq, h5]; rfl⟩

/-- SOUNDNESS, structural part, for the regenerated code (`c11_sound_shape`): if the regenerated `check_proof(c, h)` returns then
`c` is a Merkle proof cell with exactly one child and exactly 280 data bits `03 ++ h ++ depth`, and the child's level-0 hash is
`h`.  In particular a proof cell of 288 bits, a cell of another type, a second reference, or a child hash / stored hash other than
`h` make it raise. -/
theorem c11_src_sound_shape (c : PCell) (h : Bytes) (hacc : check_proof c h = some ()) :
    c.info.kind = kMerkleProof ∧ pySlice c.data 1 33 = h ∧ c.info.bits.length = 280 ∧
    ∃ r d, c.refs = [r] ∧ r.info.getHash 0 = some h ∧ r.info.getDepth 0 = some d ∧
      c.data = [3] ++ h ++ Spec.be2 d :=
  c11_sound_shape c h ((check_proof_some_iff c h).1 hacc)

/-- BINDING over the hashes the REGENERATED constructor computes (`srcInfo` = `Cell.__init__` of cell.py, re-translated on every run
and applied bottom-up; gap (c) of design/translators-cell.md).  Two spec-valid trees of the shape of valid bags to which the
regenerated constructor assigns the same level-`l` hash `Agree` at level `l` (`c11_binding`: same type, same bit string, same
reference count, pairwise agreeing children, down to stored-hash pruned branches) - under the local no-collision hypothesis. -/
theorem c11_src_binding (H : Bytes → Bytes) (h32 : ∀ x, (H x).length = 32) (p t : Cell) (l : Nat) (ip it : CellInfo)
    (wfp : TreeWF H p) (wft : TreeWF H t) (shp : Shape p) (sht : Shape t)
    (hip : Proofs.SrcCellCtor.srcInfo H p = some ip) (hit : Proofs.SrcCellCtor.srcInfo H t = some it)
    (nocoll : ∀ x y, x ∈ reprs H p → y ∈ reprs H t → H x = H y → x = y)
    (hh : ip.getHash l = it.getHash l) : Agree H l p t := by
  rw [Proofs.SrcCellCtor.srcInfo_eq] at hip hit
  obtain ⟨ip', sp, hip', hsp, hagp⟩ := tree_agrees H p wfp
  obtain ⟨it', st, hit', hst, hagt⟩ := tree_agrees H t wft
  rw [hip] at hip'; cases hip'
  rw [hit] at hit'; cases hit'
  rw [(hagp.2 l).1, (hagt.2 l).1] at hh
  exact c11_binding H h32 p t l sp st shp sht hsp hst nocoll (Option.some.inj hh)

/-- SOUNDNESS for the regenerated code (`c11_sound`), end to end over regenerated definitions: the proof OBJECT is built by the
regenerated constructor (`srcPCell`: every cell of the proof tree through the regenerated `Cell.__init__`), the check is the
regenerated `check_proof`.  If it returns then the object is a Merkle proof cell naming `h` and, for EVERY tree `t` whose level-0
hash is `h`, the proof body `p` agrees with `t` at level 0 - under the local no-collision hypothesis. -/
theorem c11_src_sound (H : Bytes → Bytes) (h32 : ∀ x, (H x).length = 32) (kind : Int) (bits : Bits) (p t : Cell)
    (c : PCell) (h : Bytes) (sp st : Spec.SInfo)
    (wf : TreeWF H (.mk kind bits [p])) (hc : Proofs.SrcProofCtor.srcPCell H (.mk kind bits [p]) = some c)
    (hacc : check_proof c h = some ())
    (shp : Shape p) (sht : Shape t) (hsp : specInfo H p = some sp) (hst : specInfo H t = some st) (ht : st.hashAt 0 = h)
    (nocoll : ∀ x y, x ∈ reprs H p → y ∈ reprs H t → H x = H y → x = y) :
    c.info.kind = kMerkleProof ∧ pySlice c.data 1 33 = h ∧ Agree H 0 p t :=
  c11_sound H h32 kind bits p t c h sp st wf (by rw [← Proofs.SrcProofCtor.srcPCell_eq]; exact hc)
    ((check_proof_some_iff c h).1 hacc) shp sht hsp hst ht nocoll

/-- COMPLETENESS end to end over regenerated definitions: the Merkle proof object over ANY pruning of a spec-valid level-0 tree can be
built by the regenerated constructor and passes the regenerated `check_proof` and header check. -/
theorem c11_src_complete_ctor (H : Bytes → Bytes) (t p : Cell) (s : Spec.SInfo)
    (wft : TreeWF H t) (hs : specInfo H t = some s) (hlev : s.mask = 0) (hrel : PruneRel H 1 t p)
    (h32 : (s.hashAt 0).length = 32 ∧ Bytes.WF (s.hashAt 0)) (hd : s.depthAt 0 ≤ 1022) :
    ∃ c r, Proofs.SrcProofCtor.srcPCell H (merkleProofCell (s.hashAt 0) (s.depthAt 0) p) = some c ∧ c.refs = [r] ∧
      Proofs.SrcProofCtor.srcPCell H p = some r ∧
      check_proof c (s.hashAt 0) = some () ∧ check_block_header_proof_False r (s.hashAt 0) = some () := by
  obtain ⟨c, r, h1, h2, h3, h4, h5⟩ := c11_src_complete H t p s wft hs hlev hrel h32 hd
  exact ⟨c, r, by rw [Proofs.SrcProofCtor.srcPCell_eq]; exact h1, h2, by rw [Proofs.SrcProofCtor.srcPCell_eq]; exact h3, h4, h5⟩

/-- the regenerated `check_block_header_proof(root, h, True)` returning `sh` (`c11_header_state_sound`): `root.get_hash(0) = h`,
`root[2]` is a Merkle update cell, `sh` is the level-0 hash of its second child and the new-state hash stored in its data. -/
theorem c11_src_header_state_sound (root : PCell) (h sh : Bytes) (hacc : check_block_header_proof_True root h = some sh) :
    root.info.getHash 0 = some h ∧
    ∃ su c, root.refs[2]? = some su ∧ su.refs[1]? = some c ∧ su.info.kind = kMerkleUpdate ∧
      c.info.getHash 0 = some sh ∧ pySlice su.data 33 65 = sh :=
  c11_header_state_sound root h sh (by rw [← src_header_state_eq]; exact hacc)

/-- the regenerated `check_account_proof` IS the hand model on the roots `Cell.from_boc` returns — for ALL values of the declared
externals (`Cell.from_boc`, `ShardStateUnsplit.deserialize`, `.accounts[0][key]`, `.cell`) that compose to the model's TL-B walk
`locateAccount` (hypothesis `hwalk`; the walk itself stays Model/Locate.lean + sampled correspondence). -/
theorem c11_src_fn_account {Shard ShardAccount : Type} (fromBoc : Bytes → Option (List PCell))
    (deser : PCell → Option Shard) (get : Shard → Nat → Option ShardAccount) (cellOf : ShardAccount → PCell)
    (O : Opaque) (proof blkRootHash addr : Bytes) (state : PCell)
    (hwalk : ∀ st, ((deser st).bind fun sh => (get sh (natOfBE addr)).bind fun sa => (cellOf sa).refs[0]?) = locateAccount O st addr) :
    check_account_proof_False fromBoc deser get cellOf proof blkRootHash addr state =
      (fromBoc proof).bind fun roots => if checkAccountProof O roots blkRootHash addr state then some () else none :=
  src_check_account_proof_eq fromBoc deser get cellOf O proof blkRootHash addr state hwalk

/-- SOUNDNESS of the regenerated account check (`c11_account_sound`): if it returns, `Cell.from_boc` gave exactly two roots, both
pass `check_proof`, the header commits to the state hash, the walk over the proved state cell returned a cell whose level-0 hash
is the REPRESENTATION hash of the supplied account state. -/
theorem c11_src_account_sound {Shard ShardAccount : Type} (fromBoc : Bytes → Option (List PCell))
    (deser : PCell → Option Shard) (get : Shard → Nat → Option ShardAccount) (cellOf : ShardAccount → PCell)
    (O : Opaque) (proof blk addr : Bytes) (state : PCell)
    (hwalk : ∀ st, ((deser st).bind fun sh => (get sh (natOfBE addr)).bind fun sa => (cellOf sa).refs[0]?) = locateAccount O st addr)
    (hacc : check_account_proof_False fromBoc deser get cellOf proof blk addr state = some ()) :
    ∃ p0 p1 hdr st acc sh, fromBoc proof = some [p0, p1] ∧ checkProof p0 blk = true ∧ p0.refs[0]? = some hdr ∧
      checkBlockHeaderProofState hdr blk = some sh ∧ p1.refs[0]? = some st ∧ st.info.getHash 0 = some sh ∧
      checkProof p1 sh = true ∧ locateAccount O st addr = some acc ∧ acc.info.getHash 0 = some state.info.hash := by
  rw [src_check_account_proof_eq fromBoc deser get cellOf O proof blk addr state hwalk] at hacc
  cases hb : fromBoc proof with
  | none => rw [hb] at hacc; cases hacc
  | some roots =>
    rw [hb, Option.bind_some] at hacc
    have hc : checkAccountProof O roots blk addr state = true := by
      cases h : checkAccountProof O roots blk addr state
      · rw [h] at hacc; cases hacc
      · rfl
    obtain ⟨p0, p1, hdr, st, acc, sh, hr, rest⟩ := c11_account_sound O roots blk addr state hc
    exact ⟨p0, p1, hdr, st, acc, sh, by rw [hr], rest⟩

/-- non-vacuity of `hwalk`: externals that compose to `locateAccount` exist for every `O` and address (the state cell as its own
deserialisation, the located account cell wrapped so that `.cell[0]` is it). -/
example (O : Opaque) (addr : Bytes) : ∀ st : PCell,
    (((some st : Option PCell)).bind fun sh => ((fun (s : PCell) (_ : Nat) => locateAccount O s addr) sh (natOfBE addr)).bind
      fun sa => ((fun (a : PCell) => PCell.mk a.info [a]) sa).refs[0]?) = locateAccount O st addr := by
  intro st
  simp only [Option.bind_some]
  cases h : locateAccount O st addr <;> simp [PCell.refs]

/-- non-vacuity: the regenerated `check_proof` evaluated on a hand-built proof cell (child with the stated hash and depth): returns;
with one more data byte (288 bits), with the child's hash off by one byte, or for another expected hash: raises. -/
def fnChild : PCell := .mk ⟨-1, [], 0, 0, [List.replicate 32 7], [5]⟩ []
def fnProof (bits : Bits) : PCell := .mk ⟨3, bits, 1, 0, [List.replicate 32 9], [6]⟩ [fnChild]
def fnBits : Bits := bytesToBits ([3] ++ List.replicate 32 7 ++ [0, 5])
example : check_proof (fnProof fnBits) (List.replicate 32 7) = some () ∧
    check_proof (fnProof (fnBits ++ List.replicate 8 false)) (List.replicate 32 7) = none ∧
    check_proof (fnProof fnBits) (List.replicate 32 8) = none ∧
    check_proof (.mk ⟨3, fnBits, 2, 0, [], []⟩ [fnChild, fnChild]) (List.replicate 32 7) = none ∧
    check_proof (.mk ⟨-1, fnBits, 1, 0, [], []⟩ [fnChild]) (List.replicate 32 7) = none ∧
    check_block_header_proof_False fnChild (List.replicate 32 7) = some () ∧
    check_block_header_proof_True fnChild (List.replicate 32 7) = none := by decide +kernel

/-- DESCRIPTOR MODE of the regenerated account check (`return_account_descr=True`): it returns a value EXACTLY when the plain mode
returns - the descriptor is handed out only after ALL the comparisons of the plain mode (two roots, both `check_proof`s, header
commitment, state hash, account state hash), made in the same order - and the value is the `ShardAccount` stored under the address
in the proved state cell.  For ALL values of the declared externals. -/
theorem c11_src_account_descr_mode {Shard ShardAccount : Type} (fromBoc : Bytes → Option (List PCell))
    (deser : PCell → Option Shard) (get : Shard → Nat → Option ShardAccount) (cellOf : ShardAccount → PCell)
    (proof blk addr : Bytes) (state : PCell) :
    check_account_proof_True fromBoc deser get cellOf proof blk addr state =
      ((check_account_proof_False fromBoc deser get cellOf proof blk addr state).bind fun _ =>
        (fromBoc proof).bind fun roots => (roots[1]?).bind fun sc => (sc.refs[0]?).bind fun st =>
          (deser st).bind fun sh => get sh (natOfBE addr)) ∧
    ((check_account_proof_True fromBoc deser get cellOf proof blk addr state).isSome =
      (check_account_proof_False fromBoc deser get cellOf proof blk addr state).isSome) :=
  ⟨src_account_descr_eq fromBoc deser get cellOf proof blk addr state,
   src_account_descr_isSome fromBoc deser get cellOf proof blk addr state⟩

/-- `check_shard_proof` AS A WHOLE FUNCTION, regenerated from the source (early `return`, `raise` for a non-masterchain block,
`Cell.from_boc`, the header comparison, both `check_proof`s and the state-hash commitment in source order, the `ShardHashes` lookup and
the loop over the descriptor's leaves with its `return` inside), equals the hand model `checkShardProof` whose two Boolean parameters
are now READ FROM THE SOURCE (`shardBlockInfoOk`, `findShardDescr`), for ALL values of the declared externals; the returned value is
`none` for `blk == shrd_blk` and the descriptor found otherwise. -/
theorem c11_src_shard_full {Shard BlockInfo ShardDict ShardDescr ShardEntry : Type} (fromBoc : Bytes → Option (List PCell))
    (deser : PCell → Option Shard) (deserBlock : PCell → Option BlockInfo) (infoSeqno infoWorkchain : BlockInfo → Int)
    (shardHashes : Shard → Option ShardDict) (shardGet : ShardDict → Int → Option ShardDescr)
    (descrList : ShardDescr → List (Option ShardEntry)) (entryRootHash : ShardEntry → Bytes) (proof : Bytes) (blk shrd : BlkId) :
    check_shard_proof fromBoc deser deserBlock infoSeqno infoWorkchain shardHashes shardGet descrList entryRootHash proof blk shrd =
      if blk = shrd then some none
      else if blk.workchain ≠ -1 then none
      else (fromBoc proof).bind fun roots =>
        if checkShardProof (shardBlockInfoOk deserBlock infoSeqno infoWorkchain blk.seqno blk.workchain)
            (fun st => (findShardDescr deser shardHashes shardGet descrList entryRootHash shrd.workchain shrd.rootHash st).isSome)
            false true roots blk.rootHash
        then ((roots[1]?).bind fun s => (s.refs[0]?).bind fun st =>
          findShardDescr deser shardHashes shardGet descrList entryRootHash shrd.workchain shrd.rootHash st).map some
        else none :=
  src_check_shard_proof_eq fromBoc deser deserBlock infoSeqno infoWorkchain shardHashes shardGet descrList entryRootHash proof blk shrd

/-- SOUNDNESS read-out of the regenerated `check_shard_proof`: whenever it returns for two DIFFERENT block ids, `blk` is a masterchain
block, the hand model accepts the two roots (both Merkle proofs checked, header committed to the state hash: `checkShardProof`) and the
returned descriptor is one the masterchain state holds for `shrd_blk.workchain` with a leaf carrying `shrd_blk.root_hash`. -/
theorem c11_src_shard_sound {Shard BlockInfo ShardDict ShardDescr ShardEntry : Type} (fromBoc : Bytes → Option (List PCell))
    (deser : PCell → Option Shard) (deserBlock : PCell → Option BlockInfo) (infoSeqno infoWorkchain : BlockInfo → Int)
    (shardHashes : Shard → Option ShardDict) (shardGet : ShardDict → Int → Option ShardDescr)
    (descrList : ShardDescr → List (Option ShardEntry)) (entryRootHash : ShardEntry → Bytes) (proof : Bytes) (blk shrd : BlkId)
    (r : Option ShardDescr) (hne : blk ≠ shrd)
    (hacc : check_shard_proof fromBoc deser deserBlock infoSeqno infoWorkchain shardHashes shardGet descrList entryRootHash proof blk shrd = some r) :
    blk.workchain = -1 ∧ ∃ roots d st, fromBoc proof = some roots ∧ r = some d ∧
      checkShardProof (shardBlockInfoOk deserBlock infoSeqno infoWorkchain blk.seqno blk.workchain)
        (fun st => (findShardDescr deser shardHashes shardGet descrList entryRootHash shrd.workchain shrd.rootHash st).isSome)
        false true roots blk.rootHash = true ∧
      ((roots[1]?).bind fun s => s.refs[0]?) = some st ∧
      findShardDescr deser shardHashes shardGet descrList entryRootHash shrd.workchain shrd.rootHash st = some d ∧
      ∃ dd, shardGet dd shrd.workchain = some d ∧ ∃ e, some e ∈ descrList d ∧ entryRootHash e = shrd.rootHash := by
  rw [c11_src_shard_full, if_neg hne] at hacc
  by_cases hwc : blk.workchain = -1
  swap
  · rw [if_pos hwc] at hacc; cases hacc
  refine ⟨hwc, ?_⟩
  rw [if_neg (by simpa using hwc)] at hacc
  rcases hb : fromBoc proof with _ | roots
  · rw [hb] at hacc; cases hacc
  rw [hb, Option.bind_some] at hacc
  split at hacc
  swap
  · cases hacc
  rename_i hchk
  rw [show ((roots[1]?).bind fun s => (s.refs[0]?).bind fun st =>
        findShardDescr deser shardHashes shardGet descrList entryRootHash shrd.workchain shrd.rootHash st) =
      ((roots[1]?).bind fun s => s.refs[0]?).bind
        (fun st => findShardDescr deser shardHashes shardGet descrList entryRootHash shrd.workchain shrd.rootHash st) from by
    cases roots[1]? <;> rfl] at hacc
  rcases hx : ((roots[1]?).bind fun s => s.refs[0]?) with _ | st
  · rw [hx] at hacc; cases hacc
  rw [hx, Option.bind_some] at hacc
  rcases hf : findShardDescr deser shardHashes shardGet descrList entryRootHash shrd.workchain shrd.rootHash st with _ | d
  · rw [hf] at hacc; cases hacc
  rw [hf, Option.map_some] at hacc
  refine ⟨roots, d, st, rfl, (Option.some.inj hacc).symm, hchk, hx, hf, ?_⟩
  unfold findShardDescr at hf
  rcases hds : deser st with _ | shd
  · rw [hds] at hf; cases hf
  rw [hds, Option.bind_some] at hf
  rcases hsh : shardHashes shd with _ | dd
  · rw [hsh] at hf; cases hf
  rw [hsh, Option.bind_some] at hf
  rcases hg : shardGet dd shrd.workchain with _ | d'
  · rw [hg] at hf; cases hf
  rw [hg, Option.bind_some] at hf
  split at hf
  swap
  · cases hf
  rename_i hany
  cases hf
  refine ⟨dd, hg, ?_⟩
  rw [List.any_eq_true] at hany
  obtain ⟨x, hx, hm⟩ := hany
  cases x with
  | none => cases hm
  | some e => exact ⟨e, hx, by simpa [entryMatches] using hm⟩

/-- non-vacuity of the shard theorems: with concrete externals (the state cell as its own deserialisation, one descriptor with a pruned
leaf and a leaf carrying the shard block's root hash) the regenerated function returns `none` for equal ids, raises for a
non-masterchain block and for an empty bag, and the regenerated loop finds / does not find the leaf. -/
example :
    let blk : BlkId := ⟨-1, 0, 5, List.replicate 32 7, []⟩
    let shrd : BlkId := ⟨0, 0, 9, List.replicate 32 8, []⟩
    check_shard_proof (Shard := PCell) (BlockInfo := Int × Int) (ShardDict := Unit) (ShardDescr := Nat) (ShardEntry := Bytes)
        (fun _ => some []) some (fun _ => some (5, -1)) Prod.fst Prod.snd (fun _ => some ()) (fun _ _ => some 1)
        (fun _ => [none, some (List.replicate 32 8)]) id [] blk blk = some none ∧
    check_shard_proof (Shard := PCell) (BlockInfo := Int × Int) (ShardDict := Unit) (ShardDescr := Nat) (ShardEntry := Bytes)
        (fun _ => some []) some (fun _ => some (5, -1)) Prod.fst Prod.snd (fun _ => some ()) (fun _ _ => some 1)
        (fun _ => [none, some (List.replicate 32 8)]) id [] shrd blk = none ∧
    check_shard_proof (Shard := PCell) (BlockInfo := Int × Int) (ShardDict := Unit) (ShardDescr := Nat) (ShardEntry := Bytes)
        (fun _ => some []) some (fun _ => some (5, -1)) Prod.fst Prod.snd (fun _ => some ()) (fun _ _ => some 1)
        (fun _ => [none, some (List.replicate 32 8)]) id [] blk shrd = none ∧
    findShardDescr (Shard := PCell) (ShardDict := Unit) (ShardDescr := Nat) (ShardEntry := Bytes) some (fun _ => some ())
        (fun _ _ => some 1) (fun _ => [none, some (List.replicate 32 8)]) id 0 (List.replicate 32 8) fnChild = some 1 ∧
    findShardDescr (Shard := PCell) (ShardDict := Unit) (ShardDescr := Nat) (ShardEntry := Bytes) some (fun _ => some ())
        (fun _ _ => some 1) (fun _ => [none, some (List.replicate 32 8)]) id 0 (List.replicate 32 9) fnChild = none := by
  decide +kernel

end SrcFull

/-! ## The TL-B walk on the REGENERATED parsers (builder `locsrc`)

`Model.srcLocate c addr` (Model/LocateSrc.lean) is `ShardStateUnsplit.deserialize(c.begin_parse()).accounts[0][int(addr)].cell[0]` with the
parser classes `ShardStateUnsplit`, `ShardAccounts`, `ShardAccount` (constructor argument `cell=` kept), `DepthBalanceInfo`, `Account`,
`McStateExtra`, `ShardIdent`, `CurrencyCollection` ... re-translated from pytoniq_core/tlb/*.py on every run (Generated/LocateSrc.lean,
Generated/TlbParsers{,Tx,Blk}.lean); `Model.srcOpaque` are the two Boolean parameters of the hand walk read from the regenerated `Account` /
`McStateExtra`.  `WalkAgreeAt st addr` (Proofs/SrcLocate.lean): the regenerated walk and `locateAccount srcOpaque` agree on this cell -
same "raises" verdict, located account cell with the same `is_special()` flag, data bits and subtree.

FULL STATEMENT (`c11_src_walk`, NOT proved for all cells):   `∀ st addr, WalkAgreeAt st addr`.
It is a closed statement about regenerated definitions, DECIDED by evaluation per instance (driver op `srcloc`): every run evaluates it on
every state cell of the walk stream (≈ 250 synthetic shard states per seed: 1..8 accounts, every parser branch defective once, pruned off the
path, spec-encoded `Account` / `McStateExtra` cells) and requires `eq` AND the library's verdict / located cell.  Proved below for all
addresses: the cells on which `deserialize` returns `None` or stops at the tag.  Missing for the all-cells proof: (a) the HmLabel reader
of the parser files (`(hmLabel n).dec`, the spec codec) = `Hashmap.deserializeHml` (C10, source-tied) on every bit string, (b) `Rd.augWalk` /
`Rd.dictWalk` (fuel) = `parseAugP` / `Hashmap.parseEdge` (structural) given (a), (c) the straight-line header of `ShardStateUnsplit` and the
`^[...]` group against the length tests of `locateAccount` / `stateRefGroup`. -/
section SrcWalk
open TonVerif.Proofs.SrcLocate TonVerif.Generated.ProofFull TonVerif.Proofs.SrcProof

/-- the regenerated walk IS the hand model on every cell that is not an ordinary `shard_state#9023afe2` cell, for every address: a special
cell (`ShardStateUnsplit.deserialize` returns `None`, `.accounts` raises), fewer than 32 data bits or another tag (BlockError): both raise.
Partial: see the full statement above. -/
theorem c11_src_walk_partial (st : PCell) (addr : Bytes)
    (h : st.info.kind ≠ -1 ∨ st.info.bits.length < 32 ∨ st.info.bits.take 32 ≠ shardStateTag) : WalkAgreeAt st addr := by
  by_cases hk : st.info.kind = -1
  · rcases h with h | h
    · exact absurd hk h
    · exact walk_badtag st addr hk h
  · exact walk_special st addr hk

/-- non-vacuity, and one evaluated instance of the full statement: on the one-account state `exState` the regenerated walk returns the
`account_none` cell, as the hand model does (`c11_locate_complete` example above); a Merkle-proof cell and an untagged cell meet the
hypothesis of `c11_src_walk_partial`. -/
example : (match srcLocate (tcell exState) exAddr with | some a => tcellBeq a (tcell exAcc) | none => false) = true ∧
    exPruned.info.kind ≠ -1 ∧ exAcc.info.bits.length < 32 := by
  refine ⟨by decide +kernel, by decide, by decide⟩

/-- SOUNDNESS of the regenerated account check with the sub-parsers read from the source and the walk tied to the regenerated parsers.
`hwalk`: the declared externals compose to the hand walk AT `srcOpaque` (no Boolean parameter left: `Account.deserialize` /
`McStateExtra.deserialize` are the regenerated parsers); `hsrc`: the closed statement `c11_src_walk` for this address.  Acceptance then
implies the conclusion of `c11_account_sound_lookup` AND that the REGENERATED `ShardStateUnsplit.deserialize(..).accounts[0][addr].cell[0]`
returns, on the proved state cell, a cell with the flag, bits and subtree of the account cell whose level-0 hash was compared.
Partial: `hsrc` is proved only by `c11_src_walk_partial` + evaluation; `hwalk` stays because a parsed value (`Tlb.Val`) carries cells
without their cached hashes (`tcell` forgets them), so the located OBJECT cannot be read back from it. -/
theorem c11_src_account_sound_full_partial {Shard ShardAccount : Type} (fromBoc : Bytes → Option (List PCell))
    (deser : PCell → Option Shard) (get : Shard → Nat → Option ShardAccount) (cellOf : ShardAccount → PCell)
    (proof blk addr : Bytes) (state : PCell) (hl : addr.length = 32) (hw : Bytes.WF addr)
    (hwalk : ∀ st, ((deser st).bind fun sh => (get sh (natOfBE addr)).bind fun sa => (cellOf sa).refs[0]?) = locateAccount srcOpaque st addr)
    (hsrc : ∀ st, WalkAgreeAt st addr)
    (hacc : check_account_proof_False fromBoc deser get cellOf proof blk addr state = some ()) :
    ∃ p0 p1 hdr st acc sh, fromBoc proof = some [p0, p1] ∧ checkProof p0 blk = true ∧ p0.refs[0]? = some hdr ∧
      checkBlockHeaderProofState hdr blk = some sh ∧ p1.refs[0]? = some st ∧ st.info.getHash 0 = some sh ∧
      checkProof p1 sh = true ∧ srcLocate (tcell st) addr = some (tcell acc) ∧
      lookupShardAccount pcellView st (bytesToBits addr) = some acc ∧ acc.info.getHash 0 = some state.info.hash := by
  obtain ⟨p0, p1, hdr, st, acc, sh, hb, h0, hhdr, hsh, hst, hs, h1, hloc, hh⟩ :=
    c11_src_account_sound fromBoc deser get cellOf srcOpaque proof blk addr state hwalk hacc
  refine ⟨p0, p1, hdr, st, acc, sh, hb, h0, hhdr, hsh, hst, hs, h1, ?_, (c11_locate_sound srcOpaque st addr acc hl hw hloc).2.2.2, hh⟩
  have := hsrc st
  rw [WalkAgreeAt, hloc] at this
  exact this

/-- COMPLETENESS counterpart: two roots that pass `check_proof`, a header committing to the state hash, the REGENERATED walk returning on
the proved state cell, and the located account cell carrying the supplied state's hash make the regenerated `check_account_proof` return.
Same two hypotheses `hwalk`, `hsrc` as `c11_src_account_sound_full_partial`. -/
theorem c11_src_account_complete_full_partial {Shard ShardAccount : Type} (fromBoc : Bytes → Option (List PCell))
    (deser : PCell → Option Shard) (get : Shard → Nat → Option ShardAccount) (cellOf : ShardAccount → PCell)
    (proof blk addr sh : Bytes) (p0 p1 hdr st state : PCell) (tc : Tlb.Cell)
    (hwalk : ∀ st, ((deser st).bind fun sh => (get sh (natOfBE addr)).bind fun sa => (cellOf sa).refs[0]?) = locateAccount srcOpaque st addr)
    (hsrc : ∀ st, WalkAgreeAt st addr)
    (hb : fromBoc proof = some [p0, p1])
    (h0 : checkProof p0 blk = true) (hhdr : p0.refs[0]? = some hdr) (hsh : checkBlockHeaderProofState hdr blk = some sh)
    (hst : p1.refs[0]? = some st) (hs : st.info.getHash 0 = some sh) (h1 : checkProof p1 sh = true)
    (hloc : srcLocate (tcell st) addr = some tc)
    (hh : ∀ acc, locateAccount srcOpaque st addr = some acc → acc.info.getHash 0 = some state.info.hash) :
    check_account_proof_False fromBoc deser get cellOf proof blk addr state = some () := by
  have hs' := hsrc st
  rw [WalkAgreeAt, hloc] at hs'
  cases hm : locateAccount srcOpaque st addr with
  | none => rw [hm] at hs'; cases hs'
  | some acc =>
    rw [src_check_account_proof_eq fromBoc deser get cellOf srcOpaque proof blk addr state hwalk, hb, Option.bind_some,
      c11_account_complete srcOpaque p0 p1 hdr st acc state blk addr sh h0 hhdr hsh hst hs h1 hm (hh acc hm)]
    rfl

/-- STEP (a) towards `c11_src_walk`: the HmLabel reader that the dictionary walks of the parser files use (`(hmLabel n).dec`, the spec
codec of hashmap.tlb) IS the C10 label reader `Hashmap.deserializeHml` (tied to parse.py `deserialize_hml` for all inputs by
`c10_src_label_reader`) on EVERY bit string and remaining key length: same decision to raise, same label length, label bits and rest. -/
theorem c11_src_label_reader (n : Nat) (bits : Bits) (refs : List Tlb.Cell) :
    ((Tlb.hmLabel n).dec ⟨bits, refs⟩).map labelView =
      (Hashmap.deserializeHml bits (n : Int)).map fun t => (t.1, t.2.1, t.2.2, refs) :=
  hmLabel_dec_eq n bits refs

/-- STEP (b) towards `c11_src_walk`: the augmented-dictionary walk of the parser files (`Rd.augWalk`: `parse_aug` as a fuel recursion over
`Tlb.Cell`) IS the hand model's `parseAugP` (structural recursion over constructed cells, labels by the C10 reader) on EVERY constructed
cell - pruned branches anywhere, malformed labels, missing references - for every prefix, every remaining key length below the fuel and
every pair of extra / value readers that agree (`ReadersAgree`: they succeed on the same slices, the extra readers leave the same rest, the
value readers return the same `.cell[0]`): same decision to raise, same keys in the same order, same `.cell[0]` per entry. -/
theorem c11_src_aug_walk {x y : Tlb.Frag → Tlb.Rd.R} {decX : PSlice → Option PCell} {decY : PSlice → Option PSlice}
    (h : ReadersAgree x y decX decY) (fuel n : Nat) (pfx : Bits) (c : PCell) (hn : n < fuel) :
    (Tlb.Rd.augWalk x y fuel n pfx (tcell c)).map srcEntries = (parseAugP decY decX c (n : Int) pfx).map mdlEntries :=
  augWalk_eq h fuel n pfx c hn

/-- the VALUE reader of the accounts dictionary meets `ReadersAgree.x_cell`: the regenerated `ShardAccount.deserialize` (constructor argument
`cell=` kept) returns on a leaf slice exactly when `readShardAccount` at the regenerated `Account` parser does, and its `.cell[0]` is the
cell the model returns.  (The EXTRA reader `DepthBalanceInfo` against `readDepthBalance` is open: it needs `Rd.dictWalk` = `Hashmap.parseEdge`
for the extra-currency dictionary.) -/
theorem c11_src_shard_account_reader (s : PSlice) :
    (Tlb.SrcLoc.ShardAccount false (psliceFrag s)).map (fun p => cell0 p.1) =
      (readShardAccount srcOpaque s).map (fun a => some (tcell a)) :=
  shardAccount_agree s

/-- STEP (b), plain dictionaries: `Rd.dictWalk` (the `parse` / `deserialize_hashmap_node` walk of the parser files, the value reader applied to
every leaf) returns on a constructed cell EXACTLY when the C10 model `Hashmap.parseEdge` returns on the underlying tree and every leaf value
passes the reader's test - for every cell (pruned edges anywhere), any non-degenerate start (`0 < n` or a non-empty prefix), any fuel above `n`. -/
theorem c11_src_dict_walk {rd : Tlb.Frag → Tlb.Rd.R} {ok : Bits → Bool} (hrd : ∀ b r, (rd ⟨b, r⟩).isSome = ok b)
    (fuel n : Nat) (pfx : Bits) (c : PCell) (hn : n < fuel) (hp : 0 < n ∨ pfx ≠ []) :
    (Tlb.Rd.dictWalk rd fuel n pfx (tcell c)).isSome = edgeOk ok (Hashmap.parseEdge c.toCell (n : Int) pfx) :=
  dictWalk_ok hrd fuel n pfx c hn hp

/-- STEP (b), the field readers below the walk: the regenerated `CurrencyCollection` (with `ExtraCurrencyCollection` = `load_dict(32,
load_var_uint(5))`), `DepthBalanceInfo` and the raw `load_dict(n)` succeed on EVERY slice of constructed cells exactly when the hand readers of
Model/Locate.lean do, and leave the same rest (bits and references). -/
theorem c11_src_currency_readers (sp : Bool) (s : PSlice) (n : Nat) (hn : 0 < n) :
    (Tlb.SrcTx.CurrencyCollection sp (psliceFrag s)).map (·.2) = (readCurrencyCollection s).map psliceFrag ∧
    (Tlb.SrcBlk.DepthBalanceInfo sp (psliceFrag s)).map (·.2) = (readDepthBalance s).map psliceFrag ∧
    (Tlb.Rd.loadDictRaw n (psliceFrag s)).map (·.2) = (readDictRaw n s).map psliceFrag :=
  ⟨currencyCollection_rest sp s, depthBalance_rest sp s, dictRaw_rest n hn s⟩

/-- STEP (b) COMPLETE, the accounts dictionary of the walk: `ShardAccounts.deserialize(accs.begin_parse())[0][key].cell[0]` on the REGENERATED
parsers (`load_hashmap_aug_e(256, ShardAccount.deserialize, DepthBalanceInfo.deserialize)`, Python tuple / dict glue with decimal int keys) IS
`loadShardAccounts srcOpaque accs` followed by `dictGet key` of the hand model, for EVERY constructed accounts cell (special, empty, exotic or
pruned root, pruned edges, malformed leaves) and EVERY key: same "raises / KeyError" verdict, located cell with the same flag, bits, subtree. -/
theorem c11_src_accounts_lookup (accs : PCell) (key : Nat) :
    srcAccountsLookup accs key = ((loadShardAccounts srcOpaque accs).bind (Hashmap.dictGet key)).map tcell :=
  accounts_agree accs key

/-- STEP (c), first half: the `^[ overload_history underload_history total_balance total_validator_fees libraries master_ref ]` group of the
regenerated `ShardStateUnsplit.deserialize` (`groupExpr`: the text of that block of Generated/LocateSrc.lean - skipped for a special cell, else
2 × `load_uint(64)`, 2 × `CurrencyCollection`, `load_dict(256)`, `BlkMasterInfo if load_bit() else None` with `BlkMasterInfo` = four straight
reads of 608 bits) returns on EVERY constructed cell exactly when the hand model's `stateRefGroup` says so. -/
theorem c11_src_state_group (grp : PCell) (sp : Bool) (b : Bits) (r : List Tlb.Cell) :
    (groupExpr (tcell grp)).isSome = stateRefGroup grp ∧
    (Tlb.Src.BlkMasterInfo sp ⟨b, r⟩).isSome = decide (608 ≤ b.length) :=
  ⟨group_isSome grp, blkMasterInfo_isSome sp b r⟩

end SrcWalk

end TonVerif.Properties.C11
