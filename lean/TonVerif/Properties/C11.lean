/-
C11 — Merkle proof checks are complete and sound.

Model: Model/Proof.lean (`checkProof`, `checkBlockHeaderProof(State)`, `checkAccountProof`, `checkShardProof`
over constructed cell objects `PCell`).  Pruning: Proofs/Prune.lean (`PruneRel`).  Helper lemmas: Proofs/Merkle.lean.
`H` is SHA-256 as a parameter; completeness needs no property of `H` beyond 32-byte output (so that the hash fits
the proof cell's 256-bit field); soundness takes a LOCAL no-collision hypothesis on the representations at hand.
-/
import TonVerif.Proofs.Merkle
import TonVerif.Proofs.Binding
import TonVerif.Proofs.PruneWF
import TonVerif.Proofs.OrdCell
import TonVerif.Proofs.SrcArith2
import TonVerif.Generated.ProofChecks

namespace TonVerif.Properties.C11
open TonVerif TonVerif.Model TonVerif.Proofs.CellSpec TonVerif.Proofs.Prune TonVerif.Proofs.Merkle

/-- COMPLETENESS (generic check and block-header check). Let `t` be any spec-valid tree of level 0 (a block, a shard
state, ...; inner Merkle cells and the pruned branches below them allowed) with spec values `s`, and `p` ANY pruning of
it (`PruneRel H 1 t p`: any set of subtrees replaced by pruned branches, deeper levels under inner Merkle cells).  Wrap
`p` in the Merkle proof cell naming `t`'s level-0 hash and depth.  Then that proof can be constructed,
`check_proof(proof, hash t)` returns, its only child is the object of `p`, and
`check_block_header_proof(proof[0], hash t)` returns.  Validity of the proof tree is DERIVED (`prune_treeWF`), not
assumed.  Remaining side conditions: the root hash is 32 valid bytes (true of SHA-256; nothing else about `H` is used)
and `depth t ≤ 1022` (the proof cell is one deeper than `t`, and cells deeper than 1023 cannot be built). -/
theorem c11_complete (H : Bytes → Bytes) (t p : Cell) (s : Spec.SInfo)
    (wft : TreeWF H t) (hs : specInfo H t = some s) (hlev : s.mask = 0) (hrel : PruneRel H 1 t p)
    (h32 : (s.hashAt 0).length = 32 ∧ Bytes.WF (s.hashAt 0)) (hd : s.depthAt 0 ≤ 1022) :
    ∃ c r, PCell.ofCell H (merkleProofCell (s.hashAt 0) (s.depthAt 0) p) = some c ∧ c.refs = [r] ∧
      PCell.ofCell H p = some r ∧
      checkProof c (s.hashAt 0) = true ∧ checkBlockHeaderProof r (s.hashAt 0) = true := by
  obtain ⟨sp, hsp, hinv⟩ := prune_invariant H 1 t p s hrel hs
  obtain ⟨h0, d0, _⟩ := hinv 0 (by omega)
  -- the pruned tree and the proof cell over it are spec-valid
  obtain ⟨wfc, hle⟩ := TonVerif.Proofs.PruneWF.prune_treeWF H 1 t p s (Nat.le_refl _) wft hs (by rw [hlev]; decide) hrel
  have wfp : TreeWF H (merkleProofCell (s.hashAt 0) (s.depthAt 0) p) := by
    unfold merkleProofCell
    rw [TreeWF]
    refine ⟨⟨wfc, trivial⟩, .merkleProof, [sp], by decide, by simp [specInfos, hsp], ?_⟩
    have hmask7 := TonVerif.Proofs.PruneWF.treeWF_mask_le H p sp wfc hsp
    refine ⟨?_, by simp, ?_, ?_, by simp, by simp, by simp, by simp⟩
    · rw [length_bytesToBits, mproofData_length _ _ h32.1]; omega
    · intro c hc; simp at hc; subst hc; exact hmask7
    · intro _ l
      rw [node_plain H .merkleProof _ _ (by decide)]
      show Spec.plainDepthAt .merkleProof [sp] _ l ≤ 1023
      obtain ⟨L, _, _, _, e⟩ := TonVerif.Proofs.PruneWF.plainDepthAt_top .merkleProof [sp]
        (Spec.nodeMask .merkleProof (bytesToBits (mproofData (s.hashAt 0) (s.depthAt 0))) [sp]) l
      rw [e, TonVerif.Proofs.PruneWF.depthOver_single]
      have h1 := hle sp hsp (L + Spec.Kind.mu .merkleProof)
      have h2 := TonVerif.Proofs.PruneWF.depth_level0 H t s hs hlev (L + Spec.Kind.mu .merkleProof)
      omega
  have hd : s.depthAt 0 < 65536 := by omega
  -- the proof cell and its child can be constructed
  obtain ⟨i, si, hi, hsi, hag⟩ := tree_agrees H _ wfp
  unfold merkleProofCell at hi
  obtain ⟨rs, hrs, hc, hinfos⟩ := ofCell_of_info H 3 _ [p] i hi
  obtain ⟨r, rfl, hr⟩ := ofCells_singleton H p rs hrs
  have hfields : i.kind = 3 ∧ i.bits = bytesToBits (mproofData (s.hashAt 0) (s.depthAt 0)) := by
    simp only [Cell.info, hinfos, Option.bind_eq_bind, Option.bind_some] at hi
    have := construct_fields H _ _ _ _ hi
    exact ⟨this.1, this.2.1⟩
  -- the child reports the spec values of `p`, which are those of `t` at level 0
  obtain ⟨ip, sp', hip, hsp', hagp⟩ := tree_agrees H p wfc
  rw [hsp] at hsp'; cases hsp'
  have hrinfo : r.info = ip := by
    have := ofCell_info H p
    rw [hr, hip] at this
    simpa using this
  have hh : r.info.getHash 0 = some (s.hashAt 0) := by rw [hrinfo, (hagp.2 0).1, h0]
  have hdp : r.info.getDepth 0 = some (s.depthAt 0) := by rw [hrinfo, (hagp.2 0).2, d0]
  obtain ⟨a1, a2⟩ := checkProof_accepts (.mk i [r]) r (s.hashAt 0) (s.depthAt 0) hfields.1 hfields.2 rfl
    h32.1 h32.2 hd hh hdp
  exact ⟨.mk i [r], r, hc, rfl, hr, a1, a2⟩

/-- SOUNDNESS, structural part (no hash assumption). If `check_proof(c, h)` returns then `c` is a Merkle proof
cell with exactly one child, exactly 280 data bits `03 ++ h ++ depth`, and the child's level-0 hash is `h`.
Hence: a cell of any other type is rejected, and so is a proof whose stored hash or whose child's hash is not
the expected one. -/
theorem c11_sound_shape (c : PCell) (h : Bytes) (hacc : checkProof c h = true) :
    c.info.kind = kMerkleProof ∧ pySlice c.data 1 33 = h ∧ c.info.bits.length = 280 ∧
    ∃ r d, c.refs = [r] ∧ r.info.getHash 0 = some h ∧ r.info.getDepth 0 = some d ∧
      c.data = [3] ++ h ++ Spec.be2 d := by
  unfold checkProof at hacc
  split at hacc
  · cases hacc
  rename_i hk
  split at hacc
  · cases hacc
  rename_i hs
  split at hacc
  · cases hacc
  rename_i r hr
  split at hacc
  · cases hacc
  rename_i hh
  split at hacc
  · cases hacc
  rename_i db hdb
  split at hacc
  · cases hacc
  rename_i hm
  simp only [bne_iff_ne, ne_eq, Decidable.not_not, Bool.or_eq_true, not_or] at hk hs hh hm
  obtain ⟨⟨hm1, hm2⟩, hm3⟩ := hm
  cases hgd : r.info.getDepth 0 with
  | none => rw [hgd] at hdb; cases hdb
  | some d =>
    rw [hgd, Option.bind_some] at hdb
    have hdlt : d < 256 ^ 2 := by
      unfold toBytesBE? at hdb; split at hdb
      · assumption
      · cases hdb
    have hbe : db = Spec.be2 d := by
      have := toBytesBE_two d (by omega)
      rw [this] at hdb; cases hdb; rfl
    refine ⟨hk, hs, hm2, r, d, ?_, hh, hgd, by rw [hm3, hbe]⟩
    cases hrefs : c.refs with
    | nil => rw [hrefs] at hr; simp at hr
    | cons a as =>
      rw [hrefs] at hr hm1
      simp only [List.getElem?_cons_zero, Option.some.injEq] at hr
      subst hr
      cases as with
      | nil => rfl
      | cons b bs => simp at hm1

/-- a cell that is not a Merkle proof is rejected -/
theorem c11_reject_not_proof (c : PCell) (h : Bytes) (hk : c.info.kind ≠ kMerkleProof) : checkProof c h = false := by
  cases hc : checkProof c h with
  | false => rfl
  | true => exact absurd (c11_sound_shape c h hc).1 hk

/-- a proof is accepted for at most one expected hash: a different expected hash is rejected -/
theorem c11_reject_wrong_hash (c : PCell) (h h' : Bytes) (hacc : checkProof c h = true) (hne : h' ≠ h) :
    checkProof c h' = false := by
  cases hc : checkProof c h' with
  | false => rfl
  | true =>
    have a := (c11_sound_shape c h hacc).2.1
    have b := (c11_sound_shape c h' hc).2.1
    exact absurd (b.symm.trans a) hne

/-! ## block header: the returned state hash -/

/-- If `check_block_header_proof(root, h, True)` returns `sh` then `root.get_hash(0) = h`, `root[2]` is a Merkle
update cell, `sh` is the level-0 hash of its second child AND the new-state hash stored in the update cell's own
data (`data[33:65]`) — the only place the block hash commits to it.  (Before fix 67bd38d only the child's level-0
hash was returned; a level-2 pruned branch could name a forged one.) -/
theorem c11_header_state_sound (root : PCell) (h sh : Bytes) (hacc : checkBlockHeaderProofState root h = some sh) :
    root.info.getHash 0 = some h ∧
    ∃ su c, root.refs[2]? = some su ∧ su.refs[1]? = some c ∧ su.info.kind = kMerkleUpdate ∧
      c.info.getHash 0 = some sh ∧ pySlice su.data 33 65 = sh := by
  unfold checkBlockHeaderProofState at hacc
  split at hacc
  · rename_i hb
    refine ⟨by simpa [checkBlockHeaderProof] using hb, ?_⟩
    cases h2 : root.refs[2]? with
    | none => simp [h2] at hacc
    | some su =>
      cases h21 : su.refs[1]? with
      | none => simp [h2, h21] at hacc
      | some c =>
        cases hh : c.info.getHash 0 with
        | none => simp [h2, h21, hh] at hacc
        | some x =>
          simp only [h2, h21, hh, Option.bind_eq_bind, Option.bind_some] at hacc
          split at hacc
          · cases hacc
          · rename_i hc
            cases hacc
            simp only [Bool.or_eq_true, bne_iff_ne, ne_eq, not_or, Decidable.not_not] at hc
            exact ⟨su, c, rfl, h21, hc.1, hh, hc.2⟩
  · cases hacc

/-! ## account proofs -/

/-- SOUNDNESS of the account check (no hash assumption): if `check_account_proof` returns, there were exactly two
roots, both pass `check_proof` (against the block root hash resp. the state hash `sh` that the header's Merkle
update commits to), the state proof's child has level-0 hash `sh`, and the REPRESENTATION hash (`Cell.hash`) of the
supplied account state equals the level-0 hash of the account cell located in the proved state. -/
theorem c11_account_sound (locate : PCell → Bytes → Option PCell) (roots : List PCell) (blk addr : Bytes) (state : PCell)
    (hacc : checkAccountProof locate roots blk addr state = true) :
    ∃ p0 p1 hdr st acc sh, roots = [p0, p1] ∧ checkProof p0 blk = true ∧ p0.refs[0]? = some hdr ∧
      checkBlockHeaderProofState hdr blk = some sh ∧ p1.refs[0]? = some st ∧ st.info.getHash 0 = some sh ∧
      checkProof p1 sh = true ∧ locate st addr = some acc ∧ acc.info.getHash 0 = some state.info.hash := by
  unfold checkAccountProof at hacc
  split at hacc
  · rename_i p0 p1
    split at hacc
    · cases hacc
    rename_i h0
    split at hacc
    · cases hacc
    rename_i hdr hhdr
    split at hacc
    · cases hacc
    rename_i sh hsh
    split at hacc
    · cases hacc
    rename_i st hst
    split at hacc
    · cases hacc
    rename_i hs
    split at hacc
    · cases hacc
    rename_i h1
    split at hacc
    · cases hacc
    rename_i acc hl
    simp only [Bool.not_eq_true, bne_iff_ne, ne_eq, Decidable.not_not, beq_iff_eq] at h0 h1 hs hacc
    exact ⟨p0, p1, hdr, st, acc, sh, rfl, by simpa using h0, hhdr, hsh, hst, hs, by simpa using h1, hl, hacc⟩
  · cases hacc

/-- A claimed account state whose own hash is not the committed one is rejected. -/
theorem c11_account_reject (locate : PCell → Bytes → Option PCell) (roots : List PCell) (blk addr : Bytes) (state : PCell)
    (hne : ∀ st acc, locate st addr = some acc → acc.info.getHash 0 ≠ some state.info.hash) :
    checkAccountProof locate roots blk addr state = false := by
  cases hc : checkAccountProof locate roots blk addr state with
  | false => rfl
  | true =>
    obtain ⟨_, _, _, st, acc, _, _, _, _, _, _, _, _, hl, hh⟩ := c11_account_sound locate roots blk addr state hc
    exact absurd hh (hne st acc hl)

/-- The F12 scenario: the supplied "state" is a spec-valid PRUNED-BRANCH cell (whatever hashes it carries, e.g. the
committed one as its level-0 hash).  Its `Cell.hash` is `H` of its own representation, whose first byte has the
exotic bit and a non-zero level mask.  If the account cell `acc` found in the proved state has as level-0 hash the
hash of a representation `d1 :: rest` of a NON-pruned cell (`d1 = r + 8e`, r ≤ 4, level part 0) and `H` does not
collide on these two representations, the check rejects. -/
theorem c11_account_reject_pruned (H : Bytes → Bytes) (locate : PCell → Bytes → Option PCell) (roots : List PCell)
    (blk addr : Bytes) (bits : Bits) (i : CellInfo)
    (wf : NodeWF H .pruned bits []) (hc : construct H 1 bits [] = some i)
    (r : Nat) (e : Bool) (rest : Bytes) (hr : r ≤ 4)
    (hcommitted : ∀ st acc, locate st addr = some acc → acc.info.getHash 0 = some (H (Spec.d1 r e 0 :: rest)))
    (nocoll : H (Spec.d1 r e 0 :: rest) =
        H ([Spec.d1 0 true (Spec.nodeMask .pruned bits []), Spec.d2 bits.length] ++ Spec.dataBytes bits) →
      Spec.d1 r e 0 :: rest = [Spec.d1 0 true (Spec.nodeMask .pruned bits []), Spec.d2 bits.length] ++ Spec.dataBytes bits) :
    checkAccountProof locate roots blk addr (.mk i []) = false := by
  apply c11_account_reject
  intro st acc hl
  rw [hcommitted st acc hl]
  intro heq
  have hh := construct_pruned_hash H bits wf i hc
  simp only [PCell.info, Option.some.injEq] at heq
  rw [hh] at heq
  have := nocoll heq
  simp only [List.cons_append, List.nil_append, List.cons.injEq] at this
  obtain ⟨_, _, h3, _⟩ := wf.pruned rfl
  have hd := this.1
  unfold Spec.d1 at hd
  cases e <;> simp at hd <;> omega

/-- COMPLETENESS of the account check: if both roots pass `check_proof` (c11_complete gives this for every pruning of
the block header and of the shard state), the header's Merkle update commits to the state hash, and the account
cell located in the (pruned) state proof has as level-0 hash the representation hash of the supplied state — by
pruning invariance (c02_prune_invariant) that holds whether the account cell is present in full or pruned — then
`check_account_proof` returns. -/
theorem c11_account_complete (locate : PCell → Bytes → Option PCell) (p0 p1 hdr st acc state : PCell) (blk addr sh : Bytes)
    (h0 : checkProof p0 blk = true) (hhdr : p0.refs[0]? = some hdr) (hsh : checkBlockHeaderProofState hdr blk = some sh)
    (hst : p1.refs[0]? = some st) (hs : st.info.getHash 0 = some sh) (h1 : checkProof p1 sh = true)
    (hl : locate st addr = some acc) (hh : acc.info.getHash 0 = some state.info.hash) :
    checkAccountProof locate [p0, p1] blk addr state = true := by
  simp [checkAccountProof, h0, hhdr, hsh, hst, hs, h1, hl, hh]

/-! ## binding: what an accepted hash pins down -/
open TonVerif.Proofs.Binding

/-- SOUNDNESS CORE (general: every level `l`, trees with ordinary, library, pruned-branch, Merkle proof and Merkle
update cells in any nesting).  Assume `H` has 32-byte output and does not collide between the representations
occurring in `p` and those occurring in `t` (`reprs`: of each non-pruned cell its representation at every significant
level, of each pruned branch its own representation — a LOCAL hypothesis on finitely many byte strings), and both trees
have the shape of valid bags (`Shape`: ≤ 4 references, exotic cells with their proper reference counts, pruned branches
with non-zero mask holding all hashes they declare).  If `p` and `t` have the same level-`l` hash then `Agree H l p t`:
going down from the roots, corresponding cells have the same hash at the level they are looked at (`L + μ` below a
cell hashed at level `L`; all significant `L ≤ l`, because level-`L` hashes are chained over the lower ones), and each
pair is either (a pruned branch answering with a STORED hash, the subtree whose hash that is) or two cells of the same
type with the same BIT STRING, the same number of references and pairwise agreeing children. -/
theorem c11_binding (H : Bytes → Bytes) (h32 : ∀ x, (H x).length = 32) (p t : Cell) (l : Nat) (sp st : Spec.SInfo)
    (shp : Shape p) (sht : Shape t) (hsp : specInfo H p = some sp) (hst : specInfo H t = some st)
    (nocoll : ∀ x y, x ∈ reprs H p → y ∈ reprs H t → H x = H y → x = y)
    (hh : sp.hashAt l = st.hashAt l) : Agree H l p t :=
  binding_aux H h32 p t l sp st shp sht hsp hst nocoll hh

/-- What `Agree` says about one pair of cells neither of which is a pruned branch answering with a stored hash:
same cell type, same bit string (not just the same padded bytes: `Pad.dataBytes_inj`), same number of references.
"Any change to the data or structure of an unpruned cell" therefore breaks `Agree`. -/
theorem c11_binding_bits (H : Bytes → Bytes) (l : Nat) (kp kt : Int) (bp bt : Bits) (rp rt : List Cell)
    (h : Agree H l (.mk kp bp rp) (.mk kt bt rt)) (hp : ¬ StoredAt kp bp l) (ht : ¬ StoredAt kt bt l) :
    kp = kt ∧ bp = bt ∧ rp.length = rt.length := by
  rw [Agree] at h
  rcases h.2 with h1 | h1 | h1
  · exact absurd h1 hp
  · exact absurd h1 ht
  · exact ⟨h1.1, h1.2.1, h1.2.2.1⟩

/-- ... and about the children: at every level `L ≤ l` at which the cell's hash is computed, the children agree
pairwise at level `L + μ` (μ = 1 below Merkle proof/update cells). In particular at `L = 0`. -/
theorem c11_binding_children (H : Bytes → Bytes) (l : Nat) (kp kt : Int) (bp bt : Bits) (rp rt : List Cell) (sp : Spec.SInfo)
    (h : Agree H l (.mk kp bp rp) (.mk kt bt rt)) (hp : ¬ StoredAt kp bp l) (ht : ¬ StoredAt kt bt l)
    (hsp : specInfo H (.mk kp bp rp) = some sp) (L : Nat) (hL : L ≤ l) (hs : sigB sp.mask L = true) :
    Agrees H (L + muOf kp) rp rt := by
  rw [Agree] at h
  rcases h.2 with h1 | h1 | h1
  · exact absurd h1 hp
  · exact absurd h1 ht
  · exact h1.2.2.2 sp hsp L hL hs

/-- a pruned branch that answers level `l` with a stored hash agrees with `t` only if that hash is `t`'s level-`l`
hash: a substituted pruned hash breaks `Agree` -/
theorem c11_binding_pruned_hash (H : Bytes → Bytes) (l : Nat) (p t : Cell) (sp st : Spec.SInfo)
    (h : Agree H l p t) (hsp : specInfo H p = some sp) (hst : specInfo H t = some st) : sp.hashAt l = st.hashAt l := by
  cases p with
  | mk kp bp rp =>
    cases t with
    | mk kt bt rt =>
      rw [Agree] at h
      obtain ⟨⟨sp', st', h1, h2, h3⟩, _⟩ := h
      rw [hsp] at h1; rw [hst] at h2
      cases h1; cases h2
      exact h3

/-- SOUNDNESS of `check_proof`: if the object of the spec-valid proof tree `.mk kind bits [p]` passes
`check_proof(·, h)`, then it is a well-formed Merkle proof cell naming `h`, and for EVERY tree `t` (any cell types)
whose level-0 hash is `h`, the proof body `p` agrees with `t` at level 0 (`Agree`, see `c11_binding`) — under the
local no-collision hypothesis.  Each listed rejection follows by contraposition: a changed bit / type / reference of
an unpruned cell (`c11_reject_changed`) or a substituted pruned hash (`c11_binding_pruned_hash`) contradicts `Agree`; a
different expected hash and a non-proof cell are `c11_reject_wrong_hash`, `c11_reject_not_proof`. -/
theorem c11_sound (H : Bytes → Bytes) (h32 : ∀ x, (H x).length = 32) (kind : Int) (bits : Bits) (p t : Cell)
    (c : PCell) (h : Bytes) (sp st : Spec.SInfo)
    (wf : TreeWF H (.mk kind bits [p])) (hc : PCell.ofCell H (.mk kind bits [p]) = some c)
    (hacc : checkProof c h = true)
    (shp : Shape p) (sht : Shape t) (hsp : specInfo H p = some sp) (hst : specInfo H t = some st) (ht : st.hashAt 0 = h)
    (nocoll : ∀ x y, x ∈ reprs H p → y ∈ reprs H t → H x = H y → x = y) :
    c.info.kind = kMerkleProof ∧ pySlice c.data 1 33 = h ∧ Agree H 0 p t := by
  obtain ⟨hk, hs, _, r, d, hr, hh, _, _⟩ := c11_sound_shape c h hacc
  refine ⟨hk, hs, ?_⟩
  -- the child object is the object of `p` and reports the spec hash of `p`
  have hinfo := ofCell_info H (.mk kind bits [p])
  rw [hc] at hinfo
  obtain ⟨rs, hrs, hc', _⟩ := ofCell_of_info H kind bits [p] c.info (by simpa using hinfo.symm)
  rw [hc] at hc'
  obtain ⟨r', hr', hrp⟩ := ofCells_singleton H p rs hrs
  have hcr : c.refs = rs := by
    have := Option.some.inj hc'
    rw [this]; rfl
  rw [hr, hr'] at hcr
  cases hcr
  have wfp : TreeWF H p := by rw [TreeWF] at wf; exact wf.1.1
  obtain ⟨ip, sp', hip, hsp', hag⟩ := tree_agrees H p wfp
  rw [hsp] at hsp'; cases hsp'
  have hri : r.info = ip := by
    have := ofCell_info H p
    rw [hrp, hip] at this
    simpa using this
  rw [hri, (hag.2 0).1] at hh
  simp only [Option.some.injEq] at hh
  exact c11_binding H h32 p t 0 sp st shp sht hsp hst nocoll (hh.trans ht.symm)

/-- SOUNDNESS at EVERY position: under the hypotheses of `c11_sound`, following any path of reference indices
simultaneously in the proof body `p` and in `t` — until a pruned branch answering with a stored hash is met — both trees
have the same number of references at each step and the cells reached `Agree` (so, when neither is such a pruned
branch: same type, same bit string, same reference count, `c11_binding_bits`).  Every unpruned cell of the proof is
reached by such a path: it IS the cell of `t` at that position. -/
theorem c11_sound_everywhere (H : Bytes → Bytes) (h32 : ∀ x, (H x).length = 32) (kind : Int) (bits : Bits) (p t : Cell)
    (c : PCell) (h : Bytes) (sp st : Spec.SInfo)
    (wf : TreeWF H (.mk kind bits [p])) (hc : PCell.ofCell H (.mk kind bits [p]) = some c)
    (hacc : checkProof c h = true)
    (shp : Shape p) (sht : Shape t) (hsp : specInfo H p = some sp) (hst : specInfo H t = some st) (ht : st.hashAt 0 = h)
    (nocoll : ∀ x y, x ∈ reprs H p → y ∈ reprs H t → H x = H y → x = y) (π : List Nat) :
    AgreeAlong H π 0 p t :=
  agree_along H π 0 p t (c11_sound H h32 kind bits p t c h sp st wf hc hacc shp sht hsp hst ht nocoll).2.2

/-- REJECTION of a changed unpruned cell (root of the proof body; deeper cells through `c11_binding_children`): if the
root of `p` and the root of `t` differ in type, in any data bit or in the number of references, and neither is a pruned
branch standing for the other, then `check_proof` raises for `hash t` (same hypotheses as `c11_sound`). -/
theorem c11_reject_changed (H : Bytes → Bytes) (h32 : ∀ x, (H x).length = 32) (kind : Int) (bits : Bits)
    (kp kt : Int) (bp bt : Bits) (rp rt : List Cell) (c : PCell) (sp st : Spec.SInfo)
    (wf : TreeWF H (.mk kind bits [.mk kp bp rp])) (hc : PCell.ofCell H (.mk kind bits [.mk kp bp rp]) = some c)
    (shp : Shape (.mk kp bp rp)) (sht : Shape (.mk kt bt rt))
    (hsp : specInfo H (.mk kp bp rp) = some sp) (hst : specInfo H (.mk kt bt rt) = some st)
    (nocoll : ∀ x y, x ∈ reprs H (.mk kp bp rp) → y ∈ reprs H (.mk kt bt rt) → H x = H y → x = y)
    (hp : ¬ StoredAt kp bp 0) (ht : ¬ StoredAt kt bt 0)
    (hdiff : kp ≠ kt ∨ bp ≠ bt ∨ rp.length ≠ rt.length) :
    checkProof c (st.hashAt 0) = false := by
  cases hacc : checkProof c (st.hashAt 0) with
  | false => rfl
  | true =>
    obtain ⟨_, _, hag⟩ := c11_sound H h32 kind bits _ _ c _ sp st wf hc hacc shp sht hsp hst rfl nocoll
    obtain ⟨e1, e2, e3⟩ := c11_binding_bits H 0 kp kt bp bt rp rt hag hp ht
    rcases hdiff with h | h | h
    · exact absurd e1 h
    · exact absurd e2 h
    · exact absurd e3 h

/-! Non-vacuity of the binding hypotheses: a toy hash with 32-byte output that is injective on the representations
at hand (it returns the first 32 bytes, zero padded); the tree has an inner Merkle proof cell whose child (looked at on
level 1) holds a pruned branch of mask 1, so a cell with two significant levels and a chained hash occurs
(`reprs toyH treeB` has 7 entries). -/
def toyH : Bytes → Bytes := fun x => (x ++ List.replicate 32 0).take 32
def leafA : Cell := .mk (-1) [true, false] []
def pbB : Cell := .mk 1 (bytesToBits ([1, 1] ++ List.replicate 32 7 ++ [0, 0])) []
def nodeB : Cell := .mk (-1) [false] [pbB, leafA]
def mB : Cell := .mk 3 [true, true] [nodeB]
def treeB : Cell := .mk (-1) [true] [mB, leafA]

/-- the example tree has the shape of a valid bag (hypothesis `Shape` of `c11_binding`) -/
theorem treeB_shape : Shape treeB := by
  have hm : pmaskOf (bytesToBits ([1, 1] ++ List.replicate 32 7 ++ [0, 0])) = 1 := by decide +kernel
  have hp : Spec.popcount 1 = 1 := by simp [Spec.popcount]
  have hl : (bytesToBits ([1, 1] ++ List.replicate 32 7 ++ [0, 0])).length = 288 := by
    rw [length_bytesToBits]; simp
  simp only [treeB, mB, nodeB, pbB, leafA, Shape, Shapes, hm, hp, hl]
  simp

example : (∀ x, (toyH x).length = 32) ∧ Shape treeB ∧ (∃ s, specInfo toyH treeB = some s) ∧
    (reprs toyH treeB).length = 7 ∧
    (∀ x y, x ∈ reprs toyH treeB → y ∈ reprs toyH treeB → toyH x = toyH y → x = y) := by
  refine ⟨by intro x; simp [toyH], treeB_shape,
    by simp [treeB, mB, nodeB, pbB, leafA, specInfo, specInfos, kindOf], by decide +kernel, ?_⟩
  have key : ∀ x ∈ reprs toyH treeB, ∀ y ∈ reprs toyH treeB, toyH x = toyH y → x = y := by decide +kernel
  exact fun x y hx hy => key x hx y hy

/-! Non-vacuity of `c11_complete`: the hypotheses hold for a concrete cell (pruning nothing) with the toy hash. -/
def sLeafA : Spec.SInfo := Spec.node toyH .ordinary [true, false] []

theorem leafA_nodeWF : NodeWF toyH .ordinary [true, false] [] := by
  refine ⟨by decide, by decide, by simp, ?_, by simp, by simp, by simp, by simp⟩
  intro _ l
  rw [node_plain toyH .ordinary _ _ (by decide)]
  have : Spec.nodeMask .ordinary [true, false] [] = 0 := rfl
  rw [this]
  show Spec.plainDepthAt .ordinary [] 0 l ≤ 1023
  rw [TonVerif.Proofs.OrdCell.plainDepthAt_zero]
  decide

example : TreeWF toyH leafA ∧ specInfo toyH leafA = some sLeafA ∧ sLeafA.mask = 0 ∧ PruneRel toyH 1 leafA leafA ∧
    ((sLeafA.hashAt 0).length = 32 ∧ Bytes.WF (sLeafA.hashAt 0)) ∧ sLeafA.depthAt 0 ≤ 1022 := by
  have hlen : (sLeafA.hashAt 0).length = 32 := by
    show (Spec.plainHashAt toyH .ordinary [true, false] [] (Spec.nodeMask .ordinary [true, false] []) 0).length = 32
    simp only [Spec.plainHashAt, toyH, List.length_take, List.length_append, List.length_replicate]
    omega
  have hwf : Bytes.WF (sLeafA.hashAt 0) := by decide +kernel
  refine ⟨?_, by simp [leafA, sLeafA, specInfo, specInfos, kindOf], rfl, ?_, ⟨hlen, hwf⟩, by decide +kernel⟩
  · unfold leafA
    rw [TreeWF]
    exact ⟨trivial, .ordinary, [], by decide, by simp [specInfos], leafA_nodeWF⟩
  · unfold leafA
    rw [PruneRel]
    exact Or.inr ⟨.ordinary, [], by decide, rfl, by rw [PruneRels]⟩

/-! ## Source-regenerated decision lines (`Generated/ProofChecks.lean`: re-translated from proof/check_proof.py and the
`CellTypes` constants of boc/exotic.py on every run)

Every `if …: raise ProofError(…)` of `check_proof`, `check_block_header_proof`, `check_account_proof` (and the simple ones of
`check_shard_proof`) is translated as a Boolean function of the values it reads: cell type (an `Int`, ordinary = -1), reference
and bit counts, `cell.data` / hashes (`Bytes`), the child's level-0 depth.  `x[a:b]` is `Py.slice`, `d.to_bytes(2, 'big')` is
`Py.toBytes true 2 d` with the side condition `d < 256^2` (Python raises OverflowError beyond). -/
section Src
open TonVerif.Proofs.SrcArith2
set_option linter.unusedSimpArgs false

/-- the two cell-type constants the checks compare with are the model's. -/
theorem c11_src_cell_types :
    (Generated.cellTypeMerkleProof : Int) = kMerkleProof ∧ (Generated.cellTypeMerkleUpdate : Int) = kMerkleUpdate := by
  simp only [Generated.cellTypeMerkleProof, Generated.cellTypeMerkleUpdate, kMerkleProof, kMerkleUpdate] <;> src_prop

/-- the four tests of `check_proof`, for ALL values: wrong cell type; stored hash `data[1:33]` differs; the child's
level-0 hash differs; and the "malformed" test = not exactly one reference, or not exactly 280 bits, or the data is not
`03 ++ hash ++ depth(2 bytes, big endian)` (for every depth that has a 2-byte encoding; its side condition holds there). -/
theorem c11_src_proof_tests (ty : Int) (refs bits d0 : Nat) (data h h0 : Bytes) :
    Generated.proofWrongType_sideOk ty Generated.cellTypeMerkleProof ∧ Generated.proofWrongStoredHash_sideOk data h ∧
    Generated.proofWrongChildHash_sideOk h0 h ∧ (d0 < 65536 → Generated.proofMalformed_sideOk refs bits data h d0) ∧
    Generated.proofWrongType ty Generated.cellTypeMerkleProof = (ty != kMerkleProof) ∧
    Generated.proofWrongStoredHash data h = (pySlice data 1 33 != h) ∧
    Generated.proofWrongChildHash h0 h = (h0 != h) ∧
    Generated.proofMalformed refs bits data h d0 = (refs != 1 || bits != 280 || data != [3] ++ h ++ natToBE 2 d0) := by
  refine ⟨by simp only [Generated.proofWrongType_sideOk], by simp only [Generated.proofWrongStoredHash_sideOk],
    by simp only [Generated.proofWrongChildHash_sideOk], ?_, ?_, ?_, ?_, ?_⟩
  · intro hd; simp only [Generated.proofMalformed_sideOk] <;> src_prop
  · simp only [Generated.proofWrongType, Generated.cellTypeMerkleProof, kMerkleProof] <;> src_bool
  · simp only [Generated.proofWrongStoredHash] <;> src_bool
  · simp only [Generated.proofWrongChildHash] <;> src_bool
  · simp only [Generated.proofMalformed] <;> src_bool

/-- `check_proof` of the hand model (what `c11_complete`, `c11_sound_shape`, `c11_sound` … are proved about) decides with
exactly the regenerated source tests, in the order of the code; a child depth without 2-byte encoding is a rejection
(OverflowError in `to_bytes`, or the earlier ProofError). -/
theorem c11_src_check_proof (c : PCell) (h : Bytes) :
    checkProof c h =
      (if Generated.proofWrongType c.info.kind Generated.cellTypeMerkleProof then false
       else if Generated.proofWrongStoredHash c.data h then false
       else match c.refs[0]? with
         | none => false
         | some r =>
           match r.info.getHash 0 with
           | none => false
           | some h0 =>
             if Generated.proofWrongChildHash h0 h then false
             else match r.info.getDepth 0 with
               | none => false
               | some d0 =>
                 if 65536 ≤ d0 then false
                 else !Generated.proofMalformed c.refs.length c.info.bits.length c.data h d0) := by
  have hT := fun ty => (c11_src_proof_tests ty 0 0 0 [] [] []).2.2.2.2.1
  have hS := fun data h => (c11_src_proof_tests 0 0 0 0 data h []).2.2.2.2.2.1
  have hC := fun h0 h => (c11_src_proof_tests 0 0 0 0 [] h h0).2.2.2.2.2.2.1
  have hM := fun refs bits d0 data h => (c11_src_proof_tests 0 refs bits d0 data h []).2.2.2.2.2.2.2
  simp only [hT, hS, hC, hM, checkProof]
  split
  · rfl
  split
  · rfl
  cases c.refs[0]? with
  | none => rfl
  | some r =>
    simp only
    cases hh : r.info.getHash 0 with
    | none => simp
    | some h0 =>
      by_cases e : h0 = h
      · subst e
        cases hd : r.info.getDepth 0 with
        | none => simp
        | some d0 =>
          by_cases hlt : d0 < 65536
          · have : toBytesBE? 2 d0 = some (natToBE 2 d0) := by simp [toBytesBE?, hlt]
            simp [this, show ¬ 65536 ≤ d0 by omega, ← decide_ne_eq_bne]
          · have : toBytesBE? 2 d0 = none := by simp [toBytesBE?, hlt]
            simp [this, show 65536 ≤ d0 by omega]
      · simp [e]

/-- the tests of `check_block_header_proof`, for ALL values: root hash differs from the block hash; the state update
cell is not a Merkle update or its stored new hash `data[33:65]` is not the returned state hash (fix 67bd38d). -/
theorem c11_src_header_tests (ty : Int) (rh bh data sh : Bytes) :
    (Generated.hdrWrongHash_sideOk rh bh ∧ Generated.hdrStateUncommitted_sideOk ty Generated.cellTypeMerkleUpdate data sh) ∧
    Generated.hdrWrongHash rh bh = (rh != bh) ∧
    Generated.hdrStateUncommitted ty Generated.cellTypeMerkleUpdate data sh =
      (ty != kMerkleUpdate || pySlice data 33 65 != sh) := by
  refine ⟨⟨by simp only [Generated.hdrWrongHash_sideOk], by simp only [Generated.hdrStateUncommitted_sideOk]⟩, ?_, ?_⟩
  · simp only [Generated.hdrWrongHash] <;> src_bool
  · simp only [Generated.hdrStateUncommitted, Generated.cellTypeMerkleUpdate, kMerkleUpdate] <;> src_bool

/-- `check_block_header_proof` of the hand model decides with exactly the regenerated tests. -/
theorem c11_src_header (root : PCell) (blockHash : Bytes) :
    checkBlockHeaderProof root blockHash =
      (match root.info.getHash 0 with
       | none => false
       | some rh => !Generated.hdrWrongHash rh blockHash) ∧
    checkBlockHeaderProofState root blockHash =
      (if checkBlockHeaderProof root blockHash then do
         let su ← root.refs[2]?
         let r21 ← su.refs[1]?
         let sh ← r21.info.getHash 0
         if Generated.hdrStateUncommitted su.info.kind Generated.cellTypeMerkleUpdate su.data sh then none else some sh
       else none) := by
  have hW := fun rh bh => (c11_src_header_tests 0 rh bh [] []).2.1
  have hU := fun ty data sh => (c11_src_header_tests ty [] [] data sh).2.2
  constructor
  · simp only [hW, checkBlockHeaderProof]
    cases root.info.getHash 0 with
    | none => simp
    | some rh => by_cases e : rh = blockHash <;> simp [e, bne]
  · simp only [hU, checkBlockHeaderProofState]

/-- the tests of `check_account_proof` (root count, state hash, account hash — fix 56bdc07 compares with the supplied
state's own `.hash`) and of `check_shard_proof` (same block, masterchain, root count, state hash), for ALL values. -/
theorem c11_src_account_tests (n : Nat) (wc : Int) (same : Bool) (h0 sh ah : Bytes) :
    (Generated.acctWrongRootCount_sideOk n ∧ Generated.acctStateMismatch_sideOk h0 sh ∧ Generated.acctWrongAccount_sideOk h0 ah ∧
     Generated.shardSame_sideOk same ∧ Generated.shardNotMasterchain_sideOk wc ∧ Generated.shardWrongRootCount_sideOk n ∧
     Generated.shardStateMismatch_sideOk h0 sh) ∧
    Generated.acctWrongRootCount n = (n != 2) ∧ Generated.acctStateMismatch h0 sh = (h0 != sh) ∧
    Generated.acctWrongAccount h0 ah = (h0 != ah) ∧
    Generated.shardSame same = same ∧ Generated.shardNotMasterchain wc = (wc != -1) ∧
    Generated.shardWrongRootCount n = (n != 2) ∧ Generated.shardStateMismatch h0 sh = (h0 != sh) := by
  refine ⟨⟨by simp only [Generated.acctWrongRootCount_sideOk], by simp only [Generated.acctStateMismatch_sideOk],
    by simp only [Generated.acctWrongAccount_sideOk], by simp only [Generated.shardSame_sideOk],
    by simp only [Generated.shardNotMasterchain_sideOk], by simp only [Generated.shardWrongRootCount_sideOk],
    by simp only [Generated.shardStateMismatch_sideOk]⟩, ?_, ?_, ?_, ?_, ?_, ?_, ?_⟩
  · simp only [Generated.acctWrongRootCount] <;> src_bool
  · simp only [Generated.acctStateMismatch] <;> src_bool
  · simp only [Generated.acctWrongAccount] <;> src_bool
  · simp only [Generated.shardSame] <;> src_bool
  · simp only [Generated.shardNotMasterchain] <;> src_bool
  · simp only [Generated.shardWrongRootCount] <;> src_bool
  · simp only [Generated.shardStateMismatch] <;> src_bool

/-- `check_account_proof` of the hand model (what `c11_account_sound`, `c11_account_complete` … are proved about) decides
with exactly the regenerated tests, in the order of the code. -/
theorem c11_src_account (locate : PCell → Bytes → Option PCell) (roots : List PCell) (blkRootHash addr : Bytes)
    (state : PCell) :
    checkAccountProof locate roots blkRootHash addr state =
      (if Generated.acctWrongRootCount roots.length then false else
       match roots with
       | [p0, p1] =>
         if !checkProof p0 blkRootHash then false else
         match p0.refs[0]? with
         | none => false
         | some hdr =>
         match checkBlockHeaderProofState hdr blkRootHash with
         | none => false
         | some stateHash =>
         match p1.refs[0]? with
         | none => false
         | some st =>
         match st.info.getHash 0 with
         | none => false
         | some h0 =>
         if Generated.acctStateMismatch h0 stateHash then false else
         if !checkProof p1 stateHash then false else
         match locate st addr with
         | none => false
         | some acc =>
           match acc.info.getHash 0 with
           | none => false
           | some ha => !Generated.acctWrongAccount ha state.info.hash
       | _ => false) := by
  have hN := fun n => (c11_src_account_tests n 0 false [] [] []).2.1
  have hS := fun h0 sh => (c11_src_account_tests 0 0 false h0 sh []).2.2.1
  have hA := fun h0 ah => (c11_src_account_tests 0 0 false h0 [] ah).2.2.2.1
  simp only [hN, hS, hA]
  match roots with
  | [] => simp [checkAccountProof]
  | [_] => simp [checkAccountProof]
  | _ :: _ :: _ :: _ => simp [checkAccountProof]
  | [p0, p1] =>
    simp only [checkAccountProof, List.length_cons, List.length_nil]
    cases hp0 : checkProof p0 blkRootHash
    · simp
    cases hr0 : p0.refs[0]? with
    | none => simp
    | some hdr =>
      cases hst : checkBlockHeaderProofState hdr blkRootHash with
      | none => simp [hst]
      | some stateHash =>
        cases hr1 : p1.refs[0]? with
        | none => simp [hst, hr1]
        | some st =>
          cases hh : st.info.getHash 0 with
          | none => simp [hst, hr1, hh]
          | some h0 =>
            by_cases e : h0 = stateHash
            · subst e
              cases hp1 : checkProof p1 h0
              · simp [hst, hr1, hh, hp1]
              cases hl : locate st addr with
              | none => simp [hst, hr1, hh, hp1, hl]
              | some acc =>
                cases hha : acc.info.getHash 0 with
                | none => simp [hst, hr1, hh, hp1, hl, hha]
                | some ha => by_cases e2 : ha = state.info.hash <;> simp [hst, hr1, hh, hp1, hl, hha, e2, bne]
            · simp [hst, hr1, hh, e]

/-- the first three decisions of `check_shard_proof` in the hand model are the regenerated tests (`masterchain` is
`blk.workchain == -1`): equal block ids return at once; otherwise a non-masterchain block and a root count other than 2
are rejected. -/
theorem c11_src_shard (blockInfoOk findShard : PCell → Bool) (same : Bool) (wc : Int) (roots : List PCell) (h : Bytes) :
    (Generated.shardSame same = true → checkShardProof blockInfoOk findShard same (wc == -1) roots h = true) ∧
    (Generated.shardSame same = false → Generated.shardNotMasterchain wc = true →
      checkShardProof blockInfoOk findShard same (wc == -1) roots h = false) ∧
    (Generated.shardSame same = false → Generated.shardWrongRootCount roots.length = true →
      checkShardProof blockInfoOk findShard same (wc == -1) roots h = false) := by
  have hS := fun b => (c11_src_account_tests 0 0 b [] [] []).2.2.2.2.1
  have hM := fun wc => (c11_src_account_tests 0 wc false [] [] []).2.2.2.2.2.1
  have hN := fun n => (c11_src_account_tests n 0 false [] [] []).2.2.2.2.2.2.1
  simp only [hS, hM, hN]
  refine ⟨?_, ?_, ?_⟩
  · intro e; simp [checkShardProof, e]
  · intro e1 e2; simp only [bne_iff_ne, ne_eq] at e2; simp [checkShardProof, e1, e2]
  · intro e1 e2
    simp only [bne_iff_ne, ne_eq] at e2
    match roots with
    | [] => simp [checkShardProof, e1]
    | [_] => simp [checkShardProof, e1]
    | [_, _] => simp at e2
    | _ :: _ :: _ :: _ => simp [checkShardProof, e1]

/-- the regenerated tests on concrete values: a Merkle proof cell of type 3 with data `03 ++ h ++ 0005`, one reference and 280
bits passes all four tests of `check_proof` for child depth 5; the same data read for depth 1280 (= 0x0500), a 277-bit cell,
a second reference, an ordinary cell (type -1) or a 31-byte hash do not. -/
example : let h : Bytes := List.replicate 32 7
    Generated.proofWrongType 3 Generated.cellTypeMerkleProof = false ∧ Generated.proofWrongType (-1) Generated.cellTypeMerkleProof = true ∧
    Generated.proofWrongStoredHash ([3] ++ h ++ [0, 5]) h = false ∧ Generated.proofWrongStoredHash ([3] ++ h ++ [0, 5]) (h.take 31) = true ∧
    Generated.proofMalformed 1 280 ([3] ++ h ++ [0, 5]) h 5 = false ∧ Generated.proofMalformed 1 280 ([3] ++ h ++ [0, 5]) h 1280 = true ∧
    Generated.proofMalformed 1 277 ([3] ++ h ++ [0, 5]) h 5 = true ∧ Generated.proofMalformed 2 280 ([3] ++ h ++ [0, 5]) h 5 = true ∧
    Generated.acctWrongRootCount 2 = false ∧ Generated.acctWrongRootCount 3 = true ∧ Generated.shardNotMasterchain (-1) = false := by
  decide

end Src

end TonVerif.Properties.C11
