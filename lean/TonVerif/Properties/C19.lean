/-
C19 — work is bounded by the size of the input; every parser terminates.  (PARTIAL: statements are about the
step-counting model `Model/Cost.lean` of the code as written; the tie to the real cost is the measured inequality
of harness/props/C19.py.)

`n` = number of distinct cells (`g.length`), `e` = number of references (`edges g`), a *step* = one iteration of a
Python-level loop / one call of a recursive parser function.
-/
import TonVerif.Proofs.Cost

namespace TonVerif.Properties.C19
open TonVerif TonVerif.Model TonVerif.Model.Cost TonVerif.Proofs.Cost

/-- `Cell.order()` (iterative, visited set): on EVERY cell graph with `n` cells and `e` references — any sharing, in
particular chains whose cells reference the same child twice — the `while stack:` loop ends (stack empty) after at most
`1 + n + e` iterations: every cell is expanded once, every reference pushed once. -/
theorem c19_order_linear (g : Dag) (hg : g.WF) (root : Nat) (hr : root < g.length) :
    (orderRun g root).stack = [] ∧ orderVisits g root ≤ 1 + g.length + edges g := by
  obtain ⟨h1, h2, _, _⟩ := order_run g hg root hr
  exact ⟨h1, h2⟩

/-- the resulting order lists at most `n` cells carrying at most `e` references, so with the final
`for cell in reversed(post_order)` loop the whole call is `≤ 1 + 2n + e` steps. -/
theorem c19_order_total (g : Dag) (hg : g.WF) (root : Nat) (hr : root < g.length) :
    (orderRun g root).post.length ≤ g.length ∧ ((orderRun g root).post.map (deg g)).sum ≤ edges g ∧
      orderSteps g root ≤ 1 + 2 * g.length + edges g := by
  obtain ⟨_, h2, h3, h4⟩ := order_run g hg root hr
  refine ⟨h3, h4, ?_⟩
  simp only [orderSteps]; omega

/-- `Cell.to_boc(has_idx, hash_crc32, has_cache_bits)`: steps `≤ 5·(n+e) + 1 + len(output)` (the byte term is the
Python-level CRC loop; without `hash_crc32` it is not needed). -/
theorem c19_serialize_poly (g : Dag) (hg : g.WF) (root : Nat) (hr : root < g.length) (hasIdx hasCrc hasCache : Bool) :
    toBocSteps g root hasIdx hasCrc hasCache ≤ 5 * (g.length + edges g) + 1 + (toBoc g root hasIdx hasCrc hasCache).bytes :=
  toBoc_steps_le g hg root hr hasIdx hasCrc hasCache

/-- `Cell.from_boc(bs)` for EVERY byte string: the three loops of `Boc.deserialize` (over `cells_num`, reversed
`cells_num`, `root_list`) run at most `len(bs) + 1` iterations in total — a count field larger than the bytes that
follow is cut by a length check or by running out of bytes. -/
theorem c19_boc_parse (bs : Bytes) : (bocCost bs).outer ≤ bs.length + 1 := (bocCost_bound bs).2

/-- … and ALL loop iterations (header comprehensions over the size fields / root list / index, the Python CRC loop,
the three loops and their per-reference inner loops) are at most `3·len(bs) + 5`. -/
theorem c19_boc_parse_all (bs : Bytes) : bocParseSteps bs ≤ 3 * bs.length + 5 := (bocCost_bound bs).1

/-- dictionary parsing: the number of `parse` + `deserialize_hashmap_node` calls is at most twice the number of nodes of
the dictionary tree unfolded from the root cell (first two references of every cell) — whatever the labels say (bogus
lengths, negative remaining key length) and however much the cells are shared.  Interpretation: the bound is in the
size of the UNFOLDED tree, i.e. of the parser's output (a DAG-compressed dictionary with 2^k leaves has 2^k entries). -/
theorem c19_dict_parse (g : DDag) (fuel root : Nat) (keyLen : Int) :
    (dictCalls g fuel root keyLen).steps ≤ 2 * treeSize g fuel root := dictCalls_le g fuel root keyLen

/-- the `deserialize_unary` loop of a label never runs more iterations than the cell has bits (≤ 1023) -/
theorem c19_dict_label (bits : Bits) (m : Int) : (readLabel bits m).2 ≤ bits.length := readLabel_iters bits m

/-- TL `bytes` re-parse loop (`while j < byte_len`): for ANY inner parser that returns advance 0 on empty input, the
loop ends within `len(content) - j + 1` iterations, whatever `byte_len` declares (each iteration advances by ≥ 1 byte
or breaks; past the end of the content the slice is empty). -/
theorem c19_tl_reparse_loop (r : Bytes → Tl.Res) (hr : ∀ b, r b ≠ .oof) (h0 : ∀ adv s, r [] = .ok adv s → adv = 0)
    (c : Bytes) (byteLen j s : Nat) : Tl.reparseLoop r c byteLen (c.length - j + 1) j s ≠ .oof :=
  reparse_no_oof r hr h0 c byteLen _ j s (Nat.le_refl _)

/-- TL vector loop with the guard of the F16 repair: a declared length larger than the remaining input raises before
the first iteration, so a vector field iterates at most `len(data) - i - 4` times.  (The loop as coded today has no
guard: `Tl.vecItersUnfixed declared = declared` — 2^22 iterations over 0 bytes; known finding F16.) -/
theorem c19_tl_vector_guard (rec : Bytes → Option Nat → Tl.Res) (data : Bytes) (i : Nat) (elem : Option Nat)
    (h : data.length < i + 4 + Tl.natOfLE (sl data i (i + 4))) :
    Tl.fieldStep rec data i (.vec elem) = .raised 0 true := by
  simp [Tl.fieldStep, h]

/-
FULL STATEMENT (not proved):  c19_tl_fuel :
  ∀ tbl (ranked: the bare-type references of tbl are acyclic) data mode,
    Tl.deser tbl ((data.length / 4 + 2) * (tbl.length + 2)) data mode ≠ .oof   ∧   steps ≤ K(tbl) · (data.length + 1).
Proved below: every `oof` of the model is an exhaustion of the recursion-DEPTH fuel — none of the loops (fields,
vector, re-parse) can run out of its own fuel, for every table and every input.  Missing: the bound on the nesting depth
(each boxed level consumes ≥ 4 bytes, bare levels are bounded by the rank) and the summation over the call tree.  The
driver never reported `oof` with the fuel above on any generated input (sampled).
-/
/-- see the comment above -/
theorem c19_tl_fuel_partial (tbl : Tl.Table) (h : IdsNonempty tbl) (f : Nat) (data : Bytes) (mode : Option Nat)
    (ho : Tl.deser tbl (f + 1) data mode = .oof) : ∃ b m, Tl.deser tbl f b m = .oof :=
  oof_from_depth tbl h f data mode ho

/-! ## Non-vacuity and concrete instances -/

/-- chain of 3 cells each referencing the same child twice, on a leaf -/
def chain3 : Dag := [⟨3, []⟩, ⟨3, [0, 0]⟩, ⟨3, [1, 1]⟩, ⟨3, [2, 2]⟩]
/-- a diamond: 3 → (1, 2) → 0 -/
def diamond : Dag := [⟨3, []⟩, ⟨4, [0]⟩, ⟨4, [0]⟩, ⟨5, [1, 2]⟩]

example : chain3.WF := by
  intro v c h
  match v with
  | 0 | 1 | 2 | 3 => simp [kidsOf, chain3] at h <;> simp [chain3] <;> omega
  | n+4 => simp [kidsOf, chain3] at h
example : diamond.WF := by
  intro v c h
  match v with
  | 0 | 1 | 2 | 3 => simp [kidsOf, diamond] at h <;> simp [diamond] <;> omega
  | n+4 => simp [kidsOf, diamond] at h

/-- the bound is attained: 1 + n + e = 1 + 4 + 6 iterations; the recursive code before fix 563b428 made 2^4 - 1 calls -/
example : orderVisits chain3 3 = 11 ∧ 1 + chain3.length + edges chain3 = 11 ∧ oldOrderCalls chain3 4 3 = 15 := by decide
example : (orderRun diamond 3).post = [3, 1, 2, 0] ∧ orderVisits diamond 3 = 9 := by decide

/-- a 14-byte bag claiming 255 cells over a 3-byte body: the cells loop stops after 2 iterations -/
example : (bocCost [0xb5, 0xee, 0x9c, 0x72, 0x01, 0x01, 0xff, 0x01, 0x00, 0x03, 0x00, 0x00, 0x02, 0xaa]).loop1 = 2 := by decide
/-- claiming 255 roots: rejected by the length check before any root is read -/
example : (bocCost [0xb5, 0xee, 0x9c, 0x72, 0x01, 0x01, 0x01, 0xff, 0x00, 0x03, 0x00, 0x00, 0x02, 0xaa]).total = 3 := by decide

/-- maximal sharing in a dictionary: 3 forks referencing the same child twice unfold to 15 nodes = 30 calls -/
def sharedDict : DDag := [⟨[false, false], [], true⟩, ⟨[false, false], [0, 0], true⟩, ⟨[false, false], [1, 1], true⟩,
  ⟨[false, false], [2, 2], true⟩]
example : dictCalls sharedDict 5 3 3 = .done 30 ∧ treeSize sharedDict 5 3 = 15 := by decide

/-- TL: one schema `a:(vector boxed)`; declared length 2^22 over 0 bytes is rejected by the guard in 2 steps -/
def tlTable : Tl.Table := [⟨[1, 2, 3, 4], [⟨none, .vec none⟩]⟩]
example : IdsNonempty tlTable := by intro s hs; simp [tlTable] at hs; subst hs; simp
example : Tl.deser tlTable 3 [1, 2, 3, 4, 0, 0, 64, 0] none = .raised 2 true := by decide

end TonVerif.Properties.C19
