import TonVerif.Model.Cost
namespace TonVerif.Properties.C19
open TonVerif TonVerif.Model.Cost
/-- temporary -/
theorem c19_tmp : orderVisits [] 0 = 1 := by decide
end TonVerif.Properties.C19
