/-
C19 — work is bounded by the size of the input; every parser terminates.  (PARTIAL: statements are about the
step-counting model `Model/Cost.lean` of the code as written; the tie to the real cost is the measured inequality
of harness/props/C19.py.)

`n` = number of distinct cells (`g.length`), `e` = number of references (`edges g`), a *step* = one iteration of a
Python-level loop / one call of a recursive parser function.
-/
import TonVerif.Proofs.Cost
import TonVerif.Proofs.CostTl
import TonVerif.Generated.TlCostTable
import TonVerif.Proofs.SrcTl
import TonVerif.Generated.TlFraming
import TonVerif.Proofs.SrcBocDeser
import TonVerif.Proofs.SrcOrderAny
import TonVerif.Proofs.SrcBocAny
import TonVerif.Proofs.SrcHashmapCnt
import TonVerif.Proofs.SrcBocCnt

namespace TonVerif.Properties.C19
open TonVerif TonVerif.Model TonVerif.Model.Cost TonVerif.Proofs.Cost

/-- `Cell.order()` (iterative, visited set): on EVERY cell graph with `n` cells and `e` references — any sharing, in
particular chains whose cells reference the same child twice — the `while stack:` loop ends (stack empty) after at most
`1 + n + e` iterations: every cell is expanded once, every reference pushed once. -/
theorem c19_order_linear (g : Dag) (hg : g.WF) (root : Nat) (hr : root < g.length) :
    (orderRun g root).stack = [] ∧ orderVisits g root ≤ 1 + g.length + edges g := by
  obtain ⟨h1, h2, _, _⟩ := order_run g hg root hr
  exact ⟨h1, h2⟩

/-- the resulting order lists at most `n` cells carrying at most `e` references, so with the final
`for cell in reversed(post_order)` loop the whole call is `≤ 1 + 2n + e` steps. -/
theorem c19_order_total (g : Dag) (hg : g.WF) (root : Nat) (hr : root < g.length) :
    (orderRun g root).post.length ≤ g.length ∧ ((orderRun g root).post.map (deg g)).sum ≤ edges g ∧
      orderSteps g root ≤ 1 + 2 * g.length + edges g := by
  obtain ⟨_, h2, h3, h4⟩ := order_run g hg root hr
  refine ⟨h3, h4, ?_⟩
  simp only [orderSteps]; omega

/-- `Cell.to_boc(has_idx, hash_crc32, has_cache_bits)`: steps `≤ 5·(n+e) + 1 + len(output)` (the byte term is the
Python-level CRC loop; without `hash_crc32` it is not needed). -/
theorem c19_serialize_poly (g : Dag) (hg : g.WF) (root : Nat) (hr : root < g.length) (hasIdx hasCrc hasCache : Bool) :
    toBocSteps g root hasIdx hasCrc hasCache ≤ 5 * (g.length + edges g) + 1 + (toBoc g root hasIdx hasCrc hasCache).bytes :=
  toBoc_steps_le g hg root hr hasIdx hasCrc hasCache

/-- the quantity the measured tie of construction uses (`lines ≤ 60·hashWork + 100`) is linear: `hashWork = 4·(n + e)` -/
theorem c19_hash_work_closed (g : Dag) : hashWork g = 4 * (g.length + edges g) := hashWork_eq g

/-- CONSTRUCTING / HASHING a DAG: `Cell.__init__` (`resolve_mask` + `calculate_hashes`) is called once per distinct cell,
children first, and reads the referenced cells' cached masks / depths / hashes (it never descends).  With `lv v ≤ 4`
hashes per cell (level ≤ 3): loop iterations `≤ 4n + 9e` (`≤ 9/4 · hashWork`), bytes fed to SHA-256
`≤ 4·(descriptor+data bytes) + 136·(n + e)` — each hash is over `≤ 2 + 128 + 4·34` bytes.  Shared sub-DAGs cost nothing
extra: the sums range over distinct cells and references, not over paths (contrast `rehashCalls`, below). -/
theorem c19_build_linear (lv : Nat → Nat) (g : Dag) (h : ∀ v, lv v ≤ 4) :
    buildSteps lv g ≤ 4 * g.length + 9 * edges g ∧
    buildBytes lv g ≤ 4 * cellBytes g + 136 * (g.length + edges g) ∧
    4 * buildSteps lv g ≤ 9 * hashWork g := by
  have h1 := buildSteps_le lv g h
  have h2 := buildBytes_le lv g h
  have h3 := hashWork_eq g
  exact ⟨h1, h2, by omega⟩

/-- `Cell.from_boc(bs)` for EVERY byte string: the three loops of `Boc.deserialize` (over `cells_num`, reversed
`cells_num`, `root_list`) run at most `len(bs) + 1` iterations in total — a count field larger than the bytes that
follow is cut by a length check or by running out of bytes. -/
theorem c19_boc_parse (bs : Bytes) : (bocCost bs).outer ≤ bs.length + 1 := (bocCost_bound bs).2

/-- … and ALL loop iterations (header comprehensions over the size fields / root list / index, the Python CRC loop,
the three loops and their per-reference inner loops) are at most `3·len(bs) + 5`. -/
theorem c19_boc_parse_all (bs : Bytes) : bocParseSteps bs ≤ 3 * bs.length + 5 := (bocCost_bound bs).1

/-- dictionary parsing: the number of `parse` + `deserialize_hashmap_node` calls is at most twice the number of nodes of
the dictionary tree unfolded from the root cell (first two references of every cell) — whatever the labels say and
however much the cells are shared.  Interpretation: the bound is in the
size of the UNFOLDED tree, i.e. of the parser's output (a DAG-compressed dictionary with 2^k leaves has 2^k entries). -/
theorem c19_dict_parse (g : DDag) (fuel root : Nat) (keyLen : Int) :
    (dictCalls g fuel root keyLen).steps ≤ 2 * treeSize g fuel root := dictCalls_le g fuel root keyLen

/-- dictionary parsing, OUTPUT-BOUNDED reading made literal: a parse that returns made exactly `4·(entries + stops) − 2`
`parse` + `deserialize_hashmap_node` calls, where `entries` = leaves reached (= keys stored in the result) and `stops` =
edges ending in a non-ordinary (pruned / library) cell: the call tree is a full binary tree over them.  The work is
linear in what the parser produces plus the pruned edges it meets — NOT in the size of the input bag: forks that
reference the same child twice unfold (`sharedDict`: 4 cells, 8 entries), and over a pruned bottom the result is empty
while `stops = 2^depth` (`sharedPruned`). -/
theorem c19_dict_output (g : DDag) (fuel root : Nat) (keyLen : Int) (s : Nat)
    (h : dictCalls g fuel root keyLen = .done s) :
    s + 2 = 4 * ((dictOut g fuel root keyLen).1 + (dictOut g fuel root keyLen).2) :=
  dictCalls_out g fuel root keyLen s h

/-- … and ALL steps of the dictionary parser (calls + iterations of the unary-label loop) are at most `1 + B` times the
calls when no cell has more than `B` bits (`B ≤ 1023`), with the same outcome (returned / raised): for a parse that
returns, steps `≤ (1 + B)·(4·(entries + stops) − 2)`. -/
theorem c19_dict_total (g : DDag) (B : Nat) (hB : ∀ nd ∈ g, nd.bits.length ≤ B) (fuel root : Nat) (keyLen : Int) (s : Nat)
    (h : dictParse g fuel root keyLen = .done s) :
    s + 2 * (1 + B) ≤ (1 + B) * (4 * ((dictOut g fuel root keyLen).1 + (dictOut g fuel root keyLen).2)) := by
  have hr := dictParse_rel g B hB fuel root keyLen
  rw [h] at hr
  cases hc : dictCalls g fuel root keyLen with
  | oof => rw [hc] at hr; exact hr.elim
  | raised c => rw [hc] at hr; exact hr.elim
  | done c =>
    rw [hc] at hr
    simp only [DRel] at hr
    have ho := dictCalls_out g fuel root keyLen c hc
    rw [← ho]
    have e : (1 + B) * (c + 2) = c * (1 + B) + 2 * (1 + B) := by
      rw [Nat.mul_comm, Nat.add_mul]
    omega

/-- the `deserialize_unary` loop of a label never runs more iterations than the cell has bits (≤ 1023) -/
theorem c19_dict_label (bits : Bits) (m : Int) : (readLabel bits m).2 ≤ bits.length := readLabel_iters bits m

/-- repaired behaviour (`{n <= m}` of hashmap.tlb): `deserialize_hml` returns a label only if it is not longer than the remaining
key (which therefore was not negative), and raises — after the work it had done anyway, nothing more — on a label that is. -/
theorem c19_dict_label_fits (bits : Bits) (m : Int) :
    (∀ n it, readLabel bits m = (some n, it) → (n : Int) ≤ m ∧ 0 ≤ m) ∧
    (∀ n it, readLabelRaw bits m = (some n, it) → m < (n : Int) → readLabel bits m = (none, it)) :=
  ⟨fun n it h => ⟨readLabel_le h, by have := readLabel_le h; omega⟩, fun _ _ h hgt => readLabel_too_long h hgt⟩

/-- DEPTH ≤ KEY LENGTH.  Since a label longer than the remaining key is refused, the remaining key length is never negative
inside a parse and every level of the `parse` → `deserialize_hashmap_node` → `parse` recursion consumes at least the fork
bit.  For EVERY cell graph (any sharing; the node list may even be cyclic), root and key length `n ≥ 0`: recursion depth
`n + 1` suffices (the model with fuel `n + 1` does not run out, and more fuel gives the same result), the calls number at most
`2^(n+2) − 2` whatever the graph, and with a negative key length the first label read raises (≤ 1 call, no recursion).
Before the repair a label longer than the key sent the remaining length below 0, where it never met a leaf: the depth was
bounded only by the depth of the bag, and shared forks below were walked `2^depth` times for an empty result. -/
theorem c19_dict_depth_le_keylen (g : DDag) (root n : Nat) :
    dictParse g (n + 1) root n ≠ .oof ∧ dictCalls g (n + 1) root n ≠ .oof ∧
    (∀ d, dictParse g (n + 1 + d) root n = dictParse g (n + 1) root n ∧
          dictCalls g (n + 1 + d) root n = dictCalls g (n + 1) root n) ∧
    (∀ f, (dictCalls g f root n).steps + 2 ≤ 2 ^ (n + 2)) ∧
    (∀ (f : Nat) (k : Int), k < 0 → ∃ s, dictParse g (f + 1) root k = .raised s ∧ dictCalls g (f + 1) root k = .raised (min s 1)) := by
  have h1 := dictParse_no_oof g (n + 1) root n (by omega) (by omega)
  have h2 := dictCalls_no_oof g (n + 1) root n (by omega) (by omega)
  refine ⟨h1, h2, fun d => ⟨dictParse_fuel_le g _ _ _ h1 d, dictCalls_fuel_le g _ _ _ h2 d⟩, ?_, ?_⟩
  · intro f
    have := dictCalls_le_keylen g f root (n : Int)
    simpa using this
  · intro f k hk
    exact dictParse_neg g f root k hk

/-- TL `bytes` re-parse loop (`while j < byte_len`): for ANY inner parser that returns advance 0 on empty input, the
loop ends within `len(content) - j + 1` iterations, whatever `byte_len` declares (each iteration advances by ≥ 1 byte
or breaks; past the end of the content the slice is empty). -/
theorem c19_tl_reparse_loop (r : Bytes → Tl.Res) (hr : ∀ b, r b ≠ .oof) (h0 : ∀ adv s, r [] = .ok adv s → adv = 0)
    (c : Bytes) (byteLen j s : Nat) : Tl.reparseLoop r c byteLen (c.length - j + 1) j s ≠ .oof :=
  reparse_no_oof r hr h0 c byteLen _ j s (Nat.le_refl _)

/-- TL vector loop with the guard of the F16 repair: a declared length larger than the remaining input raises before
the first iteration, so a vector field iterates at most `len(data) - i - 4` times.  (Before the repair 110bf4a the loop
had no guard: `Tl.vecItersUnfixed declared = declared` — 2^22 iterations over 0 bytes, F16.) -/
theorem c19_tl_vector_guard (rec : Bytes → Option Nat → Tl.Res) (data : Bytes) (i : Nat) (elem : Option Nat)
    (h : data.length < i + 4 + Tl.natOfLE (sl data i (i + 4))) :
    Tl.fieldStep rec data i (.vec elem) = .raised 0 true := by
  simp [Tl.fieldStep, h]

/-- every `oof` (out of fuel) of the TL model is an exhaustion of the recursion-DEPTH fuel — none of the loops (fields,
vector, re-parse) can run out of its own fuel, for every table with non-empty ids and every input.  (Superseded by
`c19_tl_total`, which also bounds the depth; kept because it needs no side condition on bare references.) -/
theorem c19_tl_fuel_partial (tbl : Tl.Table) (h : IdsNonempty tbl) (f : Nat) (data : Bytes) (mode : Option Nat)
    (ho : Tl.deser tbl (f + 1) data mode = .oof) : ∃ b m, Tl.deser tbl f b m = .oof :=
  oof_from_depth tbl h f data mode ho

/-- TOTAL WORK of `TlSchemas.deserialize(data)` / `deserialize(data, False, schema.args)`: for EVERY schema table whose
constructor ids have 4 bytes (`Ids4`) and whose bare references form no cycle (`NoBareCycle tbl R`: chains of at most
`R` bare references; both decidable), EVERY byte string and boxed or bare start, the model with recursion-depth fuel
`tlFuel R len = (len/4 + 1)(R + 2)` (or more) never runs out of fuel, and the number of steps (calls + field-loop +
vector-loop + re-parse-loop iterations) is at most `tlK tbl R · (len + 1)²` — a function of the input LENGTH and of a
table constant only, never of a declared vector length or bytes length read from the input.
(Depth: a recognised boxed object consumed its 4-byte id; between two boxed levels there are ≤ R+1 bare levels.  Sum:
every call does ≤ a + w·(bytes it consumed) steps with `w = (len+1)·K`; vectors are paid by their 4-byte length word
because the guard of the F16 repair bounds the declared length by the remaining bytes; the re-parse loop consumes
disjoint parts of the content.  The square is real: elements of a vector may consume nothing, see `quadTable` below.) -/
theorem c19_tl_total (tbl : Tl.Table) (hid : Tl.Ids4 tbl) (R : Nat) (hc : Tl.NoBareCycle tbl R) (data : Bytes)
    (mode : Option Nat) (f : Nat) (hf : Tl.tlFuel R data.length ≤ f) :
    Tl.deser tbl f data mode ≠ .oof ∧
    (Tl.deser tbl f data mode).steps ≤ Tl.tlK tbl R * ((data.length + 1) * (data.length + 1)) :=
  TonVerif.Proofs.CostTl.deser_total tbl hid R hc data mode f hf

/-- the side conditions hold for the schema table bundled with the library (829 rows, regenerated from
`pytoniq_core/tl/schemas/*.tl` on every run): ids have ≥ 4 bytes, bare references nest at most 4 deep, no cycle. -/
theorem c19_tl_bundled_table : Tl.Ids4 Generated.TlCost.table ∧ Tl.NoBareCycle Generated.TlCost.table 4 := by
  decide +kernel

/-- … so for the bundled table the bound holds for every byte string, unconditionally. -/
theorem c19_tl_total_bundled (data : Bytes) (mode : Option Nat) :
    Tl.deser Generated.TlCost.table (Tl.tlFuel 4 data.length) data mode ≠ .oof ∧
    (Tl.deser Generated.TlCost.table (Tl.tlFuel 4 data.length) data mode).steps ≤
      Tl.tlK Generated.TlCost.table 4 * ((data.length + 1) * (data.length + 1)) :=
  c19_tl_total _ c19_tl_bundled_table.1 4 c19_tl_bundled_table.2 data mode _ (Nat.le_refl _)

/-- the table `a x:a = A;` (a bare reference to itself) -/
def cyclicTable : Tl.Table := [⟨[1, 2, 3, 4], [⟨none, .sub (some 0)⟩]⟩]

/-- the side condition `NoBareCycle` is necessary: on a table with a bare cycle the bare parse of the EMPTY input never
returns, whatever the fuel (in Python: unbounded recursion, ended by RecursionError).  Only reachable with a
user-supplied table — the bundled one has no such cycle (`c19_tl_bundled_table`). -/
theorem c19_tl_bare_cycle_diverges (f : Nat) : Tl.deser cyclicTable f [] (some 0) = .oof := by
  induction f with
  | zero => rfl
  | succ n ih =>
    simp only [Tl.deser, Tl.deserLevel, Tl.fieldsOf, cyclicTable, List.getElem?_cons_zero, Tl.bareFields, List.map_cons,
      List.map_nil, Tl.fieldsLoop, Tl.fieldStep, List.drop_nil]
    simp only [cyclicTable] at ih
    rw [ih]

/-! ## Non-vacuity and concrete instances -/

/-- chain of 3 cells each referencing the same child twice, on a leaf -/
def chain3 : Dag := [⟨3, []⟩, ⟨3, [0, 0]⟩, ⟨3, [1, 1]⟩, ⟨3, [2, 2]⟩]
/-- a diamond: 3 → (1, 2) → 0 -/
def diamond : Dag := [⟨3, []⟩, ⟨4, [0]⟩, ⟨4, [0]⟩, ⟨5, [1, 2]⟩]

example : chain3.WF := by
  intro v c h
  match v with
  | 0 | 1 | 2 | 3 => simp [kidsOf, chain3] at h <;> simp [chain3] <;> omega
  | n+4 => simp [kidsOf, chain3] at h
example : diamond.WF := by
  intro v c h
  match v with
  | 0 | 1 | 2 | 3 => simp [kidsOf, diamond] at h <;> simp [diamond] <;> omega
  | n+4 => simp [kidsOf, diamond] at h

/-- the bound is attained: 1 + n + e = 1 + 4 + 6 iterations; the recursive code before fix 563b428 made 2^4 - 1 calls -/
example : orderVisits chain3 3 = 11 ∧ 1 + chain3.length + edges chain3 = 11 ∧ oldOrderCalls chain3 4 3 = 15 := by decide
example : (orderRun diamond 3).post = [3, 1, 2, 0] ∧ orderVisits diamond 3 = 9 := by decide

/-- construction of `chain3` (4 cells, 6 references): 4 constructor calls, 22 loop iterations, ≤ 340 hashed bytes with one
hash per cell; 70 iterations at 4 hashes per cell = the bound `4n + 9e`; hashing without the cache would make
`2^4 - 1 = 15` constructor calls -/
example : buildSteps (fun _ => 1) chain3 = 22 ∧ buildBytes (fun _ => 1) chain3 = 340 ∧ buildSteps (fun _ => 4) chain3 = 70 ∧
    4 * chain3.length + 9 * edges chain3 = 70 ∧ hashWork chain3 = 40 ∧ rehashCalls chain3 4 3 = 15 := by decide

/-- a 14-byte bag claiming 255 cells over a 3-byte body: the cells loop stops after 2 iterations -/
example : (bocCost [0xb5, 0xee, 0x9c, 0x72, 0x01, 0x01, 0xff, 0x01, 0x00, 0x03, 0x00, 0x00, 0x02, 0xaa]).loop1 = 2 := by decide
/-- claiming 255 roots: rejected by the length check before any root is read -/
example : (bocCost [0xb5, 0xee, 0x9c, 0x72, 0x01, 0x01, 0x01, 0xff, 0x00, 0x03, 0x00, 0x00, 0x02, 0xaa]).total = 3 := by decide

/-- maximal sharing in a dictionary: 3 forks referencing the same child twice unfold to 15 nodes = 30 calls -/
def sharedDict : DDag := [⟨[false, false], [], true⟩, ⟨[false, false], [0, 0], true⟩, ⟨[false, false], [1, 1], true⟩,
  ⟨[false, false], [2, 2], true⟩]
example : dictCalls sharedDict 5 3 3 = .done 30 ∧ treeSize sharedDict 5 3 = 15 := by decide
example : dictOut sharedDict 5 3 3 = (8, 0) ∧ dictParse sharedDict 5 3 3 = .done 30 := by decide
example : ∀ nd ∈ sharedDict, nd.bits.length ≤ 2 := by decide

/-- the same forks over a non-ordinary bottom cell: the result is EMPTY (0 entries) after the same 30 calls — 8 pruned
edges.  With 30 forks instead of 3 (a bag of ≈ 250 bytes): 2^30 pruned edges, no output. -/
def sharedPruned : DDag := [⟨[false, false], [], false⟩, ⟨[false, false], [0, 0], true⟩, ⟨[false, false], [1, 1], true⟩,
  ⟨[false, false], [2, 2], true⟩]
example : dictCalls sharedPruned 5 3 9 = .done 30 ∧ dictOut sharedPruned 5 3 9 = (0, 8) := by decide

/-- the same forks under a root whose `hml_same` label announces 5 bits at key length 4 (`11 0 101`; the pre-repair parser walked
the 15 nodes below with remaining length −1, −2, …: 32 calls, empty result): refused by the first label read, 1 call -/
def sharedOver : DDag := sharedPruned ++ [⟨[true, true, false, true, false, true], [3, 3], true⟩]
example : readLabelRaw [true, true, false, true, false, true] 4 = (some 5, 0) := by decide +kernel
example : dictParse sharedOver 6 4 4 = .raised 1 ∧ dictCalls sharedOver 6 4 4 = .raised 1 ∧ dictOut sharedOver 6 4 4 = (0, 0) := by decide +kernel
/-- `c19_dict_depth_le_keylen` on a CYCLIC node list (node 0 references itself twice, empty labels): key length 3 ends after 4
levels = 30 calls with fuel 4, where the leaf level is reached -/
def loopDict : DDag := [⟨[false, false], [0, 0], true⟩]
example : dictCalls loopDict 4 0 3 = .done 30 ∧ dictCalls loopDict 9 0 3 = .done 30 ∧ 30 + 2 ≤ 2 ^ (3 + 2) := by decide

/-- `NoBareCycle` separates the two tables -/
example : ¬ Tl.NoBareCycle cyclicTable 7 := by decide

/-- the square is attained (up to the constant): `s v:(vector e) = S; e = E; b x:bytes = B;` — a vector of a bare type
without fields passes the guard with `length ≤ remaining bytes` and iterates `length` times consuming nothing; a `bytes`
field whose content is a row of `k` such 8-byte objects, the j-th declaring `8(k-1-j)` elements (= the bytes after it),
is re-parsed at every 8th offset.  Doubling the input (48 → 88 → 168 bytes) quadruples the steps (176 → 751 → 3101);
the bound of `c19_tl_total` for this table is `8·(len+1)²`. -/
def quadTable : Tl.Table := [⟨[1, 0, 0, 0], [⟨none, .vec (some 1)⟩]⟩, ⟨[2, 0, 0, 0], []⟩, ⟨[3, 0, 0, 0], [⟨none, .bytes true⟩]⟩]
def quadInput (k : Nat) : Bytes :=
  [3, 0, 0, 0, 8 * k] ++ (List.range k).flatMap (fun j => [1, 0, 0, 0, 8 * (k - 1 - j), 0, 0, 0]) ++ [0, 0, 0]
example : Tl.Ids4 quadTable ∧ Tl.NoBareCycle quadTable 1 ∧ Tl.tlK quadTable 1 = 8 := by decide
example : (quadInput 5).length = 48 ∧ Tl.deser quadTable (Tl.tlFuel 1 48) (quadInput 5) none = .ok 48 176 := by decide +kernel
example : (quadInput 10).length = 88 ∧ Tl.deser quadTable (Tl.tlFuel 1 88) (quadInput 10) none = .ok 88 751 := by decide +kernel
example : (quadInput 20).length = 168 ∧ Tl.deser quadTable (Tl.tlFuel 1 168) (quadInput 20) none = .ok 168 3101 := by
  decide +kernel

/-- TL: one schema `a:(vector boxed)`; declared length 2^22 over 0 bytes is rejected by the guard in 2 steps -/
def tlTable : Tl.Table := [⟨[1, 2, 3, 4], [⟨none, .vec none⟩]⟩]
example : IdsNonempty tlTable := by intro s hs; simp [tlTable] at hs; subst hs; simp
example : Tl.Ids4 tlTable ∧ Tl.NoBareCycle tlTable 0 := by decide
example : Tl.deser tlTable 3 [1, 2, 3, 4, 0, 0, 64, 0] none = .raised 2 true := by decide

/-! ## Source-regenerated TL framing and vector guard (`Generated/TlFraming.lean`: re-translated from tl/generator.py on every run;
the same definitions serve C14) -/
section Src
open TonVerif.Proofs.SrcArith2 TonVerif.Proofs.SrcTl
set_option linter.unusedSimpArgs false

/-- the model's slices and little-endian reader are the translator's readings of `data[a:b]` and `int.from_bytes(.., 'little')`. -/
theorem c19_src_tl_primitives (bs : Bytes) (a b : Nat) :
    sl bs a b = Py.slice bs a b ∧ Tl.natOfLE bs = Py.fromBytes false bs := by
  simp [sl, Py.slice, Tl.natOfLE, Py.fromBytes]

/-- the vector step of the cost model (what `c19_tl_vector_guard`, `c19_tl_total` are proved about) raises by exactly the
regenerated guard of fix 110bf4a — `length > len(data) - i` over Python ints, evaluated after `i += 4`: it fires for EVERY declared
length that exceeds the bytes remaining behind the 4-byte count, also when the count itself was read past the end. -/
theorem c19_src_tl_vector_guard (rec : Bytes → Option Nat → Tl.Res) (data : Bytes) (i : Nat) (elem : Option Nat) :
    Generated.tlVecTooLong_sideOk (Tl.natOfLE (sl data i (i + 4))) data.length ((i : Int) + 4) ∧
    Tl.fieldStep rec data i (.vec elem) =
      (if Generated.tlVecTooLong (Tl.natOfLE (sl data i (i + 4))) data.length ((i : Int) + 4) then .raised 0 true
       else Tl.vecLoop (fun b => rec b elem) data (Tl.natOfLE (sl data i (i + 4))) (i + 4) 0) := by
  refine ⟨by simp only [Generated.tlVecTooLong_sideOk] <;> src_prop, ?_⟩
  have hg : ∀ n : Nat, Generated.tlVecTooLong n data.length ((i : Int) + 4) = decide (data.length < i + 4 + n) := by
    intro n; simp only [Generated.tlVecTooLong, decide_eq_decide] <;> omega
  simp only [Tl.fieldStep, hg, decide_eq_true_eq]

/-- the bytes step of the cost model (no re-parse) ends at exactly the offset the regenerated header and skip arithmetic compute:
long/short form by the `FE` byte, 3-byte / 1-byte little-endian length, 4-byte alignment counted from the header. -/
theorem c19_src_tl_bytes_skip (rec : Bytes → Option Nat → Tl.Res) (data : Bytes) (i : Nat) :
    Tl.fieldStep rec data i (.bytes false) =
      .ok (Generated.tlSkip (Generated.tlHdrNext data i) (Generated.tlHdrLen data i) (Generated.tlHdrAttach data i)) 0 := by
  have hs := fun a b => (c19_src_tl_primitives data a b).1
  have hn := fun bs => (c19_src_tl_primitives bs 0 0).2
  simp only [Tl.fieldStep, hs, hn, Generated.tlSkip, Generated.tlHdrNext, Generated.tlHdrLen, Generated.tlHdrAttach,
    Bool.not_false, if_true, beq_iff_eq, bne_iff_ne, ne_eq]
  by_cases h : Py.slice data i (i + 1) = [254]
  · simp only [h, if_true] <;> src_close
  · simp only [h, if_false] <;> src_close

/-- concrete: a declared vector length of 2^22 over 4 bytes of input fires the guard; the bytes field `05 h e l l o 00 00` at
offset 0 ends at 8. -/
example : Generated.tlVecTooLong (2 ^ 22) 4 4 = true ∧ Generated.tlVecTooLong 0 4 4 = false ∧
    Generated.tlSkip (Generated.tlHdrNext [5, 104, 101, 108, 108, 111, 0, 0] 0) (Generated.tlHdrLen [5, 104, 101, 108, 108, 111, 0, 0] 0)
      (Generated.tlHdrAttach [5, 104, 101, 108, 108, 111, 0, 0] 0) = 8 := by decide

end Src
/-! ## the BoC parser whose loops `bocCost` counts, on the working tree (regenerated from the source on every run) -/

/-- SOURCE TIE of the parser whose work `c19_boc_parse` / `c19_boc_parse_all` bound: `Generated.BocCells.deserialize` is
regenerated on every run from `Boc.deserialize` / `deserialize_cell` / `deserialize_boc_header` (C05: `c05_src_deserialize`).
Its three loops are `Py.loop?` over `range(cells_num)`, `reversed(range(cells_num))` and `root_list` - a `Py.loop?` runs its
body at most once per element - with one inner loop over the references of the current record, and it is equal, for every byte
list and every constructor, to the hand model `Model.BocParse.deserialize` whose recursions (`readCells` on `cells_num`,
`rebuildFrom` on the records, `mapM` on the root list) `Model/Cost.lean`'s `bocCost` transcribes as counters.
NOT proved: that the counters of `bocCost` are the iteration counts of these loops (the cost model is an independent
transcription; its tie stays the measured line-count inequality). -/
theorem c19_src_parse {R : Type} (mk : Bits → List R → Int → Option R) (data : Bytes) :
    Generated.BocCells.deserialize data (Generated.BocCells.liftMk mk) = (Model.BocParse.deserialize mk data).map (·.map some) :=
  TonVerif.Proofs.SrcBocDeser.src_deserialize_eq mk data

/-- iterations a translated loop (`Py.loop?`) starts, counting one that raises or breaks. -/
def loopIters {ι σ : Type} : List ι → σ → (ι → σ → Option (σ × Bool)) → Nat
  | [], _, _ => 0
  | x :: xs, s, f => match f x s with
    | none => 1
    | some r => if r.2 then 1 else 1 + loopIters xs r.1 f

/-- a translated `for` loop starts at most one iteration per element of the iterated list, whatever its body does. -/
theorem c19_src_loop_iterations {ι σ : Type} (f : ι → σ → Option (σ × Bool)) :
    ∀ (xs : List ι) (s : σ), loopIters xs s f ≤ xs.length := by
  intro xs
  induction xs with
  | nil => intro s; simp [loopIters]
  | cons x xs ih =>
    intro s
    unfold loopIters
    cases h : f x s with
    | none => simp
    | some r =>
      simp only []
      split
      · simp
      · have := ih r.1; simp; omega

example : loopIters [1, 2, 3] 0 (fun x s => if x = 2 then some (s, true) else some (s + x, false)) = 2 := by decide

/-! ## BEGIN c19src — the ITERATION-COUNTING copy of the regenerated BoC parser (`Generated.BocCnt`, harness/translate/boccnt.py)

`Generated.BocCnt.deserialize_cnt` is the text of `Generated.BocCells.deserialize` / `deserialize_cell` (regenerated from deserialize.py on every
run) in the counting writer `Py.W`: every `Py.loop?` is a `Py.loopW? k` that ticks counter `k` once per iteration started.  Counters on the
current source: 5 `for ci in range(cells_num)`, 0 `for r in range(total_refs)` (inside `deserialize_cell`), 3 `for ci in reversed(range(cells_num))`,
4 `for ri in range(len(c['refs']))`, 2 `for ri in header['root_list']`, 1 the completion-tag search `for j in range(-1, -8, -1)`. -/
section SrcBocCnt
open TonVerif.Generated.BocCnt

/-- ERASURE: the counting copy computes exactly the value of the regenerated `Boc.deserialize`, for every byte string and every constructor
callback - so the copy is not trusted for values; what is read off its text is only which loop ticks which counter (and that placement is
validated against CPython line events on every change). -/
theorem c19_src_boc_erase {R : Type} (data : Bytes) (cls : Bits → List (Option R) → Int → Option R) :
    (deserialize_cnt data cls).1 = Generated.BocCells.deserialize data cls :=
  TonVerif.Proofs.SrcBocCnt.deserialize_cnt_erase data cls

/-- BRIDGE to the cost model: for EVERY byte string and callback the iteration counts of the regenerated loops never exceed `bocCost`'s counters
`loop1 / refs1 / loop2 / refs2 / loop3`, nothing else ticks but the completion-tag search, and when the parse RETURNS they are EQUAL.
(They can be smaller when the parse raises for a reason the cost model does not follow - exotic cell without type byte, reference order, the
callback: the upper-bound convention of Model/Cost.lean.)  So `c19_boc_parse` / `c19_boc_parse_all` are statements about the loops as written. -/
theorem c19_src_boc_counters {R : Type} (data : Bytes) (cls : Bits → List (Option R) → Int → Option R) :
    ((deserialize_cnt data cls).2 5 ≤ (bocCost data).loop1 ∧ (deserialize_cnt data cls).2 0 ≤ (bocCost data).refs1 ∧
     (deserialize_cnt data cls).2 3 ≤ (bocCost data).loop2 ∧ (deserialize_cnt data cls).2 4 ≤ (bocCost data).refs2 ∧
     (deserialize_cnt data cls).2 2 ≤ (bocCost data).loop3 ∧ ∀ k, 6 ≤ k → (deserialize_cnt data cls).2 k = 0) ∧
    ((Generated.BocCells.deserialize data cls).isSome →
     (deserialize_cnt data cls).2 5 = (bocCost data).loop1 ∧ (deserialize_cnt data cls).2 0 = (bocCost data).refs1 ∧
     (deserialize_cnt data cls).2 3 = (bocCost data).loop2 ∧ (deserialize_cnt data cls).2 4 = (bocCost data).refs2 ∧
     (deserialize_cnt data cls).2 2 = (bocCost data).loop3) :=
  TonVerif.Proofs.SrcBocCnt.src_boc_bridge data cls

/-- `Cell.from_boc(bs)` AS WRITTEN, for EVERY byte string: the three loops of the regenerated `Boc.deserialize` start at most `len(bs) + 1`
iterations together - a count field (`cells_num`, `roots_num`) larger than the bytes that follow is cut by a length check or by running out
of bytes, never by the count alone - and all five loops (with the reference loops of `deserialize_cell` and of the second loop) at most
`3·len(bs) + 5`. -/
theorem c19_src_boc_parse {R : Type} (data : Bytes) (cls : Bits → List (Option R) → Int → Option R) :
    (deserialize_cnt data cls).2 5 + (deserialize_cnt data cls).2 3 + (deserialize_cnt data cls).2 2 ≤ data.length + 1 ∧
    (deserialize_cnt data cls).2 5 + (deserialize_cnt data cls).2 0 + (deserialize_cnt data cls).2 3 + (deserialize_cnt data cls).2 4
      + (deserialize_cnt data cls).2 2 ≤ 3 * data.length + 5 := by
  obtain ⟨⟨h5, h0, h3, h4, h2, _⟩, _⟩ := c19_src_boc_counters data cls
  have b1 := c19_boc_parse data
  have b2 := c19_boc_parse_all data
  simp only [BocCost.outer, bocParseSteps, BocCost.total] at b1 b2
  constructor <;> omega

/-- non-vacuity: a 14-byte bag that declares 255 cells over 2 bytes of cell data: the first loop starts 2 iterations (the second one runs out
of bytes), no other loop runs; and a valid one-cell bag (cell `00 00`... one root): loops 1, 2, 3 run once each and the parse returns. -/
example : ((deserialize_cnt (R := Unit) [0xb5, 0xee, 0x9c, 0x72, 0x01, 0x01, 0xff, 0x01, 0x00, 0x02, 0x00, 0x00, 0x00] (fun _ _ _ => some ())).2 5,
           (deserialize_cnt (R := Unit) [0xb5, 0xee, 0x9c, 0x72, 0x01, 0x01, 0xff, 0x01, 0x00, 0x02, 0x00, 0x00, 0x00] (fun _ _ _ => some ())).2 3)
    = (2, 0) := by decide
example : ((deserialize_cnt (R := Unit) [0xb5, 0xee, 0x9c, 0x72, 0x01, 0x01, 0x01, 0x01, 0x00, 0x02, 0x00, 0x00, 0x00] (fun _ _ _ => some ())).1.isSome,
           (deserialize_cnt (R := Unit) [0xb5, 0xee, 0x9c, 0x72, 0x01, 0x01, 0x01, 0x01, 0x00, 0x02, 0x00, 0x00, 0x00] (fun _ _ _ => some ())).2 5,
           (deserialize_cnt (R := Unit) [0xb5, 0xee, 0x9c, 0x72, 0x01, 0x01, 0x01, 0x01, 0x00, 0x02, 0x00, 0x00, 0x00] (fun _ _ _ => some ())).2 3,
           (deserialize_cnt (R := Unit) [0xb5, 0xee, 0x9c, 0x72, 0x01, 0x01, 0x01, 0x01, 0x00, 0x02, 0x00, 0x00, 0x00] (fun _ _ _ => some ())).2 2)
    = (true, 1, 1, 1) := by decide

end SrcBocCnt
/-! ## END c19src -/

/-! ## the EMITTER's loops on the working tree (`Generated.BocEmitSrc`: `Cell.order`, `Cell.to_boc`, `Cell.serialize` regenerated from
cell.py on every run) -/
section SrcEmit
open TonVerif.Proofs.BocOrder TonVerif.Generated.BocEmitSrc

/-- iterations a translated `while` loop (`Py.while?`) performs in a run that returns -/
def whileIters {σ : Type} (cond : σ → Bool) (body : σ → Option σ) : Nat → σ → Option Nat
  | 0, _ => none
  | fuel + 1, s => if cond s then (body s).bind fun s' => (whileIters cond body fuel s').map (· + 1) else some 0

/-- the reading of the iteration budget: a run of a translated `while` loop that returns with budget `fuel` performed at most
`fuel - 1` iterations (one unit is spent on seeing the condition fail) -/
theorem c19_src_while_iterations {σ : Type} (cond : σ → Bool) (body : σ → Option σ) :
    ∀ (fuel : Nat) (s s' : σ), Py.while? cond body fuel s = some s' → ∃ k, whileIters cond body fuel s = some k ∧ k + 1 ≤ fuel
  | 0, _, _, h => by simp [Py.while?] at h
  | fuel + 1, s, s', h => by
    unfold Py.while? at h
    unfold whileIters
    by_cases hc : cond s = true
    · simp only [hc, if_true] at h ⊢
      cases hb : body s with
      | none => rw [hb] at h; cases h
      | some s1 =>
        rw [hb, Option.bind_some] at h
        obtain ⟨k, hk, hle⟩ := c19_src_while_iterations cond body fuel s1 s' h
        exact ⟨k + 1, by simp [hk], by omega⟩
    · simp only [hc, Bool.false_eq_true, if_false]
      exact ⟨0, rfl, by omega⟩

theorem nodup_of_nodup_map {α : Type} (f : α → Nat) : ∀ (l : List α), (l.map f).Nodup → l.Nodup
  | [], _ => List.nodup_nil
  | x :: xs, h => by
    rw [List.map_cons, List.nodup_cons] at h
    rw [List.nodup_cons]
    exact ⟨fun hx => h.1 (List.mem_map_of_mem hx), nodup_of_nodup_map f xs h.2⟩

/-- **C19 for the REGENERATED `Cell.order`**: on EVERY DAG of cell objects — `cells` lists the distinct sub-cells of the root
(`n = cells.length`, carrying `e = Σ len(cell.refs)` references; any sharing, the same child referenced several times) — the
regenerated `while stack:` loop ends within `1 + n + e` iterations: with the iteration budget `1 + n + e + 1` (one unit to see
`stack` empty, `c19_src_while_iterations`) the function returns.  Every cell is expanded once (visited set), every reference
pushed once, every entry popped once: the proof is a potential argument over the regenerated loop itself
(Proofs/SrcOrderAny.lean `step_inv`: stack length + Σ over unvisited cells of `1 + references` drops by ≥ 1 per iteration), for
whichever order the references are pushed in.  `NoCollision`: equal hashes mean equal cells among the cells at hand. -/
theorem c19_src_order_linear (p : PCell) (nc : NoCollision p) (cells : List PCell) (hn : (cells.map PCell.key).Nodup)
    (hc : ∀ d ∈ subcells p, d ∈ cells) (fuel : Nat)
    (hf : 1 + cells.length + (cells.map (fun c => c.refs.length)).sum + 1 ≤ fuel) :
    ∃ d, order fuel p [] = some d ∧ ValidOrder p (Py.dictKeys d) := by
  obtain ⟨d, hd⟩ := Proofs.SrcOrderAny.src_order_linear fuel p nc cells hn hc hf
  exact ⟨d, hd, (Proofs.SrcOrderAny.src_order_valid_any fuel p d nc hd).1⟩

/-- steps of the regenerated `Cell.to_boc` when the traversal returned the key list `keys` and the call returned `out` bytes:
the `while stack:` loop (≤ its budget − 1), `for cell in reversed(post_order)` and the `enumerate` comprehension (one per key),
`for cell in ordered_cells` with `for ref in self.refs` of `Cell.serialize` inside (one per key + one per reference),
`for l in serialized_cells_len` (one per key, with the index), the Python-level CRC loop (one per byte before the checksum) -/
def srcToBocSteps (whileIterations : Nat) (keys : List PCell) (o : Opts) (out : Nat) : Nat :=
  whileIterations + keys.length + keys.length + (keys.map (fun c => 1 + c.refs.length)).sum +
    (if o.hasIdx then keys.length else 0) + (if o.hasCrc then out - 4 else 0)

/-- **C19 for the REGENERATED `Cell.to_boc`** (PARTIAL: the `while` bound is proved about the regenerated loop; the `for` loops are
counted by the lengths of the lists they iterate, read off the equality `c04_src_to_boc_any` with the order-agnostic layout
`flattenCells` / `emit`, not by an instrumented translation).  With the budget `1 + n + e + 1` the regenerated traversal returns
a valid order `keys` of exactly the `n` distinct cells, the regenerated `to_boc` IS the lookup + layout of these keys (it raises
or returns without running out of budget), and for every output the steps are `≤ 5·(n + e) + 1 + len(output)`. -/
theorem c19_src_serialize_poly (p : PCell) (nc : NoCollision p) (cells : List PCell) (hn : (cells.map PCell.key).Nodup)
    (hc : ∀ d ∈ subcells p, d ∈ cells) (hs : ∀ c ∈ cells, c ∈ subcells p) (o : Opts) :
    ∃ d, order (1 + cells.length + (cells.map (fun c => c.refs.length)).sum + 1) p [] = some d ∧
      to_boc (1 + cells.length + (cells.map (fun c => c.refs.length)).sum + 1) p o.hasIdx o.hasCrc o.hasCache o.flags =
        (flattenCells (indexMap (Py.dictKeys d)) (Py.dictKeys d)).bind (emit · o) ∧
      (Py.dictKeys d).length = cells.length ∧
      ((Py.dictKeys d).map (fun c => c.refs.length)).sum = (cells.map (fun c => c.refs.length)).sum ∧
      ∀ out, srcToBocSteps (1 + cells.length + (cells.map (fun c => c.refs.length)).sum) (Py.dictKeys d) o out ≤
        5 * (cells.length + (cells.map (fun c => c.refs.length)).sum) + 1 + out := by
  obtain ⟨d, hd, vo⟩ := c19_src_order_linear p nc cells hn hc _ (Nat.le_refl _)
  have hperm : (Py.dictKeys d).Perm cells := by
    apply (List.perm_ext_iff_of_nodup (nodup_of_nodup_map _ _ vo.nodup) (nodup_of_nodup_map _ _ hn)).2
    intro a
    constructor
    · intro ha; exact hc a (vo.sound a ha)
    · intro ha
      obtain ⟨y, hy, hyk⟩ := List.mem_map.1 (vo.complete a (hs a ha))
      rw [← nc y (vo.sound y hy) a (hs a ha) hyk]; exact hy
  have hlen := hperm.length_eq
  have hsum : ((Py.dictKeys d).map (fun c => c.refs.length)).sum = (cells.map (fun c => c.refs.length)).sum :=
    (hperm.map _).sum_nat
  refine ⟨d, hd, (Proofs.SrcBocAny.src_toBoc_any _ p d nc hd o.hasIdx o.hasCrc o.hasCache o.flags).2, hlen, hsum, ?_⟩
  intro out
  have h1 : ((Py.dictKeys d).map (fun c => 1 + c.refs.length)).sum =
      (Py.dictKeys d).length + ((Py.dictKeys d).map (fun c => c.refs.length)).sum := by
    generalize Py.dictKeys d = l
    induction l with
    | nil => rfl
    | cons a l ih => simp only [List.map_cons, List.sum_cons, List.length_cons, ih]; omega
  unfold srcToBocSteps
  rw [h1, hlen, hsum]
  split <;> split <;> omega

/-- non-vacuity: the diamond (root → m1, m2 → shared leaf: 4 cells, 4 references) meets the hypotheses; budget 10 -/
example : ∃ d, order 10 Example.root [] = some d ∧ ValidOrder Example.root (Py.dictKeys d) := by
  refine c19_src_order_linear Example.root Example.noCollision [Example.root, Example.m1, Example.m2, Example.leaf] ?_ ?_ 10 ?_
  · obtain ⟨k1, k2, k3, k4⟩ := Example.keys
    simp [k1, k2, k3, k4]
  · intro d hd
    rw [Example.subcells_root] at hd
    simp only [List.mem_cons, List.not_mem_nil, or_false] at hd ⊢
    rcases hd with h | h | h | h | h <;> simp [h]
  · simp [Example.root, Example.m1, Example.m2, Example.leaf, PCell.refs]

end SrcEmit

/-! ### the dictionary parse recursion REGENERATED from parse.py, with its calls counted

`Generated/HashmapCnt.lean` is the text pyrec.py generates for `parse` / `deserialize_hashmap_node` (Generated/HashmapSrc.lean) put
into the counting monad `Py.Cnt` (one `tick` at the entry of each function, `oof` at the fuel-exhaustion line); a run started in
state `s` returns (result or `none` = raised, final state).  `Py.Slice` = (cell type, remaining bits, remaining references). -/
section SrcDict
open TonVerif.Generated.HashmapSrc TonVerif.Generated.HashmapCnt TonVerif.Proofs.SrcHashmap TonVerif.Proofs.SrcHashmapCnt
open TonVerif.Py (CntState)

/-- the instrumented copy computes exactly what the regenerated `parse` / `deserialize_hashmap_node` compute (every fuel, input, state):
counting changes nothing, and the copy is tied to the source through the regenerated functions (validated against the library and
proved equal to the hand model, `c10_src_parse`). -/
theorem c19_src_dict_erase (fuel : Nat) (sl : Py.Slice) (k : Int) (d : List (Bits × Py.Slice)) (pfx : Bits) (s : CntState) :
    (parse_cnt fuel sl k d pfx s).1 = parse fuel sl k d pfx ∧
    (deserialize_hashmap_node_cnt fuel sl k d pfx s).1 = deserialize_hashmap_node fuel sl k d pfx :=
  ⟨(cnt_erase fuel).1 sl k d pfx s, (cnt_erase fuel).2 sl k d pfx s⟩

/-- DEPTH ≤ KEY LENGTH, OF THE CODE AS WRITTEN.  For EVERY slice (any cell tree below it), int key length `k`, dict and prefix: the
regenerated recursion started with fuel ≥ 2·max(k,0) + 2 never reaches a fuel-exhaustion line (`oof` stays as it was) — the Python
recursion `parse → deserialize_hashmap_node → parse …` is at most `max(k,0) + 1` levels (2 frames each) deep, because
`deserialize_hml` refuses a label longer than the remaining key and every fork consumes a key bit — and what it leaves in `ret_dict`
(or that it raises) is the same for every such fuel. -/
theorem c19_src_dict_depth_le_keylen (fuel : Nat) (c : Cell) (k : Int) (d : List (Bits × Py.Slice)) (pfx : Bits) (s : CntState)
    (hf : 2 * k.toNat + 2 ≤ fuel) :
    (parse_cnt fuel (Py.beginParse c) k d pfx s).2.oof = s.oof ∧
    (∀ fuel', 2 * k.toNat + 2 ≤ fuel' →
      (parse fuel' (Py.beginParse c) k d pfx).map (·.2.1) = (parse fuel (Py.beginParse c) k d pfx).map (·.2.1)) := by
  refine ⟨(cnt_no_oof fuel).1 _ k d pfx s hf, fun fuel' hf' => ?_⟩
  rw [src_parse_eq fuel' c k d pfx hf', src_parse_eq fuel c k d pfx hf]

/-- OUTPUT-BOUNDED, OF THE CODE AS WRITTEN.  On the cell tree unfolded (to any depth ≥ n) from node `v` of any well-formed cost-model
graph `g` — any sharing — the regenerated recursion, started at key length `n` with counters 0 and any fuel ≥ 2n + 2:
never runs out of fuel; returns iff the cost model `dictCalls` says `done`, raises iff it says `raised`; and its number of
`parse` + `deserialize_hashmap_node` calls IS the cost model's count — hence `4·(entries + stops) − 2` on a parse that returns
(`c19_dict_output`) and at most `2^(n+2) − 2` always (`c19_dict_depth_le_keylen`). -/
theorem c19_src_dict_output (g : DDag) (hg : ∀ nd ∈ g, ∀ k ∈ nd.kids, k < g.length) (v n F fuel : Nat)
    (hv : v < g.length) (hF : n ≤ F) (hf : 2 * n + 2 ≤ fuel) (d : List (Bits × Py.Slice)) (pfx : Bits) :
    let out := parse_cnt fuel (Py.beginParse (unfoldD g F v)) (n : Int) d pfx {}
    out.2.oof = false ∧ out.2.calls = (dictCalls g (n + 1) v n).steps ∧ out.2.calls + 2 ≤ 2 ^ (n + 2) ∧
    (out.1.isSome = true ↔ ∃ c, dictCalls g (n + 1) v n = .done c) ∧
    (out.1.isSome = true → out.2.calls + 2 = 4 * ((dictOut g (n + 1) v n).1 + (dictOut g (n + 1) v n).2)) := by
  intro out
  have hb := cnt_bridge g hg (n + 1) v (n : Int) F fuel d pfx {} hv (by simp) (by simpa using hF) (by omega)
  have hle := (c19_dict_depth_le_keylen g v n).2.2.2.1 (n + 1)
  obtain ⟨hoof, hrest⟩ := hb
  rcases hc : dictCalls g (n + 1) v n with c | c | _
  · rw [hc] at hrest hle
    obtain ⟨hs, hcalls⟩ := hrest
    have hout := c19_dict_output g (n + 1) v n c hc
    have hcalls' : out.2.calls = c := by simpa using hcalls
    refine ⟨hoof, by simpa [DRes.steps] using hcalls, by simpa [DRes.steps, hcalls'] using hle, ⟨fun _ => ⟨c, rfl⟩, fun _ => hs⟩, fun _ => ?_⟩
    rw [hcalls']; exact hout
  · rw [hc] at hrest hle
    obtain ⟨hn, hcalls⟩ := hrest
    have hcalls' : out.2.calls = c := by simpa using hcalls
    have hnone : out.1 = none := hn
    refine ⟨hoof, by simpa [DRes.steps] using hcalls, by simpa [DRes.steps, hcalls'] using hle, ⟨fun h => ?_, fun ⟨c', h⟩ => by simp at h⟩, fun h => ?_⟩
    · rw [hnone] at h; simp at h
    · rw [hnone] at h; simp at h
  · rw [hc] at hrest; exact hrest.elim

/-- non-vacuity: the shared dictionary of `c19_dict_output`'s comment (4 cells, every fork references the same child twice, 8 entries at
key length 3): the regenerated recursion on its unfolding makes 30 = 4·8 − 2 calls and returns. -/
example : let out := parse_cnt 8 (Py.beginParse (unfoldD sharedDict 3 3)) ((3 : Nat) : Int) [] [] {}
    out.1.isSome = true ∧ out.2.calls = 30 ∧ out.2.oof = false := by
  have h := c19_src_dict_output sharedDict (by decide) 3 3 3 8 (by decide) (by decide) (by decide) [] []
  have hc : dictCalls sharedDict (3 + 1) 3 ((3 : Nat) : Int) = .done 30 := by decide
  simp only at h
  obtain ⟨h1, h2, _, h4, _⟩ := h
  rw [hc] at h2 h4
  exact ⟨h4.2 ⟨30, rfl⟩, h2.trans rfl, h1⟩

end SrcDict

end TonVerif.Properties.C19
