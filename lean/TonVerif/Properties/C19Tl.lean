/-
C19, TL part on the SOURCE: the regenerated `TlSchemas.deserialize` never runs out of its budgets.  A module of its own (namespace
`TonVerif.Properties.C19Tl`) because it needs the C14 model `Model.Tl`, whose `tlFuel` / `NoBareCycle` would make the cost model's
`Tl.tlFuel` / `Tl.NoBareCycle` ambiguous inside Properties/C19.lean.  Audited with C19 (`property_modules=['C19Tl']` in harness/props/C19.py).
-/
import TonVerif.Properties.C14

namespace TonVerif.Properties.C19Tl
open TonVerif TonVerif.Spec.Tl TonVerif.Model.Tl TonVerif.Proofs.Tl TonVerif.Properties
open TonVerif.Generated.TlEngine TonVerif.Proofs.SrcTlParser TonVerif.Py.Tl

/-- **C19 for the REGENERATED `TlSchemas.deserialize`** (Generated/TlEngine.lean, re-translated from pytoniq_core/tl/generator.py on every
run; `c14_src_parser`: equal to the C14 hand model for all inputs).  For EVERY schema table with distinct field names and without a
cycle of bare references (`NoBareCycle T R`), EVERY byte string `d` (well formed or not) and both modes: the regenerated parser run with
the recursion-depth budget `tlFuel R len(d) = (len(d)/4 + 1)(R + 2)` and the iteration budget `len(d) + 2` for its `while j < byte_len`
loop returns what it returns with ANY larger budgets (`fuel ≥ tlFuel R len(d)`, any `slack`) - and that is the hand model's result:
neither budget is ever the reason for `none`, so no loop and no recursion of the code runs longer than a bound in the input LENGTH,
whatever lengths the input declares.  (Every `while` iteration consumes ≥ 1 byte of the content or breaks - `SrcTlParser.loop2_while`;
the vector loop is bounded by the guard of fix 110bf4a; a boxed level consumes its 4-byte id and at most `R + 1` bare levels lie between
two boxed ones - `c14_fuel_suffices`; the step COUNT of the cost model is `c19_tl_total`.) -/
theorem c19_src_tl_total (T : Table) (hA : TableArgsOK T) (R : Nat) (hR : NoBareCycle T R) (auto : Bool) (d : Bytes)
    (fuel slack : Nat) (hf : tlFuel R d.length ≤ fuel) :
    deserializeF T auto slack fuel d true none = deserializeF T auto 0 (tlFuel R d.length) d true none ∧
    deserializeF T auto 0 (tlFuel R d.length) d true none = Model.Tl.deserialize T auto (tlFuel R d.length) d := by
  have h1 := (src_parser T hA auto slack fuel).1 d none
  have h2 := (src_parser T hA auto 0 (tlFuel R d.length)).1 d none
  refine ⟨?_, h2⟩
  rw [h1, h2]
  exact fuel_suffices T R hR auto d fuel hf

/-- ... for the bundled table (bare references nest at most 5 deep), unconditionally. -/
theorem c19_src_tl_total_bundled (auto : Bool) (d : Bytes) (fuel slack : Nat) (hf : tlFuel 5 d.length ≤ fuel) :
    deserializeF Generated.Tl.table auto slack fuel d true none =
      deserializeF Generated.Tl.table auto 0 (tlFuel 5 d.length) d true none :=
  (c19_src_tl_total _ C14.c14_table_args 5 C14.c14_table_bare_depth auto d fuel slack hf).1

/-- non-vacuity of `c19_src_tl_total`: the toy table meets both side conditions; with the budgets of the theorem a `bytes` content
declaring 255 bytes over 0 remaining returns, and a vector declaring 2^22 elements over 0 bytes raises at once (guard). -/
example : TableArgsOK C14.toy2 ∧ NoBareCycle C14.toy2 2 := by unfold TableArgsOK ArgsOK NoBareCycle; decide
example : deserializeF C14.toy2 true 0 (tlFuel 2 5) (natToLE 4 0x64636261 ++ [255]) true none = some (.obj (some 30) [(6, .str [])], 260) := by rfl
example : deserializeF C14.toy2 true 0 (tlFuel 2 12) (natToLE 4 0x12345678 ++ (intLE 4 0 ++ natToLE 4 (2 ^ 22))) true none = none := by rfl

end TonVerif.Properties.C19Tl
