import TonVerif.Model.Builder
namespace TonVerif.Properties.C06
theorem placeholder : True := trivial
end TonVerif.Properties.C06
