/-
C06 — typed Builder stores and Slice loads are mutually inverse and bit-exact.

Model: `Model/Builder.lean` (`BOp`: builder state after the call + "returned normally"; `SOp`: slice
state after the call + result, `none` = raised).  `TVal` has one constructor per typed `store_*` call,
`TVal.store` is that call, `Kind.load` / `Kind.preload` are the matching `load_*` / `preload_*` calls.
Spec: `Spec/TlbPrim.lean` (TL-B encodings written from the TL-B rules), `Spec/TlbVal.lean`
(`enc`/`refsOf` of a typed value, `InRange`, `WF`).  `Inv b` = the builder is within capacity
(1023 bits, 4 refs) — an invariant of every reachable builder (C07 `c07_invariant`).
All statements quantify over EVERY width, value, byte length class, address form and continuation.
-/
import TonVerif.Proofs.Typed
import TonVerif.Proofs.Snake
import TonVerif.Proofs.SnakeDepth
import TonVerif.Proofs.SrcArith
import TonVerif.Generated.VarLen
import TonVerif.Proofs.SrcTyped
import TonVerif.Proofs.SrcSnake
import TonVerif.Proofs.SrcForms

namespace TonVerif.Properties.C06
open TonVerif TonVerif.Model TonVerif.Spec.Tlb TonVerif.Proofs.Builder TonVerif.Proofs.Slice
  TonVerif.Proofs.Typed TonVerif.Proofs.Snake TonVerif.Proofs.Bits TonVerif.Proofs.SnakeDepth TonVerif.Proofs.OrdCell
variable {R : Type}

/-- bit-exactness: a typed store that returns normally has appended exactly the TL-B encoding of the
value to the data bits and exactly its references to the reference list. -/
theorem c06_bits_exact (tv : TVal R) (b b' : Builder R) (hb : Inv b) (h : tv.store b = (b', true)) :
    b'.bits = b.bits ++ enc tv ∧ b'.refs = b.refs ++ refsOf tv := by
  have h2 : (tv.store b).2 = true := by rw [h]
  have := ((store_spec tv).1 b hb).2 h2
  rw [h] at this
  simp only at this
  rw [this]; exact ⟨rfl, rfl⟩

/-- store → load: if `store_X(v)` returned normally on builder `b`, then a slice positioned at the
first bit / reference it wrote, followed by ANY continuation `kb`/`kr` (whatever is stored later),
`load_X` returns `v` and leaves exactly the continuation. (`WF`: `bytes` hold bytes, hash parts have
32 bytes, a string read with an explicit length is non-empty.) -/
theorem c06_store_load (tv : TVal R) (b b' : Builder R) (hb : Inv b) (h : tv.store b = (b', true))
    (hw : WF tv) (kb : Bits) (kr : List R) :
    tv.kind.load ⟨b'.bits.drop b.bits.length ++ kb, b'.refs.drop b.refs.length ++ kr⟩
      = (⟨kb, kr⟩, some tv) := by
  obtain ⟨e1, e2⟩ := c06_bits_exact tv b b' hb h
  have h2 : (tv.store b).2 = true := by rw [h]
  have hr : InRange tv := (((store_spec tv).1 b hb).1.mp h2).1
  rw [e1, e2, List.drop_left, List.drop_left]
  exact load_rt tv hr hw kb kr

/-- the same, for a value in range, independent of any builder: reading the TL-B encoding back. -/
theorem c06_decode_encode (tv : TVal R) (hr : InRange tv) (hw : WF tv) (kb : Bits) (kr : List R) :
    tv.kind.load ⟨enc tv ++ kb, refsOf tv ++ kr⟩ = (⟨kb, kr⟩, some tv) :=
  load_rt tv hr hw kb kr

/-- sequences (induction over the list): storing any list of typed values into an empty builder, if
every store returns normally, and loading the kinds back in the same order from the resulting cell
returns the same values and leaves no bit and no reference unread. -/
theorem c06_sequence (tvs : List (TVal R)) (b : Builder R) (h : storeAll tvs Builder.empty = (b, true))
    (hw : ∀ tv ∈ tvs, WF tv) :
    loadAll (tvs.map TVal.kind) ⟨b.bits, b.refs⟩ = (⟨[], []⟩, some tvs) := by
  have ie := inv_empty (R := R)
  have h2 : (storeAll tvs Builder.empty).2 = true := by rw [h]
  obtain ⟨s1, s2⟩ := (storeAll_spec tvs).1 Builder.empty ie
  have hr := (s1.mp h2).1
  have hb := s2 h2
  rw [h] at hb
  simp only [Builder.empty, List.nil_append] at hb
  rw [hb]
  have := loadAll_rt tvs (fun tv ht => ⟨hr tv ht, hw tv ht⟩) [] ([] : List R)
  simpa using this

/-- the bits / references of the cell produced by a sequence of stores are the concatenated TL-B encodings. -/
theorem c06_sequence_bits (tvs : List (TVal R)) (b : Builder R) (h : storeAll tvs Builder.empty = (b, true)) :
    b.bits = encAll tvs ∧ b.refs = refsAll tvs := by
  have ie := inv_empty (R := R)
  have h2 : (storeAll tvs Builder.empty).2 = true := by rw [h]
  have hb := ((storeAll_spec tvs).1 Builder.empty ie).2 h2
  rw [h] at hb
  simp only [Builder.empty, List.nil_append] at hb
  rw [hb]; exact ⟨rfl, rfl⟩

/-- the length prefix of a variable-length integer is MINIMAL: `byteLenU v` / `byteLenS v` (the `len`
written by `store_var_uint` / `store_var_int` / `store_coins`, see `enc`) is the least `l` such that `v`
fits `uint (8·l)` / `int (8·l)` — both signs. -/
theorem c06_varint_minimal :
    (∀ v l : Nat, byteLenU v ≤ l ↔ v < 2 ^ (8 * l)) ∧ (∀ (v : Int) (l : Nat), byteLenS v ≤ l ↔ FitsInt (8 * l) v) ∧
    (∀ (k : Nat) (v : Int), enc (R := R) (.varUint k v)
        = uintBits k (byteLenU v.toNat) ++ uintBits (8 * byteLenU v.toNat) v.toNat) ∧
    (∀ (k : Nat) (v : Int), enc (R := R) (.varInt k v)
        = uintBits k (byteLenS v) ++ intBits (8 * byteLenS v) v) :=
  ⟨fun v l => by rw [TonVerif.Proofs.Bits.byteLenU_le_iff, pow256], byteLenS_le_iff, fun _ _ => rfl, fun _ _ => rfl⟩


/-- concrete instances of the minimal length, incl. values whose top magnitude bit fills the byte. -/
theorem c06_varint_minimal_values :
    byteLenS 127 = 1 ∧ byteLenS 128 = 2 ∧ byteLenS 255 = 2 ∧ byteLenS 32767 = 2 ∧ byteLenS 32768 = 3 ∧
    byteLenS (-1) = 1 ∧ byteLenS (-128) = 1 ∧ byteLenS (-129) = 2 ∧ byteLenS (-32768) = 2 ∧ byteLenS (-32769) = 3 ∧
    byteLenS 0 = 0 ∧ byteLenU 0 = 0 ∧ byteLenU 255 = 1 ∧ byteLenU 256 = 2 ∧ byteLenU 65535 = 2 ∧ byteLenU 65536 = 3 := by
  simp [byteLenS, magS, byteLenU]

/-- peek = read: whenever the consuming read `load_X` returns a value, the non-consuming `preload_X`
on the same slice returns the same value and leaves the slice unchanged — for every kind: uint, int,
var-uint, var-int, coins, bit, bits, bytes, string, ref, maybe-ref, dict and address (`preload_address`
has its own parsing logic for none / extern / std-without-anycast and re-reads a copy for anycast).

The design's formulation `preload_X s = (load_X s).map fst` for ALL slices is false for the
library: on an over-read `load_uint` raises while `preload_uint` returns the value of the bits that
are left (`c06_preload_overread_differs` below); the property only speaks of what the consuming read
would RETURN. -/
theorem c06_preload_eq_load (k : Kind) (s s' : Slice R) (v : TVal R)
    (h : k.load s = (s', some v)) : k.preload s = (s, some v) := by
  cases k with
  | uint n => obtain ⟨a, h1, rfl⟩ := map_some_inv h; exact map_of_some _ (preloadUint_of_load h1)
  | int n => obtain ⟨a, h1, rfl⟩ := map_some_inv h; exact map_of_some _ (preloadInt_of_load h1)
  | varUint k => obtain ⟨a, h1, rfl⟩ := map_some_inv h; exact map_of_some _ (preloadVarUint_of_load h1)
  | varInt k => obtain ⟨a, h1, rfl⟩ := map_some_inv h; exact map_of_some _ (preloadVarInt_of_load h1)
  | coins => obtain ⟨a, h1, rfl⟩ := map_some_inv h; exact map_of_some _ (preloadVarUint_of_load h1)
  | bit => obtain ⟨a, h1, rfl⟩ := map_some_inv h; exact map_of_some _ (preloadBit_of_load h1)
  | bits n => obtain ⟨a, h1, rfl⟩ := map_some_inv h; exact map_of_some _ (peekBits_of_load h1)
  | bytes n => obtain ⟨a, h1, rfl⟩ := map_some_inv h; exact map_of_some _ (preloadBytes_of_load h1)
  | string n => obtain ⟨a, h1, rfl⟩ := map_some_inv h; exact map_of_some _ (preloadString_of_load h1)
  | ref => obtain ⟨a, h1, rfl⟩ := map_some_inv h; exact map_of_some _ (preloadRef_of_load h1)
  | maybeRef => obtain ⟨a, h1, rfl⟩ := map_some_inv h; exact map_of_some _ (preloadMaybeRef_of_load h1)
  | dict => obtain ⟨a, h1, rfl⟩ := map_some_inv h; exact map_of_some _ (preloadDict_of_load h1)
  | addr => obtain ⟨a, h1, rfl⟩ := map_some_inv h; exact map_of_some _ (preloadAddress_of_load h1)

/-- the converse direction fails in the library as it is: with 3 bits left `load_uint(10)` raises but
`preload_uint(10)` returns 5. -/
theorem c06_preload_overread_differs :
    (SOp.loadUint 10 (⟨[true, false, true], []⟩ : Slice Nat)).2 = none ∧
    (SOp.preloadUint 10 (⟨[true, false, true], []⟩ : Slice Nat)).2 = some 5 := by
  constructor
  · rw [loadUint_eq]; simp
  · simp [SOp.preloadUint, SOp.bind, SOp.peekBits, SOp.ofOption, SOp.ba2intU, natOfBits]

/-- the spec is self-consistent: the number denoted by `uint n` / `int n` encodings is the value -/
theorem c06_spec_consistent (n : Nat) :
    (∀ v : Nat, v < 2 ^ n → bitsVal (uintBits n v) = v) ∧
    (∀ v : Int, 0 < n → FitsInt n v → bitsValS (intBits n v) = v) := by
  constructor
  · intro v h
    rw [← natToBits_eq_uintBits, ← natOfBits_eq_bitsVal]; exact natOfBits_natToBits n v h
  · intro v hn h
    have h1 := ba2intS_intBits n v hn h
    have hne : (intBits n v).isEmpty = false := by
      cases hh : intBits n v with
      | nil => have : (intBits n v).length = n := by unfold intBits; exact uintBits_length _ _
               rw [hh] at this; simp at this; omega
      | cons _ _ => rfl
    rw [ba2intS_eq_bitsValS _ hne] at h1
    exact Option.some.inj h1

/-- an address that passes the library's range checks, has a 32-byte hash part and (for anycast) a depth
of at most 30 is encoded as a VALID TL-B `MsgAddress` -/
theorem c06_addr_valid (a : Addr) (hr : InRange (R := R) (.addr a)) (hw : WF (R := R) (.addr a))
    (hd : match a with | .std (some (d, _)) _ _ => d ≤ 30 | _ => True) : (addrOf a).Valid := by
  cases a with
  | none => trivial
  | ext len val =>
    simp only [InRange] at hr
    simp [addrOf, MsgAddress.Valid, hr.1]
  | std any wc h =>
    simp only [InRange] at hr
    simp only [WF] at hw
    cases any with
    | none => simp [addrOf, MsgAddress.Valid, hr.2, hw.2]
    | some dp =>
      obtain ⟨d, p⟩ := dp
      simp only at hr hd
      simp [addrOf, MsgAddress.Valid, hr.2, hw.2, hr.1.1, hd]

/-- non-vacuity of `c06_addr_valid`: an anycast address with depth 30 -/
example : InRange (R := Nat) (.addr (.std (some (30, 5)) (-1) (List.replicate 32 7))) ∧
    WF (R := Nat) (.addr (.std (some (30, 5)) (-1) (List.replicate 32 7))) := by
  simp [InRange, WF, FitsUint, FitsInt, Bytes.WF]

/-! ### snake data

DESIGN §6: for every byte string `bs`, `load_snake_bytes(store_snake_bytes(bs, builder).end_cell()) = bs` whenever the
chain depth is ≤ 1023, and the depth check of the cell constructor refuses the chain beyond.

`c06_snake_any_constructor` / `c06_snake_never_refused`: the round trip for every cell constructor `mk` (= `end_cell`) /
view (= `begin_parse`) pair with `view (mk bits refs) = (bits, refs)`, whenever the store returns.
`c06_snake_depth_exact`, `c06_snake_store_iff`: `mk` instantiated with the depth-checking constructor of C01
(`mkC H` = `Cell.info`, raises at depth ≥ 1024) on cell trees, depth in closed form
`snakeDepth p n = 0` if `n ≤ (1023-p)/8`, else `⌈(n - (1023-p)/8) / 127⌉` (`p` = bits already in the first builder).
Where exactly the library raises: the `end_cell` calls inside `store_snake_bytes` build the tail cells, whose depths are
`0 .. snakeDepth-1`, so `store_snake_bytes` itself raises iff `snakeDepth > 1024`; the root gets depth `snakeDepth`, so its
own `end_cell` raises iff `snakeDepth > 1023`.  `c06_snake_is_snakedata`: the produced tree is `Spec.Tlb.snakeCell` of the chunks.
Python's recursion limit is outside the model (both loops are iterative since fix 9b1112f). -/

/-- snake round trip for ANY cell constructor: what `store_snake_bytes(bs)` appended after the content
of `b` is byte-aligned, and `load_snake_bytes` on it (with the references of the result) returns `bs`,
for every recursion budget `≥ len + 2`. -/
theorem c06_snake_any_constructor (mk : Bits → List R → Option R) (view : R → Bits × List R)
    (hv : ∀ bits refs c, mk bits refs = some c → view c = (bits, refs))
    (bs : Bytes) (hw : Bytes.WF bs) (b b' : Builder R) (hb : Proofs.Builder.Inv b) (hr : b.refs = [])
    (h : BOp.storeSnake mk bs b = (b', true)) :
    ∃ tail, b'.bits = b.bits ++ tail ∧ tail.length % 8 = 0 ∧
      ∀ fuel, bs.length + 2 ≤ fuel → (SOp.loadSnakeFuel view fuel ⟨tail, b'.refs⟩).2 = some bs :=
  snake_rt mk view hv (bs.length + 2) bs b b' hw hb.1 hr h

/-- `store_snake_bytes` is never refused on a within-capacity builder with a free reference slot when
the cell constructor does not fail (chain depth within the limit) — any length. -/
theorem c06_snake_never_refused (mk : Bits → List R → Option R) (hmk : ∀ bits refs, (mk bits refs).isSome)
    (bs : Bytes) (b : Builder R) (hb : Proofs.Builder.Inv b) (hr : b.refs.length < 4) :
    (BOp.storeSnake mk bs b).2 = true :=
  snake_ok mk hmk bs b hb.1 hr

/-- both together on bare cell trees (`Spec.Tlb.SCell`, constructor total): storing ANY byte string
into the empty builder succeeds and loading the resulting cell returns it. Non-vacuity of the two
theorems above as well. -/
theorem c06_snake_trees (bs : Bytes) (hw : Bytes.WF bs) :
    ∃ b', BOp.storeSnake (fun bits refs => some (SCell.mk bits refs)) bs (Builder.empty : Builder SCell) = (b', true) ∧
      ∀ fuel, bs.length + 2 ≤ fuel →
        (SOp.loadSnakeFuel (fun c => match c with | SCell.mk bits refs => (bits, refs)) fuel ⟨b'.bits, b'.refs⟩).2 = some bs := by
  have hok := c06_snake_never_refused (R := SCell) (fun bits refs => some (SCell.mk bits refs)) (fun _ _ => rfl) bs
    Builder.empty inv_empty (by simp [Builder.empty])
  refine ⟨(BOp.storeSnake (fun bits refs => some (SCell.mk bits refs)) bs (Builder.empty : Builder SCell)).1,
    Prod.ext rfl hok, ?_⟩
  obtain ⟨tail, e1, _, e3⟩ := c06_snake_any_constructor (R := SCell) (fun bits refs => some (SCell.mk bits refs))
    (fun c => match c with | SCell.mk bits refs => (bits, refs))
    (by intro bits refs c hc; simp only [Option.some.injEq] at hc; subst hc; rfl)
    bs hw Builder.empty _ inv_empty rfl (Prod.ext rfl hok)
  have e1' : (BOp.storeSnake (fun bits refs => some (SCell.mk bits refs)) bs (Builder.empty : Builder SCell)).1.bits
      = tail := by rw [e1]; rfl
  rw [e1']; exact e3

/-- `store_snake_bytes` with the real (depth-checking) `end_cell`, for EVERY prefill of the first builder the library
allows (any `p ≤ 1023` bits - byte-aligned or not - and up to 3 references): the call returns normally exactly when the
chain depth `snakeDepth p n` is at most 1024, i.e. when every tail cell it has to build has depth ≤ 1023. -/
theorem c06_snake_store_iff (H : Bytes → Bytes) (bs : Bytes) (b : Builder Cell) (hb : Proofs.Builder.Inv b)
    (hr : b.refs.length < 4) :
    (BOp.storeSnake (mkC H) bs b).2 = true ↔ snakeDepth b.bits.length bs.length ≤ 1024 := by
  have h := chain_any H bs b hb.1 hr
  constructor
  · intro hok
    by_cases hd : snakeDepth b.bits.length bs.length ≤ 1024
    · exact hd
    · rw [h.2 (by omega)] at hok; cases hok
  · intro hd
    obtain ⟨b', e, _⟩ := h.1 hd
    rw [e]

/-- depth-exact snake round trip.  `b` = any within-capacity builder without references holding `p` bits, `n` bytes
stored, `D = snakeDepth p n`: (1) `store_snake_bytes` returns iff `D ≤ 1024`; when it returns, (2) the root cell
(`b'.bits`, `b'.refs`) has depth exactly `D`, (3) `end_cell()` on it succeeds iff `D ≤ 1023` - so a cell holding the
snake exists exactly for `D ≤ 1023` and the library raises the depth error beyond - and (4) what was appended is
byte-aligned and `load_snake_bytes` on it returns `bs` (every recursion budget ≥ len + 2). -/
theorem c06_snake_depth_exact (H : Bytes → Bytes) (bs : Bytes) (hw : Bytes.WF bs) (b : Builder Cell)
    (hb : Proofs.Builder.Inv b) (hr : b.refs = []) :
    ((BOp.storeSnake (mkC H) bs b).2 = true ↔ snakeDepth b.bits.length bs.length ≤ 1024) ∧
    ((BOp.storeSnake (mkC H) bs b).2 = true →
      ordDepth (.mk (-1) (BOp.storeSnake (mkC H) bs b).1.bits (BOp.storeSnake (mkC H) bs b).1.refs) =
        snakeDepth b.bits.length bs.length ∧
      ((mkC H (BOp.storeSnake (mkC H) bs b).1.bits (BOp.storeSnake (mkC H) bs b).1.refs).isSome ↔
        snakeDepth b.bits.length bs.length ≤ 1023) ∧
      ∃ tail, (BOp.storeSnake (mkC H) bs b).1.bits = b.bits ++ tail ∧ tail.length % 8 = 0 ∧
        ∀ fuel, bs.length + 2 ≤ fuel →
          (SOp.loadSnakeFuel viewC fuel ⟨tail, (BOp.storeSnake (mkC H) bs b).1.refs⟩).2 = some bs) := by
  have hiff := c06_snake_store_iff H bs b hb (by simp [hr])
  refine ⟨hiff, fun hok => ?_⟩
  obtain ⟨b', e, hch⟩ := (chain_any H bs b hb.1 (by simp [hr])).1 (hiff.mp hok)
  have hc := hch hr
  rw [e]
  refine ⟨hc.depth, ?_, ?_⟩
  · rw [mkC_isSome_iff H b'.bits b'.refs hc.bits (by have := hc.refs; omega) hc.wf, hc.depth]
  · exact c06_snake_any_constructor (mkC H) viewC (viewC_mkC H) bs hw b b' hb hr e

/-- the cells form the TL-B `SnakeData` chain (`Spec.Tlb.snakeCell`): whenever `store_snake_bytes` with the real
`end_cell` returns, the root read as a bare tree (`cellToS`: data bits and references, kinds dropped) is
`snakeCell first rest` with `first` = what the builder held ++ the first `(1023-p)/8` bytes and `rest` = the
127-byte chunks of the remaining bytes, and the data of that chain (`snakeData`) is what the builder held followed by
exactly the stored bytes. -/
theorem c06_snake_is_snakedata (H : Bytes → Bytes) (bs : Bytes) (b b' : Builder Cell) (hb : Proofs.Builder.Inv b)
    (hr : b.refs = []) (h : BOp.storeSnake (mkC H) bs b = (b', true)) :
    SCell.mk b'.bits (b'.refs.map cellToS) =
      snakeCell (b.bits ++ bytesToBits (bs.take ((1023 - b.bits.length) / 8)))
        ((chunks127 (bs.drop ((1023 - b.bits.length) / 8))).map bytesToBits) ∧
    snakeData (b.bits ++ bytesToBits (bs.take ((1023 - b.bits.length) / 8)))
        ((chunks127 (bs.drop ((1023 - b.bits.length) / 8))).map bytesToBits) = b.bits ++ bytesToBits bs :=
  chain_shape (mkC H) cellToS (cellToS_mkC H) bs b b' hb.1 hr h

/-! ### non-vacuity -/

/-- ten typed values of different kinds (references are numbers here) -/
def sampleVals : List (TVal Nat) :=
  [.uint 8 200, .int 8 (-3), .varInt 4 (-129), .coins 1000, .bit true, .maybeRef (some 7), .dict none,
   .addr (.ext 3 5), .addr (.std (some (3, 5)) (-1) (List.replicate 32 171)), .bytes [1, 255],
   .string [104, 105]]

theorem sampleVals_ok : (∀ tv ∈ sampleVals, InRange tv) ∧ (∀ tv ∈ sampleVals, WF tv) ∧
    (encAll sampleVals).length = 380 ∧ (refsAll sampleVals).length = 1 := by
  refine ⟨?_, ?_, ?_, ?_⟩
  · simp [sampleVals, InRange, FitsUint, FitsInt, byteLenS, magS, byteLenU]
  · simp [sampleVals, WF, Bytes.WF]
  · simp [sampleVals, encAll, enc, varIntBits, gramsBits, varUIntBits, intBits, addrOf, addrBits,
      anycastBits, maybeRefBits, byteLenS, magS, byteLenU]
  · simp [sampleVals, refsAll, refsOf, maybeRefRefs]

/-- the hypotheses of `c06_sequence` (and hence of `c06_bits_exact`, `c06_store_load` for each element)
are met by `sampleVals`: all eleven stores return normally. -/
example : ∃ b, storeAll sampleVals Builder.empty = (b, true) ∧ ∀ tv ∈ sampleVals, WF tv := by
  obtain ⟨hr, hw, hl, hq⟩ := sampleVals_ok
  have h := ((storeAll_spec sampleVals).1 Builder.empty inv_empty).1.mpr
    ⟨hr, by simp [Builder.empty, hl], by simp [Builder.empty, hq]⟩
  exact ⟨(storeAll sampleVals Builder.empty).1, Prod.ext rfl h, hw⟩

/-- a `load` that returns a value exists (hypothesis of `c06_preload_eq_load`) -/
example : (Kind.varInt 4).load (⟨enc (R := Nat) (.varInt 4 (-129)), []⟩ : Slice Nat)
    = (⟨[], []⟩, some (.varInt 4 (-129))) := by
  have := c06_decode_encode (R := Nat) (.varInt 4 (-129))
    (by simp [InRange, byteLenS, magS, byteLenU]) (by simp [WF]) [] []
  simpa [refsOf, TVal.kind] using this

/-! ## Source-regenerated arithmetic (`Generated/VarLen.lean`: re-translated from builder.py on every run)

`Generated.varUintIsZero / varUintByteLen` (`varIntIsZero / varIntByteLen`) are the translations of the `value == 0` test
and of the `byte_length = math.ceil(...)` assignment of `Builder.store_var_uint` (`store_var_int`);
`Generated.coinsLenBits` is the width `store_coins` passes.  `math.ceil(a / 8)` is read as the integer ceiling
(harness/translate/pyarith.py; exact for bit lengths below 2^53). -/
section Src
open TonVerif.Proofs.SrcArith
set_option linter.unusedSimpArgs false

/-- minimal-length variable integers, unsigned: for EVERY value ≥ 0 the length prefix that `store_var_uint` writes
(0 for the value 0, otherwise the source's `byte_length`) is the TL-B minimal byte length `byteLenU`. -/
theorem c06_src_varuint_len (v : Int) (hv : 0 ≤ v) :
    Generated.varUintIsZero_sideOk v ∧ Generated.varUintByteLen_sideOk v ∧
    (if Generated.varUintIsZero v then 0 else Generated.varUintByteLen v) = byteLenU v.toNat ∧
    Generated.varUintByteLen v = byteLenU v.toNat := by
  have hn : v.natAbs = v.toNat := by omega
  have key : Generated.varUintByteLen v = byteLenU v.toNat := by
    have := byteLen_model v.toNat
    simp only [Generated.varUintByteLen, py_bitLength_eq_bitLen, hn]
    src_arith
  refine ⟨by simp only [Generated.varUintIsZero_sideOk]; src_arith,
          by simp only [Generated.varUintByteLen_sideOk]; src_arith, ?_, key⟩
  by_cases h0 : v = 0
  · subst h0; simp [Generated.varUintIsZero, byteLenU]
  · rw [key]; simp [Generated.varUintIsZero, h0]

/-- minimal-length variable integers, signed: for EVERY integer the length prefix that `store_var_int` writes
(0 for the value 0, otherwise the source's `byte_length`) is the TL-B minimal two's complement byte length `byteLenS`
(`c06_varint_minimal`: the least `l` with `-2^(8l-1) ≤ v < 2^(8l-1)`). -/
theorem c06_src_varint_len (v : Int) :
    Generated.varIntIsZero_sideOk v ∧ Generated.varIntByteLen_sideOk v ∧
    (if Generated.varIntIsZero v then 0 else Generated.varIntByteLen v) = byteLenS v := by
  refine ⟨by simp only [Generated.varIntIsZero_sideOk]; src_arith,
          by simp only [Generated.varIntByteLen_sideOk]; src_arith, ?_⟩
  by_cases h0 : v = 0
  · subst h0; simp [Generated.varIntIsZero, byteLenS]
  · have hz : Generated.varIntIsZero v = false := by simp [Generated.varIntIsZero, h0]
    rw [hz]
    simp only [Bool.false_eq_true, if_false, byteLenS, h0, magS]
    have hm : ∀ x : Int, (if v ≥ 0 then v else x) = v ∨ (if v ≥ 0 then v else x) = x := by
      intro x; by_cases h : v ≥ 0 <;> simp [h]
    by_cases hp : v ≥ 0
    · have := byteLenS_model v.toNat
      have hn : v.natAbs = v.toNat := by omega
      simp only [Generated.varIntByteLen, py_bitLength_eq_bitLen, hp, if_true, hn]
      src_arith
    · have := byteLenS_model (-v - 1).toNat
      have hn : (-v - 1).natAbs = (-v - 1).toNat := by omega
      simp only [Generated.varIntByteLen, py_bitLength_eq_bitLen, hp, if_false, hn]
      src_arith

/-- the hand model's `storeVarUint` / `storeVarInt` / `storeCoins` (what `c06_bits_exact`, `c06_store_load` are proved about)
use exactly the source's zero test and byte length. -/
theorem c06_src_model_var (v : Int) (k : Nat) :
    (BOp.storeVarUint v k : BOp R) =
      (if Generated.varUintIsZero v then BOp.storeUint 0 k
       else BOp.storeUint (Generated.varUintByteLen v) k ⊳ BOp.storeUint v (Generated.varUintByteLen v * 8)) ∧
    (BOp.storeVarInt v k : BOp R) =
      (if Generated.varIntIsZero v then BOp.storeUint 0 k
       else BOp.storeUint (Generated.varIntByteLen v) k ⊳ BOp.storeInt v (Generated.varIntByteLen v * 8)) ∧
    (BOp.storeCoins v : BOp R) = BOp.storeVarUint v Generated.coinsLenBits := by
  refine ⟨?_, ?_, rfl⟩
  · unfold BOp.storeVarUint
    by_cases h0 : v = 0
    · simp [h0, Generated.varUintIsZero]
    · have : Generated.varUintByteLen v = (BOp.bitLen v.natAbs + 7) / 8 := by
        simp only [Generated.varUintByteLen, py_bitLength_eq_bitLen]; src_arith
      simp [h0, Generated.varUintIsZero, this]
  · unfold BOp.storeVarInt
    by_cases h0 : v = 0
    · simp [h0, Generated.varIntIsZero]
    · have : Generated.varIntByteLen v = (BOp.bitLen (if v ≥ 0 then v.toNat else (-v - 1).toNat) + 1 + 7) / 8 := by
        by_cases hp : v ≥ 0
        · have hn : v.natAbs = v.toNat := by omega
          simp only [Generated.varIntByteLen, py_bitLength_eq_bitLen, hp, if_true, hn]; src_arith
        · have hn : (-v - 1).natAbs = (-v - 1).toNat := by omega
          simp only [Generated.varIntByteLen, py_bitLength_eq_bitLen, hp, if_false, hn]; src_arith
      simp [h0, Generated.varIntIsZero, this]

/-- `store_coins` uses a 4-bit length prefix (`Grams = VarUInteger 16`). -/
theorem c06_src_coins : Generated.coinsLenBits_sideOk ∧ Generated.coinsLenBits = 4 := ⟨trivial, rfl⟩

/-- concrete values of the regenerated length computation at the byte boundaries of both signs (the hypothesis `0 ≤ v` of
`c06_src_varuint_len` is met by 255, 256). -/
example : Generated.varIntByteLen 127 = 1 ∧ Generated.varIntByteLen 128 = 2 ∧ Generated.varIntByteLen (-128) = 1 ∧
    Generated.varIntByteLen (-129) = 2 ∧ Generated.varUintByteLen 255 = 1 ∧ Generated.varUintByteLen 256 = 2 := by
  decide +kernel

end Src

/-! ## Source-regenerated METHODS (`Generated/BuilderOps.lean`, `Generated/SliceOps.lean`: the whole `store_*` / `load_*` /
`preload_*` methods and the `TvmBitarray` methods they call, re-translated from builder.py / slice.py / tvm_bitarray.py /
address.py on every run)

A regenerated method is `args → self → (self after the call, returned value)`, `none` = the Python code raised.  `srcStore mk tv` /
`srcLoad k` / `srcPreload k` (Proofs/SrcTyped.lean) are the regenerated methods of a typed value / kind — EVERY `TVal` / `Kind`:
ints, var-ints, coins, bits, bytes, strings, refs, maybe-refs, dicts, addresses (`None`, `ExternalAddress` via its `to_cell()`,
`Address` with anycast).  A regenerated `Slice` keeps all references and an offset; `view` = the model's slice (remaining bits,
remaining references).  `mk` = `Cell(bits, refs, type_)` as `end_cell` calls it (only `ExternalAddress.to_cell()` uses it); `MkOk mk`
= a reference-free cell is always built and holds the given bits (what C01's constructor does at depth 0). -/
section SrcMethods
open TonVerif.Proofs.SrcBuilder TonVerif.Proofs.SrcSlice TonVerif.Proofs.SrcTyped

/-- THE TIE, store side: for every typed value, every builder state and every argument, the regenerated `store_*` method computes
exactly what the hand model's `TVal.store` computes: the same decision to raise (`int2ba` range and width errors, `check_overflow`,
the reference tests, the 127-byte limit of `store_string`) and the same builder afterwards — also after a raise half-way (the
length prefix of a var-int, the tag bits of an address stay written). All theorems of this file about `TVal.store` are therefore
theorems about the source. -/
theorem c06_src_store (mk : Bits → List R → Option (Py.CellV R)) (hmk : MkOk mk) (tv : TVal R) (b : Builder R) :
    srcStore mk tv b = ofFlag (tv.store b) := srcStore_eq mk hmk tv b

/-- THE TIE, load side: the regenerated `load_*` / `preload_*` method of every kind, seen through `view`, is the hand model's
`Kind.load` / `Kind.preload`: same decision to raise, same value, same slice afterwards (also after a raise half-way);
`preload_address` with its own parsing of none / extern / std and its copy-and-load for anycast included. -/
theorem c06_src_load (k : Kind) (s : Py.SliceSt R) :
    viewR id (srcLoad k s) = k.load (view s) ∧ viewR id (srcPreload k s) = k.preload (view s) :=
  ⟨srcLoad_eq k s, srcPreload_eq k s⟩

/-- `c06_bits_exact` for the regenerated methods: a regenerated `store_*` call that returns has appended exactly the TL-B
encoding of the value and exactly its references. -/
theorem c06_src_bits_exact (mk : Bits → List R → Option (Py.CellV R)) (hmk : MkOk mk) (tv : TVal R)
    (b b' : Builder R) (hb : Inv b) (h : srcStore mk tv b = (b', some ())) :
    b'.bits = b.bits ++ enc tv ∧ b'.refs = b.refs ++ refsOf tv := by
  rw [srcStore_eq mk hmk tv b] at h
  have h1 : (tv.store b).1 = b' := congrArg Prod.fst h
  have h2 : (tv.store b).2 = true := (ofFlag_some _).mp (congrArg Prod.snd h)
  exact c06_bits_exact tv b b' hb (Prod.ext h1 h2)

/-- `c06_store_load` for the regenerated methods: if the regenerated `store_X(v)` returned on builder `b`, then on ANY slice
state (any consumed references `pre`) positioned at the first bit / reference it wrote and followed by ANY continuation, the
regenerated `load_X` returns `v` and leaves exactly the continuation. -/
theorem c06_src_store_load (mk : Bits → List R → Option (Py.CellV R)) (hmk : MkOk mk) (tv : TVal R)
    (b b' : Builder R) (hb : Inv b) (h : srcStore mk tv b = (b', some ())) (hw : WF tv) (kb : Bits) (pre kr : List R) :
    viewR id (srcLoad tv.kind ⟨b'.bits.drop b.bits.length ++ kb, pre ++ (b'.refs.drop b.refs.length ++ kr), pre.length⟩)
      = (⟨kb, kr⟩, some tv) := by
  rw [srcStore_eq mk hmk tv b] at h
  have h1 : (tv.store b).1 = b' := congrArg Prod.fst h
  have h2 : (tv.store b).2 = true := (ofFlag_some _).mp (congrArg Prod.snd h)
  rw [srcLoad_eq tv.kind]
  have := c06_store_load tv b b' hb (Prod.ext h1 h2) hw kb kr
  simpa [view] using this

/-- `c06_preload_eq_load` for the regenerated methods: whenever the regenerated `load_X` returns a value, the regenerated
`preload_X` on the same slice returns the same value and leaves the (viewed) slice unchanged — every kind. -/
theorem c06_src_preload_eq_load (k : Kind) (s : Py.SliceSt R) (v : TVal R) (h : (srcLoad k s).2 = some v) :
    viewR id (srcPreload k s) = (view s, some v) := by
  rw [srcPreload_eq k]
  have hl := srcLoad_eq k s
  have : k.load (view s) = (view (srcLoad k s).1, some v) := by
    rw [← hl]; simp [viewR, h]
  exact c06_preload_eq_load k (view s) _ v this

/-- the regenerated methods on concrete inputs (the hypotheses above are met): `store_uint(5, 3)`, `store_var_int(-129, 4)` into an
empty builder, reading back with the regenerated loads; a constructor satisfying `MkOk`. -/
example :
    (Generated.BuilderOps.store_uint 5 3 (Builder.empty : Builder Nat)).1.bits = [true, false, true] ∧
    (Generated.BuilderOps.store_uint 5 3 (Builder.empty : Builder Nat)).2 = some () ∧
    (Generated.BuilderOps.store_uint 8 3 (Builder.empty : Builder Nat)).2 = none ∧
    (Generated.BuilderOps.store_var_int (-129) 4 (Builder.empty : Builder Nat)).1.bits.length = 20 ∧
    (Generated.SliceOps.load_uint 3 (⟨[true, false, true, true], [7], 0⟩ : Py.SliceSt Nat)).2 = some 5 ∧
    (Generated.SliceOps.load_uint 3 (⟨[true, false, true, true], [7], 0⟩ : Py.SliceSt Nat)).1.bits = [true] ∧
    (Generated.SliceOps.load_uint 5 (⟨[true, false, true, true], [7], 0⟩ : Py.SliceSt Nat)).2 = none ∧
    (Generated.SliceOps.load_ref (⟨[], [7, 8], 1⟩ : Py.SliceSt Nat)).2 = some 8 ∧
    (Generated.SliceOps.load_ref (⟨[], [7, 8], 1⟩ : Py.SliceSt Nat)).1.ref_offset = 2 ∧
    MkOk (fun bits (refs : List Nat) => some (⟨bits, refs⟩ : Py.CellV Nat)) ∧
    (srcStore (fun bits (refs : List Nat) => some (⟨bits, refs⟩ : Py.CellV Nat)) (.addr (.ext 3 5)) Builder.empty).1.bits
      = [false, true, false, false, false, false, false, false, false, true, true, true, false, true] := by
  refine ⟨by decide, by decide, by decide, by decide +kernel, by decide, by decide, by decide, by decide, by decide,
    fun _ => rfl, by decide +kernel⟩

end SrcMethods

/-! ## Source-regenerated SNAKE methods (`Generated/SnakeOps.lean`: `Builder.store_snake_bytes / store_snake_string`,
`Slice.load_snake_bytes / load_snake_string` re-translated from builder.py / slice.py on every run)

The code is ITERATIVE (the head bytes, then the tail cells built from the END of the chain in a loop-carried local; the reader a
`while True:` over a cursor that starts as an alias of `self`), the hand model RECURSIVE from the head.  `Proofs/SrcSnake.lean`
proves them equal for every byte string and every builder / slice state; the snake theorems above are restated here for the
regenerated code.  `mk` = `Cell(bits, refs, type_)` as `end_cell` calls it (here C01's depth-checking constructor `mkC H`), `viewV` =
what `begin_parse()` reads of a referenced cell, `fuel` = the declared bound on the iterations of the reader's `while True:`. -/
section SrcSnake
open TonVerif.Proofs.SrcBuilder TonVerif.Proofs.SrcSnake TonVerif.Generated.SnakeOps

/-- `c.begin_parse()` for the cell trees of C01: data bits and references -/
def viewV (c : Cell) : Py.CellV Cell := ⟨(viewC c).1, (viewC c).2⟩

theorem viewP_viewV : viewP viewV = viewC := rfl

/-- THE TIE, snake: regenerated = hand model, for ALL byte strings, ALL builder states (also outside the capacity invariant) and,
for the reader, all slice states with `ref_offset ≤ len(refs)` and every iteration bound. -/
theorem c06_src_snake (mk : Bits → List R → Option R) (view : R → Py.CellV R) (bs : Bytes) (p : Bool) (b : Builder R)
    (fuel : Nat) (s : Py.SliceSt R) (hs : s.ref_offset ≤ s.refs.length) :
    store_snake_bytes mk bs b = ofFlag (BOp.storeSnake mk bs b) ∧
    store_snake_string mk bs p b = ofFlag (BOp.storeSnakeString mk bs p b) ∧
    Proofs.SrcSlice.viewR id (Slice_load_snake_bytes view fuel s) = SOp.loadSnakeFuel (viewP view) fuel (Proofs.SrcSlice.view s) ∧
    Proofs.SrcSlice.viewR id (Slice_load_snake_string view fuel s) =
      SOp.loadSnakeStringFuel (viewP view) fuel (Proofs.SrcSlice.view s) :=
  ⟨src_store_snake_bytes_eq mk bs b, src_store_snake_string_eq mk bs p b, src_load_snake_bytes_eq view fuel s hs,
   src_load_snake_string_eq view fuel s hs⟩

/-- `c06_snake_store_iff` for the regenerated method: with the real (depth-checking) `end_cell`, on every builder with ≤ 1023 bits
(any alignment) and a free reference slot, the regenerated `store_snake_bytes` returns EXACTLY when the chain depth
`snakeDepth p n` is at most 1024. -/
theorem c06_src_snake_store_iff (H : Bytes → Bytes) (bs : Bytes) (b : Builder Cell) (hb : Proofs.Builder.Inv b)
    (hr : b.refs.length < 4) :
    (store_snake_bytes (mkC H) bs b).2 = some () ↔ snakeDepth b.bits.length bs.length ≤ 1024 := by
  rw [src_store_snake_bytes_eq, ofFlag_some]
  exact c06_snake_store_iff H bs b hb hr

/-- `c06_snake_depth_exact` for the regenerated methods.  `b` = any within-capacity builder without references holding `p` bits,
`n` bytes stored, `D = snakeDepth p n`: (1) the regenerated `store_snake_bytes` returns iff `D ≤ 1024`; when it returns, (2) the
root (`b'.bits`, `b'.refs`) has depth exactly `D`, (3) the regenerated `end_cell` on it succeeds iff `D ≤ 1023`, and (4) what was
appended is byte-aligned and the regenerated `load_snake_bytes` on it returns `bs` (every iteration bound ≥ len + 2). -/
theorem c06_src_snake_depth_exact (H : Bytes → Bytes) (bs : Bytes) (hw : Bytes.WF bs) (b : Builder Cell)
    (hb : Proofs.Builder.Inv b) (hr : b.refs = []) :
    ((store_snake_bytes (mkC H) bs b).2 = some () ↔ snakeDepth b.bits.length bs.length ≤ 1024) ∧
    ((store_snake_bytes (mkC H) bs b).2 = some () →
      ordDepth (.mk (-1) (store_snake_bytes (mkC H) bs b).1.bits (store_snake_bytes (mkC H) bs b).1.refs) =
        snakeDepth b.bits.length bs.length ∧
      ((end_cell (mkC H) (store_snake_bytes (mkC H) bs b).1).2.isSome ↔ snakeDepth b.bits.length bs.length ≤ 1023) ∧
      ∃ tail, (store_snake_bytes (mkC H) bs b).1.bits = b.bits ++ tail ∧ tail.length % 8 = 0 ∧
        ∀ fuel, bs.length + 2 ≤ fuel →
          (Slice_load_snake_bytes viewV fuel ⟨tail, (store_snake_bytes (mkC H) bs b).1.refs, 0⟩).2 = some bs) := by
  have h := c06_snake_depth_exact H bs hw b hb hr
  rw [src_store_snake_bytes_eq, ofFlag_some, ofFlag_fst, end_cell_eq]
  refine ⟨h.1, fun hok => ?_⟩
  obtain ⟨h2, h3, tail, e1, e2, e3⟩ := h.2 hok
  refine ⟨h2, h3, tail, e1, e2, fun fuel hf => ?_⟩
  have hl := src_load_snake_bytes_eq viewV fuel ⟨tail, (BOp.storeSnake (mkC H) bs b).1.refs, 0⟩ (Nat.zero_le _)
  have := congrArg Prod.snd hl
  simp only [Proofs.SrcSlice.viewR, Option.map_id, id] at this
  rw [this]
  exact e3 fuel hf

/-- the snake round trip through the regenerated code, with the boundary: a reference-free builder `b` (`p` bits, within
capacity), `n` bytes.  If the chain depth `snakeDepth p n ≤ 1023`: `store_snake_bytes` returns, `end_cell` builds the cell `c`, and
`load_snake_bytes` on `c.begin_parse()` after skipping the `p` bits `b` held returns exactly `bs`.  Beyond (`> 1023`) the library
refuses: no cell comes out of `store_snake_bytes` + `end_cell` (the store itself raises from depth 1025 on, `end_cell` at 1024). -/
theorem c06_src_snake_roundtrip (H : Bytes → Bytes) (bs : Bytes) (hw : Bytes.WF bs) (b : Builder Cell)
    (hb : Proofs.Builder.Inv b) (hr : b.refs = []) :
    (snakeDepth b.bits.length bs.length ≤ 1023 →
      ∃ b' c, store_snake_bytes (mkC H) bs b = (b', some ()) ∧ end_cell (mkC H) b' = (b', some c) ∧
        ∀ fuel, bs.length + 2 ≤ fuel →
          (Slice_load_snake_bytes viewV fuel ⟨(viewV c).bits.drop b.bits.length, (viewV c).refs, 0⟩).2 = some bs) ∧
    (1023 < snakeDepth b.bits.length bs.length →
      ¬ ∃ b' c, store_snake_bytes (mkC H) bs b = (b', some ()) ∧ end_cell (mkC H) b' = (b', some c)) := by
  have h := c06_src_snake_depth_exact H bs hw b hb hr
  constructor
  · intro hd
    have hok := h.1.mpr (by omega)
    obtain ⟨_, h3, tail, e1, _, e3⟩ := h.2 hok
    have hc := h3.mpr hd
    rw [end_cell_eq] at hc
    obtain ⟨c, hc⟩ := Option.isSome_iff_exists.mp hc
    simp only at hc
    refine ⟨(store_snake_bytes (mkC H) bs b).1, c, Prod.ext rfl hok, by rw [end_cell_eq, hc], fun fuel hf => ?_⟩
    have hv := viewC_mkC H _ _ c hc
    have hb1 : (viewV c).bits = (store_snake_bytes (mkC H) bs b).1.bits := congrArg Prod.fst hv
    have hb2 : (viewV c).refs = (store_snake_bytes (mkC H) bs b).1.refs := congrArg Prod.snd hv
    rw [hb1, hb2, e1, List.drop_left]
    exact e3 fuel hf
  · intro hd ⟨b', c, h1, h2⟩
    have hok : (store_snake_bytes (mkC H) bs b).2 = some () := by rw [h1]
    have h3 := (h.2 hok).2.1
    have hb' : (store_snake_bytes (mkC H) bs b).1 = b' := by rw [h1]
    rw [hb', h2] at h3
    have := h3.mp rfl
    omega

/-- the regenerated snake methods on concrete inputs: 3 bytes into an empty builder over bare trees (constructor total), a
130-byte string splits 127 + 3 with one reference, and the regenerated reader returns it; hypotheses of the theorems above are
met (`Inv`, reference-free, `snakeDepth 0 130 = 1`). -/
example :
    (store_snake_bytes (fun bits refs => some (SCell.mk bits refs)) [1, 2, 3] (Builder.empty : Builder SCell)).2 = some () ∧
    (store_snake_bytes (fun bits refs => some (SCell.mk bits refs)) (List.replicate 130 7) (Builder.empty : Builder SCell)).1.refs.length = 1 ∧
    (store_snake_bytes (fun bits refs => some (SCell.mk bits refs)) (List.replicate 130 7) (Builder.empty : Builder SCell)).1.bits.length = 1016 ∧
    (Slice_load_snake_bytes (fun c => match c with | SCell.mk bits refs => (⟨bits, refs⟩ : Py.CellV SCell)) 5
      ⟨(store_snake_bytes (fun bits refs => some (SCell.mk bits refs)) (List.replicate 130 7) (Builder.empty : Builder SCell)).1.bits,
       (store_snake_bytes (fun bits refs => some (SCell.mk bits refs)) (List.replicate 130 7) (Builder.empty : Builder SCell)).1.refs, 0⟩).2
      = some (List.replicate 130 7) ∧
    snakeDepth 0 130 = 1 := by
  refine ⟨by decide +kernel, by decide +kernel, by decide +kernel, by decide +kernel, by decide⟩

/-- `preload_ref(offset)` for EVERY offset (the regenerated method; the hand model `SOp.preloadRef` only has offset 0): it returns
the reference `offset` places after the next unread one, raises (IndexError) when there is none, and changes nothing. -/
theorem c06_src_preload_ref_offset (k : Nat) (s : Py.SliceSt R) :
    Generated.SliceOps.preload_ref k s = (s, (Proofs.SrcSlice.view s).refs[k]?) := by
  unfold Generated.SliceOps.preload_ref Py.bindO Proofs.SrcSlice.view
  simp only [List.getElem?_drop]
  cases s.refs[s.ref_offset + k]? <;> rfl

example : (Generated.SliceOps.preload_ref 1 (⟨[], [7, 8, 9], 1⟩ : Py.SliceSt Nat)).2 = some 9 ∧
    (Generated.SliceOps.preload_ref 2 (⟨[], [7, 8, 9], 1⟩ : Py.SliceSt Nat)).2 = none := by decide

end SrcSnake

/-! ## Source-regenerated ARGUMENT FORMS (`Generated/ArgForms.lean`: `store_bit` / `store_bits` at every argument type the code
distinguishes, `store_address(str)`; re-translated from builder.py / tvm_bitarray.py on every run)

A str travels as its UTF-8 bytes; `Py.intOfStr?` = Python's `int(text)`, `Py.bitsOfStr?` / `Py.bitsOfInts?` = what `bitarray.extend`
accepts of a text / a list of ints (trusted readings in PyBits.lean, validated against CPython / bitarray on every change). -/
section SrcForms
open TonVerif.Proofs.SrcBuilder TonVerif.Proofs.SrcForms TonVerif.Generated.ArgForms

/-- what EVERY argument form of `store_bit` / `store_bits` accepts, refuses and stores, for all arguments and builder states
(`ofFlag (BOp.storeBit ..)` / `ofFlag (BOp.storeBits ..)` = the hand model's store of those bits: capacity test, then append):
* `store_bit(bool)`: that bit;  `store_bit(text)`: `int(text)` must be 0 or 1, that bit;  `store_bit(TvmBitarray)`: its FIRST bit
  (nothing for an empty one);  `store_bit(plain bitarray | list)`: returns, stores NOTHING (no `isinstance` branch applies);
* `store_bits(text)`: refused when `len(text)` (skipped whitespace / `_` included) does not fit or a character is not `0 1 _`
  or whitespace, else exactly the bits of the text;  `store_bits(list | tuple of ints)`: refused when the number of items does not
  fit or an item is not 0 / 1, else those bits;  `store_bits(plain bitarray)` = `store_bits(TvmBitarray)`;
  `store_bits(iterator)`: always refused (`len`), nothing stored.
A refused call leaves the builder unchanged in every form. -/
theorem c06_src_store_bits_forms (v : Bool) (s : Bytes) (x : Bits) (xs : List Int) (b : Builder R) :
    store_bit_bool v b = ofFlag (BOp.storeBit v b) ∧
    store_bit_str s b = (match Py.intOfStr? s with
      | some i => if i = 0 ∨ i = 1 then ofFlag (BOp.storeBit (decide (i = 1)) b) else (b, none)
      | none => (b, none)) ∧
    store_bit_bits x b = ofFlag (BOp.storeBits (x.take 1) b) ∧
    store_bit_bitarray x b = (b, some ()) ∧ store_bit_ints xs b = (b, some ()) ∧
    store_bits_str s b = (if b.bits.length + Py.strLen s > 1023 then (b, none) else
      match Py.bitsOfStr? s with
      | none => (b, none)
      | some bs => (⟨b.bits ++ bs, b.refs⟩, some ())) ∧
    store_bits_ints xs b = (if b.bits.length + xs.length > 1023 then (b, none) else
      match Py.bitsOfInts? xs with
      | none => (b, none)
      | some bs => (⟨b.bits ++ bs, b.refs⟩, some ())) ∧
    store_bits_bitarray x b = ofFlag (BOp.storeBits x b) ∧
    store_bits_iter () b = (b, none) :=
  ⟨src_store_bit_bool_eq v b, src_store_bit_str_eq s b, src_store_bit_tvm_eq x b, (src_store_bit_other x xs b).1,
   (src_store_bit_other x xs b).2, src_store_bits_str_eq s b, src_store_bits_ints_eq xs b, src_store_bits_bitarray_eq x b,
   src_store_bits_iter_eq b⟩

/-- the argument forms of `store_address`: `None` and an `Address` object are `c06_src_store`'s cases; a TEXT is parsed by
`Address(text)` - the declared interface function `addrOfStr` (`none` = it raised: nothing is stored) - and then stored exactly as
that `Address` object: the regenerated method equals the hand model's `storeAddress` of the parsed address. -/
theorem c06_src_store_address_forms (addrOfStr : Bytes → Option Py.AddrV) (s : Bytes) (a : Py.AddrV) (b : Builder R) :
    Generated.BuilderOps.store_address_none () b = ofFlag (BOp.storeAddress Addr.none b) ∧
    Generated.BuilderOps.store_address_address a b = ofFlag (BOp.storeAddress (addrOf a) b) ∧
    store_address_str addrOfStr s b = (match addrOfStr s with
      | none => (b, none)
      | some a' => ofFlag (BOp.storeAddress (addrOf a') b)) := by
  refine ⟨src_store_address_none_eq () b, src_store_address_std_eq a b, ?_⟩
  rw [src_store_address_str_eq]
  cases addrOfStr s with
  | none => rfl
  | some a' => exact src_store_address_std_eq a' b

/-- the readings on concrete arguments (the cases above all occur): `int(' 1 ') = 1`, `int('1_0') = 10`, `int('x')` raises;
`'0 1_1'` is the bits 011, `'012'` is refused; `[1, 0, 1]` is 101, `[0, 2]` is refused; `store_bits('0 1')` at 1021 bits is refused
although only two bits would be written (the capacity test counts the three characters). -/
example : Py.intOfStr? [32, 49, 32] = some 1 ∧ Py.intOfStr? [49, 95, 48] = some 10 ∧ Py.intOfStr? [120] = none ∧
    Py.bitsOfStr? [48, 32, 49, 95, 49] = some [false, true, true] ∧ Py.bitsOfStr? [48, 49, 50] = none ∧
    Py.bitsOfInts? [1, 0, 1] = some [true, false, true] ∧ Py.bitsOfInts? [0, 2] = none ∧
    (store_bits_str [48, 32, 49] (⟨List.replicate 1021 false, []⟩ : Builder Nat)).2 = none ∧
    (store_bits_str [48, 32, 49] (⟨List.replicate 1020 false, []⟩ : Builder Nat)).2 = some () ∧
    (store_bit_str [50] (Builder.empty : Builder Nat)).2 = none ∧
    (store_bit_str [49] (Builder.empty : Builder Nat)).1.bits = [true] := by
  refine ⟨by decide, by decide, by decide, by decide, by decide, by decide, by decide, by decide +kernel, by decide +kernel,
    by decide, by decide⟩

end SrcForms

/-- the depth closed form at the boundaries (empty first builder: room for 127 bytes; 1016 bits prefilled: room for
0): the longest storable snake, one byte more (stored, but the root cannot be finished), one chunk more (refused). -/
example : snakeDepth 0 127 = 0 ∧ snakeDepth 0 128 = 1 ∧ snakeDepth 0 (127 * 1024) = 1023 ∧
    snakeDepth 0 (127 * 1024 + 1) = 1024 ∧ snakeDepth 0 (127 * 1025 + 1) = 1025 ∧
    snakeDepth 1016 (127 * 1023) = 1023 ∧ snakeDepth 1016 (127 * 1023 + 1) = 1024 ∧ snakeDepth 3 127 = 0 ∧
    snakeDepth 1023 1 = 1 := by decide

/-- hypotheses of `c06_snake_depth_exact` are met by a builder holding 3 bits and a 300-byte string (depth 2). -/
example : Proofs.Builder.Inv (⟨[true, false, true], []⟩ : Builder Cell) ∧ Bytes.WF (List.replicate 300 65) ∧
    snakeDepth 3 300 = 2 := by
  refine ⟨by simp [Proofs.Builder.Inv], ?_, by decide⟩
  intro x hx
  rw [List.mem_replicate] at hx
  omega

/-- `chunks127` on a concrete string: 300 bytes = 127 + 127 + 46. -/
example : (chunks127 (List.replicate 300 65)).map List.length = [127, 127, 46] := by decide +kernel

end TonVerif.Properties.C06
