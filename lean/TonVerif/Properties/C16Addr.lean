/-
C16, address reads: the reader `Rd.loadAddress` that the regenerated TL-B parsers of tlb/transaction.py / tlb/block.py call for
`S.load_address()` (Model/TlbRdTx.lean; a hand model there) IS the regenerated `Slice.load_address` of boc/slice.py
(Generated/SliceOps.lean, re-translated on every run by harness/translate/bsops.py), as a value function on the remaining bits.
So `c16_model_load_address_ext / _int` and every `c16_src_*` parser theorem that goes through an address speak about what
boc/slice.py says now.  Proof: Proofs/SrcLoadAddress.lean (regenerated = `SOp.loadAddress`: C06's tie `src_load_address_eq`;
`SOp.loadAddress` = `Rd.loadAddress`: case by case over the four tags).
-/
import TonVerif.Proofs.SrcLoadAddress

namespace TonVerif.Properties.C16Addr
open TonVerif TonVerif.Model TonVerif.Tlb TonVerif.Proofs.SrcLoadAddress

/-- `Rd.loadAddress` = the regenerated `Slice.load_address`, for EVERY fragment (bits, references): it refuses exactly when the
method raises (fewer than 2 bits; `addr_extern` cut short; anycast depth 0 - via `load_uint(0)` / the explicit test -; `addr_std`
cut short; tag `11` = `addr_var`, after the anycast prefix was read) and otherwise returns the Python value of the method's
result (`valOfAddrR`: `None` for `addr_none`, `ExternalAddress(external_address, len)` with value 0 for length 0,
`Address(wc, hash_part, anycast)` with `Anycast(depth, rewrite_pfx)` or `None`) together with exactly the bits the method leaves;
the references are not touched.  Stated for a slice whose references were partly consumed (`ref_offset`) as well. -/
theorem c16_src_load_address (s : Frag) (st : Py.SliceSt Tlb.Cell) :
    (Rd.loadAddress s =
      match Generated.SliceOps.load_address (⟨s.bits, s.refs, 0⟩ : Py.SliceSt Tlb.Cell) with
      | (st', some a) => some (valOfAddrR a, ⟨st'.bits, s.refs⟩)
      | (_, none) => none) ∧
    (Rd.loadAddress ⟨st.bits, st.refs.drop st.ref_offset⟩ =
      match Generated.SliceOps.load_address st with
      | (st', some a) => some (valOfAddrR a, ⟨st'.bits, st.refs.drop st.ref_offset⟩)
      | (_, none) => none) :=
  ⟨by cases s; exact rd_loadAddress_src ⟨_, _, 0⟩, rd_loadAddress_src st⟩

/-- the four tags on concrete bits, through the REGENERATED method: `00` → `None`, one bit left; `01` len 3 value 5 → an
`ExternalAddress`; `10` + anycast depth 3 prefix 5 + wc −1 + 256 hash bits → an `Address` with its `Anycast`, the trailing bit
left; `11` → raises; `10` cut short → raises.  And `valOfAddrR` on them. -/
example :
    (Generated.SliceOps.load_address (⟨[false, false, true], [], 0⟩ : Py.SliceSt Tlb.Cell)).2.map valOfAddrR = some .unit ∧
    (Generated.SliceOps.load_address (⟨[false, false, true], [], 0⟩ : Py.SliceSt Tlb.Cell)).1.bits = [true] ∧
    (Generated.SliceOps.load_address (⟨[false, true, false, false, false, false, false, false, false, true, true, true, false, true], [], 0⟩ :
        Py.SliceSt Tlb.Cell)).2.map valOfAddrR =
      some (Rd.obj "ExternalAddress" [("external_address", .int 5), ("len", .int 3)]) ∧
    (match (Generated.SliceOps.load_address (⟨[true, false, true, false, false, false, true, true, true, false, true] ++ List.replicate 8 true ++
        List.replicate 256 false ++ [true], [], 0⟩ : Py.SliceSt Tlb.Cell)).2 with
      | some (.std a) => decide (a.wc = -1 ∧ a.hash_part = List.replicate 32 0 ∧
          a.anycast.map (fun c => (c.depth, c.rewrite_pfx)) = some (3, 5))
      | _ => false) = true ∧
    valOfAddrR (.std ⟨-1, [171], some ⟨3, 5⟩⟩) = Rd.obj "Address" [("wc", .int (-1)), ("hash_part", .bits (natToBits 8 171)),
        ("anycast", Rd.obj "Anycast" [("depth", .int 3), ("rewrite_pfx", .int 5)])] ∧
    (Generated.SliceOps.load_address (⟨[true, false, true, false, false, false, true, true, true, false, true] ++ List.replicate 8 true ++
        List.replicate 256 false ++ [true], [], 0⟩ : Py.SliceSt Tlb.Cell)).1.bits = [true] ∧
    (Generated.SliceOps.load_address (⟨[true, true, false] ++ List.replicate 300 false, [], 0⟩ : Py.SliceSt Tlb.Cell)).2.isNone = true ∧
    (Generated.SliceOps.load_address (⟨[true, false, false] ++ List.replicate 100 false, [], 0⟩ : Py.SliceSt Tlb.Cell)).2.isNone = true ∧
    (Rd.loadAddress ⟨[true, true, false] ++ List.replicate 300 false, []⟩).isNone = true := by
  refine ⟨by rfl, by decide +kernel, by rfl, by decide +kernel, by rfl, by decide +kernel, by decide +kernel, by decide +kernel,
    by decide +kernel⟩

end TonVerif.Properties.C16Addr
