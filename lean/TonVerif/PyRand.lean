/-
Meaning of what the loop / random-stream extension of the glue-code translator (harness/translate/pyrand.py) emits in addition to
PyBytes.lean / PyInt.lean / PyCrypto.lean.  Hand-written, core Lean only.

* the RANDOM SOURCE is a parameter `rnd : Nat → Bytes` (`rnd k` = the answer of the k-th `os.urandom` call of the run, an ARBITRARY
  stream: nothing is assumed about its values or lengths); a function that draws from it takes the index of the next call as its
  last argument and returns the index after its last draw beside its value;
* Python FLOAT arithmetic is a DECLARED INTERFACE `FloatIf` (a parameter `Fl` of every regenerated definition): the translator
  writes `Fl.add` / `Fl.sub` / `Fl.mul` for `+ - *` with a float operand (an int operand is converted by `Fl.ofInt`, as CPython
  does), `Fl.pow` for `math.pow`, `Fl.trunc` for `int(<float>)`, `Fl.ceilLog2?` for `math.ceil(math.log2(<int>))` (`none` =
  ValueError for an argument ≤ 0).  The theorems that hold for EVERY `Fl` assume nothing about IEEE arithmetic; `intFloat` is the
  EXACT reading (every float that occurs is an integer that a double represents exactly, the logarithm is exact), which is what
  CPython computes as long as all intermediate values stay below 2^53 and `math.log2` rounds to the right side of an integer —
  validated against CPython on ranges up to 2^47 on every change (harness/translate/adnlsrc.py).
-/
import TonVerif.Basic

namespace TonVerif.Py

/-- the float operations the translated code uses (total: for the operand sizes that occur — exponents ≤ 53 — none raises). -/
structure FloatIf where
  T : Type
  /-- the implicit int → float conversion of mixed arithmetic / of `math.pow` arguments -/
  ofInt : Int → T
  add : T → T → T
  sub : T → T → T
  mul : T → T → T
  /-- `math.pow(a, b)` -/
  pow : T → T → T
  /-- `int(x)` for a float `x` (truncation towards zero) -/
  trunc : T → Int
  /-- `math.ceil(math.log2(n))` for an int `n`; `none` = ValueError (math domain error, `n ≤ 0`) -/
  ceilLog2? : Int → Option Int

/-- `os.urandom(n)`, k-th call of the run: ValueError for a negative size; the answer is `rnd k` (its length is NOT assumed to be `n`). -/
def urandom? (rnd : Nat → Bytes) (k : Nat) (n : Int) : Option (Bytes × Nat) :=
  if n < 0 then none else some (rnd k, k + 1)

/-- `math.ceil(a / k)` for an int `a` and a positive int literal `k` (exact integer ceiling; the float division agrees below 2^53). -/
def ceilDivI (a : Int) (k : Nat) : Int := -((-a) / (k : Int))

/-- Python `a & b` on arbitrary ints (two's complement with infinitely many sign bits): `m & ~n = m - (m & n)`, `~m & ~n = ~(m | n)`. -/
def intAnd : Int → Int → Int
  | .ofNat m, .ofNat n => ((m &&& n : Nat) : Int)
  | .ofNat m, .negSucc n => ((m - (m &&& n) : Nat) : Int)
  | .negSucc m, .ofNat n => ((n - (n &&& m) : Nat) : Int)
  | .negSucc m, .negSucc n => .negSucc (m ||| n)

/-- exact `ceil(log2 n)` for `n ≥ 1`. -/
def clog2 (n : Nat) : Nat := if n ≤ 1 then 0 else Nat.log2 (n - 1) + 1

/-- the EXACT reading of the float interface: floats that are integers, computed without rounding. -/
def intFloat : FloatIf where
  T := Int
  ofInt := id
  add := (· + ·)
  sub := (· - ·)
  mul := (· * ·)
  pow := fun a b => a ^ b.toNat
  trunc := id
  ceilLog2? := fun n => if n ≤ 0 then none else some (clog2 n.toNat : Nat)

end TonVerif.Py
