/-
Meaning of the Python operations that the TL-engine translator (harness/translate/pydyn.py + tlengine.py) emits calls to,
in addition to PyBytes.lean / PyInt.lean.  Hand-written, core Lean only (no Mathlib).  This file is the translator's trusted
reading of

* a DYNAMICALLY typed Python value (`Spec.Tl.Val`: int, bool, bytes, str, list, dict with an optional `'@type'` entry) with
  `isinstance` tests, projections, dict / list access;
* a TL TYPE STRING as classified by the table translator (`TyS` = conditional prefix `f.N?`, `(vector T)` wrapper, element
  type) with the string tests the engine performs on it (`type_.split('?')[1]`, `type_.startswith('(')`, ...);
* `int.to_bytes` / `int.from_bytes` with a dynamic `signed=` flag, `bytes.hex()`, `bin(x)` as a string.

It is validated against CPython running the real source on every change (harness/translate/tlengine.py `validate`).
-/
import TonVerif.Spec.Tl
import TonVerif.PyBytes

namespace TonVerif.Py.Tl
open TonVerif TonVerif.Spec.Tl

/-! ### type strings -/

/-- a field type string of a schema as the engine reads it: `cond = some (f, N)` for the prefix `f.N?`, `vec` for the
wrapper `(vector T)`, `ty` the (element) type. -/
structure TyS where
  cond : Option (Nat × Nat)
  vec : Bool
  ty : ETy
deriving DecidableEq, Repr, Inhabited

/-- the type string of an entry of `schema.args` -/
def TyS.ofArg (a : Arg) : TyS := ⟨a.cond, a.vec, a.ty⟩
/-- the string of a plain (unconditional, non-vector) type, e.g. the literal `'string'` -/
def TyS.base (e : ETy) : TyS := ⟨none, false, e⟩
/-- `'mode' in type_ or 'flags' in type_` / `'?' in type_` -/
def TyS.isCond (t : TyS) : Bool := t.cond.isSome
/-- `type_.split('?')[1]` / `type_.split('?')[-1]` of a conditional type string -/
def TyS.strip (t : TyS) : TyS := { t with cond := none }
/-- `int(type_[type_.find('.') + 1: type_.find('?')])` of a conditional type string -/
def TyS.condBit (t : TyS) : Nat := match t.cond with | some (_, b) => b | none => 0
/-- `type_.startswith('(')` (a bundled type string starts with `(` exactly when it is `(vector T)`) -/
def TyS.isParen (t : TyS) : Bool := t.cond.isNone && t.vec
/-- `'vector' in type_` of a type string starting with `(` -/
def TyS.isVector (t : TyS) : Bool := t.vec
/-- `type_.split()[1][:-1]` of `(vector T)`: the string `T` -/
def TyS.elem (t : TyS) : TyS := ⟨none, false, t.ty⟩
/-- `self.get_by_class_name(type_)`; `None` is read as `[]` (only its truth value, length and items are used) -/
def TyS.classOf (T : Table) (t : TyS) : List Ctor :=
  match t.cond, t.vec, t.ty with
  | none, false, .boxed cl => T.byClass cl
  | _, _, _ => []
/-- `self.get_by_name(type_)` -/
def TyS.ctorOf (T : Table) (t : TyS) : Option Ctor :=
  match t.cond, t.vec, t.ty with
  | none, false, .bare n => T.byName n
  | _, _, _ => none

/-- `schema._id`: the 4 id bytes, big-endian (`to_bytes(4, 'big')` of the CRC / `bytes.fromhex` of the explicit id). -/
def idBytes (c : Ctor) : Bytes := (natToLE 4 c.id).reverse

/-- `get_by_id(d, 'little')` for a `bytes` argument: the keys of `id_map` are 4-byte ids. -/
def byIdLE (T : Table) (d : Bytes) : Option Ctor := if d.length = 4 then T.byId (natOfLE d) else none

/-! ### dynamically typed values -/

def isBool : Val → Bool | .bool _ => true | _ => false
def isBytes : Val → Bool | .bytes _ => true | _ => false
/-- `isinstance(v, int)`: a `bool` is an `int`. -/
def isInt : Val → Bool | .int _ => true | .bool _ => true | _ => false
def isStr : Val → Bool | .str _ => true | .hex _ => true | _ => false
def isDict : Val → Bool | .obj _ _ => true | _ => false

def getBool : Val → Bool | .bool b => b | _ => false
def getBytes : Val → Bytes | .bytes b => b | _ => []
def getInt : Val → Int | .int i => i | .bool b => if b then 1 else 0 | _ => 0

def hexChar (n : Nat) : Nat := if n < 10 then 48 + n else 87 + n
/-- ASCII of `b.hex()` -/
def hexAscii (b : Bytes) : Bytes := b.flatMap (fun x => [hexChar (x / 16), hexChar (x % 16)])

/-- `s.encode()` of a `str` value -/
def encodeStr : Val → Bytes | .str u => u | .hex b => hexAscii b | _ => []
/-- `bytes.fromhex(s)`: only the strings `b.hex()` are in the modelled domain (anything else = raises). -/
def fromHex? : Val → Option Bytes | .hex b => some b | _ => none

/-- `'@type' in d` for a dict `d` -/
def hasType : Val → Bool | .obj (some _) _ => true | _ => false
/-- `d['@type']` (KeyError / TypeError = none) -/
def typeOf? : Val → Option Nat | .obj (some n) _ => some n | _ => none
/-- `d.get(k)` for a field name `k`: outer `none` = AttributeError (not a dict), inner `none` = `None`. -/
def dictGet? : Val → Nat → Option (Option Val) | .obj _ fs, k => some (fs.lookup k) | _, _ => none
/-- `d[k]` for a field name `k` (KeyError / TypeError = none) -/
def dictItem? : Val → Nat → Option Val | .obj _ fs, k => fs.lookup k | _, _ => none
/-- `len(v)` of the value of a vector field: only lists are in the modelled domain (anything else = raises). -/
def listLen? : Val → Option Nat | .list vs => some vs.length | _ => none
/-- `for x in v` over the value of a vector field -/
def listItems? : Val → Option (List Val) | .list vs => some vs | _ => none

/-- `d[k] = v` on a dict: replaces the entry of an existing key, appends a new one. -/
def setField : Fields → Nat → Val → Fields
  | [], k, v => [(k, v)]
  | (k', v') :: fs, k, v => if k' == k then (k', v) :: fs else (k', v') :: setField fs k v
def dictSet : Val → Nat → Val → Val | .obj ty fs, k, v => .obj ty (setField fs k v) | d, _, _ => d
/-- `d['@type'] = n` -/
def dictSetType? : Val → Nat → Option Val | .obj _ fs, n => some (.obj (some n) fs) | _, _ => none
/-- `k in d` / `k not in d` for a field name `k` and a dict `d` -/
def dictHas : Val → Nat → Bool | .obj _ fs, k => (fs.lookup k).isSome | _, _ => false

/-! ### numbers and bytes -/

/-- `v.to_bytes(w, 'little' | 'big', signed=s)`; `none` = OverflowError. -/
def intToBytes? (signed little : Bool) (w : Nat) (v : Int) : Option Bytes :=
  let ok : Bool := if signed then decide (-(2 ^ (8 * w - 1) : Int) ≤ v ∧ v < (2 ^ (8 * w - 1) : Int))
                   else decide (0 ≤ v ∧ v < (2 ^ (8 * w) : Int))
  if ok then
    let le := natToLE w (v % (256 ^ w : Nat)).toNat
    some (if little then le else le.reverse)
  else none

/-- `int.from_bytes(bs, 'little' | 'big', signed=s)` (the sign is taken from the actual length of `bs`). -/
def intOfBytes (signed little : Bool) (bs : Bytes) : Int :=
  let n := natOfLE (if little then bs else bs.reverse)
  if signed && decide (bs.length ≠ 0 ∧ 2 ^ (8 * bs.length - 1) ≤ n) then (n : Int) - (2 ^ (8 * bs.length) : Nat) else n

/-- `bs * n` for any int `n` (a negative count gives the empty string). -/
def repeatI (bs : Bytes) (n : Int) : Bytes := (List.replicate n.toNat bs).flatten

/-- the characters of `bin(m).replace('0b', '')[::-1]`: binary digits, least significant first (`'0'` for zero), followed by
`'-'` for a negative number. -/
def binDigitsRev : Nat → Nat → List Nat
  | 0, _ => []
  | fuel+1, n => (48 + n % 2) :: (if n / 2 = 0 then [] else binDigitsRev fuel (n / 2))
def binRev (m : Int) : List Nat :=
  binDigitsRev (m.natAbs + 1) m.natAbs ++ (if m < 0 then [45] else [])

/-! ### the parser (`TlSchemas.deserialize`) -/

/-- the key `'_'` of the one-field pseudo schema `{'_': subtype}` through which the elements of a vector of a base type are read
(the dict built for it holds no other key and is dropped again by `deser['_']`). -/
def pseudoKey : Nat := 0
/-- the item `(field, type string)` of an `args` dict -/
def argOf (k : Nat) (t : TyS) : Arg := ⟨k, t.cond, t.vec, t.ty⟩

/-- `bin(result.get('mode', result.get('flags'))).replace('0b', '')[::-1]`: the value stored under `mode`, else under `flags`
(`bin(None)`, `bin('..')` raise; a `bool` is an int: `bin(True)` = `'0b1'`). -/
def maskOf? (T : Table) : Val → Option (List Nat)
  | .obj _ fs =>
    match (match fs.lookup T.modeKey with | some v => some v | none => fs.lookup T.flagsKey) with
    | some (.int m) => some (binRev m)
    | some (.bool b) => some (binRev (if b then 1 else 0))
    | _ => none
  | _ => none

/-- `schema is not None and schema.name in self.untouchables and field in self.untouchables[schema.name]` -/
def untouchable (T : Table) (schema : Option Ctor) (field : Nat) : Bool :=
  match schema with
  | some c => T.untouch.contains (c.name, field)
  | none => false

/-- `v.decode()`: only `bytes` has the method (AttributeError = none); invalid UTF-8 raises. -/
def decode? : Val → Option Val
  | .bytes b => if utf8Valid b then some (.str b) else none
  | _ => none

/-- `d[k].append(x)`: KeyError if `k` is missing, AttributeError if the entry is not a list. -/
def dictAppend? : Val → Nat → Val → Option Val
  | .obj ty fs, k, x =>
    match fs.lookup k with
    | some (.list vs) => some (.obj ty (setField fs k (.list (vs ++ [x]))))
    | _ => none
  | _, _, _ => none

/-! ### block.py: the dict form of a block id (str keys as numbers) -/

def kWorkchain : Nat := 0
def kShard : Nat := 1
def kSeqno : Nat := 2
def kRootHash : Nat := 3
def kFileHash : Nat := 4
/-- a value stored in an attribute declared `int` (anything else builds an object outside the modelled domain = none) -/
def asInt? : Val → Option Int | .int i => some i | _ => none
/-- a value stored in an attribute declared `bytes` -/
def asBytes? : Val → Option Bytes | .bytes b => some b | _ => none

end TonVerif.Py.Tl
