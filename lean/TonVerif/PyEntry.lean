/-
Meaning of the constructor calls and library calls that the value-level glue translator (harness/translate/pyvalue.py, declared in
harness/translate/entrysrc.py) emits.  Hand-written, core Lean only: the translator's TRUSTED READING of

  * a constructed `Cell` object = a `Model.PCell` (the cached attributes `CellInfo` + the child objects): `cell.bits` / `cell.type_`
    are `info.bits` / `info.kind`, `cell.refs` the child objects;
  * `Cell(bits, refs, cell_type)` = the REGENERATED `Cell.__init__` (Generated/CellCtor.lean) run on the children's cached attributes;
    the new object keeps the child objects it was given;
  * a `Slice` / `Builder` object = the record of its attributes (`Py.SliceObj`, `Py.BuilderObj`); `Slice(bits, refs, type_)` stores the
    three and `ref_offset = 0`, `Builder()` is empty with `type_ = -1` (both checked against the two `__init__`s by entrysrc.py);
  * `builder.store_cell(cell)` = the REGENERATED `Builder.store_cell` (Generated/BuilderOps.lean, C06 / C07's tie) on the builder's
    bits / refs, returning the builder;
  * the class `Cell` passed to `Boc.deserialize` = the constructor above, raising on a `None` child (`liftMk`, Model/BocCellsView.lean).

Validated against CPython on every change (entrysrc.py `validate`).
-/
import TonVerif.Model.PCell
import TonVerif.Model.CellCtorView
import TonVerif.Model.BocCellsView
import TonVerif.Generated.BuilderOps

namespace TonVerif.Py
open TonVerif TonVerif.Model

/-- a `Slice` object: the bits not consumed yet, ALL references of the cell, the cell type, how many references were consumed -/
structure SliceObj (R : Type) where
  bits : Bits
  refs : List R
  type_ : Int
  ref_offset : Nat
  deriving Repr

/-- a `Builder` object: `_bits`, `_refs`, `type_` -/
structure BuilderObj (R : Type) where
  bits : Bits
  refs : List R
  type_ : Int
  deriving Repr

/-- `Cell(bits, refs, cell_type)`: the regenerated constructor on the children's cached attributes (`none` = it raises) -/
def newCell (H : Bytes → Bytes) (bits : Bits) (refs : List PCell) (ty : Int) : Option PCell :=
  (Generated.CellCtor.init H bits (refs.map PCell.info) ty).map fun o => PCell.mk o.toInfo refs

/-- `Slice(bits, refs, type_)` -/
def newSlice {R : Type} (bits : Bits) (refs : List R) (ty : Int) : SliceObj R := ⟨bits, refs, ty, 0⟩

/-- `Builder()` -/
def newBuilder {R : Type} : BuilderObj R := ⟨[], [], -1⟩

/-- `builder.store_cell(cell)` (returns the builder): the regenerated `Builder.store_cell` -/
def storeCell (b : BuilderObj PCell) (c : PCell) : Option (BuilderObj PCell) :=
  let r := Generated.BuilderOps.store_cell (⟨c.info.bits, c.refs⟩ : Py.CellV PCell) (⟨b.bits, b.refs⟩ : Builder PCell)
  r.2.map fun _ => { b with bits := r.1.bits, refs := r.1.refs }

/-- the class `Cell` as the callback of `Boc.deserialize(cls)` -/
def cellClass (H : Bytes → Bytes) : Bits → List (Option PCell) → Int → Option PCell := Generated.BocCells.liftMk (newCell H)

end TonVerif.Py
