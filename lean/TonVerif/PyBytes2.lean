/-
Meaning of the further Python `bytes` operations that the arithmetic/decision-line translator (harness/translate/pyarith.py,
round 2) emits calls to, next to `Py.slice` of `PyBytes.lean`.  Hand-written, core Lean only.  Like `PyInt.lean` this file is the
translator's trusted reading of the built-ins; the per-run differential validation (arith.validate) compares every regenerated
definition that uses them with the Python source on sampled points.
-/
import TonVerif.PyBytes
namespace TonVerif.Py

/-- `xs[a:]` for `0 ≤ a`. -/
def sliceFrom {α : Type} (xs : List α) (a : Nat) : List α := xs.drop a

/-- `xs[i]` for `0 ≤ i < len(xs)` (the translator emits the side condition `i < xs.length`: Python raises IndexError
otherwise; the value `0` outside is never used by a theorem whose side condition is proved). -/
def byteAt (xs : Bytes) (i : Nat) : Nat := xs.getD i 0

/-- `v.to_bytes(w, 'big' | 'little')` for `0 ≤ v < 256^w` (the translator emits that side condition: Python raises
OverflowError otherwise). -/
def toBytes (big : Bool) (w v : Nat) : Bytes := if big then natToBE w v else (natToBE w v).reverse

/-- `int.from_bytes(bs, 'big' | 'little')` (unsigned). -/
def fromBytes (big : Bool) (bs : Bytes) : Nat := if big then natOfBE bs else natOfBE bs.reverse

/-- `bs * n` / `n * bs` for `0 ≤ n`: `n` copies of `bs`. -/
def repeatBytes (bs : Bytes) (n : Nat) : Bytes := (List.replicate n bs).flatten

end TonVerif.Py
