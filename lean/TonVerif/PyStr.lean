/-
Meaning of the signed `int` <-> `bytes` conversions that the Address translator (harness/translate/addrfull.py) emits calls to.
Hand-written, core Lean only.  The translator's trusted reading of `int.from_bytes(bs, 'big', signed=True)` and
`z.to_bytes(w, 'big', signed=True)`; validated against CPython on every change (addrfull.validate).
-/
import TonVerif.Basic

namespace TonVerif.Py

/-- `int.from_bytes(bs, 'big', signed=True)`: two's complement over `8 * len(bs)` bits (`0` for `b''`). -/
def fromBytesSigned (bs : Bytes) : Int :=
  let v := natOfBE bs
  if 256 ^ bs.length ≤ 2 * v then (v : Int) - ((256 ^ bs.length : Nat) : Int) else (v : Int)

/-- `z.to_bytes(w, 'big', signed=True)`; `none` = OverflowError (`z` outside `-2^(8w-1) .. 2^(8w-1)-1`). -/
def toBytesSigned? (w : Nat) (z : Int) : Option Bytes :=
  if -((256 ^ w : Nat) : Int) ≤ 2 * z ∧ 2 * z < ((256 ^ w : Nat) : Int) then some (natToBE w (z % ((256 ^ w : Nat) : Int)).toNat)
  else none

end TonVerif.Py
