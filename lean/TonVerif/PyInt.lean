/-
Meaning of the Python int built-ins that the source translator (harness/translate/pyarith.py) emits calls to.
Hand-written, core Lean only.  These three definitions are the translator's trusted reading of
`int.bit_length()`, `bin(x).count('1')` and `math.ceil(a / k)`; Proofs/SrcArith.lean proves the
characterisations quoted in the doc comments.
-/
namespace TonVerif.Py

/-- `x.bit_length()` for `x ≥ 0`: number of binary digits, `0` for `0`; i.e. the least `k` with `x < 2^k`
(`Proofs.SrcArith.bitLength_le_iff`). -/
def bitLength (n : Nat) : Nat := if n = 0 then 0 else Nat.log2 n + 1

/-- `bin(x).count('1')` for `x ≥ 0`: the number of positions `i` below the bit length at which `x` has a one bit. -/
def popcount (n : Nat) : Nat := ((List.range (bitLength n)).filter (fun i => n.testBit i)).length

/-- `math.ceil(a / k)` for `a ≥ 0`, `k > 0` (exact integer ceiling; the Python float division agrees below 2^53). -/
def ceilDiv (a k : Nat) : Nat := (a + k - 1) / k

/-- number of base-256 digits (`0` for `0`) = the least `w` with `n < 256^w` (`Proofs.SrcArith.lt_pow_byteWidth`,
`byteWidth_le_iff`): the width an unsigned big-endian field needs to hold `n`. Not emitted by the translator; it is the
reference the BoC size/offset width computations are compared with. -/
def byteWidth : Nat → Nat
  | 0 => 0
  | n+1 => 1 + byteWidth ((n+1) / 256)
decreasing_by omega

end TonVerif.Py
