/-
C17 round trip, part 2: the recursions.  One lemma per constructor of `IsTuple`, `IsTupleRef`, `IsStackList`,
`IsCont`, `IsCtl` with the recursive calls as hypotheses, then the mutual recursion over the derivation:
`de_*`: `IsX view ord x b r → From (De.x view ord) b r x`.
-/
import TonVerif.Proofs.VmStackRT

namespace TonVerif.Proofs.Vm
open TonVerif TonVerif.Model TonVerif.Model.Vm TonVerif.Spec.Vm

variable {R : Type} {view : R → Bits × List R} {ord : R → Bool}

/-! ### `VmTuple` / `VmTupleRef` / `VmStackList` -/

theorem reads_tuple_nil (fuel : Nat) : Reads (De.tuple view ord (fuel + 1) 0) [] [] [] := by
  rw [De.tuple, if_pos rfl]; exact reads_pure _

theorem reads_tuple_tcons (fuel n : Nat) (c : R) {hd : List (Val R)} {tl : Val R} {hb : Bits} {hr : List R}
    (hhd : Reads (De.tupleRef view ord fuel n) hb hr hd)
    (hv : Reads (De.val view ord fuel) (view c).1 (view c).2 tl) :
    Reads (De.tuple view ord (fuel + 1) (n + 1)) hb (hr ++ [c]) (tl :: hd) := by
  rw [De.tuple, if_neg (by omega)]
  simp only [Nat.add_sub_cancel]
  exact Reads.cast (Reads.bind hhd (Reads.bind (reads_loadRef c) (Reads.bind (reads_sub hv) (reads_pure _))))
    (by simp) (by simp)

theorem reads_tupleRef_nil (fuel : Nat) : Reads (De.tupleRef view ord (fuel + 1) 0) [] [] [] := by
  rw [De.tupleRef, if_pos rfl]; exact reads_pure _

theorem reads_tupleRef_single (fuel : Nat) (c : R) {v : Val R}
    (hv : Reads (De.val view ord fuel) (view c).1 (view c).2 v) :
    Reads (De.tupleRef view ord (fuel + 1) 1) [] [c] [v] := by
  rw [De.tupleRef, if_neg (by omega), if_pos rfl]
  exact Reads.cast (Reads.bind (reads_loadRef c) (Reads.bind (reads_sub hv) (reads_pure _))) (by simp) (by simp)

theorem reads_tupleRef_any (fuel n : Nat) (c : R) {vs : List (Val R)}
    (ht : Reads (De.tuple view ord fuel (n + 2)) (view c).1 (view c).2 vs) :
    Reads (De.tupleRef view ord (fuel + 1) (n + 2)) [] [c] vs := by
  rw [De.tupleRef, if_neg (by omega), if_neg (by omega)]
  exact Reads.cast (Reads.bind (reads_loadRef c) (reads_sub ht)) (by simp) (by simp)

theorem reads_stackList_nil (fuel : Nat) : Reads (De.stackList view ord (fuel + 1) 0) [] [] [] := by
  rw [De.stackList, if_pos rfl]; exact reads_pure _

theorem reads_stackList_cons (fuel n : Nat) (c : R) {rest : List (Val R)} {tos : Val R} {b : Bits} {r : List R}
    (hrest : Reads (De.stackList view ord fuel n) (view c).1 (view c).2 rest)
    (hv : Reads (De.val view ord fuel) b r tos) :
    Reads (De.stackList view ord (fuel + 1) (n + 1)) b (c :: r) (tos :: rest) := by
  rw [De.stackList, if_neg (by omega)]
  simp only [Nat.add_sub_cancel]
  exact Reads.cast (Reads.bind (reads_loadRef c) (Reads.bind (reads_sub hrest) (Reads.bind hv (reads_pure _))))
    (by simp) (by simp)


/-! ### `VmCont` -/

theorem reads_cont_of_branch (fuel i : Nat) (hi : i < 10) {body : Bits} {rs : List R} {a : Cont R}
    (h : Reads (contBranch view ord fuel i) (De.contTags.getD i [] ++ body) rs a) :
    Reads (De.cont view ord (fuel + 1)) (De.contTags.getD i [] ++ body) rs a :=
  h.of_eq (fun b' r' => by rw [List.append_assoc]; exact cont_dispatch fuel i hi _ _)

theorem reads_contRef (fuel : Nat) (c : R) {k : Cont R}
    (h : Reads (De.cont view ord fuel) (view c).1 (view c).2 k) : Reads (contRef view ord fuel) [] [c] k :=
  Reads.cast (Reads.bind (reads_loadRef c) (reads_sub h)) (by simp) (by simp)

theorem reads_cont_quit (fuel : Nat) (code : Int) (h : IntOk 32 code) :
    Reads (De.cont view ord (fuel + 1)) ([true, false, false, false] ++ intBits 32 code) [] (Cont.quit code) :=
  reads_cont_of_branch fuel 2 (by omega)
    (Reads.cast (Reads.bind (reads_skipBits (De.contTags.getD 2 []) 4 rfl) (Reads.bind (reads_loadInt (by decide) h) (reads_pure _)))
      (by simp [De.contTags]) (by simp))

theorem reads_cont_quitExc (fuel : Nat) :
    Reads (De.cont view ord (fuel + 1)) [true, false, false, true] [] Cont.quitExc := by
  have := reads_cont_of_branch (view := view) (ord := ord) fuel 3 (by omega) (body := []) (rs := []) (a := Cont.quitExc)
    (Reads.cast (Reads.bind (reads_skipBits (De.contTags.getD 3 []) 4 rfl) (reads_pure _)) (by simp [De.contTags]) (by simp))
  simpa [De.contTags] using this

theorem reads_cont_std (fuel : Nat) {cd : Ctl R} {cb : Bits} {cr : List R} {b1 b2 : Bits} {r1 r2 : List R}
    (hcd : Reads (De.ctl view ord fuel) b1 r1 cd) (hcs : IsCellSlice view cb cr b2 r2) :
    Reads (De.cont view ord (fuel + 1)) ([false, false] ++ b1 ++ b2) (r1 ++ r2) (Cont.std cd cb cr) := by
  have := reads_cont_of_branch (view := view) (ord := ord) fuel 0 (by omega) (body := b1 ++ b2) (rs := r1 ++ r2)
    (a := Cont.std cd cb cr)
    (Reads.cast (Reads.bind (reads_skipBits (De.contTags.getD 0 []) 2 rfl) (Reads.bind hcd (Reads.bind (reads_cellSlice hcs) (reads_pure _))))
      (by simp [De.contTags]) (by simp))
  simpa [De.contTags] using this

theorem reads_cont_envelope (fuel : Nat) (c : R) {cd : Ctl R} {next : Cont R} {b1 : Bits} {r1 : List R}
    (hcd : Reads (De.ctl view ord fuel) b1 r1 cd) (hn : Reads (De.cont view ord fuel) (view c).1 (view c).2 next) :
    Reads (De.cont view ord (fuel + 1)) ([false, true] ++ b1) (r1 ++ [c]) (Cont.envelope cd next) :=
  reads_cont_of_branch fuel 1 (by omega)
    (Reads.cast (Reads.bind (reads_skipBits (De.contTags.getD 1 []) 2 rfl) (Reads.bind hcd (Reads.bind (reads_contRef fuel c hn) (reads_pure _))))
      (by simp [De.contTags]) (by simp))

theorem reads_cont_repeat (fuel : Nat) (count : Int) (cb ca : R) {body after : Cont R} (hc : UintOk 63 count)
    (hb : Reads (De.cont view ord fuel) (view cb).1 (view cb).2 body)
    (ha : Reads (De.cont view ord fuel) (view ca).1 (view ca).2 after) :
    Reads (De.cont view ord (fuel + 1)) ([true, false, true, false, false] ++ uintBits 63 count) [cb, ca]
      (Cont.repeat_ count body after) :=
  reads_cont_of_branch fuel 4 (by omega)
    (Reads.cast (Reads.bind (reads_skipBits (De.contTags.getD 4 []) 5 rfl) (Reads.bind (reads_loadUint (by decide) hc)
      (Reads.bind (reads_contRef fuel cb hb) (Reads.bind (reads_contRef fuel ca ha) (reads_pure _)))))
      (by simp [De.contTags]) (by simp))

theorem reads_cont_until (fuel : Nat) (cb ca : R) {body after : Cont R}
    (hb : Reads (De.cont view ord fuel) (view cb).1 (view cb).2 body)
    (ha : Reads (De.cont view ord fuel) (view ca).1 (view ca).2 after) :
    Reads (De.cont view ord (fuel + 1)) [true, true, false, false, false, false] [cb, ca] (Cont.until_ body after) := by
  have := reads_cont_of_branch (view := view) (ord := ord) fuel 5 (by omega) (body := []) (rs := [cb, ca])
    (a := Cont.until_ body after)
    (Reads.cast (Reads.bind (reads_skipBits (De.contTags.getD 5 []) 6 rfl)
      (Reads.bind (reads_contRef fuel cb hb) (Reads.bind (reads_contRef fuel ca ha) (reads_pure _))))
      (by simp [De.contTags]) (by simp))
  simpa [De.contTags] using this

theorem reads_cont_again (fuel : Nat) (cb : R) {body : Cont R}
    (hb : Reads (De.cont view ord fuel) (view cb).1 (view cb).2 body) :
    Reads (De.cont view ord (fuel + 1)) [true, true, false, false, false, true] [cb] (Cont.again body) := by
  have := reads_cont_of_branch (view := view) (ord := ord) fuel 6 (by omega) (body := []) (rs := [cb])
    (a := Cont.again body)
    (Reads.cast (Reads.bind (reads_skipBits (De.contTags.getD 6 []) 6 rfl) (Reads.bind (reads_contRef fuel cb hb) (reads_pure _)))
      (by simp [De.contTags]) (by simp))
  simpa [De.contTags] using this

theorem reads_cont_whileCond (fuel : Nat) (cc cb ca : R) {cnd body after : Cont R}
    (hc : Reads (De.cont view ord fuel) (view cc).1 (view cc).2 cnd)
    (hb : Reads (De.cont view ord fuel) (view cb).1 (view cb).2 body)
    (ha : Reads (De.cont view ord fuel) (view ca).1 (view ca).2 after) :
    Reads (De.cont view ord (fuel + 1)) [true, true, false, false, true, false] [cc, cb, ca]
      (Cont.whileCond cnd body after) := by
  have := reads_cont_of_branch (view := view) (ord := ord) fuel 7 (by omega) (body := []) (rs := [cc, cb, ca])
    (a := Cont.whileCond cnd body after)
    (Reads.cast (Reads.bind (reads_skipBits (De.contTags.getD 7 []) 6 rfl) (Reads.bind (reads_contRef fuel cc hc)
      (Reads.bind (reads_contRef fuel cb hb) (Reads.bind (reads_contRef fuel ca ha) (reads_pure _)))))
      (by simp [De.contTags]) (by simp))
  simpa [De.contTags] using this

theorem reads_cont_whileBody (fuel : Nat) (cc cb ca : R) {cnd body after : Cont R}
    (hc : Reads (De.cont view ord fuel) (view cc).1 (view cc).2 cnd)
    (hb : Reads (De.cont view ord fuel) (view cb).1 (view cb).2 body)
    (ha : Reads (De.cont view ord fuel) (view ca).1 (view ca).2 after) :
    Reads (De.cont view ord (fuel + 1)) [true, true, false, false, true, true] [cc, cb, ca]
      (Cont.whileBody cnd body after) := by
  have := reads_cont_of_branch (view := view) (ord := ord) fuel 8 (by omega) (body := []) (rs := [cc, cb, ca])
    (a := Cont.whileBody cnd body after)
    (Reads.cast (Reads.bind (reads_skipBits (De.contTags.getD 8 []) 6 rfl) (Reads.bind (reads_contRef fuel cc hc)
      (Reads.bind (reads_contRef fuel cb hb) (Reads.bind (reads_contRef fuel ca ha) (reads_pure _)))))
      (by simp [De.contTags]) (by simp))
  simpa [De.contTags] using this

theorem reads_cont_pushint (fuel : Nat) (value : Int) (c : R) {next : Cont R} (hv : IntOk 32 value)
    (hn : Reads (De.cont view ord fuel) (view c).1 (view c).2 next) :
    Reads (De.cont view ord (fuel + 1)) ([true, true, true, true] ++ intBits 32 value) [c] (Cont.pushint value next) :=
  reads_cont_of_branch fuel 9 (by omega)
    (Reads.cast (Reads.bind (reads_skipBits (De.contTags.getD 9 []) 4 rfl) (Reads.bind (reads_loadInt (by decide) hv)
      (Reads.bind (reads_contRef fuel c hn) (reads_pure _))))
      (by simp [De.contTags]) (by simp))

/-- every schema encoding of a continuation starts with one of the ten constructor tags -/
theorem isCont_tag {k : Cont R} {b : Bits} {r : List R} (h : IsCont view ord k b r) :
    ∃ i, i < 10 ∧ ∃ rest, b = De.contTags.getD i [] ++ rest := by
  cases h with
  | std _ _ => exact ⟨0, by omega, _, by simp [De.contTags]; rfl⟩
  | envelope _ _ _ => exact ⟨1, by omega, _, rfl⟩
  | quit _ _ => exact ⟨2, by omega, _, rfl⟩
  | quitExc => exact ⟨3, by omega, [], rfl⟩
  | repeat_ _ _ _ _ _ _ => exact ⟨4, by omega, _, rfl⟩
  | until_ _ _ _ _ => exact ⟨5, by omega, [], rfl⟩
  | again _ _ => exact ⟨6, by omega, [], rfl⟩
  | whileCond _ _ _ _ _ _ => exact ⟨7, by omega, [], rfl⟩
  | whileBody _ _ _ _ _ _ => exact ⟨8, by omega, [], rfl⟩
  | pushint _ _ _ _ => exact ⟨9, by omega, _, rfl⟩


/-! ### `VmControlData` -/

/-- `Maybe X` for a scalar: `load_bit`, then the field when the bit is set; `g` = the rest of the parser -/
theorem reads_maybe {β : Type} {load : SOp R Int} {enc : Int → Bits} {ok : Int → Prop}
    (hload : ∀ v, ok v → Reads load (enc v) [] v) (o : Option Int) (ho : MaybeOk ok o)
    {g : Option Int → SOp R β} {x2 : Bits} {r2 : List R} {c : β} (hg : Reads (g o) x2 r2 c) :
    Reads (do let b ← SOp.loadBit
              let x ← (if b then do let n ← load; return some n else return none)
              g x) (maybeBits enc o ++ x2) r2 c := by
  cases o with
  | none =>
    exact Reads.cast (Reads.bind (reads_loadBit false) (Reads.bind (Reads.ite_neg (by simp) (reads_pure none)) hg))
      (by simp [maybeBits]) (by simp)
  | some v =>
    exact Reads.cast (Reads.bind (reads_loadBit true)
      (Reads.bind (Reads.ite_pos rfl (Reads.bind (hload v ho) (reads_pure (some v)))) hg))
      (by simp [maybeBits]) (by simp)

theorem reads_ctl_noStack (fuel : Nat) {nargs cp : Option Int} {save : Option R}
    (hn : MaybeOk (UintOk 13) nargs) (hc : MaybeOk (IntOk 16) cp) :
    Reads (De.ctl view ord (fuel + 1))
      (maybeBits (uintBits 13) nargs ++ [false] ++ [save.isSome] ++ maybeBits (intBits 16) cp) save.toList
      (Ctl.mk nargs none save cp) := by
  rw [De.ctl]
  refine Reads.cast (reads_maybe (fun v hv => reads_loadUint (by decide) hv) nargs hn
    (Reads.bind (reads_loadBit false) (Reads.bind (Reads.ite_neg (by simp) (reads_pure none))
      (Reads.bind (reads_loadMaybeRef save)
        (reads_maybe (fun v hv => reads_loadInt (by decide) hv) cp hc (reads_pure _))))))
    (by simp) (by simp)

theorem reads_ctl_withStack (fuel : Nat) {nargs cp : Option Int} {save : Option R} {st : List (Val R)}
    {b : Bits} {r : List R}
    (hn : MaybeOk (UintOk 13) nargs) (hc : MaybeOk (IntOk 16) cp) (hl : st.length < 2 ^ 24)
    (hst : Reads (De.stackList view ord fuel st.length) b r st) :
    Reads (De.ctl view ord (fuel + 1))
      (maybeBits (uintBits 13) nargs ++ [true] ++ uintBits 24 st.length ++ b ++ [save.isSome] ++
        maybeBits (intBits 16) cp) (r ++ save.toList)
      (Ctl.mk nargs (some st) save cp) := by
  have hst' : Reads (De.stackList view ord fuel (Int.toNat (st.length : Int))) b r st := by simpa using hst
  rw [De.ctl]
  refine Reads.cast (reads_maybe (fun v hv => reads_loadUint (by decide) hv) nargs hn
    (Reads.bind (reads_loadBit true)
      (Reads.bind (Reads.ite_pos rfl (Reads.bind (reads_loadUint (by decide) (uintOk_nat hl))
          (Reads.bind hst' (reads_pure (some st)))))
      (Reads.bind (reads_loadMaybeRef save)
        (reads_maybe (fun v hv => reads_loadInt (by decide) hv) cp hc (reads_pure _))))))
    (by simp) (by simp)

/-- `VmStack.deserialize` -/
theorem reads_stack (fuel : Nat) {vs : List (Val R)} {b : Bits} {r : List R} (hl : vs.length < 2 ^ 24)
    (h : Reads (De.stackList view ord fuel vs.length) b r vs) :
    Reads (De.stack view ord fuel) (uintBits 24 vs.length ++ b) r vs := by
  have h' : Reads (De.stackList view ord fuel (Int.toNat (vs.length : Int))) b r vs := by simpa using h
  exact Reads.cast (Reads.bind (reads_loadUint (by decide) (uintOk_nat hl)) h') rfl (by simp)


/-! ### the parser inverts the schema relation

The model parser spends one unit of `fuel` per nested call (Python has no such budget).  `fuelV` … `fuelC` give a
budget that suffices for a value / tuple / stack list / continuation / control data: one unit for the call itself
plus the budgets of the parts (for a tuple entry two more: `VmTuple` and `VmTupleRef` alternate).  `de_*` is a
mutual structural recursion over the schema derivation: for every budget from that bound on the parser consumes
exactly the encoding from the front of any slice and returns the encoded object. -/

mutual
/-- recursion budget that suffices for `VmStackValue.deserialize` to return `v` -/
def fuelV : Val R → Nat
  | .cont k => fuelK k + 1
  | .tuple vs => fuelT vs + 1
  | _ => 1
/-- … for `VmTuple.deserialize` (`VmTupleRef.deserialize` needs one more) -/
def fuelT : List (Val R) → Nat
  | [] => 1
  | v :: rest => fuelV v + fuelT rest + 2
/-- … for `VmStackList.deserialize` / `VmStack.deserialize` -/
def fuelL : List (Val R) → Nat
  | [] => 1
  | v :: rest => fuelV v + fuelL rest + 1
/-- … for `VmCont.deserialize` -/
def fuelK : Cont R → Nat
  | .std cd _ _ => fuelC cd + 1
  | .envelope cd next => fuelC cd + fuelK next + 1
  | .quit _ => 1
  | .quitExc => 1
  | .repeat_ _ b a => fuelK b + fuelK a + 1
  | .until_ b a => fuelK b + fuelK a + 1
  | .again b => fuelK b + 1
  | .whileCond c b a => fuelK c + fuelK b + fuelK a + 1
  | .whileBody c b a => fuelK c + fuelK b + fuelK a + 1
  | .pushint _ n => fuelK n + 1
/-- … for `VmControlData.deserialize` -/
def fuelC : Ctl R → Nat
  | .mk _ none _ _ => 1
  | .mk _ (some st) _ _ => fuelL st + 1
end

theorem fuel_pred {fuel n : Nat} (h : n + 1 ≤ fuel) : ∃ f, fuel = f + 1 ∧ n ≤ f := ⟨fuel - 1, by omega, by omega⟩

mutual
theorem de_val : ∀ {v : Val R} {b : Bits} {r : List R}, IsValue view ord v b r →
    ∀ fuel, fuelV v ≤ fuel → Reads (De.val view ord fuel) b r v
  | _, _, _, .null, fuel, hf => by
    obtain ⟨f, rfl, _⟩ := fuel_pred (n := 0) (by simpa [fuelV] using hf); exact reads_val_null f
  | _, _, _, .tinyint v hv, fuel, hf => by
    obtain ⟨f, rfl, _⟩ := fuel_pred (n := 0) (by simpa [fuelV] using hf); exact reads_val_tinyint f v hv
  | _, _, _, .int257 v _ hv, fuel, hf => by
    obtain ⟨f, rfl, _⟩ := fuel_pred (n := 0) (by simpa [fuelV] using hf); exact reads_val_int257 f v hv
  | _, _, _, .cell c, fuel, hf => by
    obtain ⟨f, rfl, _⟩ := fuel_pred (n := 0) (by simpa [fuelV] using hf); exact reads_val_cell f c
  | _, _, _, .slice hs, fuel, hf => by
    obtain ⟨f, rfl, _⟩ := fuel_pred (n := 0) (by simpa [fuelV] using hf); exact reads_val_slice f hs
  | _, _, _, .builder c hc hv, fuel, hf => by
    obtain ⟨f, rfl, _⟩ := fuel_pred (n := 0) (by simpa [fuelV] using hf)
    have := reads_val_builder (view := view) f c hc
    rw [hv] at this; exact this
  | _, _, _, .cont hk, fuel, hf => by
    obtain ⟨f, rfl, h1⟩ := fuel_pred (by simpa [fuelV] using hf)
    obtain ⟨i, hi, rest, hb⟩ := isCont_tag hk
    exact reads_val_cont f i hi rest hb (de_cont hk f h1)
  | _, _, _, .tuple hl ht, fuel, hf => by
    obtain ⟨f, rfl, h1⟩ := fuel_pred (by simpa [fuelV] using hf)
    exact reads_val_tuple f hl (de_tuple ht f h1)
theorem de_tuple : ∀ {n : Nat} {vs : List (Val R)} {b : Bits} {r : List R}, IsTuple view ord n vs b r →
    ∀ fuel, fuelT vs ≤ fuel → Reads (De.tuple view ord fuel n) b r vs
  | _, _, _, _, .nil, fuel, hf => by
    obtain ⟨f, rfl, _⟩ := fuel_pred (n := 0) (by simpa [fuelT] using hf); exact reads_tuple_nil f
  | _, _, _, _, .tcons c hhd hv, fuel, hf => by
    simp only [fuelT] at hf
    obtain ⟨f, rfl, h1⟩ := fuel_pred hf
    exact reads_tuple_tcons f _ c (de_tupleRef hhd f (by omega)) (de_val hv f (by omega))
theorem de_tupleRef : ∀ {n : Nat} {vs : List (Val R)} {b : Bits} {r : List R}, IsTupleRef view ord n vs b r →
    ∀ fuel, fuelT vs + 1 ≤ fuel → Reads (De.tupleRef view ord fuel n) b r vs
  | _, _, _, _, .nil, fuel, hf => by
    obtain ⟨f, rfl, _⟩ := fuel_pred hf; exact reads_tupleRef_nil f
  | _, _, _, _, .single c hv, fuel, hf => by
    simp only [fuelT] at hf
    obtain ⟨f, rfl, h1⟩ := fuel_pred hf
    exact reads_tupleRef_single f c (de_val hv f (by omega))
  | _, _, _, _, .any c ht, fuel, hf => by
    obtain ⟨f, rfl, h1⟩ := fuel_pred hf
    exact reads_tupleRef_any f _ c (de_tuple ht f h1)
theorem de_stackList : ∀ {n : Nat} {vs : List (Val R)} {b : Bits} {r : List R}, IsStackList view ord n vs b r →
    ∀ fuel, fuelL vs ≤ fuel → Reads (De.stackList view ord fuel n) b r vs
  | _, _, _, _, .nil, fuel, hf => by
    obtain ⟨f, rfl, _⟩ := fuel_pred (n := 0) (by simpa [fuelL] using hf); exact reads_stackList_nil f
  | _, _, _, _, .cons c hrest hv, fuel, hf => by
    simp only [fuelL] at hf
    obtain ⟨f, rfl, h1⟩ := fuel_pred hf
    exact reads_stackList_cons f _ c (de_stackList hrest f (by omega)) (de_val hv f (by omega))
theorem de_cont : ∀ {k : Cont R} {b : Bits} {r : List R}, IsCont view ord k b r →
    ∀ fuel, fuelK k ≤ fuel → Reads (De.cont view ord fuel) b r k
  | _, _, _, .std hcd hcs, fuel, hf => by
    simp only [fuelK] at hf
    obtain ⟨f, rfl, h1⟩ := fuel_pred hf
    exact reads_cont_std f (de_ctl hcd f h1) hcs
  | _, _, _, .envelope c hcd hn, fuel, hf => by
    simp only [fuelK] at hf
    obtain ⟨f, rfl, h1⟩ := fuel_pred hf
    exact reads_cont_envelope f c (de_ctl hcd f (by omega)) (de_cont hn f (by omega))
  | _, _, _, .quit code h, fuel, hf => by
    obtain ⟨f, rfl, _⟩ := fuel_pred (n := 0) (by simpa [fuelK] using hf); exact reads_cont_quit f code h
  | _, _, _, .quitExc, fuel, hf => by
    obtain ⟨f, rfl, _⟩ := fuel_pred (n := 0) (by simpa [fuelK] using hf); exact reads_cont_quitExc f
  | _, _, _, .repeat_ count cb ca hc hb ha, fuel, hf => by
    simp only [fuelK] at hf
    obtain ⟨f, rfl, h1⟩ := fuel_pred hf
    exact reads_cont_repeat f count cb ca hc (de_cont hb f (by omega)) (de_cont ha f (by omega))
  | _, _, _, .until_ cb ca hb ha, fuel, hf => by
    simp only [fuelK] at hf
    obtain ⟨f, rfl, h1⟩ := fuel_pred hf
    exact reads_cont_until f cb ca (de_cont hb f (by omega)) (de_cont ha f (by omega))
  | _, _, _, .again cb hb, fuel, hf => by
    simp only [fuelK] at hf
    obtain ⟨f, rfl, h1⟩ := fuel_pred hf
    exact reads_cont_again f cb (de_cont hb f h1)
  | _, _, _, .whileCond cc cb ca hc hb ha, fuel, hf => by
    simp only [fuelK] at hf
    obtain ⟨f, rfl, h1⟩ := fuel_pred hf
    exact reads_cont_whileCond f cc cb ca (de_cont hc f (by omega)) (de_cont hb f (by omega)) (de_cont ha f (by omega))
  | _, _, _, .whileBody cc cb ca hc hb ha, fuel, hf => by
    simp only [fuelK] at hf
    obtain ⟨f, rfl, h1⟩ := fuel_pred hf
    exact reads_cont_whileBody f cc cb ca (de_cont hc f (by omega)) (de_cont hb f (by omega)) (de_cont ha f (by omega))
  | _, _, _, .pushint value c hv hn, fuel, hf => by
    simp only [fuelK] at hf
    obtain ⟨f, rfl, h1⟩ := fuel_pred hf
    exact reads_cont_pushint f value c hv (de_cont hn f h1)
theorem de_ctl : ∀ {cd : Ctl R} {b : Bits} {r : List R}, IsCtl view ord cd b r →
    ∀ fuel, fuelC cd ≤ fuel → Reads (De.ctl view ord fuel) b r cd
  | _, _, _, .noStack hn hc, fuel, hf => by
    obtain ⟨f, rfl, _⟩ := fuel_pred (n := 0) (by simpa [fuelC] using hf); exact reads_ctl_noStack f hn hc
  | _, _, _, .withStack hn hc hl hst, fuel, hf => by
    simp only [fuelC] at hf
    obtain ⟨f, rfl, h1⟩ := fuel_pred hf
    exact reads_ctl_withStack f hn hc hl (de_stackList hst f h1)
end


theorem de_stack {vs : List (Val R)} {b : Bits} {r : List R} (h : IsStack view ord vs b r) (fuel : Nat)
    (hf : fuelL vs ≤ fuel) : Reads (De.stack view ord fuel) b r vs := by
  obtain ⟨hl, hs⟩ := h
  exact reads_stack fuel hl (de_stackList hs fuel hf)

/-- whole-cell form: a cell whose content is a schema encoding of `vs` is parsed to `vs` with nothing left over -/
theorem de_stack_cell {vs : List (Val R)} {c : R} (h : IsStack view ord vs (view c).1 (view c).2) (fuel : Nat)
    (hf : fuelL vs ≤ fuel) : De.stack view ord fuel ⟨(view c).1, (view c).2⟩ = (⟨[], []⟩, some vs) := by
  have := de_stack h fuel hf [] []
  simpa using this

end TonVerif.Proofs.Vm
