/-
C14: "fuel suffices".  For a table without a cycle of bare references (`NoBareCycle T R`) the recursion depth of
`deserialize` on ANY input of `n` bytes is at most `tlFuel R n = (n/4 + 1)(R + 2)`: with that budget or more the
result (value, consumed count, or "raises") no longer depends on the budget.  Total-work argument as in C19
(`c19_tl_total`): a recognised boxed object uses up 4 bytes of its input for the id, bare objects nest at most `R`
deep in between, a re-parsed content is shorter than the field that holds it.
-/
import TonVerif.Model.TlNorm
import TonVerif.Proofs.TlAuto

namespace TonVerif.Proofs.Tl
open TonVerif TonVerif.Spec.Tl TonVerif.Model.Tl

/-- a field of type `e` makes bare calls only on argument lists with bare-nesting index `k`. -/
def tyOK (T : Table) (k : Nat) (e : ETy) : Bool :=
  match e with
  | .bare n =>
    match T.byName n with
    | some c => bareArgsOK T k c.args
    | none => true
  | _ => true

theorem bareArgsOK_succ (T : Table) (k : Nat) (args : List Arg) :
    bareArgsOK T (k + 1) args = args.all (fun a => tyOK T k a.ty) := by
  simp only [bareArgsOK, tyOK]
  congr 1

/-- two "next level" functions agree on every call a level may make on data of at most `L` bytes. -/
structure Agree (T : Table) (L k : Nat) (rec rec' : Bytes → Option (List Arg) → Option (Val × Nat)) : Prop where
  box : ∀ x, x.length ≤ L → rec x none = rec' x none
  bare : ∀ x args, x.length ≤ L → bareArgsOK T k args = true → rec x (some args) = rec' x (some args)

theorem autoLoop_congr (top top' : Bytes → Option (Val × Nat)) (L : Nat) (h : ∀ x, x.length ≤ L → top x = top' x)
    (content : Bytes) (hc : content.length ≤ L) (n : Nat) :
    ∀ k j acc, autoLoop top content n k j acc = autoLoop top' content n k j acc := by
  intro k
  induction k with
  | zero => intro j acc; rfl
  | succ k ih =>
    intro j acc
    have hd : (content.drop j).length ≤ L := by simp only [List.length_drop]; omega
    simp only [autoLoop, h _ hd, ih]

theorem autoParse_congr (top top' : Bytes → Option (Val × Nat)) (L : Nat) (h : ∀ x, x.length ≤ L → top x = top' x)
    (content : Bytes) (hc : content.length ≤ L) (n : Nat) : autoParse top content n = autoParse top' content n := by
  simp only [autoParse, h _ hc, autoLoop_congr top top' L h content hc]

theorem readFrame_len (d : Bytes) : (readFrame d).1.length ≤ d.length := by
  unfold readFrame
  split <;> simp only [List.length_take, List.length_drop] <;> omega

theorem deserOne_congr (T : Table) (auto : Bool) (L k : Nat) (rec rec' : Bytes → Option (List Arg) → Option (Val × Nat))
    (hag : Agree T L k rec rec') (ut : Bool) (e : ETy) (iv : Bool) (hty : tyOK T k e = true) (d : Bytes)
    (hd : d.length ≤ L) : deserOne T auto rec ut e iv d = deserOne T auto rec' ut e iv d := by
  have hp : ∀ n, autoParse (fun x => rec x none) (readFrame d).1 n = autoParse (fun x => rec' x none) (readFrame d).1 n :=
    fun n => autoParse_congr _ _ L (fun x hx => hag.box x hx) _ (by have := readFrame_len d; omega) n
  cases e with
  | bytes => simp only [deserOne, hp]
  | string => simp only [deserOne, hp]
  | bare n =>
    simp only [deserOne]
    cases hn : T.byName n with
    | none => simp only [hag.box d hd]
    | some c =>
      simp only [tyOK, hn] at hty
      simp only [hag.bare d c.args hd hty]
  | boxed cl => simp only [deserOne, hag.box d hd]
  | unsup => simp only [deserOne, hag.box d hd]
  | int => rfl
  | long => rfl
  | nat => rfl
  | int128 => rfl
  | int256 => rfl
  | bool => rfl

theorem deserMany_congr (one one' : Bytes → Option (Val × Nat)) (L : Nat) (h : ∀ x, x.length ≤ L → one x = one' x) :
    ∀ (cnt : Nat) (d : Bytes), d.length ≤ L → deserMany one cnt d = deserMany one' cnt d := by
  intro cnt
  induction cnt with
  | zero => intro d _; rfl
  | succ cnt ih =>
    intro d hd
    simp only [deserMany, h d hd]
    cases one' d with
    | none => rfl
    | some r =>
      obtain ⟨v, j⟩ := r
      have : (d.drop j).length ≤ L := by simp only [List.length_drop]; omega
      simp only [Option.bind_eq_bind, Option.bind_some, ih _ this]

theorem deserArg_congr (T : Table) (auto : Bool) (L k : Nat) (rec rec' : Bytes → Option (List Arg) → Option (Val × Nat))
    (hag : Agree T L k rec rec') (ut : Bool) (a : Arg) (hty : tyOK T k a.ty = true) (d : Bytes) (hd : d.length ≤ L) :
    deserArg T auto rec ut a d = deserArg T auto rec' ut a d := by
  unfold deserArg
  split
  · have hel : ∀ x, x.length ≤ L → deserElem T auto rec a.ty x = deserElem T auto rec' a.ty x := fun x hx => by
      simp only [deserElem, deserOne_congr T auto L k rec rec' hag false a.ty true hty x hx]
    have : ((d.drop 4).length ≤ L) := by simp only [List.length_drop]; omega
    simp only [deserMany_congr _ _ L hel _ _ this]
  · exact deserOne_congr T auto L k rec rec' hag ut a.ty false hty d hd

theorem deserBody_congr (T : Table) (auto : Bool) (L k : Nat) (rec rec' : Bytes → Option (List Arg) → Option (Val × Nat))
    (hag : Agree T L k rec rec') (schema : Option Nat) :
    ∀ (args : List Arg), (∀ a ∈ args, tyOK T k a.ty = true) → ∀ (acc : Fields) (d : Bytes), d.length ≤ L →
      deserBody T auto rec schema args acc d = deserBody T auto rec' schema args acc d := by
  intro args
  induction args with
  | nil => intro _ acc d _; rfl
  | cons a as ih =>
    intro hty acc d hd
    have ha := hty a (List.mem_cons_self ..)
    have has : ∀ b ∈ as, tyOK T k b.ty = true := fun b hb => hty b (List.mem_cons_of_mem _ hb)
    simp only [deserBody, deserArg_congr T auto L k rec rec' hag _ a ha d hd, ih has acc d hd]
    split
    · rfl
    · rfl
    · split
      · rfl
      · rename_i ov j _
        have : (d.drop j).length ≤ L := by simp only [List.length_drop]; omega
        simp only [ih has _ _ this]

theorem mem_of_byIdLE {T : Table} {d : Bytes} {c : Ctor} (h : byIdLE T d = some c) : c ∈ T.ctors ∧ 4 ≤ d.length := by
  unfold byIdLE at h
  split at h
  · rename_i hl
    refine ⟨?_, ?_⟩
    · unfold Table.byId at h
      simpa using List.mem_of_find?_eq_some h
    · simp only [List.length_take] at hl; omega
  · cases h

/-- the invariant of depth budget `f`: a call whose need `(n/4)(R+2) + 1` (boxed) / `(n/4)(R+2) + 1 + k` (bare, nesting
index `k`) is within `f` gives the same result with every larger budget. -/
def Stable (T : Table) (auto : Bool) (R f : Nat) : Prop :=
  (∀ d : Bytes, d.length / 4 * (R + 2) + 1 ≤ f → ∀ f', f ≤ f' → deserObj T auto f' d none = deserObj T auto f d none) ∧
  (∀ (d : Bytes) (args : List Arg) (k : Nat), bareArgsOK T k args = true → d.length / 4 * (R + 2) + 1 + k ≤ f →
    ∀ f', f ≤ f' → deserObj T auto f' d (some args) = deserObj T auto f d (some args))

theorem div4_mul_le (a b R : Nat) (h : a ≤ b) : a / 4 * (R + 2) ≤ b / 4 * (R + 2) :=
  Nat.mul_le_mul_right _ (Nat.div_le_div_right h)

theorem div4_mul_lt (a b R : Nat) (h : a + 4 ≤ b) : a / 4 * (R + 2) + (R + 2) ≤ b / 4 * (R + 2) := by
  have : a / 4 + 1 ≤ b / 4 := by omega
  have := Nat.mul_le_mul_right (R + 2) this
  rw [Nat.succ_mul] at this
  exact this

theorem stable_all (T : Table) (auto : Bool) (R : Nat) (hR : NoBareCycle T R) : ∀ f, Stable T auto R f := by
  intro f
  induction f with
  | zero =>
    exact ⟨fun d h => by omega, fun d args k _ h => by omega⟩
  | succ f ih =>
    refine ⟨fun d hneed f' hf' => ?_, fun d args k hk hneed f' hf' => ?_⟩
    · obtain ⟨g, rfl, hg⟩ := succ_of_le hf'
      cases hid : byIdLE T d with
      | none => simp only [deserObj, hid]
      | some c =>
        obtain ⟨hc, hlen⟩ := mem_of_byIdLE hid
        have hb := hR c hc
        obtain ⟨R', rfl⟩ : ∃ R', R = R' + 1 := by
          cases R with
          | zero => simp [bareArgsOK] at hb
          | succ R' => exact ⟨R', rfl⟩
        rw [bareArgsOK_succ] at hb
        have hty : ∀ a ∈ c.args, tyOK T R' a.ty = true := fun a ha => List.all_eq_true.mp hb a ha
        have hag : Agree T (d.length - 4) R' (deserObj T auto g) (deserObj T auto f) := by
          refine ⟨fun x hx => ?_, fun x args' hx hk' => ?_⟩
          · have := div4_mul_lt x.length d.length (R' + 1) (by omega)
            exact ih.1 x (by omega) g hg
          · have := div4_mul_lt x.length d.length (R' + 1) (by omega)
            exact ih.2 x args' R' hk' (by omega) g hg
        simp only [deserObj, hid]
        rw [deserBody_congr T auto (d.length - 4) R' _ _ hag (some c.name) c.args hty [] (d.drop 4) (by simp)]
    · obtain ⟨g, rfl, hg⟩ := succ_of_le hf'
      obtain ⟨k', rfl⟩ : ∃ k', k = k' + 1 := by
        cases k with
        | zero => simp [bareArgsOK] at hk
        | succ k' => exact ⟨k', rfl⟩
      rw [bareArgsOK_succ] at hk
      have hty : ∀ a ∈ args, tyOK T k' a.ty = true := fun a ha => List.all_eq_true.mp hk a ha
      have hag : Agree T d.length k' (deserObj T auto g) (deserObj T auto f) := by
        refine ⟨fun x hx => ?_, fun x args' hx hk' => ?_⟩
        · have := div4_mul_le x.length d.length R hx
          exact ih.1 x (by omega) g hg
        · have := div4_mul_le x.length d.length R hx
          exact ih.2 x args' k' hk' (by omega) g hg
      simp only [deserObj]
      rw [deserBody_congr T auto d.length k' _ _ hag none args hty [] d (Nat.le_refl _)]

theorem tlFuel_need (R n : Nat) : n / 4 * (R + 2) + 1 ≤ tlFuel R n := by
  unfold tlFuel
  rw [Nat.succ_mul]
  omega

/-- depth `tlFuel R |d|` suffices for ANY input `d`: every larger budget gives the same answer (value and consumed
count, or "raises"). -/
theorem fuel_suffices (T : Table) (R : Nat) (hR : NoBareCycle T R) (auto : Bool) (d : Bytes) (fuel : Nat)
    (hf : tlFuel R d.length ≤ fuel) : deserialize T auto fuel d = deserialize T auto (tlFuel R d.length) d :=
  (stable_all T auto R hR _).1 d (tlFuel_need R d.length) fuel hf

/-- the same for the re-parse of a content. -/
theorem reparse_fuel_suffices (T : Table) (R : Nat) (hR : NoBareCycle T R) (b : Bytes) (fuel : Nat)
    (hf : tlFuel R b.length ≤ fuel) : reparse T fuel b = reparse T (tlFuel R b.length) b := by
  unfold reparse
  refine autoParse_congr _ _ b.length (fun x hx => ?_) b (Nat.le_refl _) _
  have h1 := div4_mul_le x.length b.length R hx
  have h2 := tlFuel_need R b.length
  exact (stable_all T true R hR _).1 x (by omega) fuel hf

/-- explicit budget for the auto round trip: under `NoBareCycle T R` the normal form no longer depends on the budget from
some point on, and `deserialize` returns that limit with EVERY budget of at least `tlFuel R` (length of its input). -/
theorem normalized_explicit (T : Table) (hT : TableOK T) (R : Nat) (hR : NoBareCycle T R) (c : Ctor) (hc : c ∈ T.ctors)
    (fs : Fields) (body : Bytes) (hb : Enc T (fun _ => True) (.body c.args fs) body) :
    ∃ w : Option Val, (∃ N, ∀ fuel, N ≤ fuel → normalize T fuel c (.obj (some c.name) fs) = w) ∧
      ∀ rest fuel, tlFuel R (natToLE 4 c.id ++ body ++ rest).length ≤ fuel →
        deserialize T true fuel (natToLE 4 c.id ++ body ++ rest) = w.map (fun x => (x, (natToLE 4 c.id ++ body).length)) := by
  obtain ⟨N, hN⟩ := normalized_top T hT c hc fs body hb
  generalize hser : natToLE 4 c.id ++ body = ser at hN ⊢
  have hinj : ∀ a b : Option Val, a.map (fun x => (x, ser.length)) = b.map (fun x => (x, ser.length)) → a = b := by
    intro a b h
    cases a <;> cases b <;> simp_all
  have hconst : ∀ fuel, max N (tlFuel R ser.length) ≤ fuel →
      normalize T fuel c (.obj (some c.name) fs) = normalize T (max N (tlFuel R ser.length)) c (.obj (some c.name) fs) := by
    intro fuel hf
    apply hinj
    have a := hN fuel (by omega) []
    have b := hN (max N (tlFuel R ser.length)) (by omega) []
    simp only [List.append_nil] at a b
    rw [← a, ← b, fuel_suffices T R hR true ser fuel (by omega),
      fuel_suffices T R hR true ser (max N (tlFuel R ser.length)) (by omega)]
  refine ⟨normalize T (max N (tlFuel R ser.length)) c (.obj (some c.name) fs), ⟨_, hconst⟩, fun rest fuel hf => ?_⟩
  have a := hN (max fuel (max N (tlFuel R ser.length))) (by omega) rest
  rw [hconst _ (by omega)] at a
  rw [← a, fuel_suffices T R hR true _ fuel hf, fuel_suffices T R hR true _ (max fuel (max N (tlFuel R ser.length))) (by omega)]

end TonVerif.Proofs.Tl
