/-
The EMITTER regenerated from the source (Generated/BocEmitSrc.lean: `Cell.serialize`, `Cell.order`, `Cell.to_boc` of
pytoniq_core/boc/cell.py and `Boc.__init__` of deserialize.py, regenerated on every run by harness/translate/bocemit.py) equals
the hand model (Model/BocEmit.lean, Model/BocForms.lean) for ALL cell objects, dicts, option sets, iteration budgets and texts.
Generation dependent; the generation-independent lemmas are in Proofs/SrcDict.lean.
-/
import TonVerif.Generated.BocEmitSrc
import TonVerif.Proofs.SrcDict
import TonVerif.Proofs.SrcArith
import TonVerif.Proofs.SrcArith2

namespace TonVerif.Proofs.SrcBocEmit
open TonVerif TonVerif.Model TonVerif.Generated.BocEmitSrc TonVerif.Proofs.SrcDict

/-! ### `Cell.serialize` -/

/-- what `flattenCells` does for one cell: the descriptors and the `indexes[ref]` lookups -/
def flattenOne (idx : Std.HashMap Nat Nat) (c : PCell) : Option Rec := do
  let d ← c.desc
  let refs ← c.refs.mapM (fun r => idx[r.key]?)
  pure { desc := d, data := c.data, refs := refs }

theorem flattenCells_eq (idx : Std.HashMap Nat Nat) (cells : List PCell) :
    flattenCells idx cells = cells.mapM (flattenOne idx) := rfl

/-- the loop over the references: look the index up, write it with the chosen width, append -/
theorem refLoop (m : Std.HashMap Nat Nat) (w : Nat) : ∀ (refs : List PCell) (r0 : Bytes),
    List.foldlM (m := Option) (fun r (ref : PCell) => (m[ref.key]?).bind fun i => (toBytesBE? w i).bind fun b => some (r ++ b)) r0 refs =
      (refs.mapM (fun r => m[r.key]?)).bind fun is => (is.mapM (toBytesBE? w)).bind fun bs => some (r0 ++ bs.flatten)
  | [], r0 => by simp
  | x :: refs, r0 => by
    rw [List.foldlM_cons]
    simp only [List.mapM_cons, Option.bind_eq_bind, Option.pure_def]
    cases hx : m[x.key]? with
    | none => simp
    | some i =>
      simp only [Option.bind_some]
      cases hb : toBytesBE? w i with
      | none =>
        cases List.mapM (fun r : PCell => m[r.key]?) refs <;> simp [hb]
      | some b =>
        simp only [Option.bind_some]
        rw [refLoop m w refs]
        cases List.mapM (fun r : PCell => m[r.key]?) refs with
        | none => simp
        | some is =>
          simp only [Option.bind_some, List.mapM_cons, hb, Option.bind_eq_bind, Option.pure_def]
          cases List.mapM (toBytesBE? w) is <;> simp [List.append_assoc]

/-- **`Cell.serialize` regenerated = the hand model**: for every cell object, every dict `indexes` (seen by the model as the
hash map `m`) and every width: descriptors ++ data bytes ++ the looked-up indices of the references as `byte_len`-byte big-endian
numbers; raises (KeyError / OverflowError) exactly when the model does. -/
theorem src_serialize_eq (c : PCell) (idx : Py.KDict PCell Nat) (m : Std.HashMap Nat Nat) (w : Nat)
    (h : MapSim PCell.key idx m) : serialize c idx w = (flattenOne m c).bind (Rec.ser w) := by
  unfold serialize flattenOne Rec.ser
  simp only [mapSim_get h, refLoop, Option.bind_eq_bind, Option.pure_def]
  cases c.desc with
  | none => simp
  | some d =>
    simp only [Option.bind_some]
    cases List.mapM (fun r : PCell => m[r.key]?) c.refs with
    | none => simp
    | some is =>
      simp only [Option.bind_some]
      cases List.mapM (toBytesBE? w) is <;> simp

/-! ### `Cell.to_boc`, given what `Cell.order` returned -/

/-- the loop `for cell in ordered_cells: ser_result = …; payload += ser_result; serialized_cells_len.append(len(ser_result))` -/
theorem serLoop (f : Bytes × List Nat → PCell → Option (Bytes × List Nat)) (ser : PCell → Option Bytes)
    (hf : ∀ s c, f s c = (ser c).bind fun r => some (s.1 ++ r, s.2 ++ [r.length])) :
    ∀ (cells : List PCell) (s : Bytes × List Nat),
      List.foldlM f s cells = (cells.mapM ser).bind fun sers => some (s.1 ++ sers.flatten, s.2 ++ sers.map List.length)
  | [], s => by simp
  | c :: cells, s => by
    rw [List.foldlM_cons, hf]
    simp only [List.mapM_cons, Option.bind_eq_bind, Option.pure_def]
    cases ser c with
    | none => simp
    | some r =>
      simp only [Option.bind_some]
      rw [serLoop f ser hf cells]
      cases List.mapM ser cells <;> simp [List.append_assoc]

/-- the index loop `for l in serialized_cells_len: end_offset += l; result += (…end_offset…).to_bytes(payload_len, 'big')` -/
theorem idxLoop (f : Nat × Bytes → Nat → Option (Nat × Bytes)) (w : Nat) (dbl : Nat → Nat)
    (hf : ∀ s l, f s l = (toBytesBE? w (dbl (s.1 + l))).bind fun b => some (s.1 + l, s.2 ++ b)) :
    ∀ (lens : List Nat) (s : Nat × Bytes),
      ((List.foldlM f s lens).bind fun x => some x.2) =
        ((cumulativeFrom s.1 lens).mapM (fun e => toBytesBE? w (dbl e))).bind fun bs => some (s.2 ++ bs.flatten)
  | [], s => by simp [cumulativeFrom]
  | l :: lens, s => by
    rw [List.foldlM_cons, hf]
    simp only [cumulativeFrom, List.mapM_cons, Option.bind_eq_bind, Option.pure_def]
    cases toBytesBE? w (dbl (s.1 + l)) with
    | none => simp
    | some b =>
      simp only [Option.bind_some]
      rw [idxLoop f w dbl hf lens]
      cases List.mapM (fun e => toBytesBE? w (dbl e)) (cumulativeFrom (s.1 + l) lens) <;> simp [List.append_assoc]

/-- `n * (2 if c else 1)` is `n * 2 if c else n` (a respelling of `max_offset`) -/
theorem mul_ite_two (n : Nat) (c : Prop) [Decidable c] : n * (if c then 2 else 1) = if c then n * 2 else n := by
  split <;> simp

theorem repeat_zero (n : Nat) : Py.repeatBytes [0] n = List.replicate n 0 := by
  induction n with
  | zero => rfl
  | succ n ih => simp [Py.repeatBytes, List.replicate_succ] at ih ⊢

/-- the dict `Cell.order` leaves behind when the model returns the key list `cells` -/
def dictOf (cells : List PCell) : Py.KDict PCell Unit := cells.map (fun c => (c, ()))

theorem dictKeys_dictOf (cells : List PCell) : Py.dictKeys (dictOf cells) = cells := by
  simp [Py.dictKeys, dictOf, Function.comp_def]

theorem dictcomp_nodup' (key : PCell → Nat) (f : Py.KDict PCell Nat → PCell × Nat → Py.KDict PCell Nat)
    (hf : ∀ d ji, f d ji = Py.dictSet key d ji.1 ji.2) (xs : List PCell) (k : Nat) (d : Py.KDict PCell Nat)
    (h : ((d.map (fun e => key e.1)) ++ xs.map key).Nodup) : (xs.zipIdx k).foldl f d = d ++ xs.zipIdx k := by
  have : f = fun d ji => Py.dictSet key d ji.1 ji.2 := by funext d ji; exact hf d ji
  rw [this]; exact dictcomp_nodup key xs k d h

theorem to_boc_given (fuel : Nat) (p : PCell) (hi hc hcb : Bool) (fl : Nat) (cells : List PCell)
    (hord : order fuel p [] = some (dictOf cells)) (hnd : (cells.map PCell.key).Nodup) :
    to_boc fuel p hi hc hcb fl = (flattenCells (indexMap cells) cells).bind (emit · ⟨hi, hc, hcb, fl⟩) := by
  unfold to_boc
  simp only [hord, Option.bind_some, dictKeys_dictOf]
  rw [dictcomp_nodup' PCell.key _ ?hf cells 0 [] (by simpa using hnd)]
  case hf => intro d ji; rfl
  have hsim : MapSim PCell.key (cells.zipIdx) (indexMap cells) := by
    have h := mapSim_foldl (key := PCell.key) (fun (x : PCell × Nat) => x.1) (fun x => x.2) cells.zipIdx [] ∅ (mapSim_empty _)
    rw [dictcomp_nodup PCell.key cells 0 [] (by simpa using hnd)] at h
    exact h
  have hkeys : Py.dictKeys (cells.zipIdx) = cells := by
    simp [Py.dictKeys]
  simp only [List.nil_append, hkeys, List.length_zipIdx, src_serialize_eq _ _ _ _ hsim]
  rw [serLoop _ (fun c => (flattenOne (indexMap cells) c).bind (Rec.ser ((Py.bitLength cells.length + 7) / 8))) ?hf]
  case hf => intro s c; rfl
  rw [mapM_bind_mapM, flattenCells_eq]
  cases hrecs : List.mapM (flattenOne (indexMap cells)) cells with
  | none =>
    simp only [Option.bind_none, Option.bind_eq_none_iff]
    intros; trivial
  | some recs =>
    have hlen := mapM_length _ _ _ hrecs
    simp only [Option.bind_some, emit, hlen, byteWidth, ← SrcArith.py_bitLength_eq, b2n, Option.bind_eq_bind, Option.pure_def,
      mul_ite_two]
    congr 1; funext flags
    cases hs : List.mapM (Rec.ser ((Py.bitLength cells.length + 7) / 8)) recs with
    | none => rfl
    | some sers =>
      simp only [Option.bind_some, List.nil_append]
      congr 1; funext fOff; congr 1; funext fCells; congr 1; funext fRoots; congr 1; funext fTot
      rw [idxLoop _ ((Py.bitLength (if hcb = true then sers.flatten.length * 2 else sers.flatten.length) + 7) / 8)
        (fun e => if hcb = true then e * 2 else e) ?hf]
      case hf => intro s l; rfl
      simp only [cumulative, repeat_zero, bocMagic]
      cases hi <;> cases hc <;> simp [Option.bind_assoc, Option.bind_map, Function.comp_def]

/-! ### `Cell.order` -/

/-- the loop state `(post_order, stack, visited)` (the loop-carried variables, sorted by name) -/
abbrev OState := List PCell × List (PCell × Bool) × Py.KSet PCell

/-- one iteration of `while stack:` in canonical form -/
def orderStep (s : OState) : Option OState :=
  (Py.listPop? s.2.1).bind fun x =>
    if x.2.2 = true then some (s.1 ++ [x.2.1], x.1, s.2.2)
    else if Py.setHas PCell.key s.2.2 x.2.1 = true then some (s.1, x.1, s.2.2)
    else some (s.1, x.1 ++ [(x.2.1, true)] ++ x.2.1.refs.map (fun r => (r, false)), Py.setAdd PCell.key s.2.2 x.2.1)

/-- the `while stack:` loop = the hand model's `orderLoop` (same iteration budget): the Python list `stack` is the model's stack
reversed, `post_order` the model's `post` reversed, `visited` the model's hash set -/
theorem while_orderLoop (body : OState → Option OState) (hb : ∀ s, body s = orderStep s) :
    ∀ (fuel : Nat) (po : List PCell) (stack : List (PCell × Bool)) (vis : Py.KSet PCell) (hs : Std.HashSet Nat),
      SetSim PCell.key vis hs →
      ((Py.while? (fun s : OState => decide (s.2.1 ≠ [])) body fuel (po, stack, vis)).map fun s => s.1.reverse) =
        orderLoop fuel stack.reverse hs po.reverse
  | 0, _, _, _, _, _ => by simp [Py.while?, orderLoop]
  | fuel + 1, po, stack, vis, hs, h => by
    rcases List.eq_nil_or_concat stack with rfl | ⟨init, ⟨c, e⟩, hst⟩
    · simp [Py.while?, orderLoop]
    · rw [List.concat_eq_append] at hst
      subst hst
      have hne : (init ++ [(c, e)] ≠ []) := by simp
      simp only [Py.while?, hne, decide_true, if_true, ne_eq, not_false_eq_true, hb, orderStep, listPop_append,
        Option.bind_some, List.reverse_append, List.reverse_cons, List.reverse_nil, List.nil_append, List.singleton_append]
      cases e with
      | true =>
        simp only [if_true, Option.bind_some, orderLoop]
        rw [while_orderLoop body hb fuel _ _ _ _ h]; simp
      | false =>
        simp only [Bool.false_eq_true, if_false, setSim_has h, orderLoop]
        by_cases hc : hs.contains c.key = true
        · simp only [hc, if_true, Option.bind_some]
          rw [while_orderLoop body hb fuel _ _ _ _ h]
        · simp only [hc, if_false, Option.bind_some, Bool.false_eq_true]
          rw [while_orderLoop body hb fuel _ _ _ _ (setSim_add h c)]
          simp [List.map_reverse]

/-- the result dict of the re-insertion loop vs the model's `(keys latest first, key set)` -/
def DSim (d : Py.KDict PCell Unit) (cd : CDict) : Prop :=
  d.map (·.1) = cd.1.reverse ∧ ∀ k, cd.2.contains k = d.any (fun e => PCell.key e.1 == k)

theorem filter_fst (c : PCell) (d : Py.KDict PCell Unit) : (d.filter (fun e => PCell.key e.1 != PCell.key c)).map (·.1) =
    (d.map (·.1)).filter (fun x => PCell.key x != PCell.key c) := by
  induction d with
  | nil => rfl
  | cons e d ih => by_cases he : PCell.key e.1 = PCell.key c <;> simp [he, ih]

theorem dsim_step (d : Py.KDict PCell Unit) (cd : CDict) (c : PCell) (h : DSim d cd) :
    DSim (moveToEnd PCell.key d c ()) (dictMoveToEnd cd c) := by
  obtain ⟨h1, h2⟩ := h
  have hfilter := filter_fst c d
  unfold dictMoveToEnd moveToEnd
  by_cases hc : cd.2.contains c.key = true
  · rw [if_pos hc]
    refine ⟨?_, ?_⟩
    · simp only [List.map_append, hfilter, h1, List.map_cons, List.map_nil, List.reverse_cons, List.filter_reverse]
    · intro k
      simp only [List.any_append, List.any_cons, List.any_nil, Bool.or_false]
      by_cases hk : PCell.key c = k
      · subst hk; simp [hc]
      · rw [h2 k]
        have : (PCell.key c == k) = false := by simpa using hk
        rw [this, Bool.or_false, List.any_filter]
        congr 1; funext e
        by_cases he : PCell.key e.1 = k
        · have h3 : ¬ k = PCell.key c := fun h => hk h.symm
          simp [he, h3]
        · simp [he]
  · rw [if_neg hc]
    have hc' : Py.dictHas PCell.key d c = false := by
      have := h2 c.key
      simp only [Bool.not_eq_true] at hc
      rw [hc] at this
      exact this.symm
    rw [filter_absent PCell.key d c hc']
    refine ⟨by simp [h1], ?_⟩
    intro k
    rw [Std.HashSet.contains_insert, h2 k]
    simp [List.any_append, Bool.or_comm]

theorem dsim_foldl : ∀ (xs : List PCell) (d : Py.KDict PCell Unit) (cd : CDict), DSim d cd →
    DSim (xs.foldl (fun d c => moveToEnd PCell.key d c ()) d) (xs.foldl dictMoveToEnd cd)
  | [], _, _, h => h
  | x :: xs, d, cd, h => dsim_foldl xs _ _ (dsim_step d cd x h)

theorem dictOf_keys (d : Py.KDict PCell Unit) : dictOf (d.map (·.1)) = d := by
  induction d with
  | nil => rfl
  | cons e d ih =>
    simp only [dictOf, List.map_cons] at ih ⊢
    rw [ih]

/-- the two loops of `Cell.order` with canonical bodies = the hand model (generation independent) -/
theorem order_shape (body : OState → Option OState) (step : Py.KDict PCell Unit → PCell → Option (Py.KDict PCell Unit))
    (hb : ∀ s, body s = orderStep s) (hs : ∀ d c, step d c = moveStep PCell.key () d c) (fuel : Nat) (p : PCell) :
    ((Py.while? (fun s : OState => decide (s.2.1 ≠ [])) body fuel ([], [(p, false)], [])).bind fun x =>
      (List.foldlM step [] x.1.reverse).bind fun r => some r) = (p.order fuel).map dictOf := by
  have hw := while_orderLoop body hb fuel [] [(p, false)] [] ∅ (setSim_empty _)
  simp only [List.reverse_cons, List.reverse_nil, List.nil_append] at hw
  have hstep : step = moveStep PCell.key () := by funext d c; exact hs d c
  unfold PCell.order
  rw [← hw, hstep]
  cases Py.while? (fun s : OState => decide (s.2.1 ≠ [])) body fuel ([], [(p, false)], []) with
  | none => rfl
  | some s =>
    simp only [Option.bind_some, Option.map_some, foldlM_moveStep, Option.bind_eq_bind, Option.pure_def]
    have hd := dsim_foldl s.1.reverse [] ([], ∅) ⟨rfl, by intro k; simp⟩
    rw [← hd.1, dictOf_keys]

/-- **`Cell.order` regenerated = the hand model**, for every cell object and every iteration budget: same decision to return
(also "budget exhausted"), and the returned dict has exactly the model's key list, in iteration order. -/
theorem src_order_eq (fuel : Nat) (p : PCell) : order fuel p [] = (p.order fuel).map dictOf := by
  unfold order
  simp only [foldlM_append]
  refine order_shape _ _ ?hb ?hs fuel p
  case hb => intro s; rfl
  case hs => intro d c; rfl

theorem order_shape_nodup (body : OState → Option OState) (step : Py.KDict PCell Unit → PCell → Option (Py.KDict PCell Unit))
    (hs : ∀ d c, step d c = moveStep PCell.key () d c) (fuel : Nat) (p : PCell) (d : Py.KDict PCell Unit)
    (h : ((Py.while? (fun s : OState => decide (s.2.1 ≠ [])) body fuel ([], [(p, false)], [])).bind fun x =>
      (List.foldlM step [] x.1.reverse).bind fun r => some r) = some d) : NodupKeys PCell.key d := by
  have hstep : step = moveStep PCell.key () := by funext d c; exact hs d c
  rw [hstep] at h
  cases hW : Py.while? (fun s : OState => decide (s.2.1 ≠ [])) body fuel ([], [(p, false)], []) with
  | none => rw [hW] at h; cases h
  | some s =>
    rw [hW] at h
    simp only [Option.bind_some, foldlM_moveStep, Option.some.injEq] at h
    rw [← h]
    exact nodupKeys_foldl_moveToEnd PCell.key () _ [] List.nodup_nil

/-- the keys of the dict `Cell.order` returns are pairwise distinct (the re-insertion loop dedups by `__hash__`) — for every
cell object, without any assumption on the hash function -/
theorem order_nodup (fuel : Nat) (p : PCell) (d : Py.KDict PCell Unit) (h : order fuel p [] = some d) : NodupKeys PCell.key d := by
  unfold order at h
  simp only [foldlM_append] at h
  refine order_shape_nodup _ _ ?hs fuel p d h
  case hs => intro d c; rfl

/-! ### `Cell.to_boc` -/

/-- **`Cell.to_boc` regenerated = the hand model** `PCell.toBoc`, for every cell object (any DAG behind it), every option set
(also invalid ones: cache bits without index, `flags ≠ 0`) and every iteration budget: same bytes, same decision to raise. -/
theorem src_toBoc_eq (fuel : Nat) (p : PCell) (o : Opts) :
    to_boc fuel p o.hasIdx o.hasCrc o.hasCache o.flags = p.toBoc fuel o := by
  unfold PCell.toBoc
  cases hm : p.order fuel with
  | none =>
    have h := src_order_eq fuel p
    rw [hm] at h
    unfold to_boc
    simp [h]
  | some cells =>
    have h := src_order_eq fuel p
    rw [hm] at h
    have hnd := order_nodup fuel p _ h
    have hnd' : (cells.map PCell.key).Nodup := by
      simpa [NodupKeys, dictOf, Function.comp_def] using hnd
    rw [to_boc_given fuel p _ _ _ _ cells h hnd']
    rfl

/-! ### `Boc.__init__` -/

/-- **`Boc.__init__` regenerated = the hand model** `BocForms.inputBytes`: bytes are taken as they are; a str goes through
`bytes.fromhex`, and only if that raises through `base64.b64decode`; raises iff both do. -/
theorem src_boc_init_eq (data : Sum Bytes (List Char)) : boc_init data = BocForms.inputBytes data := by
  cases data <;> rfl

end TonVerif.Proofs.SrcBocEmit
