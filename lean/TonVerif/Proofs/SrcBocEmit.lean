/-
The EMITTER regenerated from the source (Generated/BocEmitSrc.lean: `Cell.serialize`, `Cell.order`, `Cell.to_boc` of
pytoniq_core/boc/cell.py and `Boc.__init__` of deserialize.py, regenerated on every run by harness/translate/bocemit.py) equals
the hand model (Model/BocEmit.lean, Model/BocForms.lean) for ALL cell objects, dicts, option sets, iteration budgets and texts.
Generation dependent; the generation-independent lemmas are in Proofs/SrcDict.lean.

THIS FILE: everything that does NOT depend on the order in which `Cell.order` visits the references — `Cell.serialize`
(`src_serialize_eq`), `Cell.to_boc` given what `Cell.order` returned (`to_boc_given`), distinct keys of the returned dict
(`order_nodup`, any loop body), `Boc.__init__` (`src_boc_init_eq`).  The equality of `Cell.order` / `Cell.to_boc` with the hand
model's traversal is in Proofs/SrcBocOrderEq.lean (`src_order_eq`, `src_toBoc_eq`); the order-independent validity of the
regenerated `Cell.order` in Proofs/SrcOrderAny.lean.
-/
import TonVerif.Generated.BocEmitSrc
import TonVerif.Proofs.SrcDict
import TonVerif.Proofs.SrcArith
import TonVerif.Proofs.SrcArith2

namespace TonVerif.Proofs.SrcBocEmit
open TonVerif TonVerif.Model TonVerif.Generated.BocEmitSrc TonVerif.Proofs.SrcDict

/-! ### `Cell.serialize` -/

/-- what `flattenCells` does for one cell: the descriptors and the `indexes[ref]` lookups -/
def flattenOne (idx : Std.HashMap Nat Nat) (c : PCell) : Option Rec := do
  let d ← c.desc
  let refs ← c.refs.mapM (fun r => idx[r.key]?)
  pure { desc := d, data := c.data, refs := refs }

theorem flattenCells_eq (idx : Std.HashMap Nat Nat) (cells : List PCell) :
    flattenCells idx cells = cells.mapM (flattenOne idx) := rfl

/-- the loop over the references: look the index up, write it with the chosen width, append -/
theorem refLoop (m : Std.HashMap Nat Nat) (w : Nat) : ∀ (refs : List PCell) (r0 : Bytes),
    List.foldlM (m := Option) (fun r (ref : PCell) => (m[ref.key]?).bind fun i => (toBytesBE? w i).bind fun b => some (r ++ b)) r0 refs =
      (refs.mapM (fun r => m[r.key]?)).bind fun is => (is.mapM (toBytesBE? w)).bind fun bs => some (r0 ++ bs.flatten)
  | [], r0 => by simp
  | x :: refs, r0 => by
    rw [List.foldlM_cons]
    simp only [List.mapM_cons, Option.bind_eq_bind, Option.pure_def]
    cases hx : m[x.key]? with
    | none => simp
    | some i =>
      simp only [Option.bind_some]
      cases hb : toBytesBE? w i with
      | none =>
        cases List.mapM (fun r : PCell => m[r.key]?) refs <;> simp [hb]
      | some b =>
        simp only [Option.bind_some]
        rw [refLoop m w refs]
        cases List.mapM (fun r : PCell => m[r.key]?) refs with
        | none => simp
        | some is =>
          simp only [Option.bind_some, List.mapM_cons, hb, Option.bind_eq_bind, Option.pure_def]
          cases List.mapM (toBytesBE? w) is <;> simp [List.append_assoc]

/-- **`Cell.serialize` regenerated = the hand model**: for every cell object, every dict `indexes` (seen by the model as the
hash map `m`) and every width: descriptors ++ data bytes ++ the looked-up indices of the references as `byte_len`-byte big-endian
numbers; raises (KeyError / OverflowError) exactly when the model does. -/
theorem src_serialize_eq (c : PCell) (idx : Py.KDict PCell Nat) (m : Std.HashMap Nat Nat) (w : Nat)
    (h : MapSim PCell.key idx m) : serialize c idx w = (flattenOne m c).bind (Rec.ser w) := by
  unfold serialize flattenOne Rec.ser
  simp only [mapSim_get h, refLoop, Option.bind_eq_bind, Option.pure_def]
  cases c.desc with
  | none => simp
  | some d =>
    simp only [Option.bind_some]
    cases List.mapM (fun r : PCell => m[r.key]?) c.refs with
    | none => simp
    | some is =>
      simp only [Option.bind_some]
      cases List.mapM (toBytesBE? w) is <;> simp

/-! ### `Cell.to_boc`, given what `Cell.order` returned -/

/-- the loop `for cell in ordered_cells: ser_result = …; payload += ser_result; serialized_cells_len.append(len(ser_result))` -/
theorem serLoop (f : Bytes × List Nat → PCell → Option (Bytes × List Nat)) (ser : PCell → Option Bytes)
    (hf : ∀ s c, f s c = (ser c).bind fun r => some (s.1 ++ r, s.2 ++ [r.length])) :
    ∀ (cells : List PCell) (s : Bytes × List Nat),
      List.foldlM f s cells = (cells.mapM ser).bind fun sers => some (s.1 ++ sers.flatten, s.2 ++ sers.map List.length)
  | [], s => by simp
  | c :: cells, s => by
    rw [List.foldlM_cons, hf]
    simp only [List.mapM_cons, Option.bind_eq_bind, Option.pure_def]
    cases ser c with
    | none => simp
    | some r =>
      simp only [Option.bind_some]
      rw [serLoop f ser hf cells]
      cases List.mapM ser cells <;> simp [List.append_assoc]

/-- the index loop `for l in serialized_cells_len: end_offset += l; result += (…end_offset…).to_bytes(payload_len, 'big')` -/
theorem idxLoop (f : Nat × Bytes → Nat → Option (Nat × Bytes)) (w : Nat) (dbl : Nat → Nat)
    (hf : ∀ s l, f s l = (toBytesBE? w (dbl (s.1 + l))).bind fun b => some (s.1 + l, s.2 ++ b)) :
    ∀ (lens : List Nat) (s : Nat × Bytes),
      ((List.foldlM f s lens).bind fun x => some x.2) =
        ((cumulativeFrom s.1 lens).mapM (fun e => toBytesBE? w (dbl e))).bind fun bs => some (s.2 ++ bs.flatten)
  | [], s => by simp [cumulativeFrom]
  | l :: lens, s => by
    rw [List.foldlM_cons, hf]
    simp only [cumulativeFrom, List.mapM_cons, Option.bind_eq_bind, Option.pure_def]
    cases toBytesBE? w (dbl (s.1 + l)) with
    | none => simp
    | some b =>
      simp only [Option.bind_some]
      rw [idxLoop f w dbl hf lens]
      cases List.mapM (fun e => toBytesBE? w (dbl e)) (cumulativeFrom (s.1 + l) lens) <;> simp [List.append_assoc]

/-- `n * (2 if c else 1)` is `n * 2 if c else n` (a respelling of `max_offset`) -/
theorem mul_ite_two (n : Nat) (c : Prop) [Decidable c] : n * (if c then 2 else 1) = if c then n * 2 else n := by
  split <;> simp

theorem repeat_zero (n : Nat) : Py.repeatBytes [0] n = List.replicate n 0 := by
  induction n with
  | zero => rfl
  | succ n ih => simp [Py.repeatBytes, List.replicate_succ] at ih ⊢

/-- the dict `Cell.order` leaves behind when the model returns the key list `cells` -/
def dictOf (cells : List PCell) : Py.KDict PCell Unit := cells.map (fun c => (c, ()))

theorem dictKeys_dictOf (cells : List PCell) : Py.dictKeys (dictOf cells) = cells := by
  simp [Py.dictKeys, dictOf, Function.comp_def]

theorem dictcomp_nodup' (key : PCell → Nat) (f : Py.KDict PCell Nat → PCell × Nat → Py.KDict PCell Nat)
    (hf : ∀ d ji, f d ji = Py.dictSet key d ji.1 ji.2) (xs : List PCell) (k : Nat) (d : Py.KDict PCell Nat)
    (h : ((d.map (fun e => key e.1)) ++ xs.map key).Nodup) : (xs.zipIdx k).foldl f d = d ++ xs.zipIdx k := by
  have : f = fun d ji => Py.dictSet key d ji.1 ji.2 := by funext d ji; exact hf d ji
  rw [this]; exact dictcomp_nodup key xs k d h

theorem to_boc_given (fuel : Nat) (p : PCell) (hi hc hcb : Bool) (fl : Nat) (cells : List PCell)
    (hord : order fuel p [] = some (dictOf cells)) (hnd : (cells.map PCell.key).Nodup) :
    to_boc fuel p hi hc hcb fl = (flattenCells (indexMap cells) cells).bind (emit · ⟨hi, hc, hcb, fl⟩) := by
  unfold to_boc
  simp only [hord, Option.bind_some, dictKeys_dictOf]
  rw [dictcomp_nodup' PCell.key _ ?hf cells 0 [] (by simpa using hnd)]
  case hf => intro d ji; rfl
  have hsim : MapSim PCell.key (cells.zipIdx) (indexMap cells) := by
    have h := mapSim_foldl (key := PCell.key) (fun (x : PCell × Nat) => x.1) (fun x => x.2) cells.zipIdx [] ∅ (mapSim_empty _)
    rw [dictcomp_nodup PCell.key cells 0 [] (by simpa using hnd)] at h
    exact h
  have hkeys : Py.dictKeys (cells.zipIdx) = cells := by
    simp [Py.dictKeys]
  simp only [List.nil_append, hkeys, List.length_zipIdx, src_serialize_eq _ _ _ _ hsim]
  rw [serLoop _ (fun c => (flattenOne (indexMap cells) c).bind (Rec.ser ((Py.bitLength cells.length + 7) / 8))) ?hf]
  case hf => intro s c; rfl
  rw [mapM_bind_mapM, flattenCells_eq]
  cases hrecs : List.mapM (flattenOne (indexMap cells)) cells with
  | none =>
    simp only [Option.bind_none, Option.bind_eq_none_iff]
    intros; trivial
  | some recs =>
    have hlen := mapM_length _ _ _ hrecs
    simp only [Option.bind_some, emit, hlen, byteWidth, ← SrcArith.py_bitLength_eq, b2n, Option.bind_eq_bind, Option.pure_def,
      mul_ite_two]
    congr 1; funext flags
    cases hs : List.mapM (Rec.ser ((Py.bitLength cells.length + 7) / 8)) recs with
    | none => rfl
    | some sers =>
      simp only [Option.bind_some, List.nil_append]
      congr 1; funext fOff; congr 1; funext fCells; congr 1; funext fRoots; congr 1; funext fTot
      rw [idxLoop _ ((Py.bitLength (if hcb = true then sers.flatten.length * 2 else sers.flatten.length) + 7) / 8)
        (fun e => if hcb = true then e * 2 else e) ?hf]
      case hf => intro s l; rfl
      simp only [cumulative, repeat_zero, bocMagic]
      cases hi <;> cases hc <;> simp [Option.bind_assoc, Option.bind_map, Function.comp_def]

/-! ### `Cell.order`: the keys of the returned dict are pairwise distinct (whatever the `while` loop does) -/

/-- the loop state `(post_order, stack, visited)` (the loop-carried variables, sorted by name) -/
abbrev OState := List PCell × List (PCell × Bool) × Py.KSet PCell

theorem order_shape_nodup (cond : OState → Bool) (body : OState → Option OState) (step : Py.KDict PCell Unit → PCell → Option (Py.KDict PCell Unit))
    (hs : ∀ d c, step d c = moveStep PCell.key () d c) (fuel : Nat) (p : PCell) (d : Py.KDict PCell Unit)
    (h : ((Py.while? cond body fuel ([], [(p, false)], [])).bind fun x =>
      (List.foldlM step [] x.1.reverse).bind fun r => some r) = some d) : NodupKeys PCell.key d := by
  have hstep : step = moveStep PCell.key () := by funext d c; exact hs d c
  rw [hstep] at h
  cases hW : Py.while? cond body fuel ([], [(p, false)], []) with
  | none => rw [hW] at h; cases h
  | some s =>
    rw [hW] at h
    simp only [Option.bind_some, foldlM_moveStep, Option.some.injEq] at h
    rw [← h]
    exact nodupKeys_foldl_moveToEnd PCell.key () _ [] List.nodup_nil

/-- the keys of the dict `Cell.order` returns are pairwise distinct (the re-insertion loop dedups by `__hash__`) — for every
cell object, without any assumption on the hash function -/
theorem order_nodup (fuel : Nat) (p : PCell) (d : Py.KDict PCell Unit) (h : order fuel p [] = some d) : NodupKeys PCell.key d := by
  unfold order at h
  simp only [foldlM_append] at h
  refine order_shape_nodup _ _ _ ?hs fuel p d h
  case hs => intro d c; rfl

/-! ### `Boc.__init__` -/

/-- **`Boc.__init__` regenerated = the hand model** `BocForms.inputBytes`: bytes are taken as they are; a str goes through
`bytes.fromhex`, and only if that raises through `base64.b64decode`; raises iff both do. -/
theorem src_boc_init_eq (data : Sum Bytes (List Char)) : boc_init data = BocForms.inputBytes data := by
  cases data <;> rfl

end TonVerif.Proofs.SrcBocEmit
