/-
Helper lemmas for C17: bit-level round trips of the Builder/Slice primitives used by vm_stack.py,
then `ser_*` (model serialiser ⊑ schema relation) and `de_*` (model parser inverts the schema relation).
-/
import TonVerif.Model.VmStack
import TonVerif.Spec.Tlb.VmStack
import Mathlib.Tactic.Ring

namespace TonVerif.Proofs.Vm
open TonVerif TonVerif.Model TonVerif.Model.Vm TonVerif.Spec.Vm

/-! ### bits -/

theorem natToBits_length (n v : Nat) : (natToBits n v).length = n := by
  induction n generalizing v with
  | zero => simp [natToBits]
  | succ n ih => simp [natToBits, ih]

theorem natOfBits_foldl (bs : Bits) (a : Nat) :
    bs.foldl (fun acc b => acc * 2 + (if b then 1 else 0)) a = a * 2 ^ bs.length + natOfBits bs := by
  induction bs generalizing a with
  | nil => simp [natOfBits]
  | cons b bs ih =>
    simp only [List.foldl_cons, natOfBits, List.length_cons]
    rw [ih, ih (0 * 2 + _)]
    cases b <;> simp [Nat.pow_succ] <;> ring

theorem natOfBits_append (a b : Bits) : natOfBits (a ++ b) = natOfBits a * 2 ^ b.length + natOfBits b := by
  simp only [natOfBits, List.foldl_append]
  exact natOfBits_foldl b _

theorem natOfBits_natToBits (n v : Nat) : natOfBits (natToBits n v) = v % 2 ^ n := by
  induction n generalizing v with
  | zero => simp [natToBits, natOfBits, Nat.mod_one]
  | succ n ih =>
    simp only [natToBits, natOfBits_append, ih, List.length_singleton]
    have : natOfBits [v % 2 == 1] = v % 2 := by
      simp [natOfBits]; rcases Nat.mod_two_eq_zero_or_one v with h | h <;> simp [h]
    rw [this]
    have h2 : (2 : Nat) ^ (n + 1) = 2 * 2 ^ n := by rw [Nat.pow_succ, Nat.mul_comm]
    rw [h2, Nat.mod_mul]
    simp
    omega


/-! ### integers: the model's `int2ba` is the schema's `uintN` / `intN` -/

theorem int2baU_spec {v : Int} {n : Nat} {bs : Bits} (h : BOp.int2baU v n = some bs) :
    0 < n ∧ UintOk n v ∧ bs = uintBits n v := by
  unfold BOp.int2baU at h
  split at h; · simp at h
  split at h; · simp at h
  split at h; · simp at h
  rename_i h0 h1 h2
  simp only [Option.some.injEq] at h
  refine ⟨by omega, ⟨by omega, ?_⟩, by simp [uintBits, ← h]⟩
  have : (v.toNat : Int) < ((2 ^ n : Nat) : Int) := by exact_mod_cast (by omega : v.toNat < 2 ^ n)
  have hv : (v.toNat : Int) = v := Int.toNat_of_nonneg (by omega)
  rw [hv] at this; simpa using this

theorem intBits_eq {v : Int} {n : Nat} (hn : 0 < n) (h : IntOk n v) :
    (v % (2 ^ n : Int)).toNat = (if v ≥ 0 then v.toNat else (v + (2 ^ n : Int)).toNat) := by
  obtain ⟨m, rfl⟩ : ∃ m, n = m + 1 := ⟨n - 1, by omega⟩
  simp only [IntOk, Nat.add_sub_cancel] at h
  have hp : (2 : Int) ^ (m + 1) = 2 * 2 ^ m := by rw [pow_succ]; ring
  have hpos : (0 : Int) < 2 ^ m := Int.pow_pos (by decide)
  split
  · rw [Int.emod_eq_of_lt (by omega) (by omega)]
  · have : v % (2 : Int) ^ (m + 1) = v + 2 ^ (m + 1) := by
      rw [← Int.add_emod_right, Int.emod_eq_of_lt (by omega) (by omega)]
    rw [this]

theorem int2baS_spec {v : Int} {n : Nat} {bs : Bits} (h : BOp.int2baS v n = some bs) :
    0 < n ∧ IntOk n v ∧ bs = intBits n v := by
  unfold BOp.int2baS at h
  split at h; · simp at h
  split at h; · simp at h
  rename_i h0 h1
  simp only [Option.some.injEq] at h
  have hok : IntOk n v := ⟨by omega, by omega⟩
  refine ⟨by omega, hok, ?_⟩
  rw [intBits, intBits_eq (by omega) hok, ← h]

/-! ### builder operations: effect of a successful run -/

variable {R : Type}

/-- a successful run of `op` appends `xs` / `rs` (and `P` holds) -/
def Eff (op : BOp R) (xs : Bits) (rs : List R) (P : Prop) : Prop :=
  ∀ b b', run op b = some b' → b' = ⟨b.bits ++ xs, b.refs ++ rs⟩ ∧ P

theorem run_andThen (f g : BOp R) (b : Builder R) : run (f ⊳ g) b = (run f b).bind (run g) := by
  by_cases h : (f b).2 = true <;> simp [run, BOp.andThen, h]

theorem Eff.andThen {f g : BOp R} {x1 x2 r1 r2 P1 P2} (h1 : Eff f x1 r1 P1) (h2 : Eff g x2 r2 P2) :
    Eff (f ⊳ g) (x1 ++ x2) (r1 ++ r2) (P1 ∧ P2) := by
  intro b b' h
  rw [run_andThen] at h
  obtain ⟨b1, hb1, hb2⟩ := Option.bind_eq_some_iff.mp h
  obtain ⟨e1, p1⟩ := h1 _ _ hb1
  obtain ⟨e2, p2⟩ := h2 _ _ hb2
  subst e1
  exact ⟨by simp [e2, List.append_assoc], p1, p2⟩

theorem eff_extend (xs : Bits) : Eff (BOp.extend xs : BOp R) xs [] True := by
  intro b b' h
  simp only [run, BOp.extend] at h
  split at h <;> simp at h
  simp [← h]

theorem eff_skip : Eff (BOp.skip : BOp R) [] [] True := by
  intro b b' h; simp [run, BOp.skip] at h; simp [← h]

theorem eff_storeBits (xs : Bits) : Eff (BOp.storeBits xs : BOp R) xs [] True := eff_extend xs
theorem eff_storeBit (x : Bool) : Eff (BOp.storeBit x : BOp R) [x] [] True := eff_extend [x]

theorem eff_storeByte (k : Nat) : Eff (BOp.storeBytes [k] : BOp R) (tagByte k) [] True := by
  have : bytesToBits [k] = tagByte k := by simp [bytesToBits, byteToBits, tagByte]
  unfold BOp.storeBytes; rw [this]; exact eff_extend _

theorem eff_storeRef (c : R) : Eff (BOp.storeRef c) [] [c] True := by
  intro b b' h
  simp only [run, BOp.storeRef] at h
  split at h <;> simp at h
  simp [← h]

theorem eff_storeUint (v : Int) (n : Nat) : Eff (BOp.storeUint v n : BOp R) (uintBits n v) [] (0 < n ∧ UintOk n v) := by
  intro b b' h
  unfold BOp.storeUint at h
  split at h
  · rename_i bs hbs
    obtain ⟨h0, h1, rfl⟩ := int2baU_spec hbs
    exact ⟨(eff_extend _ b b' h).1, h0, h1⟩
  · simp [run, BOp.fail] at h

theorem eff_storeInt (v : Int) (n : Nat) : Eff (BOp.storeInt v n : BOp R) (intBits n v) [] (0 < n ∧ IntOk n v) := by
  intro b b' h
  unfold BOp.storeInt at h
  split at h
  · rename_i bs hbs
    obtain ⟨h0, h1, rfl⟩ := int2baS_spec hbs
    exact ⟨(eff_extend _ b b' h).1, h0, h1⟩
  · simp [run, BOp.fail] at h

theorem eff_storeCell (cb : Bits) (cr : List R) : Eff (BOp.storeCell cb cr) cb cr True := by
  intro b b' h
  simp only [run, BOp.storeCell] at h
  split at h; · simp at h
  by_cases h1 : (BOp.extend cb b).2 = true
  · simp only [h1, if_true, Option.some.injEq] at h
    have := (eff_extend cb b (BOp.extend cb b).1 (by simp [run, h1])).1
    rw [this] at h
    simp [← h]
  · simp [h1] at h

theorem eff_storeRefs (rs : List R) : Eff (BOp.storeRefs rs) [] rs True := by
  induction rs with
  | nil => exact eff_skip
  | cons r rs ih =>
    have := Eff.andThen (eff_storeRef r) ih
    simpa [BOp.storeRefs, Eff] using this

theorem eff_storeSlice (sb : Bits) (sr : List R) : Eff (BOp.storeSlice sb sr) sb sr True := by
  intro b b' h
  simp only [run, BOp.storeSlice] at h
  split at h; · simp at h
  have := Eff.andThen (eff_extend (R := R) sb) (eff_storeRefs sr) b b' (by simpa [run] using h)
  simpa using this

theorem eff_storeMaybeRef (o : Option R) : Eff (BOp.storeMaybeRef o) [o.isSome] o.toList True := by
  cases o with
  | none => simpa [BOp.storeMaybeRef] using eff_storeBit (R := R) false
  | some c =>
    have := Eff.andThen (eff_storeBit (R := R) true) (eff_storeRef c)
    simpa [BOp.storeMaybeRef, Eff] using this

/-- `build`: the finished cell was made from exactly what the operations appended -/
theorem eff_build {mk : Bits → List R → Option R} {op : BOp R} {xs rs P} {bt : Built R}
    (h : Eff op xs rs P) (hb : build mk op = some bt) :
    bt.bits = xs ∧ bt.refs = rs ∧ mk xs rs = some bt.cell ∧ P := by
  unfold build at hb
  obtain ⟨b, hb1, hb2⟩ := Option.bind_eq_some_iff.mp hb
  obtain ⟨e, p⟩ := h _ _ hb1
  simp only [Builder.empty, List.nil_append] at e
  subst e
  simp only [finish, Option.map_eq_some_iff] at hb2
  obtain ⟨c, hc, rfl⟩ := hb2
  exact ⟨rfl, rfl, hc, p⟩


/-! ### the model serialiser emits schema encodings -/

/-- what the theorems assume about cell construction: a constructed cell shows the data it was made of, and
    `Builder.end_cell` makes ordinary cells -/
structure Laws (mk : Bits → List R → Option R) (view : R → Bits × List R) (ord : R → Bool) : Prop where
  view_mk : ∀ b r c, mk b r = some c → view c = (b, r)
  ord_mk : ∀ b r c, mk b r = some c → ord c = true

variable {mk : Bits → List R → Option R} {view : R → Bits × List R} {ord : R → Bool}

theorem storeSlice_refs {sb : Bits} {sr : List R} {b' : Builder R}
    (h : run (BOp.storeSlice sb sr) Builder.empty = some b') : sr.length ≤ 4 := by
  by_cases hc : sr.length > 4
  · simp [run, BOp.storeSlice, Builder.empty, hc] at h
  · omega

theorem window_all (xs : List α) : window xs 0 xs.length = xs := by simp [window]

theorem ser_cellSlice (L : Laws mk view ord) {bits : Bits} {refs : List R} {bt : Built R}
    (h : serCellSlice mk bits refs = some bt) :
    IsCellSlice view bits refs bt.bits bt.refs ∧ mk bt.bits bt.refs = some bt.cell := by
  unfold serCellSlice at h
  obtain ⟨inner, hi, h2⟩ := Option.bind_eq_some_iff.mp h
  have hlen : refs.length ≤ 4 := by
    unfold build at hi
    obtain ⟨b, hb1, _⟩ := Option.bind_eq_some_iff.mp hi
    exact storeSlice_refs hb1
  obtain ⟨e1, e2, hmk, _⟩ := eff_build (eff_storeSlice bits refs) hi
  have hv := L.view_mk _ _ _ hmk
  obtain ⟨f1, f2, hmk2, p⟩ := eff_build
    (Eff.andThen (Eff.andThen (Eff.andThen (Eff.andThen (eff_storeRef inner.cell) (eff_storeUint 0 10))
      (eff_storeUint bits.length 10)) (eff_storeUint 0 3)) (eff_storeUint refs.length 3)) h2
  have hen : bits.length < 1024 := by
    have := p.1.1.2.2.2; simp [UintOk] at this; omega
  have key := IsCellSlice.mk (view := view) inner.cell 0 bits.length 0 refs.length (Nat.zero_le _)
    (by simp [hv]) hen (Nat.zero_le _) (by simp [hv]) hlen
  simp only [hv, window_all] at key
  refine ⟨?_, by rw [f1, f2]; exact hmk2⟩
  rw [f1, f2]
  simpa [List.append_assoc] using key

theorem tagInt257_eq : tagInt257 = tag0201 := by decide

theorem eff_storeMaybe {store : Int → BOp R} {enc : Int → Bits} {P : Int → Prop}
    (h : ∀ v, Eff (store v) (enc v) [] (P v)) (o : Option Int) :
    Eff (storeMaybe store o) (maybeBits enc o) [] (MaybeOk P o) := by
  cases o with
  | none => simpa [storeMaybe, maybeBits, MaybeOk] using eff_storeBit (R := R) false
  | some v =>
    intro b b' hr
    have := Eff.andThen (eff_storeBit (R := R) true) (h v) b b' (by simpa [storeMaybe] using hr)
    simpa [maybeBits, MaybeOk] using this

theorem maybeOk_mono {P Q : Int → Prop} (h : ∀ v, P v → Q v) {o : Option Int} (ho : MaybeOk P o) : MaybeOk Q o := by
  cases o with
  | none => trivial
  | some v => exact h v ho

mutual
theorem ser_val (L : Laws mk view ord) : ∀ (v : Val R) (bt : Built R), serVal mk v = some bt →
    IsValue view ord v bt.bits bt.refs ∧ mk bt.bits bt.refs = some bt.cell
  | .null, bt, h => by
    simp only [serVal] at h
    obtain ⟨e1, e2, hmk, _⟩ := eff_build (eff_storeByte 0) h
    rw [e1, e2]; exact ⟨IsValue.null, hmk⟩
  | .int v, bt, h => by
    simp only [serVal] at h
    split at h
    · obtain ⟨e1, e2, hmk, p⟩ := eff_build (Eff.andThen (eff_storeByte 1) (eff_storeInt v 64)) h
      rw [e1, e2]; exact ⟨by simpa using IsValue.tinyint v p.2.2, hmk⟩
    · rename_i hn
      obtain ⟨e1, e2, hmk, p⟩ := eff_build (Eff.andThen (eff_storeBits tagInt257) (eff_storeInt v 257)) h
      rw [e1, e2]
      refine ⟨?_, hmk⟩
      have := IsValue.int257 (view := view) (ord := ord) v (by simpa [IntOk] using hn) p.2.2
      simpa [tagInt257_eq] using this
  | .cell c, bt, h => by
    simp only [serVal] at h
    obtain ⟨e1, e2, hmk, _⟩ := eff_build (Eff.andThen (eff_storeByte 3) (eff_storeRef c)) h
    rw [e1, e2]; exact ⟨by simpa using IsValue.cell c, hmk⟩
  | .slice bits refs, bt, h => by
    simp only [serVal] at h
    obtain ⟨cs, hcs, h2⟩ := Option.bind_eq_some_iff.mp h
    obtain ⟨hs, _⟩ := ser_cellSlice L hcs
    obtain ⟨e1, e2, hmk, _⟩ := eff_build (Eff.andThen (eff_storeByte 4) (eff_storeCell cs.bits cs.refs)) h2
    rw [e1, e2]; exact ⟨by simpa using IsValue.slice hs, hmk⟩
  | .builder bits refs, bt, h => by
    simp only [serVal] at h
    obtain ⟨c, hc, h2⟩ := Option.bind_eq_some_iff.mp h
    obtain ⟨e1, e2, hmk, _⟩ := eff_build (Eff.andThen (eff_storeByte 5) (eff_storeRef c)) h2
    rw [e1, e2]
    exact ⟨by simpa using IsValue.builder c (L.ord_mk _ _ _ hc) (L.view_mk _ _ _ hc), hmk⟩
  | .cont k, bt, h => by
    simp only [serVal] at h
    obtain ⟨kc, hkc, h2⟩ := Option.bind_eq_some_iff.mp h
    obtain ⟨hk, _⟩ := ser_cont L k kc hkc
    obtain ⟨e1, e2, hmk, _⟩ := eff_build (Eff.andThen (eff_storeByte 6) (eff_storeCell kc.bits kc.refs)) h2
    rw [e1, e2]; exact ⟨by simpa using IsValue.cont hk, hmk⟩
  | .tuple vs, bt, h => by
    simp only [serVal] at h
    obtain ⟨t, ht, h2⟩ := Option.bind_eq_some_iff.mp h
    obtain ⟨hk, _⟩ := ser_tuple L vs t ht
    obtain ⟨e1, e2, hmk, p⟩ := eff_build (Eff.andThen (Eff.andThen (eff_storeByte 7) (eff_storeUint vs.length 16))
      (eff_storeCell t.bits t.refs)) h2
    rw [e1, e2]
    have hl : vs.length < 2 ^ 16 := by have := p.1.2.2.2; exact_mod_cast this
    exact ⟨by simpa [List.append_assoc] using IsValue.tuple hl hk, hmk⟩
theorem ser_tuple (L : Laws mk view ord) : ∀ (vs : List (Val R)) (bt : Built R), serTuple mk vs = some bt →
    IsTuple view ord vs.length vs bt.bits bt.refs ∧ mk bt.bits bt.refs = some bt.cell
  | [], bt, h => by
    simp only [serTuple] at h
    obtain ⟨e1, e2, hmk, _⟩ := eff_build eff_skip h
    rw [e1, e2]; exact ⟨IsTuple.nil, hmk⟩
  | v :: rest, bt, h => by
    simp only [serTuple] at h
    obtain ⟨hd, hhd, h1⟩ := Option.bind_eq_some_iff.mp h
    obtain ⟨vc, hvc, h2⟩ := Option.bind_eq_some_iff.mp h1
    obtain ⟨ihd, _⟩ := ser_tupleRef L rest hd hhd
    obtain ⟨iv, hmkv⟩ := ser_val L v vc hvc
    obtain ⟨e1, e2, hmk, _⟩ := eff_build (Eff.andThen (eff_storeCell hd.bits hd.refs) (eff_storeRef vc.cell)) h2
    rw [e1, e2]
    have hv := L.view_mk _ _ _ hmkv
    refine ⟨?_, hmk⟩
    have := IsTuple.tcons (view := view) (ord := ord) vc.cell ihd (by rw [hv]; exact iv)
    simpa using this
theorem ser_tupleRef (L : Laws mk view ord) : ∀ (vs : List (Val R)) (bt : Built R), serTupleRef mk vs = some bt →
    IsTupleRef view ord vs.length vs bt.bits bt.refs ∧ mk bt.bits bt.refs = some bt.cell
  | [], bt, h => by
    simp only [serTupleRef] at h
    obtain ⟨e1, e2, hmk, _⟩ := eff_build eff_skip h
    rw [e1, e2]; exact ⟨IsTupleRef.nil, hmk⟩
  | [v], bt, h => by
    simp only [serTupleRef] at h
    obtain ⟨vc, hvc, h2⟩ := Option.bind_eq_some_iff.mp h
    obtain ⟨iv, hmkv⟩ := ser_val L v vc hvc
    obtain ⟨e1, e2, hmk, _⟩ := eff_build (eff_storeRef vc.cell) h2
    rw [e1, e2]
    have hv := L.view_mk _ _ _ hmkv
    exact ⟨by simpa using IsTupleRef.single (view := view) (ord := ord) vc.cell (by rw [hv]; exact iv), hmk⟩
  | v :: w :: rest, bt, h => by
    simp only [serTupleRef] at h
    obtain ⟨hd, hhd, h1⟩ := Option.bind_eq_some_iff.mp h
    obtain ⟨vc, hvc, h2⟩ := Option.bind_eq_some_iff.mp h1
    obtain ⟨t, ht, h3⟩ := Option.bind_eq_some_iff.mp h2
    obtain ⟨ihd, _⟩ := ser_tupleRef L (w :: rest) hd hhd
    obtain ⟨iv, hmkv⟩ := ser_val L v vc hvc
    obtain ⟨t1, t2, hmkt, _⟩ := eff_build (Eff.andThen (eff_storeCell hd.bits hd.refs) (eff_storeRef vc.cell)) ht
    obtain ⟨e1, e2, hmk, _⟩ := eff_build (eff_storeRef t.cell) h3
    rw [e1, e2]
    have hv := L.view_mk _ _ _ hmkv
    have hvt := L.view_mk _ _ _ hmkt
    have htup := IsTuple.tcons (view := view) (ord := ord) vc.cell ihd (by rw [hv]; exact iv)
    refine ⟨?_, hmk⟩
    have := IsTupleRef.any (view := view) (ord := ord) (n := rest.length) (vs := v :: w :: rest) t.cell
      (by rw [hvt]; simpa using htup)
    simpa using this
theorem ser_stackList (L : Laws mk view ord) : ∀ (vs : List (Val R)) (bt : Built R), serStackList mk vs = some bt →
    IsStackList view ord vs.length vs bt.bits bt.refs ∧ mk bt.bits bt.refs = some bt.cell
  | [], bt, h => by
    simp only [serStackList] at h
    obtain ⟨e1, e2, hmk, _⟩ := eff_build eff_skip h
    rw [e1, e2]; exact ⟨IsStackList.nil, hmk⟩
  | v :: rest, bt, h => by
    simp only [serStackList] at h
    obtain ⟨rc, hrc, h1⟩ := Option.bind_eq_some_iff.mp h
    obtain ⟨vc, hvc, h2⟩ := Option.bind_eq_some_iff.mp h1
    obtain ⟨ir, hmkr⟩ := ser_stackList L rest rc hrc
    obtain ⟨iv, _⟩ := ser_val L v vc hvc
    obtain ⟨e1, e2, hmk, _⟩ := eff_build (Eff.andThen (eff_storeRef rc.cell) (eff_storeCell vc.bits vc.refs)) h2
    rw [e1, e2]
    have hv := L.view_mk _ _ _ hmkr
    refine ⟨?_, hmk⟩
    have := IsStackList.cons (view := view) (ord := ord) rc.cell (by rw [hv]; exact ir) iv
    simpa using this
theorem ser_cont (L : Laws mk view ord) : ∀ (k : Cont R) (bt : Built R), serCont mk k = some bt →
    IsCont view ord k bt.bits bt.refs ∧ mk bt.bits bt.refs = some bt.cell
  | .quit code, bt, h => by
    simp only [serCont] at h
    obtain ⟨e1, e2, hmk, p⟩ := eff_build (Eff.andThen (eff_storeBits _) (eff_storeInt code 32)) h
    rw [e1, e2]; exact ⟨by simpa using IsCont.quit code p.2.2, hmk⟩
  | .quitExc, bt, h => by
    simp only [serCont] at h
    obtain ⟨e1, e2, hmk, p⟩ := eff_build (eff_storeBits _) h
    rw [e1, e2]; exact ⟨IsCont.quitExc, hmk⟩
  | .std cd cb cr, bt, h => by
    simp only [serCont] at h
    obtain ⟨c, hc, h1⟩ := Option.bind_eq_some_iff.mp h
    obtain ⟨cs, hcs, h2⟩ := Option.bind_eq_some_iff.mp h1
    obtain ⟨ic, _⟩ := ser_ctl L cd c hc
    obtain ⟨is_, _⟩ := ser_cellSlice L hcs
    obtain ⟨e1, e2, hmk, _⟩ := eff_build (Eff.andThen (Eff.andThen (eff_storeBits _) (eff_storeCell c.bits c.refs))
      (eff_storeCell cs.bits cs.refs)) h2
    rw [e1, e2]; exact ⟨by simpa [List.append_assoc] using IsCont.std ic is_, hmk⟩
  | .envelope cd next, bt, h => by
    simp only [serCont] at h
    obtain ⟨c, hc, h1⟩ := Option.bind_eq_some_iff.mp h
    obtain ⟨n, hn, h2⟩ := Option.bind_eq_some_iff.mp h1
    obtain ⟨ic, _⟩ := ser_ctl L cd c hc
    have in_ := ser_cont L next n hn
    obtain ⟨e1, e2, hmk, _⟩ := eff_build (Eff.andThen (Eff.andThen (eff_storeBits _) (eff_storeCell c.bits c.refs))
      (eff_storeRef n.cell)) h2
    rw [e1, e2]
    have := IsCont.envelope (view := view) (ord := ord) n.cell ic (by rw [L.view_mk _ _ _ in_.2]; exact in_.1)
    exact ⟨by simpa [List.append_assoc] using this, hmk⟩
  | .repeat_ count body after, bt, h => by
    simp only [serCont] at h
    obtain ⟨b, hb, h1⟩ := Option.bind_eq_some_iff.mp h
    obtain ⟨a, ha, h2⟩ := Option.bind_eq_some_iff.mp h1
    have ib := ser_cont L body b hb
    have ia := ser_cont L after a ha
    obtain ⟨e1, e2, hmk, p⟩ := eff_build (Eff.andThen (Eff.andThen (Eff.andThen (eff_storeBits _) (eff_storeUint count 63))
      (eff_storeRef b.cell)) (eff_storeRef a.cell)) h2
    rw [e1, e2]
    have := IsCont.repeat_ (view := view) (ord := ord) count b.cell a.cell p.1.1.2.2
      (by rw [L.view_mk _ _ _ ib.2]; exact ib.1) (by rw [L.view_mk _ _ _ ia.2]; exact ia.1)
    exact ⟨by simpa [List.append_assoc] using this, hmk⟩
  | .until_ body after, bt, h => by
    simp only [serCont] at h
    obtain ⟨b, hb, h1⟩ := Option.bind_eq_some_iff.mp h
    obtain ⟨a, ha, h2⟩ := Option.bind_eq_some_iff.mp h1
    have ib := ser_cont L body b hb
    have ia := ser_cont L after a ha
    obtain ⟨e1, e2, hmk, p⟩ := eff_build (Eff.andThen (Eff.andThen (eff_storeBits _) (eff_storeRef b.cell)) (eff_storeRef a.cell)) h2
    rw [e1, e2]
    have := IsCont.until_ (view := view) (ord := ord) b.cell a.cell
      (by rw [L.view_mk _ _ _ ib.2]; exact ib.1) (by rw [L.view_mk _ _ _ ia.2]; exact ia.1)
    exact ⟨by simpa using this, hmk⟩
  | .again body, bt, h => by
    simp only [serCont] at h
    obtain ⟨b, hb, h2⟩ := Option.bind_eq_some_iff.mp h
    have ib := ser_cont L body b hb
    obtain ⟨e1, e2, hmk, p⟩ := eff_build (Eff.andThen (eff_storeBits _) (eff_storeRef b.cell)) h2
    rw [e1, e2]
    have := IsCont.again (view := view) (ord := ord) b.cell (by rw [L.view_mk _ _ _ ib.2]; exact ib.1)
    exact ⟨by simpa using this, hmk⟩
  | .whileCond cnd body after, bt, h => by
    simp only [serCont] at h
    obtain ⟨c, hc, h0⟩ := Option.bind_eq_some_iff.mp h
    obtain ⟨b, hb, h1⟩ := Option.bind_eq_some_iff.mp h0
    obtain ⟨a, ha, h2⟩ := Option.bind_eq_some_iff.mp h1
    have ic := ser_cont L cnd c hc
    have ib := ser_cont L body b hb
    have ia := ser_cont L after a ha
    obtain ⟨e1, e2, hmk, p⟩ := eff_build (Eff.andThen (Eff.andThen (Eff.andThen (eff_storeBits _) (eff_storeRef c.cell))
      (eff_storeRef b.cell)) (eff_storeRef a.cell)) h2
    rw [e1, e2]
    have := IsCont.whileCond (view := view) (ord := ord) c.cell b.cell a.cell (by rw [L.view_mk _ _ _ ic.2]; exact ic.1)
      (by rw [L.view_mk _ _ _ ib.2]; exact ib.1) (by rw [L.view_mk _ _ _ ia.2]; exact ia.1)
    exact ⟨by simpa using this, hmk⟩
  | .whileBody cnd body after, bt, h => by
    simp only [serCont] at h
    obtain ⟨c, hc, h0⟩ := Option.bind_eq_some_iff.mp h
    obtain ⟨b, hb, h1⟩ := Option.bind_eq_some_iff.mp h0
    obtain ⟨a, ha, h2⟩ := Option.bind_eq_some_iff.mp h1
    have ic := ser_cont L cnd c hc
    have ib := ser_cont L body b hb
    have ia := ser_cont L after a ha
    obtain ⟨e1, e2, hmk, p⟩ := eff_build (Eff.andThen (Eff.andThen (Eff.andThen (eff_storeBits _) (eff_storeRef c.cell))
      (eff_storeRef b.cell)) (eff_storeRef a.cell)) h2
    rw [e1, e2]
    have := IsCont.whileBody (view := view) (ord := ord) c.cell b.cell a.cell (by rw [L.view_mk _ _ _ ic.2]; exact ic.1)
      (by rw [L.view_mk _ _ _ ib.2]; exact ib.1) (by rw [L.view_mk _ _ _ ia.2]; exact ia.1)
    exact ⟨by simpa using this, hmk⟩
  | .pushint value next, bt, h => by
    simp only [serCont] at h
    obtain ⟨n, hn, h2⟩ := Option.bind_eq_some_iff.mp h
    have in_ := ser_cont L next n hn
    obtain ⟨e1, e2, hmk, p⟩ := eff_build (Eff.andThen (Eff.andThen (eff_storeBits _) (eff_storeInt value 32)) (eff_storeRef n.cell)) h2
    rw [e1, e2]
    have := IsCont.pushint (view := view) (ord := ord) value n.cell p.1.2.2 (by rw [L.view_mk _ _ _ in_.2]; exact in_.1)
    exact ⟨by simpa using this, hmk⟩
theorem ser_ctl (L : Laws mk view ord) : ∀ (cd : Ctl R) (bt : Built R), serCtl mk cd = some bt →
    IsCtl view ord cd bt.bits bt.refs ∧ mk bt.bits bt.refs = some bt.cell
  | .mk nargs none save cp, bt, h => by
    simp only [serCtl] at h
    obtain ⟨sl, hsl, h2⟩ := Option.bind_eq_some_iff.mp h
    obtain ⟨s1, s2, _, _⟩ := eff_build (eff_storeMaybeRef save) hsl
    have hN := eff_storeMaybe (R := R) (store := fun n => BOp.storeUint n 13) (enc := uintBits 13)
      (P := fun v => 0 < 13 ∧ UintOk 13 v) (fun v => eff_storeUint v 13) nargs
    have hC := eff_storeMaybe (R := R) (store := fun c => BOp.storeInt c 16) (enc := intBits 16)
      (P := fun v => 0 < 16 ∧ IntOk 16 v) (fun v => eff_storeInt v 16) cp
    obtain ⟨e1, e2, hmk, p⟩ := eff_build (Eff.andThen (Eff.andThen (Eff.andThen hN
      (eff_storeBit false)) (eff_storeCell sl.bits sl.refs)) hC) h2
    rw [e1, e2]
    simp only [s1, s2] at hmk ⊢
    have := IsCtl.noStack (view := view) (ord := ord) (save := save) (nargs := nargs) (cp := cp)
      (maybeOk_mono (fun _ h => h.2) p.1.1.1) (maybeOk_mono (fun _ h => h.2) p.2)
    exact ⟨by simpa [List.append_assoc] using this, hmk⟩
  | .mk nargs (some st) save cp, bt, h => by
    simp only [serCtl] at h
    obtain ⟨l, hl, h0⟩ := Option.bind_eq_some_iff.mp h
    obtain ⟨sc, hsc, h1⟩ := Option.bind_eq_some_iff.mp h0
    obtain ⟨sl, hsl, h2⟩ := Option.bind_eq_some_iff.mp h1
    obtain ⟨il, _⟩ := ser_stackList L st l hl
    obtain ⟨c1, c2, _, pc⟩ := eff_build (Eff.andThen (eff_storeUint st.length 24) (eff_storeCell l.bits l.refs)) hsc
    obtain ⟨s1, s2, _, _⟩ := eff_build (eff_storeMaybeRef save) hsl
    have hN := eff_storeMaybe (R := R) (store := fun n => BOp.storeUint n 13) (enc := uintBits 13)
      (P := fun v => 0 < 13 ∧ UintOk 13 v) (fun v => eff_storeUint v 13) nargs
    have hC := eff_storeMaybe (R := R) (store := fun c => BOp.storeInt c 16) (enc := intBits 16)
      (P := fun v => 0 < 16 ∧ IntOk 16 v) (fun v => eff_storeInt v 16) cp
    obtain ⟨e1, e2, hmk, p⟩ := eff_build (Eff.andThen (Eff.andThen (Eff.andThen (Eff.andThen hN
      (eff_storeBit true)) (eff_storeCell sc.bits sc.refs)) (eff_storeCell sl.bits sl.refs)) hC) h2
    rw [e1, e2]
    simp only [s1, s2, c1, c2] at hmk ⊢
    have hlen : st.length < 2 ^ 24 := by have := pc.1.2.2; exact_mod_cast this
    have := IsCtl.withStack (view := view) (ord := ord) (save := save) (nargs := nargs) (cp := cp)
      (maybeOk_mono (fun _ h => h.2) p.1.1.1.1) (maybeOk_mono (fun _ h => h.2) p.2) hlen il
    exact ⟨by simpa [List.append_assoc] using this, hmk⟩
end


theorem ser_stack (L : Laws mk view ord) (vs : List (Val R)) (bt : Built R) (h : serStack mk vs = some bt) :
    IsStack view ord vs bt.bits bt.refs ∧ mk bt.bits bt.refs = some bt.cell := by
  unfold serStack at h
  obtain ⟨l, hl, h2⟩ := Option.bind_eq_some_iff.mp h
  obtain ⟨il, _⟩ := ser_stackList L vs l hl
  obtain ⟨e1, e2, hmk, p⟩ := eff_build (Eff.andThen (eff_storeUint vs.length 24) (eff_storeCell l.bits l.refs)) h2
  rw [e1, e2]
  have hlen : vs.length < 2 ^ 24 := by have := p.1.2.2; exact_mod_cast this
  exact ⟨by simpa using IsStack.mk hlen il, hmk⟩


/-! ### slice operations: reading back what the schema prescribes -/

/-- `p` consumes exactly `xs` / `rs` from the front of any slice and returns `a` -/
def Reads {α : Type} (p : SOp R α) (xs : Bits) (rs : List R) (a : α) : Prop :=
  ∀ b' r', p ⟨xs ++ b', rs ++ r'⟩ = (⟨b', r'⟩, some a)

theorem Reads.bind {α β : Type} {p : SOp R α} {f : α → SOp R β} {x1 x2 r1 r2 a c}
    (h1 : Reads p x1 r1 a) (h2 : Reads (f a) x2 r2 c) : Reads (p >>= f) (x1 ++ x2) (r1 ++ r2) c := by
  intro b' r'
  show SOp.bind p f _ = _
  unfold SOp.bind
  rw [List.append_assoc, List.append_assoc, h1]
  exact h2 b' r'

theorem reads_pure {α : Type} (a : α) : Reads (Pure.pure a : SOp R α) [] [] a := by
  intro b' r'; rfl

theorem Reads.cast {α : Type} {p : SOp R α} {xs xs' rs rs' a} (h : Reads p xs rs a) (e1 : xs' = xs) (e2 : rs' = rs) :
    Reads p xs' rs' a := by subst e1 e2; exact h

theorem delBits_app (xs b' : Bits) (r : List R) (n : Nat) (h : xs.length = n) :
    SOp.delBits n (⟨xs ++ b', r⟩ : Slice R) = (⟨b', r⟩, some ()) := by
  unfold SOp.delBits
  by_cases hn : n = 0
  · have : xs = [] := by apply List.eq_nil_of_length_eq_zero; omega
    simp [hn, this]
  · have : ¬ (xs ++ b').length < n := by simp; omega
    simp [hn, this, ← h]

theorem reads_loadBits (xs : Bits) (n : Nat) (h : xs.length = n) : Reads (SOp.loadBits n : SOp R Bits) xs [] xs := by
  intro b' r'
  show SOp.bind _ _ _ = _
  simp only [SOp.bind, SOp.peekBits, List.nil_append]
  show SOp.bind _ _ _ = _
  simp only [SOp.bind, delBits_app xs b' r' n h]
  simp [← h]; rfl

theorem reads_skipBits (xs : Bits) (n : Nat) (h : xs.length = n) : Reads (SOp.skipBits n : SOp R Unit) xs [] () := by
  intro b' r'; simpa [SOp.skipBits] using delBits_app xs b' r' n h

theorem reads_loadUint {n : Nat} {v : Int} (hn : 0 < n) (hv : UintOk n v) :
    Reads (SOp.loadUint n : SOp R Int) (uintBits n v) [] v := by
  intro b' r'
  have hl : (uintBits n v).length = n := natToBits_length _ _
  have hval : SOp.ba2intU (uintBits n v) = some v := by
    unfold SOp.ba2intU
    have hne : (uintBits n v).isEmpty = false := by
      cases h : uintBits n v with
      | nil => rw [h] at hl; simp at hl; omega
      | cons _ _ => rfl
    rw [hne]; simp only [Bool.false_eq_true, if_false, uintBits, natOfBits_natToBits]
    have h1 : v.toNat < 2 ^ n := by
      have := hv.2; have h0 := hv.1
      have : ((v.toNat : Nat) : Int) < ((2 ^ n : Nat) : Int) := by rw [Int.toNat_of_nonneg h0]; exact_mod_cast this
      exact_mod_cast this
    rw [Nat.mod_eq_of_lt h1, Int.toNat_of_nonneg hv.1]
  simp only [SOp.loadUint, SOp.preloadUint, Bind.bind, SOp.bind, SOp.peekBits, SOp.ofOption, List.nil_append,
    List.take_left' hl, hval, delBits_app _ b' r' n hl, Pure.pure, SOp.pure]


theorem natToBits_head (m x : Nat) : natToBits (m + 1) x = (x / 2 ^ m % 2 == 1) :: natToBits m x := by
  induction m generalizing x with
  | zero => simp [natToBits]
  | succ m ih =>
    rw [natToBits, ih (x / 2)]
    conv_rhs => rw [natToBits]
    simp only [List.cons_append, Nat.div_div_eq_div_mul]
    rw [show 2 * 2 ^ m = 2 ^ (m + 1) by rw [Nat.pow_succ, Nat.mul_comm]]

theorem ba2intS_intBits {n : Nat} {v : Int} (hn : 0 < n) (hv : IntOk n v) : SOp.ba2intS (intBits n v) = some v := by
  obtain ⟨m, rfl⟩ : ∃ m, n = m + 1 := ⟨n - 1, by omega⟩
  have hok := hv
  simp only [IntOk, Nat.add_sub_cancel] at hv
  have hpos : (0 : Int) < 2 ^ m := Int.pow_pos (by decide)
  have hp : (2 : Int) ^ (m + 1) = 2 * 2 ^ m := by rw [pow_succ]; ring
  have hpn : (2 : Nat) ^ (m + 1) = 2 * 2 ^ m := by rw [Nat.pow_succ, Nat.mul_comm]
  have hposn : 0 < 2 ^ m := Nat.two_pow_pos m
  rw [intBits, intBits_eq hn hok]
  generalize hx : (if v ≥ 0 then v.toNat else (v + 2 ^ (m + 1)).toNat) = x
  have hcast : ((2 ^ m : Nat) : Int) = 2 ^ m := by push_cast; rfl
  have hxlt : x < 2 ^ (m + 1) := by
    have : (x : Int) < 2 ^ (m + 1) := by
      rw [← hx]; split
      · rw [Int.toNat_of_nonneg (by omega)]; omega
      · rw [Int.toNat_of_nonneg (by omega)]; omega
    have h2 : ((2 ^ (m + 1) : Nat) : Int) = 2 ^ (m + 1) := by push_cast; rfl
    rw [← h2] at this; exact_mod_cast this
  unfold SOp.ba2intS
  rw [natToBits_head]
  simp only [← natToBits_head, natOfBits_natToBits, Nat.mod_eq_of_lt hxlt, List.length_cons, natToBits_length]
  congr 1
  by_cases hv0 : v ≥ 0
  · simp only [hv0, if_true] at hx
    have hxm : x < 2 ^ m := by
      have : (x : Int) < 2 ^ m := by rw [← hx, Int.toNat_of_nonneg hv0]; exact hv.2
      rw [← hcast] at this; exact_mod_cast this
    have : x / 2 ^ m = 0 := Nat.div_eq_of_lt hxm
    rw [this]; simp only [Nat.zero_mod]; simp
    rw [← hx, Int.toNat_of_nonneg hv0]
  · simp only [hv0, if_false] at hx
    have hxi : (x : Int) = v + 2 ^ (m + 1) := by rw [← hx, Int.toNat_of_nonneg (by omega)]
    have hxm : 2 ^ m ≤ x := by
      have : (2 : Int) ^ m ≤ x := by rw [hxi]; omega
      rw [← hcast] at this; exact_mod_cast this
    have : x / 2 ^ m = 1 := by
      apply Nat.div_eq_of_lt_le <;> omega
    rw [this]; simp
    rw [hxi]; omega

theorem reads_loadInt {n : Nat} {v : Int} (hn : 0 < n) (hv : IntOk n v) :
    Reads (SOp.loadInt n : SOp R Int) (intBits n v) [] v := by
  intro b' r'
  have hl : (intBits n v).length = n := natToBits_length _ _
  simp only [SOp.loadInt, SOp.preloadInt, Bind.bind, SOp.bind, SOp.peekBits, SOp.ofOption, List.nil_append,
    List.take_left' hl, ba2intS_intBits hn hv, delBits_app _ b' r' n hl, Pure.pure, SOp.pure]

theorem reads_loadRef (c : R) : Reads (SOp.loadRef : SOp R R) [] [c] c := by
  intro b' r'; simp [SOp.loadRef]

theorem reads_loadBit (x : Bool) : Reads (SOp.loadBit : SOp R Bool) [x] [] x := by
  intro b' r'; simp [SOp.loadBit]

theorem reads_loadMaybeRef (o : Option R) : Reads (SOp.loadMaybeRef : SOp R (Option R)) [o.isSome] o.toList o := by
  intro b' r'
  cases o with
  | none => simp [SOp.loadMaybeRef, Bind.bind, SOp.bind, SOp.loadBit, Pure.pure, SOp.pure]
  | some c => simp [SOp.loadMaybeRef, Bind.bind, SOp.bind, SOp.loadBit, SOp.loadRef, Pure.pure, SOp.pure]

theorem reads_loadByte (k : Nat) : Reads (SOp.loadBytes 1 : SOp R Bytes) (tagByte k) [] (bitsToBytes (tagByte k)) := by
  intro b' r'
  have hl : (tagByte k).length = 1 * 8 := natToBits_length _ _
  simp only [SOp.loadBytes, SOp.preloadBytes, Bind.bind, SOp.bind, SOp.peekBits, List.nil_append,
    List.take_left' hl, delBits_app _ b' r' _ hl, Pure.pure, SOp.pure]


theorem uintOk_nat {n k : Nat} (h : k < 2 ^ n) : UintOk n (k : Int) :=
  ⟨Int.natCast_nonneg k, by have : ((k : Nat) : Int) < ((2 ^ n : Nat) : Int) := by exact_mod_cast h
                            simpa using this⟩

theorem reads_cellSlice {bits : Bits} {refs : List R} {b : Bits} {r : List R}
    (h : IsCellSlice view bits refs b r) : Reads (De.cellSlice view) b r (bits, refs) := by
  obtain ⟨c, st, en, sr, er, h1, h2, h3, h4, h5, h6⟩ := h
  unfold De.cellSlice
  have e1 : ¬ ¬ ((st : Int) ≤ (en : Int)) := by simpa using h1
  have e2 : ¬ ¬ ((sr : Int) ≤ (er : Int)) := by simpa using h4
  have hst : UintOk 10 (st : Int) := uintOk_nat (by omega)
  have hen : UintOk 10 (en : Int) := uintOk_nat (by omega)
  have hsr : UintOk 3 (sr : Int) := uintOk_nat (by omega)
  have her : UintOk 3 (er : Int) := uintOk_nat (by omega)
  have fin : Reads (Pure.pure (pySlice (view c).1 (st : Int).toNat (en : Int).toNat,
      pySlice (view c).2 (sr : Int).toNat (er : Int).toNat) : SOp R (Bits × List R)) [] []
      (window (view c).1 st en, window (view c).2 sr er) := by
    have := reads_pure (R := R) (window (view c).1 st en, window (view c).2 sr er)
    simpa [pySlice, window] using this
  have s3 := Reads.bind (f := fun sr' : Int => (SOp.loadUint 3 : SOp R Int) >>= fun er' : Int =>
      if ¬ sr' ≤ er' then SOp.fail else (Pure.pure (pySlice (view c).1 (st : Int).toNat (en : Int).toNat,
        pySlice (view c).2 sr'.toNat er'.toNat) : SOp R (Bits × List R)))
    (reads_loadUint (R := R) (n := 3) (v := sr) (by decide) hsr) (by
      refine Reads.bind (x2 := []) (r2 := []) (c := (window (view c).1 st en, window (view c).2 sr er))
        (reads_loadUint (R := R) (n := 3) (v := er) (by decide) her) ?_
      show Reads (if ¬ (sr : Int) ≤ (er : Int) then SOp.fail else _) _ _ _
      rw [if_neg e2]; exact fin)
  intro b' r'
  have k1 := reads_loadRef (R := R) c
  have k2 := reads_loadUint (R := R) (n := 10) (v := st) (by decide) hst
  have k3 := reads_loadUint (R := R) (n := 10) (v := en) (by decide) hen
  have k4 := s3 b' r'
  simp only [List.append_assoc, List.nil_append, List.append_nil] at k4
  simp only [Bind.bind, SOp.bind, List.append_assoc, List.cons_append, List.nil_append]
  have k1' := k1 (uintBits 10 ↑st ++ (uintBits 10 ↑en ++ (uintBits 3 ↑sr ++ (uintBits 3 ↑er ++ b')))) r'
  simp only [List.nil_append, List.cons_append] at k1'
  rw [k1']
  have k2' := k2 (uintBits 10 ↑en ++ (uintBits 3 ↑sr ++ (uintBits 3 ↑er ++ b'))) r'
  simp only [List.nil_append] at k2'
  simp only [k2']
  have k3' := k3 (uintBits 3 ↑sr ++ (uintBits 3 ↑er ++ b')) r'
  simp only [List.nil_append] at k3'
  simp only [k3', if_neg e1]
  exact k4

theorem reads_sub {α : Type} {p : SOp R α} {c : R} {a : α} (h : Reads p (view c).1 (view c).2 a) :
    Reads (De.sub view p c) [] [] a := by
  intro b' r'
  have := h [] []
  simp only [List.append_nil] at this
  simp [De.sub, this]

/-- fuel: if `p` works from `n` on, it works for any larger fuel -/
def From {α : Type} (p : Nat → SOp R α) (xs : Bits) (rs : List R) (a : α) : Prop :=
  ∃ n, ∀ fuel, n ≤ fuel → Reads (p fuel) xs rs a


/-! ### the current code leaves the caller's values as they were -/

mutual
theorem postVal_id : ∀ v : Val R, postVal false v = v
  | .null => by simp [postVal]
  | .int _ => by simp [postVal]
  | .cell _ => by simp [postVal]
  | .slice _ _ => by simp [postVal]
  | .builder _ _ => by simp [postVal]
  | .cont k => by simp [postVal, postCont_id k]
  | .tuple vs => by simp [postVal, postTuple_id vs]
theorem postTuple_id : ∀ vs : List (Val R), postTuple false vs = vs
  | [] => by simp [postTuple]
  | v :: rest => by simp [postTuple, postVal_id v, postTupleRef_id rest]
theorem postTupleRef_id : ∀ vs : List (Val R), postTupleRef false vs = vs
  | [] => by simp [postTupleRef]
  | [v] => by simp [postTupleRef, postVal_id v]
  | v :: w :: rest => by simp [postTupleRef, postVal_id v, postTupleRef_id (w :: rest)]
theorem postList_id : ∀ vs : List (Val R), postList false vs = vs
  | [] => by simp [postList]
  | v :: rest => by simp [postList, postVal_id v, postList_id rest]
theorem postCont_id : ∀ k : Cont R, postCont false k = k
  | .std cd _ _ => by simp [postCont, postCtl_id cd]
  | .envelope cd n => by simp [postCont, postCtl_id cd, postCont_id n]
  | .quit _ => by simp [postCont]
  | .quitExc => by simp [postCont]
  | .repeat_ _ b a => by simp [postCont, postCont_id b, postCont_id a]
  | .until_ b a => by simp [postCont, postCont_id b, postCont_id a]
  | .again b => by simp [postCont, postCont_id b]
  | .whileCond c b a => by simp [postCont, postCont_id c, postCont_id b, postCont_id a]
  | .whileBody c b a => by simp [postCont, postCont_id c, postCont_id b, postCont_id a]
  | .pushint _ n => by simp [postCont, postCont_id n]
theorem postCtl_id : ∀ cd : Ctl R, postCtl false cd = cd
  | .mk _ none _ _ => by simp [postCtl]
  | .mk _ (some st) _ _ => by simp [postCtl, postList_id st]
end

end TonVerif.Proofs.Vm
