import TonVerif.Generated.BocCnt
import TonVerif.Proofs.SrcW
import TonVerif.Proofs.SrcBocDeser
import TonVerif.Proofs.Cost
import TonVerif.Proofs.BocHeaderPath

set_option linter.unusedSimpArgs false
namespace TonVerif.Proofs.SrcBocCnt
open TonVerif TonVerif.Py TonVerif.Model TonVerif.Model.BocParse TonVerif.Generated.BocHeader TonVerif.Generated.BocCells TonVerif.Generated.BocCnt
open TonVerif.Proofs.SrcW TonVerif.Proofs.SrcLoops
open TonVerif.Model.Cost (cellLoop cellNeed cellAbsent bocCost)
open TonVerif.Proofs.BocHeaderPath

/-! ## erasure: the counting copy computes the value of the regenerated function -/

theorem rest2c_erase {R : Type} (data : Bytes) (rs tr ex i : Nat) (bits : Bits) (e : Option Int) :
    (deserialize_cell_rest2_cnt (R := R) data rs tr ex i bits e).1 = deserialize_cell_rest2 data rs tr ex i bits e := by
  unfold deserialize_cell_rest2_cnt deserialize_cell_rest2
  simp only [bnd_opt_fst, bnd_w_fst, ite_fst, ret_fst, raise_fst, loopW_fst]

theorem restc_erase {R : Type} (data : Bytes) (rs tr ex au ds i : Nat) :
    (deserialize_cell_rest_cnt (R := R) data rs tr ex au ds i).1 = deserialize_cell_rest data rs tr ex au ds i := by
  unfold deserialize_cell_rest_cnt deserialize_cell_rest
  simp only [bnd_opt_fst, bnd_w_fst, ite_fst, ret_fst, raise_fst, loopW_fst, rest2c_erase]

theorem cellc_erase {R : Type} (data : Bytes) (rs : Nat) :
    (deserialize_cell_cnt (R := R) data rs).1 = deserialize_cell data rs := by
  unfold deserialize_cell_cnt deserialize_cell
  simp only [bnd_opt_fst, bnd_w_fst, ite_fst, ret_fst, raise_fst, loopW_fst, restc_erase]

theorem drest2c_erase {R : Type} (data : Bytes) (cls : Bits → List (Option R) → Int → Option R) (h : HeaderOut) (arr : List (CellOut R)) :
    (deserialize_rest2_cnt data cls h arr).1 = deserialize_rest2 data cls h arr := by
  unfold deserialize_rest2_cnt deserialize_rest2
  simp only [bnd_opt_fst, bnd_w_fst, ite_fst, ret_fst, raise_fst, loopW_fst]

theorem drestc_erase {R : Type} (data : Bytes) (cls : Bits → List (Option R) → Int → Option R) (h : HeaderOut) (arr : List (CellOut R)) :
    (deserialize_rest_cnt data cls h arr).1 = deserialize_rest data cls h arr := by
  unfold deserialize_rest_cnt deserialize_rest
  simp only [bnd_opt_fst, bnd_w_fst, ite_fst, ret_fst, raise_fst, loopW_fst, drest2c_erase]

/-- ERASURE: the counting copy of `Boc.deserialize` computes exactly the value of the regenerated function -/
theorem deserialize_cnt_erase {R : Type} (data : Bytes) (cls : Bits → List (Option R) → Int → Option R) :
    (deserialize_cnt data cls).1 = Generated.BocCells.deserialize data cls := by
  unfold deserialize_cnt Generated.BocCells.deserialize
  simp only [bnd_opt_fst, bnd_w_fst, ite_fst, ret_fst, raise_fst, loopW_fst, drestc_erase, cellc_erase]

/-! ## ticks of `deserialize_cell`: the reference loop (counter 0) runs `total_refs` times exactly when the call returns -/

theorem rest2c_ticks {R : Type} (data : Bytes) (rs tr ex i : Nat) (bits : Bits) (e : Option Int) (j : Nat) :
    (deserialize_cell_rest2_cnt (R := R) data rs tr ex i bits e).2 j = 
      if j = 0 ∧ ((deserialize_cell_rest2 (R := R) data rs tr ex i bits e).isSome) then tr else 0 := by
  unfold deserialize_cell_rest2_cnt deserialize_cell_rest2
  simp only [bnd_opt_snd, bnd_w_snd, ite_snd, ret_snd, raise_snd, tvmBitarray?_1023, range?_zero_one, match_zero, ite_self,
    bnd_opt_fst, bnd_w_fst, ite_fst, ret_fst, raise_fst, loopW_fst, Option.bind_some, loop?_foldl, loopW_fold_snd]
  generalize ((if ex ≠ 0 then _ else _ : Option Int)) = o
  cases o <;> simp 

theorem restc_ticks {R : Type} (data : Bytes) (rs tr ex au ds i : Nat) (k : Nat) (hk : k ≠ 1) :
    (deserialize_cell_rest_cnt (R := R) data rs tr ex au ds i).2 k = 
      if k = 0 ∧ ((deserialize_cell_rest (R := R) data rs tr ex au ds i).isSome) then tr else 0 := by
  unfold deserialize_cell_rest_cnt deserialize_cell_rest
  simp only [bnd_opt_snd, bnd_w_snd, ite_snd, ret_snd, raise_snd, match_zero, ite_self,
    bnd_opt_fst, bnd_w_fst, ite_fst, ret_fst, raise_fst, loopW_fst, rest2c_erase, rest2c_ticks, loopW_other, hk, ne_eq, not_false_eq_true, implies_true,
    Nat.add_zero, Nat.zero_add]
  generalize ((if au ≠ 0 ∧ frombytes [] (slice data i (i + ds)) ≠ [] then _ else _ : Option (Option Int))) = o
  cases o <;> simp

theorem cellc_ticks {R : Type} (data : Bytes) (rs : Nat) (k : Nat) (hk : k ≠ 1) :
    (deserialize_cell_cnt (R := R) data rs).2 k = 
      if k = 0 ∧ ((deserialize_cell (R := R) data rs).isSome) then (data[0]?.getD 0) &&& 7 else 0 := by
  unfold deserialize_cell_cnt deserialize_cell
  simp only [bnd_opt_snd, bnd_w_snd, ite_snd, ret_snd, raise_snd, match_zero, ite_self,
    bnd_opt_fst, bnd_w_fst, ite_fst, ret_fst, raise_fst, loopW_fst, restc_erase, restc_ticks _ _ _ _ _ _ _ k hk, loopW_other, hk, ne_eq, not_false_eq_true, implies_true,
    Nat.add_zero, Nat.zero_add]
  cases h0 : data[0]? with
  | none => simp
  | some d1 => 
    cases h1 : data[1]? with
    | none => simp
    | some d2 =>
      simp only [Option.bind_some, Option.getD_some]
      repeat' split
      all_goals simp_all

/-! ## the first loop against `Cost.cellLoop` -/

theorem uintsAt_length (data : Bytes) (a w k : Nat) : (uintsAt data a w k).length = k := by simp [uintsAt]

theorem cell_shape {R : Type} (d1 d2 : Nat) (rest : Bytes) (rs : Nat) :
    (Cost.cellAbsent d1 = true ∨ rest.length < Cost.cellNeed rs d1 d2 → deserialize_cell (R := R) (d1 :: d2 :: rest) rs = none) ∧
    (∀ v, deserialize_cell (R := R) (d1 :: d2 :: rest) rs = some v →
      v.2 = 2 + Cost.cellNeed rs d1 d2 ∧ v.1.refs.length = d1 % 8) := by
  rw [TonVerif.Proofs.SrcBocCells.src_deserialize_cell_eq]
  unfold cellOfModel deserializeCell
  simp only [List.getElem?_cons_zero, List.getElem?_cons_succ, Option.bind_some, Cost.cellAbsent, Cost.cellNeed, List.length_cons]
  generalize Model.popcount (d1 / 32) = P
  by_cases hh : (d1 / 16 % 2 == 1) = true
  · simp only [hh, if_true, Bool.and_true]
    have hne : (((P + 1) * 32 != 0) = true) := by simp
    simp only [hne, if_true]
    by_cases ha : (d1 % 8 == 7) = true
    · simp [ha]
    · simp only [ha, Bool.false_eq_true, if_false, false_or]
      by_cases hs : rest.length + 1 + 1 < 2 + ((P + 1) * 32 + (P + 1) * 2 + (d2 / 2 + d2 % 2) + rs * (d1 % 8))
      · simp [hs]
      · simp only [hs, if_false]
        refine ⟨fun h => absurd h (by omega), ?_⟩
        intro v hv
        simp only [Option.map_eq_some_iff, Option.bind_eq_some_iff] at hv
        obtain ⟨p, ⟨ty, _, hp⟩, rfl⟩ := hv
        simp only [Option.some.injEq] at hp
        subst hp
        simp only [CellOut.ofModel, uintsAt_length]
        constructor
        · rw [Nat.mul_comm (d1 % 8) rs]; omega
        · trivial
  · simp only [hh, Bool.false_eq_true, if_false, Bool.and_false, false_or, bne_self_eq_false, Nat.zero_add, Nat.add_zero]
    by_cases hs : rest.length + 1 + 1 < 2 + ((d2 / 2 + d2 % 2) + rs * (d1 % 8))
    · simp [hs]
    · simp only [hs, if_false]
      refine ⟨fun h => absurd h (by omega), ?_⟩
      intro v hv
      simp only [Option.map_eq_some_iff, Option.bind_eq_some_iff] at hv
      obtain ⟨p, ⟨ty, _, hp⟩, rfl⟩ := hv
      simp only [Option.some.injEq] at hp
      subst hp
      simp only [CellOut.ofModel, uintsAt_length]
      constructor
      · rw [Nat.mul_comm (d1 % 8) rs]; omega
      · trivial

/-- sum of the reference counts of the records read so far -/
def refSum {R : Type} (arr : List (CellOut R)) : Nat := (arr.map (·.refs.length)).sum

theorem cellLoop_done (sb : Nat) : ∀ (n : Nat) (d : Bytes), (cellLoop sb n d).2.2 = true → (cellLoop sb n d).1 = n := by
  intro n
  induction n with
  | zero => intro d _; rfl
  | succ n ih =>
    intro d h
    match d with
    | [] => simp [cellLoop] at h
    | [_] => simp [cellLoop] at h
    | d1 :: d2 :: rest =>
      simp only [cellLoop] at h ⊢
      split at h
      · simp at h
      · split at h
        · simp at h
        · rename_i h1 h2
          simp only [h1, h2, Bool.false_eq_true, if_false] 
          simp only at h
          rw [ih _ h]

/-- FIRST LOOP: the ticks of `for ci in range(cells_num)` (counter 5) and of the reference loop inside `deserialize_cell` (counter 0)
against the cost model's `cellLoop`: never more, and the same when the loop returns. -/
theorem loop1_ticks {R : Type} (cd : Bytes) (sb : Nat)
    (body : Nat → Nat × List (CellOut R) → W ((Nat × List (CellOut R)) × Bool))
    (hbody : ∀ x i acc, body x (i, acc) =
      (deserialize_cell_cnt (R := R) (cd.drop i) sb >>== fun r => W.ret ((i + r.2, acc ++ [r.1]), false))) :
    ∀ (xs : List Nat) (i : Nat) (acc : List (CellOut R)),
      (loopW? 5 xs (i, acc) body).2 5 ≤ (cellLoop sb xs.length (cd.drop i)).1 ∧
      (loopW? 5 xs (i, acc) body).2 0 ≤ (cellLoop sb xs.length (cd.drop i)).2.1 ∧
      (∀ k, k ≠ 5 → k ≠ 0 → k ≠ 1 → (loopW? 5 xs (i, acc) body).2 k = 0) ∧
      (∀ st, (loopW? 5 xs (i, acc) body).1 = some st →
        (loopW? 5 xs (i, acc) body).2 5 = (cellLoop sb xs.length (cd.drop i)).1 ∧
        (loopW? 5 xs (i, acc) body).2 0 = (cellLoop sb xs.length (cd.drop i)).2.1 ∧
        (cellLoop sb xs.length (cd.drop i)).2.2 = true ∧ st.2.length = acc.length + xs.length ∧
        refSum st.2 = refSum acc + (cellLoop sb xs.length (cd.drop i)).2.1) := by
  intro xs
  induction xs with
  | nil => 
    intro i acc
    simp [loopW_nil, cellLoop]
  | cons x xs ih =>
    intro i acc
    have hv : ∀ k, (body x (i, acc)).2 k = (deserialize_cell_cnt (R := R) (cd.drop i) sb).2 k := by
      intro k; rw [hbody, bnd_w_snd]; simp
    have h1 : (body x (i, acc)).1 = (deserialize_cell (R := R) (cd.drop i) sb).map fun r => ((i + r.2, acc ++ [r.1]), false) := by
      rw [hbody, bnd_w_fst, cellc_erase]; cases deserialize_cell (R := R) (cd.drop i) sb <;> rfl
    have hnone : deserialize_cell (R := R) (cd.drop i) sb = none → 1 ≤ (cellLoop sb (xs.length + 1) (cd.drop i)).1 →
        (loopW? 5 (x :: xs) (i, acc) body).2 5 ≤ (cellLoop sb (x :: xs).length (List.drop i cd)).fst ∧
        (loopW? 5 (x :: xs) (i, acc) body).2 0 ≤ (cellLoop sb (x :: xs).length (List.drop i cd)).snd.fst ∧
        (∀ (k : Nat), k ≠ 5 → k ≠ 0 → k ≠ 1 → (loopW? 5 (x :: xs) (i, acc) body).2 k = 0) ∧
        ∀ (st : Nat × List (CellOut R)), (loopW? 5 (x :: xs) (i, acc) body).1 = some st → False := by
      intro hn hc
      simp only [loopW_cons_snd, loopW_cons_fst, hv, h1, hn, Option.map_none, List.length_cons]
      rw [cellc_ticks _ _ 5 (by decide), cellc_ticks _ _ 0 (by decide), hn]
      refine ⟨by simpa using hc, by simp, ?_, by simp⟩
      intro k k5 k0 k1
      rw [cellc_ticks _ _ k k1]; simp [k5, k0]
    have hcl : ∀ n, 1 ≤ (cellLoop sb (n + 1) (cd.drop i)).1 := by
      intro n
      match cd.drop i with
      | [] => simp [cellLoop]
      | [_] => simp [cellLoop]
      | d1 :: d2 :: rest => simp only [cellLoop]; split; simp; split; simp; simp
    cases hd : deserialize_cell (R := R) (cd.drop i) sb with
    | none =>
      obtain ⟨a, b, c, d⟩ := hnone hd (hcl _)
      exact ⟨a, b, c, fun st h => (d st h).elim⟩
    | some v =>
      match hdr : cd.drop i with
      | [] => rw [hdr] at hd; simp [deserialize_cell] at hd
      | [d1] => 
        rw [hdr] at hd; unfold deserialize_cell at hd; simp at hd
      | d1 :: d2 :: rest =>
        rw [hdr] at hd
        obtain ⟨hbad, hgood⟩ := cell_shape (R := R) d1 d2 rest sb
        obtain ⟨hv2, hrefs⟩ := hgood v hd
        have hA : cellAbsent d1 = false := by
          cases h : cellAbsent d1 with
          | false => rfl
          | true => rw [hbad (Or.inl h)] at hd; cases hd
        have hS : ¬ rest.length < cellNeed sb d1 d2 := by
          intro h; rw [hbad (Or.inr h)] at hd; cases hd
        have hdrop : cd.drop (i + v.2) = rest.drop (cellNeed sb d1 d2) := by
          rw [← List.drop_drop, hdr, hv2, Nat.add_comm 2]; rfl
        obtain ⟨i5, i0, ik, ist⟩ := ih (i + v.2) (acc ++ [v.1])
        rw [hdrop] at i5 i0 ist
        have e5 := cellc_ticks (R := R) (cd.drop i) sb 5 (by decide)
        have e0 := cellc_ticks (R := R) (cd.drop i) sb 0 (by decide)
        rw [hdr, hd] at e5 e0
        simp [TonVerif.Proofs.SrcBytes.and7] at e5 e0
        rw [hdr] at hv h1
        simp only [loopW_cons_snd, loopW_cons_fst, hv, h1, hd, Option.map_some, List.length_cons, cellLoop, hA, hS,
          Bool.false_eq_true, if_false, Option.bind_some, e5, e0]
        simp only [if_true, show ((0:Nat) = 5) = False by decide, if_false]
        refine ⟨by omega, by omega, ?_, ?_⟩
        · intro k k5 k0 k1
          have := cellc_ticks (R := R) (d1 :: d2 :: rest) sb k k1
          rw [this, ik k k5 k0 k1]; simp [k5, k0]
        · intro st hst
          obtain ⟨a, b, c, d, e⟩ := ist st hst
          refine ⟨by omega, by omega, c, ?_, ?_⟩
          · rw [d]; simp; omega
          · rw [e]; simp [refSum, hrefs]; omega

/-! ## the third loop, the second loop with its inner reference loop -/

/-- THIRD LOOP (counter 2): at most one iteration per root index, exactly that when it returns; no other counter. -/
theorem drest2c_ticks {R : Type} (data : Bytes) (cls : Bits → List (Option R) → Int → Option R) (h : HeaderOut) (arr : List (CellOut R)) (k : Nat) :
    (deserialize_rest2_cnt data cls h arr).2 k ≤ (if k = 2 then h.root_list.length else 0) ∧
    ((deserialize_rest2 data cls h arr).isSome → (deserialize_rest2_cnt data cls h arr).2 2 = h.root_list.length) := by
  unfold deserialize_rest2_cnt deserialize_rest2
  simp only [bnd_opt_snd, bnd_w_snd, ite_snd, ret_snd, raise_snd, match_zero, ite_self, Nat.add_zero]
  have hb : ∀ j (x : Nat) (s : List (Option R)), ((arr[x]?) >>== fun elem_15 => W.ret (s ++ [elem_15.result], false)).2 j = 0 := by
    intro j x s; simp only [bnd_opt_snd, ret_snd, match_zero]
  constructor
  · by_cases hk : k = 2
    · subst hk; simp only [if_true]; exact loopW_le 2 _ (hb 2) _ _
    · rw [if_neg hk, loopW_other 2 k hk _ (hb k)]; exact Nat.le_refl 0
  · intro hs
    rw [loopW_own 2 _ (hb 2)]
    apply iters_full
    · intro x s r hr
      simp only [bnd_opt_fst, ret_fst] at hr
      cases hx : arr[x]? with
      | none => simp [hx] at hr
      | some e => simp [hx] at hr; rw [← hr]
    · simp only [bnd_opt_fst, ret_fst]
      cases hl : Py.loop? h.root_list [] (fun ri st => (arr[ri]?).bind fun e => some (st ++ [e.result], false)) with
      | none => simp [hl] at hs
      | some _ => rfl

/-- reference count of record `ci` of an array given by its reference lists -/
def refsAt (rl : List (List Nat)) (ci : Nat) : Nat := ((rl[ci]?).map List.length).getD 0

theorem refsAt_map {R : Type} (arr : List (CellOut R)) (ci : Nat) :
    refsAt (arr.map (·.refs)) ci = ((arr[ci]?).map (·.refs.length)).getD 0 := by
  simp [refsAt, List.getElem?_map, Option.map_map, Function.comp_def]

/-- SECOND LOOP, inner reference loop (counter 4): per iteration of the outer loop at most / exactly (on return) the number of references of
the current record; the `'refs'` entries never change. -/
theorem loop2_ticks {R : Type} (body : Nat → List (CellOut R) → W (List (CellOut R) × Bool))
    (hle : ∀ ci arr, (body ci arr).2 4 ≤ refsAt (arr.map (·.refs)) ci)
    (heq : ∀ ci arr r, (body ci arr).1 = some r →
      (body ci arr).2 4 = refsAt (arr.map (·.refs)) ci ∧ r.2 = false ∧ r.1.map (·.refs) = arr.map (·.refs)) :
    ∀ (xs : List Nat) (arr : List (CellOut R)),
      (loopW? 3 xs arr body).2 4 ≤ (xs.map (refsAt (arr.map (·.refs)))).sum ∧
      (∀ st, (loopW? 3 xs arr body).1 = some st → (loopW? 3 xs arr body).2 4 = (xs.map (refsAt (arr.map (·.refs)))).sum) := by
  intro xs
  induction xs with
  | nil => intro arr; simp [loopW_nil]
  | cons x xs ih =>
    intro arr
    simp only [loopW_cons_snd, loopW_cons_fst, List.map_cons, List.sum_cons, show ((4:Nat) = 3) = False by decide, if_false, Nat.zero_add]
    cases hb : (body x arr).1 with
    | none => 
      simp only [Option.bind_none, Nat.add_zero]
      exact ⟨Nat.le_trans (hle x arr) (Nat.le_add_right _ _), fun st h => by cases h⟩
    | some r =>
      obtain ⟨e4, enb, emap⟩ := heq x arr r hb
      simp only [enb, Bool.false_eq_true, if_false, Option.bind_some, e4]
      obtain ⟨i1, i2⟩ := ih r.1
      rw [emap] at i1 i2
      exact ⟨by omega, fun st h => by rw [i2 st h]⟩

theorem sum_refsAt (rl : List (List Nat)) : ((List.range rl.length).reverse.map (refsAt rl)).sum = (rl.map List.length).sum := by
  rw [List.map_reverse, List.sum_reverse]
  congr 1
  apply List.ext_getElem
  · simp
  · intro i h1 h2
    simp at h1
    simp [refsAt, List.getElem?_eq_getElem h1]

theorem refSum_eq {R : Type} (arr : List (CellOut R)) : refSum arr = ((arr.map (·.refs)).map List.length).sum := by
  simp [refSum, List.map_map, Function.comp_def]

/-- the second loop followed by a continuation `F` that ticks only counter 2 (the third loop), as the translator renders it. -/
theorem rest_shape {R β : Type} (n : Nat) (arr : List (CellOut R)) (hn : arr.length = n)
    (B : Nat → List (CellOut R) → W (List (CellOut R) × Bool)) (F : List (CellOut R) → W β) (m : Nat)
    (hle : ∀ ci arr, (B ci arr).2 4 ≤ refsAt (arr.map (·.refs)) ci)
    (heq : ∀ ci arr r, (B ci arr).1 = some r →
      (B ci arr).2 4 = refsAt (arr.map (·.refs)) ci ∧ r.2 = false ∧ r.1.map (·.refs) = arr.map (·.refs))
    (hBk : ∀ k, k ≠ 4 → ∀ ci arr, (B ci arr).2 k = 0)
    (hF : ∀ st k, (F st).2 k ≤ if k = 2 then m else 0)
    (hF' : ∀ st, (F st).1.isSome → (F st).2 2 = m) :
    (((Py.range? 0 n 1) >>== fun rg => (loopW? 3 rg.reverse arr B) >>== F).2 3 ≤ n) ∧
    (((Py.range? 0 n 1) >>== fun rg => (loopW? 3 rg.reverse arr B) >>== F).2 4 ≤ refSum arr) ∧
    (((Py.range? 0 n 1) >>== fun rg => (loopW? 3 rg.reverse arr B) >>== F).2 2 ≤ m) ∧
    (∀ k, k ≠ 2 → k ≠ 3 → k ≠ 4 → ((Py.range? 0 n 1) >>== fun rg => (loopW? 3 rg.reverse arr B) >>== F).2 k = 0) ∧
    ((((Py.range? 0 n 1) >>== fun rg => (loopW? 3 rg.reverse arr B) >>== F).1.isSome) →
      ((Py.range? 0 n 1) >>== fun rg => (loopW? 3 rg.reverse arr B) >>== F).2 3 = n ∧
      ((Py.range? 0 n 1) >>== fun rg => (loopW? 3 rg.reverse arr B) >>== F).2 4 = refSum arr ∧
      ((Py.range? 0 n 1) >>== fun rg => (loopW? 3 rg.reverse arr B) >>== F).2 2 = m) := by
  simp only [range?_zero_one, bnd_opt_snd, bnd_opt_fst, bnd_w_snd, bnd_w_fst, Option.bind_some]
  have hlen : (List.range n).reverse.length = n := by simp
  have l3 : (loopW? 3 (List.range n).reverse arr B).2 3 ≤ n := by
    have := loopW_le 3 B (hBk 3 (by decide)) (List.range n).reverse arr; rwa [hlen] at this
  obtain ⟨l4, l4'⟩ := loop2_ticks B hle heq (List.range n).reverse arr
  have hs : ((List.range n).reverse.map (refsAt (arr.map (·.refs)))).sum = refSum arr := by
    rw [refSum_eq, ← sum_refsAt]; simp [hn]
  rw [hs] at l4 l4'
  have lk : ∀ k, k ≠ 3 → k ≠ 4 → (loopW? 3 (List.range n).reverse arr B).2 k = 0 :=
    fun k k3 k4 => loopW_other 3 k k3 B (hBk k k4) _ _
  cases hL : (loopW? 3 (List.range n).reverse arr B).1 with
  | none => 
    simp only [Nat.add_zero, Option.bind_none, Option.isSome_none, Bool.false_eq_true, false_implies, and_true]
    refine ⟨l3, l4, by rw [lk 2 (by decide) (by decide)]; exact Nat.zero_le _, fun k _ k3 k4 => lk k k3 k4⟩
  | some st =>
    simp only [Option.bind_some]
    have f3 := hF st 3; have f4 := hF st 4; have f2 := hF st 2
    simp only [show ((3:Nat) = 2) = False by decide, show ((4:Nat) = 2) = False by decide, if_false, if_true, Nat.le_zero] at f3 f4 f2
    refine ⟨by omega, by omega, by rw [lk 2 (by decide) (by decide)]; omega, ?_, ?_⟩
    · intro k k2 k3 k4
      have := hF st k; rw [if_neg k2] at this
      rw [lk k k3 k4]; omega
    · intro hsome
      have e3 : (loopW? 3 (List.range n).reverse arr B).2 3 = n := by
        rw [loopW_own 3 B (hBk 3 (by decide)), iters_full _ (fun x s r hr => (heq x s r hr).2.1), hlen]
        rw [← loopW_fst, hL]; rfl
      refine ⟨by omega, by rw [l4' st hL]; omega, by rw [lk 2 (by decide) (by decide), hF' st hsome]; omega⟩

theorem setAt_refs {R : Type} (arr arr' : List (CellOut R)) (ci : Nat) (v : R)
    (h : Py.setAt? arr ci (fun c => { c with result := some v }) = some arr') : arr'.map (·.refs) = arr.map (·.refs) := by
  unfold Py.setAt? at h
  cases hc : arr[ci]? with
  | none => simp [hc] at h
  | some c =>
    simp only [hc, Option.map_some, Option.some.injEq] at h
    subst h
    apply List.ext_getElem?
    intro i
    simp only [List.getElem?_map, List.getElem?_set]
    split
    · rename_i hi; subst hi
      split
      · simp [hc]
      · rename_i hl; simp [List.getElem?_eq_none (Nat.le_of_not_lt hl)]
    · rfl

theorem drestc_ticks {R : Type} (data : Bytes) (cls : Bits → List (Option R) → Int → Option R) (h : HeaderOut) (arr : List (CellOut R))
    (hn : arr.length = h.cells_num) :
    ((deserialize_rest_cnt data cls h arr).2 3 ≤ h.cells_num) ∧
    ((deserialize_rest_cnt data cls h arr).2 4 ≤ refSum arr) ∧
    ((deserialize_rest_cnt data cls h arr).2 2 ≤ h.root_list.length) ∧
    (∀ k, k ≠ 2 → k ≠ 3 → k ≠ 4 → (deserialize_rest_cnt data cls h arr).2 k = 0) ∧
    (((deserialize_rest_cnt data cls h arr).1.isSome) →
      (deserialize_rest_cnt data cls h arr).2 3 = h.cells_num ∧
      (deserialize_rest_cnt data cls h arr).2 4 = refSum arr ∧
      (deserialize_rest_cnt data cls h arr).2 2 = h.root_list.length) := by
  unfold deserialize_rest_cnt
  refine rest_shape h.cells_num arr hn _ _ h.root_list.length ?hle ?heq ?hBk ?hF ?hF'
  case hF => intro st k; exact (drest2c_ticks data cls h st k).1
  case hF' => 
    intro st hs
    exact (drest2c_ticks data cls h st 2).2 (by rw [← drest2c_erase]; exact hs)
  case hBk =>
    intro k k4 ci arr
    simp only [bnd_opt_snd, bnd_w_snd, ite_snd, ret_snd, raise_snd, match_zero, ite_self, Nat.add_zero, range?_zero_one, loopW_other, k4,
      ne_eq, not_false_eq_true, implies_true]
  case hle =>
    intro ci arr
    simp only [bnd_opt_snd, bnd_w_snd, ite_snd, ret_snd, raise_snd, match_zero, ite_self, Nat.add_zero, range?_zero_one]
    rw [refsAt_map]
    cases hc : arr[ci]? with
    | none => simp
    | some c =>
      simp only [Option.map_some, Option.getD_some]
      have := loopW_le 4 (fun ri (st_9 : List (Option R)) =>
            c.refs[ri]? >>== fun r =>
              if r < ci then W.raise else arr[r]? >>== fun elem_11 => W.ret (st_9 ++ [elem_11.result], false))
        (by intro x s; simp only [bnd_opt_snd, ite_snd, ret_snd, raise_snd, match_zero, ite_self]) (List.range c.refs.length) []
      simpa using this
  case heq =>
    intro ci arr r hr
    rw [refsAt_map]
    simp only [bnd_opt_snd, bnd_w_snd, ite_snd, ret_snd, raise_snd, match_zero, ite_self, Nat.add_zero, range?_zero_one,
      bnd_opt_fst, bnd_w_fst, ret_fst, Option.bind_some] at hr ⊢
    cases hc : arr[ci]? with
    | none => simp [hc] at hr
    | some c =>
      simp only [hc, Option.bind_some, Option.map_some, Option.getD_some] at hr ⊢
      cases hl : (loopW? 4 (List.range c.refs.length) ([] : List (Option R)) fun ri st_9 =>
            c.refs[ri]? >>== fun r =>
              if r < ci then W.raise else arr[r]? >>== fun elem_11 => W.ret (st_9 ++ [elem_11.result], false)).1 with
      | none => simp [hl] at hr
      | some refs =>
        simp only [hl, Option.bind_some] at hr
        refine ⟨?_, ?_, ?_⟩
        · rw [loopW_own 4 _ (by intro x s; simp only [bnd_opt_snd, ite_snd, ret_snd, raise_snd, match_zero, ite_self]),
            iters_full _ ?_ _ _ (by rw [← loopW_fst, hl]; rfl)]
          · simp
          · intro x s r hr
            simp only [bnd_opt_fst, ite_fst, raise_fst, ret_fst] at hr
            cases hx : c.refs[x]? with
            | none => simp [hx] at hr
            | some rr =>
              simp only [hx, Option.bind_some] at hr
              split at hr
              · cases hr
              · cases hy : arr[rr]? with
                | none => simp [hy] at hr
                | some e => simp [hy] at hr; rw [← hr]
        · cases hcl : cls c.bits refs c.type with
          | none => simp [hcl] at hr
          | some v =>
            simp only [hcl, Option.bind_some] at hr
            cases hset : Py.setAt? arr ci (fun c => { c with result := some v }) with
            | none => simp [hset] at hr
            | some a => simp [hset] at hr; rw [← hr]
        · cases hcl : cls c.bits refs c.type with
          | none => simp [hcl] at hr
          | some v =>
            simp only [hcl, Option.bind_some] at hr
            cases hset : Py.setAt? arr ci (fun c => { c with result := some v }) with
            | none => simp [hset] at hr
            | some a => 
              simp [hset] at hr; rw [← hr]
              exact setAt_refs arr a ci v hset

/-! ## the whole parser -/

/-- what the cost model predicts for the loop counters once the header is accepted (`m` = length of the root list):
5 = first loop, 0 = its reference loop, 3 = second loop, 4 = its reference loop, 2 = third loop -/
def predicted (sb n : Nat) (cd : Bytes) (m : Nat) (k : Nat) : Nat :=
  if k = 5 then (cellLoop sb n cd).1 else if k = 0 then (cellLoop sb n cd).2.1
  else if k = 3 then (if (cellLoop sb n cd).2.2 then n else 0)
  else if k = 4 then (if (cellLoop sb n cd).2.2 then (cellLoop sb n cd).2.1 else 0)
  else if k = 2 then (if (cellLoop sb n cd).2.2 then m else 0) else 0

theorem bnd_some_snd {α β : Type} (a : α) (f : α → W β) (k : Nat) : ((some a) >>== f).2 k = (f a).2 k := by
  rw [bnd_opt_snd]
theorem bnd_some_fst {α β : Type} (a : α) (f : α → W β) : ((some a) >>== f).1 = (f a).1 := by
  rw [bnd_opt_fst]; rfl

theorem deser_shape {R β : Type} (sb n : Nat) (cd : Bytes) (m : Nat)
    (B : Nat → Nat × List (CellOut R) → W ((Nat × List (CellOut R)) × Bool))
    (hB : ∀ x i acc, B x (i, acc) =
      (deserialize_cell_cnt (R := R) (cd.drop i) sb >>== fun r => W.ret ((i + r.2, acc ++ [r.1]), false)))
    (F : Nat × List (CellOut R) → W β)
    (hF : ∀ st, st.2.length = n →
      ((F st).2 3 ≤ n) ∧ ((F st).2 4 ≤ refSum st.2) ∧ ((F st).2 2 ≤ m) ∧
      (∀ k, k ≠ 2 → k ≠ 3 → k ≠ 4 → (F st).2 k = 0) ∧
      ((F st).1.isSome → (F st).2 3 = n ∧ (F st).2 4 = refSum st.2 ∧ (F st).2 2 = m)) :
    (∀ k, k ≠ 1 → ((Py.range? 0 n 1) >>== fun rg => (loopW? 5 rg (0, []) B) >>== F).2 k ≤ predicted sb n cd m k) ∧
    ((((Py.range? 0 n 1) >>== fun rg => (loopW? 5 rg (0, []) B) >>== F).1.isSome) →
      ∀ k, k ≠ 1 → ((Py.range? 0 n 1) >>== fun rg => (loopW? 5 rg (0, []) B) >>== F).2 k = predicted sb n cd m k) := by
  simp only [range?_zero_one, bnd_some_snd, bnd_some_fst, bnd_w_snd, bnd_w_fst]
  obtain ⟨a5, a0, ak, ast⟩ := loop1_ticks (R := R) cd sb B hB (List.range n) 0 []
  simp only [List.length_range, List.drop_zero] at a5 a0 ast
  cases hL : (loopW? 5 (List.range n) (0, []) B).1 with
  | none =>
    simp only [Option.bind_none, Option.isSome_none, Bool.false_eq_true, false_implies, and_true, Nat.add_zero]
    intro k k1
    unfold predicted
    by_cases k5 : k = 5
    · subst k5; simpa using a5
    by_cases k0 : k = 0
    · subst k0; simpa using a0
    rw [ak k k5 k0 k1]; exact Nat.zero_le _
  | some st =>
    obtain ⟨e5, e0, edone, elen, esum⟩ := ast st hL
    simp only [List.length_nil, Nat.zero_add] at elen
    have rs0 : refSum ([] : List (CellOut R)) = 0 := rfl
    rw [rs0, Nat.zero_add] at esum
    obtain ⟨f3, f4, f2, fk, fs⟩ := hF st elen
    have fk5 := fk 5 (by decide) (by decide) (by decide)
    have fk0 := fk 0 (by decide) (by decide) (by decide)
    simp only [Option.bind_some]
    constructor
    · intro k k1
      unfold predicted
      by_cases k5 : k = 5
      · subst k5; simp only [if_true]; omega
      by_cases k0 : k = 0
      · subst k0; simp only [if_true, show ((0:Nat) = 5) = False by decide, if_false]; omega
      rw [ak k k5 k0 k1, if_neg k5, if_neg k0, edone]
      simp only [if_true, Nat.zero_add]
      by_cases k3 : k = 3
      · subst k3; simpa using f3
      by_cases k4 : k = 4
      · subst k4; simp only [show ((4:Nat) = 3) = False by decide, if_false, if_true]; omega
      by_cases k2 : k = 2
      · subst k2; simp only [show ((2:Nat) = 3) = False by decide, show ((2:Nat) = 4) = False by decide, if_false, if_true]; exact f2
      rw [fk k k2 k3 k4]; exact Nat.zero_le _
    · intro hs k k1
      obtain ⟨g3, g4, g2⟩ := fs hs
      unfold predicted
      by_cases k5 : k = 5
      · subst k5; simp only [if_true]; omega
      by_cases k0 : k = 0
      · subst k0; simp only [if_true, show ((0:Nat) = 5) = False by decide, if_false]; omega
      rw [ak k k5 k0 k1, if_neg k5, if_neg k0, edone]
      simp only [if_true, Nat.zero_add]
      by_cases k3 : k = 3
      · subst k3; simpa using g3
      by_cases k4 : k = 4
      · subst k4; simp only [show ((4:Nat) = 3) = False by decide, if_false, if_true]; omega
      by_cases k2 : k = 2
      · subst k2; simp only [show ((2:Nat) = 3) = False by decide, show ((2:Nat) = 4) = False by decide, if_false, if_true]; exact g2
      rw [fk k k2 k3 k4, if_neg k3, if_neg k4, if_neg k2]

/-- the counters of the counting copy of `Boc.deserialize` against the cost model's `cellLoop` on the accepted header -/
theorem deserc_ticks {R : Type} (data : Bytes) (cls : Bits → List (Option R) → Int → Option R) :
    match header data with
    | none => ∀ k, (deserialize_cnt data cls).2 k = 0
    | some h =>
      (∀ k, k ≠ 1 → (deserialize_cnt data cls).2 k ≤ predicted h.size_bytes h.cells_num h.cells_data h.root_list.length k) ∧
      ((deserialize_cnt data cls).1.isSome →
        ∀ k, k ≠ 1 → (deserialize_cnt data cls).2 k = predicted h.size_bytes h.cells_num h.cells_data h.root_list.length k) := by
  unfold deserialize_cnt
  cases hh : header data with
  | none => intro k; rfl
  | some h =>
    simp only [bnd_some_snd, bnd_some_fst]
    refine deser_shape h.size_bytes h.cells_num h.cells_data h.root_list.length _ (fun x i acc => rfl) _ ?_
    intro st hst
    exact drestc_ticks data cls h st.2 hst

/-! ## the cost model on an accepted header; the bridge -/

theorem testBit_div (x i : Nat) : (x / 2 ^ i % 2 == 1) = x.testBit i := by
  rw [Nat.testBit_eq_decide_div_mod_eq]; simp [BEq.beq]

theorem bocCost_eq_body (data : Bytes) (fl : Flags) (off cells roots absent tot : Nat) (hx : Fixed data fl off cells roots absent tot) :
    bocCost data = Cost.bocBody data fl.generic fl.hasIdx fl.hasCrc fl.sizeBytes off cells roots tot := by
  obtain ⟨hfl, hpre, hs, h5, hcells, hroots, habsent, htot⟩ := hx
  have hl5 : ¬ data.length < 5 := by omega
  have h5' : data.getD 5 0 = off := by simp [List.getD, h5]
  have e2 : 6 + 2 * fl.sizeBytes = 6 + fl.sizeBytes + fl.sizeBytes := by omega
  have hpre' : ¬ data.length - 5 < 1 + 3 * fl.sizeBytes := by omega
  have hs' : (fl.sizeBytes == 0) = false := by simpa using hs
  have hfields : Cost.bocBody data fl.generic fl.hasIdx fl.hasCrc fl.sizeBytes off
      (natOfBE (Cost.sl data 6 (6 + fl.sizeBytes))) (natOfBE (Cost.sl data (6 + fl.sizeBytes) (6 + 2 * fl.sizeBytes)))
      (natOfBE (Cost.sl data (6 + 3 * fl.sizeBytes) (6 + 3 * fl.sizeBytes + off))) =
      Cost.bocBody data fl.generic fl.hasIdx fl.hasCrc fl.sizeBytes off cells roots tot := by
    rw [e2]; unfold Cost.sl; unfold pySlice at hcells hroots htot; rw [hcells, hroots, htot]
  rw [← hfields]
  unfold bocCost Cost.bocGuarded
  cases hfl with
  | generic fb hmg h4 =>
    have h4' : data.getD 4 0 = fb := by simp [List.getD, h4]
    have hm' : data.take 4 = Cost.magicGen := by have := hmg; simp only [pySlice, List.drop_zero] at this; exact this
    simp only [hm', beq_self_eq_true, hl5, decide_false, Bool.true_or, Bool.not_true, Bool.or_false, Bool.false_eq_true, if_false, if_true, h4', h5'] at hpre' hs' ⊢
    simp only [hpre', hs', if_false, Bool.false_eq_true]
    rw [show (128 : Nat) = 2 ^ 7 from rfl, show (64 : Nat) = 2 ^ 6 from rfl, testBit_div, testBit_div]
  | idx s hm0 hmg h4 => 
    have h4' : data.getD 4 0 = s := by simp [List.getD, h4]
    have hm' : data.take 4 = Cost.magicIdx := by have := hmg; simp only [pySlice, List.drop_zero] at this; exact this
    have hne : (Cost.magicIdx == Cost.magicGen) = false := by decide
    have hne2 : (Cost.magicIdx == Cost.magicIdxCrc) = false := by decide
    simp only [hm', hne, hne2, beq_self_eq_true, hl5, decide_false, Bool.true_or, Bool.or_true, Bool.not_true, Bool.or_false, Bool.false_eq_true, if_false, if_true, h4', h5'] at hpre' hs' ⊢
    simp only [hpre', hs', if_false, Bool.false_eq_true]
  | idxCrc s hm0 hm1 hmg h4 =>
    have h4' : data.getD 4 0 = s := by simp [List.getD, h4]
    have hm' : data.take 4 = Cost.magicIdxCrc := by have := hmg; simp only [pySlice, List.drop_zero] at this; exact this
    have hne : (Cost.magicIdxCrc == Cost.magicGen) = false := by decide
    simp only [hm', hne, beq_self_eq_true, hl5, decide_false, Bool.true_or, Bool.or_true, Bool.not_true, Bool.or_false, Bool.false_eq_true, if_false, if_true, h4', h5'] at hpre' hs' ⊢
    simp only [hpre', hs', if_false, Bool.false_eq_true]

theorem pick (r : Nat × Nat × Bool) (cells roots hdr crc k : Nat) :
    (if k = 5 then r.1 else if k = 0 then r.2.1 else if k = 3 then (if r.2.2 = true then cells else 0)
      else if k = 4 then (if r.2.2 = true then r.2.1 else 0) else if k = 2 then (if r.2.2 = true then roots else 0) else 0) =
    (if k = 5 then (if (!r.2.2) = true then ({ hdr := hdr, crc := crc, loop1 := r.1, refs1 := r.2.1 } : Cost.BocCost)
        else { hdr := hdr, crc := crc, loop1 := r.1, refs1 := r.2.1, loop2 := cells, refs2 := r.2.1, loop3 := roots }).loop1
     else if k = 0 then (if (!r.2.2) = true then ({ hdr := hdr, crc := crc, loop1 := r.1, refs1 := r.2.1 } : Cost.BocCost)
        else { hdr := hdr, crc := crc, loop1 := r.1, refs1 := r.2.1, loop2 := cells, refs2 := r.2.1, loop3 := roots }).refs1
     else if k = 3 then (if (!r.2.2) = true then ({ hdr := hdr, crc := crc, loop1 := r.1, refs1 := r.2.1 } : Cost.BocCost)
        else { hdr := hdr, crc := crc, loop1 := r.1, refs1 := r.2.1, loop2 := cells, refs2 := r.2.1, loop3 := roots }).loop2
     else if k = 4 then (if (!r.2.2) = true then ({ hdr := hdr, crc := crc, loop1 := r.1, refs1 := r.2.1 } : Cost.BocCost)
        else { hdr := hdr, crc := crc, loop1 := r.1, refs1 := r.2.1, loop2 := cells, refs2 := r.2.1, loop3 := roots }).refs2
     else if k = 2 then (if (!r.2.2) = true then ({ hdr := hdr, crc := crc, loop1 := r.1, refs1 := r.2.1 } : Cost.BocCost)
        else { hdr := hdr, crc := crc, loop1 := r.1, refs1 := r.2.1, loop2 := cells, refs2 := r.2.1, loop3 := roots }).loop3
     else 0) := by
  rcases r with ⟨a, b, c⟩
  cases c <;> simp

theorem bocCost_accept (data : Bytes) (h : HeaderOut) (hh : header data = some h) (k : Nat) :
    predicted h.size_bytes h.cells_num h.cells_data h.root_list.length k =
      (if k = 5 then (bocCost data).loop1 else if k = 0 then (bocCost data).refs1 else if k = 3 then (bocCost data).loop2
       else if k = 4 then (bocCost data).refs2 else if k = 2 then (bocCost data).loop3 else 0) := by
  rw [TonVerif.Proofs.SrcBocHeader.src_header_eq_model] at hh
  have hp := model_path data
  cases hm : deserializeBocHeader data with
  | none => simp [hm] at hh
  | some m =>
    rw [hm] at hh hp
    simp only [Option.map_some, Option.some.injEq] at hh
    subst hh
    cases hp with
    | final hp =>
      cases hp with
      | @accept fl off cells roots absent tot rlen rl ilen ix clen hx hr hix ht hc hlen =>
        rw [bocCost_eq_body data fl off cells roots absent tot hx]
        have hs := hx.hs
        simp only [HeaderOut.ofModel, predicted]
        have hrl : rl.length = roots ∧ rlen = (if fl.generic then roots * fl.sizeBytes else 0) ∧ ((!fl.generic && roots != 1) = false) := by
          cases hr with
          | generic hg _ => simp [hg, uintsAt_length]
          | legacy hg h1 => simp [hg, h1]
        have hil : ilen = (if fl.hasIdx then cells * off else 0) ∧ ((fl.hasIdx && off == 0) = false) := by
          cases hix with
          | some hi _ h0 => simp [hi, h0]
          | none hi => simp [hi]
        have hcl : clen = (if fl.hasCrc then 4 else 0) := by
          cases hc with
          | some hc' _ _ _ _ => simp [hc']
          | none hc' => simp [hc']
        obtain ⟨hrl1, hrl2, hrl3⟩ := hrl
        obtain ⟨hil1, hil2⟩ := hil
        unfold Cost.bocBody Cost.short
        simp only [hrl3, hil2, Bool.false_eq_true, if_false, ← hrl2, ← hil1, ← hcl]
        have c1 : ¬ data.length < 6 + 3 * fl.sizeBytes + off + rlen := by omega
        have c2 : ¬ data.length < 6 + 3 * fl.sizeBytes + off + rlen + ilen := by omega
        have c4 : ¬ data.length < 6 + 3 * fl.sizeBytes + off + rlen + ilen + tot + clen := by omega
        have c5 : (data.length != 6 + 3 * fl.sizeBytes + off + rlen + ilen + tot + clen) = false := by simp [hlen]
        simp only [c1, c2, ht, c4, c5, decide_false, Bool.false_eq_true, if_false]
        show _ = _
        simp only [Cost.sl, pySlice, hrl1]
        exact pick _ _ _ _ _ _

/-- BRIDGE: the loop counters of the counting copy of the regenerated `Boc.deserialize` never exceed the counters of the cost model
`bocCost` on the same bytes, no other counter but the completion-tag search (1) ticks, and when the parse RETURNS they are equal. -/
theorem src_boc_bridge {R : Type} (data : Bytes) (cls : Bits → List (Option R) → Int → Option R) :
    ((deserialize_cnt data cls).2 5 ≤ (bocCost data).loop1 ∧ (deserialize_cnt data cls).2 0 ≤ (bocCost data).refs1 ∧
     (deserialize_cnt data cls).2 3 ≤ (bocCost data).loop2 ∧ (deserialize_cnt data cls).2 4 ≤ (bocCost data).refs2 ∧
     (deserialize_cnt data cls).2 2 ≤ (bocCost data).loop3 ∧ ∀ k, 6 ≤ k → (deserialize_cnt data cls).2 k = 0) ∧
    ((Generated.BocCells.deserialize data cls).isSome →
     (deserialize_cnt data cls).2 5 = (bocCost data).loop1 ∧ (deserialize_cnt data cls).2 0 = (bocCost data).refs1 ∧
     (deserialize_cnt data cls).2 3 = (bocCost data).loop2 ∧ (deserialize_cnt data cls).2 4 = (bocCost data).refs2 ∧
     (deserialize_cnt data cls).2 2 = (bocCost data).loop3) := by
  have key := deserc_ticks data cls
  cases hh : header data with
  | none =>
    rw [hh] at key
    simp only at key
    refine ⟨⟨by rw [key]; exact Nat.zero_le _, by rw [key]; exact Nat.zero_le _, by rw [key]; exact Nat.zero_le _,
      by rw [key]; exact Nat.zero_le _, by rw [key]; exact Nat.zero_le _, fun k _ => key k⟩, ?_⟩
    intro hs
    rw [← deserialize_cnt_erase] at hs
    unfold deserialize_cnt at hs
    rw [hh] at hs
    cases hs
  | some h =>
    rw [hh] at key
    simp only at key
    obtain ⟨kle, keq⟩ := key
    have e := bocCost_accept data h hh
    have e5 := e 5; have e0 := e 0; have e3 := e 3; have e4 := e 4; have e2 := e 2
    simp only [if_true, show ((0:Nat) = 5) = False by decide, show ((3:Nat) = 5) = False by decide, show ((3:Nat) = 0) = False by decide,
      show ((4:Nat) = 5) = False by decide, show ((4:Nat) = 0) = False by decide, show ((4:Nat) = 3) = False by decide,
      show ((2:Nat) = 5) = False by decide, show ((2:Nat) = 0) = False by decide, show ((2:Nat) = 3) = False by decide,
      show ((2:Nat) = 4) = False by decide, if_false] at e5 e0 e3 e4 e2
    refine ⟨⟨by rw [← e5]; exact kle 5 (by decide), by rw [← e0]; exact kle 0 (by decide), by rw [← e3]; exact kle 3 (by decide),
      by rw [← e4]; exact kle 4 (by decide), by rw [← e2]; exact kle 2 (by decide), ?_⟩, ?_⟩
    · intro k hk
      have := kle k (by omega)
      unfold predicted at this
      rw [if_neg (by omega), if_neg (by omega), if_neg (by omega), if_neg (by omega), if_neg (by omega)] at this
      omega
    · intro hs
      rw [← deserialize_cnt_erase] at hs
      have := keq hs
      exact ⟨by rw [← e5]; exact this 5 (by decide), by rw [← e0]; exact this 0 (by decide), by rw [← e3]; exact this 3 (by decide),
        by rw [← e4]; exact this 4 (by decide), by rw [← e2]; exact this 2 (by decide)⟩

/-- the completion-tag search of `deserialize_cell` (counter 1) is not in the cost model: at most 7 iterations per call (a `range(-1, -8, -1)`). -/
theorem tag_range : Py.rangeI? (-1) (-8) (-1) = some [-1, -2, -3, -4, -5, -6, -7] := by decide

end TonVerif.Proofs.SrcBocCnt
