import TonVerif.Generated.BocCnt
import TonVerif.Proofs.SrcW
import TonVerif.Proofs.SrcBocDeser
import TonVerif.Proofs.Cost

set_option linter.unusedSimpArgs false
namespace TonVerif.Proofs.SrcBocCnt
open TonVerif TonVerif.Py TonVerif.Generated.BocHeader TonVerif.Generated.BocCells TonVerif.Generated.BocCnt
open TonVerif.Proofs.SrcW

/-! ## erasure: the counting copy computes the value of the regenerated function -/

theorem rest2c_erase {R : Type} (data : Bytes) (rs tr ex i : Nat) (bits : Bits) (e : Option Int) :
    (deserialize_cell_rest2_cnt (R := R) data rs tr ex i bits e).1 = deserialize_cell_rest2 data rs tr ex i bits e := by
  unfold deserialize_cell_rest2_cnt deserialize_cell_rest2
  simp only [bnd_opt_fst, bnd_w_fst, ite_fst, ret_fst, raise_fst, loopW_fst]

theorem restc_erase {R : Type} (data : Bytes) (rs tr ex au ds i : Nat) :
    (deserialize_cell_rest_cnt (R := R) data rs tr ex au ds i).1 = deserialize_cell_rest data rs tr ex au ds i := by
  unfold deserialize_cell_rest_cnt deserialize_cell_rest
  simp only [bnd_opt_fst, bnd_w_fst, ite_fst, ret_fst, raise_fst, loopW_fst, rest2c_erase]

theorem cellc_erase {R : Type} (data : Bytes) (rs : Nat) :
    (deserialize_cell_cnt (R := R) data rs).1 = deserialize_cell data rs := by
  unfold deserialize_cell_cnt deserialize_cell
  simp only [bnd_opt_fst, bnd_w_fst, ite_fst, ret_fst, raise_fst, loopW_fst, restc_erase]

theorem drest2c_erase {R : Type} (data : Bytes) (cls : Bits → List (Option R) → Int → Option R) (h : HeaderOut) (arr : List (CellOut R)) :
    (deserialize_rest2_cnt data cls h arr).1 = deserialize_rest2 data cls h arr := by
  unfold deserialize_rest2_cnt deserialize_rest2
  simp only [bnd_opt_fst, bnd_w_fst, ite_fst, ret_fst, raise_fst, loopW_fst]

theorem drestc_erase {R : Type} (data : Bytes) (cls : Bits → List (Option R) → Int → Option R) (h : HeaderOut) (arr : List (CellOut R)) :
    (deserialize_rest_cnt data cls h arr).1 = deserialize_rest data cls h arr := by
  unfold deserialize_rest_cnt deserialize_rest
  simp only [bnd_opt_fst, bnd_w_fst, ite_fst, ret_fst, raise_fst, loopW_fst, drest2c_erase]

/-- ERASURE: the counting copy of `Boc.deserialize` computes exactly the value of the regenerated function -/
theorem deserialize_cnt_erase {R : Type} (data : Bytes) (cls : Bits → List (Option R) → Int → Option R) :
    (deserialize_cnt data cls).1 = deserialize data cls := by
  unfold deserialize_cnt deserialize
  simp only [bnd_opt_fst, bnd_w_fst, ite_fst, ret_fst, raise_fst, loopW_fst, drestc_erase, cellc_erase]

end TonVerif.Proofs.SrcBocCnt
