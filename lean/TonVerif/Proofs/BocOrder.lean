/-
`Cell.order` (Model/BocEmit.lean `orderLoop` / `PCell.order`) returns a VALID ORDER of the distinct sub-cells:
root first, every distinct sub-cell exactly once (cells are keyed by hash), references strictly forward.
Cells are identified by `PCell.key` (= `Cell.__hash__`); the local hypothesis `NoCollision` says that on the
sub-cells at hand equal keys mean equal cells.
-/
import TonVerif.Model.BocEmit
import TonVerif.Proofs.BocOrderAux

namespace TonVerif.Proofs.BocOrder
open TonVerif TonVerif.Model

mutual
  /-- all sub-cells of a cell (tree unfolding, root included, with repetitions) -/
  def subcells : PCell → List PCell
    | .mk i refs => .mk i refs :: subcellsList refs
  def subcellsList : List PCell → List PCell
    | [] => []
    | c :: cs => subcells c ++ subcellsList cs
end

/-- local no-collision hypothesis: among the sub-cells of `root`, equal keys (hashes) mean equal cells -/
def NoCollision (root : PCell) : Prop :=
  ∀ a ∈ subcells root, ∀ b ∈ subcells root, a.key = b.key → a = b

/-- what `to_boc` needs from the order of the cells -/
structure ValidOrder (root : PCell) (ord : List PCell) : Prop where
  /-- the root is first -/
  root_first : ord.head? = some root
  /-- no cell (keyed by hash) twice -/
  nodup : (ord.map PCell.key).Nodup
  /-- every sub-cell of the root appears (by key) -/
  complete : ∀ d ∈ subcells root, d.key ∈ ord.map PCell.key
  /-- only sub-cells of the root appear -/
  sound : ∀ c ∈ ord, c ∈ subcells root
  /-- every reference of the cell at position i is (by key) at a position > i -/
  forward : ∀ (i : Nat) (c : PCell), ord[i]? = some c → ∀ r ∈ c.refs, ∃ j, i < j ∧ (ord[j]?).map PCell.key = some r.key

/-! ### sizes: a proper sub-cell is never the cell itself -/

mutual
  def psize : PCell → Nat
    | .mk _ refs => psizeL refs + 1
  def psizeL : List PCell → Nat
    | [] => 0
    | c :: cs => psize c + psizeL cs
end

mutual
  theorem psize_subcells : (c : PCell) → ∀ d ∈ subcells c, psize d ≤ psize c
    | .mk i refs, d, hd => by
      simp only [subcells, List.mem_cons] at hd
      rcases hd with rfl | hd
      · exact Nat.le_refl _
      · have := psize_subcellsList refs d hd
        simp only [psize]; omega
  theorem psize_subcellsList : (cs : List PCell) → ∀ d ∈ subcellsList cs, psize d ≤ psizeL cs
    | [], d, hd => by simp [subcellsList] at hd
    | c :: cs, d, hd => by
      simp only [subcellsList, List.mem_append] at hd
      simp only [psizeL]
      rcases hd with hd | hd
      · have := psize_subcells c d hd; omega
      · have := psize_subcellsList cs d hd; omega
end

theorem subcells_eq (c : PCell) : subcells c = c :: subcellsList c.refs := by
  cases c; simp [subcells, PCell.refs]

theorem self_mem_subcells (c : PCell) : c ∈ subcells c := by
  rw [subcells_eq]; simp

theorem ne_of_mem_subcellsList_refs {c d : PCell} (hd : d ∈ subcellsList c.refs) : d ≠ c := by
  intro e
  have h := psize_subcellsList c.refs d hd
  subst e
  cases d with
  | mk i refs => simp only [psize, PCell.refs] at h; omega

theorem mem_subcellsList_of_mem : ∀ (cs : List PCell) (r : PCell), r ∈ cs → r ∈ subcellsList cs := by
  intro cs
  induction cs with
  | nil => intro r h; simp at h
  | cons c cs ih =>
    intro r h
    simp only [subcellsList, List.mem_append]
    rcases List.mem_cons.1 h with rfl | h
    · exact Or.inl (self_mem_subcells _)
    · exact Or.inr (ih r h)

/-! ### invariants of the recursive search -/

/-- every reference of a cell is (by key) strictly later in the list -/
def Fwd : List PCell → Prop
  | [] => True
  | x :: rest => (∀ r ∈ x.refs, r.key ∈ rest.map PCell.key) ∧ Fwd rest

structure Inv (root : PCell) (s : DState) : Prop where
  sound : ∀ x ∈ s.2, x ∈ subcells root
  closed : ∀ x ∈ s.2, ∀ d ∈ subcells x, d.key ∈ s.2.map PCell.key
  fwd : Fwd s.2
  nodup : (s.2.map PCell.key).Nodup
  sub : ∀ x ∈ s.2, x.key ∈ s.1

structure Post (root : PCell) (s s' : DState) (tgt : List PCell) : Prop where
  inv : Inv root s'
  vmono : ∀ k ∈ s.1, k ∈ s'.1
  pmono : ∀ x ∈ s.2, x ∈ s'.2
  vnew : ∀ k ∈ s'.1, k ∈ s.1 ∨ k ∈ s'.2.map PCell.key
  pnew : ∀ x ∈ s'.2, x.key ∈ s.1 → x ∈ s.2
  done : ∀ d ∈ tgt, d.key ∈ s'.2.map PCell.key

theorem keys_mono {p p' : List PCell} (h : ∀ x ∈ p, x ∈ p') {k : Nat}
    (hk : k ∈ p.map PCell.key) : k ∈ p'.map PCell.key := by
  obtain ⟨x, hx, rfl⟩ := List.mem_map.1 hk
  exact List.mem_map_of_mem (h x hx)

/-- the "miss" case of `dfs_post`, given the result for the children -/
theorem dfs_post_miss (root : PCell) (c : PCell) (s : DState)
    (hsub : ∀ d ∈ subcells c, d ∈ subcells root) (inv : Inv root s)
    (hk : c.key ∉ s.1)
    (IH : Post root (c.key :: s.1, s.2) (dfsR c.refs (c.key :: s.1, s.2)) (subcellsList c.refs)) :
    Post root s (dfs c s) (subcells c) := by
  rw [dfs_miss hk]
  have hdone : ∀ d ∈ subcells c,
      d.key ∈ (c :: (dfsR c.refs (c.key :: s.1, s.2)).2).map PCell.key := by
    intro d hd
    rw [subcells_eq] at hd
    rcases List.mem_cons.1 hd with rfl | hd
    · simp
    · simp only [List.map_cons, List.mem_cons]; exact Or.inr (IH.done d hd)
  refine ⟨⟨?_, ?_, ?_, ?_, ?_⟩, ?_, ?_, ?_, ?_, hdone⟩
  · intro x hx
    rcases List.mem_cons.1 hx with rfl | hx
    · exact hsub _ (self_mem_subcells _)
    · exact IH.inv.sound x hx
  · intro x hx d hd
    rcases List.mem_cons.1 hx with rfl | hx
    · exact hdone d hd
    · simp only [List.map_cons, List.mem_cons]; exact Or.inr (IH.inv.closed x hx d hd)
  · exact ⟨fun r hr => IH.done r (mem_subcellsList_of_mem _ r hr), IH.inv.fwd⟩
  · show ((c :: (dfsR c.refs (c.key :: s.1, s.2)).2).map PCell.key).Nodup
    rw [List.map_cons, List.nodup_cons]
    refine ⟨?_, IH.inv.nodup⟩
    intro hin
    obtain ⟨x, hx, hxk⟩ := List.mem_map.1 hin
    have hx0 : x ∈ s.2 := IH.pnew x hx (by rw [hxk]; simp)
    exact hk (hxk ▸ inv.sub x hx0)
  · intro x hx
    rcases List.mem_cons.1 hx with rfl | hx
    · exact IH.vmono _ (by simp)
    · exact IH.inv.sub x hx
  · intro k hk'
    exact IH.vmono k (by simp [hk'])
  · intro x hx
    exact List.mem_cons_of_mem _ (IH.pmono x hx)
  · intro k hk'
    rcases IH.vnew k hk' with h | h
    · rcases List.mem_cons.1 h with rfl | h
      · right; simp
      · exact Or.inl h
    · right; simp only [List.map_cons, List.mem_cons]; exact Or.inr h
  · intro x hx hxs
    rcases List.mem_cons.1 hx with rfl | hx
    · exact absurd hxs hk
    · exact IH.pnew x hx (by simp [hxs])

mutual
  theorem dfs_post (root : PCell) (nc : NoCollision root) : (c : PCell) → ∀ s : DState,
      (∀ d ∈ subcells c, d ∈ subcells root) → Inv root s →
      (∀ k ∈ s.1, k ∈ s.2.map PCell.key ∨ ∀ d ∈ subcells c, d.key ≠ k) →
      Post root s (dfs c s) (subcells c)
    | .mk i refs, s, hsub, inv, H => by
      by_cases hk : (PCell.mk i refs).key ∈ s.1
      · rw [dfs_hit hk]
        have hself := self_mem_subcells (PCell.mk i refs)
        have hin : (PCell.mk i refs).key ∈ s.2.map PCell.key := by
          rcases H _ hk with h | h
          · exact h
          · exact absurd rfl (h _ hself)
        obtain ⟨x, hx, hxk⟩ := List.mem_map.1 hin
        have hxc : x = PCell.mk i refs := nc x (inv.sound x hx) _ (hsub _ hself) hxk
        rw [hxc] at hx
        exact ⟨inv, fun _ h => h, fun _ h => h, fun _ h => Or.inl h, fun _ h _ => h,
          inv.closed _ hx⟩
      · have hsub0 : ∀ d ∈ subcellsList refs, d ∈ subcells root := by
          intro d hd; apply hsub; simp [subcells, hd]
        have IH := dfsR_post root nc refs ((PCell.mk i refs).key :: s.1, s.2) hsub0
          ⟨inv.sound, inv.closed, inv.fwd, inv.nodup, fun x hx => List.mem_cons_of_mem _ (inv.sub x hx)⟩
          (by
            intro k hk'
            rcases List.mem_cons.1 hk' with rfl | hk'
            · right
              intro d hd e
              have hdc : d = PCell.mk i refs :=
                nc d (hsub0 d hd) _ (hsub _ (self_mem_subcells _)) e
              exact ne_of_mem_subcellsList_refs (c := PCell.mk i refs) hd hdc
            · rcases H k hk' with h | h
              · exact Or.inl h
              · right; intro d hd; apply h; simp [subcells, hd])
        exact dfs_post_miss root (PCell.mk i refs) s hsub inv hk IH
  theorem dfsR_post (root : PCell) (nc : NoCollision root) : (cs : List PCell) → ∀ s : DState,
      (∀ d ∈ subcellsList cs, d ∈ subcells root) → Inv root s →
      (∀ k ∈ s.1, k ∈ s.2.map PCell.key ∨ ∀ d ∈ subcellsList cs, d.key ≠ k) →
      Post root s (dfsR cs s) (subcellsList cs)
    | [], s, _, inv, _ => by
      rw [dfsR_nil]
      exact ⟨inv, fun _ h => h, fun _ h => h, fun _ h => Or.inl h, fun _ h _ => h,
        fun d hd => by simp [subcellsList] at hd⟩
    | c :: cs, s, hsub, inv, H => by
      have IH1 := dfsR_post root nc cs s
        (fun d hd => hsub d (by simp [subcellsList, hd])) inv
        (fun k hk => (H k hk).imp id (fun h d hd => h d (by simp [subcellsList, hd])))
      have IH2 := dfs_post root nc c (dfsR cs s)
        (fun d hd => hsub d (by simp [subcellsList, hd])) IH1.inv
        (by
          intro k hk
          rcases IH1.vnew k hk with h | h
          · rcases H k h with h' | h'
            · exact Or.inl (keys_mono IH1.pmono h')
            · right; intro d hd; exact h' d (by simp [subcellsList, hd])
          · exact Or.inl h)
      rw [dfsR_cons]
      refine ⟨IH2.inv, fun k h => IH2.vmono k (IH1.vmono k h),
        fun x h => IH2.pmono x (IH1.pmono x h), ?_, ?_, ?_⟩
      · intro k hk
        rcases IH2.vnew k hk with h | h
        · rcases IH1.vnew k h with h' | h'
          · exact Or.inl h'
          · exact Or.inr (keys_mono IH2.pmono h')
        · exact Or.inr h
      · intro x hx hxs
        exact IH1.pnew x (IH2.pnew x hx (IH1.vmono _ hxs)) hxs
      · intro d hd
        simp only [subcellsList, List.mem_append] at hd
        rcases hd with hd | hd
        · exact IH2.done d hd
        · exact keys_mono IH2.pmono (IH1.done d hd)
end

/-- the search from the root with an empty state -/
theorem dfs_root_post (root : PCell) (nc : NoCollision root) :
    Post root ([], []) (dfs root ([], [])) (subcells root) := by
  apply dfs_post root nc root ([], []) (fun _ h => h)
  · exact ⟨by simp, by simp, trivial, by simp, by simp⟩
  · simp

theorem dfs_root_head (root : PCell) : (dfs root ([], [])).2.head? = some root := by
  rw [dfs_miss (by simp)]; simp

theorem Fwd.index : ∀ (ord : List PCell), Fwd ord → ∀ (i : Nat) (c : PCell), ord[i]? = some c →
    ∀ r ∈ c.refs, ∃ j, i < j ∧ (ord[j]?).map PCell.key = some r.key := by
  intro ord
  induction ord with
  | nil => intro _ i c h; simp at h
  | cons x rest ih =>
    intro hf i c h r hr
    cases i with
    | zero =>
      simp only [List.getElem?_cons_zero, Option.some.injEq] at h
      subst h
      obtain ⟨y, hy, hyk⟩ := List.mem_map.1 (hf.1 r hr)
      obtain ⟨j, hj⟩ := List.getElem?_of_mem hy
      exact ⟨j + 1, Nat.succ_pos _, by simp [hj, hyk]⟩
    | succ i =>
      simp only [List.getElem?_cons_succ] at h
      obtain ⟨j, hij, hj⟩ := ih hf.2 i c h r hr
      exact ⟨j + 1, Nat.succ_lt_succ hij, by simpa using hj⟩

/-- the recursive search returns a valid order -/
theorem dfs_valid (root : PCell) (nc : NoCollision root) :
    ValidOrder root (dfs root ([], [])).2 :=
  have P := dfs_root_post root nc
  { root_first := dfs_root_head root
    nodup := P.inv.nodup
    complete := P.done
    sound := P.inv.sound
    forward := Fwd.index _ P.inv.fwd }

/-! ### from the loop to the recursive search -/

theorem orderLoop_root (root : PCell) (fuel : Nat) :
    orderLoop (fuel + 1 + cost root ([], [])) [(root, false)] ∅ [] = some (dfs root ([], [])).2 := by
  obtain ⟨vis', _, h⟩ := sim_dfs root [] ∅ ([], []) agree_empty
  rw [h (fuel + 1), orderLoop_nil]

theorem orderLoop_root_eq {root : PCell} {fuel : Nat} {r : List PCell}
    (h : orderLoop fuel [(root, false)] ∅ [] = some r) : r = (dfs root ([], [])).2 := by
  have h1 := orderLoop_mono h (Nat.le_max_left fuel (0 + 1 + cost root ([], [])))
  have h2 := orderLoop_mono (orderLoop_root root 0) (Nat.le_max_right fuel (0 + 1 + cost root ([], [])))
  rw [h1] at h2
  exact Option.some.inj h2

theorem order_of_loop {root : PCell} {fuel : Nat} {r : List PCell} (nd : (r.map PCell.key).Nodup)
    (h : orderLoop fuel [(root, false)] ∅ [] = some r) : root.order fuel = some r := by
  have := foldl_dictMoveToEnd r ([], ∅) (by simpa using agree_empty) nd (by simp)
  simp [PCell.order, h, this]

/-- with enough fuel `order` returns exactly the reversed post-order of the recursive search -/
theorem order_eq_dfs (root : PCell) (nc : NoCollision root) (fuel : Nat)
    (hf : cost root ([], []) + 1 ≤ fuel) : root.order fuel = some (dfs root ([], [])).2 := by
  apply order_of_loop (dfs_root_post root nc).inv.nodup
  have := orderLoop_root root (fuel - (cost root ([], []) + 1))
  rwa [show fuel - (cost root ([], []) + 1) + 1 + cost root ([], []) = fuel by omega] at this

/-- whenever `order` returns, it returns the reversed post-order of the recursive search -/
theorem order_some_eq_dfs (root : PCell) (nc : NoCollision root) (fuel : Nat) (ord : List PCell)
    (h : root.order fuel = some ord) : ord = (dfs root ([], [])).2 := by
  cases hl : orderLoop fuel [(root, false)] ∅ [] with
  | none => simp [PCell.order, hl] at h
  | some r =>
    have hr := orderLoop_root_eq hl
    subst hr
    rw [order_of_loop (dfs_root_post root nc).inv.nodup hl] at h
    exact (Option.some.inj h).symm

theorem order_valid (root : PCell) (fuel : Nat) (ord : List PCell) (nc : NoCollision root)
    (h : root.order fuel = some ord) : ValidOrder root ord := by
  rw [order_some_eq_dfs root nc fuel ord h]
  exact dfs_valid root nc

/-! ### fuel -/

mutual
  theorem cost_le : (c : PCell) → ∀ s : DState, (∀ d ∈ subcells c, d.refs.length ≤ 4) →
      cost c s + 5 * s.1.length ≤ 1 + 5 * (dfs c s).1.length
    | .mk i refs, s, h4 => by
      by_cases hk : (PCell.mk i refs).key ∈ s.1
      · rw [dfs_hit hk, cost_hit hk]; omega
      · rw [dfs_miss hk, cost_miss hk]
        have IH := costR_le refs ((PCell.mk i refs).key :: s.1, s.2)
          (fun d hd => h4 d (by simp [subcells, hd]))
        have hr : refs.length ≤ 4 := h4 (PCell.mk i refs) (self_mem_subcells _)
        simp only [PCell.refs, List.length_cons] at IH ⊢
        omega
  theorem costR_le : (cs : List PCell) → ∀ s : DState, (∀ d ∈ subcellsList cs, d.refs.length ≤ 4) →
      costR cs s + 5 * s.1.length ≤ cs.length + 5 * (dfsR cs s).1.length
    | [], s, _ => by simp
    | c :: cs, s, h4 => by
      have IH1 := costR_le cs s (fun d hd => h4 d (by simp [subcellsList, hd]))
      have IH2 := cost_le c (dfsR cs s) (fun d hd => h4 d (by simp [subcellsList, hd]))
      rw [costR_cons, dfsR_cons, List.length_cons]
      omega
end

mutual
  theorem dfs_vis : (c : PCell) → ∀ s : DState, s.1.Nodup →
      (dfs c s).1.Nodup ∧ ∀ k ∈ (dfs c s).1, k ∈ s.1 ∨ k ∈ (subcells c).map PCell.key
    | .mk i refs, s, hn => by
      by_cases hk : (PCell.mk i refs).key ∈ s.1
      · rw [dfs_hit hk]; exact ⟨hn, fun _ h => Or.inl h⟩
      · rw [dfs_miss hk]
        have IH := dfsR_vis refs ((PCell.mk i refs).key :: s.1, s.2) (List.nodup_cons.2 ⟨hk, hn⟩)
        refine ⟨IH.1, ?_⟩
        intro k hk'
        rcases IH.2 k hk' with h | h
        · rcases List.mem_cons.1 h with rfl | h
          · right; simp [subcells]
          · exact Or.inl h
        · right
          simp only [subcells, List.map_cons, List.mem_cons]
          exact Or.inr h
  theorem dfsR_vis : (cs : List PCell) → ∀ s : DState, s.1.Nodup →
      (dfsR cs s).1.Nodup ∧ ∀ k ∈ (dfsR cs s).1, k ∈ s.1 ∨ k ∈ (subcellsList cs).map PCell.key
    | [], s, hn => by rw [dfsR_nil]; exact ⟨hn, fun _ h => Or.inl h⟩
    | c :: cs, s, hn => by
      have IH1 := dfsR_vis cs s hn
      have IH2 := dfs_vis c (dfsR cs s) IH1.1
      rw [dfsR_cons]
      refine ⟨IH2.1, ?_⟩
      intro k hk
      simp only [subcellsList, List.map_append, List.mem_append]
      rcases IH2.2 k hk with h | h
      · rcases IH1.2 k h with h' | h'
        · exact Or.inl h'
        · exact Or.inr (Or.inr h')
      · exact Or.inr (Or.inl h)
end

/-- the search visits at most as many keys as there are distinct keys among the sub-cells -/
theorem dfs_root_vis_le (root : PCell) :
    (dfs root ([], [])).1.length ≤ ((subcells root).map PCell.key).eraseDups.length := by
  have h := dfs_vis root ([], []) List.nodup_nil
  apply h.1.length_le_of_subset
  intro k hk
  rcases h.2 k hk with h' | h'
  · simp at h'
  · exact List.mem_eraseDups.2 h'

/-- the loop needs at most `5 * (distinct keys) + 1` iterations before the final empty-stack test -/
theorem cost_root_le (root : PCell) (h4 : ∀ c ∈ subcells root, c.refs.length ≤ 4) :
    cost root ([], []) ≤ 5 * ((subcells root).map PCell.key).eraseDups.length + 1 := by
  have h1 := cost_le root ([], []) h4
  have h2 := dfs_root_vis_le root
  simp only [List.length_nil] at h1
  omega

theorem order_fuel_suffices (root : PCell) (fuel : Nat) (h4 : ∀ c ∈ subcells root, c.refs.length ≤ 4)
    (nc : NoCollision root)
    (hf : 6 * ((subcells root).map PCell.key).eraseDups.length + 2 ≤ fuel) :
    (root.order fuel).isSome := by
  have hc := cost_root_le root h4
  rw [order_eq_dfs root nc fuel (by omega)]
  rfl

/-- with the fuel of `order_fuel_suffices` the result is a valid order (so the statement is not vacuous) -/
theorem order_fuel_valid (root : PCell) (fuel : Nat) (h4 : ∀ c ∈ subcells root, c.refs.length ≤ 4)
    (nc : NoCollision root)
    (hf : 6 * ((subcells root).map PCell.key).eraseDups.length + 2 ≤ fuel) :
    ∃ ord, root.order fuel = some ord ∧ ValidOrder root ord := by
  have hc := cost_root_le root h4
  exact ⟨_, order_eq_dfs root nc fuel (by omega), dfs_valid root nc⟩

/-! ### non-vacuity: a diamond `root → {m1, m2} → leaf` -/

namespace Example

def inf (k : Nat) (n : Nat) : CellInfo :=
  { kind := kOrdinary, bits := [], nrefs := n, mask := 0, hashes := [[k]], depths := [0] }

def leaf : PCell := .mk (inf 1 0) []
def m1 : PCell := .mk (inf 2 1) [leaf]
def m2 : PCell := .mk (inf 3 1) [leaf]
def root : PCell := .mk (inf 4 2) [m1, m2]

theorem keys : leaf.key = 1 ∧ m1.key = 2 ∧ m2.key = 3 ∧ root.key = 4 := by decide

theorem subcells_root : subcells root = [root, m1, leaf, m2, leaf] := by
  simp [subcells, subcellsList, root, m1, m2, leaf]

theorem noCollision : NoCollision root := by
  intro a ha b hb
  rw [subcells_root] at ha hb
  obtain ⟨k1, k2, k3, k4⟩ := keys
  simp only [List.mem_cons, List.not_mem_nil, or_false] at ha hb
  rcases ha with rfl | rfl | rfl | rfl | rfl <;> rcases hb with rfl | rfl | rfl | rfl | rfl <;>
    simp [k1, k2, k3, k4]

theorem dfs_root : (dfs root ([], [])).2 = [root, m1, m2, leaf] := by
  obtain ⟨k1, k2, k3, k4⟩ := keys
  simp [root, m1, m2, leaf] at k1 k2 k3 k4
  simp [dfs, dfsR, root, m1, m2, leaf, k1, k2, k3, k4]

theorem cost_root : cost root ([], []) = 9 := by
  obtain ⟨k1, k2, k3, k4⟩ := keys
  simp [root, m1, m2, leaf] at k1 k2 k3 k4
  simp [cost, costR, dfs, dfsR, root, m1, m2, leaf, k1, k2, k3, k4]

example : PCell.order 50 root = some [root, m1, m2, leaf] := by
  rw [order_eq_dfs root noCollision 50 (by rw [cost_root]; omega), dfs_root]

example : ValidOrder root [root, m1, m2, leaf] :=
  order_valid root 50 _ noCollision
    (by rw [order_eq_dfs root noCollision 50 (by rw [cost_root]; omega), dfs_root])

/-- the hypotheses of `order_fuel_suffices` hold for the diamond: 4 distinct keys, fuel 26 -/
example : (PCell.order 26 root).isSome := by
  apply order_fuel_suffices root 26 _ noCollision
  · rw [subcells_root]
    obtain ⟨k1, k2, k3, k4⟩ := keys
    simp only [List.map_cons, List.map_nil, k1, k2, k3, k4]
    decide
  · intro c hc
    rw [subcells_root] at hc
    simp only [List.mem_cons, List.not_mem_nil, or_false] at hc
    rcases hc with rfl | rfl | rfl | rfl | rfl <;> simp [root, m1, m2, leaf, PCell.refs]

end Example

end TonVerif.Proofs.BocOrder
