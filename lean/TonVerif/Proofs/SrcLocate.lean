/-
C11: the regenerated TL-B walk (`srcLocate`, Model/LocateSrc.lean over Generated/LocateSrc.lean) against the hand model
`locateAccount srcOpaque` (Model/Locate.lean).  `WalkAgreeAt st addr` is the equation for one state cell and address - a CLOSED
statement about regenerated definitions (no external, no parameter), which the driver op `srcloc` decides by evaluation.  Proved here for
every address: the cells on which `ShardStateUnsplit.deserialize` returns None (special) or raises at its tag.
-/
import TonVerif.Model.LocateSrc
namespace TonVerif.Proofs.SrcLocate
open TonVerif TonVerif.Model TonVerif.Tlb

/-- the regenerated walk and the hand model (sub-parsers read from the source) agree on this state cell and address: same "raises"
verdict, and the located account cell has the same `is_special()` flag, data bits and subtree -/
def WalkAgreeAt (st : PCell) (addr : Bytes) : Prop :=
  srcLocate (tcell st) addr = (locateAccount srcOpaque st addr).map tcell

theorem tcell_mk (i : CellInfo) (refs : List PCell) : tcell (.mk i refs) = .mk (i.kind != -1) i.bits (tcells refs) := by
  rw [tcell]

/-- a special state cell: `deserialize` returns `None`, `None.accounts` raises; the model refuses a non-ordinary cell -/
theorem walk_special (st : PCell) (addr : Bytes) (h : st.info.kind ≠ -1) : WalkAgreeAt st addr := by
  obtain ⟨i, refs⟩ := st
  have hk : i.kind ≠ -1 := h
  have hb : (i.kind != -1) = true := by simpa using hk
  simp [WalkAgreeAt, srcLocate, tcell_mk, Rd.special, Rd.beginParse, Tlb.Cell.exotic, hb, SrcLoc.ShardStateUnsplit, pyAttr,
    locateAccount, PCell.info, hk]

theorem tag_lit : Rd.bytesLit [144, 35, 175, 226] = .bits shardStateTag := by
  simp [Rd.bytesLit, shardStateTag]; decide

/-- an ordinary state cell without the `shard_state#9023afe2` tag: the parser raises, the model refuses -/
theorem walk_badtag (st : PCell) (addr : Bytes) (hk : st.info.kind = -1)
    (ht : st.info.bits.length < 32 ∨ st.info.bits.take 32 ≠ shardStateTag) : WalkAgreeAt st addr := by
  obtain ⟨i, refs⟩ := st
  have hk' : i.kind = -1 := hk
  have hm : locateAccount srcOpaque (.mk i refs) addr = none := by
    unfold locateAccount
    simp only [PCell.info, hk', ne_eq, not_true_eq_false, if_false]
    rcases ht with ht | ht
    · have : i.bits.length < 361 := by simp only [PCell.info] at ht; omega
      simp [this]
    · simp only [PCell.info] at ht
      by_cases hl : i.bits.length < 361
      · simp [hl]
      · simp [hl, ht]
  rw [WalkAgreeAt, hm]
  simp only [Option.map_none, srcLocate, tcell_mk, Rd.special, Rd.beginParse, Tlb.Cell.exotic, Tlb.Cell.bits, Tlb.Cell.refs, hk',
    bne_self_eq_false]
  unfold SrcLoc.ShardStateUnsplit
  simp only [Bool.false_eq_true, if_false, Rd.loadBytes, Rd.loadBits, Rd.takeBits, tag_lit]
  rcases ht with ht | ht
  · simp only [PCell.info] at ht
    simp [ht]
  · simp only [PCell.info] at ht
    by_cases hl : i.bits.length < 32
    · simp [hl]
    · have hne : (i.bits.take 32 == shardStateTag) = false := by simpa using ht
      simp [hl, Rd.veq, hne]

end TonVerif.Proofs.SrcLocate
