/-
The stand-alone wrappers of tlb/custom/wallet.py and tlb/custom/nft.py as regenerated from the source (Generated/WrapSrc.lean,
translator harness/translate/wrapsrc.py + pytlb.py) equal the hand model `Model/Wrappers.lean`, for ALL inputs: constructors
(`wallet_id is None` → 698983191, any int — 0 included — is kept; `public_key is None` raises), serialisers, deserialisers.
Generation dependent.
-/
import TonVerif.Generated.WrapSrc
import TonVerif.Model.Wrappers
import TonVerif.Proofs.SrcMsgSer
set_option linter.unusedSimpArgs false
namespace TonVerif.Proofs.SrcWrap
open TonVerif TonVerif.Model TonVerif.Model.Vm TonVerif.Spec.Tlb TonVerif.Generated.MsgSrc TonVerif.Generated.WrapSrc
open TonVerif.Proofs.SrcSOp TonVerif.Proofs.SrcVm TonVerif.Proofs.SrcMsg TonVerif.Proofs.SrcMsgSer
open TonVerif.Model.Message TonVerif.Model.BOp

variable {R : Type} {mk : Bits → List R → Option R} {view : R → Bits × List R}

/-- the default wallet id of the library's wallet classes -/
def defaultWalletId : Int := 698983191

/-! ### constructors -/

theorem v3_init (s : Int) (w : Option Int) (pk : Option Bytes) :
    WalletV3Data_init s w pk = pk.map (fun k => ⟨s, w.getD defaultWalletId, k⟩) := by
  cases w <;> cases pk <;> rfl

theorem v4_init (s : Int) (w : Option Int) (pk : Option Bytes) (p : Option R) :
    WalletV4Data_init s w pk p = pk.map (fun k => ⟨s, w.getD defaultWalletId, k, p⟩) := by
  cases w <;> cases pk <;> rfl

theorem hl_init (w : Option Int) (lc : Int) (pk : Option Bytes) (q : Option R) :
    HighloadWalletData_init w lc pk q = pk.map (fun k => ⟨w.getD defaultWalletId, lc, k, q⟩) := by
  cases w <;> cases pk <;> rfl

theorem wm_init (mode : Int) (m : Msg R) : WalletMessage_init mode m = some ⟨mode, m⟩ := rfl

theorem nft_init (i : Int) (c o : Addr) (r : R) : NftItemData_init i c o r = some ⟨i, c, o, r⟩ := rfl

theorem fees_init (a : Addr) (f : Int) (b : Addr) (r : Int) : NftItemSaleFees_init a f b r = some ⟨a, f, b, r⟩ := rfl

theorem sale_init (c : Bool) (t : Int) (m n o : Addr) (p : Int) (f : SaleFees) (e : Bool) :
    NftItemSaleData_init c t m n o p f e = some ⟨c, t, m, n, o, p, f, e⟩ := by
  cases c <;> cases e <;> rfl

/-! ### deserialisers -/

theorem ofOption_some {α : Type} (a : α) : (SOp.ofOption (some a) : SOp R α) = SOp.pure a := rfl

macro "wrap_de" " [" ls:Lean.Parser.Tactic.simpLemma,* "]" : tactic =>
  `(tactic| simp only [bind_def, pure_def, sop_pure_bind, sop_bind_pure, sop_bind_assoc, sop_fail_bind, sop_ite_bind, ofOption_bind_some, ofOption_some,
      v3_init, v4_init, hl_init, wm_init, nft_init, fees_init, sale_init, Option.map_some, Option.getD_some, $ls,*])

theorem v3_de_eq : WalletV3Data_deserialize view = (loadWalletV3 : SOp R WalletV3) := by
  unfold WalletV3Data_deserialize loadWalletV3
  wrap_de []

theorem v4_de_eq : WalletV4Data_deserialize view = (loadWalletV4 : SOp R (WalletV4 R)) := by
  unfold WalletV4Data_deserialize loadWalletV4
  wrap_de []

theorem hl_de_eq : HighloadWalletData_deserialize view = (loadHighload : SOp R (Highload R)) := by
  unfold HighloadWalletData_deserialize loadHighload
  wrap_de []

theorem nft_de_eq : NftItemData_deserialize view = (loadNftItem : SOp R (NftItem R)) := by
  unfold NftItemData_deserialize loadNftItem
  wrap_de []

theorem fees_de_eq : NftItemSaleFees_deserialize view = (loadSaleFees : SOp R SaleFees) := by
  unfold NftItemSaleFees_deserialize loadSaleFees
  wrap_de []

theorem sale_de_eq (ops : CellOps R) : NftItemSaleData_deserialize ops.view = loadSaleData ops := by
  unfold NftItemSaleData_deserialize loadSaleData
  wrap_de [fees_de_eq]
  rfl

theorem wm_de_eq (ops : CellOps R) : WalletMessage_deserialize ops.view = loadWalletMsg ops := by
  unfold WalletMessage_deserialize loadWalletMsg
  wrap_de [message_de_eq]
  rfl

/-! ### serialisers -/

theorem v3_ser_eq (w : WalletV3) : WalletV3Data_serialize mk w = build mk (walletV3B w) := by
  cases w; simp [WalletV3Data_serialize, build, walletV3B, run_andThen, Option.bind_assoc]

theorem v4_ser_eq (w : WalletV4 R) : WalletV4Data_serialize mk w = build mk (walletV4B w) := by
  cases w; simp [WalletV4Data_serialize, build, walletV4B, run_andThen, Option.bind_assoc]

theorem hl_ser_eq (w : Highload R) : HighloadWalletData_serialize mk w = build mk (highloadB w) := by
  cases w; simp [HighloadWalletData_serialize, build, highloadB, run_andThen, Option.bind_assoc]

theorem nft_ser_eq (n : NftItem R) : NftItemData_serialize mk n = build mk (nftItemB n) := by
  cases n; simp [NftItemData_serialize, build, nftItemB, run_andThen, Option.bind_assoc]

theorem fees_ser_eq (f : SaleFees) : NftItemSaleFees_serialize mk f = build mk (saleFeesB f : BOp R) := by
  cases f; simp [NftItemSaleFees_serialize, build, saleFeesB, run_andThen, Option.bind_assoc]

/-- `run` in terms of the (state, flag) pair of the hand model -/
theorem run_eq (op : BOp R) (b : Builder R) : run op b = if (op b).2 then some (op b).1 else none := rfl

/-- `WalletMessage.serialize`: the inner `MessageAny.serialize` is the regenerated one (`src_message_ser_eq`) -/
theorem wm_ser_eq (ops : CellOps R) (hl : ops.Lawful) (ht : ops.Total) (w : WalletMsg R) :
    (WalletMessage_serialize ops.make w).map (·.cell) = serializeWalletMsg ops w := by
  rcases w with ⟨mode, m⟩
  simp only [WalletMessage_serialize, serializeWalletMsg, ← src_message_ser_eq ops hl ht, bind_pure, Option.bind_eq_bind,
    Option.pure_def, Option.bind_some, run_eq]
  cases (storeUint mode 8 (Builder.empty : Builder R)).2
  · rfl
  · simp only [if_true, Option.bind_some, Bool.not_true, Bool.false_eq_true, if_false]
    cases MessageAny_serialize ops.make m with
    | none => rfl
    | some p =>
      simp only [Option.bind_some, Option.map_some]
      cases (storeRef p.cell (storeUint mode 8 (Builder.empty : Builder R)).1).2
      · rfl
      · simp only [if_true, Option.bind_some, Bool.not_true, Bool.false_eq_true, if_false, finish]
        cases ops.make _ _ <;> rfl

/-- the hand model's `NftItemSaleData.serialize` as a chain of `run` steps -/
theorem serializeSaleData_run (ops : CellOps R) (s : SaleData) :
    serializeSaleData ops s = (run (saleHeadB s) Builder.empty).bind fun b0 => (serializeSaleFees ops s.fees).bind fun fc =>
      (run (storeRef fc) b0).bind fun b1 => (run (storeBit s.canDeployByExternal) b1).bind fun b2 => ops.make b2.bits b2.refs := by
  have h : ∀ (fc : R) (b0 : Builder R), ((run (storeRef fc) b0).bind fun b1 => (run (storeBit s.canDeployByExternal) b1).bind fun b2 =>
      ops.make b2.bits b2.refs) = (run (storeRef fc ⊳ storeBit s.canDeployByExternal) b0).bind fun b2 => ops.make b2.bits b2.refs := by
    intro fc b0; simp only [run_andThen, Option.bind_assoc]
  simp only [h]
  unfold serializeSaleData
  simp only [run_eq]
  generalize (saleHeadB s : BOp R) Builder.empty = r0
  rcases r0 with ⟨b0, f0⟩
  cases f0
  · rfl
  · simp only [if_true, Option.bind_some, Bool.not_true, Bool.false_eq_true, if_false]
    cases serializeSaleFees ops s.fees with
    | none => rfl
    | some fc =>
      simp only [Option.bind_some]
      generalize (storeRef fc ⊳ storeBit s.canDeployByExternal) b0 = r2
      rcases r2 with ⟨b2, f2⟩
      cases f2 <;> rfl

/-- `NftItemSaleData.serialize`: receiver chain, then `self.fees_cell.serialize()`, then `store_ref`, `store_bool`, `end_cell` -/
theorem sale_ser_eq (ops : CellOps R) (s : SaleData) :
    (NftItemSaleData_serialize ops.make s).map (·.cell) = serializeSaleData ops s := by
  rw [serializeSaleData_run]
  rcases s with ⟨c, t, m, n, o, p, f, e⟩
  simp only [NftItemSaleData_serialize, serializeSaleFees, cellOf_eq_build, fees_ser_eq, bind_pure, Option.bind_eq_bind,
    Option.pure_def, Option.bind_some, saleHeadB, run_andThen, Option.bind_assoc, map_as_bind, finish, Option.bind_some,
    Option.bind_fun_some]

/-- the wrappers whose `serialize` is one builder program: regenerated cell = the hand model's `cellOf` -/
theorem build_cellOf (ops : CellOps R) (op : BOp R) : (build ops.make op).map (·.cell) = cellOf ops op := (cellOf_eq_build ops op).symm

/-! ### `HashUpdate` (tlb/utils.py) -/

theorem hu_init (o n : Bytes) : HashUpdate_init o n = some ⟨o, n⟩ := rfl

theorem slice_0 {α : Type} (xs : List α) (n : Nat) : Py.slice xs 0 n = xs.take n := by
  simp [Py.slice]

/-- `tag = load_bytes(1)[:1]; if tag != b'r': raise` -/
theorem hu_de_eq : HashUpdate_deserialize view = (loadHashUpdate : SOp R HashUpd) := by
  unfold HashUpdate_deserialize loadHashUpdate
  simp only [bind_def, pure_def, sop_pure_bind, sop_bind_pure, sop_bind_assoc, sop_fail_bind, sop_ite_bind, ofOption_bind_some, ofOption_some,
    hu_init, slice_0, bne_iff_ne, ne_eq]

theorem hu_ser_eq (h : HashUpd) : HashUpdate_serialize mk h = build mk (hashUpdateB h : BOp R) := by
  cases h; simp [HashUpdate_serialize, build, hashUpdateB, run_andThen, Option.bind_assoc]

end TonVerif.Proofs.SrcWrap
