/-
The ITERATION-COUNTING copy of the regenerated emitter (Generated/BocEmitCnt.lean, translator harness/translate/emitcnt.py): erasure and the
per-loop iteration bounds behind `c19_src_serialize_poly`.
-/
import TonVerif.Generated.BocEmitCnt
import TonVerif.Proofs.SrcW
import TonVerif.Proofs.SrcBocAny

set_option linter.unusedSimpArgs false
namespace TonVerif.Proofs.SrcEmitCnt
open TonVerif TonVerif.Py TonVerif.Model TonVerif.Generated.BocEmitSrc TonVerif.Generated.BocEmitCnt
open TonVerif.Proofs.SrcW TonVerif.Proofs.SrcBocEmit TonVerif.Proofs.BocOrder

theorem serialize_cnt_erase (c : PCell) (idx : Py.KDict PCell Nat) (w : Nat) : (serialize_cnt c idx w).1 = serialize c idx w := by
  unfold serialize_cnt serialize
  simp only [bnd_opt_fst, bnd_w_fst, ite_fst, ret_fst, raise_fst, lift_fst, foldW_fst, whileW_fst]

theorem order_cnt_erase (fuel : Nat) (p : PCell) (d : Py.KDict PCell Unit) : (order_cnt fuel p d).1 = order fuel p d := by
  unfold order_cnt order
  simp only [bnd_opt_fst, bnd_w_fst, ite_fst, ret_fst, raise_fst, lift_fst, foldW_fst, whileW_fst]

theorem to_boc_cnt_erase (fuel : Nat) (p : PCell) (hi hc hcb : Bool) (fl : Nat) :
    (to_boc_cnt fuel p hi hc hcb fl).1 = to_boc fuel p hi hc hcb fl := by
  unfold to_boc_cnt to_boc
  simp only [bnd_opt_fst, bnd_w_fst, ite_fst, ret_fst, raise_fst, lift_fst, foldW_fst, whileW_fst, serialize_cnt_erase, order_cnt_erase]

/-! ## ticks of `serialize` and `order` -/

abbrev OSt := List PCell × List (PCell × Bool) × Py.KSet PCell

theorem serialize_ticks (c : PCell) (idx : Py.KDict PCell Nat) (w : Nat) (j : Nat) :
    (serialize_cnt c idx w).2 j ≤ if j = 0 then c.refs.length else 0 := by
  unfold serialize_cnt
  dsimp only
  refine le_bnd_opt _ _ _ _ fun dsc => ?_
  refine le_bnd_w _ _ j _ 0 _ (foldW_le 0 j 0 _ ?_ _ _) (fun _ => le_ret _ _ _) (by simp)
  intro s x
  exact le_bnd_opt _ _ _ _ fun _ => le_bnd_opt _ _ _ _ fun _ => le_ret _ _ _

/-- the `while stack:` loop (counter 1) with its push loop (2), followed by a continuation that ticks only counter 3, at most once per
element of `post_order`: every counter ≤ the iteration budget when the whole returns -/
theorem while_then {β : Type} (cond : OSt → Bool) (B : OSt → W OSt) (F : OSt → W β) (fuel : Nat) (p : PCell) (d : β)
    (hcond : ∀ s, cond s = false → s.2.1 = [])
    (hB2 : ∀ s s', cond s = true → (B s).1 = some s' → (B s).2 2 + s.2.1.length ≤ s'.2.1.length + 1)
    (hBp : ∀ s s', cond s = true → (B s).1 = some s' → s'.1.length ≤ s.1.length + 1)
    (hBo : ∀ s j, j ≠ 2 → (B s).2 j = 0)
    (hF : ∀ s j, (F s).2 j ≤ if j = 3 then s.1.length else 0)
    (h : ((whileW? 1 cond B fuel ([], [(p, false)], [])) >>== F).1 = some d) (j : Nat) :
    ((whileW? 1 cond B fuel ([], [(p, false)], [])) >>== F).2 j ≤ if j = 1 ∨ j = 2 ∨ j = 3 then fuel else 0 := by
  rw [bnd_w_fst] at h
  rw [bnd_w_snd]
  cases hW : (whileW? 1 cond B fuel ([], [(p, false)], [])).1 with
  | none => rw [hW] at h; cases h
  | some e =>
    simp only
    obtain ⟨p2, p1, pc⟩ := whileW_potential 1 2 1 (by decide) cond B (fun s => s.2.1.length) hB2 (fun s => hBo s 1 (by decide)) fuel _ e hW
    have pm := whileW_measure 1 cond B (fun s => s.1.length) hBp fuel _ e hW
    have he := hcond e pc
    simp only [he, List.length_nil, List.length_cons, Nat.one_mul] at p2 pm
    have hf := hF e j
    by_cases j1 : j = 1
    · subst j1; simp only [show ((1:Nat) = 3) = False by decide, if_false] at hf; simp; omega
    by_cases j2 : j = 2
    · subst j2; simp only [show ((2:Nat) = 3) = False by decide, if_false] at hf; simp; omega
    have hwo : (whileW? 1 cond B fuel ([], [(p, false)], [])).2 j = 0 := by
      exact whileW_other 1 j j1 cond B (fun s => hBo s j j2) fuel _
    by_cases j3 : j = 3
    · subst j3; simp only [if_true] at hf; simp; omega
    · simp only [j3, if_false] at hf; simp [j1, j2, j3]; omega

theorem foldlM_push (st : List (PCell × Bool)) : ∀ (refs : List PCell) (st : List (PCell × Bool)) (r : List (PCell × Bool)),
    List.foldlM (m := Option) (fun (x : List (PCell × Bool)) (ref : PCell) => some (x ++ [(ref, false)])) st refs = some r →
      r.length = st.length + refs.length := by
  intro refs
  induction refs with
  | nil => intro st r h; simp only [List.foldlM_nil] at h; cases h; simp
  | cons a as ih =>
    intro st r h
    rw [List.foldlM_cons] at h
    have := ih _ r h
    simp at this ⊢; omega

theorem pop_len {α : Type} (xs r : List α) (x : α) (h : Py.listPop? xs = some (r, x)) : r.length + 1 = xs.length := by
  unfold Py.listPop? at h
  cases hg : xs.getLast? with
  | none => simp [hg] at h
  | some y =>
    simp only [hg, Option.some.injEq, Prod.mk.injEq] at h
    obtain ⟨h1, _⟩ := h
    subst h1
    have : xs ≠ [] := by intro e; subst e; simp at hg
    have hp := List.length_pos_iff.2 this
    simp [List.length_dropLast]; omega

theorem order_ticks (fuel : Nat) (p : PCell) (d0 d : Py.KDict PCell Unit) (h : (order_cnt fuel p d0).1 = some d) (j : Nat) :
    (order_cnt fuel p d0).2 j ≤ if j = 1 ∨ j = 2 ∨ j = 3 then fuel else 0 := by
  unfold order_cnt at h ⊢
  dsimp only at h ⊢
  refine while_then _ _ _ fuel p d ?hcond ?hB2 ?hBp ?hBo ?hF h j
  case hcond => intro s hs; simpa using hs
  case hF =>
    intro s j
    refine le_bnd_w _ _ j _ 0 _ (foldW_le 3 j 0 _ ?_ _ _) (fun _ => le_ret _ _ _) (by simp)
    intro x c
    exact le_bnd_w _ _ j 0 0 _ (le_ite _ _ _ _ _ (le_bnd_opt _ _ _ _ fun _ => le_ret _ _ _) (le_ret _ _ _)) (fun _ => le_ret _ _ _) (Nat.le_refl _)
  case hBo =>
    intro s j hj
    apply Nat.le_zero.1
    refine le_bnd_opt _ _ _ _ fun x1 => ?_
    refine le_ite _ _ _ _ _ (le_ret _ _ _) (le_ite _ _ _ _ _ (le_ret _ _ _) ?_)
    refine le_bnd_w _ _ j 0 0 _ ?_ (fun _ => le_ret _ _ _) (Nat.le_refl _)
    have := foldW_le 2 j 0 (fun (x : List (PCell × Bool)) (ref : PCell) => W.ret (x ++ [(ref, false)])) (fun _ _ => le_ret _ _ _)
      x1.2.1.refs (x1.1 ++ [(x1.2.1, true)])
    simpa [hj] using this
  case hB2 =>
    intro s s' hc hs
    simp only [bnd_opt_fst, bnd_w_fst, ite_fst, ret_fst, foldW_fst, bnd_opt_snd, bnd_w_snd, ite_snd, ret_snd] at hs ⊢
    cases hp : Py.listPop? s.2.1 with
    | none => simp [hp] at hs
    | some x1 =>
      have hl := pop_len s.2.1 x1.1 x1.2 hp
      simp only [hp, Option.bind_some] at hs ⊢
      split at hs
      · simp only [Option.some.injEq] at hs; subst hs; rename_i h1; simp only [h1, if_true]; omega
      · rename_i h1
        simp only [h1, Bool.false_eq_true, if_false]
        split at hs
        · simp only [Option.some.injEq] at hs; subst hs; rename_i h2; simp only [h2, if_true]; omega
        · rename_i h2
          simp only [h2, Bool.false_eq_true, if_false]
          cases hf : List.foldlM (m := Option) (fun (x : List (PCell × Bool)) (ref : PCell) => some (x ++ [(ref, false)]))
              (x1.1 ++ [(x1.2.1, true)]) x1.2.1.refs with
          | none => simp [hf] at hs
          | some x2 =>
            simp only [hf, Option.bind_some, Option.some.injEq] at hs
            subst hs
            have hlen := foldlM_push [] _ _ _ hf
            have ht := foldW_le 2 2 0 (fun (x : List (PCell × Bool)) (ref : PCell) => W.ret (x ++ [(ref, false)])) (fun _ _ => le_ret _ _ _)
              x1.2.1.refs (x1.1 ++ [(x1.2.1, true)])
            simp only [if_true, Nat.mul_zero, Nat.add_zero, List.length_append, List.length_singleton] at ht hlen
            simp only [match_zero, Nat.add_zero]
            omega
  case hBp =>
    intro s s' hc hs
    simp only [bnd_opt_fst, bnd_w_fst, ite_fst, ret_fst, foldW_fst] at hs
    cases hp : Py.listPop? s.2.1 with
    | none => simp [hp] at hs
    | some x1 =>
      simp only [hp, Option.bind_some] at hs
      split at hs
      · simp only [Option.some.injEq] at hs; subst hs; simp
      · split at hs
        · simp only [Option.some.injEq] at hs; subst hs; simp
        · cases hf : List.foldlM (m := Option) (fun (x : List (PCell × Bool)) (ref : PCell) => some (x ++ [(ref, false)]))
              (x1.1 ++ [(x1.2.1, true)]) x1.2.1.refs with
          | none => simp [hf] at hs
          | some x2 => simp only [hf, Option.bind_some, Option.some.injEq] at hs; subst hs; simp

/-! ## ticks of `to_boc` -/

theorem to_boc_ticks (fuel : Nat) (p : PCell) (nc : NoCollision p) (hi hc hcb : Bool) (fl : Nat) (d : Py.KDict PCell Unit)
    (hd : order fuel p [] = some d) (j : Nat) :
    (to_boc_cnt fuel p hi hc hcb fl).2 j ≤
      (if j = 1 ∨ j = 2 ∨ j = 3 then fuel else 0) +
      ((if j = 4 then (Py.dictKeys d).length else 0) + ((Py.dictKeys d).map fun c => if j = 0 then c.refs.length else 0).sum +
       (if j = 5 then (Py.dictKeys d).length else 0)) := by
  obtain ⟨vo, hdd⟩ := TonVerif.Proofs.SrcOrderAny.src_order_valid_any fuel p d nc hd
  unfold to_boc_cnt
  dsimp only
  refine le_bnd_w' _ _ j _ _ _ (order_ticks fuel p [] d (by rw [order_cnt_erase]; exact hd) j) (fun a ha => ?_) (Nat.le_refl _)
  rw [order_cnt_erase, hd] at ha
  simp only [Option.some.injEq] at ha
  subst ha
  have hkeys : Py.dictKeys (List.foldl (fun (d : Py.KDict PCell Nat) (x : PCell × Nat) => Py.dictSet PCell.key d x.1 x.2) [] (Py.dictKeys d).zipIdx) = Py.dictKeys d := by
    rw [dictcomp_nodup' PCell.key _ (fun _ _ => rfl) (Py.dictKeys d) 0 [] (by simpa using vo.nodup)]
    simp [Py.dictKeys]
  rw [hkeys]
  refine le_bnd_opt _ _ _ _ fun flags => ?_
  refine le_bnd_w' _ _ j _ (if j = 5 then (Py.dictKeys d).length else 0) _ (foldW_le_sum 4 j (fun c => if j = 0 then c.refs.length else 0) _ ?_ _ _) (fun x hx => ?_) (Nat.le_refl _)
  · intro s c
    exact le_bnd_w _ _ j _ 0 _ (serialize_ticks _ _ _ j) (fun _ => le_ret _ _ _) (Nat.le_refl _)
  rw [foldW_fst] at hx
  have hlen := foldlM_measure (fun (s : Bytes × List Nat) => s.2.length) _ (by
    intro s c s' hs
    simp only [bnd_w_fst, ret_fst] at hs
    cases hser : (serialize_cnt c _ _).1 with
    | none => rw [hser] at hs; cases hs
    | some r => rw [hser] at hs; simp only [Option.bind_some, Option.some.injEq] at hs; subst hs; simp) _ _ _ hx
  simp only [List.length_nil, Nat.zero_add] at hlen
  refine le_bnd_opt _ _ _ _ fun b3 => le_bnd_opt _ _ _ _ fun b4 => le_bnd_opt _ _ _ _ fun b5 => le_bnd_opt _ _ _ _ fun b6 => ?_
  refine le_bnd_w _ _ j (if j = 5 then (Py.dictKeys d).length else 0) 0 _ ?_ (fun r => ?_) (Nat.le_refl _)
  · refine le_ite _ _ _ _ _ ?_ (le_ret _ _ _)
    refine le_bnd_w _ _ j _ 0 _ (foldW_le 5 j 0 _ ?_ _ _) (fun _ => le_ret _ _ _) ?_
    · intro s l; exact le_bnd_opt _ _ _ _ fun _ => le_ret _ _ _
    · by_cases j5 : j = 5
      · simp only [j5, if_true, Nat.mul_zero, Nat.add_zero]; exact hlen
      · simp [j5]
  · refine le_bnd_w _ _ j 0 0 _ ?_ (fun _ => le_ret _ _ _) (Nat.le_refl _)
    exact le_ite _ _ _ _ _ (le_bnd_opt _ _ _ _ fun _ => le_ret _ _ _) (le_ret _ _ _)

end TonVerif.Proofs.SrcEmitCnt
