/-
C11 / locsrc (b): the augmented-dictionary walk of the parser files (`Rd.augWalk`, fuel recursion over `Tlb.Cell`, labels by the spec
codec) IS the walk of the hand model (`parseAugP`, structural over constructed cells, labels by the C10 reader) on every constructed
cell, for every pair of leaf / extra readers that agree (`ReadersAgree`); then `Rd.loadHashmapAugE 256` + `[0][key].cell[0]` against
`loadShardAccounts` + `dictGet`.
-/
import Std.Data.String.ToNat
import TonVerif.Proofs.SrcLocateLabel
import TonVerif.Proofs.SrcLocate
import TonVerif.Proofs.Locate
namespace TonVerif.Proofs.SrcLocate
open TonVerif TonVerif.Model TonVerif.Tlb TonVerif.Model.Hashmap TonVerif.Proofs.Hashmap TonVerif.Proofs.Locate

/-- `.cell[0]` of a parsed `ShardAccount` -/
def cell0 (v : Val) : Option Tlb.Cell := (pyAttr v "cell").bind pyCellItem0

/-- a pair of readers of the parser files and a pair of readers of the hand model succeed on the same slices; the extra readers
leave the same rest, the value readers return the same `.cell[0]` -/
structure ReadersAgree (x y : Frag → Rd.R) (decX : PSlice → Option PCell) (decY : PSlice → Option PSlice) : Prop where
  y_rest : ∀ s : PSlice, (y (psliceFrag s)).map (·.2) = (decY s).map psliceFrag
  x_cell : ∀ s : PSlice, (x (psliceFrag s)).map (fun p => cell0 p.1) = (decX s).map (fun a => some (tcell a))

theorem tcells_cons (c : PCell) (cs : List PCell) : tcells (c :: cs) = tcell c :: tcells cs := by rw [tcells]
theorem tcells_nil : tcells [] = [] := by rw [tcells]

/-- the view of what the walk of the parser files returns: keys and `.cell[0]` of the values -/
def srcEntries (r : List (Bits × Val) × List Val) : List (Bits × Option Tlb.Cell) := r.1.map fun p => (p.1, cell0 p.2)
def mdlEntries (kv : List (Bits × PCell)) : List (Bits × Option Tlb.Cell) := kv.map fun p => (p.1, some (tcell p.2))

theorem label_cases (n : Nat) (bits : Bits) (refs : List PCell) :
    ((hmLabel n).dec ⟨bits, tcells refs⟩ = none ∧ deserializeHml bits (n : Int) = none) ∨
    ∃ lv l s rest, (hmLabel n).dec ⟨bits, tcells refs⟩ = some (lv, ⟨rest, tcells refs⟩) ∧
      deserializeHml bits (n : Int) = some (l, s, rest) ∧ labelLen lv = l ∧ Rd.labelBitsOf lv = s ∧ l ≤ n := by
  have h := hmLabel_dec_eq n bits (tcells refs)
  rcases hd : (hmLabel n).dec ⟨bits, tcells refs⟩ with _ | ⟨lv, s1⟩ <;>
    rcases hm : deserializeHml bits (n : Int) with _ | ⟨l, s, rest⟩ <;> rw [hd, hm] at h <;> simp [labelView] at h
  · exact Or.inl ⟨rfl, rfl⟩
  · obtain ⟨h1, h2, h3, h4⟩ := h
    obtain ⟨b1, r1⟩ := s1
    simp only at h3 h4
    subst h3 h4
    have hle := deserializeHml_le hm
    exact Or.inr ⟨lv, l, s, _, rfl, rfl, h1, h2, by omega⟩

/-- (b) `Rd.augWalk` = `parseAugP` on every constructed cell, any prefix, any remaining key length below the fuel -/
theorem augWalk_eq {x y : Frag → Rd.R} {decX : PSlice → Option PCell} {decY : PSlice → Option PSlice}
    (h : ReadersAgree x y decX decY) :
    ∀ (fuel n : Nat) (pfx : Bits) (c : PCell), n < fuel →
      (Rd.augWalk x y fuel n pfx (tcell c)).map srcEntries = (parseAugP decY decX c (n : Int) pfx).map mdlEntries := by
  intro fuel
  induction fuel with
  | zero => intro n pfx c hn; omega
  | succ fuel ih =>
    intro n pfx c hn
    obtain ⟨info, refs⟩ := c
    rw [tcell_mk, Rd.augWalk, parseAugP]
    by_cases hk : info.kind = -1
    · simp only [Tlb.Cell.exotic, Tlb.Cell.bits, Tlb.Cell.refs, hk, bne_self_eq_false, Bool.false_eq_true, if_false, ne_eq,
        not_true_eq_false]
      rcases label_cases n info.bits refs with ⟨h1, h2⟩ | ⟨lv, l, s, rest, h1, h2, rfl, rfl, hle⟩
      · simp [h1, h2]
      · simp only [h1, h2]
        by_cases hz : n - labelLen lv = 0
        · have hzi : (n : Int) - (labelLen lv : Int) = 0 := by omega
          simp only [hz, hzi, if_true]
          have hy := h.y_rest (rest, refs)
          simp only [psliceFrag] at hy
          rcases hyv : y ⟨rest, tcells refs⟩ with _ | ⟨e, s2⟩ <;> rcases hdy : decY (rest, refs) with _ | sl <;>
            rw [hyv, hdy] at hy <;> simp at hy
          · simp [hyv, hdy]
          · subst hy
            have hx := h.x_cell sl
            rcases hxv : x (psliceFrag sl) with _ | ⟨v, s3⟩ <;> rcases hdx : decX sl with _ | a <;>
              rw [hxv, hdx] at hx <;> simp at hx
            · simp [hyv, hdy, hxv, hdx]
            · simp [hyv, hdy, hxv, hdx, srcEntries, mdlEntries, hx]
        · have hzi : ¬ ((n : Int) - (labelLen lv : Int) = 0) := by omega
          simp only [hz, hzi, if_false]
          match refs with
          | [] => simp [tcells_nil, parseAugForkP]
          | [a] => simp [tcells_cons, tcells_nil, parseAugForkP]
          | a :: b :: more =>
            simp only [tcells_cons, parseAugForkP]
            have hci : (n : Int) - (labelLen lv : Int) - 1 = ((n - labelLen lv - 1 : Nat) : Int) := by omega
            rw [hci]
            have ha := ih (n - labelLen lv - 1) (pfx ++ Rd.labelBitsOf lv ++ [false]) a (by omega)
            have hb := ih (n - labelLen lv - 1) (pfx ++ Rd.labelBitsOf lv ++ [true]) b (by omega)
            rcases hav : Rd.augWalk x y fuel (n - labelLen lv - 1) (pfx ++ Rd.labelBitsOf lv ++ [false]) (tcell a) with _ | ra <;>
              rcases hap : parseAugP decY decX a ((n - labelLen lv - 1 : Nat) : Int) (pfx ++ Rd.labelBitsOf lv ++ [false]) with _ | pa <;>
              rw [hav, hap] at ha <;> simp at ha
            · simp [hav, hap]
            rcases hbv : Rd.augWalk x y fuel (n - labelLen lv - 1) (pfx ++ Rd.labelBitsOf lv ++ [true]) (tcell b) with _ | rb <;>
              rcases hbp : parseAugP decY decX b ((n - labelLen lv - 1 : Nat) : Int) (pfx ++ Rd.labelBitsOf lv ++ [true]) with _ | pb <;>
              rw [hbv, hbp] at hb <;> simp at hb
            · simp [hav, hap, hbv, hbp]
            have hy := h.y_rest (rest, more)
            simp only [psliceFrag] at hy
            rcases hyv : y ⟨rest, tcells more⟩ with _ | ⟨e, s2⟩ <;> rcases hdy : decY (rest, more) with _ | sl <;>
              rw [hyv, hdy] at hy <;> simp at hy
            · simp [hav, hap, hbv, hbp, hyv, hdy]
            · simp only [srcEntries, mdlEntries] at ha hb
              simp [hav, hap, hbv, hbp, hyv, hdy, srcEntries, mdlEntries, ha, hb]
    · have hb : (info.kind != -1) = true := by simpa using hk
      simp [Tlb.Cell.exotic, hb, hk, srcEntries, mdlEntries]

theorem account_nil (sp : Bool) (r : List Tlb.Cell) : SrcBlk.Account sp ⟨[], r⟩ = none := by
  simp [SrcBlk.Account, Rd.loadBit]

theorem account_false (sp : Bool) (bs : Bits) (r : List Tlb.Cell) : (SrcBlk.Account sp ⟨false :: bs, r⟩).isSome = true := by
  simp [SrcBlk.Account, Rd.loadBit, Rd.truthy]

/-- the value reader of the accounts dictionary: regenerated `ShardAccount.deserialize` (with `cell=` kept) against `readShardAccount`
at the regenerated `Account` parser -/
theorem shardAccount_agree (s : PSlice) :
    (SrcLoc.ShardAccount false (psliceFrag s)).map (fun p => cell0 p.1) =
      (readShardAccount srcOpaque s).map (fun a => some (tcell a)) := by
  obtain ⟨bits, refs⟩ := s
  match refs with
  | [] => simp [SrcLoc.ShardAccount, Rd.viaRef, Rd.loadRef, psliceFrag, tcells_nil, readShardAccount]
  | acc :: more =>
    obtain ⟨info, ar⟩ := acc
    have hacc : srcOpaque.account (.mk info ar) = (SrcBlk.Account (info.kind != -1) ⟨info.bits, tcells ar⟩).isSome := by
      simp [srcOpaque, tcell_mk, Rd.special, Tlb.Cell.exotic, pfrag, PCell.info, PCell.refs]
    simp only [SrcLoc.ShardAccount, Rd.viaRef, Rd.loadRef, psliceFrag, tcells_cons, tcell_mk, readShardAccount, PCell.info, hacc,
      Rd.special, Rd.beginParse, Tlb.Cell.exotic, Tlb.Cell.bits, Tlb.Cell.refs]
    match hb : info.bits with
    | [] => simp [account_nil]
    | false :: bs =>
      have := account_false (info.kind != -1) bs (tcells ar)
      rcases hA : SrcBlk.Account (info.kind != -1) ⟨false :: bs, tcells ar⟩ with _ | ⟨av, as⟩
      · rw [hA] at this; cases this
      · by_cases hl : bits.length < 320
        · by_cases h256 : bits.length < 256
          · simp [hA, Rd.loadBytes, Rd.loadBits, Rd.takeBits, Rd.loadUint, hl, h256]
          · have h64 : bits.length - 256 < 64 := by omega
            simp [hA, Rd.loadBytes, Rd.loadBits, Rd.takeBits, Rd.loadUint, hl, h256, h64]
        · have h256 : ¬ bits.length < 256 := by omega
          have h64 : ¬ bits.length - 256 < 64 := by omega
          simp [hA, Rd.loadBytes, Rd.loadBits, Rd.takeBits, Rd.loadUint, hl, h256, h64, cell0, pyAttr, Rd.obj, List.lookup,
            pyCellItem0, Rd.toCell, Tlb.Cell.refs]
          rw [tcell_mk, hb]
    | true :: bs =>
      rcases hA : SrcBlk.Account (info.kind != -1) ⟨true :: bs, tcells ar⟩ with _ | ⟨av, as⟩
      · simp
      · by_cases hl : bits.length < 320
        · by_cases h256 : bits.length < 256
          · simp [Rd.loadBytes, Rd.loadBits, Rd.takeBits, Rd.loadUint, hl, h256]
          · have h64 : bits.length - 256 < 64 := by omega
            simp [Rd.loadBytes, Rd.loadBits, Rd.takeBits, Rd.loadUint, hl, h256, h64]
        · have h256 : ¬ bits.length < 256 := by omega
          have h64 : ¬ bits.length - 256 < 64 := by omega
          simp [Rd.loadBytes, Rd.loadBits, Rd.takeBits, Rd.loadUint, hl, h256, h64, cell0, pyAttr, Rd.obj, List.lookup,
            pyCellItem0, Rd.toCell, Tlb.Cell.refs]
          rw [tcell_mk, hb]

end TonVerif.Proofs.SrcLocate
