/-
C03's composition for ANY valid order of the cells (the implementation's freedom), not only the one the hand model of
`Cell.order` computes: the index lookups + byte layout of `Cell.to_boc` along any `ValidOrder` give bytes that `Cell.from_boc`
(the parser model) maps back to exactly `[(t, p.info)]`.  Same route as `fromBoc_toBoc` (Proofs/BocRoundTrip.lean), with the
valid order as a hypothesis instead of `order_valid`.  Used for the round trip of the emitter REGENERATED from the source, whose
traversal is judged by its own invariant (Proofs/SrcOrderAny.lean).
-/
import TonVerif.Proofs.BocRoundTrip

namespace TonVerif.Proofs.BocRoundTrip
open TonVerif TonVerif.Model TonVerif.Proofs.BocOrder TonVerif.Proofs.BocEmit TonVerif.Proofs.BocSem
open TonVerif.Spec.BocEncode (SCell Freedoms Magic encodeCell records endOffsets indexEntries encodeBody encodeWith crcBytes
  Valid CellsOK denote denoteFrom)

/-- along any valid order the lookups succeed and the layout is `bodyOf ++ tailOf` of the order's records -/
theorem anyOrder_emits (root : PCell) (ord : List PCell) (o : Opts) (hv : o.valid = true)
    (ok : ∀ c ∈ subcells root, CellOK c) (vo : ValidOrder root ord)
    (hn : ord.length < 2 ^ 32) (hP : (payloadOf (sizeW (orderRecs ord)) (orderRecs ord)).length * 2 < 2 ^ 64) :
    (flattenCells (indexMap ord) ord).bind (emit · o) = some (bodyOf o (orderRecs ord) ++ tailOf o (orderRecs ord)) ∧
    ∃ rest, Bytes.WF rest ∧ bodyOf o (orderRecs ord) ++ tailOf o (orderRecs ord) = [0xb5, 0xee, 0x9c, 0x72] ++ rest := by
  have okord : ∀ c ∈ ord, CellOK c := fun c hc => ok c (vo.sound c hc)
  obtain ⟨hfl, hok, _⟩ := flatten_order root ord vo okord
  have hlen : (orderRecs ord).length = ord.length := by simp [orderRecs]
  have h1 : 1 ≤ (orderRecs ord).length := by
    rw [hlen]
    have := vo.root_first
    cases ord with
    | nil => simp at this
    | cons a l => simp
  have he := emit_eq o (orderRecs ord) hv h1 (by rw [hlen]; exact hn) hP hok
  refine ⟨by rw [hfl, Option.bind_some, he]; rfl, ?_⟩
  exact emitted_magic o (orderRecs ord) h1 (by rw [hlen]; exact hn) hP hok

/-- **THE ROUND TRIP on bytes for any valid order** -/
theorem fromBoc_anyOrder (H : Bytes → Bytes) (t : Cell) (wf : CellSpec.TreeWF H t) (ty : Typed t) (p : PCell)
    (hb : Cell.build H t = some p) (nc : NoCollision p) (ord : List PCell) (vo : ValidOrder p ord)
    (o : Opts) (hv : o.valid = true) (hn : ord.length < 2 ^ 32)
    (hP : (payloadOf (sizeW (orderRecs ord)) (orderRecs ord)).length * 2 < 2 ^ 64) :
    (flattenCells (indexMap ord) ord).bind (emit · o) = some (bodyOf o (orderRecs ord) ++ tailOf o (orderRecs ord)) ∧
    BocParse.fromBoc H (bodyOf o (orderRecs ord) ++ tailOf o (orderRecs ord)) = some [(t, p.info)] := by
  have okp := build_ok H t p (shape_of H t wf ty) hb
  obtain ⟨sem, _⟩ := sem_of_tree H t p wf ty hb
  have oo := ordOK_of_valid H p ord vo nc okp sem
  obtain ⟨rest, hord⟩ : ∃ rest, ord = p :: rest := by
    have := vo.root_first
    cases ord with
    | nil => simp at this
    | cons a l => simp at this; exact ⟨l, by rw [this]⟩
  have h1 : 1 ≤ ord.length := by rw [hord]; simp
  obtain ⟨hbs, _⟩ := anyOrder_emits p ord o hv okp vo hn hP
  obtain ⟨t1, t2, t3⟩ := build_tree H t p hb
  have hcon : ∀ t' ∈ ord.map treeOf, (Cell.info H t').isSome := by
    intro t' ht'
    obtain ⟨c, hc, rfl⟩ := List.mem_map.1 ht'
    rw [t3 c (vo.sound c hc)]; rfl
  obtain ⟨out, hout, hroots, hinfo⟩ := Proofs.BocParse.encode_accepts H _ _ [0] (valid_order H o hv ord oo h1 hn hP)
    _ (denote_order H ord oo) hcon
  refine ⟨hbs, ?_⟩
  rw [emitted_eq_encodeWith o ord oo.ok, hout]
  have h0 : (ord.map treeOf)[0]? = some t := by rw [hord]; simp [t1]
  simp only [List.mapM_cons, List.mapM_nil, h0, Option.pure_def, Option.bind_eq_bind, Option.bind_some] at hroots
  have hmap : out.map (·.1) = [t] := (Option.some.inj hroots).symm
  match out, hmap, hinfo with
  | [(t', i')], hmap, hinfo =>
    simp only [List.map_cons, List.map_nil, List.cons.injEq, and_true] at hmap
    subst hmap
    have := hinfo (t', i') (by simp)
    simp only at this
    rw [t2] at this
    rw [Option.some.inj this]

end TonVerif.Proofs.BocRoundTrip
