/-
C14: the depth budget is monotone for EVERY table: a parse that returns with budget `fuel` returns the same value and
consumed count with every larger budget (a larger budget can only turn "raises: recursion too deep" into a result).
-/
import TonVerif.Proofs.TlAuto

namespace TonVerif.Proofs.Tl
open TonVerif TonVerif.Spec.Tl TonVerif.Model.Tl

/-- `rec'` returns whatever `rec` returns -/
def RecLe (rec rec' : Bytes → Option (List Arg) → Option (Val × Nat)) : Prop :=
  ∀ x m r, rec x m = some r → rec' x m = some r

theorem autoLoop_mono (top top' : Bytes → Option (Val × Nat)) (h : ∀ x r, top x = some r → top' x = some r)
    (content : Bytes) (n : Nat) : ∀ k j acc r, autoLoop top content n k j acc = some r →
      autoLoop top' content n k j acc = some r := by
  intro k
  induction k with
  | zero => intro j acc r hr; exact hr
  | succ k ih =>
    intro j acc r hr
    simp only [autoLoop] at hr ⊢
    split at hr
    · cases ht : top (content.drop j) with
      | none => rw [ht] at hr; cases hr
      | some p =>
        obtain ⟨t, jj⟩ := p
        rw [ht] at hr
        rw [if_pos (by assumption), h _ _ ht]
        simp only at hr ⊢
        split at hr
        · rw [if_pos (by assumption)]; exact hr
        · rw [if_neg (by assumption)]; exact ih _ _ _ hr
    · rw [if_neg (by assumption)]; exact hr

theorem autoParse_mono (top top' : Bytes → Option (Val × Nat)) (h : ∀ x r, top x = some r → top' x = some r)
    (content : Bytes) (n : Nat) (r : Val) (hr : autoParse top content n = some r) :
    autoParse top' content n = some r := by
  simp only [autoParse] at hr ⊢
  cases ht : top content with
  | none => rw [ht] at hr; cases hr
  | some p =>
    obtain ⟨t, j⟩ := p
    rw [ht] at hr
    rw [h _ _ ht]
    simp only at hr ⊢
    split at hr
    · rw [if_pos (by assumption)]; exact autoLoop_mono top top' h content n _ _ _ _ hr
    · rw [if_neg (by assumption)]; exact hr

theorem deserOne_mono (T : Table) (auto : Bool) (rec rec' : Bytes → Option (List Arg) → Option (Val × Nat))
    (h : RecLe rec rec') (ut : Bool) (e : ETy) (iv : Bool) (d : Bytes) (r : Option Val × Nat)
    (hr : deserOne T auto rec ut e iv d = some r) : deserOne T auto rec' ut e iv d = some r := by
  have hp : ∀ c n v, autoParse (fun x => rec x none) c n = some v → autoParse (fun x => rec' x none) c n = some v :=
    fun c n v hv => autoParse_mono _ _ (fun x r hx => h x none r hx) c n v hv
  cases e with
  | bytes =>
    simp only [deserOne] at hr ⊢
    by_cases hc : (!auto || ut) = true
    · simp only [hc, if_true] at hr ⊢; exact hr
    · simp only [hc, if_false] at hr ⊢
      cases ha : autoParse (fun x => rec x none) (readFrame d).1 (readFrame d).2.1 with
      | none => rw [ha] at hr; cases hr
      | some v => rw [ha] at hr; rw [hp _ _ _ ha]; exact hr
  | string =>
    simp only [deserOne] at hr ⊢
    by_cases hc : (!auto || ut) = true
    · simp only [hc, if_true] at hr ⊢; exact hr
    · simp only [hc, if_false] at hr ⊢
      cases ha : autoParse (fun x => rec x none) (readFrame d).1 (readFrame d).2.1 with
      | none => rw [ha] at hr; cases hr
      | some v => rw [ha] at hr; rw [hp _ _ _ ha]; exact hr
  | bare n =>
    simp only [deserOne] at hr ⊢
    cases hn : T.byName n with
    | none =>
      rw [hn] at hr
      simp only at hr ⊢
      cases hx : rec d none with
      | none => rw [hx] at hr; cases hr
      | some p => rw [hx] at hr; rw [h _ _ _ hx]; exact hr
    | some c =>
      rw [hn] at hr
      simp only at hr ⊢
      cases hx : rec d (some c.args) with
      | none => rw [hx] at hr; cases hr
      | some p => rw [hx] at hr; rw [h _ _ _ hx]; exact hr
  | boxed cl =>
    simp only [deserOne] at hr ⊢
    cases hx : rec d none with
    | none => rw [hx] at hr; cases hr
    | some p => rw [hx] at hr; rw [h _ _ _ hx]; exact hr
  | unsup =>
    simp only [deserOne] at hr ⊢
    cases hx : rec d none with
    | none => rw [hx] at hr; cases hr
    | some p => rw [hx] at hr; rw [h _ _ _ hx]; exact hr
  | int => exact hr
  | long => exact hr
  | nat => exact hr
  | int128 => exact hr
  | int256 => exact hr
  | bool => exact hr

theorem deserMany_mono (one one' : Bytes → Option (Val × Nat)) (h : ∀ x r, one x = some r → one' x = some r) :
    ∀ (cnt : Nat) (d : Bytes) (r : List Val × Nat), deserMany one cnt d = some r → deserMany one' cnt d = some r := by
  intro cnt
  induction cnt with
  | zero => intro d r hr; exact hr
  | succ cnt ih =>
    intro d r hr
    simp only [deserMany] at hr ⊢
    cases ho : one d with
    | none => rw [ho] at hr; cases hr
    | some p =>
      obtain ⟨v, j⟩ := p
      rw [ho] at hr
      rw [h _ _ ho]
      simp only [Option.bind_eq_bind, Option.bind_some] at hr ⊢
      cases hm : deserMany one cnt (d.drop j) with
      | none => rw [hm] at hr; cases hr
      | some q => rw [hm] at hr; rw [ih _ _ hm]; exact hr

theorem deserElem_mono (T : Table) (auto : Bool) (rec rec' : Bytes → Option (List Arg) → Option (Val × Nat))
    (h : RecLe rec rec') (e : ETy) (x : Bytes) (r : Val × Nat) (hr : deserElem T auto rec e x = some r) :
    deserElem T auto rec' e x = some r := by
  simp only [deserElem] at hr ⊢
  cases ho : deserOne T auto rec false e true x with
  | none => rw [ho] at hr; cases hr
  | some p => rw [ho] at hr; rw [deserOne_mono T auto rec rec' h _ _ _ _ _ ho]; exact hr

theorem deserArg_mono (T : Table) (auto : Bool) (rec rec' : Bytes → Option (List Arg) → Option (Val × Nat))
    (h : RecLe rec rec') (ut : Bool) (a : Arg) (d : Bytes) (r : Option Val × Nat)
    (hr : deserArg T auto rec ut a d = some r) : deserArg T auto rec' ut a d = some r := by
  unfold deserArg at hr ⊢
  split at hr
  · rename_i hv
    rw [if_pos hv]
    simp only at hr ⊢
    split at hr
    · cases hr
    · rename_i hl
      rw [if_neg hl]
      cases hm : deserMany (deserElem T auto rec a.ty) (natOfLE (d.take 4)) (d.drop 4) with
      | none => rw [hm] at hr; cases hr
      | some q =>
        rw [hm] at hr
        rw [deserMany_mono _ _ (fun x r hx => deserElem_mono T auto rec rec' h a.ty x r hx) _ _ _ hm]
        exact hr
  · rename_i hv
    rw [if_neg hv]
    exact deserOne_mono T auto rec rec' h _ _ _ _ _ hr

theorem deserBody_mono (T : Table) (auto : Bool) (rec rec' : Bytes → Option (List Arg) → Option (Val × Nat))
    (h : RecLe rec rec') (schema : Option Nat) : ∀ (args : List Arg) (acc : Fields) (d : Bytes) (r : Fields × Nat),
      deserBody T auto rec schema args acc d = some r → deserBody T auto rec' schema args acc d = some r := by
  intro args
  induction args with
  | nil => intro acc d r hr; exact hr
  | cons a as ih =>
    intro acc d r hr
    cases schema
    all_goals
      simp only [deserBody] at hr ⊢
      split at hr
      · cases hr
      · exact ih _ _ _ hr
      · rename_i hpres
        cases ha : deserArg T auto rec _ a d with
        | none => rw [ha] at hr; cases hr
        | some p =>
          obtain ⟨ov, j⟩ := p
          rw [ha] at hr
          rw [deserArg_mono T auto rec rec' h _ _ _ _ ha]
          simp only at hr ⊢
          split at hr
          · cases hr
          · rename_i fs j2 hb
            rw [ih _ _ _ hb]
            exact hr

theorem deserObj_mono (T : Table) (auto : Bool) : ∀ fuel, RecLe (deserObj T auto fuel) (deserObj T auto (fuel + 1)) := by
  intro fuel
  induction fuel with
  | zero => intro x m r hr; cases m <;> simp [deserObj] at hr
  | succ fuel ih =>
    intro x m r hr
    cases m with
    | some args =>
      simp only [deserObj] at hr ⊢
      cases hb : deserBody T auto (deserObj T auto fuel) none args [] x with
      | none => rw [hb] at hr; cases hr
      | some p => rw [hb] at hr; rw [deserBody_mono T auto _ _ ih none _ _ _ _ hb]; exact hr
    | none =>
      simp only [deserObj] at hr ⊢
      cases hid : byIdLE T x with
      | none => rw [hid] at hr; exact hr
      | some c =>
        rw [hid] at hr
        simp only at hr ⊢
        cases hb : deserBody T auto (deserObj T auto fuel) (some c.name) c.args [] (x.drop 4) with
        | none => rw [hb] at hr; cases hr
        | some p => rw [hb] at hr; rw [deserBody_mono T auto _ _ ih _ _ _ _ _ hb]; exact hr

/-- a parse that returns with budget `fuel` returns the same with every larger budget (any table, any input). -/
theorem deserialize_mono (T : Table) (auto : Bool) (d : Bytes) (fuel fuel' : Nat) (hf : fuel ≤ fuel') (r : Val × Nat)
    (hr : deserialize T auto fuel d = some r) : deserialize T auto fuel' d = some r := by
  induction fuel' with
  | zero =>
    have : fuel = 0 := by omega
    subst this; exact hr
  | succ f ih =>
    by_cases he : fuel = f + 1
    · subst he; exact hr
    · exact deserObj_mono T auto f d none r (ih (by omega))

end TonVerif.Proofs.Tl
