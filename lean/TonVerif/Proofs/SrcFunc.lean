/-
Generation-independent lemmas for the function translator (harness/translate/pyfunc.py): loops (`List.foldlM` in `Option`)
against the `foldl` forms of the hand models, loops whose state carries extra (dead) components, and the two loops of
`check_block_signatures` with the loop BODY as a parameter (the regenerated body is found by unification, never written here).
Nothing here mentions a `Generated.*` definition: a source change can never break this file.
-/
import TonVerif.Model.Sig

namespace TonVerif.Proofs.SrcFunc
open TonVerif

/-- a loop over an encoded state: if every step commutes with the encoding, so does the loop -/
theorem foldlM_sim {σ τ α : Type} (enc : τ → σ) (f : σ → α → Option σ) (g : τ → α → Option τ)
    (h : ∀ t x, f (enc t) x = (g t x).map enc) (xs : List α) (t : τ) :
    List.foldlM f (enc t) xs = (List.foldlM g t xs).map enc := by
  induction xs generalizing t with
  | nil => simp
  | cons x xs ih =>
    simp only [List.foldlM_cons, h]
    cases g t x with
    | none => simp
    | some t' => simp [ih]

/-- a loop whose body never raises is a `foldl` -/
theorem foldlM_pure {σ α : Type} (f : σ → α → σ) (xs : List α) (s : σ) :
    List.foldlM (m := Option) (fun s x => some (f s x)) s xs = some (xs.foldl f s) := by
  induction xs generalizing s with
  | nil => simp
  | cons x xs ih => simp [ih]

/-- a `foldl` over an `Option` state whose step keeps `none` is the monadic loop -/
theorem foldl_absorb {σ α : Type} (g : Option σ → α → Option σ) (hn : ∀ x, g none x = none) (xs : List α) (s : Option σ) :
    xs.foldl g s = s.bind fun t => List.foldlM (fun t x => g (some t) x) t xs := by
  induction xs generalizing s with
  | nil => cases s <;> simp
  | cons x xs ih =>
    simp only [List.foldl_cons, ih]
    cases s with
    | none => simp [hn]
    | some t => simp [List.foldlM_cons]

namespace Sig
open TonVerif.Model.Sig

theorem sigStep_none (verify : Bytes → Bytes → Bytes → Bool) (map : NodeMap) (msg : Bytes) (x : SigEntry) :
    sigStep verify map msg none x = none := rfl

/-- first loop of `check_block_signatures`, state `(i, node_map, total_weight)`: any body that adds the weight and binds the node id -/
theorem nodes_loop (H : Bytes → Bytes) (f : Nat × NodeMap × Nat → Validator → Option (Nat × NodeMap × Nat))
    (hf : ∀ i m t v, f (i, m, t) v = some (i + 1, (nodeIdShort H v.key, v) :: m, t + v.weight))
    (nodes : List Validator) (i : Nat) (m : NodeMap) (t : Nat) :
    List.foldlM f (i, m, t) nodes =
      some (i + nodes.length, (nodes.foldl (nodeStep H) (t, m)).2, (nodes.foldl (nodeStep H) (t, m)).1) := by
  induction nodes generalizing i m t with
  | nil => simp
  | cons v vs ih =>
    have : i + 1 + vs.length = i + (vs.length + 1) := by omega
    simp [hf, ih, nodeStep, this]

/-- second loop, state `(i, seen, signed_weight)`: any body that is `sigStep` on `(seen, signed_weight)` and counts `i` -/
theorem sigs_loop (verify : Bytes → Bytes → Bytes → Bool) (map : NodeMap) (msg : Bytes)
    (f : Nat × List Bytes × Nat → SigEntry → Option (Nat × List Bytes × Nat))
    (hf : ∀ i seen signed sig, f (i, seen, signed) sig =
      (sigStep verify map msg (some (seen, signed)) sig).map fun r => (i + 1, r.1, r.2))
    (sigs : List SigEntry) (i : Nat) (seen : List Bytes) (signed : Nat) :
    List.foldlM f (i, seen, signed) sigs =
      (sigs.foldl (sigStep verify map msg) (some (seen, signed))).map fun r => (i + sigs.length, r.1, r.2) := by
  induction sigs generalizing i seen signed with
  | nil => simp
  | cons s ss ih =>
    simp only [List.foldlM_cons, hf, List.foldl_cons, List.length_cons]
    cases hs : sigStep verify map msg (some (seen, signed)) s with
    | none =>
      rw [foldl_absorb _ (sigStep_none verify map msg)]; simp
    | some r =>
      obtain ⟨seen', signed'⟩ := r
      have : i + 1 + ss.length = i + (ss.length + 1) := by omega
      simp [ih, this]

/-- the verdict of the hand model without `match` (so that rewriting reaches every copy of it) -/
theorem check_eq_getD (H : Bytes → Bytes) (verify : Bytes → Bytes → Bytes → Bool) (nodes : List Validator) (sigs : List SigEntry) (blk : Blk) :
    checkBlockSignatures H verify nodes sigs blk =
      ((runSigs verify (buildNodes H nodes).2 (toSign blk) sigs).map fun r => decide (r.2 * 3 > (buildNodes H nodes).1 * 2)).getD false := by
  unfold checkBlockSignatures
  rcases buildNodes H nodes with ⟨t, m⟩
  simp only []
  cases runSigs verify m (toSign blk) sigs with
  | none => rfl
  | some r => cases r; rfl

/-- what follows the second loop: any continuation that applies the strict two-thirds test to the accumulated weights -/
theorem verdict_eq (r : SigState) (n total : Nat) (k : Nat × List Bytes × Nat → Option Unit)
    (hk : ∀ i seen signed, k (i, seen, signed) = if signed * 3 > total * 2 then some () else none) :
    ((r.map fun r => (n, r.1, r.2)).bind k) =
      if ((r.map fun r => decide (r.2 * 3 > total * 2)).getD false) = true then some () else none := by
  cases r with
  | none => rfl
  | some r => simp [hk]

end Sig
end TonVerif.Proofs.SrcFunc
