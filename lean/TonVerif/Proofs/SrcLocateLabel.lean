/-
C11 / locsrc (a): the HmLabel reader of the regenerated parser files — the spec codec `(hmLabel n).dec`, used by `Rd.augWalk` / `Rd.dictWalk`
(Model/TlbRdTx.lean, TlbRdBlk.lean) — IS the C10 label reader `Hashmap.deserializeHml` (source-tied: `deserialize_hml_eq`) on EVERY bit
string: same decision to raise, same label length, same label bits, same rest.
-/
import TonVerif.Model.LocateSrc
namespace TonVerif.Proofs.SrcLocate
open TonVerif TonVerif.Model TonVerif.Tlb

theorem bitLenF_eq : ∀ f v, v ≤ f → bitLenF f v = bitLength v := by
  intro f
  induction f with
  | zero => intro v h; have : v = 0 := by omega
            subst this; simp [bitLenF, bitLength]
  | succ f ih =>
    intro v h
    cases v with
    | zero => simp [bitLenF, bitLength]
    | succ k =>
      rw [bitLenF, bitLength]
      simp only [Nat.succ_ne_zero, if_false]
      rw [ih ((k + 1) / 2) (by omega)]

theorem bitLen_eq (v : Nat) : bitLen v = bitLength v := bitLenF_eq v v (Nat.le_refl v)

theorem decUnary_eq : ∀ b : Bits, decUnary b = Hashmap.readUnary b := by
  intro b
  induction b with
  | nil => rfl
  | cons x r ih => cases x <;> simp [decUnary, Hashmap.readUnary, ih]

theorem uintLe_dec (m : Nat) (s : Frag) :
    (uintLe m).dec s = if s.bits.length < bitLength m then none
      else if natOfBits (s.bits.take (bitLength m)) ≤ m
        then some (.int (natOfBits (s.bits.take (bitLength m))), ⟨s.bits.drop (bitLength m), s.refs⟩) else none := by
  simp only [uintLe, uintRange, withPaths, constrained, uint, bitLen_eq]
  by_cases h : s.bits.length < bitLength m
  · simp [h]
  · simp [h, vBetween]

/-- what the walks use of a decoded label: length, bits, rest of the slice -/
def labelView (p : Val × Frag) : Nat × Bits × Bits × List Tlb.Cell := (labelLen p.1, Rd.labelBitsOf p.1, p.2.bits, p.2.refs)

theorem hmLabel_dec_alts (n : Nat) (s : Frag) : (hmLabel n).dec s = decAlts [
    ([false], "hml_short", recd [fld "n" (constrained unary (vBetween 0 n)), dep "s" (fun e => bitsC (e.nat "n"))]),
    ([true, false], "hml_long", recd [fld "n" (uintLe n), dep "s" (fun e => bitsC (e.nat "n"))]),
    ([true, true], "hml_same", recd [fld "v" boolC, fld "n" (uintLe n)])] s := rfl

/-- (a) the label reader of the parser files = the C10 label reader, on every bit string -/
theorem hmLabel_dec_eq (n : Nat) (bits : Bits) (refs : List Tlb.Cell) :
    ((hmLabel n).dec ⟨bits, refs⟩).map labelView =
      (Hashmap.deserializeHml bits (n : Int)).map fun t => (t.1, t.2.1, t.2.2, refs) := by
  rw [hmLabel_dec_alts]
  unfold Hashmap.deserializeHml
  match bits with
  | [] => simp [decAlts, Hashmap.readHml, List.isPrefixOf]
  | false :: r =>
    simp only [decAlts, List.isPrefixOf, Hashmap.readHml, recd, fld, dep, decFields, constrained, unary, decUnary_eq]
    simp only [beq_self_eq_true, Bool.and_true, if_true, List.length_singleton, List.drop_succ_cons, List.drop_zero]
    rcases hu : Hashmap.readUnary r with _ | ⟨k, r1⟩
    · simp
    · by_cases hk : k ≤ n <;> by_cases hl : r1.length < k <;>
        simp [vBetween, bitsC, Env.nat, List.lookup, Hashmap.loadBits, labelView, labelLen, Rd.labelBitsOf, hk, hl]
      all_goals first
        | (have : ¬ n < k := by omega
           simp [this])
        | (have : n < k := by omega
           simp [this])
  | [true] => simp [decAlts, Hashmap.readHml, List.isPrefixOf]
  | true :: false :: r =>
    simp only [decAlts, List.isPrefixOf, Hashmap.readHml, recd, fld, dep, decFields, uintLe_dec]
    simp only [beq_self_eq_true, Bool.and_true, Bool.and_self, if_true, if_false, List.length_cons, List.length_nil, List.drop_succ_cons,
      List.drop_zero, Bool.false_eq_true, show (false == true) = false from rfl, Bool.false_and, Nat.zero_add, Nat.reduceAdd]
    unfold Hashmap.loadLen Hashmap.loadUint
    simp only [Int.natAbs_natCast]
    generalize bitLength n = L
    by_cases hlen : r.length < L
    · have : L ≠ 0 := by omega
      simp [hlen, this]
    · generalize hk : natOfBits (r.take L) = k
      by_cases hL0 : L = 0
      · subst hL0
        have : k = 0 := by rw [← hk]; simp [natOfBits]
        subst this
        have hn0 : ¬ ((n : Int) < 0) := by omega
        simp [bitsC, Env.nat, List.lookup, Hashmap.loadBits, labelView, labelLen, Rd.labelBitsOf, hn0]
      · by_cases hkn : n < k <;> by_cases hl : r.length - L < k <;>
          simp [hlen, hL0, hk, bitsC, Env.nat, List.lookup, Hashmap.loadBits, labelView, labelLen, Rd.labelBitsOf, hkn, hl, Nat.not_le.2,
            Nat.le_of_not_lt]
  | [true, true] => simp [decAlts, Hashmap.readHml, List.isPrefixOf, recd, fld, decFields, boolC]
  | true :: true :: v :: r =>
    simp only [decAlts, List.isPrefixOf, Hashmap.readHml, recd, fld, dep, decFields, uintLe_dec, boolC]
    simp only [beq_self_eq_true, Bool.and_true, Bool.and_self, if_true, if_false, List.length_cons, List.length_nil, List.drop_succ_cons,
      List.drop_zero, Bool.false_eq_true, show (false == true) = false from rfl, Bool.false_and, Bool.and_false, Nat.zero_add, Nat.reduceAdd]
    unfold Hashmap.loadLen Hashmap.loadUint
    simp only [Int.natAbs_natCast]
    generalize bitLength n = L
    by_cases hlen : r.length < L
    · have : L ≠ 0 := by omega
      simp [hlen, this]
    · generalize hk : natOfBits (r.take L) = k
      by_cases hL0 : L = 0
      · subst hL0
        have : k = 0 := by rw [← hk]; simp [natOfBits]
        subst this
        have hn0 : ¬ ((n : Int) < 0) := by omega
        simp [Env.nat, List.lookup, labelView, labelLen, Rd.labelBitsOf, hn0]
      · by_cases hkn : n < k <;>
          simp [hlen, hL0, hk, Env.nat, List.lookup, labelView, labelLen, Rd.labelBitsOf, hkn, Nat.not_le.2, Nat.le_of_not_lt]

end TonVerif.Proofs.SrcLocate
