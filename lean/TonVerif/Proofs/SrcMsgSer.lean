/-
The composite SERIALISERS of the message classes (tlb/transaction.py, account.py, block.py) as regenerated from the source
(Generated/MsgSrc.lean) equal the hand model `Model/Message.lean`, for ALL inputs, under `Total` (every cell with at most
1023 bits and 4 references exists: `end_cell()` of an intermediate piece does not fail for depth).

The difference to bridge: the code calls `end_cell()` on every piece (`x.serialize()`) and then `store_cell`s it; the hand model
appends the piece's bits and refs without building the cell object (`Message.sub`).  `Safe op` is the builder size invariant
(`≤ 1023` bits, `≤ 4` refs after every store that returned normally); under it and `Total` the intermediate `end_cell()` always
succeeds (`sub_bridge`).
-/
import TonVerif.Proofs.SrcMsg
import TonVerif.Proofs.Message
set_option linter.unusedSimpArgs false
namespace TonVerif.Proofs.SrcMsgSer
open TonVerif TonVerif.Model TonVerif.Model.Vm TonVerif.Spec.Tlb TonVerif.Generated.MsgSrc TonVerif.Proofs.SrcVm
open TonVerif.Model.Message TonVerif.Model.BOp TonVerif.Proofs.Message TonVerif.Proofs.SrcMsg

variable {R : Type} {mk : Bits → List R → Option R}

/-! ### generation independent: the builder size invariant -/

/-- `end_cell()` never fails on a builder in its valid range (no depth overflow) -/
def MkTotal (mk : Bits → List R → Option R) : Prop := ∀ b r, b.length ≤ 1023 → r.length ≤ 4 → (mk b r).isSome

/-- a store operation that returned normally leaves the builder in its valid range -/
def Safe (op : BOp R) : Prop := ∀ b, WFB b → (op b).2 = true → WFB (op b).1

theorem safe_fail : Safe (BOp.fail : BOp R) := by intro b _ h; simp [BOp.fail] at h
theorem safe_skip : Safe (BOp.skip : BOp R) := by intro b hb _; exact hb

theorem safe_extend (xs : Bits) : Safe (extend xs : BOp R) := by
  intro b hb h
  unfold extend at *
  split at h
  · simp at h
  · rename_i hx
    simp only [hx, if_false]
    unfold WFB at *; simp only [List.length_append]; omega

theorem safe_storeRef (r : R) : Safe (storeRef r) := by
  intro b hb h
  unfold storeRef at *
  split at h
  · simp at h
  · rename_i hx
    simp only [hx, if_false]
    unfold WFB at *; simp only [List.length_append, List.length_cons, List.length_nil]; omega

theorem Safe.andThen {f g : BOp R} (hf : Safe f) (hg : Safe g) : Safe (f ⊳ g) := by
  intro b hb h
  unfold BOp.andThen at *
  cases hfb : (f b).2
  · simp [hfb] at h
  · simp only [hfb, if_true] at h ⊢
    exact hg _ (hf b hb hfb) h

theorem safe_storeUint (v : Int) (n : Nat) : Safe (storeUint v n : BOp R) := by
  unfold storeUint; split
  · exact safe_extend _
  · exact safe_fail

theorem safe_storeInt (v : Int) (n : Nat) : Safe (storeInt v n : BOp R) := by
  unfold storeInt; split
  · exact safe_extend _
  · exact safe_fail

theorem safe_storeBit (x : Bool) : Safe (storeBit x : BOp R) := safe_extend _
theorem safe_storeBits (xs : Bits) : Safe (storeBits xs : BOp R) := safe_extend _
theorem safe_storeBytes (xs : Bytes) : Safe (storeBytes xs : BOp R) := safe_extend _

theorem safe_storeVarUint (v : Int) (k : Nat) : Safe (storeVarUint v k : BOp R) := by
  unfold storeVarUint; split
  · exact safe_storeUint _ _
  · exact (safe_storeUint _ _).andThen (safe_storeUint _ _)

theorem safe_storeCoins (v : Int) : Safe (storeCoins v : BOp R) := safe_storeVarUint _ _

theorem safe_storeMaybeRef (o : Option R) : Safe (storeMaybeRef o) := by
  cases o with
  | none => exact safe_storeBit _
  | some r => exact (safe_storeBit _).andThen (safe_storeRef _)

theorem safe_storeDict (o : Option R) : Safe (storeDict o) := safe_storeMaybeRef o

theorem safe_storeCell (cb : Bits) (cr : List R) : Safe (storeCell cb cr) := by
  intro b hb h
  unfold storeCell at *
  split at h
  · simp at h
  · rename_i hx
    simp only [hx, if_false] at h ⊢
    cases he : (extend cb b).2
    · simp [he] at h
    · have hw := safe_extend cb b hb he
      have hr : (extend cb b).1.refs = b.refs := by
        unfold extend at *; split <;> rfl
      simp only [he, if_true]
      unfold WFB at *; simp only [List.length_append, hr]; omega

theorem safe_sub (op : BOp R) : Safe (Message.sub op) := by
  intro b hb h
  unfold Message.sub at *
  cases ho : (op Builder.empty).2
  · simp [ho] at h
  · simp only [ho, if_true] at h ⊢
    exact safe_storeCell _ _ b hb h

theorem safe_storeAddress (a : Addr) : Safe (storeAddress a : BOp R) := by
  cases a with
  | none => exact safe_storeBits _
  | ext len val =>
    intro b hb h
    simp only [storeAddress] at h ⊢
    generalize ((storeBits [false, true] ⊳ storeUint (len : Int) 9 ⊳ (if len = 0 ∧ val = 0 then skip else storeUint val len) : BOp R)
      Builder.empty) = r at *
    cases ho : r.2
    · simp [ho] at h
    · simp only [ho, if_true] at h ⊢; exact safe_storeCell _ _ b hb h
  | std anycast wc hash =>
    simp only [storeAddress]
    refine Safe.andThen (Safe.andThen (Safe.andThen (safe_storeBits _) ?_) (safe_storeInt _ _)) (safe_storeBytes _)
    cases anycast with
    | none => exact safe_storeBit _
    | some dp => exact Safe.andThen (Safe.andThen (safe_storeBit _) (safe_storeUint _ _)) (safe_storeUint _ _)

theorem safe_tickTockB (t : TickTock) : Safe (tickTockB t : BOp R) := (safe_storeBit _).andThen (safe_storeBit _)

theorem safe_currencyB (c : Currency R) : Safe (currencyB c) := (safe_storeCoins _).andThen (safe_sub _)

theorem safe_stateInitB (s : StateInit R) : Safe (stateInitB s) := by
  unfold stateInitB
  refine Safe.andThen (Safe.andThen (Safe.andThen (Safe.andThen ?_ ?_) (safe_storeMaybeRef _)) (safe_storeMaybeRef _)) (safe_storeMaybeRef _)
  · cases s.splitDepth with
    | none => exact safe_storeBit _
    | some d => exact (safe_storeBit _).andThen (safe_storeUint _ _)
  · cases s.special with
    | none => exact safe_storeBit _
    | some t => exact (safe_storeBit _).andThen (safe_sub _)

theorem safe_infoB (i : Info R) : Safe (infoB i) := by
  cases i with
  | int a b c src dest value ihr fwd lt at_ =>
    exact ((((((((((safe_storeUint 0 1).andThen (safe_storeBit a)).andThen (safe_storeBit b)).andThen (safe_storeBit c)).andThen
      (safe_storeAddress src)).andThen (safe_storeAddress dest)).andThen (safe_sub _)).andThen (safe_storeCoins ihr)).andThen
      (safe_storeCoins fwd)).andThen (safe_storeUint lt 64)).andThen (safe_storeUint at_ 32)
  | extIn src dest fee =>
    exact (((safe_storeUint 2 2).andThen (safe_storeAddress src)).andThen (safe_storeAddress dest)).andThen (safe_storeCoins fee)
  | extOut src dest lt at_ =>
    exact ((((safe_storeUint 3 2).andThen (safe_storeAddress src)).andThen (safe_storeAddress dest)).andThen
      (safe_storeUint lt 64)).andThen (safe_storeUint at_ 32)

/-- a store that returned normally, as `run` sees it -/
theorem Safe.run {op : BOp R} (hs : Safe op) {b b' : Builder R} (hb : WFB b) (h : run op b = some b') : WFB b' := by
  unfold Vm.run at h
  cases hr : (op b).2
  · simp [hr] at h
  · simp only [hr, if_true, Option.some.injEq] at h
    rw [← h]; exact hs b hb hr

/-- `end_cell()` on a builder in range -/
theorem finish_of_wfb (ht : MkTotal mk) {b : Builder R} (hb : WFB b) : ∃ c, mk b.bits b.refs = some c ∧ finish mk b = some ⟨b.bits, b.refs, c⟩ := by
  obtain ⟨c, hc⟩ := Option.isSome_iff_exists.mp (ht b.bits b.refs hb.1 hb.2)
  exact ⟨c, hc, by simp [finish, hc]⟩

/-- **the bridge**: `builder.store_cell(<piece>.serialize())` where the piece is built by `op` in its own builder and finished by
    `end_cell()` is the hand model's `Message.sub op` (append the piece's bits and refs) -/
theorem sub_bridge {α : Type} (ht : MkTotal mk) {op : BOp R} (hs : Safe op) (b : Builder R) (k : Builder R → Option α) :
    (build mk op).bind (fun r => (run (BOp.storeCell r.bits r.refs) b).bind k) = (run (Message.sub op) b).bind k := by
  rw [run_sub]
  unfold build
  cases h : run op Builder.empty with
  | none => rfl
  | some p =>
    obtain ⟨c, _, hf⟩ := finish_of_wfb ht (hs.run wfb_empty h)
    simp [hf]

/-- what the content of a finished piece is -/
theorem build_some {op : BOp R} {p : Built R} (h : build mk op = some p) :
    ∃ b, run op Builder.empty = some b ∧ p.bits = b.bits ∧ p.refs = b.refs ∧ mk b.bits b.refs = some p.cell := by
  unfold build at h
  cases hr : run op Builder.empty with
  | none => simp [hr] at h
  | some b =>
    simp only [hr, Option.bind_some, finish] at h
    cases hm : mk b.bits b.refs with
    | none => simp [hm] at h
    | some c =>
      simp only [hm, Option.map_some, Option.some.injEq] at h
      subst h
      exact ⟨b, rfl, rfl, rfl, hm⟩

/-- `cellOf` (hand model: run from the empty builder, then `make`) and `build` (regenerated code: `finish`) -/
theorem cellOf_eq_build (ops : CellOps R) (op : BOp R) : cellOf ops op = (build ops.make op).map (·.cell) := by
  unfold cellOf runB build Vm.run finish
  cases h : (op Builder.empty).2 <;> simp [h]
  cases ops.make (op Builder.empty).1.bits (op Builder.empty).1.refs <;> rfl

/-! ### generation dependent: the composite serialisers -/

theorem currency_ser_eq (ht : MkTotal mk) (c : Currency R) : CurrencyCollection_serialize mk c = build mk (currencyB c) := by
  cases c with
  | mk g o =>
    simp only [CurrencyCollection_serialize, extra_ser_eq, bind_pure, Option.bind_eq_bind, Option.pure_def, Option.bind_some]
    simp only [sub_bridge ht (safe_storeMaybeRef o)]
    simp [build, currencyB, run_andThen, Option.bind_assoc]

theorem stateInit_ser_eq (ht : MkTotal mk) (s : StateInit R) : StateInit_serialize mk s = build mk (stateInitB s) := by
  rcases s with ⟨sd, sp, code, data, lib⟩
  cases sd <;> cases sp <;>
    simp only [StateInit_serialize, tickTock_ser_eq, bind_pure, Option.bind_eq_bind, Option.pure_def, Option.bind_some,
      sub_bridge ht (safe_tickTockB _)] <;>
    simp [build, stateInitB, run_andThen, Option.bind_assoc]

theorem infoInt_ser_eq (ht : MkTotal mk) (a b c : Bool) (src dest : Addr) (value : Currency R) (ihr fwd lt at_ : Int) :
    InternalMsgInfo_serialize mk (Info.int a b c src dest value ihr fwd lt at_) =
      build mk (infoB (Info.int a b c src dest value ihr fwd lt at_)) := by
  simp only [InternalMsgInfo_serialize, currency_ser_eq ht, bind_pure, Option.bind_eq_bind, Option.pure_def, Option.bind_some,
    sub_bridge ht (safe_currencyB _)]
  simp [build, infoB, run_andThen, Option.bind_assoc]

theorem infoExtIn_ser_eq (src dest : Addr) (fee : Int) :
    ExternalMsgInfo_serialize mk (Info.extIn src dest fee : Info R) = build mk (infoB (Info.extIn src dest fee)) := by
  simp [ExternalMsgInfo_serialize, build, infoB, run_andThen, Option.bind_assoc]

theorem infoExtOut_ser_eq (src dest : Addr) (lt at_ : Int) :
    ExternalOutMsgInfo_serialize mk (Info.extOut src dest lt at_ : Info R) = build mk (infoB (Info.extOut src dest lt at_)) := by
  simp [ExternalOutMsgInfo_serialize, build, infoB, run_andThen, Option.bind_assoc]

/-- `self.info.serialize()` whatever the class of `info` -/
theorem info_ser_eq (ht : MkTotal mk) (i : Info R) : Info_serialize mk i = build mk (infoB i) := by
  cases i with
  | int a b c src dest value ihr fwd lt at_ => exact infoInt_ser_eq ht ..
  | extIn src dest fee => exact infoExtIn_ser_eq ..
  | extOut src dest lt at_ => exact infoExtOut_ser_eq ..

/-! ### `MessageAny.serialize` -/

/-- "returned normally" of a model step that reports (state, flag) -/
def okB (r : Builder R × Bool) : Option (Builder R) := if r.2 then some r.1 else none

theorem okB_run (op : BOp R) (b : Builder R) : okB (op b) = run op b := rfl

/-- the body part of `MessageAny.serialize` in `run` form -/
def bodyR (ops : CellOps R) (body : Chunk R) (b : Builder R) : Option (Builder R) :=
  if (body.1.length : Int) ≤ (1023 - (b.bits.length : Int)) - 1 ∧ body.2.length + b.refs.length ≤ 4 then
    run (storeBit false ⊳ storeCell body.1 body.2) b
  else (ops.make body.1 body.2).bind fun bc => run (storeBit true ⊳ storeRef bc) b

theorem bodyB_run (ops : CellOps R) (body : Chunk R) (b : Builder R) :
    (bodyB ops body b).bind okB = bodyR ops body b := by
  unfold bodyB bodyR
  by_cases h : (body.1.length : Int) ≤ (1023 - (b.bits.length : Int)) - 1 ∧ body.2.length + b.refs.length ≤ 4
  · simp only [h, and_self, decide_true, Bool.and_self, if_true, Option.bind_some, okB_run]
  · have : (decide ((body.1.length : Int) ≤ (1023 - (b.bits.length : Int)) - 1) && decide (body.2.length + b.refs.length ≤ 4)) = false := by
      simpa using h
    simp only [this, h, if_false, Bool.false_eq_true]
    cases ops.make body.1 body.2 with
    | none => rfl
    | some bc => simp only [Option.bind_some, okB_run]

/-- the init part in `run` form; the init cell is given with its content (`Built`) -/
def initR (ops : CellOps R) (init : Option (StateInit R)) (body : Chunk R) (b : Builder R) : Option (Builder R) :=
  match init with
  | none => run (storeBit false) b
  | some s =>
    (run (storeBit true) b).bind fun b1 =>
    (build ops.make (stateInitB s)).bind fun ic =>
      if (1023 - (b1.bits.length : Int)) - 2 - (ic.bits.length : Int) ≥ 0 ∧
          (4 - (b1.refs.length : Int) - (ic.refs.length : Int) ≥ 1 ∨
            (4 - (b1.refs.length : Int) - (ic.refs.length : Int) = 0 ∧ body.2 = [] ∧
              (body.1.length : Int) ≤ (1023 - (b1.bits.length : Int)) - 2 - (ic.bits.length : Int))) then
        run (storeBit false ⊳ storeCell ic.bits ic.refs) b1
      else run (storeBit true ⊳ storeRef ic.cell) b1

theorem view_built (ops : CellOps R) (hl : ops.Lawful) {op : BOp R} {p : Built R} (h : build ops.make op = some p) :
    ops.view p.cell = (p.bits, p.refs) := by
  obtain ⟨b, _, h1, h2, h3⟩ := build_some h
  rw [h1, h2]; exact hl _ _ _ h3

theorem initB_run (ops : CellOps R) (hl : ops.Lawful) (init : Option (StateInit R)) (body : Chunk R) (b : Builder R) :
    (initB ops init body b).bind okB = initR ops init body b := by
  cases init with
  | none => rfl
  | some s =>
    simp only [initB, initR, cellOf_eq_build]
    cases h1 : (storeBit true b).2
    · simp [okB, Vm.run, h1]
    · have hr : run (storeBit true) b = some (storeBit true b).1 := by simp [Vm.run, h1]
      simp only [Bool.not_true, Bool.false_eq_true, if_false, hr, Option.bind_some]
      cases h2 : build ops.make (stateInitB s) with
      | none => rfl
      | some ic =>
        simp only [Option.map_some, Option.bind_some, view_built ops hl h2]
        have hE : body.2.isEmpty = decide (body.2 = []) := by cases body.2 <;> simp
        simp only [hE]
        split <;> rename_i hc <;> split <;> rename_i hd
        · rfl
        · exfalso; apply hd; simpa [Bool.and_assoc] using hc
        · exfalso; apply hc; simpa [Bool.and_assoc] using hd
        · rfl

/-- the hand model's `MessageAny.serialize` as one chain of `run` steps -/
def serializeR (ops : CellOps R) (m : Msg R) : Option (Built R) :=
  (build ops.make (infoB m.info)).bind fun p =>
  (run (storeCell p.bits p.refs) Builder.empty).bind fun b0 =>
  (initR ops m.init m.body b0).bind fun b1 =>
  (bodyR ops m.body b1).bind fun b2 => finish ops.make b2

theorem serialize_run (ops : CellOps R) (hl : ops.Lawful) (m : Msg R) :
    Message.serialize ops m = (serializeR ops m).map (·.cell) := by
  unfold Message.serialize serializeR
  rw [cellOf_eq_build]
  cases h1 : build ops.make (infoB m.info) with
  | none => rfl
  | some p =>
    simp only [Option.map_some, Option.bind_some, view_built ops hl h1, ← initB_run ops hl, ← bodyB_run ops]
    simp only [Vm.run]
    generalize storeCell p.bits p.refs Builder.empty = r0
    rcases r0 with ⟨b0, f0⟩
    cases f0
    · rfl
    · simp only [Bool.not_true, Bool.false_eq_true, if_false, if_true, Option.bind_some]
      cases h3 : initB ops m.init m.body b0 with
      | none => rfl
      | some r1 =>
        rcases r1 with ⟨b1, f1⟩
        cases f1
        · rfl
        · simp only [Bool.not_true, Bool.false_eq_true, if_false, if_true, Option.bind_some, okB]
          cases h5 : bodyB ops m.body b1 with
          | none => rfl
          | some r2 =>
            rcases r2 with ⟨b2, f2⟩
            cases f2
            · rfl
            · simp only [Bool.not_true, Bool.false_eq_true, if_false, if_true, Option.bind_some, finish, okB]
              cases ops.make b2.bits b2.refs <;> rfl

/-- the body part of the regenerated `MessageAny.serialize` (whatever builder it starts on) is the hand model's; `c` is the test as
    spelled in the source, equivalent to the model's -/
theorem body_frag (ops : CellOps R) (body : Chunk R) (b : Builder R) (c : Prop) [Decidable c]
    (hc : c ↔ ((body.1.length : Int) ≤ (1023 - (b.bits.length : Int)) - 1 ∧ body.2.length + b.refs.length ≤ 4)) :
    (if c then
        (run (storeBit false) b).bind fun b7 => (run (storeCell body.1 body.2) b7).bind fun b8 => finish ops.make b8
      else (run (storeBit true) b).bind fun b10 => (Py.Tlb.storeRefOf ops.make body b10).bind fun b8 => finish ops.make b8) =
    (bodyR ops body b).bind fun b8 => finish ops.make b8 := by
  unfold bodyR Py.Tlb.storeRefOf
  split <;> rename_i h1 <;> split <;> rename_i h2
  · simp [run_andThen, Option.bind_assoc]
  · exact absurd (hc.mp h1) h2
  · exact absurd (hc.mpr h2) h1
  · simp only [run_andThen, Option.bind_assoc]
    opt_comm

theorem message_ser_eq (ops : CellOps R) (ht : ops.Total) (m : Msg R) :
    MessageAny_serialize ops.make m = serializeR ops m := by
  rcases m with ⟨info, init, body⟩
  simp only [MessageAny_serialize, serializeR, info_ser_eq ht, stateInit_ser_eq ht, bind_pure, Option.bind_eq_bind, Option.pure_def, Option.bind_some]
  cases h1 : build ops.make (infoB info) with
  | none => rfl
  | some p =>
    simp only [Option.bind_some]
    cases h2 : run (storeCell p.bits p.refs) Builder.empty with
    | none => rfl
    | some b0 =>
      simp only [Option.bind_some]
      cases init with
      | none =>
        simp (disch := (simp only [Py.Tlb.availableBits, Py.Tlb.availableRefs]; omega)) only [initR, body_frag]
      | some s =>
        simp (disch := (simp only [Py.Tlb.availableBits, Py.Tlb.availableRefs]; omega)) only [initR, body_frag]
        cases h3 : run (storeBit true) b0 with
        | none => rfl
        | some b1 =>
          simp only [Option.bind_some]
          cases h4 : build ops.make (stateInitB s) with
          | none => rfl
          | some ic =>
            simp only [Option.bind_some, Py.Tlb.availableBits, Py.Tlb.availableRefs, decide_eq_true_eq, ne_eq, Decidable.not_not]
            split <;> rename_i hc
            all_goals (try (split <;> rename_i hd))
            all_goals first
              | (simp only [run_andThen, Option.bind_assoc]; done)
              | (exfalso; revert hc hd; by_cases hb : body.2 = [] <;> simp only [hb, true_and, false_and, and_true, and_false, or_false,
                    not_true_eq_false, not_false_eq_true] <;> omega)

/-- **`MessageAny.serialize` as regenerated from the source returns the hand model's cell** (or raises where the model does) -/
theorem src_message_ser_eq (ops : CellOps R) (hl : ops.Lawful) (ht : ops.Total) (m : Msg R) :
    (MessageAny_serialize ops.make m).map (·.cell) = Message.serialize ops m := by
  rw [message_ser_eq ops ht, serialize_run ops hl]

/-- the cell object a regenerated serialiser returns shows the content it was built from (`Lawful`) -/
theorem finish_view (ops : CellOps R) (hl : ops.Lawful) {b : Builder R} {p : Built R} (h : finish ops.make b = some p) :
    ops.view p.cell = (p.bits, p.refs) := by
  unfold finish at h
  cases hm : ops.make b.bits b.refs with
  | none => simp [hm] at h
  | some c =>
    simp only [hm, Option.map_some, Option.some.injEq] at h
    subst h; exact hl _ _ _ hm

theorem message_built_view (ops : CellOps R) (hl : ops.Lawful) (ht : ops.Total) (m : Msg R) {p : Built R}
    (h : MessageAny_serialize ops.make m = some p) : ops.view p.cell = (p.bits, p.refs) := by
  rw [message_ser_eq ops ht] at h
  unfold serializeR at h
  cases h1 : build ops.make (infoB m.info) with
  | none => simp [h1] at h
  | some q =>
    simp only [h1, Option.bind_some] at h
    cases h2 : run (storeCell q.bits q.refs) Builder.empty with
    | none => simp [h2] at h
    | some b0 =>
      simp only [h2, Option.bind_some] at h
      cases h3 : initR ops m.init m.body b0 with
      | none => simp [h3] at h
      | some b1 =>
        simp only [h3, Option.bind_some] at h
        cases h4 : bodyR ops m.body b1 with
        | none => simp [h4] at h
        | some b2 =>
          simp only [h4, Option.bind_some] at h
          exact finish_view ops hl h

/-- a piece serialised into the empty builder: `sub op` and `op` leave the same content -/
theorem run_sub_empty {op : BOp R} (hs : Safe op) : run (Message.sub op) Builder.empty = run op Builder.empty := by
  rw [run_sub]
  cases h : run op Builder.empty with
  | none => rfl
  | some p =>
    have hw := hs.run wfb_empty h
    have h0 := ((appends_storeCell p.bits p.refs).run rfl).1 ⟨hw.1, hw.2⟩
    dsimp only at h0
    simp [Vm.run, h0]

theorem src_stateInit_ser_eq (ops : CellOps R) (ht : ops.Total) (s : StateInit R) :
    (StateInit_serialize ops.make s).map (·.cell) = Message.serializeStateInit ops s := by
  rw [stateInit_ser_eq ht, Message.serializeStateInit, cellOf_eq_build]

theorem src_currency_ser_eq (ops : CellOps R) (ht : ops.Total) (c : Currency R) :
    (CurrencyCollection_serialize ops.make c).map (·.cell) = Message.serializeCurrency ops c := by
  rw [currency_ser_eq ht, Message.serializeCurrency, cellOf_eq_build]
  unfold build
  rw [run_sub_empty (safe_currencyB c)]

theorem src_info_ser_eq (ops : CellOps R) (ht : ops.Total) (i : Info R) :
    (Info_serialize ops.make i).map (·.cell) = cellOf ops (infoB i) := by
  rw [info_ser_eq ht, cellOf_eq_build]

end TonVerif.Proofs.SrcMsgSer
