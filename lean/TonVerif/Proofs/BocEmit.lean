/-
Helper lemmas for C04/C03: byte-level facts about the emitter model (Model/BocEmit.lean) and the
strict reader (Spec/Boc.lean).
-/
import TonVerif.Model.BocEmit
import TonVerif.Spec.Boc
import TonVerif.Proofs.CellSpec
import TonVerif.Properties.C18

namespace TonVerif.Proofs.BocEmit
open TonVerif TonVerif.Model TonVerif.Spec.Boc

/-! ### widths -/

theorem pow256 (w : Nat) : 256 ^ w = 2 ^ (8 * w) := by
  rw [show (256 : Nat) = 2 ^ 8 from rfl, ← Nat.pow_mul]

/-- the byte width `(n.bit_length() + 7) // 8` holds `n` -/
theorem lt_pow_byteWidth (n : Nat) : n < 256 ^ byteWidth n := by
  have h := CellSpec.lt_two_pow_bitLength n
  rw [pow256]
  refine Nat.lt_of_lt_of_le h (Nat.pow_le_pow_right (by decide) ?_)
  unfold byteWidth; omega

theorem bitLength_le_of_lt_pow : ∀ (k n : Nat), n < 2 ^ k → bitLength n ≤ k
  | 0, n, h => by
    have : n = 0 := by simpa using h
    subst this; simp [bitLength]
  | k + 1, 0, _ => by simp [bitLength]
  | k + 1, n + 1, h => by
    rw [bitLength]
    have := bitLength_le_of_lt_pow k ((n + 1) / 2) (by rw [Nat.pow_succ] at h; omega)
    omega

theorem byteWidth_le (n k : Nat) (h : n < 256 ^ k) : byteWidth n ≤ k := by
  rw [pow256] at h
  have := bitLength_le_of_lt_pow _ _ h
  unfold byteWidth; omega

theorem byteWidth_pos (n : Nat) (h : 1 ≤ n) : 1 ≤ byteWidth n := by
  unfold byteWidth
  match n, h with
  | n + 1, _ => rw [bitLength]; omega

/-! ### big-endian numbers -/

theorem natToBE_length : ∀ (w v : Nat), (natToBE w v).length = w
  | 0, _ => rfl
  | w + 1, v => by simp [natToBE, natToBE_length w]

theorem natToBE_wf : ∀ (w v : Nat), Bytes.WF (natToBE w v)
  | 0, _ => by simp [natToBE, Bytes.WF]
  | w + 1, v => by
    intro b hb
    simp only [natToBE, List.mem_append, List.mem_singleton] at hb
    rcases hb with hb | hb
    · exact natToBE_wf w _ b hb
    · omega

theorem natOfBE_foldl (bs : Bytes) : ∀ acc, bs.foldl (fun acc b => acc * 256 + b) acc = acc * 256 ^ bs.length + natOfBE bs := by
  induction bs with
  | nil => intro acc; simp [natOfBE]
  | cons b bs ih =>
    intro acc
    simp only [List.foldl_cons, natOfBE, List.length_cons]
    rw [ih, ih (0 * 256 + b)]
    simp [Nat.pow_succ, Nat.add_mul, Nat.mul_assoc, Nat.mul_comm, Nat.add_assoc]

theorem natOfBE_snoc (a : Bytes) (x : Nat) : natOfBE (a ++ [x]) = natOfBE a * 256 + x := by
  simp [natOfBE, List.foldl_append]

theorem natOfBE_natToBE : ∀ (w v : Nat), natOfBE (natToBE w v) = v % 256 ^ w
  | 0, v => by simp [natToBE, natOfBE, Nat.mod_one]
  | w + 1, v => by
    rw [natToBE, natOfBE_snoc, natOfBE_natToBE w, Nat.pow_succ, Nat.mul_comm (256 ^ w) 256, Nat.mod_mul]
    omega

theorem natToBE_zero : ∀ (w : Nat), natToBE w 0 = List.replicate w 0
  | 0 => rfl
  | w + 1 => by
    rw [natToBE, Nat.zero_div, natToBE_zero w]
    simp [List.replicate_succ']

/-! ### reader primitives on emitted pieces -/

theorem takeN_append (a r : Bytes) (n : Nat) (h : a.length = n) : takeN n (a ++ r) = some (a, r) := by
  subst h
  simp [takeN]

theorem uintBE_one (x : Nat) (r : Bytes) : uintBE 1 (x :: r) = some (x, r) := by
  simp [uintBE, takeN, natOfBE]

theorem uintBE_natToBE (w v : Nat) (r : Bytes) (h : v < 256 ^ w) :
    uintBE w (natToBE w v ++ r) = some (v, r) := by
  simp [uintBE, takeN_append _ _ _ (natToBE_length w v), natOfBE_natToBE, Nat.mod_eq_of_lt h]

theorem uintsBE_flatten (w : Nat) : ∀ (vs : List Nat) (r : Bytes), (∀ v ∈ vs, v < 256 ^ w) →
    uintsBE vs.length w ((vs.map (natToBE w)).flatten ++ r) = some (vs, r)
  | [], r, _ => by simp [uintsBE]
  | v :: vs, r, h => by
    have hv := h v (by simp)
    have ih := uintsBE_flatten w vs r (fun x hx => h x (by simp [hx]))
    simp [uintsBE, List.append_assoc, uintBE_natToBE _ _ _ hv, ih]

theorem mapM_toBytesBE (w : Nat) : ∀ (vs : List Nat), (∀ v ∈ vs, v < 256 ^ w) →
    vs.mapM (toBytesBE? w) = some (vs.map (natToBE w))
  | [], _ => by simp
  | v :: vs, h => by
    have hv := h v (by simp)
    have ih := mapM_toBytesBE w vs (fun x hx => h x (by simp [hx]))
    simp [List.mapM_cons, toBytesBE?, hv, ih]

/-! ### abstract records: what a well-formed cell hands to `Cell.serialize` -/

/-- one cell as the emitter sees it: descriptor bytes d1 d2, data bytes, reference indices -/
structure ARec where
  d1 : Nat
  d2 : Nat
  data : Bytes
  refs : List Nat
  deriving Repr, DecidableEq

def ARec.toRec (a : ARec) : Rec := ⟨[a.d1, a.d2], a.data, a.refs⟩

/-- data bits denoted by the data bytes (completion tag removed when d2 is odd) -/
def decodeBits (d2 : Nat) (data : Bytes) : Bits :=
  if d2 % 2 == 1 then stripTag (bytesToBits data) else bytesToBits data

/-- the record the strict reader must recover -/
def ARec.toSRec (a : ARec) : SRec := ⟨a.d1, decodeBits a.d2 a.data, a.refs⟩

/-- well-formedness of one record in a bag of `n` cells -/
structure ARec.OK (n : Nat) (a : ARec) : Prop where
  d1_lt : a.d1 < 256
  d2_lt : a.d2 < 256
  nrefs : a.d1 % 8 = a.refs.length
  refs_le : a.refs.length ≤ 4
  noHashes : a.d1 / 16 % 2 = 0
  dataLen : a.data.length = a.d2 / 2 + a.d2 % 2
  dataWF : Bytes.WF a.data
  tag : a.d2 % 2 = 1 → ∃ last, a.data.getLast? = some last ∧ last % 128 ≠ 0
  exotic : a.d1 / 8 % 2 = 1 → 8 ≤ (decodeBits a.d2 a.data).length
  refs_lt : ∀ j ∈ a.refs, j < n

/-- serialised form of one record with `size`-byte reference indices -/
def ARec.bytes (size : Nat) (a : ARec) : Bytes :=
  a.d1 :: a.d2 :: (a.data ++ (a.refs.map (natToBE size)).flatten)

theorem ser_eq (size n : Nat) (a : ARec) (ok : a.OK n) (hn : n ≤ 256 ^ size) :
    Rec.ser size a.toRec = some (a.bytes size) := by
  have : ∀ v ∈ a.refs, v < 256 ^ size := fun v hv => Nat.lt_of_lt_of_le (ok.refs_lt v hv) hn
  simp [Rec.ser, ARec.toRec, mapM_toBytesBE size a.refs this, ARec.bytes]

theorem flatten_natToBE_length (size : Nat) : ∀ (vs : List Nat), ((vs.map (natToBE size)).flatten).length = vs.length * size
  | [] => by simp
  | v :: vs => by
    simp only [List.map_cons, List.flatten_cons, List.length_append, natToBE_length, List.length_cons,
      flatten_natToBE_length size vs, Nat.add_mul, Nat.one_mul]
    omega

theorem bytes_length (size n : Nat) (a : ARec) (ok : a.OK n) :
    (a.bytes size).length = 2 + (a.d2 / 2 + a.d2 % 2) + (a.d1 % 8) * size := by
  simp only [ARec.bytes, List.length_cons, List.length_append, flatten_natToBE_length, ok.dataLen, ok.nrefs]
  omega

theorem readCell_bytes (size n : Nat) (a : ARec) (ok : a.OK n) (hn : n ≤ 256 ^ size) (rest : Bytes) :
    readCell size (a.bytes size ++ rest) = some (a.toSRec, (a.bytes size).length, rest) := by
  have hrefs : ∀ v ∈ a.refs, v < 256 ^ size := fun v hv => Nat.lt_of_lt_of_le (ok.refs_lt v hv) hn
  have h1 : ¬ (a.d1 % 8 > 4) := by have := ok.nrefs; have := ok.refs_le; omega
  have hu := uintsBE_flatten size a.refs rest hrefs
  rw [← ok.nrefs] at hu
  rw [bytes_length size n a ok]
  unfold readCell ARec.bytes
  simp only [List.cons_append, uintBE_one, Option.bind_eq_bind, Option.bind_some, h1, if_false,
    ok.noHashes, List.append_assoc, takeN_append _ _ _ ok.dataLen]
  by_cases hodd : a.d2 % 2 = 1
  · obtain ⟨last, hl, hne⟩ := ok.tag hodd
    have hex : ¬ (a.d1 / 8 % 2 = 1 ∧ (stripTag (bytesToBits a.data)).length < 8) := by
      intro ⟨h, h'⟩
      have := ok.exotic h
      simp [decodeBits, hodd] at this
      omega
    simp [hodd, hl, hne, hu, ARec.toSRec, decodeBits, hex]
  · have hex : ¬ (a.d1 / 8 % 2 = 1 ∧ (bytesToBits a.data).length < 8) := by
      intro ⟨h, h'⟩
      have := ok.exotic h
      simp [decodeBits, hodd] at this
      omega
    simp [hodd, hu, ARec.toSRec, decodeBits]
    intro h
    have := ok.exotic h
    simpa [decodeBits, hodd] using this

/-! ### `emit` in closed form -/

theorem readCells_payload (size n : Nat) (hn : n ≤ 256 ^ size) : ∀ (as : List ARec), (∀ a ∈ as, a.OK n) →
    readCells as.length size ((as.map (ARec.bytes size)).flatten) =
      some (as.map (fun a => (a.toSRec, (a.bytes size).length)))
  | [], _ => by simp [readCells]
  | a :: as, h => by
    have ih := readCells_payload size n hn as (fun x hx => h x (by simp [hx]))
    have hc := readCell_bytes size n a (h a (by simp)) hn ((as.map (ARec.bytes size)).flatten)
    simp [readCells, hc, ih]

theorem mapM_ser (size n : Nat) (hn : n ≤ 256 ^ size) : ∀ (as : List ARec), (∀ a ∈ as, a.OK n) →
    (as.map ARec.toRec).mapM (Rec.ser size) = some (as.map (ARec.bytes size))
  | [], _ => by simp
  | a :: as, h => by
    have ih := mapM_ser size n hn as (fun x hx => h x (by simp [hx]))
    simp [List.mapM_cons, ser_eq size n a (h a (by simp)) hn, ih]

theorem cumulativeFrom_le : ∀ (lens : List Nat) (acc : Nat), ∀ e ∈ cumulativeFrom acc lens, e ≤ acc + lens.sum
  | [], _, e, h => by simp [cumulativeFrom] at h
  | l :: ls, acc, e, h => by
    simp only [cumulativeFrom, List.mem_cons] at h
    rcases h with h | h
    · subst h; simp
    · have := cumulativeFrom_le ls (acc + l) e h
      simp; omega

theorem endOffsetsFrom_eq : ∀ (lens : List Nat) (acc : Nat), endOffsetsFrom acc lens = cumulativeFrom acc lens
  | [], _ => rfl
  | l :: ls, acc => by simp [endOffsetsFrom, cumulativeFrom, endOffsetsFrom_eq ls]

theorem length_flatten_sum (xs : List Bytes) : xs.flatten.length = (xs.map List.length).sum := by
  simp [List.length_flatten]

def flagByte (o : Opts) (size : Nat) : Nat := b2n o.hasIdx * 128 + b2n o.hasCrc * 64 + b2n o.hasCache * 32 + size

theorem flags_or (o : Opts) (size : Nat) (h1 : 1 ≤ size) (h4 : size ≤ 4) (hf : o.flags = 0) :
    (b2n o.hasIdx * 128 + b2n o.hasCrc * 64 + b2n o.hasCache * 32 + o.flags * 8 + size) ||| size = flagByte o size := by
  have : size = 1 ∨ size = 2 ∨ size = 3 ∨ size = 4 := by omega
  rw [hf]
  unfold flagByte
  rcases this with rfl | rfl | rfl | rfl <;> cases o.hasIdx <;> cases o.hasCrc <;> cases o.hasCache <;> decide


def payloadOf (size : Nat) (as : List ARec) : Bytes := (as.map (ARec.bytes size)).flatten

def lensOf (size : Nat) (as : List ARec) : List Nat := as.map (fun a => (a.bytes size).length)

def indexOf (o : Opts) (off size : Nat) (as : List ARec) : Bytes :=
  if o.hasIdx then ((cumulative (lensOf size as)).map (fun e => natToBE off (if o.hasCache then e * 2 else e))).flatten else []

def sizeW (as : List ARec) : Nat := byteWidth as.length
def offOf (o : Opts) (as : List ARec) : Nat :=
  byteWidth (if o.hasCache then (payloadOf (sizeW as) as).length * 2 else (payloadOf (sizeW as) as).length)

/-- everything before the CRC -/
def bodyOf (o : Opts) (as : List ARec) : Bytes :=
  bocMagic ++ (flagByte o (sizeW as) :: offOf o as :: (natToBE (sizeW as) as.length ++ (natToBE (sizeW as) 1 ++
    (natToBE (sizeW as) 0 ++ (natToBE (offOf o as) (payloadOf (sizeW as) as).length ++ (natToBE (sizeW as) 0 ++
      (indexOf o (offOf o as) (sizeW as) as ++ payloadOf (sizeW as) as)))))))

theorem toBytesBE_of_lt (w v : Nat) (h : v < 256 ^ w) : toBytesBE? w v = some (natToBE w v) := by
  simp [toBytesBE?, h]

theorem mapM_toBytesBE_comp (w : Nat) (g : Nat → Nat) : ∀ (vs : List Nat), (∀ v ∈ vs, g v < 256 ^ w) →
    vs.mapM (fun e => toBytesBE? w (g e)) = some (vs.map (fun e => natToBE w (g e)))
  | [], _ => by simp
  | v :: vs, h => by
    have hv := h v (by simp)
    have ih := mapM_toBytesBE_comp w g vs (fun x hx => h x (by simp [hx]))
    simp [List.mapM_cons, toBytesBE_of_lt _ _ hv, ih]

theorem wf_append {a b : Bytes} (ha : Bytes.WF a) (hb : Bytes.WF b) : Bytes.WF (a ++ b) := by
  intro x hx
  rcases List.mem_append.1 hx with h | h
  · exact ha x h
  · exact hb x h

theorem wf_cons {x : Nat} {b : Bytes} (hx : x < 256) (hb : Bytes.WF b) : Bytes.WF (x :: b) := by
  intro y hy
  rcases List.mem_cons.1 hy with h | h
  · subst h; exact hx
  · exact hb y h

theorem wf_flatten {xs : List Bytes} (h : ∀ x ∈ xs, Bytes.WF x) : Bytes.WF xs.flatten := by
  intro y hy
  obtain ⟨l, hl, hyl⟩ := List.mem_flatten.1 hy
  exact h l hl y hyl

theorem bytes_wf (size n : Nat) (a : ARec) (ok : a.OK n) : Bytes.WF (a.bytes size) := by
  unfold ARec.bytes
  refine wf_cons ok.d1_lt (wf_cons ok.d2_lt (wf_append ok.dataWF (wf_flatten ?_)))
  intro x hx
  obtain ⟨v, _, rfl⟩ := List.mem_map.1 hx
  exact natToBE_wf _ _

theorem payload_wf (size n : Nat) (as : List ARec) (ok : ∀ a ∈ as, a.OK n) : Bytes.WF (payloadOf size as) := by
  unfold payloadOf
  refine wf_flatten ?_
  intro x hx
  obtain ⟨a, ha, rfl⟩ := List.mem_map.1 hx
  exact bytes_wf size n a (ok a ha)

theorem index_wf (o : Opts) (off size : Nat) (as : List ARec) : Bytes.WF (indexOf o off size as) := by
  unfold indexOf
  split
  · refine wf_flatten ?_
    intro x hx
    obtain ⟨v, _, rfl⟩ := List.mem_map.1 hx
    exact natToBE_wf _ _
  · intro x hx; simp at hx

theorem flagByte_lt (o : Opts) (size : Nat) (h : size ≤ 4) : flagByte o size < 256 := by
  unfold flagByte b2n; cases o.hasIdx <;> cases o.hasCrc <;> cases o.hasCache <;> simp <;> omega

theorem body_wf (o : Opts) (as : List ARec) (hsz : sizeW as ≤ 4) (hoff : offOf o as ≤ 8) (ok : ∀ a ∈ as, a.OK as.length) :
    Bytes.WF (bodyOf o as) := by
  unfold bodyOf
  refine wf_append (by decide) (wf_cons (flagByte_lt o _ hsz) (wf_cons (by omega) ?_))
  refine wf_append (natToBE_wf _ _) (wf_append (natToBE_wf _ _) (wf_append (natToBE_wf _ _)
    (wf_append (natToBE_wf _ _) (wf_append (natToBE_wf _ _) (wf_append (index_wf _ _ _ _) (payload_wf _ _ _ ok))))))

theorem emit_eq (o : Opts) (as : List ARec) (hv : o.valid = true) (h1 : 1 ≤ as.length) (hn : as.length < 2 ^ 32)
    (hP : (payloadOf (sizeW as) as).length * 2 < 2 ^ 64) (ok : ∀ a ∈ as, a.OK as.length) :
    emit (as.map ARec.toRec) o = some (bodyOf o as ++ (if o.hasCrc then crc32cLE (bodyOf o as) else [])) := by
  have hsz1 : 1 ≤ sizeW as := byteWidth_pos _ h1
  have hsz4 : sizeW as ≤ 4 := byteWidth_le _ 4 (by simpa using hn)
  have hnlt : as.length < 256 ^ sizeW as := lt_pow_byteWidth _
  have hf : o.flags = 0 := by
    simp [Opts.valid] at hv; exact hv.2
  have hsers := mapM_ser (sizeW as) as.length (Nat.le_of_lt hnlt) as ok
  have hflag : toBytesBE? 1 ((b2n o.hasIdx * 128 + b2n o.hasCrc * 64 + b2n o.hasCache * 32 + o.flags * 8 + sizeW as) ||| sizeW as)
      = some [flagByte o (sizeW as)] := by
    rw [flags_or o _ hsz1 hsz4 hf]
    have : flagByte o (sizeW as) < 256 := by
      unfold flagByte b2n; cases o.hasIdx <;> cases o.hasCrc <;> cases o.hasCache <;> simp <;> omega
    simp [toBytesBE?, this, natToBE]
  have hPlen : (List.map (ARec.bytes (sizeW as)) as).flatten.length = (payloadOf (sizeW as) as).length := rfl
  have hoff8 : offOf o as ≤ 8 := by
    unfold offOf
    apply byteWidth_le
    split <;> omega
  have hPlt : (payloadOf (sizeW as) as).length < 256 ^ offOf o as := by
    unfold offOf
    split
    · exact Nat.lt_of_le_of_lt (by omega) (lt_pow_byteWidth _)
    · exact lt_pow_byteWidth _
  have hoffB : toBytesBE? 1 (offOf o as) = some [offOf o as] := by
    simp [toBytesBE?, natToBE]; omega
  have hidx : (if o.hasIdx = true then
      Option.map List.flatten (List.mapM (fun e => toBytesBE? (offOf o as) (if o.hasCache = true then e * 2 else e))
        (cumulative (List.map List.length (List.map (ARec.bytes (sizeW as)) as))))
      else some []) = some (indexOf o (offOf o as) (sizeW as) as) := by
    unfold indexOf lensOf
    by_cases hi : o.hasIdx = true
    · simp only [hi, if_true]
      rw [mapM_toBytesBE_comp]
      · simp [List.map_map, Function.comp_def]
      · intro v hv
        have hle := cumulativeFrom_le _ 0 v hv
        have hsum : (List.map List.length (List.map (ARec.bytes (sizeW as)) as)).sum = (payloadOf (sizeW as) as).length := by
          unfold payloadOf; simp [List.length_flatten]
        rw [hsum] at hle
        unfold offOf
        split
        · exact Nat.lt_of_le_of_lt (by omega) (lt_pow_byteWidth _)
        · exact Nat.lt_of_le_of_lt (by omega) (lt_pow_byteWidth _)
    · simp [hi]
  have hone : (1 : Nat) < 256 ^ sizeW as := Nat.one_lt_pow (by omega) (by decide)
  unfold emit
  simp only [List.length_map]
  rw [show byteWidth as.length = sizeW as from rfl]
  simp only [hflag, hsers, Option.bind_eq_bind, Option.bind_some, hPlen]
  rw [show byteWidth (if o.hasCache = true then (payloadOf (sizeW as) as).length * 2 else (payloadOf (sizeW as) as).length) = offOf o as from rfl]
  simp only [hoffB, Option.bind_some, toBytesBE_of_lt _ _ hnlt, toBytesBE_of_lt _ _ hone, toBytesBE_of_lt _ _ hPlt, hidx]
  have hbody : bocMagic ++ [flagByte o (sizeW as)] ++ [offOf o as] ++ natToBE (sizeW as) as.length ++ natToBE (sizeW as) 1 ++
      List.replicate (sizeW as) 0 ++ natToBE (offOf o as) (List.length (payloadOf (sizeW as) as)) ++
      List.replicate (sizeW as) 0 ++ indexOf o (offOf o as) (sizeW as) as ++ (List.map (ARec.bytes (sizeW as)) as).flatten
      = bodyOf o as := by
    unfold bodyOf
    rw [natToBE_zero]
    simp [payloadOf, List.append_assoc]
  rw [hbody]
  by_cases hc : o.hasCrc = true
  · have := Properties.C18.c18_crc32c (bodyOf o as) (body_wf o as hsz4 hoff8 ok) false
    simp only [hc, if_true, this]
    simp [crc32cLE]
  · simp [hc]

/-! ### the strict reader on the emitted bytes -/

theorem flag_decode (o : Opts) (size : Nat) (h4 : size ≤ 4) :
    (flagByte o size / 128 % 2 == 1) = o.hasIdx ∧ (flagByte o size / 64 % 2 == 1) = o.hasCrc ∧
    (flagByte o size / 32 % 2 == 1) = o.hasCache ∧ flagByte o size % 8 = size ∧ flagByte o size / 8 % 4 = 0 := by
  unfold flagByte b2n
  cases o.hasIdx <;> cases o.hasCrc <;> cases o.hasCache <;> simp <;> omega

/-- the header the strict reader must see -/
def headerOf (o : Opts) (as : List ARec) : Header :=
  ⟨o.hasIdx, o.hasCrc, o.hasCache, sizeW as, offOf o as, as.length, (payloadOf (sizeW as) as).length, [0]⟩

theorem readHeader_body (o : Opts) (as : List ARec) (hv : o.valid = true) (h1 : 1 ≤ as.length) (hn : as.length < 2 ^ 32)
    (hP : (payloadOf (sizeW as) as).length * 2 < 2 ^ 64) (tail : Bytes) :
    readHeader (bodyOf o as ++ tail) =
      some (headerOf o as, indexOf o (offOf o as) (sizeW as) as ++ (payloadOf (sizeW as) as ++ tail)) := by
  have hsz1 : 1 ≤ sizeW as := byteWidth_pos _ h1
  have hsz4 : sizeW as ≤ 4 := byteWidth_le _ 4 (by simpa using hn)
  have hnlt : as.length < 256 ^ sizeW as := lt_pow_byteWidth _
  have hone : (1 : Nat) < 256 ^ sizeW as := Nat.one_lt_pow (by omega) (by decide)
  have hzero : (0 : Nat) < 256 ^ sizeW as := by omega
  have hoff8 : offOf o as ≤ 8 := by
    unfold offOf
    apply byteWidth_le
    split <;> omega
  have hoff1 : 1 ≤ offOf o as := by
    unfold offOf
    apply byteWidth_pos
    have : 2 ≤ (payloadOf (sizeW as) as).length := by
      match as, h1 with
      | a :: rest, _ => simp [payloadOf, ARec.bytes]
    split <;> omega
  have hPlt : (payloadOf (sizeW as) as).length < 256 ^ offOf o as := by
    unfold offOf
    split
    · exact Nat.lt_of_le_of_lt (by omega) (lt_pow_byteWidth _)
    · exact lt_pow_byteWidth _
  obtain ⟨f1, f2, f3, f4, f5⟩ := flag_decode o (sizeW as) hsz4
  have hci : (o.hasCache && !o.hasIdx) = false := by
    simp [Opts.valid] at hv
    cases hc : o.hasCache <;> cases hi : o.hasIdx <;> simp_all
  unfold readHeader bodyOf
  simp only [List.append_assoc, takeN_append bocMagic _ 4 rfl, Option.bind_eq_bind, Option.bind_some, List.cons_append,
    uintBE_one, f1, f2, f3, f4, f5, uintBE_natToBE _ _ _ hnlt, uintBE_natToBE _ _ _ hone, uintBE_natToBE _ _ _ hzero,
    uintBE_natToBE _ _ _ hPlt, hci]
  have hroots : uintsBE 1 (sizeW as) (natToBE (sizeW as) 0 ++
      (indexOf o (offOf o as) (sizeW as) as ++ (payloadOf (sizeW as) as ++ tail))) =
      some ([0], indexOf o (offOf o as) (sizeW as) as ++ (payloadOf (sizeW as) as ++ tail)) := by
    simp [uintsBE, uintBE_natToBE _ _ _ hzero]
  have hm : (bocMagic != [181, 238, 156, 114]) = false := by decide
  have hs : (decide (sizeW as < 1) || decide (sizeW as > 4)) = false := by simp; omega
  have ho : (decide (offOf o as < 1) || decide (offOf o as > 8)) = false := by simp; omega
  have hr : (decide (1 < 1) || (0 != 0) || decide (1 > as.length)) = false := by
    have : ¬ (1 > as.length) := by omega
    simp [this]
  simp only [hroots, hm, hs, ho, hr, Option.bind_some]
  have hpos : 0 < as.length := by omega
  simp [headerOf, hpos]


theorem cumulativeFrom_length : ∀ (lens : List Nat) (acc : Nat), (cumulativeFrom acc lens).length = lens.length
  | [], _ => rfl
  | l :: ls, acc => by simp [cumulativeFrom, cumulativeFrom_length ls]

/-- references strictly forward (the `ValidOrder` clause on flat records) -/
def Forward (as : List ARec) : Prop := ∀ (i : Nat) (a : ARec), as[i]? = some a → ∀ j ∈ a.refs, i < j

theorem refsForward_of (as : List ARec) (ok : ∀ a ∈ as, a.OK as.length) (fw : Forward as) :
    refsForward (as.map ARec.toSRec) = true := by
  unfold refsForward refsForwardN
  rw [List.all_eq_true]
  intro ⟨r, i⟩ hri
  rw [List.mem_zipIdx_iff_getElem?] at hri
  simp only [List.getElem?_map, Option.map_eq_some_iff] at hri
  obtain ⟨a, ha, rfl⟩ := hri
  rw [List.all_eq_true]
  intro j hj
  have hmem : a ∈ as := List.mem_of_getElem? ha
  have h1 := fw i a ha j hj
  have h2 := (ok a hmem).refs_lt j hj
  simp [h1, h2]

theorem index_entry_lt (o : Opts) (as : List ARec) :
    ∀ v ∈ cumulative (lensOf (sizeW as) as), (if o.hasCache = true then v * 2 else v) < 256 ^ offOf o as := by
  intro v hv
  have hle := cumulativeFrom_le _ 0 v hv
  have hsum : (lensOf (sizeW as) as).sum = (payloadOf (sizeW as) as).length := by
    unfold payloadOf lensOf; simp [List.length_flatten, List.map_map, Function.comp_def]
  rw [hsum] at hle
  unfold offOf
  split
  · exact Nat.lt_of_le_of_lt (by omega) (lt_pow_byteWidth _)
  · exact Nat.lt_of_le_of_lt (by omega) (lt_pow_byteWidth _)

theorem crc32cLE_length (b : Bytes) : (crc32cLE b).length = 4 := by
  simp [crc32cLE, Spec.le32]

def tailOf (o : Opts) (as : List ARec) : Bytes := if o.hasCrc then crc32cLE (bodyOf o as) else []

theorem tail_ok (o : Opts) (as : List ARec) :
    (if o.hasCrc = true then (tailOf o as).length == 4 &&
        tailOf o as == crc32cLE ((bodyOf o as ++ tailOf o as).take ((bodyOf o as ++ tailOf o as).length - 4))
      else (tailOf o as).isEmpty) = true := by
  unfold tailOf
  by_cases hc : o.hasCrc = true
  · simp only [hc, if_true, List.length_append, crc32cLE_length, Nat.add_sub_cancel, List.take_left']
    simp
  · simp [hc]

theorem unscale (c : Bool) (xs : List Nat) :
    List.map ((fun e => if c = true then e / 2 else e) ∘ fun e => if c = true then e * 2 else e) xs = xs := by
  cases c <;> simp [Function.comp_def]

theorem readBody_emit (o : Opts) (as : List ARec) (ok : ∀ a ∈ as, a.OK as.length) (fw : Forward as) :
    readBody (headerOf o as) (bodyOf o as ++ tailOf o as)
      (indexOf o (offOf o as) (sizeW as) as ++ (payloadOf (sizeW as) as ++ tailOf o as)) =
      some ⟨as.map ARec.toSRec, [0]⟩ := by
  have hnlt : as.length ≤ 256 ^ sizeW as := Nat.le_of_lt (lt_pow_byteWidth _)
  have hcells := readCells_payload (sizeW as) as.length hnlt as ok
  have hidx : uintsBE as.length (offOf o as)
        (((cumulative (lensOf (sizeW as) as)).map (fun e => natToBE (offOf o as) (if o.hasCache = true then e * 2 else e))).flatten
          ++ (payloadOf (sizeW as) as ++ tailOf o as)) =
      some ((cumulative (lensOf (sizeW as) as)).map (fun e => if o.hasCache = true then e * 2 else e),
        payloadOf (sizeW as) as ++ tailOf o as) := by
    have := uintsBE_flatten (offOf o as) ((cumulative (lensOf (sizeW as) as)).map (fun e => if o.hasCache = true then e * 2 else e))
      (payloadOf (sizeW as) as ++ tailOf o as) (by
        intro v hv
        obtain ⟨e, he, rfl⟩ := List.mem_map.1 hv
        exact index_entry_lt o as e he)
    simp only [List.length_map, cumulative, cumulativeFrom_length, lensOf, List.map_map] at this
    simpa [cumulative, lensOf, Function.comp_def] using this
  have hfst : List.map ((fun x => x.fst) ∘ fun a => (ARec.toSRec a, List.length (ARec.bytes (sizeW as) a))) as = as.map ARec.toSRec := by
    simp [Function.comp_def]
  have hsnd : List.map ((fun x => x.snd) ∘ fun a => (ARec.toSRec a, List.length (ARec.bytes (sizeW as) a))) as = lensOf (sizeW as) as := by
    simp [Function.comp_def, lensOf]
  have hend : endOffsets (lensOf (sizeW as) as) = cumulative (lensOf (sizeW as) as) := endOffsetsFrom_eq _ 0
  have hfw := refsForward_of as ok fw
  unfold readBody indexOf
  by_cases hi : o.hasIdx = true
  · simp only [headerOf, hi, if_true, Option.bind_eq_bind, hidx, Option.bind_some, takeN_append _ _ _ rfl]
    rw [show readCells as.length (sizeW as) (payloadOf (sizeW as) as) = _ from hcells]
    simp only [Option.bind_some, List.map_map, unscale, tail_ok, hfst, hsnd, hend, hfw]
    simp
  · simp only [headerOf, hi, Option.bind_eq_bind, Option.bind_some, takeN_append _ _ _ rfl, List.nil_append, Bool.false_eq_true, ↓reduceIte]
    rw [show readCells as.length (sizeW as) (payloadOf (sizeW as) as) = _ from hcells]
    simp only [Option.bind_some, List.map_map, tail_ok, hfst, hfw]
    simp


/-- MAIN BYTE-LEVEL THEOREM: for every list of well-formed records with strictly forward references and every valid
option set, `emit` succeeds and the byte-level strict reader recovers exactly the records and the root list `[0]`. -/
theorem strictFlat_emit (o : Opts) (as : List ARec) (hv : o.valid = true) (h1 : 1 ≤ as.length) (hn : as.length < 2 ^ 32)
    (hP : (payloadOf (sizeW as) as).length * 2 < 2 ^ 64) (ok : ∀ a ∈ as, a.OK as.length) (fw : Forward as) :
    ∃ bs, emit (as.map ARec.toRec) o = some bs ∧ bs = bodyOf o as ++ tailOf o as ∧
      strictFlat bs = some ⟨as.map ARec.toSRec, [0]⟩ := by
  refine ⟨_, emit_eq o as hv h1 hn hP ok, rfl, ?_⟩
  unfold strictFlat
  rw [show (if o.hasCrc = true then crc32cLE (bodyOf o as) else []) = tailOf o as from rfl]
  simp only [readHeader_body o as hv h1 hn hP, Option.bind_eq_bind, Option.bind_some]
  exact readBody_emit o as ok fw

theorem cumulativeFrom_last : ∀ (lens : List Nat) (acc : Nat), lens ≠ [] →
    (cumulativeFrom acc lens).getLast? = some (acc + lens.sum)
  | [], _, h => absurd rfl h
  | [l], acc, _ => by simp [cumulativeFrom]
  | l :: l' :: ls, acc, _ => by
    have := cumulativeFrom_last (l' :: ls) (acc + l) (by simp)
    rw [cumulativeFrom]
    rw [show cumulativeFrom (acc + l) (l' :: ls) = (acc + l + l') :: cumulativeFrom (acc + l + l') ls from rfl] at this ⊢
    rw [List.getLast?_cons_cons, this]
    simp [Nat.add_assoc]

theorem crc32cLE_wf (b : Bytes) : Bytes.WF (crc32cLE b) := by
  intro x hx
  simp only [crc32cLE, List.mem_map] at hx
  obtain ⟨v, _, rfl⟩ := hx
  exact v.isLt

/-- everything after the 4 magic bytes of an emitted serialisation is a well-formed byte string -/
theorem emitted_wf (o : Opts) (as : List ARec) (_h1 : 1 ≤ as.length) (hn : as.length < 2 ^ 32)
    (hP : (payloadOf (sizeW as) as).length * 2 < 2 ^ 64) (ok : ∀ a ∈ as, a.OK as.length) :
    Bytes.WF ((flagByte o (sizeW as) :: offOf o as :: (natToBE (sizeW as) as.length ++ (natToBE (sizeW as) 1 ++
      (natToBE (sizeW as) 0 ++ (natToBE (offOf o as) (payloadOf (sizeW as) as).length ++ (natToBE (sizeW as) 0 ++
        (indexOf o (offOf o as) (sizeW as) as ++ payloadOf (sizeW as) as))))))) ++
      (if o.hasCrc then crc32cLE (bodyOf o as) else [])) := by
  have hsz4 : sizeW as ≤ 4 := byteWidth_le _ 4 (by simpa using hn)
  have hoff8 : offOf o as ≤ 8 := by
    unfold offOf
    apply byteWidth_le
    split <;> omega
  have hb := body_wf o as hsz4 hoff8 ok
  refine wf_append ?_ ?_
  · intro x hx
    exact hb x (by unfold bodyOf; exact List.mem_append_right _ hx)
  · split
    · exact crc32cLE_wf _
    · intro x hx; simp at hx

/-- the last index entry is the total cell-data size -/
theorem cumulative_last (size : Nat) (as : List ARec) (h1 : 1 ≤ as.length) :
    (cumulative (lensOf size as)).getLast? = some (payloadOf size as).length := by
  have hne : lensOf size as ≠ [] := by
    match as, h1 with
    | a :: rest, _ => simp [lensOf]
  rw [cumulative, cumulativeFrom_last _ 0 hne]
  simp [payloadOf, lensOf, List.length_flatten, List.map_map, Function.comp_def]

/-! ### data bytes of a cell: completion tag round trip -/

theorem natToBits_length : ∀ (w v : Nat), (natToBits w v).length = w
  | 0, _ => rfl
  | w + 1, v => by simp [natToBits, natToBits_length w]

theorem chunk8_bits : ∀ a b c d e f g h : Bool,
    natToBits 8 (natOfBits [a, b, c, d, e, f, g, h]) = [a, b, c, d, e, f, g, h] ∧ natOfBits [a, b, c, d, e, f, g, h] < 256 := by
  decide

theorem chunk8 (c : Bits) (hc : c.length = 8) : natToBits 8 (natOfBits c) = c ∧ natOfBits c < 256 := by
  match c, hc with
  | [a, b, c, d, e, f, g, h], _ => exact chunk8_bits a b c d e f g h

/-- on bit strings whose length is a multiple of 8, `tobytes` is inverted by `frombytes` -/
theorem bitsToBytes_aligned : ∀ (n : Nat) (xs : Bits), xs.length = 8 * n →
    bytesToBits (bitsToBytes xs) = xs ∧ (bitsToBytes xs).length = n ∧ Bytes.WF (bitsToBytes xs)
  | 0, xs, h => by
    have : xs = [] := List.eq_nil_of_length_eq_zero (by omega)
    subst this
    simp [bitsToBytes, bytesToBits, Bytes.WF]
  | n + 1, xs, h => by
    match xs, h with
    | b0 :: rest, h =>
      have hlen : ((b0 :: rest).take 8).length = 8 := by simp at h ⊢; omega
      have hd : ((b0 :: rest).drop 8).length = 8 * n := by simp at h ⊢; omega
      obtain ⟨ih1, ih2, ih3⟩ := bitsToBytes_aligned n _ hd
      obtain ⟨c1, c2⟩ := chunk8 _ hlen
      rw [bitsToBytes]
      simp only [hlen, Nat.sub_self, List.replicate_zero, List.append_nil]
      refine ⟨?_, by simpa using ih2, wf_cons c2 ih3⟩
      simp only [bytesToBits, List.flatMap_cons, byteToBits, c1]
      rw [show List.flatMap byteToBits (bitsToBytes (List.drop 8 (b0 :: rest))) = bytesToBits (bitsToBytes (List.drop 8 (b0 :: rest))) from rfl, ih1]
      exact List.take_append_drop 8 (b0 :: rest)

theorem stripTag_pad (bits : Bits) (k : Nat) : stripTag (bits ++ [true] ++ List.replicate k false) = bits := by
  unfold stripTag
  simp only [List.reverse_append, List.reverse_replicate, List.reverse_cons, List.append_assoc, List.singleton_append]
  have : ∀ k (l : Bits), List.dropWhile (fun b => !b) (List.replicate k false ++ l) = List.dropWhile (fun b => !b) l := by
    intro k l
    induction k with
    | zero => simp
    | succ k ih => simp [List.replicate_succ, ih]
  rw [this]
  simp


theorem low7_zero : ∀ last, last < 256 → last % 128 = 0 → (natToBits 8 last).reverse.take 7 = List.replicate 7 false := by
  decide +kernel

theorem padBits_length (bits : Bits) : (Spec.padBits bits).length = 8 * ((bits.length + 7) / 8) := by
  unfold Spec.padBits
  split
  · omega
  · simp; omega

/-- second descriptor byte -/
def cellD2 (len : Nat) : Nat := (len / 8) * 2 + (if len % 8 != 0 then 1 else 0)

/-- the data bytes of a cell, as the strict reader needs them: right length, byte-valued, completion tag present and
not overlong, and decoding them gives back the data bits -/
theorem data_ok (bits : Bits) :
    (dataBytes bits).length = cellD2 bits.length / 2 + cellD2 bits.length % 2 ∧ Bytes.WF (dataBytes bits) ∧
    (cellD2 bits.length % 2 = 1 → ∃ last, (dataBytes bits).getLast? = some last ∧ last % 128 ≠ 0) ∧
    decodeBits (cellD2 bits.length) (dataBytes bits) = bits := by
  rw [CellSpec.dataBytes_eq]
  unfold Spec.dataBytes
  obtain ⟨hb, hl, hw⟩ := bitsToBytes_aligned _ _ (padBits_length bits)
  by_cases h8 : bits.length % 8 = 0
  · have hd2 : cellD2 bits.length = bits.length / 8 * 2 := by simp [cellD2, h8]
    have hpad : Spec.padBits bits = bits := by simp [Spec.padBits, h8]
    refine ⟨by rw [hl, hd2]; omega, hw, by rw [hd2]; omega, ?_⟩
    simp only [decodeBits, hd2, Nat.mul_mod_left]
    rw [hb, hpad]
    rfl
  · have hd2 : cellD2 bits.length = bits.length / 8 * 2 + 1 := by simp [cellD2, h8]
    have hpad : Spec.padBits bits = bits ++ [true] ++ List.replicate (7 - bits.length % 8) false := by simp [Spec.padBits, h8]
    refine ⟨by rw [hl, hd2]; omega, hw, ?_, ?_⟩
    · intro _
      have hne : bitsToBytes (Spec.padBits bits) ≠ [] := by
        intro h; rw [h] at hl; simp at hl; omega
      obtain ⟨last, hlast⟩ : ∃ last, (bitsToBytes (Spec.padBits bits)).getLast? = some last := by
        cases hq : (bitsToBytes (Spec.padBits bits)).getLast? with
        | none => exact absurd (List.getLast?_eq_none_iff.1 hq) hne
        | some v => exact ⟨v, rfl⟩
      refine ⟨last, hlast, ?_⟩
      intro hz
      obtain ⟨init, hinit⟩ : ∃ init, bitsToBytes (Spec.padBits bits) = init ++ [last] := by
        exact List.getLast?_eq_some_iff.1 hlast
      have hlt : last < 256 := hw last (by rw [hinit]; simp)
      have h7 := low7_zero last hlt hz
      have hb' := hb
      rw [hinit] at hb'
      simp only [bytesToBits, List.flatMap_append, List.flatMap_cons, List.flatMap_nil, List.append_nil, byteToBits] at hb'
      have hrev : (Spec.padBits bits).reverse.take 7 = List.replicate 7 false := by
        rw [← hb', List.reverse_append, List.take_append_of_le_length (by simp [natToBits_length]), h7]
      rw [hpad] at hrev
      have hk : 7 - bits.length % 8 < 7 := by omega
      generalize 7 - bits.length % 8 = K at hrev hk
      have h1 : (List.replicate 7 false)[K]? = some false := by rw [List.getElem?_replicate]; simp [hk]
      have h2 : (List.take 7 (List.reverse (bits ++ [true] ++ List.replicate K false)))[K]? = some true := by
        simp [hk]
      rw [hrev, h1] at h2
      cases h2
    · simp only [decodeBits, hd2]
      rw [show (bits.length / 8 * 2 + 1) % 2 = 1 by omega]
      simp only [beq_self_eq_true, if_true]
      rw [hb, hpad, stripTag_pad]

/-! ### semantic layer: the duplicate check -/

theorem noDup_fold (keys : List Nat) : ∀ (s : Std.HashSet Nat) (seen : List Nat) (ok : Bool),
    (∀ k, s.contains k = true ↔ k ∈ seen) →
    ((keys.foldl (fun (st : Std.HashSet Nat × Bool) k => (st.1.insert k, st.2 && !st.1.contains k)) (s, ok)).2 = true ↔
      (ok = true ∧ keys.Nodup ∧ ∀ k ∈ keys, k ∉ seen)) := by
  induction keys with
  | nil => intro s seen ok _; simp
  | cons k ks ih =>
    intro s seen ok hs
    simp only [List.foldl_cons]
    rw [ih (s.insert k) (k :: seen) (ok && !s.contains k) (by
      intro x
      rw [Std.HashSet.contains_insert, Bool.or_eq_true, hs x, List.mem_cons]
      constructor
      · rintro (h | h)
        · left; exact (by simpa using h : k = x).symm
        · right; exact h
      · rintro (h | h)
        · left; simpa using h.symm
        · right; exact h)]
    have hk := hs k
    rw [List.nodup_cons]
    constructor
    · rintro ⟨h0, h1, h2⟩
      simp only [Bool.and_eq_true, Bool.not_eq_true'] at h0
      have hks : k ∉ seen := by
        intro hmem
        have := hk.2 hmem
        rw [this] at h0; cases h0.2
      refine ⟨h0.1, ⟨fun h => (h2 k h) (by simp), h1⟩, ?_⟩
      intro x hx
      rcases List.mem_cons.1 hx with rfl | hx
      · exact hks
      · exact fun hm => (h2 x hx) (by simp [hm])
    · rintro ⟨h0, ⟨h1, h2⟩, h3⟩
      have hks : k ∉ seen := h3 k (by simp)
      have : s.contains k = false := by
        cases hc : s.contains k with
        | false => rfl
        | true => exact absurd (hk.1 hc) hks
      refine ⟨by simp [h0, this], h2, ?_⟩
      intro x hx
      rw [List.mem_cons, not_or]
      exact ⟨fun e => h1 (e ▸ hx), h3 x (by simp [hx])⟩

/-- the strict reader's duplicate check is exactly `List.Nodup` on the keys -/
theorem noDup_iff (keys : List Nat) : noDup keys = true ↔ keys.Nodup := by
  unfold noDup
  rw [noDup_fold keys ∅ [] true (by intro k; simp)]
  simp

end TonVerif.Proofs.BocEmit
