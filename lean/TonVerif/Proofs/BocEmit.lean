/-
Helper lemmas for C04/C03: byte-level facts about the emitter model (Model/BocEmit.lean) and the
strict reader (Spec/Boc.lean).
-/
import TonVerif.Model.BocEmit
import TonVerif.Spec.Boc
import TonVerif.Proofs.CellSpec

namespace TonVerif.Proofs.BocEmit
open TonVerif TonVerif.Model

/-! ### widths -/

theorem pow256 (w : Nat) : 256 ^ w = 2 ^ (8 * w) := by
  rw [show (256 : Nat) = 2 ^ 8 from rfl, ← Nat.pow_mul]

/-- the byte width `(n.bit_length() + 7) // 8` holds `n` -/
theorem lt_pow_byteWidth (n : Nat) : n < 256 ^ byteWidth n := by
  have h := CellSpec.lt_two_pow_bitLength n
  rw [pow256]
  refine Nat.lt_of_lt_of_le h (Nat.pow_le_pow_right (by decide) ?_)
  unfold byteWidth; omega

end TonVerif.Proofs.BocEmit
