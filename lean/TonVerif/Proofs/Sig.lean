/-
Helper lemmas for C12: the two loops of `check_block_signatures` in closed form.
-/
import TonVerif.Model.Sig

namespace TonVerif.Proofs.Sig
open TonVerif TonVerif.Model.Sig

/-! ## declarative vocabulary used by the property statements -/

/-- the validator a node id denotes in `nodes`: the LAST entry whose id (= `H(magic ++ key)`) equals it
(`node_map[id] = node` overwrites). -/
def validatorOf (H : Bytes → Bytes) (nodes : List Validator) (id : Bytes) : Option Validator :=
  nodes.reverse.find? (fun v => id == nodeIdShort H v.key)

/-- `Σ_{v ∈ nodes} v.weight` — every list entry counts, also entries shadowed in the map. -/
def totalWeight (nodes : List Validator) : Nat := (nodes.map (·.weight)).sum

/-- weight credited for a signature with this id (0 if the id is unknown). -/
def weightOf (H : Bytes → Bytes) (nodes : List Validator) (id : Bytes) : Nat :=
  ((validatorOf H nodes id).map (·.weight)).getD 0

/-- `Σ_{s ∈ sigs} weight(validatorOf s.id)`. -/
def signedWeight (H : Bytes → Bytes) (nodes : List Validator) (sigs : List SigEntry) : Nat :=
  (sigs.map (fun s => weightOf H nodes s.nodeId)).sum

/-- the signature entry names a validator of the set and verifies under that validator's key. -/
def GoodSig (H : Bytes → Bytes) (verify : Bytes → Bytes → Bytes → Bool) (nodes : List Validator)
    (blk : Blk) (s : SigEntry) : Prop :=
  ∃ v, validatorOf H nodes s.nodeId = some v ∧ verify v.key (toSign blk) s.signature = true

/-! ## first loop -/

def mapOf (H : Bytes → Bytes) (nodes : List Validator) : NodeMap :=
  (nodes.map (fun v => (nodeIdShort H v.key, v))).reverse

theorem buildNodes_fold (H : Bytes → Bytes) (nodes : List Validator) (t : Nat) (m : NodeMap) :
    nodes.foldl (nodeStep H) (t, m) = (t + totalWeight nodes, mapOf H nodes ++ m) := by
  induction nodes generalizing t m with
  | nil => simp [totalWeight, mapOf]
  | cons v vs ih =>
    simp only [List.foldl_cons, nodeStep, ih]
    simp [totalWeight, mapOf, Nat.add_assoc]

theorem buildNodes_eq (H : Bytes → Bytes) (nodes : List Validator) :
    buildNodes H nodes = (totalWeight nodes, mapOf H nodes) := by
  simp [buildNodes, buildNodes_fold]

theorem lookup_map_key {α : Type} (f : α → Bytes) (l : List α) (k : Bytes) :
    List.lookup k (l.map (fun v => (f v, v))) = l.find? (fun v => k == f v) := by
  induction l with
  | nil => simp
  | cons a as ih =>
    simp only [List.map_cons, List.lookup_cons, List.find?_cons, ih]

theorem lookup_mapOf (H : Bytes → Bytes) (nodes : List Validator) (id : Bytes) :
    (mapOf H nodes).lookup id = validatorOf H nodes id := by
  unfold mapOf validatorOf
  rw [← List.map_reverse, lookup_map_key]

theorem inj_of_nodup_map {α β : Type} (f : α → β) (l : List α) (h : (l.map f).Nodup)
    {a b : α} (ha : a ∈ l) (hb : b ∈ l) (e : f a = f b) : a = b := by
  induction l with
  | nil => cases ha
  | cons x xs ih =>
    simp only [List.map_cons, List.nodup_cons, List.mem_map, not_exists, not_and] at h
    simp only [List.mem_cons] at ha hb
    rcases ha with rfl | ha <;> rcases hb with rfl | hb
    · rfl
    · exact absurd e.symm (h.1 b hb)
    · exact absurd e (h.1 a ha)
    · exact ih h.2 ha hb

/-- sum of `w` over the entries whose id lies in `S`. -/
def sumWhere {α β : Type} [DecidableEq β] (f : α → β) (w : α → Nat) (S : List β) (l : List α) : Nat :=
  ((l.filter (fun a => decide (f a ∈ S))).map w).sum

theorem sumWhere_not_mem {α β : Type} [DecidableEq β] (f : α → β) (w : α → Nat) (S : List β) (i : β)
    (l : List α) (h : ∀ a ∈ l, f a ≠ i) : sumWhere f w (i :: S) l = sumWhere f w S l := by
  unfold sumWhere
  congr 2
  apply List.filter_congr
  intro a ha
  have := h a ha
  simp [this]

/-- adding the id of one entry `v` (ids pairwise distinct, id not yet in `S`) adds exactly `w v`. -/
theorem sumWhere_cons {α β : Type} [DecidableEq β] (f : α → β) (w : α → Nat) (S : List β) (l : List α)
    (hd : (l.map f).Nodup) (v : α) (hv : v ∈ l) (hS : f v ∉ S) :
    sumWhere f w (f v :: S) l = w v + sumWhere f w S l := by
  induction l with
  | nil => cases hv
  | cons x xs ih =>
    simp only [List.map_cons, List.nodup_cons, List.mem_map, not_exists, not_and] at hd
    by_cases hx : f x = f v
    · -- x is the entry with v's id; nobody in xs has it
      have hxs : ∀ a ∈ xs, f a ≠ f v := fun a ha e => hd.1 a ha (e.trans hx.symm)
      have hvx : v = x := by
        rcases List.mem_cons.1 hv with h | h
        · exact h
        · exact absurd rfl (hxs v h)
      subst hvx
      have h1 := sumWhere_not_mem f w S (f v) xs hxs
      unfold sumWhere at h1 ⊢
      simp only [List.filter_cons, List.mem_cons, true_or, decide_true, if_true, hS, decide_false,
        Bool.false_eq_true, if_false, List.map_cons, List.sum_cons]
      simp only [List.mem_cons] at h1
      rw [h1]
    · have hv' : v ∈ xs := by
        rcases List.mem_cons.1 hv with h | h
        · exact absurd (by rw [h]) hx
        · exact h
      have ih' := ih hd.2 hv'
      unfold sumWhere at ih' ⊢
      by_cases hxS : f x ∈ S
      · simp only [List.filter_cons, List.mem_cons, hx, hxS, or_true, decide_true, if_true,
          List.map_cons, List.sum_cons]
        simp only [List.mem_cons] at ih'
        rw [ih']; omega
      · simp only [List.filter_cons, List.mem_cons, hx, hxS, or_self, decide_false,
          Bool.false_eq_true, if_false]
        simp only [List.mem_cons] at ih'
        exact ih'

/-! ## second loop -/

theorem fold_none (verify : Bytes → Bytes → Bytes → Bool) (map : NodeMap) (msg : Bytes)
    (sigs : List SigEntry) : sigs.foldl (sigStep verify map msg) none = none := by
  induction sigs with
  | nil => rfl
  | cons s ss ih => simpa [sigStep] using ih

/-- closed form of the second loop from any state. -/
theorem fold_some (verify : Bytes → Bytes → Bytes → Bool) (map : NodeMap) (msg : Bytes)
    (sigs : List SigEntry) (seen : List Bytes) (signed : Nat) (r : List Bytes × Nat) :
    sigs.foldl (sigStep verify map msg) (some (seen, signed)) = some r ↔
      (∀ s ∈ sigs, ∃ v, map.lookup s.nodeId = some v ∧ verify v.key msg s.signature = true) ∧
      (sigs.map (·.nodeId)).Nodup ∧ (∀ s ∈ sigs, s.nodeId ∉ seen) ∧
      r = ((sigs.map (·.nodeId)).reverse ++ seen,
           signed + (sigs.map (fun s => ((map.lookup s.nodeId).map (·.weight)).getD 0)).sum) := by
  induction sigs generalizing seen signed with
  | nil =>
    simp only [List.foldl_nil, Option.some.injEq, List.map_nil, List.reverse_nil, List.nil_append,
      List.sum_nil, Nat.add_zero, List.not_mem_nil, false_imp_iff, implies_true, List.nodup_nil,
      true_and]
    exact eq_comm
  | cons s ss ih =>
    simp only [List.foldl_cons]
    cases hl : map.lookup s.nodeId with
    | none =>
      simp only [sigStep, hl, fold_none]
      constructor
      · intro h; cases h
      · rintro ⟨h, _⟩
        obtain ⟨v, hv, _⟩ := h s (List.mem_cons_self ..)
        rw [hl] at hv; cases hv
    | some node =>
      by_cases hseen : s.nodeId ∈ seen
      · simp only [sigStep, hl, hseen, if_true, fold_none]
        constructor
        · intro h; cases h
        · rintro ⟨_, _, h, _⟩
          exact absurd hseen (h s (List.mem_cons_self ..))
      · by_cases hv : verify node.key msg s.signature = true
        · simp only [sigStep, hl, hseen, if_false, hv, if_true]
          rw [ih]
          simp only [List.mem_cons, forall_eq_or_imp, List.map_cons, List.nodup_cons,
            List.reverse_cons, List.append_assoc, List.singleton_append, List.sum_cons,
            Option.map_some, Option.getD_some, hl, Option.some.injEq, exists_eq_left', hv,
            true_and, List.mem_map, not_exists, not_and, Nat.add_assoc]
          constructor
          · rintro ⟨h1, h2, h3, h4⟩
            refine ⟨h1, ⟨fun x hx heq => h3 x hx (Or.inl heq), h2⟩,
              ⟨hseen, fun x hx hm => h3 x hx (Or.inr hm)⟩, h4⟩
          · rintro ⟨h1, ⟨h2a, h2⟩, ⟨_, h3⟩, h4⟩
            exact ⟨h1, h2, fun x hx h => h.elim (h2a x hx) (h3 x hx), h4⟩
        · have hv0 : verify node.key msg s.signature = false := by simpa using hv
          simp only [sigStep, hl, hseen, if_false, hv0, Bool.false_eq_true, fold_none]
          constructor
          · intro h; cases h
          · rintro ⟨h, _⟩
            obtain ⟨v, hv', hv''⟩ := h s (List.mem_cons_self ..)
            rw [hl] at hv'; cases hv'
            exact absurd hv'' hv

end TonVerif.Proofs.Sig
