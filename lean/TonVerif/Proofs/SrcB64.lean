/-
Helper for the round-2 source theorems of C13 (`c13_src_model_b64`): base64 decoding (Model/Base64.lean) yields byte values,
so `decoded[0] < 256`.  Kept apart from Proofs/SrcArith2.lean because that file imports the builder model, whose `Model.Addr`
would clash with `Model.Address.Addr` in Properties/C13.lean.
-/
import TonVerif.Model.Base64

namespace TonVerif.Proofs.SrcB64
open TonVerif TonVerif.Model.Base64

theorem decVal_lt (c : Char) (v : Nat) (h : decVal? c = some v) : v < 64 := by
  unfold decVal? at h
  simp only at h
  repeat' split at h
  all_goals first | (cases h; omega) | (cases h)

theorem decGo_wf : ∀ (s : List Char) (quad left pads : Nat) (acc out : Bytes),
    Bytes.WF acc → quad ≤ 3 → (quad = 1 → left < 64) → (quad = 2 → left < 16) → (quad = 3 → left < 4) →
    decGo s quad left pads acc = some out → Bytes.WF out := by
  intro s
  induction s with
  | nil =>
    intro quad left pads acc out hacc _ _ _ _ h
    simp only [decGo] at h
    split at h
    · cases h; intro b hb; exact hacc b (by simpa using hb)
    · cases h
  | cons c rest ih =>
    intro quad left pads acc out hacc hq h1 h2 h3 h
    simp only [decGo] at h
    split at h
    · split at h
      · cases h; intro b hb; exact hacc b (by simpa using hb)
      · exact ih _ _ _ _ _ hacc hq h1 h2 h3 h
    · split at h
      · exact ih _ _ _ _ _ hacc hq h1 h2 h3 h
      · rename_i v hv
        have hv64 := decVal_lt c v hv
        split at h
        · exact ih _ _ _ _ _ hacc (by omega) (fun _ => hv64) (by omega) (by omega) h
        · split at h
          · refine ih _ _ _ _ _ ?_ (by omega) (by omega) (fun _ => by omega) (by omega) h
            intro b hb
            rcases List.mem_cons.mp hb with rfl | hb
            · have := h1 (by assumption); omega
            · exact hacc b hb
          · split at h
            · refine ih _ _ _ _ _ ?_ (by omega) (by omega) (by omega) (fun _ => by omega) h
              intro b hb
              rcases List.mem_cons.mp hb with rfl | hb
              · have := h2 (by assumption); omega
              · exact hacc b hb
            · refine ih _ _ _ _ _ ?_ (by omega) (by omega) (by omega) (by omega) h
              intro b hb
              rcases List.mem_cons.mp hb with rfl | hb
              · have := h3 (by omega); omega
              · exact hacc b hb

theorem decodeUrlsafe_wf (s : List Char) (out : Bytes) (h : decodeUrlsafe s = some out) : Bytes.WF out := by
  unfold decodeUrlsafe at h
  split at h
  · cases h
  · exact decGo_wf _ 0 0 0 [] out (by intro b hb; cases hb) (by omega) (by omega) (by omega) (by omega) h

end TonVerif.Proofs.SrcB64
