/-
The regenerated methods (Generated/BuilderOps.lean, Generated/SliceOps.lean) indexed like the hand model's typed values:
`srcStore? tv` = the regenerated `store_*` call of the typed value `tv`, `srcOp? op` adds `store_cell` / `store_slice`,
`srcLoad? k` / `srcPreload? k` = the regenerated `load_*` / `preload_*` call of kind `k` with its result wrapped as a `TVal`
(`none` = that method is not regenerated; it stays with the hand model + correspondence).  `srcStore_eq`, `srcOp_eq`, `srcLoad_eq`,
`srcPreload_eq`: each equals the hand model's operation for ALL arguments and states (Proofs/SrcBuilder.lean, SrcSlice.lean).
-/
import TonVerif.Proofs.SrcBuilder
import TonVerif.Proofs.SrcSlice
import TonVerif.Proofs.Typed

namespace TonVerif.Proofs.SrcTyped
open TonVerif TonVerif.Model TonVerif.Proofs.SrcBuilder TonVerif.Proofs.SrcSlice
variable {R : Type} {α β : Type}
set_option linter.unusedSimpArgs false

/-- the regenerated `store_*` method of a typed value -/
def srcStore? : TVal R → Option (Builder R → Builder R × Option Unit)
  | .uint n v => some (Generated.BuilderOps.store_uint v n)
  | .int n v => some (Generated.BuilderOps.store_int v n)
  | .varUint k v => some (Generated.BuilderOps.store_var_uint v k)
  | .varInt k v => some (Generated.BuilderOps.store_var_int v k)
  | .coins v => some (Generated.BuilderOps.store_coins v)
  | .bit b => some (Generated.BuilderOps.store_bool b)
  | .bits bs => some (Generated.BuilderOps.store_bits bs)
  | .bytes bs => some (Generated.BuilderOps.store_bytes bs)
  | .ref r => some (Generated.BuilderOps.store_ref r)
  | .maybeRef r => some (Generated.BuilderOps.store_maybe_ref r)
  | .dict r => some (Generated.BuilderOps.store_dict r)
  | .string bs => some (Generated.BuilderOps.store_string bs)
  | .addr .none => some (Generated.BuilderOps.store_address_none ())
  | .addr (.std any wc h) => some (Generated.BuilderOps.store_address_address ⟨wc, h, any.map fun (d, p) => ⟨d, p⟩⟩)
  | .addr (.ext _ _) => none

theorem srcStore_eq (tv : TVal R) (f : Builder R → Builder R × Option Unit) (h : srcStore? tv = some f) (b : Builder R) :
    f b = ofFlag (tv.store b) := by
  cases tv with
  | uint n v => simp only [srcStore?, Option.some.injEq] at h; subst h; exact src_store_uint_eq _ _ b
  | int n v => simp only [srcStore?, Option.some.injEq] at h; subst h; exact src_store_int_eq _ _ b
  | varUint k v => simp only [srcStore?, Option.some.injEq] at h; subst h; exact src_store_var_uint_eq _ _ b
  | varInt k v => simp only [srcStore?, Option.some.injEq] at h; subst h; exact src_store_var_int_eq _ _ b
  | coins v => simp only [srcStore?, Option.some.injEq] at h; subst h; exact src_store_coins_eq _ b
  | bit v => simp only [srcStore?, Option.some.injEq] at h; subst h; exact src_store_bool_eq _ b
  | bits bs => simp only [srcStore?, Option.some.injEq] at h; subst h; exact src_store_bits_eq _ b
  | bytes bs => simp only [srcStore?, Option.some.injEq] at h; subst h; exact src_store_bytes_eq _ b
  | string bs => simp only [srcStore?, Option.some.injEq] at h; subst h; exact src_store_string_eq _ b
  | ref r => simp only [srcStore?, Option.some.injEq] at h; subst h; exact src_store_ref_eq _ b
  | maybeRef r => simp only [srcStore?, Option.some.injEq] at h; subst h; exact src_store_maybe_ref_eq _ b
  | dict r => simp only [srcStore?, Option.some.injEq] at h; subst h; exact src_store_dict_eq _ b
  | addr a =>
    cases a with
    | none => simp only [srcStore?, Option.some.injEq] at h; subst h; exact src_store_address_none_eq _ b
    | ext l v => simp [srcStore?] at h
    | std any wc hp =>
      simp only [srcStore?, Option.some.injEq] at h; subst h
      have := src_store_address_std_eq ⟨wc, hp, any.map fun (d, p) => ⟨d, p⟩⟩ b
      rw [this]
      simp only [addrOf, TVal.store]
      cases any <;> rfl

/-- every builder operation of a history: typed stores, `store_cell(c)`, `store_slice(s)` (a fresh slice over the remaining
bits / references) -/
def srcOp? : Op R → Option (Builder R → Builder R × Option Unit)
  | .val tv => srcStore? tv
  | .cell bits refs => some (Generated.BuilderOps.store_cell ⟨bits, refs⟩)
  | .slice bits refs => some (Generated.BuilderOps.store_slice ⟨bits, refs, 0⟩)
  | .snake _ _ => none

theorem srcOp_eq (op : Op R) (f : Builder R → Builder R × Option Unit) (h : srcOp? op = some f) (b : Builder R) :
    f b = ofFlag (op.run b) := by
  cases op with
  | val tv => exact srcStore_eq tv f h b
  | cell bits refs =>
    simp only [srcOp?, Option.some.injEq] at h; subst h
    exact src_store_cell_eq ⟨bits, refs⟩ b
  | slice bits refs =>
    simp only [srcOp?, Option.some.injEq] at h; subst h
    have := src_store_slice_eq ⟨bits, refs, 0⟩ (Nat.zero_le _) b
    simpa [Op.run] using this
  | snake mk bs => simp [srcOp?] at h

/-- the result of a regenerated read with its value wrapped -/
def mapR {σ : Type} (f : α → β) (r : σ × Option α) : σ × Option β := (r.1, r.2.map f)

/-- the regenerated `load_*` method of a kind, its result as a typed value -/
def srcLoad? : Kind → Option (Py.SliceSt R → Py.SliceSt R × Option (TVal R))
  | .uint n => some fun s => mapR (fun (v : Nat) => TVal.uint n (v : Int)) (Generated.SliceOps.load_uint n s)
  | .int n => some fun s => mapR (TVal.int n) (Generated.SliceOps.load_int n s)
  | .varUint k => some fun s => mapR (fun (v : Nat) => TVal.varUint k (v : Int)) (Generated.SliceOps.load_var_uint k s)
  | .varInt k => some fun s => mapR (TVal.varInt k) (Generated.SliceOps.load_var_int k s)
  | .coins => some fun s => mapR (fun (v : Nat) => TVal.coins (v : Int)) (Generated.SliceOps.load_coins s)
  | .bit => some fun s => mapR TVal.bit (Generated.SliceOps.load_bool s)
  | .bits n => some fun s => mapR TVal.bits (Generated.SliceOps.load_bits n s)
  | .bytes n => some fun s => mapR TVal.bytes (Generated.SliceOps.load_bytes n s)
  | .ref => some fun s => mapR TVal.ref (Generated.SliceOps.load_ref s)
  | .maybeRef => some fun s => mapR TVal.maybeRef (Generated.SliceOps.load_maybe_ref s)
  | .string n => some fun s => mapR TVal.string (Generated.SliceOps.load_string n s)
  | .dict => some fun s => mapR TVal.dict (Generated.SliceOps.load_dict 0 () () s)
  | .addr => some fun s => mapR (fun a => TVal.addr (addrM a)) (Generated.SliceOps.load_address s)

/-- the regenerated `preload_*` method of a kind -/
def srcPreload? : Kind → Option (Py.SliceSt R → Py.SliceSt R × Option (TVal R))
  | .uint n => some fun s => mapR (fun (v : Nat) => TVal.uint n (v : Int)) (Generated.SliceOps.preload_uint n s)
  | .int n => some fun s => mapR (TVal.int n) (Generated.SliceOps.preload_int n s)
  | .varUint k => some fun s => mapR (fun (v : Nat) => TVal.varUint k (v : Int)) (Generated.SliceOps.preload_var_uint k s)
  | .varInt k => some fun s => mapR (TVal.varInt k) (Generated.SliceOps.preload_var_int k s)
  | .coins => some fun s => mapR (fun (v : Nat) => TVal.coins (v : Int)) (Generated.SliceOps.preload_coins s)
  | .bit => some fun s => mapR TVal.bit (Generated.SliceOps.preload_bool s)
  | .bits n => some fun s => mapR TVal.bits (Generated.SliceOps.preload_bits n s)
  | .bytes n => some fun s => mapR TVal.bytes (Generated.SliceOps.preload_bytes n s)
  | .maybeRef => some fun s => mapR TVal.maybeRef (Generated.SliceOps.preload_maybe_ref s)
  | .ref => some fun s => mapR TVal.ref (Generated.SliceOps.preload_ref 0 s)
  | .string n => some fun s => mapR TVal.string (Generated.SliceOps.preload_string n s)
  | .dict => some fun s => mapR TVal.dict (Generated.SliceOps.preload_dict 0 () () s)
  | .addr => some fun s => mapR (fun a => TVal.addr (addrM a)) (Generated.SliceOps.preload_address s)

theorem viewR_mapR (f : α → β) (g : β → TVal R) (r : Py.SliceSt R × Option α) (m : SOp R β) (s0 : Slice R)
    (h : viewR f r = m s0) : viewR id (mapR (fun a => g (f a)) r) = m.map g s0 := by
  rcases r with ⟨s, _ | a⟩ <;> simp only [SOp.map, ← h] <;> rfl

theorem srcLoad_eq (k : Kind) (g : Py.SliceSt R → Py.SliceSt R × Option (TVal R)) (h : srcLoad? k = some g) (s : Py.SliceSt R) :
    viewR id (g s) = k.load (view s) := by
  cases k <;> simp only [srcLoad?, Option.some.injEq, reduceCtorEq] at h <;> subst h <;> simp only [Kind.load]
  · exact viewR_mapR _ (TVal.uint _) _ _ _ (src_load_uint_eq _ s)
  · exact viewR_mapR id (TVal.int _) _ _ _ (src_load_int_eq _ s)
  · exact viewR_mapR _ (TVal.varUint _) _ _ _ (src_load_var_uint_eq _ s)
  · exact viewR_mapR id (TVal.varInt _) _ _ _ (src_load_var_int_eq _ s)
  · exact viewR_mapR _ TVal.coins _ _ _ (src_load_coins_eq s)
  · exact viewR_mapR id TVal.bit _ _ _ (src_load_bool_eq s)
  · exact viewR_mapR id TVal.bits _ _ _ (src_load_bits_eq _ s)
  · exact viewR_mapR id TVal.bytes _ _ _ (src_load_bytes_eq _ s)
  · exact viewR_mapR id TVal.string _ _ _ (src_load_string_eq _ s)
  · exact viewR_mapR id TVal.ref _ _ _ (src_load_ref_eq s)
  · exact viewR_mapR id TVal.maybeRef _ _ _ (src_load_maybe_ref_eq s)
  · exact viewR_mapR id TVal.dict _ _ _ (src_load_dict_eq _ _ _ s)
  · exact viewR_mapR addrM TVal.addr _ _ _ (src_load_address_eq s)

theorem srcPreload_eq (k : Kind) (g : Py.SliceSt R → Py.SliceSt R × Option (TVal R)) (h : srcPreload? k = some g) (s : Py.SliceSt R) :
    viewR id (g s) = k.preload (view s) := by
  cases k <;> simp only [srcPreload?, Option.some.injEq, reduceCtorEq] at h <;> subst h <;> simp only [Kind.preload]
  · exact viewR_mapR _ (TVal.uint _) _ _ _ (src_preload_uint_eq _ s)
  · exact viewR_mapR id (TVal.int _) _ _ _ (src_preload_int_eq _ s)
  · exact viewR_mapR _ (TVal.varUint _) _ _ _ (src_preload_var_uint_eq _ s)
  · exact viewR_mapR id (TVal.varInt _) _ _ _ (src_preload_var_int_eq _ s)
  · exact viewR_mapR _ TVal.coins _ _ _ (src_preload_coins_eq s)
  · exact viewR_mapR id TVal.bit _ _ _ (src_preload_bool_eq s)
  · exact viewR_mapR id TVal.bits _ _ _ (src_preload_bits_eq _ s)
  · exact viewR_mapR id TVal.bytes _ _ _ (src_preload_bytes_eq _ s)
  · exact viewR_mapR id TVal.string _ _ _ (src_preload_string_eq _ s)
  · exact viewR_mapR id TVal.ref _ _ _ (src_preload_ref_eq s)
  · exact viewR_mapR id TVal.maybeRef _ _ _ (src_preload_maybe_ref_eq s)
  · exact viewR_mapR id TVal.dict _ _ _ (src_preload_dict_eq _ _ _ s)
  · exact viewR_mapR addrM TVal.addr _ _ _ (src_preload_address_eq s)

end TonVerif.Proofs.SrcTyped
