/-
The regenerated methods (Generated/BuilderOps.lean, Generated/SliceOps.lean) indexed like the hand model's typed values:
`srcStore mk tv` = the regenerated `store_*` call of the typed value `tv` (`mk` = the cell constructor `end_cell` calls, used by
`ExternalAddress.to_cell()`), `srcOp? mk op` adds `store_cell` / `store_slice` (`none` for `store_snake_bytes`, which is not
regenerated), `srcLoad k` / `srcPreload k` = the regenerated `load_*` / `preload_*` call of kind `k` with its result wrapped as a
`TVal`.  `srcStore_eq`, `srcOp_eq`, `srcLoad_eq`, `srcPreload_eq`: each equals the hand model's operation for ALL arguments and
states (Proofs/SrcBuilder.lean, SrcSlice.lean).
-/
import TonVerif.Proofs.SrcBuilder
import TonVerif.Proofs.SrcSlice
import TonVerif.Proofs.Typed

namespace TonVerif.Proofs.SrcTyped
open TonVerif TonVerif.Model TonVerif.Proofs.SrcBuilder TonVerif.Proofs.SrcSlice
variable {R : Type} {α β : Type}
set_option linter.unusedSimpArgs false

/-- the regenerated `store_*` method of a typed value -/
def srcStore (mk : Bits → List R → Option (Py.CellV R)) : TVal R → Builder R → Builder R × Option Unit
  | .uint n v => Generated.BuilderOps.store_uint v n
  | .int n v => Generated.BuilderOps.store_int v n
  | .varUint k v => Generated.BuilderOps.store_var_uint v k
  | .varInt k v => Generated.BuilderOps.store_var_int v k
  | .coins v => Generated.BuilderOps.store_coins v
  | .bit b => Generated.BuilderOps.store_bool b
  | .bits bs => Generated.BuilderOps.store_bits bs
  | .bytes bs => Generated.BuilderOps.store_bytes bs
  | .ref r => Generated.BuilderOps.store_ref r
  | .maybeRef r => Generated.BuilderOps.store_maybe_ref r
  | .dict r => Generated.BuilderOps.store_dict r
  | .string bs => Generated.BuilderOps.store_string bs
  | .addr .none => Generated.BuilderOps.store_address_none ()
  | .addr (.std any wc h) => Generated.BuilderOps.store_address_address ⟨wc, h, any.map fun (d, p) => ⟨d, p⟩⟩
  | .addr (.ext l v) => Generated.BuilderOps.store_address_externaladdress mk ⟨v, l⟩

/-- what the cell constructor guarantees for a reference-free cell (depth 0): it is built and holds the given bits -/
def MkOk (mk : Bits → List R → Option (Py.CellV R)) : Prop := ∀ bits, mk bits [] = some ⟨bits, []⟩

theorem srcStore_eq (mk : Bits → List R → Option (Py.CellV R)) (hmk : MkOk mk) (tv : TVal R) (b : Builder R) :
    srcStore mk tv b = ofFlag (tv.store b) := by
  cases tv with
  | uint n v => exact src_store_uint_eq _ _ b
  | int n v => exact src_store_int_eq _ _ b
  | varUint k v => exact src_store_var_uint_eq _ _ b
  | varInt k v => exact src_store_var_int_eq _ _ b
  | coins v => exact src_store_coins_eq _ b
  | bit v => exact src_store_bool_eq _ b
  | bits bs => exact src_store_bits_eq _ b
  | bytes bs => exact src_store_bytes_eq _ b
  | string bs => exact src_store_string_eq _ b
  | ref r => exact src_store_ref_eq _ b
  | maybeRef r => exact src_store_maybe_ref_eq _ b
  | dict r => exact src_store_dict_eq _ b
  | addr a =>
    cases a with
    | none => exact src_store_address_none_eq () b
    | ext l v => exact src_store_address_ext_eq mk hmk ⟨v, l⟩ b
    | std any wc hp =>
      have := src_store_address_std_eq ⟨wc, hp, any.map fun (d, p) => ⟨d, p⟩⟩ b
      simp only [srcStore]
      rw [this]
      simp only [addrOf, TVal.store]
      cases any <;> rfl

/-- every builder operation of a history: typed stores, `store_cell(c)`, `store_slice(s)` (a fresh slice over the remaining
bits / references) -/
def srcOp? (mk : Bits → List R → Option (Py.CellV R)) : Op R → Option (Builder R → Builder R × Option Unit)
  | .val tv => some (srcStore mk tv)
  | .cell bits refs => some (Generated.BuilderOps.store_cell ⟨bits, refs⟩)
  | .slice bits refs => some (Generated.BuilderOps.store_slice ⟨bits, refs, 0⟩)
  | .snake _ _ => none

theorem srcOp_eq (mk : Bits → List R → Option (Py.CellV R)) (hmk : MkOk mk) (op : Op R) (f : Builder R → Builder R × Option Unit)
    (h : srcOp? mk op = some f) (b : Builder R) : f b = ofFlag (op.run b) := by
  cases op with
  | val tv =>
    simp only [srcOp?, Option.some.injEq] at h; subst h
    exact srcStore_eq mk hmk tv b
  | cell bits refs =>
    simp only [srcOp?, Option.some.injEq] at h; subst h
    exact src_store_cell_eq ⟨bits, refs⟩ b
  | slice bits refs =>
    simp only [srcOp?, Option.some.injEq] at h; subst h
    have := src_store_slice_eq ⟨bits, refs, 0⟩ (Nat.zero_le _) b
    simpa [Op.run] using this
  | snake mk' bs => simp [srcOp?] at h

/-- the result of a regenerated read with its value wrapped -/
def mapR {σ : Type} (f : α → β) (r : σ × Option α) : σ × Option β := (r.1, r.2.map f)

/-- the regenerated `load_*` method of a kind, its result as a typed value -/
def srcLoad : Kind → Py.SliceSt R → Py.SliceSt R × Option (TVal R)
  | .uint n => fun s => mapR (fun (v : Nat) => TVal.uint n (v : Int)) (Generated.SliceOps.load_uint n s)
  | .int n => fun s => mapR (TVal.int n) (Generated.SliceOps.load_int n s)
  | .varUint k => fun s => mapR (fun (v : Nat) => TVal.varUint k (v : Int)) (Generated.SliceOps.load_var_uint k s)
  | .varInt k => fun s => mapR (TVal.varInt k) (Generated.SliceOps.load_var_int k s)
  | .coins => fun s => mapR (fun (v : Nat) => TVal.coins (v : Int)) (Generated.SliceOps.load_coins s)
  | .bit => fun s => mapR TVal.bit (Generated.SliceOps.load_bool s)
  | .bits n => fun s => mapR TVal.bits (Generated.SliceOps.load_bits n s)
  | .bytes n => fun s => mapR TVal.bytes (Generated.SliceOps.load_bytes n s)
  | .ref => fun s => mapR TVal.ref (Generated.SliceOps.load_ref s)
  | .maybeRef => fun s => mapR TVal.maybeRef (Generated.SliceOps.load_maybe_ref s)
  | .string n => fun s => mapR TVal.string (Generated.SliceOps.load_string n s)
  | .dict => fun s => mapR TVal.dict (Generated.SliceOps.load_dict 0 () () s)
  | .addr => fun s => mapR (fun a => TVal.addr (addrM a)) (Generated.SliceOps.load_address s)

/-- the regenerated `preload_*` method of a kind -/
def srcPreload : Kind → Py.SliceSt R → Py.SliceSt R × Option (TVal R)
  | .uint n => fun s => mapR (fun (v : Nat) => TVal.uint n (v : Int)) (Generated.SliceOps.preload_uint n s)
  | .int n => fun s => mapR (TVal.int n) (Generated.SliceOps.preload_int n s)
  | .varUint k => fun s => mapR (fun (v : Nat) => TVal.varUint k (v : Int)) (Generated.SliceOps.preload_var_uint k s)
  | .varInt k => fun s => mapR (TVal.varInt k) (Generated.SliceOps.preload_var_int k s)
  | .coins => fun s => mapR (fun (v : Nat) => TVal.coins (v : Int)) (Generated.SliceOps.preload_coins s)
  | .bit => fun s => mapR TVal.bit (Generated.SliceOps.preload_bool s)
  | .bits n => fun s => mapR TVal.bits (Generated.SliceOps.preload_bits n s)
  | .bytes n => fun s => mapR TVal.bytes (Generated.SliceOps.preload_bytes n s)
  | .maybeRef => fun s => mapR TVal.maybeRef (Generated.SliceOps.preload_maybe_ref s)
  | .ref => fun s => mapR TVal.ref (Generated.SliceOps.preload_ref 0 s)
  | .string n => fun s => mapR TVal.string (Generated.SliceOps.preload_string n s)
  | .dict => fun s => mapR TVal.dict (Generated.SliceOps.preload_dict 0 () () s)
  | .addr => fun s => mapR (fun a => TVal.addr (addrM a)) (Generated.SliceOps.preload_address s)

theorem viewR_mapR (f : α → β) (g : β → TVal R) (r : Py.SliceSt R × Option α) (m : SOp R β) (s0 : Slice R)
    (h : viewR f r = m s0) : viewR id (mapR (fun a => g (f a)) r) = m.map g s0 := by
  rcases r with ⟨s, _ | a⟩ <;> simp only [SOp.map, ← h] <;> rfl

theorem srcLoad_eq (k : Kind) (s : Py.SliceSt R) : viewR id (srcLoad k s) = k.load (view s) := by
  cases k <;> simp only [srcLoad, Kind.load]
  · exact viewR_mapR _ (TVal.uint _) _ _ _ (src_load_uint_eq _ s)
  · exact viewR_mapR id (TVal.int _) _ _ _ (src_load_int_eq _ s)
  · exact viewR_mapR _ (TVal.varUint _) _ _ _ (src_load_var_uint_eq _ s)
  · exact viewR_mapR id (TVal.varInt _) _ _ _ (src_load_var_int_eq _ s)
  · exact viewR_mapR _ TVal.coins _ _ _ (src_load_coins_eq s)
  · exact viewR_mapR id TVal.bit _ _ _ (src_load_bool_eq s)
  · exact viewR_mapR id TVal.bits _ _ _ (src_load_bits_eq _ s)
  · exact viewR_mapR id TVal.bytes _ _ _ (src_load_bytes_eq _ s)
  · exact viewR_mapR id TVal.string _ _ _ (src_load_string_eq _ s)
  · exact viewR_mapR id TVal.ref _ _ _ (src_load_ref_eq s)
  · exact viewR_mapR id TVal.maybeRef _ _ _ (src_load_maybe_ref_eq s)
  · exact viewR_mapR id TVal.dict _ _ _ (src_load_dict_eq _ _ _ s)
  · exact viewR_mapR addrM TVal.addr _ _ _ (src_load_address_eq s)

theorem srcPreload_eq (k : Kind) (s : Py.SliceSt R) : viewR id (srcPreload k s) = k.preload (view s) := by
  cases k <;> simp only [srcPreload, Kind.preload]
  · exact viewR_mapR _ (TVal.uint _) _ _ _ (src_preload_uint_eq _ s)
  · exact viewR_mapR id (TVal.int _) _ _ _ (src_preload_int_eq _ s)
  · exact viewR_mapR _ (TVal.varUint _) _ _ _ (src_preload_var_uint_eq _ s)
  · exact viewR_mapR id (TVal.varInt _) _ _ _ (src_preload_var_int_eq _ s)
  · exact viewR_mapR _ TVal.coins _ _ _ (src_preload_coins_eq s)
  · exact viewR_mapR id TVal.bit _ _ _ (src_preload_bool_eq s)
  · exact viewR_mapR id TVal.bits _ _ _ (src_preload_bits_eq _ s)
  · exact viewR_mapR id TVal.bytes _ _ _ (src_preload_bytes_eq _ s)
  · exact viewR_mapR id TVal.string _ _ _ (src_preload_string_eq _ s)
  · exact viewR_mapR id TVal.ref _ _ _ (src_preload_ref_eq s)
  · exact viewR_mapR id TVal.maybeRef _ _ _ (src_preload_maybe_ref_eq s)
  · exact viewR_mapR id TVal.dict _ _ _ (src_preload_dict_eq _ _ _ s)
  · exact viewR_mapR addrM TVal.addr _ _ _ (src_preload_address_eq s)

end TonVerif.Proofs.SrcTyped
